import LadimProofs.Basic
import Mathlib.Data.Rat.Floor
import LadimProofs.Bridge.SampleSeq
import LadimModel.Grid.GridCtorSeq
/-!
# Bridge (C15 / C14) — the constructor and the coordinate helpers of the chemicals `Grid`

`LadimModel/Grid/GridCtorSeq.lean` interprets the generated statement sequences `Gen.chem_grid_ctor_seq`
(`chemicals/gridforce.py :: Grid.__init__`), `Gen.chem_grid_lonlat_seq`, `Gen.chem_grid_onland_seq`,
`Gen.chem_grid_ll2xy_seq` and `Gen.lice_vert_mix_seq` (`salmon_lice/gridforce.py :: Forcing.vert_mix`): every statement,
condition and `return` text must be a known one, also in branches not taken; the loop over `limits` is iterated.
This file proves what the interpretations return.

* `chem_grid_ctor` (no hypotheses): `Grid(config)` = `gridCtorSpec` — the file that is opened (`grid_file`, else the
  first of `input_file`, else the first sorted match of the pattern; `SystemExit` / `IndexError` / `OSError`
  otherwise), `[i0, i1, j0, j1]` (`gcLimits`; `chem_grid_ctor_limits_default / _subgrid / _length`: the entries as given,
  `None` → the entry of `[1, imax - 1, 1, jmax - 1]`, any length but four raises, nothing is compared with the file), the
  s-level data (`gcSLevels`: all from `Vinfo` if configured, else `hc`, `Cs_r`, `Cs_w` from the grid file and
  `Vtransform` from the file or 1), the masks (`gcMasks`), the attributes (`gcBuild`: `xmin = float(i0)`,
  `xmax = float(i1 - 1)`, …, every 2-D array = the file's array sliced `[j0:j1, i0:i1]`).  `chem_grid_ctor_some`: the
  constructor returns an object exactly when these five steps succeed.
  The proof runs the sequence part by part (`gc_runBlocks_append`; the parts are `take` / `drop` of the generated
  blocks, no statement text is repeated here except the eleven mask statements, tied by `gcP5b_eq`).
* `chem_grid_ctor_env`: the attributes that `SampleSeq.GridEnv` takes as parameters.  `chem_grid_ctor_arrays`
  (hypotheses: `GcValid` = `0 ≤ i0 ≤ i1 ≤ imax`, `0 ≤ j0 ≤ j1 ≤ jmax` of the file; the file's 2-D variables have the
  shape of `h`): shapes `(j1 - j0, i1 - i0)` and `H[j - j0, i - i0] = h[j, i]` (`M`, `dx`, `lon`, `lat` alike).
* `chem_grid_ingrid_cell`, `chem_grid_ingrid_sample_depth`, `chem_grid_ctor_sample_depth` (hypotheses: `GcValid`, and
  `GcRoundLaw` — a position strictly within half a cell of an integer range rounds into it; `gc_roundLaw_of_field`
  derives it in an ordered field from `float(n) = n`, `|round x - x| ≤ 1/2`, `int(float(k)) = k`; satisfiable, see the
  example on `ℚ`): `ingrid` of the hand-written model with the constructor's `xmin … ymax` ⇒
  `0 ≤ round(x) - i0 < i1 - i0`, `cellIndex` does not clamp, `Grid.sample_depth` (`Bridge.chem_grid_sample_depth`) is the
  file's `h` at the rounded position.
* `chem_grid_ctor_masks`, `chem_grid_ctor_masks_valid`, `chem_grid_ctor_negative_bounds`: the `Mu` / `Mv` statements are
  the only place where the constructor notices a subgrid that does not fit the file (`ValueError` of the broadcast /
  `IndexError`); they pass exactly when the slices have the lengths `j1 - j0`, `i1 - i0 ≥ 1` — which a *negative* bound
  satisfies as well (Python slices count it from the end): then `xmin = float(i0) < 0` and `H[j - j0, i - i0]` is the
  file's `h[j, i + imax]`.
* `chem_grid_lonlat` (`bilinear`: `xy2ll`, else `lon` / `lat` at `cellIndex`), `chem_grid_onland` (`M < 1` at the
  clamped cell; `chem_grid_onland_not_atsea`: = `¬ atsea` on the integer mask the constructor stores, `gc_int_mask`),
  `chem_grid_ll2xy` (`bilin_inv(…, maxiter=20, tol=1e-20)` returns row first; shifted by `i0`, `j0`), `lice_vert_mix`
  (`z2s` on `z_w`, nearest sampling of `AKs`; `lice_vert_mix_model` with the hand-written `z2sK` / `z2sA`): closed forms,
  no hypotheses (`lice_vert_mix_model`: at least two w-levels).

Core Lean for everything about the sequences (no field or order laws of the scalar type: the statements hold for
`Float`); Mathlib only for `gc_roundLaw_of_field`, `gc_int_mask` and the example on `ℚ`.
-/
open Ladim Ladim.Seq Ladim.Seq.Loops Ladim.SampleSeq Ladim.GridSample Ladim.GridCtorSeq

set_option linter.unusedVariables false
set_option linter.unusedSectionVars false
set_option linter.unusedSimpArgs false
namespace Bridge

/-! ## the runner: a block list runs part by part -/
section runner
variable {σ : Type}

def gcNoReturn : Block → Bool
  | .plain st => !(st.2.1 == "return")
  | .loop _ _ => true

theorem gc_runBlocks_append (I : Interp σ) (a b : List Block) (h : a.all gcNoReturn = true) (s : σ) :
    runBlocks I (a ++ b) s =
      match runBlocks I a s with
      | none => none
      | some none => some none
      | some (some s') => runBlocks I b s' := by
  induction a generalizing s with
  | nil => rfl
  | cons x xs ih =>
    rw [List.all_cons, Bool.and_eq_true] at h
    obtain ⟨hx, hxs⟩ := h
    cases x with
    | plain st =>
      obtain ⟨g, k, t⟩ := st
      have hk : (k = "return") = False := by
        simp only [gcNoReturn, Bool.not_eq_true', beq_eq_false_iff_ne, ne_eq] at hx
        simpa using hx
      simp only [List.cons_append, runBlocks, hk, if_false]
      rcases guardEnter I s g with _ | _ | s1 <;> dsimp only
      · exact ih hxs s
      · rcases I.step s1 k t with _ | _ | s2 <;> dsimp only
        exact ih hxs s2
    | loop c body =>
      simp only [List.cons_append, runBlocks]
      rcases guardEnter I s (outerGuard I.isLoop body) with _ | _ | s1 <;> dsimp only
      · exact ih hxs s
      · rcases iterate (fun s i => runBody I body (I.bind s c i)) (I.trips s1 c) 0 s1 with _ | _ | s2 <;> dsimp only
        exact ih hxs s2
end runner

section
variable {α : Type} [Add α] [Sub α] [Mul α] [Div α] [Neg α] [LT α] [DecidableLT α]
  [LE α] [DecidableLE α] [OfScientific α] [HasRound α] [HasTrunc α] [HasOfInt α]

/-! ## `Grid.__init__`: the parts of the sequence -/

/-- the blocks of the generated sequence (the `for` loop is one block) -/
def gcB : List Block := blocks gcIsLoop Gen.chem_grid_ctor_seq
/-- the grid file is found and opened (14 statements) -/
def gcP1 : List Block := gcB.take 14
/-- `whole_grid`, `limits`, the loop over `limits`, the unpacking (6 blocks) -/
def gcP2 : List Block := (gcB.drop 14).take 6
/-- `imax … ymax`, the slices (12 statements) -/
def gcP3 : List Block := (gcB.drop 20).take 12
/-- the s-level data (13 statements) -/
def gcP4 : List Block := (gcB.drop 32).take 13
/-- the arrays of the subgrid, `z_r`, `z_w`, the local `M` (10 statements) -/
def gcP5a : List Block := (gcB.drop 45).take 10
/-- `Mu`, `Mv`, `ncid.close()` (11 statements) -/
def gcP5b : List Block := gcB.drop 55

set_option maxRecDepth 100000 in
theorem gcB_split : gcB = gcP1 ++ (gcP2 ++ (gcP3 ++ (gcP4 ++ (gcP5a ++ gcP5b)))) := by rfl

set_option maxRecDepth 100000 in
theorem gcP_noReturn : gcP1.all gcNoReturn = true ∧ gcP2.all gcNoReturn = true ∧ gcP3.all gcNoReturn = true
    ∧ gcP4.all gcNoReturn = true ∧ gcP5a.all gcNoReturn = true := by
  refine ⟨by rfl, by rfl, by rfl, by rfl, by rfl⟩

set_option maxRecDepth 100000 in
/-- every statement and condition text of the sequence is one the interpretation knows -/
theorem gc_known (E : GcEnv α) (cfg : GcConfig α) :
    Gen.chem_grid_ctor_seq.all (stmtKnown (gcInterp E cfg) GcSt.init) = true := by
  rfl

/-! ### part 1: the grid file -/

def gcPatOf (cfg : GcConfig α) : Option (GcPattern α) := if cfg.gridFile.isSome then none else cfg.inputFile
def gcFilesOf (cfg : GcConfig α) : Option (List (GcFileRef α)) :=
  match cfg.gridFile, cfg.inputFile with
  | none, some (.files fs) => some fs
  | none, some (.pattern _ found) => some found
  | _, _ => none

def gcS1 (ref : GcFileRef α) (pat : Option (GcPattern α)) (files : Option (List (GcFileRef α))) (f : GcFile α) : GcSt α :=
  { gridFile := some ref, pat := pat, files := files, ncid := some f }

set_option maxRecDepth 100000 in
theorem gc_phase1 (E : GcEnv α) (cfg : GcConfig α) :
    runBlocks (gcInterp E cfg) gcP1 GcSt.init =
      match gcGridFileOf cfg with
      | none => some none
      | some ref =>
        match ref.content with
        | none => some none
        | some f => some (some (gcS1 ref (gcPatOf cfg) (gcFilesOf cfg) f)) := by
  obtain ⟨gf, inf, sg, vi⟩ := cfg
  cases gf with
  | some ref =>
    obtain ⟨nm, mem, ct⟩ := ref
    cases mem <;> cases ct <;> rfl
  | none =>
    cases inf with
    | none => rfl
    | some p =>
      cases p with
      | files fs =>
        cases fs with
        | nil => rfl
        | cons ref rest =>
          obtain ⟨nm, mem, ct⟩ := ref
          cases mem <;> cases ct <;> rfl
      | pattern pt fs =>
        cases fs with
        | nil => rfl
        | cons ref rest =>
          obtain ⟨nm, mem, ct⟩ := ref
          cases mem <;> cases ct <;> rfl


/-! ### part 2: the limits of the subgrid -/

/-- after the subgrid limits are unpacked (`ind`, `val`: the loop variables after the last trip) -/
def gcS2 (ref : GcFileRef α) (pat : Option (GcPattern α)) (files : Option (List (GcFileRef α))) (f : GcFile α)
    (lim : Int × Int × Int × Int) (ind : Nat) (val : Option Int) : GcSt α :=
  { gcS1 ref pat files f with
    jmaxF := some (f.h.jmax : Int), imaxF := some (f.h.imax : Int),
    wholeGrid := some [1, (f.h.imax : Int) - 1, 1, (f.h.jmax : Int) - 1],
    limits := some [some lim.1, some lim.2.1, some lim.2.2.1, some lim.2.2.2], ind := ind, val := val,
    i0 := some lim.1, i1 := some lim.2.1, j0 := some lim.2.2.1, j1 := some lim.2.2.2 }

set_option maxRecDepth 100000 in
theorem gc_phase2_none (E : GcEnv α) (cfg : GcConfig α) (ref : GcFileRef α) (pat : Option (GcPattern α))
    (files : Option (List (GcFileRef α))) (f : GcFile α) (h : cfg.subgrid = none) :
    runBlocks (gcInterp E cfg) gcP2 (gcS1 ref pat files f) =
      some (some (gcS2 ref pat files f (1, (f.h.imax : Int) - 1, 1, (f.h.jmax : Int) - 1) 3 (some ((f.h.jmax : Int) - 1)))) := by
  obtain ⟨gf, inf, sg, vi⟩ := cfg
  simp only at h
  subst h
  rfl

set_option maxRecDepth 100000 in
theorem gc_phase2_four (E : GcEnv α) (cfg : GcConfig α) (ref : GcFileRef α) (pat : Option (GcPattern α))
    (files : Option (List (GcFileRef α))) (f : GcFile α) (a b c d : Option Int) (h : cfg.subgrid = some [a, b, c, d]) :
    runBlocks (gcInterp E cfg) gcP2 (gcS1 ref pat files f) =
      some (some (gcS2 ref pat files f
        (a.getD 1, b.getD ((f.h.imax : Int) - 1), c.getD 1, d.getD ((f.h.jmax : Int) - 1)) 3 d)) := by
  obtain ⟨gf, inf, sg, vi⟩ := cfg
  simp only at h
  subst h
  cases a <;> cases b <;> cases c <;> cases d <;> rfl

set_option maxRecDepth 100000 in
theorem gc_phase2_short (E : GcEnv α) (cfg : GcConfig α) (ref : GcFileRef α) (pat : Option (GcPattern α))
    (files : Option (List (GcFileRef α))) (f : GcFile α) (l : List (Option Int)) (h : cfg.subgrid = some l)
    (hl : l.length < 4) :
    runBlocks (gcInterp E cfg) gcP2 (gcS1 ref pat files f) = some none := by
  obtain ⟨gf, inf, sg, vi⟩ := cfg
  simp only at h
  subst h
  match l, hl with
  | [], _ => rfl
  | [a], _ => cases a <;> rfl
  | [a, b], _ => cases a <;> cases b <;> rfl
  | [a, b, c], _ => cases a <;> cases b <;> cases c <;> rfl
  | _ :: _ :: _ :: _ :: _, hl => simp at hl; omega


def gcHdr : String := "for (ind, val) in enumerate(limits)"
def gcBody : List Stmt := [([(true, gcHdr), (true, "val is None")], "assign", "limits[ind] = whole_grid[ind]")]
def gcUnpack : Stmt := ([], "assign", "self.i0, self.i1, self.j0, self.j1 = limits")

set_option maxRecDepth 100000 in
theorem gcP2_split : gcP2 = (gcP2.take 4) ++ [.loop gcHdr gcBody, .plain gcUnpack] := by rfl

/-- one trip of the loop -/
def gcTrip (E : GcEnv α) (cfg : GcConfig α) (s : GcSt α) (i : Nat) : Option (Option (GcSt α)) :=
  runBody (gcInterp E cfg) gcBody ((gcInterp E cfg).bind s gcHdr i)

set_option maxRecDepth 100000 in
/-- a trip raises, or keeps the length of `limits` (and `whole_grid`) -/
theorem gc_trip_inv (E : GcEnv α) (cfg : GcConfig α) (s : GcSt α) (i : Nat) (L : List (Option Int)) (w : List Int)
    (hL : s.limits = some L) (hw : s.wholeGrid = some w) :
    gcTrip E cfg s i = some none ∨
      ∃ s' L', gcTrip E cfg s i = some (some s') ∧ s'.limits = some L' ∧ L'.length = L.length ∧ s'.wholeGrid = some w := by
  have hloop : (gcInterp E cfg).isLoop gcHdr = true := by rfl
  have hnl : (gcInterp E cfg).isLoop "val is None" = false := by rfl
  have hcond : ∀ s : GcSt α, (gcInterp E cfg).cond s "val is None" = some (s.val.isNone, s) := fun s => rfl
  have hstep : ∀ s : GcSt α, (gcInterp E cfg).step s "assign" "limits[ind] = whole_grid[ind]" =
      some (s.limits.bind fun l => s.wholeGrid.bind fun w => w[s.ind]?.map fun x =>
        { s with limits := some (l.set s.ind (some x)) }) := fun s => rfl
  have hk : ("assign" = "return") = False := by decide
  have hb : (gcInterp E cfg).bind s gcHdr i = gcBind s gcHdr i := rfl
  have hl' : (gcBind s gcHdr i).limits = some L := by simp [gcBind, hL]
  have hw' : (gcBind s gcHdr i).wholeGrid = some w := by simp [gcBind, hw]
  unfold gcTrip gcBody
  simp only [runBody, guardEnter, hloop, hnl, if_true, hcond, hk, if_false, hstep, hb, Bool.false_eq_true]
  cases (gcBind s gcHdr i).val with
  | some v => exact Or.inr ⟨_, L, rfl, hl', rfl, hw'⟩
  | none =>
    simp only [Option.isNone_none, beq_self_eq_true, if_true, hl', hw', Option.bind_some]
    cases w[(gcBind s gcHdr i).ind]? with
    | none => exact Or.inl rfl
    | some x => exact Or.inr ⟨_, L.set (gcBind s gcHdr i).ind (some x), rfl, rfl, List.length_set, rfl⟩

/-- the loop raises, or keeps the length of `limits` -/
theorem gc_loop_inv (E : GcEnv α) (cfg : GcConfig α) (w : List Int) :
    ∀ (n i : Nat) (s : GcSt α) (L : List (Option Int)), s.limits = some L → s.wholeGrid = some w →
      iterate (gcTrip E cfg) n i s = some none ∨
        ∃ s' L', iterate (gcTrip E cfg) n i s = some (some s') ∧ s'.limits = some L' ∧ L'.length = L.length
  | 0, _, s, L, hL, _ => Or.inr ⟨s, L, rfl, hL, rfl⟩
  | n + 1, i, s, L, hL, hw => by
    rcases gc_trip_inv E cfg s i L w hL hw with h | ⟨s', L', h, hL', hlen, hw'⟩
    · left
      simp only [iterate, h]
    · rcases gc_loop_inv E cfg w n (i + 1) s' L' hL' hw' with h2 | ⟨s'', L'', h2, hL'', hlen2⟩
      · left
        simp only [iterate, h, h2]
      · right
        exact ⟨s'', L'', by simp only [iterate, h, h2], hL'', by omega⟩

set_option maxRecDepth 100000 in
/-- more than four entries: `IndexError` in the loop (a `None` beyond the fourth entry) or `ValueError` at the
unpacking -/
theorem gc_phase2_long (E : GcEnv α) (cfg : GcConfig α) (ref : GcFileRef α) (pat : Option (GcPattern α))
    (files : Option (List (GcFileRef α))) (f : GcFile α) (l : List (Option Int)) (h : cfg.subgrid = some l)
    (hl : 5 ≤ l.length) :
    runBlocks (gcInterp E cfg) gcP2 (gcS1 ref pat files f) = some none := by
  have hhead : runBlocks (gcInterp E cfg) (gcP2.take 4) (gcS1 ref pat files f) =
      some (some { gcS1 ref pat files f with
        jmaxF := some (f.h.jmax : Int), imaxF := some (f.h.imax : Int),
        wholeGrid := some [1, (f.h.imax : Int) - 1, 1, (f.h.jmax : Int) - 1], limits := some l }) := by
    obtain ⟨gf, inf, sg, vi⟩ := cfg
    simp only at h
    subst h
    rfl
  have hunpack : ∀ s : GcSt α, (gcInterp E cfg).step s "assign" "self.i0, self.i1, self.j0, self.j1 = limits" =
      some (match s.limits with
        | some [some a, some b, some c, some d] =>
          some { s with i0 := some a, i1 := some b, j0 := some c, j1 := some d }
        | _ => none) := fun s => rfl
  rw [gcP2_split, gc_runBlocks_append _ _ _ (by rfl), hhead]
  dsimp only
  generalize hs : ({ gcS1 ref pat files f with
        jmaxF := some (f.h.jmax : Int), imaxF := some (f.h.imax : Int),
        wholeGrid := some [1, (f.h.imax : Int) - 1, 1, (f.h.jmax : Int) - 1], limits := some l } : GcSt α) = s0
  have hL0 : s0.limits = some l := by subst hs; rfl
  have hw0 : s0.wholeGrid = some [1, (f.h.imax : Int) - 1, 1, (f.h.jmax : Int) - 1] := by subst hs; rfl
  have hg : guardEnter (gcInterp E cfg) s0 (outerGuard (gcInterp E cfg).isLoop gcBody) = some (some s0) := by rfl
  simp only [runBlocks, hg]
  have ht : (fun s i => runBody (gcInterp E cfg) gcBody ((gcInterp E cfg).bind s gcHdr i)) = gcTrip E cfg := rfl
  rw [ht]
  rcases gc_loop_inv E cfg _ ((gcInterp E cfg).trips s0 gcHdr) 0 s0 l hL0 hw0 with h1 | ⟨s', L', h1, hL', hlen⟩
  · rw [h1]
  · rw [h1]
    dsimp only [gcUnpack, guardEnter]
    rw [hunpack, hL']
    match L', hlen with
    | a :: b :: c :: d :: e :: rest, _ => cases a <;> cases b <;> cases c <;> cases d <;> rfl
    | [], hlen | [_], hlen | [_, _], hlen | [_, _, _], hlen | [_, _, _, _], hlen => simp at hlen; omega


/-! ### parts 3 and 4: the slices, the s-level data -/

def gcS3 (ref : GcFileRef α) (pat : Option (GcPattern α)) (files : Option (List (GcFileRef α))) (f : GcFile α)
    (lim : Int × Int × Int × Int) (ind : Nat) (val : Option Int) : GcSt α :=
  { gcS2 ref pat files f lim ind val with
    imax := some (lim.2.1 - lim.1), jmax := some (lim.2.2.2 - lim.2.2.1),
    xmin := some (ofInt lim.1), xmax := some (ofInt (lim.2.1 - 1)),
    ymin := some (ofInt lim.2.2.1), ymax := some (ofInt (lim.2.2.2 - 1)),
    I := some (lim.1, lim.2.1), J := some (lim.2.2.1, lim.2.2.2), Iu := some (lim.1 - 1, lim.2.1),
    Ju := some (lim.2.2.1, lim.2.2.2), Iv := some (lim.1, lim.2.1), Jv := some (lim.2.2.1 - 1, lim.2.2.2) }

set_option maxRecDepth 100000 in
theorem gc_phase3 (E : GcEnv α) (cfg : GcConfig α) (ref : GcFileRef α) (pat : Option (GcPattern α))
    (files : Option (List (GcFileRef α))) (f : GcFile α) (lim : Int × Int × Int × Int) (ind : Nat) (val : Option Int) :
    runBlocks (gcInterp E cfg) gcP3 (gcS2 ref pat files f lim ind val) =
      some (some (gcS3 ref pat files f lim ind val)) := by
  rfl

def gcS4 (cfg : GcConfig α) (ref : GcFileRef α) (pat : Option (GcPattern α)) (files : Option (List (GcFileRef α)))
    (f : GcFile α) (lim : Int × Int × Int × Int) (ind : Nat) (val : Option Int) (sl : GcSLevels α) : GcSt α :=
  { gcS3 ref pat files f lim ind val with
    vinfo := cfg.vinfo, N := some sl.N, hc := some sl.hc, Vstretching := sl.Vstretching,
    Vtransform := some sl.Vtransform, Cs_r := some sl.Cs_r, Cs_w := some sl.Cs_w }

set_option maxRecDepth 100000 in
theorem gc_phase4 (E : GcEnv α) (cfg : GcConfig α) (ref : GcFileRef α) (pat : Option (GcPattern α))
    (files : Option (List (GcFileRef α))) (f : GcFile α) (lim : Int × Int × Int × Int) (ind : Nat) (val : Option Int) :
    runBlocks (gcInterp E cfg) gcP4 (gcS3 ref pat files f lim ind val) =
      match gcSLevels E cfg f with
      | none => some none
      | some sl => some (some (gcS4 cfg ref pat files f lim ind val sl)) := by
  obtain ⟨gf, inf, sg, vi⟩ := cfg
  cases vi with
  | some v => rfl
  | none =>
    obtain ⟨h, mask, pm, pn, lon, lat, ang, hc, csr, csw, vt⟩ := f
    cases hc with
    | none => rfl
    | some hc =>
      cases csr with
      | none => rfl
      | some csr =>
        cases csw with
        | none => rfl
        | some csw => cases vt <;> rfl


/-! ### part 5: the arrays of the subgrid and the masks -/

def gcS5 (E : GcEnv α) (cfg : GcConfig α) (ref : GcFileRef α) (pat : Option (GcPattern α))
    (files : Option (List (GcFileRef α))) (f : GcFile α) (lim : Int × Int × Int × Int) (ind : Nat) (val : Option Int)
    (sl : GcSLevels α) : GcSt α :=
  let J := (lim.2.2.1, lim.2.2.2)
  let I := (lim.1, lim.2.1)
  { gcS4 cfg ref pat files f lim ind val sl with
    H := some (gcSlice f.h J I), M := some (gcMaskOf f lim),
    dx := some (gcMap (fun v => 1.0 / v) (gcSlice f.pm J I)), dy := some (gcMap (fun v => 1.0 / v) (gcSlice f.pn J I)),
    lon := some (gcSlice f.lon_rho J I), lat := some (gcSlice f.lat_rho J I), angle := some (gcSlice f.angle J I),
    z_r := some (E.sdepth (gcSlice f.h J I) sl.hc sl.Cs_r true sl.Vtransform),
    z_w := some (E.sdepth (gcSlice f.h J I) sl.hc sl.Cs_w false sl.Vtransform),
    Mloc := some (gcMaskOf f lim) }

set_option maxRecDepth 100000 in
theorem gc_phase5a (E : GcEnv α) (cfg : GcConfig α) (ref : GcFileRef α) (pat : Option (GcPattern α))
    (files : Option (List (GcFileRef α))) (f : GcFile α) (lim : Int × Int × Int × Int) (ind : Nat) (val : Option Int)
    (sl : GcSLevels α) :
    runBlocks (gcInterp E cfg) gcP5a (gcS4 cfg ref pat files f lim ind val sl) =
      some (some (gcS5 E cfg ref pat files f lim ind val sl)) := by
  rfl

/-- the statements that fill the masks at the u- and v-points and close the file, spelled out (tied to the generated
sequence by `gcP5b_eq`) -/
def gcMaskStmts : List Block := [
  .plain ([], "assign", "Mu = np.zeros((self.jmax, self.imax + 1), dtype=int)"),
  .plain ([], "assign", "Mu[:, 1:-1] = M[:, :-1] * M[:, 1:]"),
  .plain ([], "assign", "Mu[:, 0] = M[:, 0]"),
  .plain ([], "assign", "Mu[:, -1] = M[:, -1]"),
  .plain ([], "assign", "self.Mu = Mu"),
  .plain ([], "assign", "Mv = np.zeros((self.jmax + 1, self.imax), dtype=int)"),
  .plain ([], "assign", "Mv[1:-1, :] = M[:-1, :] * M[1:, :]"),
  .plain ([], "assign", "Mv[0, :] = M[0, :]"),
  .plain ([], "assign", "Mv[-1, :] = M[-1, :]"),
  .plain ([], "assign", "self.Mv = Mv"),
  .plain ([], "expr", "ncid.close()")]

set_option maxRecDepth 100000 in
theorem gcP5b_eq : gcP5b = gcMaskStmts := by rfl

set_option maxRecDepth 100000 in
/-- the mask statements from a state in which `self.jmax`, `self.imax`, the local `M` and `ncid` are assigned -/
theorem gc_masks_run (E : GcEnv α) (cfg : GcConfig α) (s : GcSt α) (jm im : Int) (m : Arr2 Int) (f : GcFile α)
    (hj : s.jmax = some jm) (hi : s.imax = some im) (hm : s.Mloc = some m) (hn : s.ncid = some f) :
    runBlocks (gcInterp E cfg) gcP5b s =
      match gcMasks jm im m with
      | none => some none
      | some masks => some (some { s with MuLoc := some masks.1, Mu := some masks.1, MvLoc := some masks.2,
                                          Mv := some masks.2, closed := true }) := by
  have k1 : ("assign" = "return") = False := by decide
  have k2 : ("expr" = "return") = False := by decide
  have s1 : ∀ s : GcSt α, (gcInterp E cfg).step s "assign" "Mu = np.zeros((self.jmax, self.imax + 1), dtype=int)" =
    some (s.jmax.bind fun jm => s.imax.bind fun im => (gcZeros? jm (im + 1)).map fun z => { s with MuLoc := some z }) :=
    fun _ => rfl
  have s2 : ∀ s : GcSt α, (gcInterp E cfg).step s "assign" "Mu[:, 1:-1] = M[:, :-1] * M[:, 1:]" =
    some (s.MuLoc.bind fun mu => s.Mloc.bind fun m => (gcSetInnerCols? mu m).map fun z => { s with MuLoc := some z }) :=
    fun _ => rfl
  have s3 : ∀ s : GcSt α, (gcInterp E cfg).step s "assign" "Mu[:, 0] = M[:, 0]" =
    some (s.MuLoc.bind fun mu => s.Mloc.bind fun m => (gcSetFirstCol? mu m).map fun z => { s with MuLoc := some z }) :=
    fun _ => rfl
  have s4 : ∀ s : GcSt α, (gcInterp E cfg).step s "assign" "Mu[:, -1] = M[:, -1]" =
    some (s.MuLoc.bind fun mu => s.Mloc.bind fun m => (gcSetLastCol? mu m).map fun z => { s with MuLoc := some z }) :=
    fun _ => rfl
  have s5 : ∀ s : GcSt α, (gcInterp E cfg).step s "assign" "self.Mu = Mu" =
    some (s.MuLoc.map fun mu => { s with Mu := some mu }) := fun _ => rfl
  have s6 : ∀ s : GcSt α, (gcInterp E cfg).step s "assign" "Mv = np.zeros((self.jmax + 1, self.imax), dtype=int)" =
    some (s.jmax.bind fun jm => s.imax.bind fun im => (gcZeros? (jm + 1) im).map fun z => { s with MvLoc := some z }) :=
    fun _ => rfl
  have s7 : ∀ s : GcSt α, (gcInterp E cfg).step s "assign" "Mv[1:-1, :] = M[:-1, :] * M[1:, :]" =
    some (s.MvLoc.bind fun mv => s.Mloc.bind fun m => (gcSetInnerRows? mv m).map fun z => { s with MvLoc := some z }) :=
    fun _ => rfl
  have s8 : ∀ s : GcSt α, (gcInterp E cfg).step s "assign" "Mv[0, :] = M[0, :]" =
    some (s.MvLoc.bind fun mv => s.Mloc.bind fun m => (gcSetFirstRow? mv m).map fun z => { s with MvLoc := some z }) :=
    fun _ => rfl
  have s9 : ∀ s : GcSt α, (gcInterp E cfg).step s "assign" "Mv[-1, :] = M[-1, :]" =
    some (s.MvLoc.bind fun mv => s.Mloc.bind fun m => (gcSetLastRow? mv m).map fun z => { s with MvLoc := some z }) :=
    fun _ => rfl
  have s10 : ∀ s : GcSt α, (gcInterp E cfg).step s "assign" "self.Mv = Mv" =
    some (s.MvLoc.map fun mv => { s with Mv := some mv }) := fun _ => rfl
  have s11 : ∀ s : GcSt α, (gcInterp E cfg).step s "expr" "ncid.close()" =
    some (s.ncid.map fun _ => { s with closed := true }) := fun _ => rfl
  rw [gcP5b_eq]
  unfold gcMaskStmts gcMasks
  simp only [runBlocks, guardEnter, k1, k2, if_false, s1, hj, hi, Option.bind_some]
  cases gcZeros? jm (im + 1) with
  | none => rfl
  | some u0 =>
    simp only [Option.map_some, Option.bind_some, s2, hm]
    cases gcSetInnerCols? u0 m with
    | none => rfl
    | some u1 =>
      simp only [Option.map_some, Option.bind_some, s3, hm]
      cases gcSetFirstCol? u1 m with
      | none => rfl
      | some u2 =>
        simp only [Option.map_some, Option.bind_some, s4, hm]
        cases gcSetLastCol? u2 m with
        | none => rfl
        | some mu =>
          simp only [Option.map_some, Option.bind_some, s5, s6, hj, hi]
          cases gcZeros? (jm + 1) im with
          | none => rfl
          | some v0 =>
            simp only [Option.map_some, Option.bind_some, s7, hm]
            cases gcSetInnerRows? v0 m with
            | none => rfl
            | some v1 =>
              simp only [Option.map_some, Option.bind_some, s8, hm]
              cases gcSetFirstRow? v1 m with
              | none => rfl
              | some v2 =>
                simp only [Option.map_some, Option.bind_some, s9, hm]
                cases gcSetLastRow? v2 m with
                | none => rfl
                | some mv =>
                  simp only [Option.map_some, Option.bind_some, s10, s11, hn]


set_option maxRecDepth 100000 in
theorem gc_phase5 (E : GcEnv α) (cfg : GcConfig α) (ref : GcFileRef α) (pat : Option (GcPattern α))
    (files : Option (List (GcFileRef α))) (f : GcFile α) (lim : Int × Int × Int × Int) (ind : Nat) (val : Option Int)
    (sl : GcSLevels α) :
    gcFinish (runBlocks (gcInterp E cfg) (gcP5a ++ gcP5b) (gcS4 cfg ref pat files f lim ind val sl))
      = some ((gcMasks (lim.2.2.2 - lim.2.2.1) (lim.2.1 - lim.1) (gcMaskOf f lim)).map fun masks =>
          gcBuild E ref f lim sl masks) := by
  rw [gc_runBlocks_append _ _ _ gcP_noReturn.2.2.2.2, gc_phase5a]
  dsimp only
  rw [gc_masks_run E cfg _ (lim.2.2.2 - lim.2.2.1) (lim.2.1 - lim.1) (gcMaskOf f lim) f rfl rfl rfl rfl]
  cases gcMasks (lim.2.2.2 - lim.2.2.1) (lim.2.1 - lim.1) (gcMaskOf f lim) with
  | none => rfl
  | some masks => rfl

/-! ### the whole constructor -/

/-- the statements after the unpacking of the limits -/
theorem gc_tail (E : GcEnv α) (cfg : GcConfig α) (ref : GcFileRef α) (pat : Option (GcPattern α))
    (files : Option (List (GcFileRef α))) (f : GcFile α) (lim : Int × Int × Int × Int) (ind : Nat) (val : Option Int) :
    gcFinish (runBlocks (gcInterp E cfg) (gcP3 ++ (gcP4 ++ (gcP5a ++ gcP5b))) (gcS2 ref pat files f lim ind val))
      = some ((gcSLevels E cfg f).bind fun sl =>
          (gcMasks (lim.2.2.2 - lim.2.2.1) (lim.2.1 - lim.1) (gcMaskOf f lim)).map fun masks =>
            gcBuild E ref f lim sl masks) := by
  rw [gc_runBlocks_append _ _ _ gcP_noReturn.2.2.1, gc_phase3]
  dsimp only
  rw [gc_runBlocks_append _ _ _ gcP_noReturn.2.2.2.1, gc_phase4]
  cases gcSLevels E cfg f with
  | none => rfl
  | some sl => exact gc_phase5 E cfg ref pat files f lim ind val sl

/-- **`Grid.__init__`**: the interpretation of the generated sequence `Gen.chem_grid_ctor_seq` is the closed form
`gridCtorSpec` (no hypotheses): which file is opened (`gcGridFileOf`), `[i0, i1, j0, j1]` (`gcLimits`), the s-level data
(`gcSLevels`), the masks (`gcMasks`), the attributes (`gcBuild`); `none` = the constructor raises -/
theorem chem_grid_ctor (E : GcEnv α) (cfg : GcConfig α) : gridCtor E cfg = some (gridCtorSpec E cfg) := by
  unfold gridCtor gridCtorSeq Loops.run
  rw [if_pos (gc_known E cfg)]
  show gcFinish (runBlocks (gcInterp E cfg) gcB GcSt.init) = _
  rw [gcB_split, gc_runBlocks_append _ _ _ gcP_noReturn.1, gc_phase1]
  unfold gridCtorSpec
  cases gcGridFileOf cfg with
  | none => rfl
  | some ref =>
    obtain ⟨nm, mem, ct⟩ := ref
    cases ct with
    | none => rfl
    | some f =>
      dsimp only [Option.bind]
      generalize hr : GcFileRef.mk nm mem (some f) = ref
      rw [gc_runBlocks_append _ _ _ gcP_noReturn.2.1]
      cases h3 : cfg.subgrid with
      | none =>
        rw [gc_phase2_none E cfg ref _ _ f h3]
        exact gc_tail E cfg ref _ _ f _ _ _
      | some l =>
        match l, h3 with
        | [a, b, c, d], h3 =>
          rw [gc_phase2_four E cfg ref _ _ f a b c d h3]
          exact gc_tail E cfg ref _ _ f _ _ _
        | [], h3 => rw [gc_phase2_short E cfg ref _ _ f _ h3 (by simp)]; rfl
        | [a], h3 => rw [gc_phase2_short E cfg ref _ _ f _ h3 (by simp)]; rfl
        | [a, b], h3 => rw [gc_phase2_short E cfg ref _ _ f _ h3 (by simp)]; rfl
        | [a, b, c], h3 => rw [gc_phase2_short E cfg ref _ _ f _ h3 (by simp)]; rfl
        | a :: b :: c :: d :: e :: rest, h3 => rw [gc_phase2_long E cfg ref _ _ f _ h3 (by simp)]; rfl

/-! ## the methods -/

set_option maxRecDepth 100000 in
theorem chem_grid_lonlat (nextafter0 : α → α) (sample2D : Arr2 α → α → α → α) (g : GridEnv α) (X Y : α)
    (bilinear : Bool) :
    gcLonlatSeq nextafter0 sample2D g X Y bilinear = some (some (gcLonlatSpec nextafter0 sample2D g X Y bilinear)) := by
  cases bilinear <;> rfl

set_option maxRecDepth 100000 in
theorem chem_grid_onland (g : GridEnv α) (X Y : α) :
    gcOnlandSeq g X Y = some (some (decide (g.M.atCell g.i0 g.j0 X Y < 1.0))) := by
  rfl

set_option maxRecDepth 100000 in
theorem chem_grid_ll2xy (bilinInv : α → α → Arr2 α → Arr2 α → α × α) (g : GridEnv α) (lon lat : α) :
    gcLl2xySeq bilinInv g lon lat = some (some (gcLl2xySpec bilinInv g lon lat)) := by
  rfl

set_option maxRecDepth 100000 in
theorem lice_vert_mix (g : GridEnv α) (attr : String → Arr3 α) (X Y Z : α) :
    gcVertMixSeq g attr X Y Z = some (some (gcVertMixSpec g attr X Y Z)) := by
  rfl

theorem lice_vert_mix_model (g : GridEnv α) (attr : String → Arr3 α) (X Y Z zero : α) (hk : 2 ≤ g.z_w.kmax) :
    gcVertMixSeq g attr X Y Z = some (some (gcVertMixSpecWith (z2sModel zero) g attr X Y Z)) := by
  rw [lice_vert_mix]
  unfold gcVertMixSpec gcVertMixSpecWith
  simp only [chem_z2s_model g.z_w _ _ Z zero hk]


/-! ## what the constructed grid gives the sampling methods -/

theorem gc_slice_inside {β : Type} (F : Arr2 β) (j0 j1 i0 i1 : Int)
    (hj : 0 ≤ j0 ∧ j0 ≤ j1 ∧ j1 ≤ F.jmax) (hi : 0 ≤ i0 ∧ i0 ≤ i1 ∧ i1 ≤ F.imax) :
    ((gcSlice F (j0, j1) (i0, i1)).jmax : Int) = j1 - j0 ∧ ((gcSlice F (j0, j1) (i0, i1)).imax : Int) = i1 - i0 ∧
    ∀ j i, (gcSlice F (j0, j1) (i0, i1)).get j i = F.get (j0 + j) (i0 + i) := by
  have b : ∀ (n : Nat) (a : Int), 0 ≤ a → a ≤ n → gcPyBound n a = a := by
    intro n a h0 h1
    unfold gcPyBound
    split <;> omega
  refine ⟨?_, ?_, ?_⟩
  · simp only [gcSlice, gcSliceLen, b F.jmax j0 hj.1 (by omega), b F.jmax j1 (by omega) hj.2.2]
    omega
  · simp only [gcSlice, gcSliceLen, b F.imax i0 hi.1 (by omega), b F.imax i1 (by omega) hi.2.2]
    omega
  · intro j i
    simp only [gcSlice, gcSliceStart, b F.jmax j0 hj.1 (by omega), b F.imax i0 hi.1 (by omega)]


/-- what the sampling code needs of `round` / `.astype(int)` / `float(·)`: a position strictly within half a cell of
the integer range `[a, b]` rounds into it -/
def GcRoundLaw (α : Type) [Add α] [Sub α] [LT α] [OfScientific α] [HasRound α] [HasTrunc α] [HasOfInt α] : Prop :=
  ∀ (x : α) (a b : Int), ofInt a - 0.5 < x → x < ofInt b + 0.5 → a ≤ trunc (round x) ∧ trunc (round x) ≤ b

/-- a valid subgrid of the file `f` (what the comment in the code asks for, weakened to what the slices need) -/
def GcValid (f : GcFile α) (lim : Int × Int × Int × Int) : Prop :=
  (0 ≤ lim.1 ∧ lim.1 ≤ lim.2.1 ∧ lim.2.1 ≤ f.h.imax) ∧ (0 ≤ lim.2.2.1 ∧ lim.2.2.1 ≤ lim.2.2.2 ∧ lim.2.2.2 ≤ f.h.jmax)

/-- the attributes `SampleSeq.GridEnv` takes as parameters, as the constructor sets them -/
theorem chem_grid_ctor_env (E : GcEnv α) (ref : GcFileRef α) (f : GcFile α) (lim : Int × Int × Int × Int)
    (sl : GcSLevels α) (mk : Arr2 Int × Arr2 Int) :
    let g := (gcBuild E ref f lim sl mk).env
    g.i0 = lim.1 ∧ g.j0 = lim.2.2.1 ∧
    g.xmin = ofInt lim.1 ∧ g.xmax = ofInt (lim.2.1 - 1) ∧ g.ymin = ofInt lim.2.2.1 ∧ g.ymax = ofInt (lim.2.2.2 - 1) ∧
    g.H = gcSlice f.h (lim.2.2.1, lim.2.2.2) (lim.1, lim.2.1) ∧
    g.M = gcMap ofInt (gcMap trunc (gcSlice f.mask_rho (lim.2.2.1, lim.2.2.2) (lim.1, lim.2.1))) ∧
    g.dx = gcMap (fun v => 1.0 / v) (gcSlice f.pm (lim.2.2.1, lim.2.2.2) (lim.1, lim.2.1)) ∧
    g.lon = gcSlice f.lon_rho (lim.2.2.1, lim.2.2.2) (lim.1, lim.2.1) ∧
    g.lat = gcSlice f.lat_rho (lim.2.2.1, lim.2.2.2) (lim.1, lim.2.1) ∧
    g.z_r = E.sdepth g.H sl.hc sl.Cs_r true sl.Vtransform ∧ g.z_w = E.sdepth g.H sl.hc sl.Cs_w false sl.Vtransform ∧
    g.nCsw = sl.Cs_w.length :=
  ⟨rfl, rfl, rfl, rfl, rfl, rfl, rfl, rfl, rfl, rfl, rfl, rfl, rfl, rfl⟩

/-- for a valid subgrid the stored arrays are the file arrays restricted to `[j0:j1, i0:i1]`: shape
`(j1 - j0, i1 - i0)`, and `H[j - j0, i - i0]` is the file's `h[j, i]` -/
theorem chem_grid_ctor_arrays (E : GcEnv α) (ref : GcFileRef α) (f : GcFile α) (lim : Int × Int × Int × Int)
    (sl : GcSLevels α) (mk : Arr2 Int × Arr2 Int) (hv : GcValid f lim)
    (hshape : ∀ A : Arr2 α, A ∈ [f.mask_rho, f.pm, f.lon_rho, f.lat_rho] → A.jmax = f.h.jmax ∧ A.imax = f.h.imax) :
    let g := (gcBuild E ref f lim sl mk).env
    (∀ A : Arr2 α, A ∈ [g.H, g.M, g.dx, g.lon, g.lat] →
      (A.jmax : Int) = lim.2.2.2 - lim.2.2.1 ∧ (A.imax : Int) = lim.2.1 - lim.1) ∧
    ∀ j i : Int,
      g.H.get (j - g.j0) (i - g.i0) = f.h.get j i ∧
      g.M.get (j - g.j0) (i - g.i0) = ofInt (trunc (f.mask_rho.get j i)) ∧
      g.dx.get (j - g.j0) (i - g.i0) = 1.0 / f.pm.get j i ∧
      g.lon.get (j - g.j0) (i - g.i0) = f.lon_rho.get j i ∧
      g.lat.get (j - g.j0) (i - g.i0) = f.lat_rho.get j i := by
  obtain ⟨i0, i1, j0, j1⟩ := lim
  obtain ⟨hi, hj⟩ := hv
  simp only at hi hj
  have hm := hshape f.mask_rho (by simp)
  have hp := hshape f.pm (by simp)
  have hlo := hshape f.lon_rho (by simp)
  have hla := hshape f.lat_rho (by simp)
  have sh := gc_slice_inside f.h j0 j1 i0 i1 hj hi
  have sm := gc_slice_inside f.mask_rho j0 j1 i0 i1 (by rw [hm.1]; exact hj) (by rw [hm.2]; exact hi)
  have sp := gc_slice_inside f.pm j0 j1 i0 i1 (by rw [hp.1]; exact hj) (by rw [hp.2]; exact hi)
  have slo := gc_slice_inside f.lon_rho j0 j1 i0 i1 (by rw [hlo.1]; exact hj) (by rw [hlo.2]; exact hi)
  have sla := gc_slice_inside f.lat_rho j0 j1 i0 i1 (by rw [hla.1]; exact hj) (by rw [hla.2]; exact hi)
  have e : ∀ a b : Int, a + (b - a) = b := by intro a b; omega
  refine ⟨?_, ?_⟩
  · intro A hA
    simp only [List.mem_cons, List.not_mem_nil, or_false] at hA
    rcases hA with h | h | h | h | h <;> subst h
    · exact ⟨sh.1, sh.2.1⟩
    · exact ⟨sm.1, sm.2.1⟩
    · exact ⟨sp.1, sp.2.1⟩
    · exact ⟨slo.1, slo.2.1⟩
    · exact ⟨sla.1, sla.2.1⟩
  · intro j i
    refine ⟨?_, ?_, ?_, ?_, ?_⟩
    · show (gcSlice f.h (j0, j1) (i0, i1)).get (j - j0) (i - i0) = _
      rw [sh.2.2, e, e]
    · show ofInt (trunc ((gcSlice f.mask_rho (j0, j1) (i0, i1)).get (j - j0) (i - i0))) = _
      rw [sm.2.2, e, e]
    · show 1.0 / (gcSlice f.pm (j0, j1) (i0, i1)).get (j - j0) (i - i0) = _
      rw [sp.2.2, e, e]
    · show (gcSlice f.lon_rho (j0, j1) (i0, i1)).get (j - j0) (i - i0) = _
      rw [slo.2.2, e, e]
    · show (gcSlice f.lat_rho (j0, j1) (i0, i1)).get (j - j0) (i - i0) = _
      rw [sla.2.2, e, e]

/-- `ingrid` of the model (with the constructor's `xmin … ymax`) ⇒ the cell index of the sampling methods is inside
the stored arrays without clamping: `0 ≤ round(x) - i0 < i1 - i0` -/
theorem chem_grid_ingrid_cell (hr : GcRoundLaw α) (E : GcEnv α) (ref : GcFileRef α) (f : GcFile α)
    (lim : Int × Int × Int × Int) (sl : GcSLevels α) (mk : Arr2 Int × Arr2 Int) (hv : GcValid f lim) (X Y : α)
    (hin : let g := (gcBuild E ref f lim sl mk).env; GridSample.ingrid g.xmin g.xmax g.ymin g.ymax X Y = true) :
    let g := (gcBuild E ref f lim sl mk).env
    (0 ≤ trunc (round X) - g.i0 ∧ trunc (round X) - g.i0 < lim.2.1 - lim.1) ∧
    (0 ≤ trunc (round Y) - g.j0 ∧ trunc (round Y) - g.j0 < lim.2.2.2 - lim.2.2.1) ∧
    cellIndex g.H.imax g.i0 X = trunc (round X) - g.i0 ∧ cellIndex g.H.jmax g.j0 Y = trunc (round Y) - g.j0 := by
  obtain ⟨i0, i1, j0, j1⟩ := lim
  obtain ⟨hi, hj⟩ := hv
  simp only at hi hj
  have sh := gc_slice_inside f.h j0 j1 i0 i1 hj hi
  simp only [GridSample.ingrid, Bool.and_eq_true, decide_eq_true_eq] at hin
  obtain ⟨⟨⟨h1, h2⟩, h3⟩, h4⟩ := hin
  have rx := hr X i0 (i1 - 1) h1 h2
  have ry := hr Y j0 (j1 - 1) h3 h4
  refine ⟨⟨?_, ?_⟩, ⟨?_, ?_⟩, ?_, ?_⟩
  · show 0 ≤ trunc (round X) - i0
    omega
  · show trunc (round X) - i0 < i1 - i0
    omega
  · show 0 ≤ trunc (round Y) - j0
    omega
  · show trunc (round Y) - j0 < j1 - j0
    omega
  · show clampIdx (gcSlice f.h (j0, j1) (i0, i1)).imax (trunc (round X) - i0) = trunc (round X) - i0
    unfold clampIdx
    omega
  · show clampIdx (gcSlice f.h (j0, j1) (i0, i1)).jmax (trunc (round Y) - j0) = trunc (round Y) - j0
    unfold clampIdx
    omega

/-- … hence `Grid.sample_depth` of a position inside the grid is the file's `h` at the rounded position -/
theorem chem_grid_ingrid_sample_depth (hr : GcRoundLaw α) (E : GcEnv α) (ref : GcFileRef α) (f : GcFile α)
    (lim : Int × Int × Int × Int) (sl : GcSLevels α) (mk : Arr2 Int × Arr2 Int) (hv : GcValid f lim) (X Y : α)
    (hin : let g := (gcBuild E ref f lim sl mk).env; GridSample.ingrid g.xmin g.xmax g.ymin g.ymax X Y = true) :
    sampleDepthSeq (gcBuild E ref f lim sl mk).env X Y = some (some (f.h.get (trunc (round Y)) (trunc (round X)))) := by
  obtain ⟨_, _, hx, hy⟩ := chem_grid_ingrid_cell hr E ref f lim sl mk hv X Y hin
  rw [chem_grid_sample_depth]
  unfold Arr2.atCell
  rw [hx, hy]
  have h := (gc_slice_inside f.h lim.2.2.1 lim.2.2.2 lim.1 lim.2.1 hv.2 hv.1).2.2
  have e : ∀ a b : Int, a + (b - a) = b := by intro a b; omega
  show some (some ((gcSlice f.h (lim.2.2.1, lim.2.2.2) (lim.1, lim.2.1)).get (trunc (round Y) - lim.2.2.1)
    (trunc (round X) - lim.1))) = _
  rw [h, e, e]


/-! ### the limits, as the code has them -/

/-- without `subgrid`: the whole grid without its outermost cells -/
theorem chem_grid_ctor_limits_default (imaxF jmaxF : Int) :
    gcLimits imaxF jmaxF none = some (1, imaxF - 1, 1, jmaxF - 1) := rfl

/-- with `subgrid = [a, b, c, d]`: the entries as given — no check against the file, no `i0 < i1` — and the entry of
the whole grid for every `None` -/
theorem chem_grid_ctor_limits_subgrid (imaxF jmaxF : Int) (a b c d : Option Int) :
    gcLimits imaxF jmaxF (some [a, b, c, d]) = some (a.getD 1, b.getD (imaxF - 1), c.getD 1, d.getD (jmaxF - 1)) := rfl

/-- any other length raises -/
theorem chem_grid_ctor_limits_length (imaxF jmaxF : Int) (l : List (Option Int)) (h : l.length ≠ 4) :
    gcLimits imaxF jmaxF (some l) = none := by
  match l, h with
  | [], _ | [_], _ | [_, _], _ | [_, _, _], _ | _ :: _ :: _ :: _ :: _ :: _, _ => rfl
  | [_, _, _, _], h => simp at h

/-- the constructor returns an object exactly in this way -/
theorem chem_grid_ctor_some (E : GcEnv α) (cfg : GcConfig α) (g : GcGrid α) :
    gridCtor E cfg = some (some g) ↔
      ∃ ref f lim sl masks, gcGridFileOf cfg = some ref ∧ ref.content = some f ∧
        gcLimits (f.h.imax : Int) (f.h.jmax : Int) cfg.subgrid = some lim ∧ gcSLevels E cfg f = some sl ∧
        gcMasks (lim.2.2.2 - lim.2.2.1) (lim.2.1 - lim.1) (gcMaskOf f lim) = some masks ∧
        g = gcBuild E ref f lim sl masks := by
  rw [chem_grid_ctor]
  simp only [gridCtorSpec, Option.some.injEq, Option.bind_eq_some_iff, Option.map_eq_some_iff]
  constructor
  · rintro ⟨ref, h1, f, h2, lim, h3, sl, h4, masks, h5, h6⟩
    exact ⟨ref, f, lim, sl, masks, h1, h2, h3, h4, h5, h6.symm⟩
  · rintro ⟨ref, f, lim, sl, masks, h1, h2, h3, h4, h5, h6⟩
    exact ⟨ref, h1, f, h2, lim, h3, sl, h4, masks, h5, h6.symm⟩

/-- from the configuration to `Grid.sample_depth`: inside the grid it is the file's `h` at the rounded position -/
theorem chem_grid_ctor_sample_depth (hr : GcRoundLaw α) (E : GcEnv α) (cfg : GcConfig α) (g : GcGrid α)
    (hg : gridCtor E cfg = some (some g)) :
    ∃ ref f lim, gcGridFileOf cfg = some ref ∧ ref.content = some f ∧
      gcLimits (f.h.imax : Int) (f.h.jmax : Int) cfg.subgrid = some lim ∧
      ∀ X Y : α, GcValid f lim → GridSample.ingrid g.xmin g.xmax g.ymin g.ymax X Y = true →
        sampleDepthSeq g.env X Y = some (some (f.h.get (trunc (round Y)) (trunc (round X)))) := by
  obtain ⟨ref, f, lim, sl, masks, h1, h2, h3, h4, h5, h6⟩ := (chem_grid_ctor_some E cfg g).mp hg
  subst h6
  exact ⟨ref, f, lim, h1, h2, h3, fun X Y hv hin => chem_grid_ingrid_sample_depth hr E ref f lim sl masks hv X Y hin⟩


/-- `Grid.onland` is the negation of `Grid.atsea` on the grid the constructor builds, given that comparison with the
integer mask behaves (`gc_int_mask`: it does in an ordered field) -/
theorem chem_grid_onland_not_atsea (hm : ∀ m : Int, decide ((ofInt m : α) < 1.0) = !decide ((0.0 : α) < ofInt m))
    (g : GcGrid α) (X Y : α) :
    gcOnlandSeq g.env X Y = some (some (!decide (0.0 < g.env.M.atCell g.env.i0 g.env.j0 X Y))) ∧
    atseaSeq g.env X Y = some (some (decide (0.0 < g.env.M.atCell g.env.i0 g.env.j0 X Y))) := by
  refine ⟨?_, chem_grid_atsea g.env X Y⟩
  rw [chem_grid_onland]
  exact congrArg (fun b => some (some b)) (hm _)

end

/-! ## the masks: the only check of the subgrid against the file -/

theorem gc_ite_some {β : Type} {c : Bool} {x z : β} (h : (if c = true then some x else none) = some z) :
    c = true ∧ x = z := by
  cases c
  · simp at h
  · simpa using h

/-- a Python slice `[a:b]` with `a ≤ b` is never longer than `b - a` -/
theorem gc_sliceLen_le (n : Nat) (a b : Int) (h : a ≤ b) : (gcSliceLen n (a, b) : Int) ≤ b - a := by
  unfold gcSliceLen gcPyBound
  simp only
  split <;> split <;> omega

/-- the masks at the u- and v-points can be filled exactly when `M` (the slices of the file) has the shape
`(jmax, imax) = (j1 - j0, i1 - i0)` and is not empty -/
theorem gc_masks_isSome (jm im : Int) (M : Arr2 Int) (hj : 0 ≤ jm → (M.jmax : Int) ≤ jm) (hi : 0 ≤ im → (M.imax : Int) ≤ im) :
    (gcMasks jm im M).isSome = true ↔ ((M.jmax : Int) = jm ∧ (M.imax : Int) = im ∧ 1 ≤ jm ∧ 1 ≤ im) := by
  constructor
  · intro h
    obtain ⟨p, hp⟩ := Option.isSome_iff_exists.mp h
    simp only [gcMasks, Option.bind_eq_some_iff, Option.map_eq_some_iff] at hp
    obtain ⟨u0, h0, u1, h1, u2, h2, mu, h3, v0, h4, v1, h5, v2, h6, mv, h7, _⟩ := hp
    obtain ⟨c0, e0⟩ := gc_ite_some h0
    obtain ⟨c1, e1⟩ := gc_ite_some h1
    obtain ⟨c2, e2⟩ := gc_ite_some h2
    obtain ⟨c4, e4⟩ := gc_ite_some h4
    obtain ⟨c5, e5⟩ := gc_ite_some h5
    obtain ⟨c6, e6⟩ := gc_ite_some h6
    subst e0 e1 e2 e4 e5 e6
    simp only [gcColOk, gcRowOk, gcBcast, gcSetInnerCols, gcSetInnerRows, gcSetFirstCol, gcSetFirstRow, gcZeros,
      Bool.and_eq_true, Bool.or_eq_true, beq_iff_eq, decide_eq_true_eq] at c0 c1 c2 c4 c5 c6
    omega
  · clear hj hi
    rintro ⟨hj, hi, h1, h2⟩
    have a1 : (jm.toNat : Int) = jm := by omega
    have a2 : ((im + 1).toNat : Int) = im + 1 := by omega
    have b1 : M.jmax = jm.toNat := by omega
    have b2 : M.imax = im.toNat := by omega
    have b3 : (im + 1).toNat = im.toNat + 1 := by omega
    have b4 : (jm + 1).toNat = jm.toNat + 1 := by omega
    have b5 : 1 ≤ im.toNat := by omega
    have b6 : 1 ≤ jm.toNat := by omega
    have z1 : gcZeros? jm (im + 1) = some (gcZeros jm (im + 1)) := by
      unfold gcZeros?; rw [if_pos]; simp only [Bool.and_eq_true, decide_eq_true_eq]; omega
    have z2 : gcZeros? (jm + 1) im = some (gcZeros (jm + 1) im) := by
      unfold gcZeros?; rw [if_pos]; simp only [Bool.and_eq_true, decide_eq_true_eq]; omega
    have q1 : ∀ u : Arr2 Int, u.jmax = jm.toNat → u.imax = im.toNat + 1 → gcSetInnerCols? u M = some (gcSetInnerCols u M) := by
      intro u hu1 hu2
      unfold gcSetInnerCols?; rw [if_pos]
      simp only [gcBcast, Bool.and_eq_true, Bool.or_eq_true, beq_iff_eq]; omega
    have q2 : ∀ u : Arr2 Int, u.jmax = jm.toNat → u.imax = im.toNat + 1 → gcColOk u M = true := by
      intro u hu1 hu2
      simp only [gcColOk, gcBcast, Bool.and_eq_true, Bool.or_eq_true, beq_iff_eq, decide_eq_true_eq]; omega
    have q3 : ∀ v : Arr2 Int, v.jmax = jm.toNat + 1 → v.imax = im.toNat → gcSetInnerRows? v M = some (gcSetInnerRows v M) := by
      intro v hv1 hv2
      unfold gcSetInnerRows?; rw [if_pos]
      simp only [gcBcast, Bool.and_eq_true, Bool.or_eq_true, beq_iff_eq]; omega
    have q4 : ∀ v : Arr2 Int, v.jmax = jm.toNat + 1 → v.imax = im.toNat → gcRowOk v M = true := by
      intro v hv1 hv2
      simp only [gcRowOk, gcBcast, Bool.and_eq_true, Bool.or_eq_true, beq_iff_eq, decide_eq_true_eq]; omega
    unfold gcMasks
    rw [z1, z2]
    simp only [Option.bind_some]
    rw [q1 _ rfl b3]
    simp only [Option.bind_some, gcSetFirstCol?, gcSetLastCol?]
    rw [if_pos (q2 _ rfl b3)]
    simp only [Option.bind_some]
    rw [if_pos (q2 _ rfl b3)]
    simp only [Option.bind_some]
    rw [q3 _ b4 rfl]
    simp only [Option.bind_some, gcSetFirstRow?, gcSetLastRow?]
    rw [if_pos (q4 _ b4 rfl)]
    simp only [Option.bind_some]
    rw [if_pos (q4 _ b4 rfl)]
    rfl

section
variable {α : Type} [Add α] [Sub α] [Mul α] [Div α] [Neg α] [LT α] [DecidableLT α]
  [LE α] [DecidableLE α] [OfScientific α] [HasRound α] [HasTrunc α] [HasOfInt α]

/-- the constructor's masks on the slices of the file: they can be filled exactly when the slices have the lengths
`j1 - j0`, `i1 - i0` and are not empty — the only check of `subgrid` against the file -/
theorem chem_grid_ctor_masks (f : GcFile α) (lim : Int × Int × Int × Int) :
    (gcMasks (lim.2.2.2 - lim.2.2.1) (lim.2.1 - lim.1) (gcMaskOf f lim)).isSome = true ↔
      ((gcSliceLen f.mask_rho.jmax (lim.2.2.1, lim.2.2.2) : Int) = lim.2.2.2 - lim.2.2.1 ∧
       (gcSliceLen f.mask_rho.imax (lim.1, lim.2.1) : Int) = lim.2.1 - lim.1 ∧
       1 ≤ lim.2.2.2 - lim.2.2.1 ∧ 1 ≤ lim.2.1 - lim.1) :=
  gc_masks_isSome _ _ (gcMaskOf f lim)
    (fun h => gc_sliceLen_le f.mask_rho.jmax lim.2.2.1 lim.2.2.2 (by omega))
    (fun h => gc_sliceLen_le f.mask_rho.imax lim.1 lim.2.1 (by omega))

/-- a subgrid inside the file (`0 ≤ i0 < i1 ≤ imax`, `0 ≤ j0 < j1 ≤ jmax`; the comment in the code asks for
`1 ≤ i0 < i1 ≤ imax - 1`) passes -/
theorem chem_grid_ctor_masks_valid (f : GcFile α) (lim : Int × Int × Int × Int) (hv : GcValid f lim)
    (hne : lim.1 < lim.2.1 ∧ lim.2.2.1 < lim.2.2.2) (hshape : f.mask_rho.jmax = f.h.jmax ∧ f.mask_rho.imax = f.h.imax) :
    (gcMasks (lim.2.2.2 - lim.2.2.1) (lim.2.1 - lim.1) (gcMaskOf f lim)).isSome = true := by
  rw [chem_grid_ctor_masks]
  have s := gc_slice_inside f.mask_rho lim.2.2.1 lim.2.2.2 lim.1 lim.2.1
    (by rw [hshape.1]; exact hv.2) (by rw [hshape.2]; exact hv.1)
  exact ⟨s.1, s.2.1, by omega, by omega⟩

/-- … but so does a subgrid with negative bounds (Python slices count them from the end): on a file with 8 columns
`subgrid = [-3, -1, …]` gives `i0 = -3`, `xmin = -3.0`, two columns — the file's columns 5 and 6, so that
`H[j - j0, i - i0]` is the file's `h[j, i + 8]`, not `h[j, i]` -/
theorem chem_grid_ctor_negative_bounds : gcSliceLen 8 (-3, -1) = 2 ∧ gcSliceStart 8 (-3, -1) = 5 := by decide

end

/-! ## the laws of the scalar conversions in an ordered field -/

section field
variable {α : Type} [Field α] [LinearOrder α] [IsStrictOrderedRing α] [HasRound α] [HasTrunc α] [HasOfInt α]

/-- the rounding law from the elementary laws of the three conversions in an ordered field: `float(n)` is the
integer, `round` gives an integer within one half, `.astype(int)` of an integer is the integer -/
theorem gc_roundLaw_of_field (h1 : ∀ n : Int, (ofInt n : α) = (n : α))
    (h2 : ∀ x : α, ∃ k : Int, round x = (k : α) ∧ (k : α) - 1 / 2 ≤ x ∧ x ≤ (k : α) + 1 / 2)
    (h3 : ∀ k : Int, trunc ((k : α)) = k) : GcRoundLaw α := by
  intro x a b ha hb
  obtain ⟨k, hk, lo, hi⟩ := h2 x
  rw [hk, h3]
  rw [h1] at ha hb
  have e : (0.5 : α) = 1 / 2 := by norm_num
  rw [e] at ha hb
  constructor
  · have : (a : α) < ((k + 1 : Int) : α) := by push_cast; linarith
    have := Int.cast_lt.mp this
    omega
  · have : (k : α) < ((b + 1 : Int) : α) := by push_cast; linarith
    have := Int.cast_lt.mp this
    omega

/-- on an integer mask `M < 1` is `¬ M > 0` -/
theorem gc_int_mask (h1 : ∀ n : Int, (ofInt n : α) = (n : α)) (m : Int) :
    decide ((ofInt m : α) < 1.0) = !decide ((0.0 : α) < ofInt m) := by
  rw [h1]
  have e1 : (1.0 : α) = ((1 : Int) : α) := by norm_num
  have e0 : (0.0 : α) = ((0 : Int) : α) := by norm_num
  rw [e1, e0]
  by_cases h : m < 1
  · have h' : ¬ (0 : Int) < m := by omega
    have a : ((m : Int) : α) < ((1 : Int) : α) := Int.cast_lt.mpr h
    have b : ¬ ((0 : Int) : α) < ((m : Int) : α) := fun c => h' (Int.cast_lt.mp c)
    rw [decide_eq_true a, decide_eq_false b]
    rfl
  · have h' : (0 : Int) < m := by omega
    have a : ¬ ((m : Int) : α) < ((1 : Int) : α) := fun c => h (Int.cast_lt.mp c)
    have b : ((0 : Int) : α) < ((m : Int) : α) := Int.cast_lt.mpr h'
    rw [decide_eq_false a, decide_eq_true b]
    rfl

/-- the three laws are satisfiable: `ℚ` with round-half-up, `floor`, the cast -/
example : @GcRoundLaw ℚ _ _ _ _ ⟨fun x => ((⌊x + 1 / 2⌋ : ℤ) : ℚ)⟩ ⟨fun x => ⌊x⌋⟩ ⟨fun n => (n : ℚ)⟩ :=
  @gc_roundLaw_of_field ℚ _ _ _ ⟨fun x => ((⌊x + 1 / 2⌋ : ℤ) : ℚ)⟩ ⟨fun x => ⌊x⌋⟩ ⟨fun n => (n : ℚ)⟩ (fun _ => rfl)
    (fun x => ⟨⌊x + 1 / 2⌋, rfl, by have := Int.floor_le (x + 1 / 2); linarith,
      by have := Int.lt_floor_add_one (x + 1 / 2); linarith⟩)
    (fun k => Int.floor_intCast k)

end field
end Bridge
