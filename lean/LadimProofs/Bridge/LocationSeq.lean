import LadimProofs.C03
import LadimModel.Release.LocationSeq
/-!
# Bridge (C03, C17) — `get_location`, `get_location_offset`, `latlon_from_poly`: the statement sequences of the code

`Gen.get_location_seq`, `Gen.get_location_offset_seq`, `Gen.latlon_from_poly_seq` (guard, kind and text of every
statement of the three functions of `release/makrel.py`, regenerated from the current source) are interpreted by
`LadimModel/Release/LocationSeq.lean` (runner `Seq.runRet`: every statement, condition and `return` expression must be a
known text, also in branches that are not taken).  The theorems give the interpretation of each sequence in closed form,
for *every* input and without hypotheses (`none` = the code raises or leaves the modelled value space):

* `Bridge.latlon_from_poly` : `latlonFromPolySpec` — the `(lat, lon)` vertex rows (`polyCoords`: a single polygon is
  wrapped into a one-element list), `tri` (= `triangulate_nonconvex_multi`) on them, `Seq.sampleTriangles`
  (= `Sample.samplePoint` per particle, `sampleTriangles_points`) on its triangles, and `polynum[triangle_num]`;
  returned `(first coordinates = lat, second coordinates = lon, polygon numbers)`.
* `Bridge.get_location_offset` : `locationOffsetSpec` — `Gen.metric_to_deg` with the *centre* latitude as reference,
  polygon = centre + offsets, `latlon_from_poly(plat, plon, num)`, returned as `(lon, lat)`; the caller's mapping
  is returned unchanged (`get_location_offset_conf`).
* `Bridge.get_location` : `locationSpec` — the dispatch on the form of `loc_conf`, `latlon_from_poly(lat_spec, lon_spec,
  num)` with the latitude first, the property columns without `longitude` / `latitude`, and the returned mapping
  `{longitude, latitude, **properties}` (`locFrame`, `locFrame_eq_cons`).

Only the operations of the scalar type are used in these three theorems (no field or order laws): they hold for every
scalar type, `Float` included.  `latlon_in_triangles` (ordered field) connects to `C03.sample_in_chosen_triangle`.
There is no hand-written `latlonFromPoly` / `getLocation` in `LadimModel/Release/Sample.lean`; the closed forms are
defined here, on top of `Sample.samplePoint`, `Gen.metric_to_deg` and `Table.dictMerge`.
-/
open Ladim Ladim.Seq Ladim.Sample Ladim.Table

set_option linter.unusedSectionVars false
set_option linter.unusedVariables false
namespace Bridge

/-! ### list lemmas -/
theorem mapM_map_some {β γ : Type} (f : β → Option γ) : ∀ (l : List β) (r : List γ), l.mapM f = some r →
    l.map f = r.map some
  | [], r, h => by
    simp at h; subst h; rfl
  | a :: l, r, h => by
    rw [List.mapM_cons] at h
    cases ha : f a with
    | none => simp [ha] at h
    | some b =>
      cases hl : l.mapM f with
      | none => simp [ha, hl] at h
      | some bs =>
        simp [ha, hl] at h
        subst h
        simp [ha, mapM_map_some f l bs hl]

theorem mapM_mem {β γ : Type} (f : β → Option γ) (l : List β) (r : List γ) (h : l.mapM f = some r) :
    ∀ b ∈ r, ∃ a ∈ l, f a = some b := by
  intro b hb
  have : some b ∈ l.map f := by rw [mapM_map_some f l r h]; exact List.mem_map.mpr ⟨b, hb, rfl⟩
  obtain ⟨a, ha, hab⟩ := List.mem_map.mp this
  exact ⟨a, ha, hab⟩

theorem lookup_step {β : Type} (k : String) (kv : String × β) (hkv : (kv.1 == k) = false) :
    ∀ base : List (String × β),
    lookup (if base.any (fun p => p.1 == kv.1) then base.map (fun p => if p.1 == kv.1 then (p.1, kv.2) else p)
        else base ++ [kv]) k = lookup base k := by
  intro base
  have hmap : lookup (base.map (fun p => if p.1 == kv.1 then (p.1, kv.2) else p)) k = lookup base k := by
    unfold lookup
    induction base with
    | nil => rfl
    | cons q base ihb =>
      simp only [List.map_cons, List.find?_cons]
      by_cases hq : (q.1 == kv.1) = true
      · have hqk : (q.1 == k) = false := by
          have : q.1 = kv.1 := eq_of_beq hq
          rw [this]; exact hkv
        simp only [hq, if_true, hqk]
        exact ihb
      · have hq' : (q.1 == kv.1) = false := by simpa using hq
        simp only [hq', Bool.false_eq_true, if_false]
        cases hqk : (q.1 == k)
        · exact ihb
        · rfl
  have happ : lookup (base ++ [kv]) k = lookup base k := by
    unfold lookup
    rw [List.find?_append]
    cases List.find? (fun p => p.1 == k) base with
    | some v => rfl
    | none => simp [hkv]
  split
  · exact hmap
  · exact happ

theorem dictMerge_lookup_other {β : Type} (k : String) : ∀ (upd base : List (String × β)),
    (∀ p ∈ upd, (p.1 == k) = false) → lookup (dictMerge base upd) k = lookup base k := by
  intro upd
  induction upd with
  | nil => intro base _; rfl
  | cons kv upd ih =>
    intro base h
    have hkv : (kv.1 == k) = false := h kv List.mem_cons_self
    show lookup (dictMerge _ upd) k = _
    rw [ih _ (fun p hp => h p (List.mem_cons_of_mem _ hp))]
    exact lookup_step k kv hkv base

theorem dictMerge_fresh {β : Type} : ∀ (upd base : List (String × β)),
    (∀ p ∈ upd, ∀ q ∈ base, (q.1 == p.1) = false) → (upd.map (fun p => p.1)).Nodup → dictMerge base upd = base ++ upd := by
  intro upd
  induction upd with
  | nil => intro base _ _; simp [dictMerge]
  | cons kv upd ih =>
    intro base h hn
    have hany : base.any (fun p => p.1 == kv.1) = false := by
      rw [List.any_eq_false]
      intro q hq
      simp [h kv List.mem_cons_self q hq]
    show dictMerge (if base.any (fun p => p.1 == kv.1) then _ else base ++ [kv]) upd = _
    rw [hany]
    simp only [Bool.false_eq_true, if_false]
    rw [List.map_cons, List.nodup_cons] at hn
    rw [ih (base ++ [kv]) ?_ hn.2]
    · simp
    · intro p hp q hq
      rcases List.mem_append.mp hq with hq | hq
      · exact h p (List.mem_cons_of_mem _ hp) q hq
      · simp only [List.mem_singleton] at hq
        subst hq
        cases hb : (q.1 == p.1) with
        | false => rfl
        | true =>
          exfalso
          apply hn.1
          rw [eq_of_beq hb]
          exact List.mem_map.mpr ⟨p, hp, rfl⟩

/-! ### the three sequences -/
section
variable {α : Type} [Add α] [Sub α] [Mul α] [Div α] [Neg α] [LT α] [DecidableLT α] [OfScientific α]

/-- the vertex rows handed to the triangulation: per polygon the list of `(lat, lon)` pairs; a single polygon (two flat
lists) becomes a one-element list; `none` = `np.stack` raises (rows of different lengths, mixed nesting) -/
def polyCoords : Coord α → Coord α → Option (List (List (α × α)))
  | .single la, .single lo => if la.length = lo.length then some [la.zip lo] else none
  | .multi la, lon => stackCoords (.multi la) lon
  | _, _ => none

/-- closed form of `latlon_from_poly(lat, lon, n)`: `(sampled first coordinates = lat, second = lon,
polygon number of every particle's triangle)`; `none` = the code raises / leaves the modelled value space -/
def latlonFromPolySpec (tri : List (List (α × α)) → Option (List (Tri α) × List Nat)) (draws : List (α × α × α))
    (lat lon : Coord α) (n : Nat) : Option (List α × List α × List Nat) :=
  if lat.hasFirst then
    (polyCoords lat lon).bind fun coords =>
    (tri coords).bind fun tp =>
    (sampleTriangles tp.1 n draws).bind fun r =>
    (takeIdx tp.2 r.2.2).map fun p => (r.1, r.2.1, p)
  else none

theorem stack_one (a b : List α) :
    stackCoords (.multi [a]) (.multi [b]) = if a.length = b.length then some [a.zip b] else none := by
  by_cases h : a.length = b.length <;> simp [stackCoords, h]

local macro "poly_unfold" : tactic => `(tactic|
  simp [latlonFromPolySeq, latlonFromPolySpec, Coord.hasFirst, Gen.latlon_from_poly_seq, runRet, stmtKnown,
    guardKnown, guardVal, polyAtom, polyStep, polyRet, Coord.wrap, polyCoords, stack_one, *])

set_option maxRecDepth 100000 in
theorem latlon_from_poly (tri : List (List (α × α)) → Option (List (Tri α) × List Nat)) (draws : List (α × α × α))
    (lat lon : Coord α) (n : Nat) :
    latlonFromPolySeq tri draws lat lon n = some (latlonFromPolySpec tri draws lat lon n) := by
  cases lat with
  | scalar x => simp [latlonFromPolySeq, latlonFromPolySpec, Coord.hasFirst]
  | single la =>
    cases la with
    | nil => simp [latlonFromPolySeq, latlonFromPolySpec, Coord.hasFirst]
    | cons x la =>
      cases lon with
      | scalar y => 
        simp [latlonFromPolySeq, latlonFromPolySpec, Coord.hasFirst, Gen.latlon_from_poly_seq, runRet, stmtKnown,
          guardKnown, guardVal, polyAtom, polyStep, polyRet, Coord.wrap, stackCoords, polyCoords]
      | single lo =>
        by_cases hl : la.length + 1 = lo.length
        · cases ht : tri [(x :: la).zip lo] with
          | none => poly_unfold
          | some tp =>
            cases hs : sampleTriangles tp.1 n draws with
            | none => poly_unfold
            | some r =>
              cases hp : takeIdx tp.2 r.2.2 <;> poly_unfold
        · poly_unfold
      | multi lo => poly_unfold
  | multi la =>
    cases la with
    | nil => simp [latlonFromPolySeq, latlonFromPolySpec, Coord.hasFirst]
    | cons r la =>
      cases hc : stackCoords (.multi (r :: la)) lon with
      | none => poly_unfold
      | some coords =>
        cases ht : tri coords with
        | none => poly_unfold
        | some tp =>
          cases hs : sampleTriangles tp.1 n draws with
          | none => poly_unfold
          | some r =>
            cases hp : takeIdx tp.2 r.2.2 <;> poly_unfold
end

section
variable {α : Type} [Add α] [Sub α] [Mul α] [Div α] [Neg α] [LT α] [DecidableLT α] [OfScientific α]
  [HasSqrt α] [HasSin α] [HasCos α] [HasPi α]

/-- closed form of `get_location_offset(loc_conf, num)`: the offsets in metres become degrees with the *centre*
latitude `clat` as reference (`lonDiff clat`, `latDiff clat` = the components of `Gen.metric_to_deg · · clat`), the
polygon is centre + offsets, `latlon_from_poly` gets the latitudes first, the result is `(lon, lat)` -/
def locationOffsetSpec (tri : List (List (α × α)) → Option (List (Tri α) × List Nat)) (draws : List (α × α × α))
    (c : OffsetConf α) (num : Nat) : Option (OffsetResult α) :=
  match c.center with
  | none => none
  | some (clon, clat) =>
    match c.offset.1.mapArr (lonDiff clat), c.offset.2.mapArr (latDiff clat) with
    | some dlon, some dlat =>
      (latlonFromPolySpec tri draws (dlat.map (fun d => clat + d)) (dlon.map (fun d => clon + d)) num).map
        (fun r => ⟨r.2.1, r.1, c⟩)
    | _, _ => none

local macro "off_unfold" : tactic => `(tactic|
  simp [getLocationOffsetSeq, locationOffsetSpec, Gen.get_location_offset_seq, runRet, stmtKnown,
    guardKnown, guardVal, offAtom, offStep, offRet, OffSt.init, latlon_from_poly, *])

set_option maxRecDepth 100000 in
theorem get_location_offset (tri : List (List (α × α)) → Option (List (Tri α) × List Nat)) (draws : List (α × α × α))
    (c : OffsetConf α) (num : Nat) :
    getLocationOffsetSeq tri draws c num = some (locationOffsetSpec tri draws c num) := by
  obtain ⟨center, olon, olat⟩ := c
  cases center with
  | none => off_unfold
  | some cc =>
    obtain ⟨clon, clat⟩ := cc
    cases h1 : olon.mapArr (lonDiff clat) with
    | none => off_unfold
    | some dlon =>
      cases h2 : olat.mapArr (latDiff clat) with
      | none => off_unfold
      | some dlat =>
        cases h3 : latlonFromPolySpec tri draws (dlat.map (fun d => clat + d)) (dlon.map (fun d => clon + d)) num <;>
          off_unfold

/-- the property columns without `longitude` / `latitude` -/
def locProps (attrs : Frame α) : Frame α := attrs.filter (fun p => !(p.1 == "longitude" || p.1 == "latitude"))

/-- `{**dict(longitude=lon, latitude=lat), **loc_attrs}` after the removal of the two keys from `loc_attrs` -/
def locFrame (lon lat : List α) (attrs : Frame α) : Frame α :=
  dictMerge [("longitude", lon.map Cell.num), ("latitude", lat.map Cell.num)] (locProps attrs)

/-- closed form of `get_location(loc_conf, num)`; `none` = the code raises / leaves the modelled value space (a scalar
longitude with a non-scalar latitude gives a list of sequences: no exception, but not a position column) -/
def locationSpec {φ : Type} (openFile : String → Option φ) (locFile : φ → Nat → Option (List α × List α × Frame α))
    (tri : List (List (α × α)) → Option (List (Tri α) × List Nat)) (draws : List (α × α × α))
    (c : LocConf α φ) (num : Nat) : Option (Frame α) :=
  match c with
  | .fileName name => ((openFile name).bind (fun f => locFile f num)).map (fun r => locFrame r.1 r.2.1 r.2.2)
  | .stream f => (locFile f num).map (fun r => locFrame r.1 r.2.1 r.2.2)
  | .offset oc => (locationOffsetSpec tri draws oc num).map (fun r => locFrame r.lon r.lat [])
  | .pair lonSpec latSpec =>
    match lonSpec with
    | .scalar x =>
      match latSpec with
      | .scalar y => some (locFrame (List.replicate num x) (List.replicate num y) [])
      | _ => none
    | _ => (latlonFromPolySpec tri draws latSpec lonSpec num).map (fun r => locFrame r.2.1 r.1 [])

local macro "loc_unfold" : tactic => `(tactic|
  simp [getLocationSeq, locationSpec, Gen.get_location_seq, runRet, stmtKnown,
    guardKnown, guardVal, locAtom, locStep, locRet, LocSt.init, latlon_from_poly, get_location_offset,
    locFrame, locProps, *])

set_option maxRecDepth 100000 in
theorem get_location {φ : Type} (openFile : String → Option φ) (locFile : φ → Nat → Option (List α × List α × Frame α))
    (tri : List (List (α × α)) → Option (List (Tri α) × List Nat)) (draws : List (α × α × α))
    (c : LocConf α φ) (num : Nat) :
    getLocationSeq openFile locFile tri draws c num = some (locationSpec openFile locFile tri draws c num) := by
  cases c with
  | fileName name =>
    cases h1 : openFile name with
    | none => loc_unfold
    | some f => cases h2 : locFile f num <;> loc_unfold
  | stream f => cases h2 : locFile f num <;> loc_unfold
  | offset oc => cases h : locationOffsetSpec tri draws oc num <;> loc_unfold
  | pair lonSpec latSpec =>
    cases lonSpec with
    | scalar x => cases latSpec <;> loc_unfold
    | single lo => cases h : latlonFromPolySpec tri draws latSpec (.single lo) num <;> loc_unfold
    | multi lo => cases h : latlonFromPolySpec tri draws latSpec (.multi lo) num <;> loc_unfold
end

/-! ### corollaries: `latlon_from_poly` -/
section
variable {α : Type} [Add α] [Sub α] [Mul α] [Div α] [Neg α] [LT α] [DecidableLT α] [OfScientific α]

/-- `get_polygon_sample_triangles` is `Sample.samplePoint`, particle by particle, in the order of the draws -/
theorem sampleTriangles_points (tris : List (Tri α)) (n : Nat) (draws : List (α × α × α))
    (r : List α × List α × List Nat) (h : sampleTriangles tris n draws = some r) :
    tris ≠ [] ∧ ∃ ps : List (α × α × Nat),
      (draws.take n).map (fun d => samplePoint tris d.1 d.2.1 d.2.2) = ps.map some ∧
      r = (ps.map (fun p => p.1), ps.map (fun p => p.2.1), ps.map (fun p => p.2.2)) := by
  unfold sampleTriangles at h
  cases tris with
  | nil => simp at h
  | cons T tris =>
    refine ⟨by simp, ?_⟩
    simp only [List.isEmpty_cons, Bool.false_eq_true, if_false] at h
    cases hm : (draws.take n).mapM (fun d => samplePoint (T :: tris) d.1 d.2.1 d.2.2) with
    | none => simp [hm] at h
    | some ps =>
      simp only [hm, Option.map_some, Option.some.injEq] at h
      exact ⟨ps, mapM_map_some _ _ _ hm, h.symm⟩

theorem latlonFromPolySpec_single (tri : List (List (α × α)) → Option (List (Tri α) × List Nat))
    (draws : List (α × α × α)) (la lo : List α) (n : Nat) (hne : la ≠ []) (hlen : la.length = lo.length) :
    latlonFromPolySpec tri draws (.single la) (.single lo) n =
      (tri [la.zip lo]).bind fun tp =>
        (sampleTriangles tp.1 n draws).bind fun r =>
        (takeIdx tp.2 r.2.2).map fun p => (r.1, r.2.1, p) := by
  cases la with
  | nil => exact absurd rfl hne
  | cons x la => simp [latlonFromPolySpec, Coord.hasFirst, polyCoords, hlen]

/-- one polygon given as two flat lists of equal length: the vertex rows are `(lat, lon)` -/
theorem latlon_from_poly_single (tri : List (List (α × α)) → Option (List (Tri α) × List Nat))
    (draws : List (α × α × α)) (la lo : List α) (n : Nat) (hne : la ≠ []) (hlen : la.length = lo.length) :
    latlonFromPolySeq tri draws (.single la) (.single lo) n =
      some ((tri [la.zip lo]).bind fun tp =>
        (sampleTriangles tp.1 n draws).bind fun r =>
        (takeIdx tp.2 r.2.2).map fun p => (r.1, r.2.1, p)) := by
  rw [latlon_from_poly, latlonFromPolySpec_single tri draws la lo n hne hlen]

theorem mapM_of_forall {β γ : Type} (f : β → Option γ) (g : β → γ) :
    ∀ l : List β, (∀ a ∈ l, f a = some (g a)) → l.mapM f = some (l.map g)
  | [], _ => rfl
  | a :: l, h => by
    rw [List.mapM_cons, h a List.mem_cons_self, mapM_of_forall f g l (fun b hb => h b (List.mem_cons_of_mem _ hb))]
    rfl

/-- several polygons: one block of `(lat, lon)` vertex rows per polygon -/
theorem latlon_from_poly_multi (tri : List (List (α × α)) → Option (List (Tri α) × List Nat))
    (draws : List (α × α × α)) (la lo : List (List α)) (n : Nat) (hne : la ≠ [])
    (hlen : ∀ p ∈ la.zip lo, p.1.length = p.2.length) :
    latlonFromPolySeq tri draws (.multi la) (.multi lo) n =
      some ((tri ((la.zip lo).map (fun p => p.1.zip p.2))).bind fun tp =>
        (sampleTriangles tp.1 n draws).bind fun r =>
        (takeIdx tp.2 r.2.2).map fun p => (r.1, r.2.1, p)) := by
  rw [latlon_from_poly]
  have hs : stackCoords (.multi la) (.multi lo) = some ((la.zip lo).map (fun p => p.1.zip p.2)) := by
    unfold stackCoords
    exact mapM_of_forall _ _ _ (fun p hp => by simp [hlen p hp])
  cases la with
  | nil => exact absurd rfl hne
  | cons x la => simp [latlonFromPolySpec, Coord.hasFirst, polyCoords, hs]

end

section
variable {α : Type} [Add α] [Sub α] [Mul α] [Div α] [Neg α] [LT α] [DecidableLT α] [OfScientific α]
  [HasSqrt α] [HasSin α] [HasCos α] [HasPi α]

/-! ### corollaries: `get_location_offset` -/

/-- the converted offsets do not depend on the dummy second argument of the element-wise `Gen.metric_to_deg` -/
theorem lonDiff_eq (clat dx dy : α) : lonDiff clat dx = (Gen.metric_to_deg dx dy clat).1 := rfl
theorem latDiff_eq (clat dx dy : α) : latDiff clat dy = (Gen.metric_to_deg dx dy clat).2 := rfl

/-- the caller's mapping (centre and offset arrays) is the same object after the call: no statement of the function
assigns to it or through it -/
theorem get_location_offset_conf (tri : List (List (α × α)) → Option (List (Tri α) × List Nat))
    (draws : List (α × α × α)) (c : OffsetConf α) (num : Nat) (r : OffsetResult α)
    (h : getLocationOffsetSeq tri draws c num = some (some r)) : r.confAfter = c := by
  rw [get_location_offset] at h
  simp only [Option.some.injEq] at h
  unfold locationOffsetSpec at h
  split at h
  · cases h
  · split at h
    · simp only [Option.map_eq_some_iff] at h
      obtain ⟨_, _, rfl⟩ := h
      rfl
    · cases h

/-- one offset polygon: vertex `i` is `(clat + lat_diff(oyᵢ), clon + lon_diff(oxᵢ))` with the centre latitude as the
reference latitude of `metric_diff_to_degrees`; rows `(lat, lon)`; returned as `(lon, lat)` -/
theorem get_location_offset_single (tri : List (List (α × α)) → Option (List (Tri α) × List Nat))
    (draws : List (α × α × α)) (clon clat : α) (ox oy : List α) (num : Nat) (hne : oy ≠ [])
    (hlen : oy.length = ox.length) :
    getLocationOffsetSeq tri draws ⟨some (clon, clat), (.single ox, .single oy)⟩ num =
      some ((tri [(oy.zip ox).map (fun p =>
          (clat + (Gen.metric_to_deg p.2 p.1 clat).2, clon + (Gen.metric_to_deg p.2 p.1 clat).1))]).bind fun tp =>
        (sampleTriangles tp.1 num draws).bind fun r =>
        (takeIdx tp.2 r.2.2).map fun _ =>
          (⟨r.2.1, r.1, ⟨some (clon, clat), (.single ox, .single oy)⟩⟩ : OffsetResult α)) := by
  rw [get_location_offset]
  have hz : (oy.map (fun d => clat + latDiff clat d)).zip (ox.map (fun d => clon + lonDiff clat d))
      = (oy.zip ox).map (fun p =>
          (clat + (Gen.metric_to_deg p.2 p.1 clat).2, clon + (Gen.metric_to_deg p.2 p.1 clat).1)) := by
    rw [List.zip_map]
    apply List.map_congr_left
    intro p _
    rfl
  simp only [locationOffsetSpec, Coord.mapArr, Coord.map]
  rw [latlonFromPolySpec_single tri draws _ _ num (by simpa using hne) (by simpa using hlen)]
  simp only [List.map_map, Function.comp_def, hz]
  cases tri [(oy.zip ox).map (fun p =>
      (clat + (Gen.metric_to_deg p.2 p.1 clat).2, clon + (Gen.metric_to_deg p.2 p.1 clat).1))] with
  | none => rfl
  | some tp =>
    cases hs : sampleTriangles tp.1 num draws with
    | none => simp [hs]
    | some r => cases ht : takeIdx tp.2 r.2.2 <;> simp [hs, ht]

end

section
variable {α : Type} [Add α] [Sub α] [Mul α] [Div α] [Neg α] [LT α] [DecidableLT α] [OfScientific α]
  [HasSqrt α] [HasSin α] [HasCos α] [HasPi α]

/-! ### corollaries: `get_location` -/

theorem locProps_no_position (attrs : Frame α) (k : String) (hk : k = "longitude" ∨ k = "latitude") :
    ∀ p ∈ locProps attrs, (p.1 == k) = false := by
  intro p hp
  have h := (List.mem_filter.mp hp).2
  cases hb : (p.1 == k) with
  | false => rfl
  | true =>
    have := eq_of_beq hb
    rcases hk with rfl | rfl <;> simp [this] at h

/-- the returned mapping always has the sampled positions under `longitude` and `latitude`, whatever the property
columns are called (finding F-C03a is repaired) -/
theorem locFrame_lookup_lon (lon lat : List α) (attrs : Frame α) :
    lookup (locFrame lon lat attrs) "longitude" = some (lon.map Cell.num) := by
  unfold locFrame
  rw [dictMerge_lookup_other "longitude" _ _ (locProps_no_position attrs _ (Or.inl rfl))]
  rfl

theorem locFrame_lookup_lat (lon lat : List α) (attrs : Frame α) :
    lookup (locFrame lon lat attrs) "latitude" = some (lat.map Cell.num) := by
  unfold locFrame
  rw [dictMerge_lookup_other "latitude" _ _ (locProps_no_position attrs _ (Or.inr rfl))]
  rfl

/-- the order of the returned mapping: `longitude`, `latitude`, then the remaining property columns in their order
(the keys of a Python dict are distinct) -/
theorem locFrame_eq_cons (lon lat : List α) (attrs : Frame α) (hn : (attrs.map (fun p => p.1)).Nodup) :
    locFrame lon lat attrs = ("longitude", lon.map Cell.num) :: ("latitude", lat.map Cell.num) :: locProps attrs := by
  unfold locFrame
  rw [dictMerge_fresh]
  · rfl
  · intro p hp q hq
    simp only [List.mem_cons, List.not_mem_nil, or_false] at hq
    have h1 := locProps_no_position attrs "longitude" (Or.inl rfl) p hp
    have h2 := locProps_no_position attrs "latitude" (Or.inr rfl) p hp
    rcases hq with rfl | rfl
    · show ("longitude" == p.1) = false
      rw [Bool.eq_false_iff] at h1 ⊢
      intro h; apply h1; rw [eq_of_beq h]; exact beq_self_eq_true _
    · show ("latitude" == p.1) = false
      rw [Bool.eq_false_iff] at h2 ⊢
      intro h; apply h2; rw [eq_of_beq h]; exact beq_self_eq_true _
  · unfold locProps
    exact hn.sublist ((List.filter_sublist).map _)

variable {φ : Type} (openFile : String → Option φ) (locFile : φ → Nat → Option (List α × List α × Frame α))
  (tri : List (List (α × α)) → Option (List (Tri α) × List Nat)) (draws : List (α × α × α))

/-- whatever `get_location` returns has a `longitude` and a `latitude` column: the two hypotheses of
`Bridge.make_single_release_seq` (`LadimProofs/Bridge/ReleaseSeq.lean`) hold for it -/
theorem get_location_has_position (c : LocConf α φ) (num : Nat) (f : Frame α)
    (h : getLocationSeq openFile locFile tri draws c num = some (some f)) :
    (lookup f "longitude").isSome ∧ (lookup f "latitude").isSome := by
  rw [get_location] at h
  simp only [Option.some.injEq] at h
  have key : ∀ (o : Option (Frame α)), o = some f → (∀ g, o = some g → ∃ lon lat attrs, g = locFrame lon lat attrs) →
      (lookup f "longitude").isSome ∧ (lookup f "latitude").isSome := by
    intro o ho hg
    obtain ⟨lon, lat, attrs, rfl⟩ := hg f ho
    rw [locFrame_lookup_lon, locFrame_lookup_lat]; exact ⟨rfl, rfl⟩
  refine key _ h ?_
  intro g hg
  unfold locationSpec at hg
  split at hg
  · obtain ⟨r, _, rfl⟩ := Option.map_eq_some_iff.mp hg; exact ⟨_, _, _, rfl⟩
  · obtain ⟨r, _, rfl⟩ := Option.map_eq_some_iff.mp hg; exact ⟨_, _, _, rfl⟩
  · obtain ⟨r, _, rfl⟩ := Option.map_eq_some_iff.mp hg; exact ⟨_, _, _, rfl⟩
  · split at hg
    · split at hg
      · cases hg; exact ⟨_, _, _, rfl⟩
      · cases hg
    · obtain ⟨r, _, rfl⟩ := Option.map_eq_some_iff.mp hg; exact ⟨_, _, _, rfl⟩

/-- a point: every particle gets exactly `(lon, lat)` (cf. `C03.point_exact`) -/
theorem get_location_point (x y : α) (num : Nat) :
    getLocationSeq openFile locFile tri draws (.pair (.scalar x) (.scalar y)) num =
      some (some [("longitude", (List.replicate num x).map Cell.num),
                  ("latitude", (List.replicate num y).map Cell.num)]) := by
  rw [get_location]; rfl

/-- a polygon `[lon, lat]` (two flat lists of equal length): `latlon_from_poly` is called with the latitude first, the
vertex rows are `(lat, lon)`, and the sampled first / second coordinates come back as `latitude` / `longitude` -/
theorem get_location_polygon (lonL latL : List α) (num : Nat) (hne : latL ≠ []) (hlen : latL.length = lonL.length) :
    getLocationSeq openFile locFile tri draws (.pair (.single lonL) (.single latL)) num =
      some ((tri [latL.zip lonL]).bind fun tp =>
        (sampleTriangles tp.1 num draws).bind fun r =>
        (takeIdx tp.2 r.2.2).map fun _ =>
          [("longitude", r.2.1.map Cell.num), ("latitude", r.1.map Cell.num)]) := by
  rw [get_location]
  simp only [locationSpec]
  rw [latlonFromPolySpec_single tri draws latL lonL num hne hlen]
  cases tri [latL.zip lonL] with
  | none => rfl
  | some tp =>
    cases hs : sampleTriangles tp.1 num draws with
    | none => simp [hs]
    | some r =>
      cases ht : takeIdx tp.2 r.2.2 <;> simp [hs, ht]
      rfl

/-- the centre / offset form: the positions of `get_location_offset`, no property columns -/
theorem get_location_offset_form (oc : OffsetConf α) (num : Nat) :
    getLocationSeq openFile locFile tri draws (.offset oc) num =
      some ((locationOffsetSpec tri draws oc num).map fun r =>
        [("longitude", r.lon.map Cell.num), ("latitude", r.lat.map Cell.num)]) := by
  rw [get_location]
  simp only [locationSpec]
  cases locationOffsetSpec tri draws oc num <;> rfl

end

/-! ### connection with C03 (ordered field) -/
section
variable {α : Type} [Field α] [LinearOrder α] [IsStrictOrderedRing α]

/-- whatever `latlon_from_poly` returns: the vertex rows `coords` are `polyCoords lat lon` (`(lat, lon)` pairs), the
triangles are those of `triangulate_nonconvex_multi(coords)`, and particle by particle the returned
`(first, second)` coordinate is a convex combination of the `(x, y)` = (column 0, column 1) = `(lat, lon)` vertices of
the triangle with the returned number (`C03.sample_in_chosen_triangle`), whose polygon number is returned -/
theorem latlon_in_triangles (tri : List (List (α × α)) → Option (List (Tri α) × List Nat))
    (draws : List (α × α × α)) (lat lon : Coord α) (n : Nat) (xs ys : List α) (pn : List Nat)
    (hd : ∀ d ∈ draws, 0 ≤ d.2.1 ∧ d.2.1 < 1 ∧ 0 ≤ d.2.2 ∧ d.2.2 < 1)
    (h : latlonFromPolySeq tri draws lat lon n = some (some (xs, ys, pn))) :
    ∃ coords tris polynum, polyCoords lat lon = some coords ∧ tri coords = some (tris, polynum) ∧
      ∃ ps : List (α × α × Nat), xs = ps.map (fun p => p.1) ∧ ys = ps.map (fun p => p.2.1) ∧
        ps.map (fun p => polynum[p.2.2]?) = pn.map some ∧
        ∀ p ∈ ps, ∃ T, tris[p.2.2]? = some T ∧ ∃ s t : α, 0 ≤ s ∧ 0 ≤ t ∧ s + t ≤ 1 ∧
          p.1 = (1 - s - t) * T.x1 + s * T.x2 + t * T.x3 ∧ p.2.1 = (1 - s - t) * T.y1 + s * T.y2 + t * T.y3 := by
  rw [latlon_from_poly] at h
  simp only [Option.some.injEq] at h
  unfold latlonFromPolySpec at h
  split at h
  · obtain ⟨coords, hc, h⟩ := Option.bind_eq_some_iff.mp h
    obtain ⟨tp, ht, h⟩ := Option.bind_eq_some_iff.mp h
    obtain ⟨r, hs, h⟩ := Option.bind_eq_some_iff.mp h
    obtain ⟨p, hp, h⟩ := Option.map_eq_some_iff.mp h
    obtain ⟨_, ps, hps, rfl⟩ := sampleTriangles_points tp.1 n draws r hs
    simp only [Prod.mk.injEq] at h
    obtain ⟨rfl, rfl, rfl⟩ := h
    refine ⟨coords, tp.1, tp.2, hc, by rw [ht], ps, rfl, rfl, ?_, ?_⟩
    · have := mapM_map_some _ _ _ hp
      simpa [List.map_map, Function.comp_def] using this
    · intro q hq
      have hmem : some q ∈ (draws.take n).map (fun d => samplePoint tp.1 d.1 d.2.1 d.2.2) := by
        rw [hps]; exact List.mem_map.mpr ⟨q, hq, rfl⟩
      obtain ⟨d, hdm, hdq⟩ := List.mem_map.mp hmem
      obtain ⟨h1, h2, h3, h4⟩ := hd d (List.mem_of_mem_take hdm)
      obtain ⟨T, _, s, t, hs0, ht0, hst, hx, hy, hk⟩ :=
        C03.sample_in_chosen_triangle tp.1 d.1 d.2.1 d.2.2 q.1 q.2.1 q.2.2 h1 h2 h3 h4 hdq
      exact ⟨T, hk, s, t, hs0, ht0, hst, hx, hy⟩
  · cases h

end
end Bridge
