import LadimModel.Release.AttrSeq
/-!
# Bridge (C04) — `get_attr` / `get_distribution`: the hand-written model *is* the statement sequence of the code

`Gen.get_attr_seq` and `Gen.get_distribution_seq` (guard, kind and text of every statement of the two functions of
`release/makrel.py`, regenerated from the current source) are interpreted by `LadimModel/Release/AttrSeq.lean`:
every statement, condition and `return` expression must be a known text, also in branches that are not taken.
`Bridge.get_attr_seq`: for every specification the interpretation is `Attr.getAttr cv`, where `cv` is the argument order
of the gaussian `np.clip` that the generated text shows (`Seq.clipSeen`): `np.clip(minimum, maximum, r)` (the code as it
is, known finding F-C04a) gives `.swapped`, the repair `np.clip(r, minimum, maximum)` gives `.correct`; the proofs go
through for either text and for no other.  No hypothesis on `num` or `draws`; only the operations of the scalar type
are used (no field or order laws), so the statement holds for every scalar type, `Float` included.
-/
open Ladim Ladim.Seq Ladim.Attr

set_option linter.unusedSimpArgs false
set_option linter.unusedVariables false
namespace Bridge
variable {α : Type} [Add α] [Sub α] [Mul α] [Div α] [LT α] [DecidableLT α]

theorem mapM_some_map {β γ : Type} (f : β → γ) (l : List β) :
    l.mapM (fun x => some (f x)) = some (l.map f) := by
  induction l with
  | nil => rfl
  | cons a l ih => simp [List.mapM_cons, ih]

theorem mapM_some_id {β : Type} (l : List β) : l.mapM (fun x => some x) = some l := by
  simpa using mapM_some_map (fun x : β => x) l

local macro "dist_unfold" : tactic => `(tactic|
  simp [Seq.getDistributionSeq, Gen.get_distribution_seq, Seq.runRet, Seq.stmtKnown, Seq.guardKnown, Seq.guardVal,
    Seq.distAtom, Seq.distStep, Seq.distRet, Seq.DistSt.init, Seq.clipOfText])

theorem dist_scalar (x : α) (num : Nat) (draws : List α) :
    Seq.getDistributionSeq (.scalar x) num draws = some none := by dist_unfold
theorem dist_seq (l : List α) (num : Nat) (draws : List α) :
    Seq.getDistributionSeq (.seq l) num draws = some none := by dist_unfold
theorem dist_name (l : List α) (num : Nat) (draws : List α) :
    Seq.getDistributionSeq (.name l) num draws = some none := by dist_unfold
theorem dist_fn (l : List α) (num : Nat) (draws : List α) :
    Seq.getDistributionSeq (.fn l) num draws = some none := by dist_unfold
theorem dist_uniform (lo hi : α) (num : Nat) (draws : List α) :
    Seq.getDistributionSeq (.dist (.uniform lo hi)) num draws = some (some ((draws.take num).map (rangeValue lo hi))) := by
  dist_unfold
theorem dist_exponential (m : α) (mx : Option α) (num : Nat) (draws : List α) :
    Seq.getDistributionSeq (.dist (.exponential m mx)) num draws
      = some (some ((draws.take num).map (exponentialValue m mx))) := by
  dist_unfold
  rfl
theorem dist_piecewise (k c : List α) (num : Nat) (draws : List α) :
    Seq.getDistributionSeq (.dist (.piecewise k c)) num draws
      = some ((draws.take num).mapM (piecewiseValue k c)) := by
  dist_unfold
  rfl

/-- the generated text of the gaussian `return` is one of the two the model knows -/
theorem clip_seen : ∃ cv, Seq.clipSeen Gen.get_distribution_seq = some cv := by
  first
  | (refine ⟨.swapped, ?_⟩; simp [Seq.clipSeen, Gen.get_distribution_seq, Seq.clipOfText]; done)
  | (refine ⟨.correct, ?_⟩; simp [Seq.clipSeen, Gen.get_distribution_seq, Seq.clipOfText]; done)

theorem dist_gaussian (cv : ClipArgs) (h : Seq.clipSeen Gen.get_distribution_seq = some cv)
    (m sd : α) (mn mx : Option α) (num : Nat) (draws : List α) :
    Seq.getDistributionSeq (.dist (.gaussian m sd mn mx)) num draws
      = some (some ((draws.take num).map (gaussianValue cv m sd mn mx))) := by
  cases cv <;>
  first
  | (exfalso; simp [Seq.clipSeen, Gen.get_distribution_seq, Seq.clipOfText] at h; done)
  | (cases mn <;> cases mx <;>
      simp [Seq.getDistributionSeq, Gen.get_distribution_seq, Seq.runRet, Seq.stmtKnown, Seq.guardKnown, Seq.guardVal,
        Seq.distAtom, Seq.distStep, Seq.distRet, Seq.DistSt.init, Seq.clipOfText, Seq.Ext.clip, Seq.Ext.max, Seq.Ext.min,
        Seq.Ext.toOption, mapM_some_map, Function.comp_def] <;>
      (try rw [mapM_some_id]) <;> rfl)

/-- for the argument order `cv` that the generated text shows -/
theorem get_attr_seq_of (cv : ClipArgs) (h : Seq.clipSeen Gen.get_distribution_seq = some cv)
    (s : Spec α) (byName : Bool) (num : Nat) (draws : List α) :
    Seq.getAttrSeq byName s num draws = some (Attr.getAttr cv s num draws) := by
  have hg := dist_gaussian (α := α) cv h
  cases s with
  | piecewise k c =>
    have hd := dist_piecewise k c num draws
    have hm : Attr.getAttr cv (.piecewise k c) num draws = (draws.take num).mapM (piecewiseValue k c) := rfl
    rw [hm]
    generalize (draws.take num).mapM (piecewiseValue k c) = r at hd ⊢
    cases r <;>
    simp [Seq.getAttrSeq, Gen.get_attr_seq, Seq.runRet, Seq.stmtKnown, Seq.guardKnown, Seq.guardVal, Seq.attrAtom,
      Seq.attrStep, Seq.attrRet, Seq.Val.ofSpec, dist_seq, hd]
  | list vs =>
    match vs with
    | [lo, hi] =>
      by_cases h2 : num = 2 <;>
      simp [Seq.getAttrSeq, Gen.get_attr_seq, Seq.runRet, Seq.stmtKnown, Seq.guardKnown, Seq.guardVal, Seq.attrAtom,
        Seq.attrStep, Seq.attrRet, Seq.Val.ofSpec, Attr.getAttr, dist_seq, dist_uniform, h2]
    | [] | [_] | _ :: _ :: _ :: _ =>
      simp [Seq.getAttrSeq, Gen.get_attr_seq, Seq.runRet, Seq.stmtKnown, Seq.guardKnown, Seq.guardVal, Seq.attrAtom,
        Seq.attrStep, Seq.attrRet, Seq.Val.ofSpec, Attr.getAttr, dist_seq]
  | callable out =>
    cases byName <;>
    simp [Seq.getAttrSeq, Gen.get_attr_seq, Seq.runRet, Seq.stmtKnown, Seq.guardKnown, Seq.guardVal, Seq.attrAtom,
      Seq.attrStep, Seq.attrRet, Seq.Val.ofSpec, Attr.getAttr, dist_seq, dist_name, dist_fn]
  | _ =>
    simp [Seq.getAttrSeq, Gen.get_attr_seq, Seq.runRet, Seq.stmtKnown, Seq.guardKnown, Seq.guardVal, Seq.attrAtom,
      Seq.attrStep, Seq.attrRet, Seq.Val.ofSpec, Attr.getAttr, dist_scalar, dist_seq, dist_exponential, hg]

/-- the interpretation of the generated statement sequences of `get_attr` / `get_distribution` is the hand-written
`Attr.getAttr`, with the `np.clip` argument order that the generated text shows; `byName`: the callable is given by its
dotted name (resolved by the four `importlib` statements) or as a callable -/
theorem get_attr_seq :
    ∃ cv, Seq.clipSeen Gen.get_distribution_seq = some cv ∧
      ∀ (s : Spec α) (byName : Bool) (num : Nat) (draws : List α),
        Seq.getAttrSeq byName s num draws = some (Attr.getAttr cv s num draws) := by
  obtain ⟨cv, h⟩ := clip_seen
  exact ⟨cv, h, get_attr_seq_of cv h⟩

/-- the same as a disjunction over the two argument orders -/
theorem get_attr_seq_or :
    (∀ (s : Spec α) (byName : Bool) (num : Nat) (draws : List α),
        Seq.getAttrSeq byName s num draws = some (Attr.getAttr .swapped s num draws)) ∨
    (∀ (s : Spec α) (byName : Bool) (num : Nat) (draws : List α),
        Seq.getAttrSeq byName s num draws = some (Attr.getAttr .correct s num draws)) := by
  obtain ⟨cv, _, h⟩ := get_attr_seq (α := α)
  cases cv
  · exact Or.inl h
  · exact Or.inr h

end Bridge
