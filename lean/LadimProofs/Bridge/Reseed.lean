import LadimProofs.Basic
import LadimModel.IBM.Chemicals
import LadimModel.IBM.Sedimentation
import LadimModel.IBM.Bio
/-!
# Bridge (C11) — the hand-written per-particle model *is* the code

`LadimModel/Generated/Formulas.lean` is regenerated from /repo's current source on every run.  Besides the closed-form
formulas it contains the statement windows of the IBM update rules, translated operation by operation from the
numpy-mask code.  Each theorem below states that a hand-written model function used by the property theorems equals
the generated window (or a composition of generated windows).  They are re-checked by the kernel on every run: a
change of the source inside a window either breaks the translation or one of these equalities, and the property
theorems proved about the hand-written model keep speaking about what the code says now.

Re-seeding inside the particle's own cell.
-/
open Ladim

set_option linter.unusedSectionVars false
set_option linter.unusedVariables false
set_option linter.unnecessarySeqFocus false
namespace Bridge
variable {α : Type} [Field α] [LinearOrder α] [IsStrictOrderedRing α]
  [HasRound α]

section
open Ladim.Chemicals
theorem chem_reposition (x y rx ry : α) : (reseed x rx, reseed y ry) = Gen.chem_reposition_xy x y rx ry := by
  simp [reseed, Gen.chem_reposition_xy]
end

section
open Ladim.Chemicals
theorem chem_coastal (x y rx ry : α) (b : Bool) : (reseed x rx, reseed y ry) = Gen.chem_coastal_xy x y rx ry b := by
  simp [reseed, Gen.chem_coastal_xy]
end

section
open Ladim.Chemicals
theorem mine_reposition (x y rx ry : α) : (reseed x rx, reseed y ry) = Gen.mine_reposition_xy x y rx ry := by
  simp [reseed, Gen.mine_reposition_xy]
end

end Bridge
