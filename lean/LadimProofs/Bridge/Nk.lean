import LadimProofs.Basic
import LadimModel.Forcing.Nk800
import LadimModel.Generated.Formulas
/-!
# Bridge (C13) — NorKyst-800 time interpolation: the model *is* the code

`interp` blends the fields of the two bracketing hours.  The weights of the current source are the site of known
finding F-C13a (backward weights); the bridge holds for either modelled variant (`Weights`), so the code as it is and
its repair both check, anything else does not.
-/
open Ladim

set_option linter.unusedSectionVars false
set_option linter.unusedVariables false
set_option linter.unusedTactic false
set_option linter.unreachableTactic false
namespace Bridge
variable {α : Type} [Field α] [LinearOrder α] [IsStrictOrderedRing α]

theorem nk_interp :
    (∀ v1 v2 q : α, Gen.nk_interp v1 v2 q = Nk800.interpW .backward v1 v2 q) ∨
    (∀ v1 v2 q : α, Gen.nk_interp v1 v2 q = Nk800.interpW .forward v1 v2 q) := by
  first
  | (left; intro v1 v2 q; simp [Gen.nk_interp, Nk800.interpW]; done)
  | (right; intro v1 v2 q; simp [Gen.nk_interp, Nk800.interpW]; done)

end Bridge
