import LadimProofs.Bridge.Forcing
import LadimProofs.C06Main
/-!
# Bridge (C06, C14) — the C06 theorem, stated for the interpreted code

`Seq.codeRun` runs the *generated* statement sequences of `Forcing` (initialisation, then the update loop for every
step of a schedule).  The theorem below composes `Bridge.forcing_init`, `Bridge.forcing_step(_explicit)` with
`C06.velocity_any_schedule`: for every strictly increasing schedule of non-negative steps, the velocity carried by the
interpreted code is the linear-in-time interpolation of the two enclosing frames, and (C14) the vertical velocity it
carries is the image of that velocity under a linear `compute_w`.
-/
open Ladim

set_option linter.unusedSectionVars false
set_option linter.unusedVariables false
namespace Bridge
variable {α : Type} [Field α] [LinearOrder α] [IsStrictOrderedRing α]

open Seq

/-- the loop of `Forcing.update` on the interpreted code is the loop of the closed forms, as long as every forcing
step met on the way has a successor -/
theorem codeSteps_eq (fr : Roms.Frames α) (cw : α → α) : ∀ (n : Nat) (start : Int) (s : FSt α),
    (∀ t, start ≤ t → t < start + n → fr.steps.contains (t - 1) = true →
      (Roms.nextStep fr.steps (t - 1)).isSome = true) →
    codeSteps fr cw s start n = some (stepsExplicit fr cw s start n)
  | 0, start, s, _ => rfl
  | n + 1, start, s, h => by
    have h1 := forcing_step_explicit fr cw start s (h start le_rfl (by push_cast; omega))
    have h2 := codeSteps_eq fr cw n (start + 1) (stepExplicit fr cw start s)
      (fun t h1 h2 => h t (by omega) (by push_cast; omega))
    show (run (stepAtom fr start) (stepStep fr cw start) Gen.forcing_step_seq s).bind
      (fun s' => codeSteps fr cw s' (start + 1) n) = _
    rw [h1]
    exact h2

/-- the closed form of `_update_one_step`, projected to the C06 state, is `Roms.updateOne` -/
theorem stepExplicit_roms (fr : Roms.Frames α) (cw : α → α) (t l : Int) (s : FSt α) :
    (stepExplicit fr cw t s).roms t = Roms.updateOne fr (s.roms l) t := by
  unfold stepExplicit Roms.updateOne FSt.roms
  cases h1 : fr.steps.contains (t - 1) <;> cases h2 : fr.steps.contains t <;>
    cases hn : Roms.nextStep fr.steps (t - 1) <;> simp

/-- … and the loop of closed forms is `Roms.updateRange` -/
theorem stepsExplicit_roms (fr : Roms.Frames α) (cw : α → α) : ∀ (n : Nat) (start l : Int) (s : FSt α),
    ∃ l', (stepsExplicit fr cw s start n).roms l' = Roms.updateRange fr (s.roms l) start n
  | 0, start, l, s => ⟨l, rfl⟩
  | n + 1, start, l, s => by
    obtain ⟨l', h⟩ := stepsExplicit_roms fr cw n (start + 1) start (stepExplicit fr cw start s)
    refine ⟨l', ?_⟩
    rw [stepExplicit_roms fr cw start l s] at h
    exact h

/-- `stepsExplicit` composes -/
theorem stepsExplicit_add (fr : Roms.Frames α) (cw : α → α) : ∀ (m : Nat) (s : FSt α) (a : Int) (k : Nat),
    stepsExplicit fr cw (stepsExplicit fr cw s a m) (a + m) k = stepsExplicit fr cw s a (m + k)
  | 0, s, a, k => by simp [stepsExplicit]
  | m + 1, s, a, k => by
    have ih := stepsExplicit_add fr cw m (stepExplicit fr cw a s) (a + 1) k
    rw [show m + 1 + k = (m + k) + 1 by omega]
    show stepsExplicit fr cw (stepsExplicit fr cw (stepExplicit fr cw a s) (a + 1) m) (a + ((m + 1 : Nat) : Int)) k
      = stepsExplicit fr cw (stepExplicit fr cw a s) (a + 1) (m + k)
    rw [← ih]
    congr 1
    push_cast; ring

/-- one call of `Forcing.update(t)` -/
theorem codeUpdate_eq (fr : Roms.Frames α) (cw : α → α) (s : FSt α) (l t : Int) (hlt : l < t)
    (hnext : ∀ x, x ≤ t → fr.steps.contains (x - 1) = true → (Roms.nextStep fr.steps (x - 1)).isSome = true) :
    codeUpdate fr cw ⟨s, l⟩ t = some ⟨stepsExplicit fr cw s (l + 1) (t - l).toNat, t⟩ := by
  unfold codeUpdate
  rw [if_pos hlt, codeSteps_eq fr cw _ _ _ (fun x h1 h2 => hnext x (by omega))]
  rfl

/-- every call of a schedule -/
theorem codeFold_eq (fr : Roms.Frames α) (cw : α → α) (T : Int)
    (hnext : ∀ x, x ≤ T → fr.steps.contains (x - 1) = true → (Roms.nextStep fr.steps (x - 1)).isSome = true) :
    ∀ (sched : List Int) (s : FSt α) (l : Int), List.Pairwise (· < ·) sched → (∀ x ∈ sched, l < x) →
      sched.getLast? = some T →
      sched.foldlM (codeUpdate fr cw) ⟨s, l⟩ = some ⟨stepsExplicit fr cw s (l + 1) (T - l).toNat, T⟩
  | [], s, l, _, _, hT => by simp at hT
  | [t], s, l, _, hx, hT => by
    simp at hT; subst hT
    have hlt := hx t (by simp)
    simp only [List.foldlM_cons, List.foldlM_nil]
    rw [codeUpdate_eq fr cw s l t hlt hnext]
    rfl
  | t :: t2 :: rest, s, l, hp, hx, hT => by
    have hlt := hx t (by simp)
    have hp' := (List.pairwise_cons.mp hp).2
    have ht : ∀ x ∈ t2 :: rest, t < x := (List.pairwise_cons.mp hp).1
    rw [List.getLast?_cons_cons] at hT
    have hTt : t < T := ht T (List.mem_of_getLast? hT)
    have ih := codeFold_eq fr cw T hnext (t2 :: rest) (stepsExplicit fr cw s (l + 1) (t - l).toNat) t hp' ht hT
    rw [List.foldlM_cons, codeUpdate_eq fr cw s l t hlt (fun x hx => hnext x (by omega))]
    show List.foldlM (codeUpdate fr cw) _ (t2 :: rest) = _
    rw [ih]
    have := stepsExplicit_add fr cw (t - l).toNat s (l + 1) (T - t).toNat
    rw [show l + 1 + ((t - l).toNat : Int) = t + 1 by omega,
      show (t - l).toNat + (T - t).toNat = (T - l).toNat by omega] at this
    rw [this]

/-- after `_remaining_initialization` the vertical velocity fields are the images of the horizontal ones: forcing
exists before the start -/
theorem forcing_init_W_prestep (fr : Roms.Frames α) (cw : α → α) (z : α) (s0 : FSt α) (p nx : Int)
    (hp : Roms.prestepOf fr.steps = some p) (hn : Roms.nextStep fr.steps p = some nx)
    (h : run (initAtom fr) (initStep fr cw) Gen.forcing_init_seq (FSt.blank z) = some s0) (hl : LinearW cw) :
    WInv cw s0 := by
  simp [Gen.forcing_init_seq, run, guardVal, initAtom, initStep, FSt.blank, hp, hn] at h
  subst h
  simp [WInv, hl.sub, hl.div, hl.smul]

/-- … the simulation starts on the first frame -/
theorem forcing_init_W_on_frame (fr : Roms.Frames α) (cw : α → α) (z : α) (s0 : FSt α) (s1 : Int)
    (hp : Roms.prestepOf fr.steps = none) (h1 : fr.steps.head? = some 0) (h2 : fr.steps[1]? = some s1)
    (h : run (initAtom fr) (initStep fr cw) Gen.forcing_init_seq (FSt.blank z) = some s0) (hl : LinearW cw) :
    WInv cw s0 := by
  simp [Gen.forcing_init_seq, run, guardVal, initAtom, initStep, FSt.blank, hp, h1, h2] at h
  subst h
  simp [WInv, hl.sub, hl.div]

/-- … in every case in which the initialisation succeeds -/
theorem forcing_init_W (fr : Roms.Frames α) (cw : α → α) (z : α) (s0 : FSt α) (st0 : Roms.St α)
    (hinit : Roms.init .stepdiff .next fr = some st0)
    (h : run (initAtom fr) (initStep fr cw) Gen.forcing_init_seq (FSt.blank z) = some s0) (hl : LinearW cw) :
    WInv cw s0 := by
  cases hp : Roms.prestepOf fr.steps with
  | some p =>
    obtain ⟨nx, hn, _⟩ := C06.init_prestep .stepdiff .next fr st0 p hp hinit
    exact forcing_init_W_prestep fr cw z s0 p nx hp hn h hl
  | none =>
    obtain ⟨s1, rest, heq, _⟩ := C06.init_on_frame .stepdiff .next fr st0 hp hinit
    exact forcing_init_W_on_frame fr cw z s0 s1 hp (by rw [heq]; rfl) (by rw [heq]; rfl) h hl

theorem code_velocity_any_schedule (fr : Roms.Frames α) (cw : α → α) (z : α)
    (hs : C06.Sorted fr.steps) (hinit : (Roms.init .stepdiff .next fr).isSome = true)
    (sched : List Int) (hp : List.Pairwise (· < ·) sched) (h0 : ∀ x ∈ sched, 0 ≤ x) (T : Int)
    (hT : sched.getLast? = some T) (n n' : Int) (hb : C06.Bracket fr.steps T n n') :
    ∃ c, codeRun fr cw z sched = some c ∧ c.last = T ∧ c.st.U = C06.lerp fr T n n' ∧
      (LinearW cw → c.st.W = cw c.st.U) := by
  obtain ⟨st0, hst0⟩ := Option.isSome_iff_exists.mp hinit
  have hi := forcing_init fr cw z
  rw [hst0] at hi
  obtain ⟨s0, hrun, hroms⟩ := Option.map_eq_some_iff.mp hi
  have hT0 := h0 T (List.mem_of_getLast? hT)
  obtain ⟨hb1, hb2, hb3⟩ := hb
  have hn'mem := (C06.nextStep_spec fr.steps hs n n' hb1).2.1
  have hnext : ∀ x, x ≤ T → fr.steps.contains (x - 1) = true →
      (Roms.nextStep fr.steps (x - 1)).isSome = true := by
    intro x hx hc
    obtain ⟨m, hm⟩ := C06.nextStep_of_mem fr.steps hs (x - 1) ((C06.contains_iff _ _).mp hc)
      ⟨n', hn'mem, by omega⟩
    rw [hm]; rfl
  have hfold := codeFold_eq fr cw T hnext sched s0 (-1) hp (fun x hx => by have := h0 x hx; omega) hT
  rw [show (-1 : Int) + 1 = 0 from rfl, show (T - -1).toNat = T.toNat + 1 by omega] at hfold
  refine ⟨⟨stepsExplicit fr cw s0 0 (T.toNat + 1), T⟩, ?_, rfl, ?_, ?_⟩
  · show (run (initAtom fr) (initStep fr cw) Gen.forcing_init_seq (FSt.blank z)).bind _ = _
    rw [hrun]
    exact hfold
  · obtain ⟨l', hl'⟩ := stepsExplicit_roms fr cw (T.toNat + 1) 0 (-1) s0
    rw [hroms] at hl'
    have hU : (stepsExplicit fr cw s0 0 (T.toNat + 1)).U = (Roms.updateRange fr st0 0 (T.toNat + 1)).U :=
      congrArg Roms.St.U hl'
    have e : ((T.toNat : Nat) : Int) = T := Int.toNat_of_nonneg hT0
    have hv := (C06.velocity_consecutive .stepdiff .next fr st0 hs hst0 T.toNat n n'
      (by rw [e]; exact ⟨hb1, hb2, hb3⟩)).1
    rw [e] at hv
    exact hU.trans hv
  · intro hl
    exact (forcing_steps_W fr cw hl _ _ s0 (forcing_init_W fr cw z s0 st0 hst0 hrun hl)).1

end Bridge
