import LadimProofs.Basic
import LadimModel.IBM.BioSeq
/-!
# Bridge (C05, C07, C09, C16, C20) — the biological IBMs: the whole `update_ibm` sequence *is* the hand-written update

`Gen.lice_update_seq`, `Gen.egg_update_seq`, `Gen.larvae_update_seq`, `Gen.saithe_update_seq`, `Gen.vps_update_seq`
(guard, kind and text of every statement, regenerated from /repo on every run) are interpreted on ONE particle by
`LadimModel/IBM/BioSeq.lean` (`runProc`: every statement and condition, taken or not, must be a known text; variables
are unbound until assigned; the random numbers are taken from one supply in the order of the requests, which are
logged).  The theorems say: the interpretation returns exactly the hand-written whole-particle update

* `lice_update_seq`   : `Bio.liceUpdate`, first draw = uniform `state_rand`, second = normal (only if
  `self.vertical_diffusion`), forcing / light read at the old position;
* `egg_update_seq`    : `Bio.eggZ` and `Bio.degreeDayAge` (with `self.dt`);
* `larvae_update_seq` : `Bio.larvaUpdate` with `clipEggs = true` (for `self.growth = growth_cod_larvae`,
  `self.length = weight_to_length`); the draw is made iff `self.D` is nonzero;
* `saithe_update_seq` : `Bio.larvaUpdate` with `clipEggs = false`, desired light `1.0`, UNDER `min_depth ≤ max_depth`
  (code: `np.clip` = min∘max, model: max∘min — they differ when `max_depth < min_depth`); `spread()` comes before
  growth and before `grid.lonlat`, after the forcing reads;  `saithe_update_seq_hardcoded`: the `__init__` constants;
* `vps_update_seq`    : `Bio.vpsUpdate` for `self.max_age = 2**30`.

The only laws of the scalar type that are used: `z * (-1) = -z` (lice, egg), the order laws for the two clip forms
(saithe), `30 ≤ 60` and `1e-4 ≠ 0` (saithe constants); everything else is by computation (`rfl`) — `exp`, `rpow`,
`sqrt`, `narrow`, … are arbitrary functions.

Statements that no generated window covered and that are pinned only here:
* lice: `state['super'] *= self.mortality_factor`; the two `forcing.field` reads; `lon, lat = grid.lonlat(..)`;
  `light0 = surface_light(..)`; `Eb = light0 * np.exp(-self.k * state.Z)`; `state_rand = np.random.rand(..)`; the guard
  `self.vertical_diffusion`, `rand = np.random.normal(..)`, `W += rand * (2 * self.D / self.dt) ** 0.5`; `state['Z'] = Z`;
  and the data flow between the windows (`nauplie` / `alive` use the NEW age, `Eb` the OLD depth).
* egg: `state = ..`, `forcing = ..`, `egg_diam = self.egg_diam`; the forcing reads; `temp, salt, buoy = (..)`; the guard,
  `rand = ..` and `W += rand * (2 * self.D / self.dt) ** 0.5`.
* larvae / saithe: the forcing reads; `W = np.zeros(.., dtype=np.float32)` (from here on every store into `W` and
  `W * self.dt` is rounded to binary32: the model's `narrow`); `T, S = ..`; `W[is_egg] = sinkvel_egg(..)` (which
  library function gets which argument); `lon, lat = ..`; `Z_larvae = ..`; `Eb = light(.., depth=Z_larvae,
  extinction_coef=self.k)`; `length = 0.001 * ..`; `W[~is_egg] = self.swim_speed * length * np.sign(Eb - ..)`; the guard
  `self.D` and `W += np.random.normal(..) * np.sqrt(2 * self.D / self.dt)`; `state['Z'] = Z`; saithe also `self.grid = ..`
  / `self.state = ..` / `self.forcing = ..`, the guard `self.extra_spreading` with the call `spread`, `desired_light = 1`.
* vps: `self.grid = ..` / `self.state = ..` / `self.forcing = ..`; `state['Z'] = np.random.uniform(0, self.max_depth, ..)`;
  `x = ..`, `y = ..`, `u, v = self.forcing.forcing.fish_velocity(x, y)`.
-/
open Ladim Ladim.BioSeq

set_option linter.unusedSectionVars false
set_option linter.unusedVariables false
set_option linter.unusedSimpArgs false
namespace Bridge
variable {α : Type} [Field α] [LinearOrder α] [IsStrictOrderedRing α]
  [HasSqrt α] [HasExp α] [HasLog α] [HasSin α] [HasCos α] [HasAsin α] [HasRpow α] [HasPi α] [HasNarrow α]

/-- `Z *= -1` is the negation -/
theorem mul_neg_one_lit (z : α) : z * (-1.0) = -z := by lits; simp

/-! ### salmon lice -/

set_option maxRecDepth 100000 in
theorem lice_run_diff (mf k sv D dt sdt : α) (ft fs : α → α → α → α) (l0 : α → α → α) (x y : α) (p : Bio.Lice α)
    (r xi : α) (rest : List α) :
    ∃ s, liceRun ⟨mf, k, sv, D, dt, sdt, true, ft, fs, l0⟩ x y p (r :: xi :: rest) = some (some s) ∧
      s.particle = Bio.liceUpdate D dt sdt mf k sv (ft x y p.z) (fs x y p.z) (l0 x y) r (some xi) p ∧
      s.rng = ⟨rest, [.uniform, .normal]⟩ ∧ s.x = x ∧ s.y = y := by
  refine ⟨_, rfl, ?_, rfl, rfl, rfl⟩
  simp only [mul_neg_one_lit]
  rfl

set_option maxRecDepth 100000 in
theorem lice_run_nodiff (mf k sv D dt sdt : α) (ft fs : α → α → α → α) (l0 : α → α → α) (x y : α) (p : Bio.Lice α)
    (r : α) (rest : List α) :
    ∃ s, liceRun ⟨mf, k, sv, D, dt, sdt, false, ft, fs, l0⟩ x y p (r :: rest) = some (some s) ∧
      s.particle = Bio.liceUpdate D dt sdt mf k sv (ft x y p.z) (fs x y p.z) (l0 x y) r none p ∧
      s.rng = ⟨rest, [.uniform]⟩ ∧ s.x = x ∧ s.y = y := by
  refine ⟨_, rfl, ?_, rfl, rfl, rfl⟩
  simp only [mul_neg_one_lit]
  rfl

/-- **salmon lice**: the interpretation of `Gen.lice_update_seq` on one particle is `Bio.liceUpdate`, with the forcing
read at the old position, the FIRST number of the supply as the uniform `state_rand` and the SECOND as the normal draw
of the mixing term (asked for only when `self.vertical_diffusion`) -/
theorem lice_update_seq (e : LiceEnv α) (x y : α) (p : Bio.Lice α) (r xi : α) (rest : List α) :
    (liceRun e x y p (r :: xi :: rest)).map (Option.map fun s => (s.particle, s.rng.log, s.rng.supply, s.x, s.y))
      = some (some (Bio.liceUpdate e.D e.dt e.stateDt e.mortFactor e.k e.swimVel (e.temp x y p.z) (e.salt x y p.z)
          (e.light0 x y) r (if e.vertDiff then some xi else none) p,
          if e.vertDiff then [.uniform, .normal] else [.uniform],
          if e.vertDiff then rest else xi :: rest, x, y)) := by
  obtain ⟨mf, k, sv, D, dt, sdt, vd, ft, fs, l0⟩ := e
  cases vd
  · obtain ⟨s, hs, hp, hr, hx, hy⟩ := lice_run_nodiff mf k sv D dt sdt ft fs l0 x y p r (xi :: rest)
    simp [hs, hp, hr, hx, hy]
  · obtain ⟨s, hs, hp, hr, hx, hy⟩ := lice_run_diff mf k sv D dt sdt ft fs l0 x y p r xi rest
    simp [hs, hp, hr, hx, hy]

set_option maxRecDepth 100000 in
/-- the order of the draws: with mixing on, one number is not enough (the second request raises) … -/
theorem lice_one_draw_raises (mf k sv D dt sdt : α) (ft fs : α → α → α → α) (l0 : α → α → α) (x y : α)
    (p : Bio.Lice α) (r : α) :
    liceRun ⟨mf, k, sv, D, dt, sdt, true, ft, fs, l0⟩ x y p [r] = some none := rfl

/-! ### egg -/

set_option maxRecDepth 100000 in
theorem egg_run_diff (D dt diam : α) (ft fs : α → α → α → α) (x y z age buoy xi : α) (rest : List α) :
    ∃ s, eggRun ⟨D, dt, diam, true, ft, fs⟩ x y z age buoy (xi :: rest) = some (some s) ∧
      s.z = Bio.eggZ D dt diam (ft x y z) (fs x y z) buoy (some xi) z ∧
      s.age = Bio.degreeDayAge age (ft x y z) dt ∧ s.rng = ⟨rest, [.normal]⟩ ∧ s.x = x ∧ s.y = y ∧ s.eggBuoy = buoy := by
  refine ⟨_, rfl, ?_, rfl, rfl, rfl, rfl, rfl⟩
  simp only [mul_neg_one_lit]
  rfl

set_option maxRecDepth 100000 in
theorem egg_run_nodiff (D dt diam : α) (ft fs : α → α → α → α) (x y z age buoy : α) (rest : List α) :
    ∃ s, eggRun ⟨D, dt, diam, false, ft, fs⟩ x y z age buoy rest = some (some s) ∧
      s.z = Bio.eggZ D dt diam (ft x y z) (fs x y z) buoy none z ∧
      s.age = Bio.degreeDayAge age (ft x y z) dt ∧ s.rng = ⟨rest, []⟩ ∧ s.x = x ∧ s.y = y ∧ s.eggBuoy = buoy := by
  refine ⟨_, rfl, ?_, rfl, rfl, rfl, rfl, rfl⟩
  simp only [mul_neg_one_lit]
  rfl

/-- **egg**: the interpretation of `Gen.egg_update_seq` on one particle is `Bio.eggZ` (depth) and `Bio.degreeDayAge`
(age, with `self.dt` and the temperature read at the OLD position); the normal draw is asked for only when
`self.vertical_diffusion` -/
theorem egg_update_seq (e : EggEnv α) (x y z age buoy xi : α) (rest : List α) :
    (eggRun e x y z age buoy (xi :: rest)).map
        (Option.map fun s => (s.z, s.age, s.eggBuoy, s.rng.log, s.rng.supply, s.x, s.y))
      = some (some (Bio.eggZ e.D e.dt e.eggDiam (e.temp x y z) (e.salt x y z) buoy
            (if e.vertDiff then some xi else none) z,
          Bio.degreeDayAge age (e.temp x y z) e.dt, buoy,
          if e.vertDiff then [.normal] else [],
          if e.vertDiff then rest else xi :: rest, x, y)) := by
  obtain ⟨D, dt, diam, vd, ft, fs⟩ := e
  cases vd
  · obtain ⟨s, hs, hz, ha, hr, hx, hy, hb⟩ := egg_run_nodiff D dt diam ft fs x y z age buoy (xi :: rest)
    simp [hs, hz, ha, hr, hx, hy, hb]
  · obtain ⟨s, hs, hz, ha, hr, hx, hy, hb⟩ := egg_run_diff D dt diam ft fs x y z age buoy xi rest
    simp [hs, hz, ha, hr, hx, hy, hb]

/-! ### larvae -/

local macro "egg_cases" h:ident : tactic => `(tactic|
  (simp only [$h:ident, decide_true, decide_false, Bool.not_true, Bool.not_false, if_true, if_false, Bool.false_eq_true,
      Bool.and_false, Bool.and_true, Bool.true_and, Bool.false_and]))

set_option maxRecDepth 100000 in
/-- the run for either truth value `dnz` of `self.D` (and any value of the switch `ex`, which larvae does not read) -/
theorem larvae_run_core (dnz ex : Bool) (c : Bio.LarvaCfg α) (ft fs : α → α → α → α) (l0 : α → α → α)
    (sp : α → α → α × α) (x y buoy : α) (p : Bio.Larva α) (xi : α) (rest : List α) :
    ∃ s, runProc (larvaAtom dnz ex) (larvaeStep ⟨c, ft, fs, l0, Gen.larvae_growth, Gen.larvae_weight_to_length, ex, sp⟩)
        Gen.larvae_update_seq (LarvaSt.init x y buoy p (xi :: rest)) = some (some s) ∧
      s.particle = Bio.larvaUpdate { c with clipEggs := true } (ft x y p.z) (fs x y p.z) buoy (l0 x y)
        (if dnz then some xi else none) p ∧
      s.rng = (if dnz then ⟨rest, [.normal]⟩ else ⟨xi :: rest, []⟩) ∧ s.x = x ∧ s.y = y ∧ s.eggBuoy = buoy := by
  cases dnz <;> cases ex <;>
  · refine ⟨_, rfl, ?_, rfl, rfl, rfl, rfl⟩
    simp only [LarvaSt.particle, Bio.larvaUpdate, Bio.larvaFinalZ, LarvaSt.storeW, LarvaSt.mulDt, LarvaSt.init]
    by_cases h : p.age ≤ c.hatchDay <;> (egg_cases h) <;> rfl

/-- **larvae**: the interpretation of `Gen.larvae_update_seq` on one particle, with the species defaults
`growth_cod_larvae` / `weight_to_length` for the configured callables `self.growth` / `self.length`, is
`Bio.larvaUpdate` with `clipEggs = true`; forcing and surface light are read at the old position; the only draw (normal)
is asked for iff `self.D` is nonzero -/
theorem larvae_update_seq (e : LarvaEnv α) (hg : e.growth = Gen.larvae_growth)
    (hl : e.length = Gen.larvae_weight_to_length) (x y buoy : α) (p : Bio.Larva α) (xi : α) (rest : List α) :
    (larvaeRun e x y buoy p (xi :: rest)).map
        (Option.map fun s => (s.particle, s.rng.log, s.rng.supply, s.x, s.y, s.eggBuoy))
      = some (some (Bio.larvaUpdate { e.c with clipEggs := true } (e.temp x y p.z) (e.salt x y p.z) buoy (e.light0 x y)
            (if Bio.isZeroS e.c.D then none else some xi) p,
          if Bio.isZeroS e.c.D then [] else [.normal],
          if Bio.isZeroS e.c.D then xi :: rest else rest, x, y, buoy)) := by
  obtain ⟨c, ft, fs, l0, g, len, ex, sp⟩ := e
  simp only at hg hl
  subst hg hl
  obtain ⟨s, hs, hp, hr, hx, hy, hb⟩ := larvae_run_core (!Bio.isZeroS c.D) ex c ft fs l0 sp x y buoy p xi rest
  unfold larvaeRun
  simp only [hs, Option.map_some, hp, hr, hx, hy, hb]
  cases Bio.isZeroS c.D <;> rfl

/-! ### saithe -/

/-- `np.clip(z, lo, hi)` is `max(min(z, hi), lo)` when `lo ≤ hi` (and only then: for `hi < lo` the first is `hi`, the
second `lo`) -/
theorem npclip_eq_clipDepth (lo hi z : α) (h : lo ≤ hi) : fmin (fmax z lo) hi = fmax (fmin z hi) lo := by
  unfold fmin fmax
  split_ifs <;> first | rfl | (exfalso; linarith)

/-- … and the hypothesis cannot be dropped: for `min_depth = 60`, `max_depth = 30` a larva at depth 0 is put to 30 by
the code (`np.clip`) and to 60 by the model (`Bio.clipDepth`) -/
theorem clip_forms_differ :
    fmin (fmax (0.0 : Rat) 60.0) 30.0 = 30.0 ∧ Bio.clipDepth (60.0 : Rat) 30.0 0.0 = 60.0 := by
  norm_num [fmin, fmax, Bio.clipDepth]

set_option maxRecDepth 100000 in
/-- the run for either truth value `dnz` of `self.D` and either value of `self.extra_spreading` -/
theorem saithe_run_core (dnz ex : Bool) (c : Bio.LarvaCfg α) (hband : c.minDepth ≤ c.maxDepth)
    (ft fs : α → α → α → α) (l0 : α → α → α) (g : α → α → α → α) (len : α → α)
    (sp : α → α → α × α) (x y buoy : α) (p : Bio.Larva α) (xi : α) (rest : List α) :
    ∃ s, runProc (larvaAtom dnz ex) (saitheStep ⟨c, ft, fs, l0, g, len, ex, sp⟩)
        Gen.saithe_update_seq (LarvaSt.init x y buoy p (xi :: rest)) = some (some s) ∧
      s.particle = Bio.larvaUpdate { c with clipEggs := false, desired := 1.0 } (ft x y p.z) (fs x y p.z) buoy
        (if ex then l0 (sp x y).1 (sp x y).2 else l0 x y) (if dnz then some xi else none) p ∧
      s.rng = (if dnz then ⟨rest, [.normal]⟩ else ⟨xi :: rest, []⟩) ∧
      s.x = (if ex then (sp x y).1 else x) ∧ s.y = (if ex then (sp x y).2 else y) ∧ s.eggBuoy = buoy := by
  cases dnz <;> cases ex <;>
  · refine ⟨_, rfl, ?_, rfl, rfl, rfl, rfl⟩
    simp only [LarvaSt.particle, Bio.larvaUpdate, Bio.larvaFinalZ, LarvaSt.storeW, LarvaSt.mulDt, LarvaSt.init]
    by_cases h : p.age ≤ c.hatchDay
    · egg_cases h
    · egg_cases h
      rw [npclip_eq_clipDepth _ _ _ hband]
      rfl

/-- **saithe**: the interpretation of `Gen.saithe_update_seq` on one particle is `Bio.larvaUpdate` with
`clipEggs = false` and desired light `1.0`, PROVIDED `min_depth ≤ max_depth` (the code clips larvae with `np.clip`, the
model with `max(min(·, max_depth), min_depth)`).  `spread` (when `self.extra_spreading`) moves the particle
horizontally BEFORE growth: temperature and salinity are those of the old position, the surface light is that of the
NEW horizontal position. -/
theorem saithe_update_seq (e : LarvaEnv α) (hband : e.c.minDepth ≤ e.c.maxDepth)
    (x y buoy : α) (p : Bio.Larva α) (xi : α) (rest : List α) :
    (saitheRun e x y buoy p (xi :: rest)).map
        (Option.map fun s => (s.particle, s.rng.log, s.rng.supply, s.x, s.y, s.eggBuoy))
      = some (some (Bio.larvaUpdate { e.c with clipEggs := false, desired := 1.0 } (e.temp x y p.z) (e.salt x y p.z) buoy
            (if e.extraSpreading then e.light0 (e.spread x y).1 (e.spread x y).2 else e.light0 x y)
            (if Bio.isZeroS e.c.D then none else some xi) p,
          if Bio.isZeroS e.c.D then [] else [.normal],
          if Bio.isZeroS e.c.D then xi :: rest else rest,
          if e.extraSpreading then (e.spread x y).1 else x,
          if e.extraSpreading then (e.spread x y).2 else y, buoy)) := by
  obtain ⟨c, ft, fs, l0, g, len, ex, sp⟩ := e
  obtain ⟨s, hs, hp, hr, hx, hy, hb⟩ :=
    saithe_run_core (!Bio.isZeroS c.D) ex c hband ft fs l0 g len sp x y buoy p xi rest
  unfold saitheRun
  simp only [hs, Option.map_some, hp, hr, hx, hy, hb]
  cases Bio.isZeroS c.D <;> rfl

/-- the attributes that `saithe/ibm.py :: IBM.__init__` hard-codes (`__init__` is not part of the sequence) -/
def saitheCfg (dt stateDt : α) : Bio.LarvaCfg α :=
  ⟨60.0, 9.3e-2, 0.2, 1.0, 30.0, 60.0, 0.2, 1.0e-4, dt, stateDt, 0.0011, false⟩

/-- with the hard-coded attributes the band hypothesis holds and the normal draw is always made -/
theorem saithe_update_seq_hardcoded (e : LarvaEnv α) (dt sdt : α) (hc : e.c = saitheCfg dt sdt)
    (x y buoy : α) (p : Bio.Larva α) (xi : α) (rest : List α) :
    (saitheRun e x y buoy p (xi :: rest)).map
        (Option.map fun s => (s.particle, s.rng.log, s.rng.supply, s.x, s.y, s.eggBuoy))
      = some (some (Bio.larvaUpdate (saitheCfg dt sdt) (e.temp x y p.z) (e.salt x y p.z) buoy
            (if e.extraSpreading then e.light0 (e.spread x y).1 (e.spread x y).2 else e.light0 x y) (some xi) p,
          [.normal], rest,
          if e.extraSpreading then (e.spread x y).1 else x,
          if e.extraSpreading then (e.spread x y).2 else y, buoy)) := by
  have hband : e.c.minDepth ≤ e.c.maxDepth := by rw [hc]; simp only [saitheCfg]; norm_num
  have hD : Bio.isZeroS e.c.D = false := by
    rw [hc]; simp only [saitheCfg, Bio.isZeroS]; norm_num
  rw [saithe_update_seq e hband, hD, hc]
  rfl

/-! ### vps -/

theorem feq_zero (a : α) : Gen.feq a 0.0 = Bio.isZeroS a := by
  simp only [Gen.feq, Bio.isZeroS, Bool.not_or]

set_option maxRecDepth 100000 in
theorem vps_run_core (md dt ma : α) (fv : α → α → α × α) (x y : α) (p : Bio.Vps α) (u : α) (rest : List α) :
    ∃ s, vpsRun ⟨md, dt, ma, fv⟩ x y p (u :: rest) = some (some s) ∧
      s.particle = ⟨Bio.vpsZ md u, p.age + dt,
        (p.alive && decide (p.age + dt < ma)) && (!(Gen.feq (fv x y).1 0.0) || !(Gen.feq (fv x y).2 0.0))⟩ ∧
      s.rng = ⟨rest, [.uniform]⟩ ∧ s.x = x ∧ s.y = y := by
  exact ⟨_, rfl, rfl, rfl, rfl, rfl⟩

/-- **vps**: the interpretation of `Gen.vps_update_seq` on one particle is `Bio.vpsUpdate`, for `self.max_age = 2**30`
(set in `__init__`); the fish velocity is sampled at the particle's horizontal position, the depth is the only
(uniform) draw -/
theorem vps_update_seq (e : VpsEnv α) (hma : e.maxAge = 1073741824.0) (x y : α) (p : Bio.Vps α) (u : α)
    (rest : List α) :
    (vpsRun e x y p (u :: rest)).map (Option.map fun s => (s.particle, s.rng.log, s.rng.supply, s.x, s.y))
      = some (some (Bio.vpsUpdate e.maxDepth e.dt u (e.fishVel x y).1 (e.fishVel x y).2 p, [.uniform], rest, x, y)) := by
  obtain ⟨md, dt, ma, fv⟩ := e
  simp only at hma
  subst hma
  obtain ⟨s, hs, hp, hr, hx, hy⟩ := vps_run_core md dt 1073741824.0 fv x y p u rest
  simp only [hs, Option.map_some, hp, hr, hx, hy, feq_zero]
  rfl

end Bridge
