import LadimProofs.C18
import LadimModel.Release.ConfigSeq
/-!
# Bridge (C18, C01) — `load_config`: the container normalisation and the validation *are* the code

`Gen.load_config_seq` is the statement sequence of `release/makrel.py :: load_config` (every statement with its
guards, regenerated from /repo on every run).  Interpreted on a parsed configuration object
(`LadimModel/Release/ConfigSeq.lean`; every statement — also in branches not taken — must be a known one) it returns
exactly `Table.normalise` of the container when `Table.validate` accepts it, and raises otherwise.  Hence
`C18.list_eq_grouped`, `C18.flat_eq_grouped`, `C18.containers_agree` and `C18.invalid_rejected` speak about the
current source: the list container is the grouped container, the flat container is one group without the global
keys `seed` / `columns`, and a configuration with a missing `date` / `location` / `num` is rejected.
-/
open Ladim Ladim.Table Ladim.Seq

namespace Bridge

/-- outcome of the model: `none` when the validation rejects the configuration (the code raises `ValueError`) -/
def loadConfigSpec (c : Container) : Option (List String × List RawGroup) :=
  if validate c = none then some (normalise c) else none

/-- the filtered enumeration is empty iff no entry satisfies the predicate -/
theorem filter_zip_isEmpty {α β : Type} (p : β → Bool) : ∀ (l₂ : List β) (l₁ : List α), l₁.length = l₂.length →
    ((l₁.zip l₂).filter (fun m => p m.2)).isEmpty = !(l₂.any p)
  | [], l₁, _ => by simp
  | b :: l₂, [], h => by simp at h
  | b :: l₂, a :: l₁, h => by
    have ih := filter_zip_isEmpty p l₂ l₁ (by simpa using h)
    cases hb : p b <;> simp [hb, ih]

/-- `validate` accepts iff no group misses a necessary key (the `any(...)` of the code) -/
theorem validate_eq_none (c : Container) :
    (validate c = none) ↔ (((normalise c).2.map missing).any (fun m => !m.isEmpty) = false) := by
  unfold validate
  have := filter_zip_isEmpty (α := Nat) (fun m : List String => !m.isEmpty) ((normalise c).2.map missing)
    (List.range (normalise c).2.length) (by simp)
  simp only [] at this ⊢
  rw [this]
  cases ((normalise c).2.map missing).any (fun m => !m.isEmpty) <;> simp

set_option maxRecDepth 100000 in
/-- the last five statements (from `if any(m for m in not_present)` on), in any state -/
theorem tail_run (s : CfgSt) :
    runStrict cfgAtom cfgStep (Gen.load_config_seq.drop 15) s
      = if s.notPresent.any (fun m => !m.isEmpty) then some none else some (some s) := by
  have a1 : cfgAtom s "any((m for m in not_present))" = some (s.notPresent.any (fun m => !m.isEmpty)) := rfl
  have a2 : cfgAtom s "for g in config['groups']" = some true := rfl
  have s1 : cfgStep s "assign" "messages = [', '.join(p) + (f\" in group {i}\" if len(config['groups']) > 1 else '') for i, p in enumerate(not_present) if p]" = some (some s) := rfl
  have s2 : cfgStep s "assign" "msg = '\\n  and '.join(messages)" = some (some s) := rfl
  have s3 : cfgStep s "raise" "raise ValueError('Missing parameters: ' + msg)" = some none := rfl
  have s4 : cfgStep s "expr" "np.array(g['date']).astype('datetime64')" = some (some s) := rfl
  have e : Gen.load_config_seq.drop 15 = [
    ([(true, "any((m for m in not_present))")], "assign", "messages = [', '.join(p) + (f\" in group {i}\" if len(config['groups']) > 1 else '') for i, p in enumerate(not_present) if p]"),
    ([(true, "any((m for m in not_present))")], "assign", "msg = '\\n  and '.join(messages)"),
    ([(true, "any((m for m in not_present))")], "raise", "raise ValueError('Missing parameters: ' + msg)"),
    ([(true, "for g in config['groups']")], "expr", "np.array(g['date']).astype('datetime64')"),
    ([], "return", "config")] := rfl
  rw [e]
  cases h : s.notPresent.any (fun m => !m.isEmpty) <;>
    simp [runStrict, guardVal, a1, a2, s1, s2, s3, s4, h]

set_option maxRecDepth 100000 in
/-- the first fifteen statements: the container is normalised and `not_present` is `missing` of every group -/
theorem head_run (c : Container) : ∃ s : CfgSt,
    runStrict cfgAtom cfgStep Gen.load_config_seq (CfgSt.init c)
      = runStrict cfgAtom cfgStep (Gen.load_config_seq.drop 15) s
    ∧ s.cfg = .grouped (normalise c).1 (normalise c).2 ∧ s.notPresent = (normalise c).2.map missing := by
  cases c with
  | flat keys =>
    exact ⟨⟨.grouped (normalise (.flat keys)).1 (normalise (.flat keys)).2, globalKeys, (normalise (.flat keys)).1,
      (normalise (.flat keys)).2, necessary, (normalise (.flat keys)).2.map missing⟩, rfl, rfl, rfl⟩
  | list gs => exact ⟨⟨.grouped [] gs, [], [], [], necessary, gs.map missing⟩, rfl, rfl, rfl⟩
  | grouped gl gs => exact ⟨⟨.grouped gl gs, [], [], [], necessary, gs.map missing⟩, rfl, rfl, rfl⟩

theorem load_config (c : Container) :
    (runStrict cfgAtom cfgStep Gen.load_config_seq (CfgSt.init c)).map
        (fun r => r.map (fun s => (match s.cfg with | .grouped gl gs => (gl, gs) | _ => ([], []))))
      = some (loadConfigSpec c) := by
  obtain ⟨s, hrun, hcfg, hnp⟩ := head_run c
  rw [hrun, tail_run, hnp]
  unfold loadConfigSpec
  cases h : ((normalise c).2.map missing).any (fun m => !m.isEmpty)
  · have hv : validate c = none := (validate_eq_none c).2 h
    simp [hv, hcfg]
  · have hv : ¬ validate c = none := fun hv => by
      rw [(validate_eq_none c).1 hv] at h; exact Bool.noConfusion h
    simp [hv]

end Bridge
