import LadimModel.Generated.Formulas
/-!
# Bridge (C05, C09) — order of the rules in the shrimp, sand eel and lunar eel updates

The hand-written models of these three modules are per-rule (`Bio.shrimpMix`, `Bio.shrimpMigrate`, `Develop.*`,
`Bio.sandeelZ`, `Bio.eelZ`); the harness composes them in the order below.  The theorems pin that order to the
statement sequence of `update_ibm` in /repo's current source (`Gen.*_update_seq`, regenerated on every run): every
statement is unconditional, and the calls are exactly these, in this order.
-/
open Ladim

namespace Bridge

/-- the unconditional statements of a sequence that are method calls or bare function calls, in order -/
def callsOf (seq : List (List (Bool × String) × String × String)) : List String :=
  (seq.filter (fun s => s.2.1 = "call" || s.2.1 = "expr")).map (fun s => s.2.2)

/-- every statement of the sequence is outside any `if` / `for` -/
def unconditional (seq : List (List (Bool × String) × String × String)) : Bool := seq.all (fun s => s.1.isEmpty)

theorem shrimp_order :
    unconditional Gen.shrimp_update_seq = true ∧
    callsOf Gen.shrimp_update_seq = ["initialize", "update_ibm_forcing", "growth", "mixing", "diel_migration"] := by
  decide

theorem sandeel_order :
    unconditional Gen.sandeel_update_seq = true ∧
    callsOf Gen.sandeel_update_seq =
      ["initialize_hatch_rate",
       "egg_development(self.bottom_temp(), state['stage'], state['hatch_rate'], state['active'], self.dt)",
       "larval_development(temp, state['stage'], state['active'], self.dt)",
       "vertical_diffuse"] := by
  decide

theorem eel_order :
    callsOf Gen.eel_update_seq = ["init_grid", "horizontal_advect", "vertical_diffuse"] ∧
    (Gen.eel_update_seq.filter (fun s => !s.1.isEmpty)).map (fun s => (s.1, s.2.2)) =
      [([(true, "self.xs_dx is None")], "init_grid")] := by
  decide

end Bridge
