import LadimProofs.Bridge.ForcingRun
import LadimModel.Forcing.RomsCtorSeq
/-!
# Bridge (C06) — `chemicals/gridforce.py :: Forcing`: constructor, step table, `update`, readers

`LadimModel/Forcing/RomsCtorSeq.lean` interprets the generated statement sequences of `Forcing.__init__`,
`find_files`, `open_dataset`, `scan_file_times`, `forcing_steps`, `update`, `open_forcing_file`, `_read_velocity`,
`_read_field`, `close`, `__setitem__`, `__getitem__` (strict runner with really iterated, nested `for` loops; every
statement, condition and `return` text must be a known one).  This file proves what the interpretations amount to.
Headline theorems are `Bridge.forcing_*`; auxiliary definitions and lemmas carry the prefix `rc_`.

* **Step table** (`Gen.forcing_steps_seq`).  `forcing_steps` (hypothesis: the files list at most as many frames as
  there are frame times — an `IndexError` otherwise): `stepsSeq A = rc_stepsSpec A` — `IndexError` without frames,
  `SystemExit(3)` unless `time0 ≤ start` and `stop ≤ time1`, a raise for `dt = 0`, else
  `steps = [Roms.forcingStep (t − start) dt for t in all_frames]` (truncation toward zero, the model's function) and
  the dicts `file_idx`, `frame_idx` = successive assignments `steps[m] ↦ (file, position in file)` of frame `m`
  (`rc_frameLabels`).  `rc_stepsTable_fileIdx/_frameIdx`: a lookup answers with the *last* frame mapped to the step;
  `rc_stepsTable_lookup(_sorted)`: frame `k` is found under its step when no later frame shares it (always, for strictly
  increasing steps); `rc_tableSteps_aligned`: offsets that are multiples of `dt` give the exact quotient;
  `rc_tableSteps_sorted`: then strictly increasing times give `C06.Sorted` steps; `rc_tableSteps_mono` + the instance
  `forcing_steps_unaligned` (known finding F-C06e: offsets 0 s, 300 s with `dt` = 600 s share step 0 and the later
  frame replaces the earlier one in the dicts).
* **Files and times.** `forcing_find_files`, `forcing_open_dataset`, `forcing_scan_file_times` (no hypotheses; closed
  forms `rc_findFilesSpec`, `rc_scanSpec`; `rc_notAfter_iff_sorted`: the check passes iff the times increase strictly).
* **`__init__`** (`forcing_ctor`, no hypotheses): `ctorSeq = rc_ctorSpec` — files, then times, then steps, then the
  attributes in the order `rc_ctorLog`; `_nc = None`, `initialization_finished = False`, `_last_update = -1`;
  `forcing_ctor_ok`: the good case.
* **`update`** (`forcing_update`, no hypotheses): `_remaining_initialization()`, then `Seq.codeUpdate` (the fold of the
  interpreted `_update_one_step` over `_last_update + 1 … t`).  `forcing_update_model`: on the C06 state it is
  `Roms.update .loop`.  `forcing_update_any_schedule`: the C06 velocity theorem for runs of the interpreted `update`.
* **Readers.** `forcing_open_file`, `forcing_read_velocity`, `forcing_read_field`, `forcing_close` (no hypotheses;
  closed forms `rc_openFileObj`, `rc_readVelSpec`, `rc_readFieldSpec`), and what they serve: `forcing_read_velocity_opens`
  (first read / first frame of a file: frame `frame_idx[n]` of `file_idx[n]`), `forcing_read_velocity_same_file` and
  `forcing_read_field_open` (otherwise: frame `frame_idx[n]` of the file that is *open*).
  `RomsReadFieldExample`: a run in which `_read_field(name, 0)` of `_remaining_initialization` does not read the file of
  step 0.
* `forcing_setitem`, `forcing_getitem`: `setattr` / `getattr`.
-/
open Ladim Ladim.Seq Ladim.Seq.RomsCtor Ladim.Seq.RomsCtor.Nest

set_option linter.unusedSimpArgs false
set_option linter.unusedVariables false
set_option linter.unusedSectionVars false

namespace Bridge

/-! ## the runner -/
section runner
variable {σ : Type}

theorem rc_nest_run_eq (I : Interp σ) (prog : List Stmt) (s : σ) (h : prog.all (stmtKnown I s) = true) :
    Nest.run I prog s = runBlocks I (runDepth I 2) (Loops.blocks I.isLoop prog) s := by
  unfold Nest.run
  rw [if_pos h]
  rfl

end runner

section items
variable {ν : Type}

set_option maxRecDepth 100000 in
theorem forcing_setitem (attrs : List (String × ν)) (key : String) (value : ν) :
    setitemSeq attrs key value = some (some (dictSet attrs key value)) := rfl

set_option maxRecDepth 100000 in
theorem forcing_getitem (attrs : List (String × ν)) (key : String) (dflt : ν) :
    getitemSeq attrs key dflt = some (attrs.lookup key) := by
  have hk : ∀ s, Gen.forcing_getitem_seq.all (stmtKnown (itemInterp key dflt) s) = true := fun _ => rfl
  have hb : Loops.blocks (itemInterp key dflt).isLoop Gen.forcing_getitem_seq =
    [.plain ([], "return", "getattr(self, key)")] := rfl
  have s1 : ∀ s : ItemSt ν, (itemInterp key dflt).step s "return" "getattr(self, key)" =
    some ((s.attrs.lookup key).map (fun v => { s with ret := some v })) := fun _ => rfl
  unfold getitemSeq
  rw [rc_nest_run_eq _ _ _ (hk _), hb]
  simp only [runBlocks, guardEnter, s1]
  cases attrs.lookup key <;> rfl

end items

/-! ## `close`, `open_dataset`, `find_files` -/
section small
variable {α : Type}

set_option maxRecDepth 100000 in
/-- **`Forcing.close`** (`Gen.forcing_close_seq`): the open dataset is closed (`AttributeError` on `None`); `_nc` keeps
pointing to it. -/
theorem forcing_close (o : FObj α) :
    closeSeq o = some (o.nc.map (fun f => { o with closed := o.closed ++ [f] })) := by
  have hk : ∀ s : FObj α, Gen.forcing_close_seq.all
    (stmtKnown ⟨fun _ _ => none, clStep, fun _ => false, fun _ _ => []⟩ s) = true := fun _ => rfl
  unfold closeSeq
  rw [rc_nest_run_eq _ _ _ (hk _)]
  show runBlocks _ _ [.plain ([], "expr", "self._nc.close()")] o = _
  have s1 : ∀ o : FObj α, clStep o "expr" "self._nc.close()" =
    some (o.nc.map (fun f => { o with closed := o.closed ++ [f] })) := fun _ => rfl
  have k2 : ("expr" = "return") = False := by decide
  simp only [runBlocks, guardEnter, s1, k2, if_false]
  cases o.nc <;> rfl

set_option maxRecDepth 100000 in
/-- **`Forcing.open_dataset`** (`Gen.forcing_open_dataset_seq`): a `memoryview` is opened in memory, anything else by
name. -/
theorem forcing_open_dataset (isMem : Bool) :
    openDatasetSeq isMem = some (some (if isMem then .memory else .path)) := by
  cases isMem <;> rfl

/-- `find_files` in closed form: a list / tuple is taken as it is (not sorted, not filtered); a pattern is globbed,
sorted, and filtered by `first_file` / `last_file` when these are given (and not empty) -/
def rc_findFilesSpec (glob : String → List String) (c : ForceCfg) : List String :=
  match c.inputFile with
  | .list l => l
  | .pattern p =>
    let f0 := (glob p).mergeSort (fun a b => decide (a ≤ b))
    let f1 := if truthy c.firstFile then f0.filter (fun f => decide (c.firstFile.getD "" ≤ f)) else f0
    if truthy c.lastFile then f1.filter (fun f => decide (f ≤ c.lastFile.getD "")) else f1

set_option maxRecDepth 100000 in
/-- **`Forcing.find_files`** (`Gen.forcing_find_files_seq`) -/
theorem forcing_find_files (glob : String → List String) (c : ForceCfg) :
    findFilesSeq glob c = some (some (rc_findFilesSpec glob c)) := by
  have hk : ∀ s, Gen.forcing_find_files_seq.all (stmtKnown (ffInterp glob c) s) = true := fun _ => rfl
  unfold findFilesSeq
  rw [rc_nest_run_eq _ _ _ (hk _)]
  obtain ⟨inp, first, last⟩ := c
  cases inp with
  | list l => rfl
  | pattern p =>
    cases h1 : truthy first <;> cases h2 : truthy last <;>
      simp [Gen.forcing_find_files_seq, Loops.blocks, Loops.loopOf, ffInterp, runBlocks, guardEnter, Nest.ofAtom,
        ffAtom, ffStep, h1, h2, retVal, rc_findFilesSpec]

end small
end Bridge

/-! ## `forcing_steps` -/
namespace Bridge

def rc_stHdrT : String := "for t in all_frames"
def rc_stHdrF : String := "for fname in files"
def rc_stHdrI : String := "for i in range(num_frames[fname])"

def rc_stBodyT : List Stmt := [
  ([(true, rc_stHdrT)], "assign", "dtime = np.timedelta64(t - start_time, 's').astype(int)"),
  ([(true, rc_stHdrT)], "expr", "steps.append(int(dtime / config['dt']))")]

def rc_stBodyF : List Stmt := [
  ([(true, rc_stHdrF), (true, rc_stHdrI)], "assign", "step_counter += 1"),
  ([(true, rc_stHdrF), (true, rc_stHdrI)], "assign", "step = steps[step_counter]"),
  ([(true, rc_stHdrF), (true, rc_stHdrI)], "assign", "file_idx[step] = fname"),
  ([(true, rc_stHdrF), (true, rc_stHdrI)], "assign", "frame_idx[step] = i")]

def rc_stTail : List Loops.Block := [
    .loop rc_stHdrT rc_stBodyT,
    .plain ([], "assign", "file_idx = dict()"),
    .plain ([], "assign", "frame_idx = dict()"),
    .plain ([], "assign", "step_counter = -1"),
    .loop rc_stHdrF rc_stBodyF,
    .plain ([], "return", "(steps, file_idx, frame_idx)")]

set_option maxRecDepth 100000 in
theorem rc_steps_blocks (A : StepsArgs) : Loops.blocks (stepsInterp A).isLoop Gen.forcing_steps_seq =
    .plain ([], "assign", "time0 = all_frames[0]") ::
    .plain ([], "assign", "time1 = all_frames[-1]") ::
    .plain ([], "expr", "logging.info(f\"First forcing time = {time0}\")") ::
    .plain ([], "expr", "logging.info(f\"Last forcing time = {time1}\")") ::
    .plain ([], "assign", "start_time = np.datetime64(config['start_time'])") ::
    .plain ([], "assign", "dt = np.timedelta64(int(config['dt']), 's')") ::
    .plain ([(true, "time0 > start_time")], "expr", "logging.error('No forcing at start time')") ::
    .plain ([(true, "time0 > start_time")], "raise", "raise SystemExit(3)") ::
    .plain ([(true, "time1 < config['stop_time']")], "expr", "logging.error('No forcing at stop time')") ::
    .plain ([(true, "time1 < config['stop_time']")], "raise", "raise SystemExit(3)") ::
    .plain ([], "assign", "steps = []") :: rc_stTail := rfl

set_option maxRecDepth 100000 in
theorem rc_steps_known (A : StepsArgs) (s : StepsSt) :
    Gen.forcing_steps_seq.all (stmtKnown (stepsInterp A) s) = true := rfl

end Bridge

namespace Bridge
section runner
variable {σ : Type}

theorem rc_loopOver_fold {ι : Type} (body : σ → Option (Option σ)) (bind : ι → σ → σ) (f : σ → ι → σ)
    (h : ∀ s x, body (bind x s) = some (some (f s x))) :
    ∀ (l : List ι) (s : σ), loopOver body (l.map bind) s = some (some (l.foldl f s))
  | [], s => rfl
  | x :: l, s => by
    simp only [List.map_cons, loopOver, h, List.foldl_cons]
    exact rc_loopOver_fold body bind f h l (f s x)

theorem rc_loopOver_fold_inv {ι : Type} (body : σ → Option (Option σ)) (bind : ι → σ → σ) (f : σ → ι → σ)
    (Inv : Nat → σ → Prop) (l : List ι)
    (h : ∀ k s x, l[k]? = some x → Inv k s → body (bind x s) = some (some (f s x)) ∧ Inv (k + 1) (f s x)) :
    ∀ (suf : List ι) (k : Nat) (s : σ), k ≤ l.length → l.drop k = suf → Inv k s →
      loopOver body (suf.map bind) s = some (some (suf.foldl f s)) ∧ Inv l.length (suf.foldl f s)
  | [], k, s, hk, hd, hi => by
    have : l.length ≤ k := List.drop_eq_nil_iff.mp hd
    have hkl : k = l.length := by omega
    subst hkl
    exact ⟨rfl, hi⟩
  | x :: suf, k, s, hk, hd, hi => by
    have hx : l[k]? = some x := by
      have := List.getElem?_drop (xs := l) (i := k) (j := 0)
      rw [hd] at this
      simpa using this.symm
    have hlt : k < l.length := by
      rcases Nat.lt_or_ge k l.length with h' | h'
      · exact h'
      · rw [List.getElem?_eq_none h'] at hx; cases hx
    have hd' : l.drop (k + 1) = suf := by
      rw [← List.drop_drop, hd]; rfl
    obtain ⟨h1, h2⟩ := h k s x hx hi
    obtain ⟨h3, h4⟩ := rc_loopOver_fold_inv body bind f Inv l h suf (k + 1) (f s x) hlt hd' h2
    refine ⟨?_, h4⟩
    simp only [List.map_cons, loopOver, h1, List.foldl_cons]
    exact h3

end runner
end Bridge

namespace Bridge

/-- one trip of `for t in all_frames` -/
def rc_stTripT (A : StepsArgs) (s : StepsSt) (t : Int) : StepsSt :=
  { s with t := t, dtime := t - A.start, steps := s.steps ++ [Roms.forcingStep (t - A.start) A.dt] }


set_option maxRecDepth 100000 in
theorem rc_st_tripT (A : StepsArgs) (s : StepsSt) (t : Int) :
    runDepth (stepsInterp A) 2 (stripBody (stepsInterp A).isLoop rc_stBodyT) { s with t := t } =
      if A.dt = 0 then some none else some (some (rc_stTripT A s t)) := by
  have hb : Loops.blocks (stepsInterp A).isLoop (stripBody (stepsInterp A).isLoop rc_stBodyT) = [
    .plain ([], "assign", "dtime = np.timedelta64(t - start_time, 's').astype(int)"),
    .plain ([], "expr", "steps.append(int(dtime / config['dt']))")] := rfl
  have s1 : ∀ s : StepsSt, (stepsInterp A).step s "assign" "dtime = np.timedelta64(t - start_time, 's').astype(int)" =
    some (some { s with dtime := s.t - A.start }) := fun _ => rfl
  have s2 : ∀ s : StepsSt, (stepsInterp A).step s "expr" "steps.append(int(dtime / config['dt']))" =
    some (if A.dt = 0 then none else some { s with steps := s.steps ++ [Roms.forcingStep s.dtime A.dt] }) := fun _ => rfl
  have k1 : ("assign" = "return") = False := by decide
  have k2 : ("expr" = "return") = False := by decide
  show runBlocks _ _ (Loops.blocks _ _) _ = _
  rw [hb]
  simp only [runBlocks, guardEnter, s1, s2, k1, k2, if_false]
  by_cases h : A.dt = 0 <;> simp [h, rc_stTripT]

theorem rc_st_foldT (A : StepsArgs) : ∀ (l : List Int) (s : StepsSt),
    (l.foldl (rc_stTripT A) s).steps = s.steps ++ l.map (fun t => Roms.forcingStep (t - A.start) A.dt) ∧
    (l.foldl (rc_stTripT A) s).time0 = s.time0 ∧ (l.foldl (rc_stTripT A) s).time1 = s.time1
  | [], s => by simp
  | t :: l, s => by
    obtain ⟨h1, h2, h3⟩ := rc_st_foldT A l (rc_stTripT A s t)
    simp only [List.foldl_cons, h1, h2, h3, List.map_cons]
    simp [rc_stTripT]

end Bridge

namespace Bridge


/-- the body of `for fname in files`, seen from inside that loop -/
def rc_stBodyI : List Stmt := [
  ([(true, rc_stHdrI)], "assign", "step_counter += 1"),
  ([(true, rc_stHdrI)], "assign", "step = steps[step_counter]"),
  ([(true, rc_stHdrI)], "assign", "file_idx[step] = fname"),
  ([(true, rc_stHdrI)], "assign", "frame_idx[step] = i")]

/-- one trip of the inner loop, for the frame `lbl = (fname, i)` -/
def rc_stTripI (s : StepsSt) (lbl : String × Nat) : StepsSt :=
  { s with fname := lbl.1, i := lbl.2, stepCounter := s.stepCounter + 1,
           step := (pyGet s.steps (s.stepCounter + 1)).getD 0,
           fileIdx := dictSet s.fileIdx ((pyGet s.steps (s.stepCounter + 1)).getD 0) lbl.1,
           frameIdx := dictSet s.frameIdx ((pyGet s.steps (s.stepCounter + 1)).getD 0) lbl.2 }

set_option maxRecDepth 100000 in
theorem rc_st_tripI (A : StepsArgs) (s : StepsSt) (i : Nat) (st : Int)
    (h : pyGet s.steps (s.stepCounter + 1) = some st) :
    runDepth (stepsInterp A) 1 (stripBody (stepsInterp A).isLoop rc_stBodyI) { s with i := i } =
      some (some (rc_stTripI s (s.fname, i))) := by
  have hb : Loops.blocks (stepsInterp A).isLoop (stripBody (stepsInterp A).isLoop rc_stBodyI) = [
    .plain ([], "assign", "step_counter += 1"),
    .plain ([], "assign", "step = steps[step_counter]"),
    .plain ([], "assign", "file_idx[step] = fname"),
    .plain ([], "assign", "frame_idx[step] = i")] := rfl
  have s1 : ∀ s : StepsSt, (stepsInterp A).step s "assign" "step_counter += 1" =
    some (some { s with stepCounter := s.stepCounter + 1 }) := fun _ => rfl
  have s2 : ∀ s : StepsSt, (stepsInterp A).step s "assign" "step = steps[step_counter]" =
    some ((pyGet s.steps s.stepCounter).map (fun st => { s with step := st })) := fun _ => rfl
  have s3 : ∀ s : StepsSt, (stepsInterp A).step s "assign" "file_idx[step] = fname" =
    some (some { s with fileIdx := dictSet s.fileIdx s.step s.fname }) := fun _ => rfl
  have s4 : ∀ s : StepsSt, (stepsInterp A).step s "assign" "frame_idx[step] = i" =
    some (some { s with frameIdx := dictSet s.frameIdx s.step s.i }) := fun _ => rfl
  have k1 : ("assign" = "return") = False := by decide
  show runBlocks _ _ (Loops.blocks _ _) _ = _
  rw [hb]
  simp only [runBlocks, guardEnter, s1, s2, s3, s4, k1, if_false, h, Option.map_some]
  simp [rc_stTripI, h]

end Bridge

namespace Bridge

theorem rc_pyGet_nat {β : Type} (l : List β) (m : Nat) : pyGet l (m : Int) = l[m]? := by
  unfold pyGet
  simp

/-- the inner loop `for i in range(n)` for the file `f`, when `m0` frames have been entered so far and `n` more
steps exist -/
theorem rc_st_loopI (A : StepsArgs) (f : String) (n m0 : Nat) (s : StepsSt) (hf : s.fname = f)
    (hc : s.stepCounter = (m0 : Int) - 1) (hlen : m0 + n ≤ s.steps.length) :
    loopOver (runDepth (stepsInterp A) 1 (stripBody (stepsInterp A).isLoop rc_stBodyI))
        ((List.range n).map (fun i s => { s with i := i })) s =
      some (some (((List.range n).map (fun i => (f, i))).foldl rc_stTripI s)) ∧
    (((List.range n).map (fun i => (f, i))).foldl rc_stTripI s).steps = s.steps ∧
    (((List.range n).map (fun i => (f, i))).foldl rc_stTripI s).stepCounter = ((m0 + n : Nat) : Int) - 1 := by
  have key := rc_loopOver_fold_inv
    (runDepth (stepsInterp A) 1 (stripBody (stepsInterp A).isLoop rc_stBodyI))
    (fun (i : Nat) (s : StepsSt) => { s with i := i }) (fun s i => rc_stTripI s (f, i))
    (fun k s' => s'.steps = s.steps ∧ s'.fname = f ∧ s'.stepCounter = ((m0 + k : Nat) : Int) - 1)
    (List.range n)
    (by
      intro k s' x hx ⟨h1, h2, h3⟩
      have hk : k < n ∧ x = k := by
        have := List.getElem?_eq_some_iff.mp hx
        obtain ⟨hlt, he⟩ := this
        simp at hlt he
        exact ⟨hlt, he.symm⟩
      have hget : pyGet s'.steps (s'.stepCounter + 1) = some (s.steps[m0 + k]'(by omega)) := by
        rw [h1, h3, show ((m0 + k : Nat) : Int) - 1 + 1 = ((m0 + k : Nat) : Int) by omega, rc_pyGet_nat]
        exact List.getElem?_eq_getElem (by omega)
      have := rc_st_tripI A s' x _ hget
      have e : rc_stTripI s' (s'.fname, x) = rc_stTripI s' (f, x) := by rw [h2]
      rw [e] at this
      refine ⟨this, ?_, ?_, ?_⟩
      · exact h1
      · rfl
      · show s'.stepCounter + 1 = _
        rw [h3]; push_cast; omega)
    (List.range n) 0 s (Nat.zero_le _) rfl ⟨rfl, hf, by simpa using hc⟩
  rw [List.foldl_map]
  refine ⟨key.1, key.2.1, ?_⟩
  have := key.2.2.2
  simpa using this

/-- one trip of `for fname in files` -/
def rc_stTripF (A : StepsArgs) (s : StepsSt) (f : String) : StepsSt :=
  ((List.range (A.numFrames f)).map (fun i => (f, i))).foldl rc_stTripI { s with fname := f }

set_option maxRecDepth 100000 in
theorem rc_st_tripF (A : StepsArgs) (f : String) (m0 : Nat) (s : StepsSt)
    (hc : s.stepCounter = (m0 : Int) - 1) (hlen : m0 + A.numFrames f ≤ s.steps.length) :
    runDepth (stepsInterp A) 2 (stripBody (stepsInterp A).isLoop rc_stBodyF) { s with fname := f } =
      some (some (rc_stTripF A s f)) ∧
    (rc_stTripF A s f).steps = s.steps ∧ (rc_stTripF A s f).stepCounter = ((m0 + A.numFrames f : Nat) : Int) - 1 := by
  have hb : Loops.blocks (stepsInterp A).isLoop (stripBody (stepsInterp A).isLoop rc_stBodyF) =
    [.loop rc_stHdrI rc_stBodyI] := rfl
  have hg : Loops.outerGuard (stepsInterp A).isLoop rc_stBodyI = [] := rfl
  have hi : ∀ s : StepsSt, (stepsInterp A).iter s rc_stHdrI =
    (List.range (A.numFrames s.fname)).map (fun i s => { s with i := i }) := fun _ => rfl
  obtain ⟨h1, h2, h3⟩ := rc_st_loopI A f (A.numFrames f) m0 { s with fname := f } rfl hc hlen
  refine ⟨?_, h2, h3⟩
  show runBlocks _ _ (Loops.blocks _ _) _ = _
  rw [hb]
  simp only [runBlocks, hg, guardEnter, hi]
  rw [h1]
  rfl

end Bridge

namespace Bridge

/-- number of frames of a list of files -/
def rc_stCount (A : StepsArgs) (l : List String) : Nat := (l.map A.numFrames).sum

theorem rc_stCount_take_succ (A : StepsArgs) (l : List String) (j : Nat) (x : String) (h : l[j]? = some x) :
    rc_stCount A (l.take (j + 1)) = rc_stCount A (l.take j) + A.numFrames x := by
  unfold rc_stCount
  rw [List.take_add_one, h]
  simp

theorem rc_stCount_take_le (A : StepsArgs) (l : List String) (j : Nat) : rc_stCount A (l.take j) ≤ rc_stCount A l := by
  unfold rc_stCount
  conv => rhs; rw [← List.take_append_drop j l]
  rw [List.map_append, List.sum_append]
  omega

/-- the loop `for fname in files` -/
theorem rc_st_loopF (A : StepsArgs) (s : StepsSt) (hc : s.stepCounter = -1)
    (hlen : rc_stCount A A.files ≤ s.steps.length) :
    loopOver (runDepth (stepsInterp A) 2 (stripBody (stepsInterp A).isLoop rc_stBodyF))
        (A.files.map (fun f s => { s with fname := f })) s =
      some (some (A.files.foldl (rc_stTripF A) s)) := by
  have key := rc_loopOver_fold_inv
    (runDepth (stepsInterp A) 2 (stripBody (stepsInterp A).isLoop rc_stBodyF))
    (fun (f : String) (s : StepsSt) => { s with fname := f }) (rc_stTripF A)
    (fun j s' => s'.steps = s.steps ∧ s'.stepCounter = ((rc_stCount A (A.files.take j) : Nat) : Int) - 1)
    A.files
    (by
      intro j s' x hx ⟨h1, h2⟩
      have hle : rc_stCount A (A.files.take j) + A.numFrames x ≤ s'.steps.length := by
        rw [← rc_stCount_take_succ A _ j x hx, h1]
        exact Nat.le_trans (rc_stCount_take_le A _ _) hlen
      obtain ⟨k1, k2, k3⟩ := rc_st_tripF A x (rc_stCount A (A.files.take j)) s' h2 hle
      refine ⟨k1, k2.trans h1, ?_⟩
      rw [k3, rc_stCount_take_succ A _ j x hx])
    A.files 0 s (Nat.zero_le _) rfl ⟨rfl, by simp [rc_stCount, hc]⟩
  exact key.1

end Bridge

namespace Bridge

/-- the frames of the files in order: (file name, index of the frame in its file) -/
def rc_frameLabels (files : List String) (numFrames : String → Nat) : List (String × Nat) :=
  files.flatMap (fun f => (List.range (numFrames f)).map (fun i => (f, i)))

theorem rc_frameLabels_length (files : List String) (nf : String → Nat) :
    (rc_frameLabels files nf).length = (files.map nf).sum := by
  induction files with
  | nil => rfl
  | cons f fs ih => simp [rc_frameLabels, List.flatMap_cons] at ih ⊢

/-- what the table loops change: `steps`, `step_counter`, `file_idx`, `frame_idx` -/
abbrev rc_StCore := List Int × Int × List (Int × String) × List (Int × Nat)
def rc_stCore (s : StepsSt) : rc_StCore := (s.steps, s.stepCounter, s.fileIdx, s.frameIdx)
def rc_stCoreStep (c : rc_StCore) (lbl : String × Nat) : rc_StCore :=
  (c.1, c.2.1 + 1, dictSet c.2.2.1 ((pyGet c.1 (c.2.1 + 1)).getD 0) lbl.1,
    dictSet c.2.2.2 ((pyGet c.1 (c.2.1 + 1)).getD 0) lbl.2)

theorem rc_stCore_foldI : ∀ (l : List (String × Nat)) (s : StepsSt),
    rc_stCore (l.foldl rc_stTripI s) = l.foldl rc_stCoreStep (rc_stCore s)
  | [], _ => rfl
  | lbl :: l, s => by
    simp only [List.foldl_cons]
    rw [rc_stCore_foldI l (rc_stTripI s lbl)]
    rfl

theorem rc_stCore_foldF (A : StepsArgs) : ∀ (files : List String) (s : StepsSt),
    rc_stCore (files.foldl (rc_stTripF A) s) = (rc_frameLabels files A.numFrames).foldl rc_stCoreStep (rc_stCore s)
  | [], _ => rfl
  | f :: fs, s => by
    simp only [List.foldl_cons, rc_frameLabels, List.flatMap_cons, List.foldl_append]
    rw [rc_stCore_foldF A fs (rc_stTripF A s f)]
    unfold rc_stTripF
    rw [rc_stCore_foldI]
    rfl

/-- the two dicts after the frames `labels` have been entered, `m` frames having been entered before -/
theorem rc_stCore_fold_zip (S : List Int) : ∀ (labels : List (String × Nat)) (m : Nat) (d1 : List (Int × String))
    (d2 : List (Int × Nat)), m + labels.length ≤ S.length →
    labels.foldl rc_stCoreStep (S, (m : Int) - 1, d1, d2) =
      (S, ((m + labels.length : Nat) : Int) - 1,
        ((S.drop m).zip labels).foldl (fun d p => dictSet d p.1 p.2.1) d1,
        ((S.drop m).zip labels).foldl (fun d p => dictSet d p.1 p.2.2) d2)
  | [], m, d1, d2, _ => by simp
  | lbl :: labels, m, d1, d2, h => by
    have hm : m < S.length := by simp at h; omega
    have hget : pyGet S ((m : Int) - 1 + 1) = some S[m] := by
      rw [show (m : Int) - 1 + 1 = (m : Int) by omega, rc_pyGet_nat]
      exact List.getElem?_eq_getElem hm
    have ih := rc_stCore_fold_zip S labels (m + 1) (dictSet d1 S[m] lbl.1) (dictSet d2 S[m] lbl.2)
      (by simp at h ⊢; omega)
    simp only [List.foldl_cons]
    have e : rc_stCoreStep (S, (m : Int) - 1, d1, d2) lbl =
        (S, ((m + 1 : Nat) : Int) - 1, dictSet d1 S[m] lbl.1, dictSet d2 S[m] lbl.2) := by
      simp only [rc_stCoreStep, hget, Option.getD_some]
      congr 2
      push_cast; omega
    rw [e, ih, List.drop_eq_getElem_cons hm]
    simp only [List.zip_cons_cons, List.foldl_cons, List.length_cons]
    congr 2
    push_cast; omega

end Bridge

namespace Bridge

/-- the table: steps of all frames; the dicts in insertion order -/
def rc_stepsTable (A : StepsArgs) : StepTable :=
  (A.allFrames.map (fun t => Roms.forcingStep (t - A.start) A.dt),
    dictOf (((A.allFrames.map (fun t => Roms.forcingStep (t - A.start) A.dt)).zip
      (rc_frameLabels A.files A.numFrames)).map (fun p => (p.1, p.2.1))),
    dictOf (((A.allFrames.map (fun t => Roms.forcingStep (t - A.start) A.dt)).zip
      (rc_frameLabels A.files A.numFrames)).map (fun p => (p.1, p.2.2))))

/-- `forcing_steps` in closed form.  `some none`: the code raises (`IndexError` without frames, `SystemExit(3)` when
the frames do not cover the simulation period, `dt = 0`). -/
def rc_stepsSpec (A : StepsArgs) : Option (Option StepTable) :=
  match A.allFrames.head?, A.allFrames.getLast? with
  | some t0, some t1 =>
    if A.start < t0 then some none
    else if t1 < A.stop then some none
    else if A.dt = 0 then some none
    else some (some (rc_stepsTable A))
  | _, _ => some none


set_option maxRecDepth 100000 in
/-- the two loops and the `return` -/
theorem rc_steps_tail (A : StepsArgs) (s : StepsSt) (hs : s.steps = []) (hne : A.allFrames ≠ [])
    (hlen : (rc_frameLabels A.files A.numFrames).length ≤ A.allFrames.length) :
    retVal StepsSt.ret (runBlocks (stepsInterp A) (runDepth (stepsInterp A) 2) rc_stTail s) =
      if A.dt = 0 then some none else some (some (rc_stepsTable A)) := by
  have k1 : ("assign" = "return") = False := by decide
  have s11 : ∀ s : StepsSt, (stepsInterp A).step s "assign" "file_idx = dict()" =
    some (some { s with fileIdx := [] }) := fun _ => rfl
  have s12 : ∀ s : StepsSt, (stepsInterp A).step s "assign" "frame_idx = dict()" =
    some (some { s with frameIdx := [] }) := fun _ => rfl
  have s13 : ∀ s : StepsSt, (stepsInterp A).step s "assign" "step_counter = -1" =
    some (some { s with stepCounter := -1 }) := fun _ => rfl
  have s14 : ∀ s : StepsSt, (stepsInterp A).step s "return" "(steps, file_idx, frame_idx)" =
    some (some { s with ret := some (s.steps, s.fileIdx, s.frameIdx) }) := fun _ => rfl
  have g1 : Loops.outerGuard (stepsInterp A).isLoop rc_stBodyT = [] := rfl
  have g2 : Loops.outerGuard (stepsInterp A).isLoop rc_stBodyF = [] := rfl
  have i1 : ∀ s : StepsSt, (stepsInterp A).iter s rc_stHdrT = A.allFrames.map (fun t s => { s with t := t }) :=
    fun _ => rfl
  have i2 : ∀ s : StepsSt, (stepsInterp A).iter s rc_stHdrF = A.files.map (fun f s => { s with fname := f }) :=
    fun _ => rfl
  unfold rc_stTail
  simp only [runBlocks, g1, g2, guardEnter, i1, i2]
  by_cases hdt : A.dt = 0
  · -- the first trip raises
    obtain ⟨a, rest, hcons⟩ : ∃ a rest, A.allFrames = a :: rest := by
      cases hA : A.allFrames with
      | nil => exact absurd hA hne
      | cons a rest => exact ⟨a, rest, rfl⟩
    rw [hcons]
    simp only [List.map_cons, loopOver, rc_st_tripT, hdt, if_true, retVal]
  · have hT := rc_loopOver_fold (runDepth (stepsInterp A) 2 (stripBody (stepsInterp A).isLoop rc_stBodyT))
      (fun (t : Int) (s : StepsSt) => { s with t := t }) (rc_stTripT A)
      (fun s t => by rw [rc_st_tripT, if_neg hdt]) A.allFrames
    rw [hT, if_neg hdt]
    simp only [s11, s12, s13, k1, if_false]
    obtain ⟨f1, f2, f3⟩ := rc_st_foldT A A.allFrames s
    rw [hs, List.nil_append] at f1
    have hF := rc_st_loopF A { List.foldl (rc_stTripT A) s A.allFrames with fileIdx := [], frameIdx := [], stepCounter := -1 }
      rfl (by
        show rc_stCount A A.files ≤ (List.foldl (rc_stTripT A) s A.allFrames).steps.length
        rw [f1, List.length_map]
        rw [rc_frameLabels_length] at hlen
        exact hlen)
    rw [hF]
    simp only [s14, retVal, Option.map_some]
    have hcore := rc_stCore_foldF A A.files
      { List.foldl (rc_stTripT A) s A.allFrames with fileIdx := [], frameIdx := [], stepCounter := -1 }
    have hz := rc_stCore_fold_zip (A.allFrames.map (fun t => Roms.forcingStep (t - A.start) A.dt))
      (rc_frameLabels A.files A.numFrames) 0 [] [] (by simpa using hlen)
    have e0 : rc_stCore { List.foldl (rc_stTripT A) s A.allFrames with fileIdx := [], frameIdx := [], stepCounter := -1 } =
        (A.allFrames.map (fun t => Roms.forcingStep (t - A.start) A.dt), ((0 : Nat) : Int) - 1, [], []) := by
      simp [rc_stCore, f1]
    rw [e0, hz] at hcore
    simp only [rc_stCore, Prod.mk.injEq] at hcore
    obtain ⟨e1, _, e3, e4⟩ := hcore
    rw [e1, e3, e4]
    simp [rc_stepsTable, dictOf, List.foldl_map]

set_option maxRecDepth 100000 in
/-- **`Forcing.forcing_steps`** (`Gen.forcing_steps_seq`) -/
theorem forcing_steps (A : StepsArgs)
    (hlen : (rc_frameLabels A.files A.numFrames).length ≤ A.allFrames.length) :
    stepsSeq A = rc_stepsSpec A := by
  have k1 : ("assign" = "return") = False := by decide
  have k2 : ("expr" = "return") = False := by decide
  have k3 : ("raise" = "return") = False := by decide
  have l1 : (stepsInterp A).isLoop "time0 > start_time" = false := rfl
  have l2 : (stepsInterp A).isLoop "time1 < config['stop_time']" = false := rfl
  have c1 : ∀ s : StepsSt, (stepsInterp A).cond s "time0 > start_time" = some (decide (A.start < s.time0), s) :=
    fun _ => rfl
  have c2 : ∀ s : StepsSt, (stepsInterp A).cond s "time1 < config['stop_time']" =
    some (decide (s.time1 < A.stop), s) := fun _ => rfl
  have s1 : ∀ s : StepsSt, (stepsInterp A).step s "assign" "time0 = all_frames[0]" =
    some (A.allFrames.head?.map (fun t => { s with time0 := t })) := fun _ => rfl
  have s2 : ∀ s : StepsSt, (stepsInterp A).step s "assign" "time1 = all_frames[-1]" =
    some (A.allFrames.getLast?.map (fun t => { s with time1 := t })) := fun _ => rfl
  have s3 : ∀ s : StepsSt, (stepsInterp A).step s "expr" "logging.info(f\"First forcing time = {time0}\")" =
    some (some s) := fun _ => rfl
  have s4 : ∀ s : StepsSt, (stepsInterp A).step s "expr" "logging.info(f\"Last forcing time = {time1}\")" =
    some (some s) := fun _ => rfl
  have s5 : ∀ s : StepsSt, (stepsInterp A).step s "assign" "start_time = np.datetime64(config['start_time'])" =
    some (some s) := fun _ => rfl
  have s6 : ∀ s : StepsSt, (stepsInterp A).step s "assign" "dt = np.timedelta64(int(config['dt']), 's')" =
    some (some s) := fun _ => rfl
  have s7 : ∀ s : StepsSt, (stepsInterp A).step s "expr" "logging.error('No forcing at start time')" =
    some (some s) := fun _ => rfl
  have s8 : ∀ s : StepsSt, (stepsInterp A).step s "raise" "raise SystemExit(3)" = some none := fun _ => rfl
  have s9 : ∀ s : StepsSt, (stepsInterp A).step s "expr" "logging.error('No forcing at stop time')" =
    some (some s) := fun _ => rfl
  have s10 : ∀ s : StepsSt, (stepsInterp A).step s "assign" "steps = []" = some (some { s with steps := [] }) :=
    fun _ => rfl
  unfold stepsSeq rc_stepsSpec
  rw [rc_nest_run_eq _ _ _ (rc_steps_known A _), rc_steps_blocks]
  generalize htail : rc_stTail = tail
  cases hh : A.allFrames.head? with
  | none => simp only [runBlocks, guardEnter, s1, hh, Option.map_none]; rfl
  | some t0 =>
    have hne : A.allFrames ≠ [] := by
      intro h; rw [h] at hh; cases hh
    cases hl : A.allFrames.getLast? with
    | none => exact absurd (List.getLast?_eq_none_iff.mp hl) hne
    | some t1 =>
      simp only [runBlocks, guardEnter, s1, s2, s3, s4, s5, s6, hh, hl, Option.map_some, k1, k2, k3, if_false,
        l1, l2, c1, c2, Bool.false_eq_true]
      by_cases hc1 : A.start < t0
      · simp only [hc1, decide_true, beq_self_eq_true, if_true, s7, s8, k2]; rfl
      · by_cases hc2 : t1 < A.stop
        · simp only [hc1, hc2, decide_false, decide_true, beq_self_eq_true, if_true, s7, s8, s9, k2,
            Bool.false_eq_true, if_false, show (false == true) = false from rfl]; rfl
        · simp only [hc1, hc2, decide_false, Bool.false_eq_true, if_false, show (false == true) = false from rfl,
            s10, k1]
          subst htail
          rw [rc_steps_tail A _ rfl hne hlen]

end Bridge

namespace Bridge

/-! ## dicts -/
section dicts
variable {κ ν : Type} [BEq κ] [LawfulBEq κ]

theorem rc_lookup_map_other (d : List (κ × ν)) (k k' : κ) (v : ν) (hk : (k == k') = false) :
    (d.map (fun e => if e.1 == k' then (k', v) else e)).lookup k = d.lookup k := by
  induction d with
  | nil => rfl
  | cons e d ih =>
    obtain ⟨a, b⟩ := e
    by_cases ha : a == k'
    · have : a = k' := eq_of_beq ha
      subst this
      simp only [List.map_cons, ha, if_true, List.lookup_cons, hk]
      exact ih
    · simp only [List.map_cons, ha, Bool.false_eq_true, if_false, List.lookup_cons]
      rw [ih]

theorem rc_lookup_map_self (d : List (κ × ν)) (k' : κ) (v : ν) (hany : d.any (fun e => e.1 == k') = true) :
    (d.map (fun e => if e.1 == k' then (k', v) else e)).lookup k' = some v := by
  induction d with
  | nil => simp at hany
  | cons e d ih =>
    obtain ⟨a, b⟩ := e
    by_cases ha : a == k'
    · simp only [List.map_cons, ha, if_true, List.lookup_cons_self]
    · have hka : (k' == a) = false := by
        rw [Bool.eq_false_iff]; intro h; exact ha (by rw [eq_of_beq h]; exact BEq.rfl)
      have hany' : d.any (fun e => e.1 == k') = true := by
        simpa [List.any_cons, ha] using hany
      simp only [List.map_cons, ha, Bool.false_eq_true, if_false, List.lookup_cons, hka]
      exact ih hany'

theorem rc_lookup_dictSet (d : List (κ × ν)) (k k' : κ) (v : ν) :
    (dictSet d k' v).lookup k = if k == k' then some v else d.lookup k := by
  unfold dictSet
  by_cases hany : d.any (fun e => e.1 == k') = true
  · rw [if_pos hany]
    by_cases hk : k == k'
    · have hk' : k = k' := eq_of_beq hk
      subst hk'
      rw [rc_lookup_map_self d k v hany, if_pos hk]
    · have hk2 : (k == k') = false := by rw [Bool.eq_false_iff]; exact hk
      rw [rc_lookup_map_other d k k' v hk2, if_neg hk]
  · rw [if_neg hany, List.lookup_append]
    by_cases hk : k == k'
    · have hk' : k = k' := eq_of_beq hk
      subst hk'
      have hn : d.lookup k = none := by
        rw [List.lookup_eq_none_iff]
        intro p hp
        have := (List.any_eq_false.mp (Bool.eq_false_iff.mpr hany)) p hp
        simp only [bne_iff_ne, ne_eq]
        intro h
        exact this (by rw [h]; exact BEq.rfl)
      simp [hn, List.lookup_cons]
    · have hk2 : (k == k') = false := by rw [Bool.eq_false_iff]; exact hk
      simp [List.lookup_cons, hk2]

/-- a dict built by successive assignments answers with the *last* value assigned to the key -/
theorem rc_lookup_foldl_dictSet (l : List (κ × ν)) (k : κ) : ∀ (acc : List (κ × ν)),
    (l.foldl (fun d e => dictSet d e.1 e.2) acc).lookup k = (l.reverse.lookup k).or (acc.lookup k) := by
  induction l with
  | nil => intro acc; simp
  | cons e l ih =>
    intro acc
    simp only [List.foldl_cons, List.reverse_cons, List.lookup_append]
    rw [ih, rc_lookup_dictSet]
    obtain ⟨a, b⟩ := e
    cases l.reverse.lookup k with
    | some v => simp
    | none =>
      by_cases hk : k == a <;> simp [List.lookup_cons, hk]

theorem rc_lookup_dictOf (l : List (κ × ν)) (k : κ) : (dictOf l).lookup k = l.reverse.lookup k := by
  unfold dictOf
  rw [rc_lookup_foldl_dictSet]
  simp

theorem rc_lookup_reverse_split (pre post : List (κ × ν)) (a : κ) (b : ν) (h : ∀ p ∈ post, p.1 ≠ a) :
    (pre ++ (a, b) :: post).reverse.lookup a = some b := by
  have hpost : post.reverse.lookup a = none := by
    rw [List.lookup_eq_none_iff]
    intro p hp
    rw [List.mem_reverse] at hp
    simp only [bne_iff_ne, ne_eq]
    exact fun e => h p hp e.symm
  rw [List.reverse_append, List.reverse_cons, List.append_assoc, List.lookup_append, hpost]
  simp [List.lookup_cons]

/-- entry `i` of the assignments is the one that counts when no later assignment has the same key -/
theorem rc_lookup_reverse_of_last (l : List (κ × ν)) (i : Nat) (hi : i < l.length)
    (h : ∀ j (hj : j < l.length), i < j → l[j].1 ≠ l[i].1) : l.reverse.lookup l[i].1 = some l[i].2 := by
  have hsplit : l = l.take i ++ (l[i].1, l[i].2) :: l.drop (i + 1) := by
    rw [show (l[i].1, l[i].2) = l[i] from rfl, List.getElem_cons_drop hi, List.take_append_drop]
  have := rc_lookup_reverse_split (l.take i) (l.drop (i + 1)) l[i].1 l[i].2 (by
    intro p hp
    obtain ⟨j, hj, hpj⟩ := List.getElem_of_mem hp
    rw [List.getElem_drop] at hpj
    have := h (i + 1 + j) (by simp at hj; omega) (by omega)
    rw [hpj] at this
    exact this)
  rw [← hsplit] at this
  exact this

end dicts
end Bridge

namespace Bridge

/-! ## the step table -/

/-- the forcing steps: `int((t − start) / dt)` for every frame time -/
def rc_tableSteps (A : StepsArgs) : List Int := A.allFrames.map (fun t => Roms.forcingStep (t - A.start) A.dt)

theorem rc_stepsTable_steps (A : StepsArgs) : (rc_stepsTable A).1 = rc_tableSteps A := rfl

/-- `file_idx[n]`: the file of the *last* frame whose (truncated) step is `n` -/
theorem rc_stepsTable_fileIdx (A : StepsArgs) (n : Int) :
    (rc_stepsTable A).2.1.lookup n =
      (((rc_tableSteps A).zip (rc_frameLabels A.files A.numFrames)).map (fun p => (p.1, p.2.1))).reverse.lookup n :=
  rc_lookup_dictOf _ _

/-- `frame_idx[n]`: the index in its file of the *last* frame whose (truncated) step is `n` -/
theorem rc_stepsTable_frameIdx (A : StepsArgs) (n : Int) :
    (rc_stepsTable A).2.2.lookup n =
      (((rc_tableSteps A).zip (rc_frameLabels A.files A.numFrames)).map (fun p => (p.1, p.2.2))).reverse.lookup n :=
  rc_lookup_dictOf _ _

/-- frame number `k` (in file order) is found under its step — file name and position in the file — provided no
later frame is mapped to the same step -/
theorem rc_stepsTable_lookup (A : StepsArgs) (k : Nat) (hk : k < (rc_frameLabels A.files A.numFrames).length)
    (hk' : k < (rc_tableSteps A).length)
    (hlast : ∀ j (hj : j < (rc_tableSteps A).length), k < j → (rc_tableSteps A)[j] ≠ (rc_tableSteps A)[k]) :
    (rc_stepsTable A).2.1.lookup (rc_tableSteps A)[k] = some (rc_frameLabels A.files A.numFrames)[k].1 ∧
    (rc_stepsTable A).2.2.lookup (rc_tableSteps A)[k] = some (rc_frameLabels A.files A.numFrames)[k].2 := by
  have hz : k < ((rc_tableSteps A).zip (rc_frameLabels A.files A.numFrames)).length := by
    simp only [List.length_zip]; omega
  constructor
  · rw [rc_stepsTable_fileIdx]
    have := rc_lookup_reverse_of_last
      (((rc_tableSteps A).zip (rc_frameLabels A.files A.numFrames)).map (fun p => (p.1, p.2.1))) k
      (by simpa using hz) (by
        intro j hj hkj
        simp only [List.length_map, List.length_zip] at hj
        simp only [List.getElem_map, List.getElem_zip]
        exact hlast j (by omega) hkj)
    simpa using this
  · rw [rc_stepsTable_frameIdx]
    have := rc_lookup_reverse_of_last
      (((rc_tableSteps A).zip (rc_frameLabels A.files A.numFrames)).map (fun p => (p.1, p.2.2))) k
      (by simpa using hz) (by
        intro j hj hkj
        simp only [List.length_map, List.length_zip] at hj
        simp only [List.getElem_map, List.getElem_zip]
        exact hlast j (by omega) hkj)
    simpa using this

/-- frame offsets that are multiples of `dt`: the step is the exact quotient -/
theorem rc_tableSteps_aligned (A : StepsArgs) (k : Nat) (hk : k < A.allFrames.length)
    (hal : A.dt ∣ A.allFrames[k] - A.start) :
    (rc_tableSteps A)[k]'(by simpa [rc_tableSteps] using hk) * A.dt = A.allFrames[k] - A.start := by
  simp only [rc_tableSteps, List.getElem_map]
  exact C06.steps_aligned _ _ hal

/-- in general the quotient is truncated toward zero (the model's `Roms.forcingStep`) -/
theorem rc_tableSteps_getElem (A : StepsArgs) (k : Nat) (hk : k < A.allFrames.length) :
    (rc_tableSteps A)[k]'(by simpa [rc_tableSteps] using hk) = (A.allFrames[k] - A.start).tdiv A.dt := by
  simp [rc_tableSteps, Roms.forcingStep]

/-- strictly increasing frame times whose offsets are multiples of `dt > 0` give strictly increasing steps: the step
list is one the C06 theorems apply to -/
theorem rc_tableSteps_sorted (A : StepsArgs) (hdt : 0 < A.dt) (hs : List.Pairwise (· < ·) A.allFrames)
    (hal : ∀ t ∈ A.allFrames, A.dt ∣ t - A.start) : C06.Sorted (rc_tableSteps A) := by
  unfold C06.Sorted rc_tableSteps
  rw [List.pairwise_map]
  refine List.Pairwise.imp_of_mem ?_ hs
  intro a b ha hb hab
  obtain ⟨ka, hka⟩ := hal a ha
  obtain ⟨kb, hkb⟩ := hal b hb
  have hne : A.dt ≠ 0 := by omega
  simp only [Roms.forcingStep, hka, hkb, Int.mul_tdiv_cancel_left _ hne]
  have : A.dt * ka < A.dt * kb := by omega
  exact Int.lt_of_mul_lt_mul_left this (by omega)

/-- without the alignment the steps are still non-decreasing (`dt > 0`), but two frames can share a step -/
theorem rc_tableSteps_mono (A : StepsArgs) (hdt : 0 < A.dt) (hs : List.Pairwise (· < ·) A.allFrames) :
    List.Pairwise (· ≤ ·) (rc_tableSteps A) := by
  unfold rc_tableSteps
  rw [List.pairwise_map]
  refine List.Pairwise.imp ?_ hs
  intro a b hab
  exact Int.tdiv_le_tdiv hdt (by omega)

/-- known finding F-C06e on the interpreted code: one file with frames at 0 s, 300 s, 600 s, `dt = 600 s`, start at
0 s.  The frame at 300 s is truncated to step 0: `steps = [0, 0, 1]` is not strictly increasing, and in `frame_idx`
the frame at 300 s has *replaced* the frame at the start time (`frame_idx[0] = 1`). -/
theorem forcing_steps_unaligned :
    stepsSeq ⟨["a.nc"], [0, 300, 600], fun _ => 3, 0, 600, 600⟩ =
      some (some ([0, 0, 1], [(0, "a.nc"), (1, "a.nc")], [(0, 1), (1, 2)])) := by
  rw [forcing_steps _ (by decide)]
  rfl

end Bridge

namespace Bridge

/-! ## `scan_file_times` -/
section scan
variable {α : Type}

def rc_scHdr : String := "for fname in files"
def rc_scWith : String := "with Forcing.open_dataset(fname) as nc"

def rc_scBody : List Stmt := [
  ([(true, rc_scHdr), (true, rc_scWith)], "assign", "new_times = nc.variables['ocean_time'][:]"),
  ([(true, rc_scHdr), (true, rc_scWith)], "assign", "num_frames[fname] = len(new_times)"),
  ([(true, rc_scHdr), (true, rc_scWith)], "assign", "units = nc.variables['ocean_time'].units"),
  ([(true, rc_scHdr), (true, rc_scWith)], "assign", "new_frames = num2date(new_times, units)"),
  ([(true, rc_scHdr), (true, rc_scWith)], "expr", "all_frames.extend(new_frames)")]

def rc_scTail : List Loops.Block := [
  .plain ([], "assign", "all_frames = np.array([np.datetime64(tf) for tf in all_frames])"),
  .plain ([], "assign", "I = all_frames[1:] <= all_frames[:-1]"),
  .plain ([(true, "np.any(I)")], "expr", "logging.info(f\"Time frames out of order: {all_frames[1:][I]}\")"),
  .plain ([(true, "np.any(I)")], "expr", "logging.critical('Time frames not strictly sorted')"),
  .plain ([(true, "np.any(I)")], "raise", "raise SystemExit(4)"),
  .plain ([], "expr", "logging.info(f\"Number of available forcing times = {len(all_frames)}\")"),
  .plain ([], "return", "(all_frames, num_frames)")]

set_option maxRecDepth 100000 in
theorem rc_scan_blocks (fs : String → NcFile α) (files : List String) :
    Loops.blocks (scanInterp fs files).isLoop Gen.forcing_scan_file_times_seq =
      .plain ([], "assign", "all_frames = []") :: .plain ([], "assign", "num_frames = {}") ::
      .loop rc_scHdr rc_scBody :: rc_scTail := rfl

set_option maxRecDepth 100000 in
theorem rc_scan_known (fs : String → NcFile α) (files : List String) (s : ScanSt) :
    Gen.forcing_scan_file_times_seq.all (stmtKnown (scanInterp fs files) s) = true := rfl

/-- one trip of `for fname in files` -/
def rc_scTrip (fs : String → NcFile α) (s : ScanSt) (f : String) : ScanSt :=
  { s with fname := f, nc := some f, newTimes := (fs f).times, newFrames := (fs f).times,
           numFrames := dictSet s.numFrames f (fs f).times.length, allFrames := s.allFrames ++ (fs f).times }

set_option maxRecDepth 100000 in
theorem rc_sc_trip (fs : String → NcFile α) (files : List String) (s : ScanSt) (f : String) :
    runDepth (scanInterp fs files) 2 (stripBody (scanInterp fs files).isLoop rc_scBody) { s with fname := f } =
      some (some (rc_scTrip fs s f)) := by
  have hb : Loops.blocks (scanInterp fs files).isLoop (stripBody (scanInterp fs files).isLoop rc_scBody) = [
    .plain ([(true, rc_scWith)], "assign", "new_times = nc.variables['ocean_time'][:]"),
    .plain ([(true, rc_scWith)], "assign", "num_frames[fname] = len(new_times)"),
    .plain ([(true, rc_scWith)], "assign", "units = nc.variables['ocean_time'].units"),
    .plain ([(true, rc_scWith)], "assign", "new_frames = num2date(new_times, units)"),
    .plain ([(true, rc_scWith)], "expr", "all_frames.extend(new_frames)")] := rfl
  have l1 : (scanInterp fs files).isLoop rc_scWith = false := rfl
  have c1 : ∀ s : ScanSt, (scanInterp fs files).cond s rc_scWith = some (true, { s with nc := some s.fname }) :=
    fun _ => rfl
  have s1 : ∀ s : ScanSt, (scanInterp fs files).step s "assign" "new_times = nc.variables['ocean_time'][:]" =
    some (s.nc.map (fun f => { s with newTimes := (fs f).times })) := fun _ => rfl
  have s2 : ∀ s : ScanSt, (scanInterp fs files).step s "assign" "num_frames[fname] = len(new_times)" =
    some (some { s with numFrames := dictSet s.numFrames s.fname s.newTimes.length }) := fun _ => rfl
  have s3 : ∀ s : ScanSt, (scanInterp fs files).step s "assign" "units = nc.variables['ocean_time'].units" =
    some (some s) := fun _ => rfl
  have s4 : ∀ s : ScanSt, (scanInterp fs files).step s "assign" "new_frames = num2date(new_times, units)" =
    some (some { s with newFrames := s.newTimes }) := fun _ => rfl
  have s5 : ∀ s : ScanSt, (scanInterp fs files).step s "expr" "all_frames.extend(new_frames)" =
    some (some { s with allFrames := s.allFrames ++ s.newFrames }) := fun _ => rfl
  have k1 : ("assign" = "return") = False := by decide
  have k2 : ("expr" = "return") = False := by decide
  show runBlocks _ _ (Loops.blocks _ _) _ = _
  rw [hb]
  simp only [runBlocks, guardEnter, l1, c1, s1, s2, s3, s4, s5, k1, k2, if_false, Bool.false_eq_true,
    beq_self_eq_true, if_true, Option.map_some]
  rfl

theorem rc_sc_fold (fs : String → NcFile α) : ∀ (files : List String) (s : ScanSt),
    (files.foldl (rc_scTrip fs) s).allFrames = s.allFrames ++ files.flatMap (fun f => (fs f).times) ∧
    (files.foldl (rc_scTrip fs) s).numFrames =
      (files.map (fun f => (f, (fs f).times.length))).foldl (fun d e => dictSet d e.1 e.2) s.numFrames
  | [], s => by simp
  | f :: files, s => by
    obtain ⟨h1, h2⟩ := rc_sc_fold fs files (rc_scTrip fs s f)
    simp only [List.foldl_cons, h1, h2, List.flatMap_cons, List.map_cons]
    simp [rc_scTrip]

/-- `scan_file_times` in closed form: the frame times of all files in file order; `SystemExit(4)` unless they
increase strictly; the number of frames of every file -/
def rc_scanSpec (fs : String → NcFile α) (files : List String) : Option (Option (List Int × List (String × Nat))) :=
  if (notAfter (files.flatMap (fun f => (fs f).times))).any id then some none
  else some (some (files.flatMap (fun f => (fs f).times), dictOf (files.map (fun f => (f, (fs f).times.length)))))

set_option maxRecDepth 100000 in
/-- **`Forcing.scan_file_times`** (`Gen.forcing_scan_file_times_seq`) -/
theorem forcing_scan_file_times (fs : String → NcFile α) (files : List String) :
    scanSeq fs files = rc_scanSpec fs files := by
  have k1 : ("assign" = "return") = False := by decide
  have k2 : ("expr" = "return") = False := by decide
  have k3 : ("raise" = "return") = False := by decide
  have l1 : (scanInterp fs files).isLoop "np.any(I)" = false := rfl
  have c1 : ∀ s : ScanSt, (scanInterp fs files).cond s "np.any(I)" = some (s.outOfOrder.any id, s) := fun _ => rfl
  have s1 : ∀ s : ScanSt, (scanInterp fs files).step s "assign" "all_frames = []" =
    some (some { s with allFrames := [] }) := fun _ => rfl
  have s2 : ∀ s : ScanSt, (scanInterp fs files).step s "assign" "num_frames = {}" =
    some (some { s with numFrames := [] }) := fun _ => rfl
  have s3 : ∀ s : ScanSt, (scanInterp fs files).step s "assign"
    "all_frames = np.array([np.datetime64(tf) for tf in all_frames])" = some (some s) := fun _ => rfl
  have s4 : ∀ s : ScanSt, (scanInterp fs files).step s "assign" "I = all_frames[1:] <= all_frames[:-1]" =
    some (some { s with outOfOrder := notAfter s.allFrames }) := fun _ => rfl
  have s5 : ∀ s : ScanSt, (scanInterp fs files).step s "expr"
    "logging.info(f\"Time frames out of order: {all_frames[1:][I]}\")" = some (some s) := fun _ => rfl
  have s6 : ∀ s : ScanSt, (scanInterp fs files).step s "expr" "logging.critical('Time frames not strictly sorted')" =
    some (some s) := fun _ => rfl
  have s7 : ∀ s : ScanSt, (scanInterp fs files).step s "raise" "raise SystemExit(4)" = some none := fun _ => rfl
  have s8 : ∀ s : ScanSt, (scanInterp fs files).step s "expr"
    "logging.info(f\"Number of available forcing times = {len(all_frames)}\")" = some (some s) := fun _ => rfl
  have s9 : ∀ s : ScanSt, (scanInterp fs files).step s "return" "(all_frames, num_frames)" =
    some (some { s with ret := some (s.allFrames, s.numFrames) }) := fun _ => rfl
  have g1 : Loops.outerGuard (scanInterp fs files).isLoop rc_scBody = [] := rfl
  have i1 : ∀ s : ScanSt, (scanInterp fs files).iter s rc_scHdr = files.map (fun f s => { s with fname := f }) :=
    fun _ => rfl
  have hL := rc_loopOver_fold (runDepth (scanInterp fs files) 2 (stripBody (scanInterp fs files).isLoop rc_scBody))
    (fun (f : String) (s : ScanSt) => { s with fname := f }) (rc_scTrip fs) (fun s f => rc_sc_trip fs files s f) files
  unfold scanSeq rc_scanSpec
  rw [rc_nest_run_eq _ _ _ (rc_scan_known fs files _), rc_scan_blocks]
  unfold rc_scTail
  simp only [runBlocks, guardEnter, s1, s2, k1, if_false, g1, i1, hL, s3, s4, l1, c1]
  obtain ⟨f1, f2⟩ := rc_sc_fold fs files { ScanSt.init with allFrames := [], numFrames := [] }
  simp only [List.nil_append] at f1
  rw [f1]
  cases hany : (notAfter (files.flatMap (fun f => (fs f).times))).any id
  · have h' : true ∉ notAfter (files.flatMap (fun f => (fs f).times)) := by
      intro h; have : (notAfter (files.flatMap (fun f => (fs f).times))).any id = true := by simpa using h
      rw [hany] at this; cases this
    simp [s8, s9, k2, retVal, h', f2, dictOf]
  · have h' : true ∈ notAfter (files.flatMap (fun f => (fs f).times)) := by simpa using hany
    simp [s5, s6, s7, k2, retVal, h']

end scan
end Bridge

namespace Bridge

/-- the check of `scan_file_times` passes exactly for strictly increasing frame times -/
theorem rc_notAfter_iff_sorted : ∀ (l : List Int), (notAfter l).any id = false ↔ List.Pairwise (· < ·) l
  | [] => by simp [notAfter]
  | [a] => by simp [notAfter]
  | a :: b :: l => by
    have ih := rc_notAfter_iff_sorted (b :: l)
    have e : notAfter (a :: b :: l) = decide (b ≤ a) :: notAfter (b :: l) := rfl
    rw [e, List.any_cons, Bool.or_eq_false_iff, ih]
    constructor
    · rintro ⟨h1, h2⟩
      have hab : a < b := by simpa using h1
      refine List.pairwise_cons.mpr ⟨?_, h2⟩
      intro x hx
      rcases List.mem_cons.mp hx with rfl | hx
      · exact hab
      · exact Int.lt_trans hab ((List.pairwise_cons.mp h2).1 x hx)
    · intro h
      obtain ⟨h1, h2⟩ := List.pairwise_cons.mp h
      refine ⟨?_, h2⟩
      have := h1 b (by simp)
      simp only [id, decide_eq_false_iff_not]
      omega

theorem rc_lookup_map_fn {ν : Type} (g : String → ν) (k : String) : ∀ (ks : List String), k ∈ ks →
    (ks.map (fun f => (f, g f))).lookup k = some (g k)
  | [], h => by cases h
  | a :: ks, h => by
    by_cases hk : k = a
    · subst hk; simp [List.lookup_cons]
    · have hk' : (k == a) = false := by simpa using hk
      rcases List.mem_cons.mp h with h | h
      · exact absurd h hk
      · simp only [List.map_cons, List.lookup_cons, hk']
        exact rc_lookup_map_fn g k ks h

/-- `num_frames[fname]` of the scan: the number of frames of the file -/
theorem rc_scan_numFrames {α : Type} (fs : String → NcFile α) (files : List String) (f : String) (hf : f ∈ files) :
    (dictOf (files.map (fun f => (f, (fs f).times.length)))).lookup f = some (fs f).times.length := by
  rw [rc_lookup_dictOf, ← List.map_reverse]
  exact rc_lookup_map_fn (fun f => (fs f).times.length) f files.reverse (by simpa using hf)

end Bridge

namespace Bridge

/-! ## `__init__` -/
section ctor
variable {α : Type}

theorem rc_frameLabels_congr (files : List String) (nf nf' : String → Nat) (h : ∀ f ∈ files, nf f = nf' f) :
    rc_frameLabels files nf = rc_frameLabels files nf' := by
  unfold rc_frameLabels
  induction files with
  | nil => rfl
  | cons f fs ih =>
    simp only [List.flatMap_cons]
    rw [h f (by simp), ih (fun g hg => h g (by simp [hg]))]

/-- the arguments `__init__` hands to `forcing_steps` -/
def rc_ctorArgs (fs : String → NcFile α) (cfg : Config) (files : List String) : StepsArgs :=
  ⟨files, files.flatMap (fun f => (fs f).times), fun f => (fs f).times.length, cfg.start, cfg.stop, cfg.dt⟩

theorem rc_ctorArgs_len (fs : String → NcFile α) (cfg : Config) (files : List String) :
    (rc_frameLabels (rc_ctorArgs fs cfg files).files (rc_ctorArgs fs cfg files).numFrames).length =
      (rc_ctorArgs fs cfg files).allFrames.length := by
  rw [rc_frameLabels_length]
  simp only [rc_ctorArgs, List.length_flatMap]

/-- the attribute assignments of `__init__`, in order -/
def rc_ctorLog : List String :=
  ["_grid", "ibm_forcing", "_files", "stepdiff", "file_idx", "frame_idx", "_nc", "steps", "_files",
   "initialization_finished", "_last_update"]

/-- the constructed object -/
def rc_ctorObj (cfg : Config) (files : List String) (tbl : StepTable) : FObj α :=
  { (FObj.blank : FObj α) with
    ibm := cfg.ibm, files := files, steps := tbl.1, stepdiff := npDiff tbl.1, fileIdx := tbl.2.1,
    frameIdx := tbl.2.2, nc := none, initDone := false, lastUpdate := -1, log := rc_ctorLog }

/-- `__init__` in closed form: `SystemExit(3)` without files, `SystemExit(4)` for frame times that do not increase
strictly, then whatever `forcing_steps` raises; otherwise the object with the step table of the files -/
def rc_ctorSpec (glob : String → List String) (fs : String → NcFile α) (cfg : Config) : Option (Option (FObj α)) :=
  if (rc_findFilesSpec glob cfg.force).length = 0 then some none
  else if (notAfter ((rc_findFilesSpec glob cfg.force).flatMap (fun f => (fs f).times))).any id then some none
  else
    match rc_stepsSpec (rc_ctorArgs fs cfg (rc_findFilesSpec glob cfg.force)) with
    | some (some tbl) => some (some (rc_ctorObj cfg (rc_findFilesSpec glob cfg.force) tbl))
    | _ => some none

theorem rc_lift_isSome {ρ σ : Type} (r : Option (Option ρ)) (k : ρ → σ) (h : r.isSome = true) :
    (Nest.lift r k).isSome = true := by
  rcases r with _ | _ | _ <;> simp_all [Nest.lift]

theorem rc_scanSpec_isSome (fs : String → NcFile α) (files : List String) : (rc_scanSpec fs files).isSome = true := by
  unfold rc_scanSpec; split <;> rfl

theorem rc_stepsSpec_isSome (A : StepsArgs) : (rc_stepsSpec A).isSome = true := by
  unfold rc_stepsSpec
  split
  · split
    · rfl
    · split
      · rfl
      · split <;> rfl
  · rfl

set_option maxRecDepth 100000 in
theorem rc_ctor_known (glob : String → List String) (fs : String → NcFile α) (cfg : Config) :
    Gen.forcing_ctor_seq.all (stmtKnown (ctorInterp glob fs cfg) CtorSt.init) = true := by
  have hsplit : Gen.forcing_ctor_seq = Gen.forcing_ctor_seq.take 3 ++
      ([], "assign", "files = self.find_files(config['gridforce'])") :: (Gen.forcing_ctor_seq.drop 4).take 4 ++
      ([], "assign", "all_frames, num_frames = self.scan_file_times(files)") ::
      ([], "assign", "steps, file_idx, frame_idx = self.forcing_steps(config, files, all_frames, num_frames)") ::
      Gen.forcing_ctor_seq.drop 10 := rfl
  have h1 : ∀ s : CtorSt α, stmtKnown (ctorInterp glob fs cfg) s
      ([], "assign", "files = self.find_files(config['gridforce'])") = true := by
    intro s
    have : ((ctorInterp glob fs cfg).step s "assign" "files = self.find_files(config['gridforce'])").isSome = true :=
      rc_lift_isSome _ _ (by rw [forcing_find_files]; rfl)
    simp only [stmtKnown, List.all_nil, Bool.true_and, this]
    rfl
  have h2 : ∀ s : CtorSt α, stmtKnown (ctorInterp glob fs cfg) s
      ([], "assign", "all_frames, num_frames = self.scan_file_times(files)") = true := by
    intro s
    have : ((ctorInterp glob fs cfg).step s "assign" "all_frames, num_frames = self.scan_file_times(files)").isSome
        = true := rc_lift_isSome _ _ (by rw [forcing_scan_file_times]; exact rc_scanSpec_isSome _ _)
    simp only [stmtKnown, List.all_nil, Bool.true_and, this]
    rfl
  have h3 : stmtKnown (ctorInterp glob fs cfg) CtorSt.init
      ([], "assign", "steps, file_idx, frame_idx = self.forcing_steps(config, files, all_frames, num_frames)")
        = true := by
    have : ((ctorInterp glob fs cfg).step CtorSt.init "assign"
        "steps, file_idx, frame_idx = self.forcing_steps(config, files, all_frames, num_frames)").isSome = true := by
      have e : ∀ s : CtorSt α, (ctorInterp glob fs cfg).step s "assign"
          "steps, file_idx, frame_idx = self.forcing_steps(config, files, all_frames, num_frames)" =
          Nest.lift (stepsSeq ⟨s.files, s.allFrames, fun f => (s.numFrames.lookup f).getD 0, cfg.start, cfg.stop,
            cfg.dt⟩) (fun r => { s with steps := r.1, fileIdx := r.2.1, frameIdx := r.2.2 }) := fun _ => rfl
      rw [e]
      exact rc_lift_isSome _ _ (by
        rw [forcing_steps _ (by simp [rc_frameLabels, CtorSt.init])]; exact rc_stepsSpec_isSome _)
    simp only [stmtKnown, List.all_nil, Bool.true_and, this]
    rfl
  have p1 : ∀ s : CtorSt α, (Gen.forcing_ctor_seq.take 3).all (stmtKnown (ctorInterp glob fs cfg) s) = true :=
    fun _ => rfl
  have p2 : ∀ s : CtorSt α, ((Gen.forcing_ctor_seq.drop 4).take 4).all (stmtKnown (ctorInterp glob fs cfg) s) = true :=
    fun _ => rfl
  have p3 : ∀ s : CtorSt α, (Gen.forcing_ctor_seq.drop 10).all (stmtKnown (ctorInterp glob fs cfg) s) = true :=
    fun _ => rfl
  rw [hsplit]
  simp only [List.all_append, List.all_cons, p1, p2, p3, h1, h2, h3, Bool.and_self]

set_option maxRecDepth 100000 in
theorem rc_ctor_blocks (glob : String → List String) (fs : String → NcFile α) (cfg : Config) :
    Loops.blocks (ctorInterp glob fs cfg).isLoop Gen.forcing_ctor_seq = [
  .plain ([], "expr", "logging.info('Initiating forcing')"),
  .plain ([], "assign", "self._grid = grid"),
  .plain ([], "assign", "self.ibm_forcing = config['ibm_forcing']"),
  .plain ([], "assign", "files = self.find_files(config['gridforce'])"),
  .plain ([], "assign", "numfiles = len(files)"),
  .plain ([(true, "numfiles == 0")], "expr", "logging.error('No input file: {}'.format(config['gridforce']['input_file']))"),
  .plain ([(true, "numfiles == 0")], "raise", "raise SystemExit(3)"),
  .plain ([], "expr", "logging.info('Number of forcing files = {}'.format(numfiles))"),
  .plain ([], "assign", "all_frames, num_frames = self.scan_file_times(files)"),
  .plain ([], "assign", "steps, file_idx, frame_idx = self.forcing_steps(config, files, all_frames, num_frames)"),
  .plain ([], "assign", "self._files = files"),
  .plain ([], "assign", "self.stepdiff = np.diff(steps)"),
  .plain ([], "assign", "self.file_idx = file_idx"),
  .plain ([], "assign", "self.frame_idx = frame_idx"),
  .plain ([], "assign", "self._nc = None"),
  .plain ([], "assign", "self.steps = steps"),
  .plain ([], "assign", "self._files = files"),
  .plain ([], "assign", "self.initialization_finished = False"),
  .plain ([], "assign", "self._last_update = -1")] := rfl

set_option maxRecDepth 100000 in
/-- **`Forcing.__init__`** (`Gen.forcing_ctor_seq`): files, then times, then steps, then the attributes (in the order
`rc_ctorLog`); `_nc = None`, `initialization_finished = False`, `_last_update = -1`: nothing is read before the first
`update`. -/
theorem forcing_ctor (glob : String → List String) (fs : String → NcFile α) (cfg : Config) :
    ctorSeq glob fs cfg = rc_ctorSpec glob fs cfg := by
  have k1 : ("assign" = "return") = False := by decide
  have k2 : ("expr" = "return") = False := by decide
  have k3 : ("raise" = "return") = False := by decide
  have l1 : (ctorInterp glob fs cfg).isLoop "numfiles == 0" = false := rfl
  have c1 : ∀ s : CtorSt α, (ctorInterp glob fs cfg).cond s "numfiles == 0" = some (s.numfiles == 0, s) := fun _ => rfl
  have s1 : ∀ s : CtorSt α, (ctorInterp glob fs cfg).step s "expr" "logging.info('Initiating forcing')" =
    some (some s) := fun _ => rfl
  have s2 : ∀ s : CtorSt α, (ctorInterp glob fs cfg).step s "assign" "self._grid = grid" =
    some (some (s.set "_grid" id)) := fun _ => rfl
  have s3 : ∀ s : CtorSt α, (ctorInterp glob fs cfg).step s "assign" "self.ibm_forcing = config['ibm_forcing']" =
    some (some (s.set "ibm_forcing" (fun o => { o with ibm := cfg.ibm }))) := fun _ => rfl
  have s4 : ∀ s : CtorSt α, (ctorInterp glob fs cfg).step s "assign" "files = self.find_files(config['gridforce'])" =
    Nest.lift (findFilesSeq glob cfg.force) (fun l => { s with files := l }) := fun _ => rfl
  have s5 : ∀ s : CtorSt α, (ctorInterp glob fs cfg).step s "assign" "numfiles = len(files)" =
    some (some { s with numfiles := s.files.length }) := fun _ => rfl
  have s6 : ∀ s : CtorSt α, (ctorInterp glob fs cfg).step s "expr"
    "logging.error('No input file: {}'.format(config['gridforce']['input_file']))" = some (some s) := fun _ => rfl
  have s7 : ∀ s : CtorSt α, (ctorInterp glob fs cfg).step s "raise" "raise SystemExit(3)" = some none := fun _ => rfl
  have s8 : ∀ s : CtorSt α, (ctorInterp glob fs cfg).step s "expr"
    "logging.info('Number of forcing files = {}'.format(numfiles))" = some (some s) := fun _ => rfl
  have s9 : ∀ s : CtorSt α, (ctorInterp glob fs cfg).step s "assign"
    "all_frames, num_frames = self.scan_file_times(files)" =
    Nest.lift (scanSeq fs s.files) (fun r => { s with allFrames := r.1, numFrames := r.2 }) := fun _ => rfl
  have s10 : ∀ s : CtorSt α, (ctorInterp glob fs cfg).step s "assign"
    "steps, file_idx, frame_idx = self.forcing_steps(config, files, all_frames, num_frames)" =
    Nest.lift (stepsSeq ⟨s.files, s.allFrames, fun f => (s.numFrames.lookup f).getD 0, cfg.start, cfg.stop, cfg.dt⟩)
      (fun r => { s with steps := r.1, fileIdx := r.2.1, frameIdx := r.2.2 }) := fun _ => rfl
  have s11 : ∀ s : CtorSt α, (ctorInterp glob fs cfg).step s "assign" "self._files = files" =
    some (some (s.set "_files" (fun o => { o with files := s.files }))) := fun _ => rfl
  have s12 : ∀ s : CtorSt α, (ctorInterp glob fs cfg).step s "assign" "self.stepdiff = np.diff(steps)" =
    some (some (s.set "stepdiff" (fun o => { o with stepdiff := npDiff s.steps }))) := fun _ => rfl
  have s13 : ∀ s : CtorSt α, (ctorInterp glob fs cfg).step s "assign" "self.file_idx = file_idx" =
    some (some (s.set "file_idx" (fun o => { o with fileIdx := s.fileIdx }))) := fun _ => rfl
  have s14 : ∀ s : CtorSt α, (ctorInterp glob fs cfg).step s "assign" "self.frame_idx = frame_idx" =
    some (some (s.set "frame_idx" (fun o => { o with frameIdx := s.frameIdx }))) := fun _ => rfl
  have s15 : ∀ s : CtorSt α, (ctorInterp glob fs cfg).step s "assign" "self._nc = None" =
    some (some (s.set "_nc" (fun o => { o with nc := none }))) := fun _ => rfl
  have s16 : ∀ s : CtorSt α, (ctorInterp glob fs cfg).step s "assign" "self.steps = steps" =
    some (some (s.set "steps" (fun o => { o with steps := s.steps }))) := fun _ => rfl
  have s17 : ∀ s : CtorSt α, (ctorInterp glob fs cfg).step s "assign" "self.initialization_finished = False" =
    some (some (s.set "initialization_finished" (fun o => { o with initDone := false }))) := fun _ => rfl
  have s18 : ∀ s : CtorSt α, (ctorInterp glob fs cfg).step s "assign" "self._last_update = -1" =
    some (some (s.set "_last_update" (fun o => { o with lastUpdate := -1 }))) := fun _ => rfl
  unfold ctorSeq rc_ctorSpec
  rw [rc_nest_run_eq _ _ _ (rc_ctor_known glob fs cfg), rc_ctor_blocks]
  generalize hF : rc_findFilesSpec glob cfg.force = files
  simp only [runBlocks, guardEnter, s1, s2, s3, s4, s5, forcing_find_files, hF, Nest.lift, k1, k2, k3, if_false,
    l1, c1, Bool.false_eq_true]
  by_cases hn : files.length = 0
  · have : (files.length == 0) = true := by simp [hn]
    simp only [this, beq_self_eq_true, if_true, s6, s7, k2, if_false, hn]
  · have : (files.length == 0) = false := by simp [hn]
    simp only [this, show (false == true) = false from rfl, Bool.false_eq_true, if_false, s8, k2, s9,
      forcing_scan_file_times, rc_scanSpec, hn]
    by_cases hs : (notAfter (files.flatMap (fun f => (fs f).times))).any id = true
    · simp only [hs, if_true, Nest.lift]
    · simp only [hs, Bool.false_eq_true, if_false, Nest.lift, k1, s10]
      have hA : stepsSeq ⟨files, files.flatMap (fun f => (fs f).times),
          fun f => ((dictOf (files.map (fun f => (f, (fs f).times.length)))).lookup f).getD 0,
          cfg.start, cfg.stop, cfg.dt⟩ = rc_stepsSpec (rc_ctorArgs fs cfg files) := by
        have hl : rc_frameLabels files
            (fun f => ((dictOf (files.map (fun f => (f, (fs f).times.length)))).lookup f).getD 0) =
            rc_frameLabels files (fun f => (fs f).times.length) :=
          rc_frameLabels_congr _ _ _ (fun f hf => by simp [rc_scan_numFrames fs files f hf])
        rw [forcing_steps _ (by
          show (rc_frameLabels files _).length ≤ _
          rw [hl]
          exact Nat.le_of_eq (rc_ctorArgs_len fs cfg files))]
        simp only [rc_stepsSpec, rc_stepsTable, hl, rc_ctorArgs]
        rfl
      rw [hA]
      rcases hsp : rc_stepsSpec (rc_ctorArgs fs cfg files) with _ | _ | tbl
      · simp only [Nest.lift]
        have := rc_stepsSpec_isSome (rc_ctorArgs fs cfg files)
        rw [hsp] at this; cases this
      · simp only [Nest.lift]
      · simp only [Nest.lift, k1, if_false, s11, s12, s13, s14, s15, s16, s17, s18]
        rfl

/-- the good case: at least one file, strictly increasing frame times that cover `[start, stop]`, `dt ≠ 0` -/
theorem forcing_ctor_ok (glob : String → List String) (fs : String → NcFile α) (cfg : Config) (t0 t1 : Int)
    (hfiles : rc_findFilesSpec glob cfg.force ≠ [])
    (hsorted : List.Pairwise (· < ·) ((rc_findFilesSpec glob cfg.force).flatMap (fun f => (fs f).times)))
    (hh : ((rc_findFilesSpec glob cfg.force).flatMap (fun f => (fs f).times)).head? = some t0)
    (hl : ((rc_findFilesSpec glob cfg.force).flatMap (fun f => (fs f).times)).getLast? = some t1)
    (h0 : t0 ≤ cfg.start) (h1 : cfg.stop ≤ t1) (hdt : cfg.dt ≠ 0) :
    ctorSeq glob fs cfg = some (some (rc_ctorObj cfg (rc_findFilesSpec glob cfg.force)
      (rc_stepsTable (rc_ctorArgs fs cfg (rc_findFilesSpec glob cfg.force))))) := by
  rw [forcing_ctor]
  unfold rc_ctorSpec
  have hlen : ¬ (rc_findFilesSpec glob cfg.force).length = 0 := by
    intro h; exact hfiles (List.length_eq_zero_iff.mp h)
  have hs := (rc_notAfter_iff_sorted _).mpr hsorted
  rw [if_neg hlen, hs]
  have hsp : rc_stepsSpec (rc_ctorArgs fs cfg (rc_findFilesSpec glob cfg.force)) =
      some (some (rc_stepsTable (rc_ctorArgs fs cfg (rc_findFilesSpec glob cfg.force)))) := by
    unfold rc_stepsSpec
    have e1 : (rc_ctorArgs fs cfg (rc_findFilesSpec glob cfg.force)).allFrames.head? = some t0 := hh
    have e2 : (rc_ctorArgs fs cfg (rc_findFilesSpec glob cfg.force)).allFrames.getLast? = some t1 := hl
    rw [e1, e2]
    have a1 : ¬ (rc_ctorArgs fs cfg (rc_findFilesSpec glob cfg.force)).start < t0 := by
      show ¬ cfg.start < t0; omega
    have a2 : ¬ t1 < (rc_ctorArgs fs cfg (rc_findFilesSpec glob cfg.force)).stop := by
      show ¬ t1 < cfg.stop; omega
    have a3 : ¬ (rc_ctorArgs fs cfg (rc_findFilesSpec glob cfg.force)).dt = 0 := hdt
    simp only [a1, a2, a3, if_false]
  rw [hsp]
  rfl

end ctor
end Bridge

namespace Bridge

/-! ## `update` -/
section update
variable {α : Type} [Add α] [Sub α] [Mul α] [Div α] [HasOfInt α]

def rc_upHdr : String := "for step in range(self._last_update + 1, t + 1)"
def rc_upBody : List Stmt := [
  ([(true, rc_upHdr)], "expr", "self._update_one_step(step)"),
  ([(true, rc_upHdr)], "assign", "self._last_update = step")]

set_option maxRecDepth 100000 in
theorem rc_upd_blocks (fr : Roms.Frames α) (cw : α → α) (t : Int) :
    Loops.blocks (updInterp fr cw t).isLoop Gen.forcing_update_seq =
      [.plain ([], "call", "_remaining_initialization"), .loop rc_upHdr rc_upBody] := rfl

set_option maxRecDepth 100000 in
theorem rc_upd_known (fr : Roms.Frames α) (cw : α → α) (t : Int) (s : UpdSt α) :
    Gen.forcing_update_seq.all (stmtKnown (updInterp fr cw t) s) = true := rfl

/-- one trip of the catch-up loop: `_update_one_step(x)`, then `_last_update = x` -/
def rc_upTrip (fr : Roms.Frames α) (cw : α → α) (s : UpdSt α) (x : Int) : Option (Option (UpdSt α)) :=
  match run (stepAtom fr x) (stepStep fr cw x) Gen.forcing_step_seq s.st with
  | none => some none
  | some st' => some (some ⟨st', x, x⟩)

set_option maxRecDepth 100000 in
theorem rc_up_trip (fr : Roms.Frames α) (cw : α → α) (t : Int) (s : UpdSt α) (x : Int) :
    runDepth (updInterp fr cw t) 2 (stripBody (updInterp fr cw t).isLoop rc_upBody) { s with step := x } =
      rc_upTrip fr cw s x := by
  have hb : Loops.blocks (updInterp fr cw t).isLoop (stripBody (updInterp fr cw t).isLoop rc_upBody) = [
    .plain ([], "expr", "self._update_one_step(step)"),
    .plain ([], "assign", "self._last_update = step")] := rfl
  have s1 : ∀ s : UpdSt α, (updInterp fr cw t).step s "expr" "self._update_one_step(step)" =
    some ((run (stepAtom fr s.step) (stepStep fr cw s.step) Gen.forcing_step_seq s.st).map
      (fun st' => { s with st := st' })) := fun _ => rfl
  have s2 : ∀ s : UpdSt α, (updInterp fr cw t).step s "assign" "self._last_update = step" =
    some (some { s with last := s.step }) := fun _ => rfl
  have k1 : ("assign" = "return") = False := by decide
  have k2 : ("expr" = "return") = False := by decide
  show runBlocks _ _ (Loops.blocks _ _) _ = _
  rw [hb]
  simp only [runBlocks, guardEnter, s1, s2, k1, k2, if_false, rc_upTrip]
  cases run (stepAtom fr x) (stepStep fr cw x) Gen.forcing_step_seq s.st <;> rfl

/-- the catch-up loop in closed form: `n` trips from step `start` on -/
def rc_upLoopSpec (fr : Roms.Frames α) (cw : α → α) : Nat → Int → UpdSt α → Option (Option (UpdSt α))
  | 0, _, s => some (some s)
  | n + 1, start, s =>
    match rc_upTrip fr cw s start with
    | none => none
    | some none => some none
    | some (some s') => rc_upLoopSpec fr cw n (start + 1) s'

theorem rc_up_loop (fr : Roms.Frames α) (cw : α → α) (t : Int) : ∀ (n : Nat) (start : Int) (s : UpdSt α),
    loopOver (runDepth (updInterp fr cw t) 2 (stripBody (updInterp fr cw t).isLoop rc_upBody))
        ((List.range n).map (fun (i : Nat) (s' : UpdSt α) => { s' with step := start + (i : Int) })) s =
      rc_upLoopSpec fr cw n start s
  | 0, _, _ => rfl
  | n + 1, start, s => by
    rw [List.range_succ_eq_map, List.map_cons, List.map_map]
    have e : ((fun (i : Nat) (s' : UpdSt α) => { s' with step := start + (i : Int) }) ∘ Nat.succ) =
        (fun (i : Nat) (s' : UpdSt α) => { s' with step := (start + 1) + (i : Int) }) := by
      funext i s'
      simp only [Function.comp, Nat.succ_eq_add_one]
      congr 1
      push_cast; omega
    rw [e]
    simp only [loopOver, rc_upLoopSpec]
    have : ({ s with step := start + ((0 : Nat) : Int) } : UpdSt α) = { s with step := start } := by simp
    rw [this, rc_up_trip]
    rcases rc_upTrip fr cw s start with _ | _ | s'
    · rfl
    · rfl
    · exact rc_up_loop fr cw t n (start + 1) s'

/-- … is the loop `codeSteps` of `RomsSeq.lean` (a failing step counts as a raise) -/
theorem rc_upLoopSpec_codeSteps (fr : Roms.Frames α) (cw : α → α) : ∀ (n : Nat) (start : Int) (s : UpdSt α),
    rc_upLoopSpec fr cw n start s =
      match codeSteps fr cw s.st start n with
      | none => some none
      | some st' => some (some ⟨st', if n = 0 then s.last else start + n - 1, if n = 0 then s.step else start + n - 1⟩)
  | 0, _, _ => rfl
  | n + 1, start, s => by
    simp only [rc_upLoopSpec, rc_upTrip, codeSteps]
    cases hr : run (stepAtom fr start) (stepStep fr cw start) Gen.forcing_step_seq s.st with
    | none => rfl
    | some st' =>
      simp only [Option.bind_some]
      rw [rc_upLoopSpec_codeSteps fr cw n (start + 1) ⟨st', start, start⟩]
      cases codeSteps fr cw st' (start + 1) n with
      | none => rfl
      | some st'' =>
        simp only [Nat.add_eq_zero_iff, one_ne_zero, and_false, if_false]
        by_cases hn : n = 0
        · subst hn; simp
        · simp only [hn, if_false]
          congr 3 <;> (push_cast; omega)

/-- **`Forcing.update`** (`Gen.forcing_update_seq`): `_remaining_initialization()`, then the catch-up loop
`codeUpdate` of `RomsSeq.lean` — `_update_one_step(step)` for every `step` from `_last_update + 1` to `t`, each one
the interpretation of `Gen.forcing_step_seq`, and `_last_update = t`; nothing happens for `t ≤ _last_update`. -/
theorem forcing_update (fr : Roms.Frames α) (cw : α → α) (c : CodeSt α) (t : Int) :
    updateSeq fr cw c t =
      match run (initAtom fr) (initStep fr cw) Gen.forcing_init_seq c.st with
      | none => some none
      | some st0 =>
        match codeUpdate fr cw ⟨st0, c.last⟩ t with
        | none => some none
        | some c' => some (some c') := by
  have s1 : ∀ s : UpdSt α, (updInterp fr cw t).step s "call" "_remaining_initialization" =
    some ((run (initAtom fr) (initStep fr cw) Gen.forcing_init_seq s.st).map (fun st' => { s with st := st' })) :=
    fun _ => rfl
  have k1 : ("call" = "return") = False := by decide
  have g1 : Loops.outerGuard (updInterp fr cw t).isLoop rc_upBody = [] := rfl
  have i1 : ∀ s : UpdSt α, (updInterp fr cw t).iter s rc_upHdr =
    (List.range (t - s.last).toNat).map (fun (i : Nat) s' => { s' with step := s.last + 1 + (i : Int) }) :=
    fun _ => rfl
  unfold updateSeq
  rw [rc_nest_run_eq _ _ _ (rc_upd_known fr cw t _), rc_upd_blocks]
  simp only [runBlocks, guardEnter, s1, k1, if_false, g1, i1]
  cases hi : run (initAtom fr) (initStep fr cw) Gen.forcing_init_seq c.st with
  | none => rfl
  | some st0 =>
    simp only [Option.map_some, rc_up_loop, rc_upLoopSpec_codeSteps, codeUpdate]
    by_cases hlt : c.last < t
    · have hn : ¬ (t - c.last).toNat = 0 := by omega
      simp only [hlt, if_true, hn, if_false]
      cases codeSteps fr cw st0 (c.last + 1) (t - c.last).toNat with
      | none => rfl
      | some st' =>
        simp only [Option.map_some, Nest.lift]
        congr 3
        omega
    · have hn : (t - c.last).toNat = 0 := by omega
      simp only [hlt, if_false, hn, codeSteps, if_true, Nest.lift]

end update
end Bridge

namespace Bridge

section updateModel
variable {α : Type} [Field α] [LinearOrder α] [IsStrictOrderedRing α]

/-- `_remaining_initialization` returns at once when the initialisation is finished -/
theorem rc_init_done_noop (fr : Roms.Frames α) (cw : α → α) (s : FSt α) (h : s.initDone = true) :
    run (initAtom fr) (initStep fr cw) Gen.forcing_init_seq s = some s := by
  have e : Gen.forcing_init_seq = ([(true, "self.initialization_finished")], "return", "") ::
      Gen.forcing_init_seq.tail := rfl
  rw [e]
  simp [Seq.run, guardVal, initAtom, h]

/-- … and finishes it otherwise -/
theorem rc_init_sets_done (fr : Roms.Frames α) (cw : α → α) (z : α) (s0 : FSt α)
    (h : run (initAtom fr) (initStep fr cw) Gen.forcing_init_seq (FSt.blank z) = some s0) : s0.initDone = true := by
  cases hp : Roms.prestepOf fr.steps with
  | some p =>
    cases hn : Roms.nextStep fr.steps p with
    | none => simp [Gen.forcing_init_seq, Seq.run, guardVal, initAtom, initStep, FSt.blank, hp, hn] at h
    | some nx =>
      simp [Gen.forcing_init_seq, Seq.run, guardVal, initAtom, initStep, FSt.blank, hp, hn] at h
      subst h; rfl
  | none =>
    have hi := forcing_init fr cw z
    rw [h] at hi
    obtain ⟨s1, rest, heq, _⟩ := C06.init_on_frame .stepdiff .next fr _ hp hi.symm
    have h1 : fr.steps.head? = some 0 := by rw [heq]; rfl
    have h2 : fr.steps[1]? = some s1 := by rw [heq]; rfl
    simp [Gen.forcing_init_seq, Seq.run, guardVal, initAtom, initStep, FSt.blank, hp, h1, h2] at h
    subst h; rfl

theorem rc_stepExplicit_initDone (fr : Roms.Frames α) (cw : α → α) (t : Int) (s : FSt α) :
    (stepExplicit fr cw t s).initDone = s.initDone := by
  unfold stepExplicit
  cases h1 : fr.steps.contains (t - 1) <;> cases h2 : fr.steps.contains t <;>
    cases hn : Roms.nextStep fr.steps (t - 1) <;> simp

theorem rc_stepsExplicit_initDone (fr : Roms.Frames α) (cw : α → α) : ∀ (n : Nat) (start : Int) (s : FSt α),
    (stepsExplicit fr cw s start n).initDone = s.initDone
  | 0, _, _ => rfl
  | n + 1, start, s => by
    show (stepsExplicit fr cw (stepExplicit fr cw start s) (start + 1) n).initDone = _
    rw [rc_stepsExplicit_initDone fr cw n, rc_stepExplicit_initDone]

/-- **`Forcing.update(t)` is `Roms.update .loop`.**  For an initialised object (`initialization_finished`), when every
forcing step met up to `t` has a successor frame: the interpretation of `Gen.forcing_update_seq` (with the
interpretation of `Gen.forcing_step_seq` for every `_update_one_step`) succeeds, and on the state of the C06 model it
is the model's `update` with the catch-up loop. -/
theorem forcing_update_model (fr : Roms.Frames α) (cw : α → α) (c : CodeSt α) (t : Int)
    (hdone : c.st.initDone = true)
    (hnext : ∀ x, x ≤ t → fr.steps.contains (x - 1) = true → (Roms.nextStep fr.steps (x - 1)).isSome = true) :
    ∃ c', updateSeq fr cw c t = some (some c') ∧ c'.st.initDone = true ∧
      c'.st.roms c'.last = Roms.update .loop fr (c.st.roms c.last) t ∧
      c' = (if c.last < t then ⟨stepsExplicit fr cw c.st (c.last + 1) (t - c.last).toNat, t⟩ else c) := by
  rw [forcing_update, rc_init_done_noop fr cw c.st hdone]
  dsimp only
  by_cases hlt : c.last < t
  · rw [codeUpdate_eq fr cw c.st c.last t hlt hnext]
    refine ⟨_, rfl, ?_, ?_, by rw [if_pos hlt]⟩
    · rw [rc_stepsExplicit_initDone]; exact hdone
    · obtain ⟨l', hl'⟩ := stepsExplicit_roms fr cw (t - c.last).toNat (c.last + 1) c.last c.st
      have hU : Roms.update .loop fr (c.st.roms c.last) t =
          Roms.updateRange fr (c.st.roms c.last) (c.last + 1) (t - c.last).toNat := by
        show (if (c.st.roms c.last).last < t then _ else _) = _
        rw [if_pos (show (c.st.roms c.last).last < t from hlt)]
        rfl
      rw [hU, ← hl']
      obtain ⟨k, hk⟩ : ∃ k, (t - c.last).toNat = k + 1 := ⟨(t - c.last).toNat - 1, by omega⟩
      have hlast := C06.updateRange_last fr (c.st.roms c.last) (c.last + 1) k
      rw [← hk, ← hl'] at hlast
      have : l' = t := by
        have e : ((stepsExplicit fr cw c.st (c.last + 1) (t - c.last).toNat).roms l').last = l' := rfl
        rw [e] at hlast
        omega
      rw [this]
  · have hcu : codeUpdate fr cw ⟨c.st, c.last⟩ t = some ⟨c.st, c.last⟩ := by
      unfold codeUpdate; rw [if_neg hlt]
    rw [hcu]
    refine ⟨_, rfl, hdone, ?_, by rw [if_neg hlt]⟩
    show _ = (if (c.st.roms c.last).last < t then _ else _)
    rw [if_neg (show ¬ (c.st.roms c.last).last < t from hlt)]

/-- the calls of a schedule after the first one -/
theorem rc_updateSeqRun_eq (fr : Roms.Frames α) (cw : α → α) (z : α) (T : Int)
    (hnext : ∀ x, x ≤ T → fr.steps.contains (x - 1) = true → (Roms.nextStep fr.steps (x - 1)).isSome = true) :
    ∀ (sched : List Int) (c0 c : CodeSt α), c0.st.initDone = true → List.Pairwise (· < ·) sched →
      (∀ x ∈ sched, c0.last < x) → (∀ x ∈ sched, x ≤ T) →
      sched.foldlM (codeUpdate fr cw) c0 = some c → updateSeqRun fr cw z sched c0 = some (some c)
  | [], c0, c, _, _, _, _, h => by
    simp only [List.foldlM_nil] at h
    cases h; rfl
  | t :: ts, c0, c, hd, hp, hx, hT, h => by
    have hlt := hx t (by simp)
    have htT := hT t (by simp)
    obtain ⟨c1, h1, h2, _, h4⟩ := forcing_update_model fr cw c0 t hd (fun x hx' => hnext x (by omega))
    rw [if_pos hlt] at h4
    rw [List.foldlM_cons, codeUpdate_eq fr cw c0.st c0.last t hlt (fun x hx' => hnext x (by omega))] at h
    simp only [updateSeqRun, h1]
    refine rc_updateSeqRun_eq fr cw z T hnext ts c1 c h2 (List.pairwise_cons.mp hp).2 ?_
      (fun x hx' => hT x (by simp [hx'])) ?_
    · intro x hx'
      rw [h4]
      exact (List.pairwise_cons.mp hp).1 x hx'
    · rw [h4]; exact h

/-- **C06 for the interpreted `update`.**  A freshly constructed `Forcing` object (`initialization_finished = False`,
`_last_update = -1`), then `update(t)` for every `t` of a strictly increasing schedule of non-negative steps, every
call being the interpretation of `Gen.forcing_update_seq` (which calls the interpretations of `Gen.forcing_init_seq`
and `Gen.forcing_step_seq`): the run succeeds, is the run `codeRun` of `RomsSeq.lean`, and the velocity it serves at
the last step `T` is the linear-in-time interpolation of the two enclosing frames (the vertical velocity its image
under a linear `compute_w`). -/
theorem forcing_update_any_schedule (fr : Roms.Frames α) (cw : α → α) (z : α)
    (hs : C06.Sorted fr.steps) (hinit : (Roms.init .stepdiff .next fr).isSome = true)
    (sched : List Int) (hp : List.Pairwise (· < ·) sched) (h0 : ∀ x ∈ sched, 0 ≤ x) (T : Int)
    (hT : sched.getLast? = some T) (n n' : Int) (hb : C06.Bracket fr.steps T n n') :
    ∃ c, updateSeqRun fr cw z sched ⟨FSt.blank z, -1⟩ = some (some c) ∧ codeRun fr cw z sched = some c ∧
      c.last = T ∧ c.st.U = C06.lerp fr T n n' ∧ (LinearW cw → c.st.W = cw c.st.U) := by
  obtain ⟨c, hc, h1, h2, h3⟩ := code_velocity_any_schedule fr cw z hs hinit sched hp h0 T hT n n' hb
  refine ⟨c, ?_, hc, h1, h2, h3⟩
  -- every forcing step met has a successor
  obtain ⟨hb1, hb2, hb3⟩ := hb
  have hn'mem := (C06.nextStep_spec fr.steps hs n n' hb1).2.1
  have hnext : ∀ x, x ≤ T → fr.steps.contains (x - 1) = true →
      (Roms.nextStep fr.steps (x - 1)).isSome = true := by
    intro x hx hcn
    obtain ⟨m, hm⟩ := C06.nextStep_of_mem fr.steps hs (x - 1) ((C06.contains_iff _ _).mp hcn)
      ⟨n', hn'mem, by omega⟩
    rw [hm]; rfl
  have hle : ∀ x ∈ sched, x ≤ T := by
    intro x hx
    rcases List.mem_iff_getElem.mp hx with ⟨i, hi, rfl⟩
    have hlast : sched[sched.length - 1]'(by omega) = T := by
      rw [List.getLast?_eq_getElem?] at hT
      rw [List.getElem?_eq_getElem (by omega)] at hT
      exact Option.some.inj hT
    by_cases hil : i = sched.length - 1
    · subst hil; omega
    · have := (List.pairwise_iff_getElem.mp hp) i (sched.length - 1) hi (by omega) (by omega)
      omega
  unfold codeRun at hc
  cases hr : Seq.run (initAtom fr) (initStep fr cw) Gen.forcing_init_seq (FSt.blank z) with
  | none => rw [hr] at hc; cases hc
  | some s0 =>
    rw [hr, Option.bind_some] at hc
    have hd0 := rc_init_sets_done fr cw z s0 hr
    cases sched with
    | nil => simp at hT
    | cons t ts =>
      have ht0 := h0 t (by simp)
      rw [List.foldlM_cons, codeUpdate_eq fr cw s0 (-1) t (by omega) (fun x hx' => hnext x (by
        have := hle t (by simp); omega))] at hc
      have hfirst : updateSeq fr cw ⟨FSt.blank z, -1⟩ t =
          some (some ⟨stepsExplicit fr cw s0 (-1 + 1) (t - -1).toNat, t⟩) := by
        rw [forcing_update, hr]
        show (match codeUpdate fr cw ⟨s0, -1⟩ t with | none => some none | some c' => some (some c')) = _
        rw [codeUpdate_eq fr cw s0 (-1) t (by omega) (fun x hx' => hnext x (by
          have := hle t (by simp); omega))]
      simp only [updateSeqRun, hfirst]
      exact rc_updateSeqRun_eq fr cw z T hnext ts _ c (by rw [rc_stepsExplicit_initDone]; exact hd0)
        (List.pairwise_cons.mp hp).2 (fun x hx' => (List.pairwise_cons.mp hp).1 x hx')
        (fun x hx' => hle x (by simp [hx'])) hc

end updateModel
end Bridge

namespace Bridge

/-! ## the readers -/
section readers
variable {α : Type} [Add α] [Mul α] [HasNarrow α]

def rc_ofHdr : String := "for key in forcing_variables"
def rc_ofHas : String := "hasattr(nc.variables[key], 'scale_factor')"
def rc_ofBody : List Stmt := [
  ([(true, rc_ofHdr), (true, rc_ofHas)], "assign", "self.scaled[key] = True"),
  ([(true, rc_ofHdr), (true, rc_ofHas)], "assign", "self.scale_factor[key] = np.float32(nc.variables[key].scale_factor)"),
  ([(true, rc_ofHdr), (true, rc_ofHas)], "assign", "self.add_offset[key] = np.float32(nc.variables[key].add_offset)"),
  ([(true, rc_ofHdr), (false, rc_ofHas)], "assign", "self.scaled[key] = False")]

set_option maxRecDepth 100000 in
theorem rc_of_blocks (fs : String → NcFile α) (n : Int) :
    Loops.blocks (ofInterp fs n).isLoop Gen.forcing_open_file_seq = [
      .plain ([], "assign", "nc = self._nc"),
      .plain ([], "assign", "nc = self.open_dataset(self.file_idx[n])"),
      .plain ([], "expr", "nc.set_auto_maskandscale(False)"),
      .plain ([], "assign", "self.scaled = dict()"),
      .plain ([], "assign", "self.scale_factor = dict()"),
      .plain ([], "assign", "self.add_offset = dict()"),
      .plain ([], "assign", "forcing_variables = ['u', 'v'] + self.ibm_forcing"),
      .loop rc_ofHdr rc_ofBody,
      .plain ([], "assign", "self._nc = nc")] := rfl

set_option maxRecDepth 100000 in
theorem rc_of_known (fs : String → NcFile α) (n : Int) (s : RdSt α) :
    Gen.forcing_open_file_seq.all (stmtKnown (ofInterp fs n) s) = true := rfl

/-- one trip of `for key in forcing_variables` while the dataset of file `f` is in `nc` -/
def rc_ofTrip (fs : String → NcFile α) (f : String) (s : RdSt α) (k : String) : RdSt α :=
  match (fs f).scale k with
  | some sc =>
    { s with key := k, o := { s.o with scaled := dictSet s.o.scaled k true,
                                       scaleFactor := dictSet s.o.scaleFactor k (narrow sc.1),
                                       addOffset := dictSet s.o.addOffset k (narrow sc.2) } }
  | none => { s with key := k, o := { s.o with scaled := dictSet s.o.scaled k false } }

set_option maxRecDepth 100000 in
theorem rc_of_trip (fs : String → NcFile α) (n : Int) (f : String) (s : RdSt α) (k : String) (hf : s.ncLoc = some f) :
    runDepth (ofInterp fs n) 2 (stripBody (ofInterp fs n).isLoop rc_ofBody) { s with key := k } =
      some (some (rc_ofTrip fs f s k)) := by
  have hb : Loops.blocks (ofInterp fs n).isLoop (stripBody (ofInterp fs n).isLoop rc_ofBody) = [
    .plain ([(true, rc_ofHas)], "assign", "self.scaled[key] = True"),
    .plain ([(true, rc_ofHas)], "assign", "self.scale_factor[key] = np.float32(nc.variables[key].scale_factor)"),
    .plain ([(true, rc_ofHas)], "assign", "self.add_offset[key] = np.float32(nc.variables[key].add_offset)"),
    .plain ([(false, rc_ofHas)], "assign", "self.scaled[key] = False")] := rfl
  have l1 : (ofInterp fs n).isLoop rc_ofHas = false := rfl
  have c1 : ∀ s : RdSt α, (ofInterp fs n).cond s rc_ofHas =
    some ((match s.ncLoc with | some f => ((fs f).scale s.key).isSome | none => false), s) := fun _ => rfl
  have s1 : ∀ s : RdSt α, (ofInterp fs n).step s "assign" "self.scaled[key] = True" =
    some (some { s with o := { s.o with scaled := dictSet s.o.scaled s.key true } }) := fun _ => rfl
  have s2 : ∀ s : RdSt α, (ofInterp fs n).step s "assign"
    "self.scale_factor[key] = np.float32(nc.variables[key].scale_factor)" =
    some (match s.ncLoc.bind (fun f => (fs f).scale s.key) with
      | some sc => some { s with o := { s.o with scaleFactor := dictSet s.o.scaleFactor s.key (narrow sc.1) } }
      | none => none) := fun _ => rfl
  have s3 : ∀ s : RdSt α, (ofInterp fs n).step s "assign"
    "self.add_offset[key] = np.float32(nc.variables[key].add_offset)" =
    some (match s.ncLoc.bind (fun f => (fs f).scale s.key) with
      | some sc => some { s with o := { s.o with addOffset := dictSet s.o.addOffset s.key (narrow sc.2) } }
      | none => none) := fun _ => rfl
  have s4 : ∀ s : RdSt α, (ofInterp fs n).step s "assign" "self.scaled[key] = False" =
    some (some { s with o := { s.o with scaled := dictSet s.o.scaled s.key false } }) := fun _ => rfl
  have k1 : ("assign" = "return") = False := by decide
  show runBlocks _ _ (Loops.blocks _ _) _ = _
  rw [hb]
  rcases s with ⟨o, nc0, ncLoc, fvars, key, frame, U, V, F, r1, r2⟩
  dsimp only at hf
  subst hf
  simp only [runBlocks, guardEnter, l1, c1, s1, s2, s3, s4, k1, if_false, Bool.false_eq_true, Option.bind_some]
  unfold rc_ofTrip
  cases hsc : (fs f).scale k with
  | none => simp [hsc]
  | some sc => simp [hsc]

/-- the three dicts that `open_forcing_file` rebuilds, started from `d1 d2 d3`, for the variables `keys` of file `f` -/
def rc_ofScaled (fs : String → NcFile α) (f : String) (keys : List String) (d : List (String × Bool)) :
    List (String × Bool) :=
  (keys.map (fun k => (k, ((fs f).scale k).isSome))).foldl (fun d e => dictSet d e.1 e.2) d
def rc_ofFactor (fs : String → NcFile α) (f : String) (keys : List String) (d : List (String × α)) : List (String × α) :=
  (keys.filterMap (fun k => ((fs f).scale k).map (fun sc => (k, narrow sc.1)))).foldl (fun d e => dictSet d e.1 e.2) d
def rc_ofOffset (fs : String → NcFile α) (f : String) (keys : List String) (d : List (String × α)) : List (String × α) :=
  (keys.filterMap (fun k => ((fs f).scale k).map (fun sc => (k, narrow sc.2)))).foldl (fun d e => dictSet d e.1 e.2) d

theorem rc_of_fold (fs : String → NcFile α) (f : String) : ∀ (keys : List String) (s : RdSt α),
    (keys.foldl (rc_ofTrip fs f) s).o =
      { s.o with scaled := rc_ofScaled fs f keys s.o.scaled, scaleFactor := rc_ofFactor fs f keys s.o.scaleFactor,
                 addOffset := rc_ofOffset fs f keys s.o.addOffset } ∧
    (keys.foldl (rc_ofTrip fs f) s).ncLoc = s.ncLoc
  | [], s => ⟨rfl, rfl⟩
  | k :: keys, s => by
    obtain ⟨h1, h2⟩ := rc_of_fold fs f keys (rc_ofTrip fs f s k)
    simp only [List.foldl_cons, h1, h2]
    unfold rc_ofTrip rc_ofScaled rc_ofFactor rc_ofOffset
    cases hsc : (fs f).scale k <;> simp [hsc]

/-- the object after `open_forcing_file` has opened file `f`: `_nc` is the new dataset, the scaling dicts are rebuilt
for `['u', 'v'] + ibm_forcing`; the previous dataset is *not* closed here -/
def rc_openFileObj (fs : String → NcFile α) (o : FObj α) (f : String) : FObj α :=
  { o with nc := some f, opened := o.opened ++ [f],
           scaled := rc_ofScaled fs f ("u" :: "v" :: o.ibm) [],
           scaleFactor := rc_ofFactor fs f ("u" :: "v" :: o.ibm) [],
           addOffset := rc_ofOffset fs f ("u" :: "v" :: o.ibm) [] }

set_option maxRecDepth 100000 in
/-- **`Forcing.open_forcing_file(n)`** (`Gen.forcing_open_file_seq`): the file is `file_idx[n]` (`KeyError` for an
unknown step) -/
theorem forcing_open_file (fs : String → NcFile α) (z : α) (o : FObj α) (n : Int) :
    openFileSeq fs z o n = some ((o.fileIdx.lookup n).map (rc_openFileObj fs o)) := by
  have k1 : ("assign" = "return") = False := by decide
  have k2 : ("expr" = "return") = False := by decide
  have s1 : ∀ s : RdSt α, (ofInterp fs n).step s "assign" "nc = self._nc" =
    some (some { s with ncLoc := s.o.nc }) := fun _ => rfl
  have s2 : ∀ s : RdSt α, (ofInterp fs n).step s "assign" "nc = self.open_dataset(self.file_idx[n])" =
    some ((s.o.fileIdx.lookup n).map
      (fun f => { s with ncLoc := some f, o := { s.o with opened := s.o.opened ++ [f] } })) := fun _ => rfl
  have s3 : ∀ s : RdSt α, (ofInterp fs n).step s "expr" "nc.set_auto_maskandscale(False)" = some (some s) :=
    fun _ => rfl
  have s4 : ∀ s : RdSt α, (ofInterp fs n).step s "assign" "self.scaled = dict()" =
    some (some { s with o := { s.o with scaled := [] } }) := fun _ => rfl
  have s5 : ∀ s : RdSt α, (ofInterp fs n).step s "assign" "self.scale_factor = dict()" =
    some (some { s with o := { s.o with scaleFactor := [] } }) := fun _ => rfl
  have s6 : ∀ s : RdSt α, (ofInterp fs n).step s "assign" "self.add_offset = dict()" =
    some (some { s with o := { s.o with addOffset := [] } }) := fun _ => rfl
  have s7 : ∀ s : RdSt α, (ofInterp fs n).step s "assign" "forcing_variables = ['u', 'v'] + self.ibm_forcing" =
    some (some { s with fvars := "u" :: "v" :: s.o.ibm }) := fun _ => rfl
  have s8 : ∀ s : RdSt α, (ofInterp fs n).step s "assign" "self._nc = nc" =
    some (some { s with o := { s.o with nc := s.ncLoc } }) := fun _ => rfl
  have g1 : Loops.outerGuard (ofInterp fs n).isLoop rc_ofBody = [] := rfl
  have i1 : ∀ s : RdSt α, (ofInterp fs n).iter s rc_ofHdr = s.fvars.map (fun k s' => { s' with key := k }) :=
    fun _ => rfl
  unfold openFileSeq
  rw [rc_nest_run_eq _ _ _ (rc_of_known fs n _), rc_of_blocks]
  simp only [runBlocks, guardEnter, s1, s2, k1, if_false]
  cases hl : o.fileIdx.lookup n with
  | none => simp [RdSt.init, hl, Nest.lift]
  | some f =>
    have hl' : (RdSt.init z o).o.fileIdx.lookup n = some f := hl
    simp only [hl', Option.map_some, s3, s4, s5, s6, s7, k1, k2, if_false, g1, guardEnter, i1]
    have key := rc_loopOver_fold_inv (runDepth (ofInterp fs n) 2 (stripBody (ofInterp fs n).isLoop rc_ofBody))
      (fun (k : String) (s : RdSt α) => { s with key := k }) (rc_ofTrip fs f)
      (fun _ s => s.ncLoc = some f) ("u" :: "v" :: o.ibm)
      (fun j s x _ hs => ⟨rc_of_trip fs n f s x hs, by
        unfold rc_ofTrip; cases (fs f).scale x <;> exact hs⟩)
    have := key ("u" :: "v" :: o.ibm) 0
    simp only [RdSt.init] at this ⊢
    rw [(this _ (Nat.zero_le _) rfl rfl).1]
    simp only [s8, k1, if_false, Nest.lift]
    have hfold := rc_of_fold fs f ("u" :: "v" :: o.ibm)
    simp only [(hfold _).1, (hfold _).2]
    rfl

/-! ### `_read_velocity` -/

/-- the open / close logic at the head of `_read_velocity(n)`: first read — open `file_idx[n]`; `frame_idx[n] == 0` —
close the open dataset, open `file_idx[n]`; otherwise keep the open dataset, whatever `file_idx[n]` is.
`none` = `KeyError` -/
def rc_rvOpen (fs : String → NcFile α) (o : FObj α) (n : Int) : Option (FObj α) :=
  match o.nc with
  | none => (o.fileIdx.lookup n).map (rc_openFileObj fs o)
  | some g =>
    if o.frameIdx.lookup n == some 0 then
      (o.fileIdx.lookup n).map (rc_openFileObj fs { o with closed := o.closed ++ [g] })
    else some o

/-- reading frame `frame_idx[n]` of the open dataset: the raw values, times `scale_factor` (as `float32`) when
`self.scaled['u']` — for `v` too, `add_offset` is not applied — times the land mask.  `none` = the read raises -/
def rc_rvRead (fs : String → NcFile α) (Mu Mv : α) (o : FObj α) (n : Int) : Option (α × α) :=
  match o.frameIdx.lookup n, o.nc with
  | some k, some f =>
    if o.scaled.lookup "u" == some true then
      match o.scaleFactor.lookup "u", o.scaleFactor.lookup "v" with
      | some cu, some cv => some (cu * (fs f).var "u" k * Mu, cv * (fs f).var "v" k * Mv)
      | _, _ => none
    else some ((fs f).var "u" k * Mu, (fs f).var "v" k * Mv)
  | _, _ => none

def rc_rvTail : List Loops.Block := [
  .plain ([], "assign", "frame = self.frame_idx[n]"),
  .plain ([], "assign", "U = self._nc.variables['u'][frame, :, self._grid.Ju, self._grid.Iu]"),
  .plain ([], "assign", "V = self._nc.variables['v'][frame, :, self._grid.Jv, self._grid.Iv]"),
  .plain ([(true, "self.scaled['u']")], "assign", "U = self.scale_factor['u'] * U"),
  .plain ([(true, "self.scaled['u']")], "assign", "V = self.scale_factor['v'] * V"),
  .plain ([], "expr", "np.multiply(U, self._grid.Mu, out=U)"),
  .plain ([], "expr", "np.multiply(V, self._grid.Mv, out=V)"),
  .plain ([], "return", "(U, V)")]

set_option maxRecDepth 100000 in
theorem rc_rv_blocks (fs : String → NcFile α) (Mu Mv z : α) (n : Int) :
    Loops.blocks (rvInterp fs Mu Mv z n).isLoop Gen.forcing_read_velocity_seq =
      .plain ([], "expr", "logging.info('Reading velocity for time step = {}'.format(n))") ::
      .plain ([(true, "not self._nc")], "expr", "self.open_forcing_file(n)") ::
      .plain ([(false, "not self._nc"), (true, "self.frame_idx[n] == 0")], "expr", "self._nc.close()") ::
      .plain ([(false, "not self._nc"), (true, "self.frame_idx[n] == 0")], "expr", "self.open_forcing_file(n)") ::
      rc_rvTail := rfl

set_option maxRecDepth 100000 in
theorem rc_rv_known (fs : String → NcFile α) (Mu Mv z : α) (n : Int) (s : RdSt α) :
    Gen.forcing_read_velocity_seq.all (stmtKnown (rvInterp fs Mu Mv z n) s) = true := by
  have hsplit : Gen.forcing_read_velocity_seq = Gen.forcing_read_velocity_seq.take 1 ++
      ([(true, "not self._nc")], "expr", "self.open_forcing_file(n)") ::
      ([(false, "not self._nc"), (true, "self.frame_idx[n] == 0")], "expr", "self._nc.close()") ::
      ([(false, "not self._nc"), (true, "self.frame_idx[n] == 0")], "expr", "self.open_forcing_file(n)") ::
      Gen.forcing_read_velocity_seq.drop 4 := rfl
  have e : ∀ s : RdSt α, (rvInterp fs Mu Mv z n).step s "expr" "self.open_forcing_file(n)" =
    Nest.lift (openFileSeq fs z s.o n) (fun o' => { s with o := o' }) := fun _ => rfl
  have hs : ((rvInterp fs Mu Mv z n).step s "expr" "self.open_forcing_file(n)").isSome = true := by
    rw [e]; exact rc_lift_isSome _ _ (by rw [forcing_open_file]; rfl)
  have h1 : stmtKnown (rvInterp fs Mu Mv z n) s ([(true, "not self._nc")], "expr", "self.open_forcing_file(n)") = true := by
    simp only [stmtKnown, hs, Bool.and_true]
    rfl
  have h2 : stmtKnown (rvInterp fs Mu Mv z n) s
      ([(false, "not self._nc"), (true, "self.frame_idx[n] == 0")], "expr", "self.open_forcing_file(n)") = true := by
    simp only [stmtKnown, hs, Bool.and_true]
    rfl
  have h3 : stmtKnown (rvInterp fs Mu Mv z n) s
      ([(false, "not self._nc"), (true, "self.frame_idx[n] == 0")], "expr", "self._nc.close()") = true := rfl
  have p1 : (Gen.forcing_read_velocity_seq.take 1).all (stmtKnown (rvInterp fs Mu Mv z n) s) = true := rfl
  have p2 : (Gen.forcing_read_velocity_seq.drop 4).all (stmtKnown (rvInterp fs Mu Mv z n) s) = true := rfl
  rw [hsplit]
  simp only [List.all_append, List.all_cons, p1, p2, h1, h2, h3, Bool.and_self]

set_option maxRecDepth 100000 in
/-- the read proper (the last eight statements), in any state -/
theorem rc_rv_tail (fs : String → NcFile α) (Mu Mv z : α) (n : Int) (s : RdSt α) :
    retVal (fun s => s.retUV.map (fun uv => (uv, s.o)))
        (runBlocks (rvInterp fs Mu Mv z n) (runDepth (rvInterp fs Mu Mv z n) 2) rc_rvTail s) =
      some ((rc_rvRead fs Mu Mv s.o n).map (fun uv => (uv, s.o))) := by
  have k1 : ("assign" = "return") = False := by decide
  have k2 : ("expr" = "return") = False := by decide
  have l1 : (rvInterp fs Mu Mv z n).isLoop "self.scaled['u']" = false := rfl
  have c1 : ∀ s : RdSt α, (rvInterp fs Mu Mv z n).cond s "self.scaled['u']" =
    some (s.o.scaled.lookup "u" == some true, s) := fun _ => rfl
  have s1 : ∀ s : RdSt α, (rvInterp fs Mu Mv z n).step s "assign" "frame = self.frame_idx[n]" =
    some ((s.o.frameIdx.lookup n).map (fun k => { s with frame := k })) := fun _ => rfl
  have s2 : ∀ s : RdSt α, (rvInterp fs Mu Mv z n).step s "assign"
    "U = self._nc.variables['u'][frame, :, self._grid.Ju, self._grid.Iu]" =
    some (s.o.nc.map (fun f => { s with U := (fs f).var "u" s.frame })) := fun _ => rfl
  have s3 : ∀ s : RdSt α, (rvInterp fs Mu Mv z n).step s "assign"
    "V = self._nc.variables['v'][frame, :, self._grid.Jv, self._grid.Iv]" =
    some (s.o.nc.map (fun f => { s with V := (fs f).var "v" s.frame })) := fun _ => rfl
  have s4 : ∀ s : RdSt α, (rvInterp fs Mu Mv z n).step s "assign" "U = self.scale_factor['u'] * U" =
    some ((s.o.scaleFactor.lookup "u").map (fun c => { s with U := c * s.U })) := fun _ => rfl
  have s5 : ∀ s : RdSt α, (rvInterp fs Mu Mv z n).step s "assign" "V = self.scale_factor['v'] * V" =
    some ((s.o.scaleFactor.lookup "v").map (fun c => { s with V := c * s.V })) := fun _ => rfl
  have s6 : ∀ s : RdSt α, (rvInterp fs Mu Mv z n).step s "expr" "np.multiply(U, self._grid.Mu, out=U)" =
    some (some { s with U := s.U * Mu }) := fun _ => rfl
  have s7 : ∀ s : RdSt α, (rvInterp fs Mu Mv z n).step s "expr" "np.multiply(V, self._grid.Mv, out=V)" =
    some (some { s with V := s.V * Mv }) := fun _ => rfl
  have s8 : ∀ s : RdSt α, (rvInterp fs Mu Mv z n).step s "return" "(U, V)" =
    some (some { s with retUV := some (s.U, s.V) }) := fun _ => rfl
  unfold rc_rvTail rc_rvRead
  simp only [runBlocks, guardEnter, s1, k1, if_false]
  cases hk : s.o.frameIdx.lookup n with
  | none => rfl
  | some k =>
    simp only [Option.map_some, s2]
    cases hf : s.o.nc with
    | none => rfl
    | some f =>
      simp only [Option.map_some, s3, hf, k1, if_false, l1, c1, Bool.false_eq_true]
      cases hsc : (s.o.scaled.lookup "u" == some true)
      · simp [s6, s7, s8, k2, retVal]
      · simp only [beq_self_eq_true, if_true, s4]
        cases hu : s.o.scaleFactor.lookup "u" with
        | none => rfl
        | some cu =>
          simp only [Option.map_some, k1, if_false, hsc, beq_self_eq_true, if_true, s5]
          cases hv : s.o.scaleFactor.lookup "v" with
          | none => rfl
          | some cv => simp [s6, s7, s8, k2, retVal]

/-- `_read_velocity(n)` in closed form: the open / close logic, then the read from the dataset that is open then -/
def rc_readVelSpec (fs : String → NcFile α) (Mu Mv : α) (o : FObj α) (n : Int) : Option (Option ((α × α) × FObj α)) :=
  match rc_rvOpen fs o n with
  | none => some none
  | some o1 => some ((rc_rvRead fs Mu Mv o1 n).map (fun uv => (uv, o1)))

set_option maxRecDepth 100000 in
/-- **`Forcing._read_velocity(n)`** (`Gen.forcing_read_velocity_seq`) -/
theorem forcing_read_velocity (fs : String → NcFile α) (Mu Mv z : α) (o : FObj α) (n : Int) :
    readVelocitySeq fs Mu Mv z o n = rc_readVelSpec fs Mu Mv o n := by
  have k2 : ("expr" = "return") = False := by decide
  have l1 : (rvInterp fs Mu Mv z n).isLoop "not self._nc" = false := rfl
  have l2 : (rvInterp fs Mu Mv z n).isLoop "self.frame_idx[n] == 0" = false := rfl
  have c1 : ∀ s : RdSt α, (rvInterp fs Mu Mv z n).cond s "not self._nc" = some (s.nc0.isNone, s) := fun _ => rfl
  have c2 : ∀ s : RdSt α, (rvInterp fs Mu Mv z n).cond s "self.frame_idx[n] == 0" =
    some (s.o.frameIdx.lookup n == some 0, s) := fun _ => rfl
  have s1 : ∀ s : RdSt α, (rvInterp fs Mu Mv z n).step s "expr"
    "logging.info('Reading velocity for time step = {}'.format(n))" = some (some s) := fun _ => rfl
  have s2 : ∀ s : RdSt α, (rvInterp fs Mu Mv z n).step s "expr" "self.open_forcing_file(n)" =
    Nest.lift (openFileSeq fs z s.o n) (fun o' => { s with o := o' }) := fun _ => rfl
  have s3 : ∀ s : RdSt α, (rvInterp fs Mu Mv z n).step s "expr" "self._nc.close()" =
    some (s.o.nc.map (fun f => { s with o := { s.o with closed := s.o.closed ++ [f] } })) := fun _ => rfl
  unfold readVelocitySeq rc_readVelSpec rc_rvOpen
  rw [rc_nest_run_eq _ _ _ (rc_rv_known fs Mu Mv z n _), rc_rv_blocks]
  generalize ht : rc_rvTail = tail
  cases hnc : o.nc with
  | none =>
    cases hl : o.fileIdx.lookup n with
    | none =>
      simp [runBlocks, guardEnter, s1, k2, l1, l2, c1, c2, s2, s3, forcing_open_file, RdSt.init, hnc, hl, Nest.lift,
        retVal]
    | some f =>
      simp only [runBlocks, guardEnter, s1, k2, l1, l2, c1, c2, s2, s3, forcing_open_file, RdSt.init, hnc, hl,
        Nest.lift, Option.isNone_none, beq_self_eq_true, if_true, if_false, Bool.false_eq_true, Option.map_some,
        show (true == false) = false from rfl]
      subst ht
      rw [rc_rv_tail]
  | some g =>
    cases hz : (o.frameIdx.lookup n == some 0)
    · simp only [runBlocks, guardEnter, s1, k2, l1, l2, c1, c2, s2, s3, forcing_open_file, RdSt.init, hnc, hz,
        Nest.lift, Option.isNone_some, beq_self_eq_true, if_true, if_false, Bool.false_eq_true, Option.map_some,
        show (false == true) = false from rfl]
      subst ht
      rw [rc_rv_tail]
    · cases hl : o.fileIdx.lookup n with
      | none =>
        simp [runBlocks, guardEnter, s1, k2, l1, l2, c1, c2, s2, s3, forcing_open_file, RdSt.init, hnc, hl, hz,
          Nest.lift, retVal]
      | some f =>
        simp only [runBlocks, guardEnter, s1, k2, l1, l2, c1, c2, s2, s3, forcing_open_file, RdSt.init, hnc, hl, hz,
          Nest.lift, Option.isNone_some, beq_self_eq_true, if_true, if_false, Bool.false_eq_true, Option.map_some,
          show (false == true) = false from rfl]
        subst ht
        rw [rc_rv_tail]

/-! ### `_read_field` -/

/-- `_read_field(name, n)` in closed form: frame `frame_idx[n]` of the dataset that is *open* (nothing is opened
here), `add_offset + scale_factor * raw` when `self.scaled[name]`.  `none` = the read raises -/
def rc_readFieldSpec (fs : String → NcFile α) (o : FObj α) (name : String) (n : Int) : Option α :=
  match o.frameIdx.lookup n, o.nc with
  | some k, some f =>
    if o.scaled.lookup name == some true then
      match o.addOffset.lookup name, o.scaleFactor.lookup name with
      | some a, some c => some (a + c * (fs f).var name k)
      | _, _ => none
    else some ((fs f).var name k)
  | _, _ => none

set_option maxRecDepth 100000 in
/-- **`Forcing._read_field(name, n)`** (`Gen.forcing_read_field_seq`) -/
theorem forcing_read_field (fs : String → NcFile α) (z : α) (o : FObj α) (name : String) (n : Int) :
    readFieldSeq fs z o name n = some (rc_readFieldSpec fs o name n) := by
  have hk : ∀ s : RdSt α, Gen.forcing_read_field_seq.all
    (stmtKnown ⟨Nest.ofAtom (rfAtom name), rfStep fs name n, fun _ => false, fun _ _ => []⟩ s) = true := fun _ => rfl
  have hb : Loops.blocks (fun _ => false) Gen.forcing_read_field_seq = [
    .plain ([], "assign", "frame = self.frame_idx[n]"),
    .plain ([], "assign", "F = self._nc.variables[name][frame, :, self._grid.J, self._grid.I]"),
    .plain ([(true, "self.scaled[name]")], "assign", "F = self.add_offset[name] + self.scale_factor[name] * F"),
    .plain ([], "return", "F")] := rfl
  have k1 : ("assign" = "return") = False := by decide
  have c1 : ∀ s : RdSt α, Nest.ofAtom (rfAtom name) s "self.scaled[name]" =
    some (s.o.scaled.lookup name == some true, s) := fun _ => rfl
  have s1 : ∀ s : RdSt α, rfStep fs name n s "assign" "frame = self.frame_idx[n]" =
    some ((s.o.frameIdx.lookup n).map (fun k => { s with frame := k })) := fun _ => rfl
  have s2 : ∀ s : RdSt α, rfStep fs name n s "assign"
    "F = self._nc.variables[name][frame, :, self._grid.J, self._grid.I]" =
    some (s.o.nc.map (fun f => { s with F := (fs f).var name s.frame })) := fun _ => rfl
  have s3 : ∀ s : RdSt α, rfStep fs name n s "assign" "F = self.add_offset[name] + self.scale_factor[name] * F" =
    some (match s.o.addOffset.lookup name, s.o.scaleFactor.lookup name with
      | some a, some c => some { s with F := a + c * s.F }
      | _, _ => none) := fun _ => rfl
  have s4 : ∀ s : RdSt α, rfStep fs name n s "return" "F" = some (some { s with retF := some s.F }) := fun _ => rfl
  unfold readFieldSeq rc_readFieldSpec
  rw [rc_nest_run_eq _ _ _ (hk _)]
  show retVal RdSt.retF (runBlocks _ _ (Loops.blocks (fun _ => false) Gen.forcing_read_field_seq) _) = _
  rw [hb]
  simp only [runBlocks, guardEnter, s1, k1, if_false, RdSt.init, Bool.false_eq_true]
  cases hkk : o.frameIdx.lookup n with
  | none => rfl
  | some k =>
    simp only [Option.map_some, s2]
    cases hf : o.nc with
    | none => rfl
    | some f =>
      simp only [Option.map_some, k1, if_false, c1]
      cases hsc : (o.scaled.lookup name == some true)
      · simp [s4, retVal]
      · simp only [beq_self_eq_true, if_true, s3]
        cases ha : o.addOffset.lookup name with
        | none => rfl
        | some a =>
          cases hc : o.scaleFactor.lookup name with
          | none => rfl
          | some c => simp [s4, retVal]

/-! ### what the readers serve -/

theorem rc_lookup_filterMap_fn {ν : Type} (h : String → Option ν) (k : String) : ∀ (ks : List String), k ∈ ks →
    (ks.filterMap (fun k => (h k).map (fun v => (k, v)))).lookup k = h k
  | [], hk => by cases hk
  | a :: ks, hk => by
    by_cases hka : k = a
    · subst hka
      cases hh : h k with
      | none =>
        simp only [List.filterMap_cons, hh, Option.map_none]
        rw [List.lookup_eq_none_iff]
        intro p hp
        simp only [List.mem_filterMap] at hp
        obtain ⟨b, _, hb⟩ := hp
        cases hhb : h b with
        | none => rw [hhb] at hb; cases hb
        | some v =>
          rw [hhb] at hb
          simp only [Option.map_some, Option.some.injEq] at hb
          subst hb
          simp only [bne_iff_ne, ne_eq]
          intro e; subst e; rw [hh] at hhb; cases hhb
      | some v => simp [List.filterMap_cons, hh, List.lookup_cons]
    · have hk' : (k == a) = false := by simpa using hka
      have hmem : k ∈ ks := by
        rcases List.mem_cons.mp hk with h' | h'
        · exact absurd h' hka
        · exact h'
      cases hh : h a with
      | none =>
        simp only [List.filterMap_cons, hh, Option.map_none]
        exact rc_lookup_filterMap_fn h k ks hmem
      | some v =>
        simp only [List.filterMap_cons, hh, Option.map_some, List.lookup_cons, hk']
        exact rc_lookup_filterMap_fn h k ks hmem

/-- after `open_forcing_file` has opened `f`: the scaling entries of every forcing variable are those of `f` -/
theorem rc_openFileObj_lookup (fs : String → NcFile α) (o : FObj α) (f : String) (k : String)
    (hk : k ∈ "u" :: "v" :: o.ibm) :
    (rc_openFileObj fs o f).scaled.lookup k = some ((fs f).scale k).isSome ∧
    (rc_openFileObj fs o f).scaleFactor.lookup k = ((fs f).scale k).map (fun sc => narrow sc.1) ∧
    (rc_openFileObj fs o f).addOffset.lookup k = ((fs f).scale k).map (fun sc => narrow sc.2) := by
  have hr : k ∈ ("u" :: "v" :: o.ibm).reverse := List.mem_reverse.mpr hk
  refine ⟨?_, ?_, ?_⟩
  · show (dictOf (("u" :: "v" :: o.ibm).map (fun k => (k, ((fs f).scale k).isSome)))).lookup k = _
    rw [rc_lookup_dictOf, ← List.map_reverse]
    exact rc_lookup_map_fn (fun k => ((fs f).scale k).isSome) k _ hr
  · show (dictOf (("u" :: "v" :: o.ibm).filterMap
      (fun k => ((fs f).scale k).map (fun sc => (k, narrow sc.1))))).lookup k = _
    rw [rc_lookup_dictOf, ← List.filterMap_reverse]
    have e : (fun k => ((fs f).scale k).map (fun sc => (k, narrow sc.1))) =
        (fun k => (((fs f).scale k).map (fun sc => narrow sc.1)).map (fun v => (k, v))) := by
      funext k; simp [Option.map_map, Function.comp_def]
    rw [e]
    exact rc_lookup_filterMap_fn (fun k => ((fs f).scale k).map (fun sc => narrow sc.1)) k _ hr
  · show (dictOf (("u" :: "v" :: o.ibm).filterMap
      (fun k => ((fs f).scale k).map (fun sc => (k, narrow sc.2))))).lookup k = _
    rw [rc_lookup_dictOf, ← List.filterMap_reverse]
    have e : (fun k => ((fs f).scale k).map (fun sc => (k, narrow sc.2))) =
        (fun k => (((fs f).scale k).map (fun sc => narrow sc.2)).map (fun v => (k, v))) := by
      funext k; simp [Option.map_map, Function.comp_def]
    rw [e]
    exact rc_lookup_filterMap_fn (fun k => ((fs f).scale k).map (fun sc => narrow sc.2)) k _ hr

/-- the velocity of frame `k` of file `f` as `_read_velocity` serves it: the raw values, times `float32(scale_factor)`
when `u` has that attribute (then `v` must have it, too: `KeyError` otherwise = `none`; `add_offset` is ignored),
times the land masks -/
def rc_frameVel (fs : String → NcFile α) (Mu Mv : α) (f : String) (k : Nat) : Option (α × α) :=
  match (fs f).scale "u" with
  | none => some ((fs f).var "u" k * Mu, (fs f).var "v" k * Mv)
  | some su =>
    match (fs f).scale "v" with
    | some sv => some (narrow su.1 * (fs f).var "u" k * Mu, narrow sv.1 * (fs f).var "v" k * Mv)
    | none => none

/-- the field `name` of frame `k` of file `f` as `_read_field` serves it -/
def rc_frameField (fs : String → NcFile α) (f name : String) (k : Nat) : α :=
  match (fs f).scale name with
  | none => (fs f).var name k
  | some sc => narrow sc.2 + narrow sc.1 * (fs f).var name k

/-- a read right after `open_forcing_file` opened `f` serves frame `frame_idx[n]` of `f` -/
theorem rc_rvRead_openFileObj (fs : String → NcFile α) (Mu Mv : α) (o : FObj α) (f : String) (n : Int) (k : Nat)
    (hk : o.frameIdx.lookup n = some k) :
    rc_rvRead fs Mu Mv (rc_openFileObj fs o f) n = rc_frameVel fs Mu Mv f k := by
  obtain ⟨hu1, hu2, _⟩ := rc_openFileObj_lookup fs o f "u" (by simp)
  obtain ⟨_, hv2, _⟩ := rc_openFileObj_lookup fs o f "v" (by simp)
  have hfi : (rc_openFileObj fs o f).frameIdx = o.frameIdx := rfl
  have hnc : (rc_openFileObj fs o f).nc = some f := rfl
  unfold rc_rvRead rc_frameVel
  rw [hfi, hk, hnc, hu1, hu2, hv2]
  cases hsu : (fs f).scale "u" with
  | none => simp
  | some su => cases hsv : (fs f).scale "v" <;> simp

theorem rc_readFieldSpec_openFileObj (fs : String → NcFile α) (o : FObj α) (f name : String) (n : Int) (k : Nat)
    (hk : o.frameIdx.lookup n = some k) (hname : name ∈ "u" :: "v" :: o.ibm) :
    rc_readFieldSpec fs (rc_openFileObj fs o f) name n = some (rc_frameField fs f name k) := by
  obtain ⟨h1, h2, h3⟩ := rc_openFileObj_lookup fs o f name hname
  have hfi : (rc_openFileObj fs o f).frameIdx = o.frameIdx := rfl
  have hnc : (rc_openFileObj fs o f).nc = some f := rfl
  unfold rc_readFieldSpec rc_frameField
  rw [hfi, hk, hnc, h1, h2, h3]
  cases hs : (fs f).scale name <;> simp

/-- **first read, or first frame of a file**: `_read_velocity(n)` opens `file_idx[n]` (after closing the dataset that
was open, if any) and returns frame `frame_idx[n]` of that file -/
theorem forcing_read_velocity_opens (fs : String → NcFile α) (Mu Mv z : α) (o : FObj α) (n : Int) (f : String)
    (k : Nat) (hf : o.fileIdx.lookup n = some f) (hk : o.frameIdx.lookup n = some k)
    (hopen : o.nc = none ∨ k = 0) :
    readVelocitySeq fs Mu Mv z o n =
      some ((rc_frameVel fs Mu Mv f k).map (fun uv =>
        (uv, rc_openFileObj fs (match o.nc with | none => o | some g => { o with closed := o.closed ++ [g] }) f))) := by
  rw [forcing_read_velocity]
  unfold rc_readVelSpec rc_rvOpen
  cases hnc : o.nc with
  | none =>
    simp only [hf, Option.map_some]
    rw [rc_rvRead_openFileObj fs Mu Mv o f n k hk]
  | some g =>
    have hk0 : k = 0 := by
      rcases hopen with h | h
      · rw [hnc] at h; cases h
      · exact h
    subst hk0
    simp only [hk, beq_self_eq_true, if_true, hf, Option.map_some]
    have := fun (o' : FObj α) (h : o'.frameIdx.lookup n = some 0) => rc_rvRead_openFileObj fs Mu Mv o' f n 0 h
    rw [this]
    exact hk

/-- **a later frame**: when a dataset `g` is open (the object is as `open_forcing_file` left it) and
`frame_idx[n] ≠ 0`, `_read_velocity(n)` returns frame `frame_idx[n]` of the *open* file `g` — `file_idx[n]` is not
looked at — and leaves the object alone -/
theorem forcing_read_velocity_same_file (fs : String → NcFile α) (Mu Mv z : α) (o : FObj α) (g : String) (n : Int)
    (k : Nat) (hk : o.frameIdx.lookup n = some k) (hk0 : k ≠ 0) :
    readVelocitySeq fs Mu Mv z (rc_openFileObj fs o g) n =
      some ((rc_frameVel fs Mu Mv g k).map (fun uv => (uv, rc_openFileObj fs o g))) := by
  rw [forcing_read_velocity]
  unfold rc_readVelSpec rc_rvOpen
  have hnc : (rc_openFileObj fs o g).nc = some g := rfl
  have hfi : (rc_openFileObj fs o g).frameIdx = o.frameIdx := rfl
  have hne : (some k == some 0) = false := by simpa using hk0
  simp only [hnc, hfi, hk, hne, Bool.false_eq_true, if_false]
  rw [rc_rvRead_openFileObj fs Mu Mv o g n k hk]

/-- `_read_field(name, n)` on an object as `open_forcing_file` left it with `g` open: frame `frame_idx[n]` of the
*open* file `g` -/
theorem forcing_read_field_open (fs : String → NcFile α) (z : α) (o : FObj α) (g name : String) (n : Int) (k : Nat)
    (hk : o.frameIdx.lookup n = some k) (hname : name ∈ "u" :: "v" :: o.ibm) :
    readFieldSeq fs z (rc_openFileObj fs o g) name n = some (some (rc_frameField fs g name k)) := by
  rw [forcing_read_field, rc_readFieldSpec_openFileObj fs o g name n k hk hname]

end readers
end Bridge

namespace Bridge

/-! ## a read that does not come from `file_idx[n]` -/
namespace RomsReadFieldExample

local instance : HasNarrow Int := ⟨id⟩

/-- two files: `a.nc` with the single frame at the start time (fields 30), `b.nc` with frames 600 s and 1200 s later
(fields 130, 131); nothing is scaled -/
def fs : String → NcFile Int := fun f =>
  if f = "a.nc" then ⟨[0], fun _ k => 30 + k, fun _ => none⟩ else ⟨[600, 1200], fun _ k => 130 + k, fun _ => none⟩

def cfg : Config := ⟨["temp"], ⟨.list ["a.nc", "b.nc"], none, none⟩, 0, 1200, 600⟩

/-- the constructed object: steps `[0, 1, 2]`, `file_idx = {0: a, 1: b, 2: b}`, `frame_idx = {0: 0, 1: 0, 2: 1}` -/
def o0 : FObj Int := rc_ctorObj cfg ["a.nc", "b.nc"] ([0, 1, 2], [(0, "a.nc"), (1, "b.nc"), (2, "b.nc")], [(0, 0), (1, 0), (2, 1)])
def o1 : FObj Int := rc_openFileObj fs o0 "a.nc"
def o2 : FObj Int := rc_openFileObj fs { o1 with closed := ["a.nc"] } "b.nc"

set_option maxRecDepth 100000 in
/-- The simulation starts on the only frame of the first file.  `_remaining_initialization` (branch
`steps[0] == 0`) calls `_read_velocity(0)`, `_read_velocity(steps[1])` and then `_read_field(name, 0)`: the second
velocity read has moved on to `b.nc` (its `frame_idx` is 0), so the field "at step 0" is read from frame
`frame_idx[0] = 0` of `b.nc` — the field of step 1 (130), not that of step 0 (30 = `rc_frameField fs "a.nc" "temp" 0`). -/
theorem read_field_of_step_0_comes_from_next_file :
    ctorSeq (fun _ => []) fs cfg = some (some o0) ∧
    readVelocitySeq fs 1 1 0 o0 0 = some (some ((30, 30), o1)) ∧
    readVelocitySeq fs 1 1 0 o1 1 = some (some ((130, 130), o2)) ∧
    readFieldSeq fs 0 o2 "temp" 0 = some (some 130) ∧
    o2.fileIdx.lookup 0 = some "a.nc" ∧ rc_frameField fs "a.nc" "temp" 0 = 30 := by
  refine ⟨?_, ?_, ?_, ?_, rfl, rfl⟩
  · rw [forcing_ctor]; rfl
  · rw [forcing_read_velocity]; rfl
  · rw [forcing_read_velocity]; rfl
  · rw [forcing_read_field]; rfl

end RomsReadFieldExample
end Bridge

namespace Bridge

/-! ## the step table as the `Frames` of the C06 model -/

/-- with strictly increasing steps every frame is found under its own step: `file_idx[steps[k]]` is the file of frame
`k`, `frame_idx[steps[k]]` its position in that file -/
theorem rc_stepsTable_lookup_sorted (A : StepsArgs) (hs : C06.Sorted (rc_tableSteps A)) (k : Nat)
    (hk : k < (rc_frameLabels A.files A.numFrames).length) (hk' : k < (rc_tableSteps A).length) :
    (rc_stepsTable A).2.1.lookup (rc_tableSteps A)[k] = some (rc_frameLabels A.files A.numFrames)[k].1 ∧
    (rc_stepsTable A).2.2.lookup (rc_tableSteps A)[k] = some (rc_frameLabels A.files A.numFrames)[k].2 :=
  rc_stepsTable_lookup A k hk hk' (fun j hj hkj => by
    have := (List.pairwise_iff_getElem.mp hs) k j hk' hj hkj
    omega)

section frames
variable {α : Type} [Add α] [Mul α] [HasNarrow α]

/-- the input of the C06 model (`Roms.Frames`) that the step table and the readers define: the steps of the table;
`vel n` / `sc n` = the `u` velocity / the field `name` of frame `frame_idx[n]` of file `file_idx[n]` as the readers
serve them (`z` where the table has no entry or the read raises) -/
def rc_framesOfFiles (fs : String → NcFile α) (Mu Mv z : α) (name : String) (A : StepsArgs) : Roms.Frames α where
  steps := rc_tableSteps A
  vel := fun n =>
    match (rc_stepsTable A).2.1.lookup n, (rc_stepsTable A).2.2.lookup n with
    | some f, some k => ((rc_frameVel fs Mu Mv f k).map (·.1)).getD z
    | _, _ => z
  sc := fun n =>
    match (rc_stepsTable A).2.1.lookup n, (rc_stepsTable A).2.2.lookup n with
    | some f, some k => rc_frameField fs f name k
    | _, _ => z

/-- for strictly increasing steps `vel` / `sc` at the step of frame `k` are the values of frame `k` itself -/
theorem rc_framesOfFiles_at (fs : String → NcFile α) (Mu Mv z : α) (name : String) (A : StepsArgs)
    (hs : C06.Sorted (rc_tableSteps A)) (k : Nat) (hk : k < (rc_frameLabels A.files A.numFrames).length)
    (hk' : k < (rc_tableSteps A).length) :
    (rc_framesOfFiles fs Mu Mv z name A).vel (rc_tableSteps A)[k] =
      ((rc_frameVel fs Mu Mv (rc_frameLabels A.files A.numFrames)[k].1 (rc_frameLabels A.files A.numFrames)[k].2).map
        (·.1)).getD z ∧
    (rc_framesOfFiles fs Mu Mv z name A).sc (rc_tableSteps A)[k] =
      rc_frameField fs (rc_frameLabels A.files A.numFrames)[k].1 name (rc_frameLabels A.files A.numFrames)[k].2 := by
  obtain ⟨h1, h2⟩ := rc_stepsTable_lookup_sorted A hs k hk hk'
  simp only [rc_framesOfFiles, h1, h2]
  trivial

end frames
end Bridge
