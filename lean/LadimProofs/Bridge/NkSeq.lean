import LadimModel.Forcing.Nk800Seq
import LadimProofs.C13Buffer
/-!
# Bridge (C13) — NorKyst-800 forcing: the hand-written model *is* the statement sequences of the code

The generated sequences of `nk800met/gridforce.py` (`Gen.nk_update_seq`, `Gen.nk_velocity_seq`, `Gen.nk_get_var_seq`,
`Gen.nk_get_var1_seq`, `Gen.nk_sample_metric_seq`, `Gen.nk_sample_depth_seq`), interpreted by
`LadimModel/Forcing/Nk800Seq.lean` (every statement, condition and `return` text must be a known one), are the
functions of `LadimModel/Forcing/Nk800.lean`:

* `nk_update`: `current_time = timeOfStep start step t`;
* `nk_get_var1`: `_get_var` = `Nk800.getVar` (key `(name, hour string)`, frame = hour string), hypothesis `hload`:
  the `load` of the model at this key is the array read of the code (`dset[name][hour of day]` of the dataset of `time`);
* `nk_get_var`: `get_var` = two `_get_var` (at `time`, then at `time + 1 h`, the buffer threaded) and the weight
  `hourFractionUs time`;
* `nk_velocity`: after `update`, the request time is `subTimeUs start step t num den`; `'u'` then `'v'` at that same
  time and the same `k = z2k(z)`;
* `nk_velocity_full`: the whole chain with every callee interpreted, and the time blend `interpW w` for the weights `w`
  that `Gen.nk_interp` shows (`.backward` = the code as it is, known finding F-C13a; `.forward` = the repair);
  `velocityModel_valid`: on a valid buffer that is the blend of the backing-file fields of the hour and the next hour;
* `nk_sample_metric` (hypotheses `xmin = 0`, `ymin = 0`), `nk_sample_depth` (closed form; no model function exists).
-/

open Ladim Ladim.Seq Ladim.Nk800

set_option linter.unusedSimpArgs false
set_option linter.unusedVariables false
set_option linter.unusedSectionVars false
set_option linter.unusedTactic false
set_option linter.unreachableTactic false
namespace Bridge

/-! ### (a) `Forcing.update` -/

theorem nk_update (start step t : Int) (cur : Option Int) :
    updateSeq start step t cur = some (some (some (timeOfStep start step t))) := by
  simp [updateSeq, Gen.nk_update_seq, runStrictRet, guardVal, updStep, timeOfStep]

/-! ### (d) `OnlineDatabase._get_var` -/

section
variable {ν φ D : Type} [DecidableEq φ]

theorem nk_get_var1 (getDset : Int → D) (readVar : D → String → Int → ν) (hourStr : Int → φ)
    (load : String × φ → ν) (b : Buffer (String × φ) ν φ) (name : String) (time : Int)
    (hload : load (name, hourStr (hourOfUs time)) = readVar (getDset time) name (hourOfDayUs time)) :
    getVar1Seq getDset readVar hourStr b name time
      = some (some (getVar load Prod.snd b (name, hourStr (hourOfUs time)))) := by
  cases hc : b.contains (name, hourStr (hourOfUs time)) <;>
  simp [getVar1Seq, Gen.nk_get_var1_seq, runRet, stmtKnown, guardKnown, guardVal, gv1Atom, gv1Step, gv1Ret,
    Gv1St.init, getVar, hc, hload]

end

/-! ### (c) `OnlineDatabase.get_var` -/

theorem hour_fraction_us_eq (time : Int) :
    (time - hourOfUs time * hourUs, hourUs) = hourFractionUs time := by
  unfold hourOfUs hourUs hourFractionUs
  rw [Int.fdiv_eq_ediv_of_nonneg _ (by decide)]
  congr 1
  show time - time / 3600000000 * 3600000000 = time % 3600000000
  omega

theorem hour_of_next (time : Int) : hourOfUs (time + hourUs) = hourOfUs time + 1 := by
  unfold hourOfUs hourUs
  rw [Int.fdiv_eq_ediv_of_nonneg _ (by decide), Int.fdiv_eq_ediv_of_nonneg _ (by decide)]
  omega

section
variable {B V : Type}

theorem callInto_some {σ R : Type} (r : Option (B × R)) (k : B → R → σ) :
    callInto (some r) k = some (r.map (fun p => k p.1 p.2)) := by
  cases r with
  | none => rfl
  | some p => cases p; rfl

theorem nk_get_var (g : B → String → Int → Option (B × V)) (b : B) (name : String) (time : Int) :
    getVarSeq (fun b n t => some (g b n t)) b name time = some (getVarSpec g b name time) := by
  have hw := hour_fraction_us_eq time
  cases h1 : g b name time with
  | none =>
    simp [getVarSeq, Gen.nk_get_var_seq, runRet, stmtKnown, guardKnown, guardVal, gvAtom, gvStep, gvRet,
      callInto_some, getVarSpec, h1]
  | some r1 =>
    obtain ⟨b1, v1⟩ := r1
    cases h2 : g b1 name (time + hourUs) with
    | none =>
      simp [getVarSeq, Gen.nk_get_var_seq, runRet, stmtKnown, guardKnown, guardVal, gvAtom, gvStep, gvRet,
        callInto_some, getVarSpec, h1, h2]
    | some r2 =>
      obtain ⟨b2, v2⟩ := r2
      simp [getVarSeq, Gen.nk_get_var_seq, runRet, stmtKnown, guardKnown, guardVal, gvAtom, gvStep, gvRet,
        callInto_some, getVarSpec, h1, h2, hw]

end

/-! ### (b) `Forcing.velocity` -/

section
variable {B G K R X Z : Type}

theorem nk_velocity_cur (cfgStep num den : Int) (z2k : Z → K) (gv : B → String → Int → Option (B × G))
    (interp : G → X → X → K → R) (x y : X) (z : Z) (cur : Option Int) (db : B) :
    velocitySeq cfgStep num den z2k (fun b n t => some (gv b n t)) interp x y z cur db
      = some (cur.bind (fun c =>
          velocitySpec z2k gv interp x y z (c * 1000000 + roundDivHalfEven (cfgStep * num * 1000000) den) db)) := by
  cases cur with
  | none =>
    simp [velocitySeq, Gen.nk_velocity_seq, runRet, stmtKnown, guardKnown, guardVal, velAtom, velStep, velRet,
      callInto_some]
  | some c =>
    cases h1 : gv db "u" (c * 1000000 + roundDivHalfEven (cfgStep * num * 1000000) den) with
    | none =>
      simp [velocitySeq, Gen.nk_velocity_seq, runRet, stmtKnown, guardKnown, guardVal, velAtom, velStep, velRet,
        callInto_some, velocitySpec, h1]
    | some r1 =>
      obtain ⟨b1, g1⟩ := r1
      cases h2 : gv b1 "v" (c * 1000000 + roundDivHalfEven (cfgStep * num * 1000000) den) with
      | none =>
        simp [velocitySeq, Gen.nk_velocity_seq, runRet, stmtKnown, guardKnown, guardVal, velAtom, velStep, velRet,
          callInto_some, velocitySpec, h1, h2]
      | some r2 =>
        obtain ⟨b2, g2⟩ := r2
        simp [velocitySeq, Gen.nk_velocity_seq, runRet, stmtKnown, guardKnown, guardVal, velAtom, velStep, velRet,
          callInto_some, velocitySpec, h1, h2]

theorem nk_velocity (start step t num den : Int) (z2k : Z → K) (gv : B → String → Int → Option (B × G))
    (interp : G → X → X → K → R) (x y : X) (z : Z) (db : B) :
    velocitySeq step num den z2k (fun b n t => some (gv b n t)) interp x y z (some (timeOfStep start step t)) db
      = some (velocitySpec z2k gv interp x y z (subTimeUs start step t num den) db) := by
  rw [nk_velocity_cur]; rfl

end

/-! ### the call chain `velocity → get_var → _get_var` -/

section
variable {ν φ D : Type} [DecidableEq φ]

/-- `get_var` calling the interpreted `_get_var` is `getVarSpec` on the hand-written cached fetch -/
theorem nk_get_var_full (getDset : Int → D) (readVar : D → String → Int → ν) (hourStr : Int → φ)
    (load : String × φ → ν)
    (hload : ∀ n t, load (n, hourStr (hourOfUs t)) = readVar (getDset t) n (hourOfDayUs t))
    (b : Buffer (String × φ) ν φ) (name : String) (time : Int) :
    getVarFull getDset readVar hourStr b name time = some (getVarSpec (fetch load hourStr) b name time) := by
  have hcallee : (fun (b : Buffer (String × φ) ν φ) (n : String) (t : Int) =>
        (getVar1Seq getDset readVar hourStr b n t).map (fun r => r.bind served))
      = (fun b n t => some (fetch load hourStr b n t)) := by
    funext b n t
    rw [nk_get_var1 getDset readVar hourStr load b n t (hload n t)]
    rfl
  unfold getVarFull
  rw [hcallee, nk_get_var]

end

section
variable {α : Type} [Add α] [Sub α] [Mul α] [Div α] [OfScientific α] [HasOfInt α]

/-- the time blend of the generated `interp` is one of the two the model knows: `.backward` = the code as it is (known
finding F-C13a), `.forward` = its repair -/
theorem nk_interp_weights :
    ∃ w : Weights, ∀ v1 v2 q : α, Gen.nk_interp v1 v2 q = interpW w v1 v2 q := by
  first
  | exact ⟨.backward, fun _ _ _ => rfl⟩
  | exact ⟨.forward, fun _ _ _ => rfl⟩

variable {ν φ D K Z : Type} [DecidableEq φ]

/-- for the weights `w` that the generated formula shows -/
theorem nk_velocity_full_of (w : Weights) (hw : ∀ v1 v2 q : α, Gen.nk_interp v1 v2 q = interpW w v1 v2 q)
    (start step t num den : Int) (z2k : Z → K) (getDset : Int → D) (readVar : D → String → Int → ν)
    (hourStr : Int → φ) (load : String × φ → ν)
    (hload : ∀ n t, load (n, hourStr (hourOfUs t)) = readVar (getDset t) n (hourOfDayUs t))
    (sample : ν → K → α → α → α) (x y : α) (z : Z) (b : Buffer (String × φ) ν φ) :
    velocityFull step num den z2k getDset readVar hourStr sample x y z (some (timeOfStep start step t)) b
      = some (velocityModel w z2k load hourStr sample x y z (subTimeUs start step t num den) b) := by
  have hcallee : (getVarFull getDset readVar hourStr : Buffer (String × φ) ν φ → String → Int → _)
      = (fun b n t => some (getVarSpec (fetch load hourStr) b n t)) := by
    funext b n t
    exact nk_get_var_full getDset readVar hourStr load hload b n t
  have hblend : (Gen.nk_interp : α → α → α → α) = interpW w := by
    funext v1 v2 q; exact hw v1 v2 q
  unfold velocityFull velocityModel
  rw [hcallee, hblend, nk_velocity]

/-- `update(t)` followed by `velocity(x, y, z, num/den)`, every callee interpreted from its generated sequence, is the
hand-written chain at the time `subTimeUs start step t num den` with the time weights the generated formula shows -/
theorem nk_velocity_full :
    ∃ w : Weights, (∀ v1 v2 q : α, Gen.nk_interp v1 v2 q = interpW w v1 v2 q) ∧
      ∀ (start step t num den : Int) (z2k : Z → K) (getDset : Int → D) (readVar : D → String → Int → ν)
        (hourStr : Int → φ) (load : String × φ → ν)
        (hload : ∀ n t, load (n, hourStr (hourOfUs t)) = readVar (getDset t) n (hourOfDayUs t))
        (sample : ν → K → α → α → α) (x y : α) (z : Z) (b : Buffer (String × φ) ν φ),
        velocityFull step num den z2k getDset readVar hourStr sample x y z (some (timeOfStep start step t)) b
          = some (velocityModel w z2k load hourStr sample x y z (subTimeUs start step t num den) b) := by
  obtain ⟨w, hw⟩ := nk_interp_weights (α := α)
  exact ⟨w, hw, nk_velocity_full_of w hw⟩

end

/-! ### the chain on a valid buffer: no `KeyError`, every field is the value of the backing file -/

section
variable {ν φ : Type} [DecidableEq φ]

theorem fetch_valid (load : String × φ → ν) (hourStr : Int → φ) (b : Buffer (String × φ) ν φ) (name : String)
    (time : Int) (h : C13.Valid load b) :
    ∃ b', C13.Valid load b' ∧ fetch load hourStr b name time = some (b', load (name, hourStr (hourOfUs time))) := by
  obtain ⟨h1, h2⟩ := C13.getVar_transparent load Prod.snd b (name, hourStr (hourOfUs time)) h
  refine ⟨_, h2, ?_⟩
  unfold fetch served
  rw [h1]; rfl

theorem getVarSpec_valid (load : String × φ → ν) (hourStr : Int → φ) (b : Buffer (String × φ) ν φ) (name : String)
    (time : Int) (h : C13.Valid load b) :
    ∃ b', C13.Valid load b' ∧ getVarSpec (fetch load hourStr) b name time
      = some (b', (load (name, hourStr (hourOfUs time)), load (name, hourStr (hourOfUs time + 1))),
          hourFractionUs time) := by
  obtain ⟨b1, hv1, e1⟩ := fetch_valid load hourStr b name time h
  obtain ⟨b2, hv2, e2⟩ := fetch_valid load hourStr b1 name (time + hourUs) hv1
  refine ⟨b2, hv2, ?_⟩
  unfold getVarSpec
  rw [e1]; simp only [Option.bind_some]
  rw [e2, hour_of_next]; rfl

variable {α : Type} [Add α] [Sub α] [Mul α] [Div α] [OfScientific α] [HasOfInt α] {K Z : Type}

/-- on a valid buffer (`Buffer.empty` is one, and the chain keeps it valid) the modelled `velocity` returns, for `'u'`
and for `'v'`, the blend of the backing-file fields of the hour of `time` and of the next hour, weight
`hourFractionUs time` -/
theorem velocityModel_valid (w : Weights) (z2k : Z → K) (load : String × φ → ν) (hourStr : Int → φ)
    (sample : ν → K → α → α → α) (x y : α) (z : Z) (time : Int) (b : Buffer (String × φ) ν φ)
    (h : C13.Valid load b) :
    ∃ b', C13.Valid load b' ∧ velocityModel w z2k load hourStr sample x y z time b
      = some (b',
          interpArr (interpW w) sample
            ((load ("u", hourStr (hourOfUs time)), load ("u", hourStr (hourOfUs time + 1))), hourFractionUs time)
            x y (z2k z),
          interpArr (interpW w) sample
            ((load ("v", hourStr (hourOfUs time)), load ("v", hourStr (hourOfUs time + 1))), hourFractionUs time)
            x y (z2k z)) := by
  obtain ⟨b1, hv1, e1⟩ := getVarSpec_valid load hourStr b "u" time h
  obtain ⟨b2, hv2, e2⟩ := getVarSpec_valid load hourStr b1 "v" time hv1
  refine ⟨b2, hv2, ?_⟩
  unfold velocityModel velocitySpec
  rw [e1]; simp only [Option.bind_some]
  rw [e2]; rfl

end

/-! ### (e) `Grid.sample_metric`, `Grid.sample_depth` -/

section
variable {α β : Type} [HasRound α] [HasTrunc α]

/-- `xmin = ymin = 0` is what `Grid._init_gridlimits` assigns (not part of the sequence) -/
theorem nk_sample_metric (xmin xmax ymin ymax : Int) (dxArr dyArr : Int → β) (x y : α)
    (hx : xmin = 0) (hy : ymin = 0) :
    sampleMetricSeq xmin xmax ymin ymax dxArr dyArr x y
      = some (some (dxArr (metricIndex (xmax - 2) (roundInt x)), dyArr (metricIndex (ymax - 2) (roundInt y)))) := by
  subst hx hy
  simp [sampleMetricSeq, Gen.nk_sample_metric_seq, runRet, stmtKnown, guardKnown, guardVal, metAtom, metStep, metRet,
    clipInt, metricIndex]

/-- self-contained (the hand-written model has no `sample_depth`): row `round(y)`, column `round(x)`, no clipping -/
theorem nk_sample_depth (hArr : Int → Int → β) (x y : α) :
    sampleDepthSeq hArr x y = some (some (hArr (roundInt y) (roundInt x))) := by
  simp [sampleDepthSeq, Gen.nk_sample_depth_seq, runRet, stmtKnown, guardKnown, guardVal, depAtom, depStep, depRet]

end
end Bridge
