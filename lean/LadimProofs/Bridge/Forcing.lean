import LadimProofs.Basic
import LadimModel.Forcing.RomsSeq
/-!
# Bridge (C06, C14) — the forcing state machine *is* the code

`Gen.forcing_init_seq` and `Gen.forcing_step_seq` are the statements of `Forcing._remaining_initialization` and
`Forcing._update_one_step` (guards, order, text), regenerated from /repo on every run.  Interpreted statement by
statement (`LadimModel/Forcing/RomsSeq.lean`; an unknown statement or condition makes the run fail) they are exactly
`Roms.init` and `Roms.updateOne`, the functions the C06 theorems are about.  In addition the diagnosed vertical
velocity, which the code carries through the same machine (`W`, `Wnew`, `dW`), stays the image of the horizontal
velocity under `compute_w` at every step of every schedule, because `compute_w` is linear (C14).
-/
open Ladim

set_option linter.unusedSectionVars false
set_option linter.unusedVariables false
namespace Bridge
variable {α : Type} [Field α] [LinearOrder α] [IsStrictOrderedRing α] [HasOfInt α]

open Seq

theorem forcing_step (fr : Roms.Frames α) (cw : α → α) (t last : Int) (s : FSt α)
    (hnext : fr.steps.contains (t - 1) = true → (Roms.nextStep fr.steps (t - 1)).isSome = true) :
    (run (stepAtom fr t) (stepStep fr cw t) Gen.forcing_step_seq s).map (fun r => r.roms t)
      = some (Roms.updateOne fr (s.roms last) t) := by
  cases h1 : fr.steps.contains (t - 1) <;> cases h2 : fr.steps.contains t
  · simp_all [Gen.forcing_step_seq, run, guardVal, stepAtom, stepStep, Roms.updateOne, FSt.roms]
  · simp_all [Gen.forcing_step_seq, run, guardVal, stepAtom, stepStep, Roms.updateOne, FSt.roms]
  · obtain ⟨nx, hnx⟩ := Option.isSome_iff_exists.mp (hnext h1)
    simp_all [Gen.forcing_step_seq, run, guardVal, stepAtom, stepStep, Roms.updateOne, FSt.roms]
  · obtain ⟨nx, hnx⟩ := Option.isSome_iff_exists.mp (hnext h1)
    simp_all [Gen.forcing_step_seq, run, guardVal, stepAtom, stepStep, Roms.updateOne, FSt.roms]


theorem forcing_init (fr : Roms.Frames α) (cw : α → α) (z : α) :
    (run (initAtom fr) (initStep fr cw) Gen.forcing_init_seq (FSt.blank z)).map (fun r => r.roms (-1))
      = Roms.init .stepdiff .next fr := by
  unfold Roms.init
  cases hp : Roms.prestepOf fr.steps with
  | some p =>
    cases hn : Roms.nextStep fr.steps p with
    | none => simp_all [Gen.forcing_init_seq, run, guardVal, initAtom, initStep, FSt.roms, FSt.blank]
    | some nx => simp_all [Gen.forcing_init_seq, run, guardVal, initAtom, initStep, FSt.roms, FSt.blank]
  | none =>
    rcases hs : fr.steps with _ | ⟨a, _ | ⟨b, rest⟩⟩
    · simp_all [Gen.forcing_init_seq, run, guardVal, initAtom, initStep, FSt.roms, FSt.blank]
    · by_cases ha : a = 0 <;>
        simp_all [Gen.forcing_init_seq, run, guardVal, initAtom, initStep, FSt.roms, FSt.blank]
    · by_cases ha : a = 0 <;>
        simp_all [Gen.forcing_init_seq, run, guardVal, initAtom, initStep, FSt.roms, FSt.blank]


theorem forcing_step_explicit (fr : Roms.Frames α) (cw : α → α) (t : Int) (s : FSt α)
    (hnext : fr.steps.contains (t - 1) = true → (Roms.nextStep fr.steps (t - 1)).isSome = true) :
    run (stepAtom fr t) (stepStep fr cw t) Gen.forcing_step_seq s = some (stepExplicit fr cw t s) := by
  cases h1 : fr.steps.contains (t - 1) <;> cases h2 : fr.steps.contains t
  · simp_all [Gen.forcing_step_seq, run, guardVal, stepAtom, stepStep, stepExplicit]
  · simp_all [Gen.forcing_step_seq, run, guardVal, stepAtom, stepStep, stepExplicit]
  · obtain ⟨nx, hnx⟩ := Option.isSome_iff_exists.mp (hnext h1)
    simp_all [Gen.forcing_step_seq, run, guardVal, stepAtom, stepStep, stepExplicit]
  · obtain ⟨nx, hnx⟩ := Option.isSome_iff_exists.mp (hnext h1)
    simp_all [Gen.forcing_step_seq, run, guardVal, stepAtom, stepStep, stepExplicit]

/-- `compute_w` as far as the state machine is concerned: a linear map of the horizontal velocity (`C14.compute_w` is
linear in `(u, v)`; this is the one-cell image of that statement) -/
structure LinearW (cw : α → α) : Prop where
  add : ∀ a b, cw (a + b) = cw a + cw b
  smul : ∀ c a, cw (c * a) = c * cw a

theorem LinearW.sub {cw : α → α} (h : LinearW cw) (a b : α) : cw (a - b) = cw a - cw b := by
  have : a - b = a + (-1) * b := by ring
  rw [this, h.add, h.smul]; ring

theorem LinearW.div {cw : α → α} (h : LinearW cw) (a c : α) : cw (a / c) = cw a / c := by
  have : a / c = c⁻¹ * a := by rw [div_eq_inv_mul]
  rw [this, h.smul, div_eq_inv_mul]

/-- the vertical velocity carried by the machine is the image of the horizontal velocity it carries -/
def WInv (cw : α → α) (s : FSt α) : Prop := s.W = cw s.U ∧ s.Wnew = cw s.Unew ∧ s.dW = cw s.dU

theorem forcing_step_W (fr : Roms.Frames α) (cw : α → α) (hl : LinearW cw) (t : Int) (s : FSt α) (h : WInv cw s) :
    WInv cw (stepExplicit fr cw t s) := by
  obtain ⟨hW, hWn, hdW⟩ := h
  unfold stepExplicit WInv
  cases h1 : fr.steps.contains (t - 1) <;> cases h2 : fr.steps.contains t <;>
    cases hn : Roms.nextStep fr.steps (t - 1) <;>
    simp_all [hl.add, hl.sub, hl.div]

/-- … at every step of every schedule: `Forcing.update` runs `_update_one_step` for consecutive steps -/
theorem forcing_steps_W (fr : Roms.Frames α) (cw : α → α) (hl : LinearW cw) (n : Nat) (start : Int) (s : FSt α)
    (h : WInv cw s) : WInv cw (stepsExplicit fr cw s start n) := by
  induction n generalizing s start with
  | zero => simpa [stepsExplicit] using h
  | succ n ih => exact ih _ _ (forcing_step_W fr cw hl start s h)

end Bridge
