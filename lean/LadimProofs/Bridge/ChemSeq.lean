import LadimModel.IBM.ChemSeq
import LadimProofs.Bridge.Seq
/-!
# Bridge (C05, C07, C20) — the methods of the chemicals IBM are the statement sequences of the code

`Gen.chem_*_seq` (guard, kind and text of every statement of `IBM.__init__`, `advect`, `kill_old`, `horzdiff`,
`diffuse_labolle`, `diffuse_const`, `reflect`, `clamp_to_seabed` of `chemicals/ibm.py`, regenerated from the current
source) are interpreted for one particle by `LadimModel/IBM/ChemSeq.lean` (strict runners: every statement, condition
and `return` expression must be a known text, also in branches not taken, in nested functions that are not called and
in a loop body that is not entered).  The order of the method calls in `update_ibm` is `Bridge.chem_update_seq`
(`LadimProofs/Bridge/Seq.lean`); the `chem_call_*` theorems below say that the `call` steps used there are the
interpretations of the method bodies.

* `chem_reflect_seq` = `Chemicals.reflect H z`; `chem_clamp_seq` = `fmin z H`; `chem_advect_seq` =
  `Chemicals.advect dt (depth x y) (wvel x y z) z`; no hypothesis.
* `chem_kill_old_seq`: `(age + dt, alive && age + dt ≤ L)` for EVERY particle when `lifespan = some L` — the generated
  window `Gen.chem_kill_old` (`Bridge.chem_kill_old`, `LadimProofs/Bridge/Age.lean`); the method raises for `None`.
* `chem_diffuse_const_seq`: supply `u :: rest` ↦ `(Chemicals.diffuseConst dt D H u z, rest, 1)`; empty supply: `some none`.
* `chem_diffuse_labolle_seq`: `(Chemicals.diffuseLabolle K vmax dz H (substeps dt vdt fuel 0) us z`, the supply without
  the draws used, their number`)`, hypothesis: the supply has a draw for every sub-step.  Pieces: `chem_labolle_split`
  (seven statements, the loop of eleven, nothing after it), `chem_z_coarse` (the bound `z_coarse` is
  `Chemicals.zCoarse`, both variants), `chem_sample_K`, `chem_labolle_trip` (one trip = `Chemicals.labolleSub` of length
  `min(dt, c + vdt) - c`), `chem_labolle_loop`.
* `chem_horzdiff_seq`: supply `ux :: uy :: rest` ↦ `Chemicals.horzdiffXY` (draw order X then Y, `dx` / `dy` of
  `sample_metric` at the old position), position kept and particle killed outside the grid (`chemHorzSpec`), `rest`,
  2 calls; `chem_compute_diff`: the nested function is `Chemicals.computeDiff`; `chem_horzdiff_seq_short`.
* `chem_ctor_seq`: the constructor is `Seq.chemCtorSpec`; `chem_ctor_atoms`, `chem_ctor_clamp`, `chem_update_of_ctor`:
  the attributes it sets, read by the conditions of `update_ibm` as Python reads them, select the rules of
  `Chemicals.update (a.config)`.

Except for `chem_update_of_ctor` only the operations of the scalar type are used (no field or order laws): the
statements hold for every scalar type, `Float` included.
-/
open Ladim Ladim.Seq Ladim.Chemicals

set_option linter.unusedSimpArgs false
set_option linter.unusedVariables false
set_option linter.unusedSectionVars false
namespace Bridge
variable {α : Type} [Add α] [Sub α] [Mul α] [Div α] [Neg α] [LT α] [DecidableLT α]
  [LE α] [DecidableLE α] [OfScientific α] [HasSqrt α] [HasFloor α] [HasRound α]

/-! ### `reflect`, `clamp_to_seabed` -/

theorem chem_reflect_seq (H z : α) : Seq.runChemReflect Gen.chem_reflect_seq H z = some (some (reflect H z)) := by
  by_cases h0 : z < 0.0 <;> by_cases hH : H < z <;>
  simp [Seq.runChemReflect, Gen.chem_reflect_seq, Seq.runFn, Seq.fnStmtKnown, Seq.fnGuardKnown, Seq.guardVal,
    Seq.chemNoAtom, Seq.chemNoRet, Seq.chemReflStep, Seq.ChemReflSt.init, reflect, h0, hH]

theorem chem_clamp_seq (H z : α) : Seq.runChemClamp Gen.chem_clamp_seq H z = some (some (fmin z H)) := by
  simp [Seq.runChemClamp, Gen.chem_clamp_seq, Seq.runFn, Seq.fnStmtKnown, Seq.fnGuardKnown, Seq.guardVal,
    Seq.chemNoAtom, Seq.chemNoRet, Seq.chemClampStep]

theorem chem_advect_seq (e : Env α) (dt x y z : α) :
    Seq.runChemAdvect Gen.chem_advect_seq e dt x y z = some (some (advect dt (e.depth x y) (e.wvel x y z) z)) := by
  simp [Seq.runChemAdvect, Gen.chem_advect_seq, Seq.runFn, Seq.fnStmtKnown, Seq.fnGuardKnown, Seq.guardVal,
    Seq.chemNoAtom, Seq.chemNoRet, Seq.chemAdvStep, Seq.chemLiftZ, Seq.chemReflectSeq, chem_reflect_seq, advect]

theorem chem_kill_old_seq (dt : α) (lifespan : Option α) (age : α) (alive : Bool) :
    Seq.runChemKillOld Gen.chem_kill_old_seq dt lifespan age alive
      = some (lifespan.map (fun L => (age + dt, alive && decide (age + dt ≤ L)))) := by
  cases lifespan <;>
  simp [Seq.runChemKillOld, Gen.chem_kill_old_seq, Seq.runFn, Seq.fnStmtKnown, Seq.fnGuardKnown, Seq.guardVal,
    Seq.chemNoAtom, Seq.chemNoRet, Seq.chemKillStep]

theorem chem_diffuse_const_seq (dt D H u : α) (rest : List α) (z : α) :
    Seq.runChemDiffuseConst Gen.chem_diffuse_const_seq dt D H (u :: rest) z
      = some (some (diffuseConst dt D H u z, rest, 1)) := by
  simp [Seq.runChemDiffuseConst, Gen.chem_diffuse_const_seq, Seq.runFn, Seq.fnStmtKnown, Seq.fnGuardKnown, Seq.guardVal,
    Seq.chemNoAtom, Seq.chemNoRet, Seq.chemDcStep, Seq.chemLiftZ, Seq.chemReflectSeq, chem_reflect_seq, diffuseConst,
    uniformDW]

theorem chem_diffuse_const_seq_nil (dt D H z : α) :
    Seq.runChemDiffuseConst Gen.chem_diffuse_const_seq dt D H [] z = some none := by
  simp [Seq.runChemDiffuseConst, Gen.chem_diffuse_const_seq, Seq.runFn, Seq.fnStmtKnown, Seq.fnGuardKnown, Seq.guardVal,
    Seq.chemNoAtom, Seq.chemNoRet, Seq.chemDcStep, Seq.chemLiftZ, Seq.chemReflectSeq, chem_reflect_seq]

/-! ### `horzdiff` -/

set_option maxRecDepth 100000 in
theorem chem_horzdiff_inner : Seq.chemDefBody [(true, "def compute_diff")] Gen.chem_horzdiff_seq = [
    ([], "assign", "K = self.forcing.forcing.horzdiff(xx, yy, zz)"),
    ([], "assign", "K = np.maximum(self.horzdiff_min, np.minimum(self.horzdiff_max, K))"),
    ([], "return", "np.sqrt(2 * K)")] := by
  decide

set_option maxRecDepth 100000 in
theorem chem_horzdiff_outer : Seq.chemOuter ["def compute_diff"] Gen.chem_horzdiff_seq = [
    ([], "assign", "x = self.state.X"),
    ([], "assign", "y = self.state.Y"),
    ([], "assign", "z = self.state.Z"),
    ([], "assign", "dt = self.dt"),
    ([], "assign", "dx, dy = self.grid.sample_metric(x, y)"),
    ([], "def", "compute_diff(xx, yy, zz)"),
    ([], "assign", "dWx = (np.random.rand(len(z)) * 2 - 1) * np.sqrt(3 * dt) / dx"),
    ([], "assign", "diff1x = compute_diff(x, y, z)"),
    ([], "assign", "x1 = x + diff1x * dWx"),
    ([], "assign", "diff2x = compute_diff(x1, y, z)"),
    ([], "assign", "x2 = x + diff2x * dWx"),
    ([], "assign", "dWy = (np.random.rand(len(z)) * 2 - 1) * np.sqrt(3 * dt) / dy"),
    ([], "assign", "diff1y = compute_diff(x2, y, z)"),
    ([], "assign", "y1 = y + diff1y * dWy"),
    ([], "assign", "diff2y = compute_diff(x2, y1, z)"),
    ([], "assign", "y2 = y + diff2y * dWy"),
    ([], "assign", "in_grid = self.grid.ingrid(x2, y2)"),
    ([], "assign", "self.state['X'][in_grid] = x2[in_grid]"),
    ([], "assign", "self.state['Y'][in_grid] = y2[in_grid]"),
    ([], "assign", "self.state.alive[~in_grid] = False")] := by
  decide

/-- the nested `compute_diff` is `Chemicals.computeDiff` on the sampled diffusivity -/
theorem chem_compute_diff (e : Env α) (hmin hmax xx yy zz : α) :
    Seq.chemComputeDiffRun (Seq.chemDefBody [(true, "def compute_diff")] Gen.chem_horzdiff_seq) e hmin hmax xx yy zz
      = some (some (computeDiff hmin hmax (e.hdiff xx yy zz))) := by
  rw [chem_horzdiff_inner]
  simp [Seq.chemComputeDiffRun, Seq.runFn, Seq.fnStmtKnown, Seq.fnGuardKnown, Seq.guardVal, Seq.chemNoAtom,
    Seq.chemCdStep, Seq.chemCdRet, computeDiff]

/-- what `horzdiff` does to one particle: the predictor / corrector step of the model, undone (and the particle
killed) when it leaves the grid -/
def chemHorzSpec (e : Env α) (hmin hmax dt z ux uy x y : α) (alive : Bool) : α × α × Bool :=
  let r := horzdiffXY (fun xx yy => e.hdiff xx yy z) hmin hmax dt (e.metric x y) (e.metricY x y) ux uy x y
  if e.ingrid r.x2 r.y2 then (r.x2, r.y2, alive) else (x, y, false)

set_option maxRecDepth 100000 in
theorem chem_horzdiff_seq (e : Env α) (hmin hmax dt z ux uy : α) (rest : List α) (x y : α) (alive : Bool) :
    Seq.runChemHorzdiff Gen.chem_horzdiff_seq e hmin hmax dt z (ux :: uy :: rest) x y alive
      = some (some ((chemHorzSpec e hmin hmax dt z ux uy x y alive).1, (chemHorzSpec e hmin hmax dt z ux uy x y alive).2.1,
          (chemHorzSpec e hmin hmax dt z ux uy x y alive).2.2, rest, 2)) := by
  have hk : (Seq.chemDefBody [(true, "def compute_diff")] Gen.chem_horzdiff_seq).all
      (Seq.fnStmtKnown Seq.chemNoAtom (Seq.chemCdStep e hmin hmax) Seq.chemCdRet (⟨z, z, z, none⟩ : Seq.ChemCdSt α)) = true := by
    rw [chem_horzdiff_inner]
    simp [Seq.fnStmtKnown, Seq.fnGuardKnown, Seq.chemNoAtom, Seq.chemCdStep, Seq.chemCdRet]
  have hne : (Seq.chemDefBody [(true, "def compute_diff")] Gen.chem_horzdiff_seq).isEmpty = false := by
    rw [chem_horzdiff_inner]; rfl
  unfold Seq.runChemHorzdiff
  rw [chem_horzdiff_outer]
  by_cases hg : e.ingrid (horzdiffXY (fun xx yy => e.hdiff xx yy z) hmin hmax dt (e.metric x y) (e.metricY x y) ux uy x y).x2
      (horzdiffXY (fun xx yy => e.hdiff xx yy z) hmin hmax dt (e.metric x y) (e.metricY x y) ux uy x y).y2 = true <;>
  simp [horzdiffXY] at hg <;>
  simp [Seq.runFn, Seq.fnStmtKnown, Seq.fnGuardKnown, Seq.guardVal, Seq.chemNoAtom, Seq.chemNoRet, Seq.chemHzStep,
    Seq.chemHzCall, Seq.chemLocal, Seq.chemHzMove, Seq.ChemHzSt.init, chem_compute_diff, hk, hne, chemHorzSpec,
    horzdiffXY, hg]

theorem chem_horzdiff_seq_short (e : Env α) (hmin hmax dt z : α) (us : List α) (x y : α) (alive : Bool)
    (h : us.length < 2) :
    Seq.runChemHorzdiff Gen.chem_horzdiff_seq e hmin hmax dt z us x y alive = some none := by
  have hk : (Seq.chemDefBody [(true, "def compute_diff")] Gen.chem_horzdiff_seq).all
      (Seq.fnStmtKnown Seq.chemNoAtom (Seq.chemCdStep e hmin hmax) Seq.chemCdRet (⟨z, z, z, none⟩ : Seq.ChemCdSt α)) = true := by
    rw [chem_horzdiff_inner]
    simp [Seq.fnStmtKnown, Seq.fnGuardKnown, Seq.chemNoAtom, Seq.chemCdStep, Seq.chemCdRet]
  have hne : (Seq.chemDefBody [(true, "def compute_diff")] Gen.chem_horzdiff_seq).isEmpty = false := by
    rw [chem_horzdiff_inner]; rfl
  unfold Seq.runChemHorzdiff
  rw [chem_horzdiff_outer]
  match us, h with
  | [], _ =>
    simp [Seq.runFn, Seq.fnStmtKnown, Seq.fnGuardKnown, Seq.guardVal, Seq.chemNoAtom, Seq.chemNoRet, Seq.chemHzStep,
      Seq.chemHzCall, Seq.chemLocal, Seq.chemHzMove, Seq.ChemHzSt.init, chem_compute_diff, hk, hne]
  | [u], _ =>
    simp [Seq.runFn, Seq.fnStmtKnown, Seq.fnGuardKnown, Seq.guardVal, Seq.chemNoAtom, Seq.chemNoRet, Seq.chemHzStep,
      Seq.chemHzCall, Seq.chemLocal, Seq.chemHzMove, Seq.ChemHzSt.init, chem_compute_diff, hk, hne]
  | _ :: _ :: _, h => exact absurd h (by simp)

/-! ### `diffuse_labolle` -/

/-- the body of `z_coarse` under `if self.vertdiff_dz:` -/
def chemLabZcT : List Seq.Stmt := [
  ([], "assign", "dz = self.vertdiff_dz"),
  ([], "return", "np.maximum(0.25 * dz, (zz - 0.5 * dz) // dz * dz + dz)")]

/-- the body of `z_coarse` under `else:` -/
def chemLabZcF : List Seq.Stmt := [([], "return", "zz")]

/-- the body of `sample_K` -/
def chemLabSk : List Seq.Stmt := [
  ([], "assign", "kk = self.forcing.forcing.vertdiff(xx, yy, z_coarse(zz), self.D)"),
  ([], "return", "np.minimum(kk, self.vertdiff_max)")]

/-- the statements before the loop -/
def chemLabPre : List Seq.Stmt := [
  ([], "assign", "x = self.state.X"),
  ([], "assign", "y = self.state.Y"),
  ([], "assign", "H = self.grid.sample_depth(x, y)"),
  ([(true, "self.vertdiff_dz")], "def", "z_coarse(zz)"),
  ([(false, "self.vertdiff_dz")], "def", "z_coarse(zz)"),
  ([], "def", "sample_K(xx, yy, zz)"),
  ([], "assign", "current_time = 0")]

/-- the loop body -/
def chemLabBody : List Seq.Stmt := [
  ([], "assign", "old_time = current_time"),
  ([], "assign", "current_time = np.minimum(self.dt, current_time + self.vertdiff_dt)"),
  ([], "assign", "ddt = current_time - old_time"),
  ([], "assign", "z = self.state.Z"),
  ([], "assign", "dW = (np.random.rand(len(z)) * 2 - 1) * np.sqrt(3 * ddt)"),
  ([], "assign", "Z1 = z + np.sqrt(2 * sample_K(x, y, z)) * dW"),
  ([], "assign", "Z1[Z1 < 0] *= -1"),
  ([], "assign", "below_seabed = Z1 > H"),
  ([], "assign", "Z1[below_seabed] = 2 * H[below_seabed] - Z1[below_seabed]"),
  ([], "assign", "self.state['Z'] += np.sqrt(2 * sample_K(x, y, Z1)) * dW"),
  ([], "call", "reflect")]

set_option maxRecDepth 100000 in
theorem chem_labolle_zcT :
    Seq.chemDefBody [(true, "self.vertdiff_dz"), (true, "def z_coarse")] Gen.chem_diffuse_labolle_seq = chemLabZcT := by
  decide

set_option maxRecDepth 100000 in
theorem chem_labolle_zcF :
    Seq.chemDefBody [(false, "self.vertdiff_dz"), (true, "def z_coarse")] Gen.chem_diffuse_labolle_seq = chemLabZcF := by
  decide

set_option maxRecDepth 100000 in
theorem chem_labolle_sk : Seq.chemDefBody [(true, "def sample_K")] Gen.chem_diffuse_labolle_seq = chemLabSk := by
  decide

set_option maxRecDepth 100000 in
/-- the loop structure of the method: seven statements, then the `while current_time < self.dt` loop with eleven
statements, nothing after the loop -/
theorem chem_labolle_split :
    Seq.chemLoopPre (true, "while current_time < self.dt") (Seq.chemOuter Seq.chemLabDefs Gen.chem_diffuse_labolle_seq)
      = chemLabPre ∧
    Seq.chemLoopBody (true, "while current_time < self.dt") (Seq.chemOuter Seq.chemLabDefs Gen.chem_diffuse_labolle_seq)
      = chemLabBody ∧
    Seq.chemLoopPost (true, "while current_time < self.dt") (Seq.chemOuter Seq.chemLabDefs Gen.chem_diffuse_labolle_seq)
      = [] := by
  decide

/-- the function that the executed `def z_coarse` binds is `Chemicals.zCoarse` -/
theorem chem_z_coarse (dz zz : α) :
    Seq.chemZcClosure chemLabZcT chemLabZcF dz zz = some (some (zCoarse dz zz)) := by
  by_cases h : dz < 0.0 ∨ 0.0 < dz <;>
  simp [Seq.chemZcClosure, Seq.chemDzTruthy, Seq.chemZCoarseRun, chemLabZcT, chemLabZcF, Seq.runFn, Seq.fnStmtKnown,
    Seq.fnGuardKnown, Seq.guardVal, Seq.chemNoAtom, Seq.chemZcStep, Seq.chemZcRet, zCoarse, h]

/-- the nested `sample_K`: the diffusivity at the coarse depth, capped -/
theorem chem_sample_K (e : Env α) (vmax dz xx yy zz : α) :
    Seq.chemSampleKRun chemLabSk e vmax (some (Seq.chemZcClosure chemLabZcT chemLabZcF dz)) xx yy zz
      = some (some (fmin (e.vdiff xx yy (zCoarse dz zz)) vmax)) := by
  simp [Seq.chemSampleKRun, chemLabSk, Seq.runFn, Seq.fnStmtKnown, Seq.fnGuardKnown, Seq.guardVal, Seq.chemNoAtom,
    Seq.chemSkStep, Seq.chemSkRet, chem_z_coarse]

/-- the interpretation of the statements of `diffuse_labolle` with the bodies of the nested functions of the
generated sequence -/
abbrev chemLabStepGen (e : Env α) (dt vdt dz vmax x y : α) :=
  Seq.chemLabStep chemLabZcT chemLabZcF chemLabSk e dt vdt dz vmax x y

/-- the state on entry to the loop: `x`, `y`, `H`, the two nested functions and `current_time = 0` are bound -/
def chemLabEntry (e : Env α) (dz x y : α) (us : List α) (z : α) : Seq.ChemLabSt α :=
  ⟨z, us, 0, true, true, some (e.depth x y), some (Seq.chemZcClosure chemLabZcT chemLabZcF dz), true, some 0.0,
    none, none, false, none, none, none⟩

set_option maxRecDepth 100000 in
theorem chem_labolle_pre (e : Env α) (dt vdt dz vmax x y : α) (us : List α) (z : α) :
    Seq.runFn (Seq.chemLabAtom dz) (chemLabStepGen e dt vdt dz vmax x y) (fun _ _ => none) (fun s => some (some s))
      chemLabPre (Seq.ChemLabSt.init us z) = some (some (chemLabEntry e dz x y us z)) := by
  have hT : Seq.chemZcKnown chemLabZcT dz = true := by
    simp [Seq.chemZcKnown, chemLabZcT, Seq.fnStmtKnown, Seq.fnGuardKnown, Seq.chemNoAtom, Seq.chemZcStep, Seq.chemZcRet]
  have hF : Seq.chemZcKnown chemLabZcF dz = true := by
    simp [Seq.chemZcKnown, chemLabZcF, Seq.fnStmtKnown, Seq.fnGuardKnown, Seq.chemNoAtom, Seq.chemZcStep, Seq.chemZcRet]
  have hS : ∀ zc : Option (α → Option (Option α)), (chemLabSk.all (Seq.fnStmtKnown Seq.chemNoAtom
      (Seq.chemSkStep e (some (Seq.chemZcClosure chemLabZcT chemLabZcF dz))) (Seq.chemSkRet vmax)
      (⟨x, y, x, none⟩ : Seq.ChemSkSt α))) = true := by
    intro _
    simp [chemLabSk, Seq.fnStmtKnown, Seq.fnGuardKnown, Seq.chemNoAtom, Seq.chemSkStep, Seq.chemSkRet, chem_z_coarse]
  have hne : chemLabSk.isEmpty = false := rfl
  by_cases h : dz < 0.0 ∨ 0.0 < dz <;>
  simp [chemLabStepGen, chemLabPre, chemLabEntry, Seq.ChemLabSt.init, Seq.runFn, Seq.fnStmtKnown, Seq.fnGuardKnown,
    Seq.guardVal, Seq.chemLabAtom, Seq.chemDzTruthy, Seq.chemLabStep, hT, hF, hS none, hne, h]

/-- the state after one trip through the loop body that starts at time `c` with depth `z` and draw `u` -/
def chemLabAfter (e : Env α) (dt vdt dz vmax x y z u : α) (rest : List α) (n : Nat) (c : α) : Seq.ChemLabSt α :=
  let H := e.depth x y
  let nxt := fmin dt (c + vdt)
  let sampleK := fun zz => fmin (e.vdiff x y (zCoarse dz zz)) vmax
  let dW := (u * 2.0 - 1.0) * sqrt (3.0 * (nxt - c))
  let p := z + sqrt (2.0 * sampleK z) * dW
  let p1 := if p < 0.0 then -p else p
  let Z1 := if H < p1 then 2.0 * H - p1 else p1
  ⟨reflect H (z + sqrt (2.0 * sampleK Z1) * dW), rest, n + 1, true, true, some H,
    some (Seq.chemZcClosure chemLabZcT chemLabZcF dz), true, some nxt, some c, some (nxt - c), true, some dW, some Z1,
    some (decide (H < p1))⟩

theorem chemLabAfter_z (e : Env α) (dt vdt dz vmax x y z u : α) (rest : List α) (n : Nat) (c : α) :
    (chemLabAfter e dt vdt dz vmax x y z u rest n c).z
      = labolleSub (e.vdiff x y) vmax dz (e.depth x y) (fmin dt (c + vdt) - c) u z := rfl

set_option maxRecDepth 100000 in
/-- one trip through the loop body is one `Chemicals.labolleSub` of length `min(dt, c + vertdiff_dt) - c` -/
theorem chem_labolle_trip (e : Env α) (dt vdt dz vmax x y z u : α) (rest : List α) (n : Nat) (c : α)
    (old ddt : Option α) (zB : Bool) (dW Z1 : Option α) (below : Option Bool) :
    Seq.runFn (Seq.chemLabAtom dz) (chemLabStepGen e dt vdt dz vmax x y) (fun _ _ => none) (fun s => some (some s))
      chemLabBody ⟨z, u :: rest, n, true, true, some (e.depth x y),
        some (Seq.chemZcClosure chemLabZcT chemLabZcF dz), true, some c, old, ddt, zB, dW, Z1, below⟩
      = some (some (chemLabAfter e dt vdt dz vmax x y z u rest n c)) := by
  simp [chemLabStepGen, chemLabBody, chemLabAfter, Seq.runFn, Seq.fnStmtKnown, Seq.fnGuardKnown, Seq.guardVal,
    Seq.chemLabAtom, Seq.chemLabStep, Seq.chemLabSample, chem_sample_K, Seq.chemLiftZ, Seq.chemReflectSeq,
    chem_reflect_seq]

/-- the body statements are known ones in the state on entry (checked even when the loop makes no trip) -/
theorem chem_labolle_known (e : Env α) (dt vdt dz vmax x y : α) (us : List α) (z : α) :
    chemLabBody.all (Seq.fnStmtKnown (Seq.chemLabAtom dz) (chemLabStepGen e dt vdt dz vmax x y)
      (fun _ _ => (none : Option (Option (Seq.ChemLabSt α)))) (chemLabEntry e dz x y us z)) = true := by
  simp [chemLabStepGen, chemLabBody, chemLabEntry, Seq.fnStmtKnown, Seq.fnGuardKnown, Seq.chemLabAtom,
    Seq.chemLabStep, Seq.chemLabSample, chem_sample_K, Seq.chemLiftZ, Seq.chemReflectSeq, chem_reflect_seq]

/-- the loop, from time `c` on: the trips are the sub-steps `Chemicals.substeps dt vdt fuel c`, each with the next
draw of the supply -/
theorem chem_labolle_loop (e : Env α) (dt vdt dz vmax x y : α) :
    ∀ (fuel : Nat) (z : α) (us : List α) (n : Nat) (c : α) (old ddt : Option α) (zB : Bool) (dW Z1 : Option α)
      (below : Option Bool), (substeps dt vdt fuel c).length ≤ us.length →
    ∃ s', Seq.chemWhile (Seq.chemLabCond dt)
        (Seq.runFn (Seq.chemLabAtom dz) (chemLabStepGen e dt vdt dz vmax x y) (fun _ _ => none)
          (fun s => some (some s)) chemLabBody) fuel
        ⟨z, us, n, true, true, some (e.depth x y), some (Seq.chemZcClosure chemLabZcT chemLabZcF dz), true, some c,
          old, ddt, zB, dW, Z1, below⟩ = some (some s')
      ∧ s'.z = diffuseLabolle (e.vdiff x y) vmax dz (e.depth x y) (substeps dt vdt fuel c) us z
      ∧ s'.us = us.drop (substeps dt vdt fuel c).length
      ∧ s'.calls = n + (substeps dt vdt fuel c).length := by
  intro fuel
  induction fuel with
  | zero =>
    intro z us n c old ddt zB dW Z1 below _
    exact ⟨_, rfl, by simp [substeps, diffuseLabolle], by simp [substeps], by simp [substeps]⟩
  | succ fuel ih =>
    intro z us n c old ddt zB dW Z1 below hlen
    by_cases hc : c < dt
    · have hsub : substeps dt vdt (fuel + 1) c
          = (fmin dt (c + vdt) - c) :: substeps dt vdt fuel (fmin dt (c + vdt)) := by
        simp [substeps, hc]
      rw [hsub] at hlen ⊢
      match us, hlen with
      | [], hlen => exact absurd hlen (by simp)
      | u :: rest, hlen =>
        have hlen' : (substeps dt vdt fuel (fmin dt (c + vdt))).length ≤ rest.length := by
          simpa using hlen
        obtain ⟨s', hs, hz, hu, hn⟩ := ih (chemLabAfter e dt vdt dz vmax x y z u rest n c).z rest (n + 1)
          (fmin dt (c + vdt)) (some c) (some (fmin dt (c + vdt) - c)) true
          (chemLabAfter e dt vdt dz vmax x y z u rest n c).dW (chemLabAfter e dt vdt dz vmax x y z u rest n c).Z1
          (chemLabAfter e dt vdt dz vmax x y z u rest n c).below hlen'
        refine ⟨s', ?_, ?_, ?_, ?_⟩
        · simp only [Seq.chemWhile, Seq.chemLabCond, Option.map_some, hc, decide_true, chem_labolle_trip]
          exact hs
        · rw [hz, chemLabAfter_z]; rfl
        · rw [hu]; rfl
        · rw [hn]; simp [Nat.add_assoc, Nat.add_comm]
    · have hsub : substeps dt vdt (fuel + 1) c = [] := by simp [substeps, hc]
      rw [hsub]
      refine ⟨⟨z, us, n, true, true, some (e.depth x y), some (Seq.chemZcClosure chemLabZcT chemLabZcF dz), true,
        some c, old, ddt, zB, dW, Z1, below⟩, ?_, ?_, ?_, ?_⟩
      · simp only [Seq.chemWhile, Seq.chemLabCond, Option.map_some, hc, decide_false]
      · simp [diffuseLabolle]
      · simp
      · simp

set_option maxRecDepth 100000 in
/-- **`diffuse_labolle`**: the sub-step loop of the code is `Chemicals.diffuseLabolle` on the sub-steps
`Chemicals.substeps dt vdt fuel 0`, with one draw of the particle's supply per sub-step -/
theorem chem_diffuse_labolle_seq (e : Env α) (dt vdt dz vmax x y : α) (fuel : Nat) (us : List α) (z : α)
    (h : (substeps dt vdt fuel 0.0).length ≤ us.length) :
    Seq.runChemDiffuseLabolle Gen.chem_diffuse_labolle_seq e dt vdt dz vmax x y fuel us z
      = some (some (diffuseLabolle (e.vdiff x y) vmax dz (e.depth x y) (substeps dt vdt fuel 0.0) us z,
          us.drop (substeps dt vdt fuel 0.0).length, (substeps dt vdt fuel 0.0).length)) := by
  obtain ⟨s', hs, hz, hu, hn⟩ := chem_labolle_loop e dt vdt dz vmax x y fuel z us 0 0.0 none none false none none none h
  have hpre := chem_labolle_pre e dt vdt dz vmax x y us z
  have hk := chem_labolle_known e dt vdt dz vmax x y us z
  unfold chemLabStepGen at hpre hk hs
  unfold chemLabEntry at hk
  simp only [Seq.runChemDiffuseLabolle, Seq.chemRunWhile, chem_labolle_zcT, chem_labolle_zcF, chem_labolle_sk,
    chem_labolle_split.1, chem_labolle_split.2.1, chem_labolle_split.2.2, hpre, chemLabEntry, hk, hs]
  simp [Seq.runFn, hz, hu, hn]

/-! ### the `call` steps of the interpreter of `update_ibm` (`Seq.chemStep`; `LadimProofs/Bridge/Seq.lean`) -/

theorem chem_call_clamp (c : Config α) (e : Env α) (d : Draws α) (p : Particle α) :
    Seq.chemStep c e d p "call" "clamp_to_seabed"
      = (Seq.runChemClamp Gen.chem_clamp_seq (e.depth p.x p.y) p.z).join.map (fun z => { p with z := z }) := by
  rw [chem_clamp_seq]; simp [Seq.chemStep]

theorem chem_call_advect (c : Config α) (e : Env α) (d : Draws α) (p : Particle α) :
    Seq.chemStep c e d p "call" "advect"
      = (Seq.runChemAdvect Gen.chem_advect_seq e c.dt p.x p.y p.z).join.map (fun z => { p with z := z }) := by
  rw [chem_advect_seq]; simp [Seq.chemStep]

/-- the particle's vertical draws `d.vert` are its supply: `diffuse_const` takes the first one -/
theorem chem_call_diffuse_const (c : Config α) (e : Env α) (d : Draws α) (p : Particle α) (D u : α) (rest : List α)
    (hmix : c.mix = .const D) (hd : d.vert = u :: rest) :
    Seq.chemStep c e d p "call" "diffuse_const"
      = (Seq.runChemDiffuseConst Gen.chem_diffuse_const_seq c.dt D (e.depth p.x p.y) d.vert p.z).join.map
          (fun r => { p with z := r.1 }) := by
  rw [hd, chem_diffuse_const_seq]; simp [Seq.chemStep, hmix, hd]

/-- the particle's vertical draws `d.vert` are its supply: `diffuse_labolle` takes one per sub-step, in order -/
theorem chem_call_diffuse_labolle (c : Config α) (e : Env α) (d : Draws α) (p : Particle α) (vdt dz vmax : α)
    (hmix : c.mix = .labolle vdt dz vmax) (hlen : (substeps c.dt vdt c.fuel 0.0).length ≤ d.vert.length) :
    Seq.chemStep c e d p "call" "diffuse_labolle"
      = (Seq.runChemDiffuseLabolle Gen.chem_diffuse_labolle_seq e c.dt vdt dz vmax p.x p.y c.fuel d.vert p.z).join.map
          (fun r => { p with z := r.1 }) := by
  rw [chem_diffuse_labolle_seq _ _ _ _ _ _ _ _ _ _ hlen]; simp [Seq.chemStep, hmix]

/-- the particle's supply for `horzdiff` is `d.hx`, then `d.hy` -/
theorem chem_call_horzdiff (c : Config α) (e : Env α) (d : Draws α) (p : Particle α) (hmin hmax : α) (rest : List α)
    (hh : c.horz = some (hmin, hmax)) :
    Seq.chemStep c e d p "call" "horzdiff"
      = (Seq.runChemHorzdiff Gen.chem_horzdiff_seq e hmin hmax c.dt p.z (d.hx :: d.hy :: rest) p.x p.y p.alive).join.map
          (fun r => { p with x := r.1, y := r.2.1, alive := r.2.2.1 }) := by
  rw [chem_horzdiff_seq]
  by_cases hg : e.ingrid (horzdiffXY (fun xx yy => e.hdiff xx yy p.z) hmin hmax c.dt (e.metric p.x p.y)
      (e.metricY p.x p.y) d.hx d.hy p.x p.y).x2 (horzdiffXY (fun xx yy => e.hdiff xx yy p.z) hmin hmax c.dt
      (e.metric p.x p.y) (e.metricY p.x p.y) d.hx d.hy p.x p.y).y2 = true <;>
  simp [Seq.chemStep, hh, chemHorzSpec, hg]

/-- without a lifespan (`None`) the method raises; `update_ibm` does not call it then -/
theorem chem_call_kill_old (c : Config α) (e : Env α) (d : Draws α) (p : Particle α) :
    Seq.chemStep c e d p "call" "kill_old"
      = (Seq.runChemKillOld Gen.chem_kill_old_seq c.dt c.lifespan p.age p.alive).join.map
          (fun r => { p with age := r.1, alive := r.2 }) := by
  rw [chem_kill_old_seq]
  cases h : c.lifespan <;> simp [Seq.chemStep, h]

/-! ### `IBM.__init__` -/

set_option maxRecDepth 100000 in
/-- **constructor**: `KeyError` iff there is no `dt`; otherwise the attributes are the configuration values with the
defaults of `Seq.chemCtorSpec`, and two warnings are logged iff the stability number exceeds 1 -/
theorem chem_ctor_seq (inf : α) (cfg : Seq.ChemConf α) :
    Seq.runChemCtor Gen.chem_ctor_seq inf cfg = some (Seq.chemCtorSpec inf cfg) := by
  obtain ⟨ibm, dt⟩ := cfg
  cases dt with
  | none =>
    simp [Seq.runChemCtor, Gen.chem_ctor_seq, Seq.runFn, Seq.fnStmtKnown, Seq.fnGuardKnown, Seq.guardVal,
      Seq.chemCtorAtom, Seq.chemCtorStep, Seq.chemCtorGet, Seq.chemNoRet, Seq.ChemCtorSt.init, Seq.chemCtorSpec]
  | some dt =>
    generalize hic : ibm.getD Seq.ChemIbmConf.empty = ic
    by_cases h1 : ic.vertdiffMax.getD inf < inf <;> by_cases h2 : 0.0 < ic.vertdiffDz.getD 0.0 <;>
    by_cases h3 : 1.0 < 6.0 * ic.vertdiffMax.getD inf * ic.vertdiffDt.getD dt / (ic.vertdiffDz.getD 0.0 * ic.vertdiffDz.getD 0.0) <;>
    simp [Seq.runChemCtor, Gen.chem_ctor_seq, Seq.runFn, Seq.fnStmtKnown, Seq.fnGuardKnown, Seq.guardVal,
      Seq.chemCtorAtom, Seq.chemCtorStep, Seq.chemCtorGet, Seq.chemNoRet, Seq.ChemCtorSt.init, Seq.chemCtorSpec,
      Seq.ChemCtorSt.attrs, hic, h1, h2, h3]

/-- the `Chemicals.Config` that the attributes stand for switches the rules of `update_ibm` exactly as Python
evaluates the conditions on the attributes (`Seq.chemAtom` is the condition interpreter of `Bridge.chem_update_seq`).
Hypothesis: `vertical_mixing` is not the empty string — for `''` Python takes the `isinstance(self.D, str)` branch
(`diffuse_labolle`) while the truth value of `self.D` is false; the two readings of the text `self.D` differ there,
though no run of `update_ibm` evaluates it. -/
theorem chem_ctor_atoms (a : Seq.ChemAttrs α) (fuel : Nat) (hD : ∀ s, a.D = .name s → s ≠ "") {σ : Type} (s : σ)
    (t : String) : Seq.chemAtom (a.config fuel) a.collision s t = Seq.chemAttrAtom a t := by
  unfold Seq.chemAtom Seq.chemAttrAtom
  split
  · by_cases h : a.landCollision = "reposition" <;> by_cases h' : a.landCollision = "coastal_diffusion" <;>
      simp_all [Seq.ChemAttrs.collision]
  · by_cases h : a.landCollision = "reposition" <;> by_cases h' : a.landCollision = "coastal_diffusion" <;>
      simp_all [Seq.ChemAttrs.collision]
  · simp [Seq.ChemAttrs.config]
  · cases hd : a.D with
    | name n => simp [Seq.ChemAttrs.config, hd]
    | num D => by_cases h : D < 0.0 ∨ 0.0 < D <;> simp [Seq.ChemAttrs.config, hd, h]
  · cases hd : a.D with
    | name n => simp [Seq.ChemAttrs.config, hd, hD n hd]
    | num D => by_cases h : D < 0.0 ∨ 0.0 < D <;> simp [Seq.ChemAttrs.config, hd, h]
  · by_cases h : a.horzdiffType = some "smagorinsky" <;> simp [Seq.ChemAttrs.config, h]
  · simp [Seq.ChemAttrs.config]
  · simp_all

/-- the hypothesis `hclamp` of `Bridge.chem_update_seq` holds for the configuration of the constructor -/
theorem chem_ctor_clamp (a : Seq.ChemAttrs α) (fuel : Nat) :
    (a.config fuel).collisionClamp = decide (a.collision ≠ .other) := rfl

section
variable {β : Type} [Field β] [LinearOrder β] [IsStrictOrderedRing β]
  [HasSqrt β] [HasExp β] [HasLog β] [HasSin β] [HasCos β] [HasAsin β] [HasRpow β] [HasPi β] [HasRound β] [HasFloor β]

/-- constructor → `update_ibm`: for the attributes `a` that `__init__` sets, the statement sequence of `update_ibm`
with its conditions read on the attributes as Python reads them is `Chemicals.update` of the configuration `a.config`
(`Bridge.chem_update_seq` with `chem_ctor_atoms`, `chem_ctor_clamp`); `hstuck`: without a collision handler no
particle is reseeded -/
theorem chem_update_of_ctor (a : Seq.ChemAttrs β) (fuel : Nat) (hD : ∀ s, a.D = .name s → s ≠ "") (e : Env β)
    (d : Draws β) (p : Particle β) (hstuck : a.collision = .other → d.stuck = false) :
    Seq.run (fun _ => Seq.chemAttrAtom a) (Seq.chemStep (a.config fuel) e d) Gen.chem_update_seq p
      = some (update (a.config fuel) e d p) := by
  have h : (fun (_ : Particle β) => Seq.chemAttrAtom a) = Seq.chemAtom (a.config fuel) a.collision := by
    funext s t; exact (chem_ctor_atoms a fuel hD s t).symm
  rw [h]
  exact chem_update_seq _ _ _ _ _ (chem_ctor_clamp a fuel) hstuck
end

end Bridge
