import LadimProofs.C19
import LadimModel.Post.SettledSeq
/-!
# Bridge (C19) — settled particles: the hand-written last-instance selection *is* the statement sequence of the code

`Gen.settled_particles_seq` (regenerated from `sedimentation/ibm.py :: get_settled_particles` on every run),
interpreted statement by statement (`LadimModel/Post/SettledSeq.lean`: `np.unique(np.flip(pid), return_index=True)`,
`len - right_index - 1`, gather of the particle variables at `pid` and of the instance variables at `pinst`), selects
exactly `Post.settled pids`; and `Post.settled pids` is characterised completely over lists of naturals: its pids are
the pids that occur, strictly ascending (each exactly once, no other), and `(p, i)` is a row iff `i` is the largest
index with `pids[i] = p`.
-/
open Ladim Ladim.Post Ladim.Seq Ladim.Table

namespace Bridge

/-! ## lists of naturals -/

/-- a strictly increasing list is determined by its members -/
theorem sorted_ext : ∀ (l₁ l₂ : List Nat), l₁.Pairwise (· < ·) → l₂.Pairwise (· < ·) →
    (∀ q, q ∈ l₁ ↔ q ∈ l₂) → l₁ = l₂
  | [], [], _, _, _ => rfl
  | [], b :: bs, _, _, h => absurd ((h b).2 (by simp)) (by simp)
  | a :: as, [], _, _, h => absurd ((h a).1 (by simp)) (by simp)
  | a :: as, b :: bs, h₁, h₂, h => by
    rw [List.pairwise_cons] at h₁ h₂
    have hab : a = b := by
      have ha := (h a).1 (by simp)
      have hb := (h b).2 (by simp)
      simp only [List.mem_cons] at ha hb
      rcases ha with ha | ha
      · exact ha
      · rcases hb with hb | hb
        · exact hb.symm
        · have := h₁.1 b hb; have := h₂.1 a ha; omega
    subst hab
    congr 1
    apply sorted_ext as bs h₁.2 h₂.2
    intro q
    constructor
    · intro hq
      have hm := (h q).1 (List.mem_cons_of_mem _ hq)
      simp only [List.mem_cons] at hm
      rcases hm with rfl | hm
      · exact absurd (h₁.1 q hq) (by omega)
      · exact hm
    · intro hq
      have hm := (h q).2 (List.mem_cons_of_mem _ hq)
      simp only [List.mem_cons] at hm
      rcases hm with rfl | hm
      · exact absurd (h₂.1 q hq) (by omega)
      · exact hm

/-- `np.unique` does not see the order of the array: flipping changes nothing -/
theorem uniquePids_reverse (pids : List Nat) : uniquePids pids.reverse = uniquePids pids := by
  have h₁ := C19.uniquePids_spec pids.reverse
  have h₂ := C19.uniquePids_spec pids
  apply sorted_ext _ _ h₁.1 h₂.1
  intro q
  rw [h₁.2, h₂.2, List.mem_reverse]

theorem filterMap_eq_map_of_some {β γ : Type} (f : β → Option γ) (g : β → γ) :
    ∀ (l : List β), (∀ x ∈ l, f x = some (g x)) → l.filterMap f = l.map g
  | [], _ => rfl
  | x :: xs, h => by
    rw [List.filterMap_cons, h x (by simp), List.map_cons,
      filterMap_eq_map_of_some f g xs (fun y hy => h y (List.mem_cons_of_mem _ hy))]

theorem zip_map_self {β γ : Type} (g : β → γ) : ∀ (l : List β), l.zip (l.map g) = l.map (fun p => (p, g p))
  | [] => rfl
  | x :: xs => by rw [List.map_cons, List.zip_cons_cons, zip_map_self g xs, List.map_cons]

/-- index of the last occurrence, as the code computes it: `len - (first occurrence in the flipped array) - 1` -/
def lastIdx (pids : List Nat) (p : Nat) : Nat := pids.length - pids.reverse.findIdx (· == p) - 1

theorem lastIndex_of_mem (pids : List Nat) (p : Nat) (h : p ∈ pids) : lastIndex pids p = some (lastIdx pids p) := by
  unfold lastIndex lastIdx
  rw [List.findIdx?_eq_some_of_exists ⟨p, List.mem_reverse.2 h, by simp⟩]
  rfl

/-- the model's selection without the option: one row per distinct pid -/
theorem settled_eq_map (pids : List Nat) : settled pids = (uniquePids pids).map (fun p => (p, lastIdx pids p)) := by
  unfold settled
  apply filterMap_eq_map_of_some
  intro p hp
  rw [lastIndex_of_mem pids p (((C19.uniquePids_spec pids).2 p).1 hp)]
  rfl

/-! ## the model's selection, characterised (self-contained, over lists of naturals) -/

/-- the pids of the selection are the sorted distinct pids of the file -/
theorem settled_pids (pids : List Nat) : (settled pids).map (·.1) = uniquePids pids := by
  rw [settled_eq_map, List.map_map]
  exact (List.map_congr_left (fun _ _ => rfl)).trans (List.map_id _)

/-- pids ascending (strictly: no pid twice) -/
theorem settled_ascending (pids : List Nat) : ((settled pids).map (·.1)).Pairwise (· < ·) := by
  rw [settled_pids]; exact (C19.uniquePids_spec pids).1

/-- the pids of the selection are exactly the pids that occur: no pid is lost, no other pid appears -/
theorem settled_mem_pid (pids : List Nat) (p : Nat) : p ∈ (settled pids).map (·.1) ↔ p ∈ pids := by
  rw [settled_pids]; exact (C19.uniquePids_spec pids).2 p

theorem count_of_sorted (p : Nat) : ∀ (l : List Nat), l.Pairwise (· < ·) → p ∈ l → l.count p = 1
  | [], _, h => absurd h (by simp)
  | x :: xs, hs, h => by
    rw [List.pairwise_cons] at hs
    by_cases hx : x = p
    · subst hx
      have : x ∉ xs := fun hm => absurd (hs.1 x hm) (by omega)
      rw [List.count_cons_self, List.count_eq_zero_of_not_mem this]
    · have hm : p ∈ xs := by
        simp only [List.mem_cons] at h
        rcases h with h | h
        · exact absurd h.symm hx
        · exact h
      rw [List.count_cons_of_ne hx, count_of_sorted p xs hs.2 hm]

/-- every occurring pid appears exactly once -/
theorem settled_once (pids : List Nat) (p : Nat) (h : p ∈ pids) : ((settled pids).map (·.1)).count p = 1 :=
  count_of_sorted p _ (settled_ascending pids) ((settled_mem_pid pids p).2 h)

/-- no other pid appears -/
theorem settled_no_other (pids : List Nat) (p : Nat) (h : p ∉ pids) : ((settled pids).map (·.1)).count p = 0 :=
  List.count_eq_zero_of_not_mem (fun hm => h ((settled_mem_pid pids p).1 hm))

/-- `i` is the largest index with pid `p` -/
def IsLast (pids : List Nat) (p i : Nat) : Prop :=
  ∃ (hi : i < pids.length), pids[i] = p ∧ ∀ j (hj : j < pids.length), i < j → pids[j] ≠ p

theorem isLast_unique (pids : List Nat) (p i j : Nat) (hi : IsLast pids p i) (hj : IsLast pids p j) : i = j := by
  obtain ⟨hil, hie, hia⟩ := hi
  obtain ⟨hjl, hje, hja⟩ := hj
  rcases Nat.lt_trichotomy i j with h | h | h
  · exact absurd hje (hia j hjl h)
  · exact h
  · exact absurd hie (hja i hil h)

theorem lastIdx_isLast (pids : List Nat) (p : Nat) (h : p ∈ pids) : IsLast pids p (lastIdx pids p) :=
  C19.settled_is_last_instance pids p _ (lastIndex_of_mem pids p h)

/-- the rows of the selection: `(p, i)` is a row iff `i` is the largest index with `pids[i] = p` (instance 0
included).  With `settled_ascending` this determines the list. -/
theorem mem_settled_iff (pids : List Nat) (p i : Nat) : (p, i) ∈ settled pids ↔ IsLast pids p i := by
  rw [settled_eq_map, List.mem_map]
  constructor
  · rintro ⟨q, hq, he⟩
    have hqp : q = p := congrArg Prod.fst he
    have hi : lastIdx pids q = i := congrArg Prod.snd he
    subst hqp; subst hi
    exact lastIdx_isLast pids q (((C19.uniquePids_spec pids).2 q).1 hq)
  · intro hl
    have hp : p ∈ pids := by
      obtain ⟨hil, hie, _⟩ := hl
      exact hie ▸ List.getElem_mem hil
    refine ⟨p, ((C19.uniquePids_spec pids).2 p).2 hp, ?_⟩
    rw [isLast_unique pids p _ _ (lastIdx_isLast pids p hp) hl]

/-- every occurring pid has exactly one row, the row of its last occurrence -/
theorem settled_row_unique (pids : List Nat) (p : Nat) (h : p ∈ pids) :
    ∃ i, (p, i) ∈ settled pids ∧ IsLast pids p i ∧ ∀ i', (p, i') ∈ settled pids → i' = i :=
  ⟨lastIdx pids p, (mem_settled_iff pids p _).2 (lastIdx_isLast pids p h), lastIdx_isLast pids p h,
    fun i' hi' => isLast_unique pids p _ _ ((mem_settled_iff pids p i').1 hi') (lastIdx_isLast pids p h)⟩

/-- the selected index is the largest index with that pid -/
theorem settled_last (pids : List Nat) (p i : Nat) (h : (p, i) ∈ settled pids) (j : Nat)
    (hj : pids[j]? = some p) : j ≤ i := by
  obtain ⟨_, _, ha⟩ := (mem_settled_iff pids p i).1 h
  obtain ⟨hjl, hje⟩ := List.getElem?_eq_some_iff.1 hj
  by_contra hc
  exact ha j hjl (by omega) hje

/-! ## gather -/

theorem gather_eq_some_iff {β : Type} (v : List β) : ∀ (idx : List Nat) (w : List β),
    gather v idx = some w ↔ idx.map (fun i => v[i]?) = w.map some
  | [], w => by
    cases w <;> simp [gather]
  | i :: idx, w => by
    have ih := gather_eq_some_iff v idx
    unfold gather at ih ⊢
    rw [List.mapM_cons]
    cases hi : v[i]? with
    | none =>
      cases w <;> simp [hi]
    | some a =>
      cases hm : List.mapM (fun i => v[i]?) idx with
      | none =>
        cases w with
        | nil => simp
        | cons b w' =>
          have := (ih w').not.1 (by rw [hm]; simp)
          simp [hi, this]
      | some w₀ =>
        have h₀ := (ih w₀).1 hm
        cases w with
        | nil => simp
        | cons b w' =>
          simp only [hi, Option.pure_def, Option.bind_eq_bind, Option.bind_some, Option.some.injEq,
            List.cons.injEq, List.map_cons, h₀]
          constructor
          · rintro ⟨rfl, rfl⟩; exact ⟨rfl, rfl⟩
          · rintro ⟨rfl, hw⟩
            exact ⟨rfl, List.map_injective_iff.2 (Option.some_injective _) hw⟩

theorem gather_isSome_iff {β : Type} (v : List β) : ∀ (idx : List Nat),
    (gather v idx).isSome ↔ ∀ i ∈ idx, i < v.length
  | [] => by simp [gather]
  | i :: idx => by
    have ih := gather_isSome_iff v idx
    unfold gather at ih ⊢
    rw [List.mapM_cons]
    by_cases hi : i < v.length
    · rw [List.getElem?_eq_getElem hi]
      cases hm : List.mapM (fun i => v[i]?) idx with
      | none =>
        rw [hm] at ih
        simp only [Option.isSome_none, Bool.false_eq_true, false_iff] at ih
        simp only [Option.pure_def, Option.bind_eq_bind, Option.bind_some, Option.bind_none, Option.isSome_none,
          Bool.false_eq_true, List.mem_cons, forall_eq_or_imp, false_iff]
        exact fun h => ih h.2
      | some w =>
        rw [hm] at ih
        simp only [Option.isSome_some, true_iff] at ih
        simp only [Option.pure_def, Option.bind_eq_bind, Option.bind_some, Option.isSome_some, List.mem_cons,
          forall_eq_or_imp, true_iff]
        exact ⟨hi, ih⟩
    · rw [List.getElem?_eq_none (by omega)]
      simp only [Option.bind_eq_bind, Option.bind_none, Option.isSome_none, Bool.false_eq_true, List.mem_cons,
        forall_eq_or_imp, false_iff]
      exact fun h => hi h.1

theorem gatherVars_isSome_iff {β : Type} (d : VDim) (idx : List Nat) : ∀ (vars : List (String × VDim × List β)),
    (gatherVars vars d idx).isSome ↔ ∀ kv ∈ vars, kv.2.1 = d → ∀ i ∈ idx, i < kv.2.2.length
  | [] => by simp [gatherVars]
  | kv :: vars => by
    have ih := gatherVars_isSome_iff d idx vars
    unfold gatherVars at ih ⊢
    by_cases hd : kv.2.1 = d
    · have hb : (kv.2.1 == d) = true := by simpa using hd
      have hfl : List.filter (fun kv : String × VDim × List β => kv.2.1 == d) (kv :: vars)
          = kv :: List.filter (fun kv => kv.2.1 == d) vars := by rw [List.filter_cons]; simp only [hb, if_true]
      rw [hfl, List.mapM_cons]
      have hg := gather_isSome_iff kv.2.2 idx
      cases hk : gather kv.2.2 idx with
      | none =>
        rw [hk] at hg
        simp only [Option.isSome_none, Bool.false_eq_true, false_iff] at hg
        simp only [Option.map_none, Option.bind_eq_bind, Option.bind_none, Option.isSome_none, Bool.false_eq_true,
          List.mem_cons, forall_eq_or_imp, false_iff]
        exact fun h => hg (h.1 hd)
      | some w =>
        rw [hk] at hg
        simp only [Option.isSome_some, true_iff] at hg
        simp only [Option.map_some, Option.pure_def, Option.bind_eq_bind, Option.bind_some, List.mem_cons,
          forall_eq_or_imp]
        cases hm : List.mapM (fun kv : String × VDim × List β => Option.map (fun w => (kv.1, w)) (gather kv.2.2 idx))
            (List.filter (fun kv => kv.2.1 == d) vars) with
        | none =>
          rw [hm] at ih
          simp only [Option.isSome_none, Bool.false_eq_true, false_iff] at ih
          simp only [Option.bind_none, Option.isSome_none, Bool.false_eq_true, false_iff]
          exact fun h => ih h.2
        | some r =>
          rw [hm] at ih
          simp only [Option.isSome_some, true_iff] at ih
          simp only [Option.bind_some, Option.isSome_some, true_iff]
          exact ⟨fun _ => hg, ih⟩
    · have hb : ¬ (kv.2.1 == d) = true := by simpa using hd
      have hfl : List.filter (fun kv : String × VDim × List β => kv.2.1 == d) (kv :: vars)
          = List.filter (fun kv => kv.2.1 == d) vars := by rw [List.filter_cons]; simp only [hb]; rfl
      rw [hfl, ih]
      simp only [List.mem_cons, forall_eq_or_imp]
      exact ⟨fun h => ⟨fun h' => absurd h' hd, h⟩, fun h => h.2⟩

/-- the instance variable `pid` itself, gathered at the selected instances, is the coordinate `pid`: the entry
`dict(pid=pid)` of `all_vars`, its override by `pinst_vars['pid']` and the final `assign_coords(pid=pid)` agree -/
theorem gather_pid {β : Type} (ofPid : Nat → β) (pids : List Nat) :
    gather (pids.map ofPid) ((settled pids).map (·.2)) = some (((settled pids).map (·.1)).map ofPid) := by
  rw [gather_eq_some_iff, List.map_map, List.map_map, List.map_map]
  apply List.map_congr_left
  rintro ⟨p, i⟩ h
  obtain ⟨hi, he, _⟩ := (mem_settled_iff pids p i).1 h
  simp [hi, he]

/-! ## the statement sequence -/

section
variable {β : Type}

/-- the run on given results of `np.unique(.., return_index=True)` (`pid`, `ri`) and the resulting `pinst` -/
def outcomeOf (ofPid : Nat → β) (vars : List (String × VDim × List β)) (pid ri pinst : List Nat) :
    Option (SetSt β) :=
  match gatherVars vars .particle pid with
  | none => none
  | some f =>
    match gatherVars vars .particleInstance pinst with
    | none => none
    | some g =>
      some ⟨pid, ri, pinst, f, g, dictMerge (dictMerge [("pid", pid.map ofPid)] f) g,
        some ⟨pid, dictMerge (dictMerge (dictMerge [("pid", pid.map ofPid)] f) g) [("pid", pid.map ofPid)]⟩⟩

/-- what the code computes: the final values of the local variables of `get_settled_particles`; `none` = `IndexError`
(a particle variable shorter than some pid, or an instance variable shorter than some selected index) -/
def settledOutcome (ofPid : Nat → β) (pids : List Nat) (vars : List (String × VDim × List β)) : Option (SetSt β) :=
  outcomeOf ofPid vars ((settled pids).map (·.1))
    (((settled pids).map (·.1)).map (fun p => pids.reverse.findIdx (· == p))) ((settled pids).map (·.2))

theorem unique_flip (pids : List Nat) : (npUniqueIndex pids.reverse).1 = (settled pids).map (·.1) := by
  rw [settled_pids]; exact uniquePids_reverse pids

theorem pinst_eq (pids : List Nat) :
    ((npUniqueIndex pids.reverse).2).map (fun i => pids.length - i - 1) = (settled pids).map (·.2) := by
  show ((uniquePids pids.reverse).map _).map _ = _
  rw [uniquePids_reverse, settled_eq_map, List.map_map, List.map_map]
  rfl

theorem rightIndex_eq (pids : List Nat) :
    (npUniqueIndex pids.reverse).2 = ((settled pids).map (·.1)).map (fun p => pids.reverse.findIdx (· == p)) := by
  show (uniquePids pids.reverse).map _ = _
  rw [uniquePids_reverse, settled_pids]

set_option maxRecDepth 100000 in
/-- the statements, run on whatever `np.unique` returns -/
theorem settled_particles_raw (ofPid : Nat → β) (pids : List Nat) (vars : List (String × VDim × List β)) :
    runSettledSt ofPid pids vars Gen.settled_particles_seq =
      some (outcomeOf ofPid vars (npUniqueIndex pids.reverse).1 (npUniqueIndex pids.reverse).2
        ((npUniqueIndex pids.reverse).2.map (fun i => pids.length - i - 1))) := by
  have e1 : ∀ s, setStep ofPid pids vars s "assign"
      "pid, right_index = np.unique(np.flip(dset['pid'].values), return_index=True)"
      = some (some { s with pid := (npUniqueIndex pids.reverse).1, rightIndex := (npUniqueIndex pids.reverse).2 }) :=
    fun _ => rfl
  have e2 : ∀ s, setStep ofPid pids vars s "assign" "pinst = len(dset['pid']) - right_index - 1"
      = some (some { s with pinst := s.rightIndex.map (fun i => pids.length - i - 1) }) := fun _ => rfl
  have e3 : ∀ s, setStep ofPid pids vars s "import" "import xarray as xr" = some (some s) := fun _ => rfl
  have e4 : ∀ s, setStep ofPid pids vars s "assign"
      "pid_vars = {k: xr.Variable('pid', v[pid]) for k, v in dset.variables.items() if v.dims == ('particle',)}"
      = (match gatherVars vars .particle s.pid with
        | none => some none
        | some f => some (some { s with pidVars := f })) := fun _ => rfl
  have e5 : ∀ s, setStep ofPid pids vars s "assign"
      "pinst_vars = {k: xr.Variable('pid', v[pinst]) for k, v in dset.variables.items() if v.dims == ('particle_instance',)}"
      = (match gatherVars vars .particleInstance s.pinst with
        | none => some none
        | some f => some (some { s with pinstVars := f })) := fun _ => rfl
  have e6 : ∀ s, setStep ofPid pids vars s "assign" "all_vars = {**dict(pid=pid), **pid_vars, **pinst_vars}"
      = some (some { s with allVars := dictMerge (dictMerge [("pid", s.pid.map ofPid)] s.pidVars) s.pinstVars }) :=
    fun _ => rfl
  have e7 : ∀ s, setStep ofPid pids vars s "return" "xr.Dataset(all_vars).assign_coords(pid=pid)"
      = some (some { s with ret := some ⟨s.pid, dictMerge s.allVars [("pid", s.pid.map ofPid)]⟩ }) := fun _ => rfl
  simp only [runSettledSt, Gen.settled_particles_seq, runStrictRet, guardVal, e1, e2, e3, e4, e5, e6, e7, SetSt.init,
    outcomeOf]
  cases gatherVars vars .particle (npUniqueIndex pids.reverse).1 with
  | none => simp
  | some f =>
    simp only [String.reduceEq, if_false]
    cases gatherVars vars .particleInstance ((npUniqueIndex pids.reverse).2.map (fun i => pids.length - i - 1)) with
    | none => simp
    | some g => simp

/-- **`get_settled_particles`, statement by statement, is the hand-written last-instance selection**: the run of the
generated sequence ends with `pid` = the pids of `Post.settled pids`, `pinst` = its instance indices, the particle
variables gathered at `pid`, the instance variables gathered at `pinst`, and returns the data set built from them;
it raises exactly when a gather is out of range.  No hypotheses. -/
theorem settled_particles_run (ofPid : Nat → β) (pids : List Nat) (vars : List (String × VDim × List β)) :
    runSettledSt ofPid pids vars Gen.settled_particles_seq = some (settledOutcome ofPid pids vars) := by
  rw [settled_particles_raw, pinst_eq, unique_flip, rightIndex_eq, settledOutcome]

/-- the selection of the code (`pid` zipped with `pinst`, in the order of the result) is `Post.settled` -/
theorem settled_particles_index (pids : List Nat) :
    runSettledIndex pids Gen.settled_particles_seq = some (some (settled pids)) := by
  unfold runSettledIndex
  rw [settled_particles_run]
  have hz : ∀ (l : List (Nat × Nat)), (l.map (·.1)).zip (l.map (·.2)) = l := fun l => by
    induction l with
    | nil => rfl
    | cons x xs ih => rw [List.map_cons, List.map_cons, List.zip_cons_cons, ih]
  simp only [settledOutcome, outcomeOf, gatherVars, List.filter_nil, List.mapM_nil, Option.pure_def, hz]

/-- the selection, in any run that returns: `pid` zipped with `pinst` is `Post.settled`, and the coordinate of the
returned data set is `pid` -/
theorem settled_particles_sel (ofPid : Nat → β) (pids : List Nat) (vars : List (String × VDim × List β)) (s : SetSt β)
    (h : runSettledSt ofPid pids vars Gen.settled_particles_seq = some (some s)) :
    s.pid.zip s.pinst = settled pids ∧ (s.ret.map (·.pid)) = some ((settled pids).map (·.1)) := by
  have hz : ∀ (l : List (Nat × Nat)), (l.map (·.1)).zip (l.map (·.2)) = l := fun l => by
    induction l with
    | nil => rfl
    | cons x xs ih => rw [List.map_cons, List.map_cons, List.zip_cons_cons, ih]
  rw [settled_particles_run, settledOutcome, outcomeOf] at h
  cases hf : gatherVars vars .particle ((settled pids).map (·.1)) with
  | none => rw [hf] at h; simp at h
  | some f =>
    cases hg : gatherVars vars .particleInstance ((settled pids).map (·.2)) with
    | none => rw [hf, hg] at h; simp at h
    | some g =>
      rw [hf, hg] at h
      simp only [Option.some.injEq] at h
      subst h
      exact ⟨hz _, rfl⟩

/-- **the returned data set**: coordinate `pid` = the pids of `Post.settled pids`; variables = `pid`, the particle
variables at those pids, the instance variables at the selected (last) instances — merged as Python dicts, `pid` set
to the coordinate; `some none` (`IndexError`) when a gather is out of range.  No hypotheses. -/
theorem settled_particles (ofPid : Nat → β) (pids : List Nat) (vars : List (String × VDim × List β)) :
    runSettled ofPid pids vars Gen.settled_particles_seq =
      some (match gatherVars vars .particle ((settled pids).map (·.1)),
                  gatherVars vars .particleInstance ((settled pids).map (·.2)) with
        | some f, some g =>
          some ⟨(settled pids).map (·.1),
            dictMerge (dictMerge (dictMerge [("pid", ((settled pids).map (·.1)).map ofPid)] f) g)
              [("pid", ((settled pids).map (·.1)).map ofPid)]⟩
        | _, _ => none) := by
  unfold runSettled
  rw [settled_particles_run, settledOutcome, outcomeOf]
  cases gatherVars vars .particle ((settled pids).map (·.1)) with
  | none => rfl
  | some f =>
    cases gatherVars vars .particleInstance ((settled pids).map (·.2)) with
    | none => rfl
    | some g => rfl

/-- the code returns (no `IndexError`) iff the particle table covers every pid of the file and every instance
variable covers every selected instance -/
theorem settled_particles_returns_iff (ofPid : Nat → β) (pids : List Nat) (vars : List (String × VDim × List β)) :
    (∃ d, runSettled ofPid pids vars Gen.settled_particles_seq = some (some d)) ↔
      (∀ kv ∈ vars, kv.2.1 = .particle → ∀ p ∈ pids, p < kv.2.2.length) ∧
      (∀ kv ∈ vars, kv.2.1 = .particleInstance → ∀ pi ∈ settled pids, pi.2 < kv.2.2.length) := by
  have h1 := gatherVars_isSome_iff .particle ((settled pids).map (·.1)) vars
  have h2 := gatherVars_isSome_iff .particleInstance ((settled pids).map (·.2)) vars
  have e1 : (∀ kv ∈ vars, kv.2.1 = .particle → ∀ p ∈ pids, p < kv.2.2.length) ↔
      (∀ kv ∈ vars, kv.2.1 = .particle → ∀ p ∈ (settled pids).map (·.1), p < kv.2.2.length) := by
    simp only [settled_mem_pid]
  have e2 : (∀ kv ∈ vars, kv.2.1 = .particleInstance → ∀ pi ∈ settled pids, pi.2 < kv.2.2.length) ↔
      (∀ kv ∈ vars, kv.2.1 = .particleInstance → ∀ i ∈ (settled pids).map (·.2), i < kv.2.2.length) := by
    simp only [List.mem_map, forall_exists_index, and_imp, forall_apply_eq_imp_iff₂]
  rw [e1, e2, ← h1, ← h2, settled_particles]
  cases gatherVars vars .particle ((settled pids).map (·.1)) with
  | none => simp
  | some f =>
    cases gatherVars vars .particleInstance ((settled pids).map (·.2)) with
    | none => simp
    | some g => simp

/-- in particular: instance variables as long as `pid` (they are, in a LADiM file) never raise -/
theorem settled_instance_in_range (pids : List Nat) (pi : Nat × Nat) (h : pi ∈ settled pids) : pi.2 < pids.length := by
  obtain ⟨hi, _, _⟩ := (mem_settled_iff pids pi.1 pi.2).1 h
  exact hi

/-! non-vacuity: repeats; a pid whose last (and only) instance is instance 0; the generated sequence itself, run on
data -/
example : settled [7] = [(7, 0)] := by decide
example : settled [4, 9, 9] = [(4, 0), (9, 2)] := by decide
example : settled ([] : List Nat) = [] := by decide
example : runSettledIndex [3, 1, 3, 2, 1] Gen.settled_particles_seq = some (some [(1, 4), (2, 3), (3, 2)]) :=
  settled_particles_index _

end

end Bridge
