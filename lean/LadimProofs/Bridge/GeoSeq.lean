import LadimProofs.Bridge.LocationSeq
import LadimModel.Release.GeoSeq
/-!
# Bridge (C03, C17, C01) — `triangle_areas`, `_unit_triangle_sample`, `get_polygon_sample_triangles`,
# `get_polygons_from_feature_geometry`, `get_location_file`: the statement sequences of the code

`Gen.triangle_areas_seq`, `Gen.unit_triangle_sample_seq`, `Gen.polygon_sample_triangles_seq`,
`Gen.polygons_from_feature_seq`, `Gen.get_location_file_seq` (guard, kind and text of every statement of the five
functions of `release/makrel.py`, regenerated from the current source) are interpreted by
`LadimModel/Release/GeoSeq.lean` (runner `Seq.runRet`: every statement, condition and `return` expression must be a
known text, also in branches that are not taken).  The theorems hold for *every* input and have no hypotheses
(`none` = the code raises or leaves the modelled value space); only the operations of the scalar type are used (no
field or order laws), so they hold for every scalar type, `Float` included.

Equalities with the hand-written model (`LadimModel/Release/Sample.lean`):
* `Bridge.triangle_areas` : the interpretation is `tris.map Sample.triArea` (unsorted, in triangle order);
* `Bridge.unit_triangle_sample` : `unitTriangleSpec` — `Sample.foldUnit` on the pairs (first half, second half) of the
  `2·num` numbers drawn;
* `Bridge.get_polygon_sample_triangles` : `polygonSampleSpec` — `Seq.sampleTriangles` (= `Sample.samplePoint` per
  particle, the function `LocationSeq.lean` uses at the call site) on the draws `rngDraws`: particle `i` gets
  `u = rng[i]` (drawn first), `(s, t) = (rng[n+i], rng[2n+i])` (`rngDraws_getElem?`); the stream must hold the `3·num`
  numbers the code draws (`get_polygon_sample_triangles_of_stream`; a shorter stream is the `none` outcome), the
  returned triangle number is the index used for the vertices; `get_polygon_sample_triangles_points`: per particle.
Closed forms (there is no hand-written model function; the property join is part of the harness-side model):
* `Bridge.get_polygons_from_feature_geometry` : `polygonsSpec` — `MULTIPOLYGON` → the first ring of every polygon,
  `POLYGON` → the first ring, compared after `upper`, the last position of every ring dropped (`Seq.removeClosing`),
  other types raise; the nested `def` is interpreted as a function of its own (`remove_closing_coordinate`);
* `Bridge.get_location_file` : `locationFileSpec` — first layer, one property row per feature (`Seq.dfOfSeries`), the
  polygons flattened with their feature number (`Seq.flatWithId`), `latlon_from_poly(plat, plon, num)` with
  `plat` / `plon` = columns 1 / 0 of the rings (`Bridge.latlonFromPolySpec` of `Bridge/LocationSeq.lean`), the two
  re-indexings, returned `(lon, lat, attrs)`; `get_location_file_rows`: the property row of particle `j` is the row
  of the feature that carries the polygon `polynum[j]` (`flatWithId_owner`: that polygon is one of the feature's).
-/
open Ladim Ladim.Seq Ladim.Sample Ladim.Table

set_option linter.unusedSectionVars false
set_option linter.unusedVariables false
set_option linter.unusedSimpArgs false
namespace Bridge

section
variable {α : Type} [Add α] [Sub α] [Mul α] [Div α] [Neg α] [LT α] [DecidableLT α] [OfScientific α]

/-! ### triangle_areas -/

set_option maxRecDepth 100000 in
/-- **`triangle_areas`** is `Sample.triArea` for every triangle, in triangle order -/
theorem triangle_areas (tris : List (Tri α)) : triangleAreasSeq tris = some (some (tris.map triArea)) := by
  simp [triangleAreasSeq, Gen.triangle_areas_seq, runRet, stmtKnown, guardKnown, guardVal, areaAtom, areaStep, areaRet,
    List.zipWith_map, List.zipWith_self, triArea, Gen.rel_triangle_area]

/-! ### _unit_triangle_sample -/

/-- closed form of `_unit_triangle_sample(num)`: the `2·num` numbers of `np.random.rand(num * 2)`; column `j` of the
reshaped array is `(rng[j], rng[num + j])`, folded by `Sample.foldUnit`; returned: the row of the `s`, the row of the
`t`, and the rest of the stream; `none`: the stream holds fewer than `2·num` numbers -/
def unitTriangleSpec (num : Nat) (rng : List α) : Option ((List α × List α) × List α) :=
  if num * 2 ≤ rng.length then
    let st := ((rng.take num).zip ((rng.drop num).take num)).map (fun p => foldUnit p.1 p.2)
    some ((st.map (fun p => p.1), st.map (fun p => p.2)), rng.drop (num * 2))
  else none

theorem zipWith_mask {β : Type} (p : β → Bool) (f : β → β) (l : List β) :
    List.zipWith (fun m c => if m then f c else c) (l.map p) l = l.map (fun c => if p c then f c else c) := by
  induction l with
  | nil => rfl
  | cons a l ih => simp [ih]

set_option maxRecDepth 100000 in
/-- **`_unit_triangle_sample`** -/
theorem unit_triangle_sample (num : Nat) (rng : List α) :
    unitTriangleSeq num rng = some (unitTriangleSpec num rng) := by
  by_cases h : num * 2 ≤ rng.length
  · have h1 : min num (num * 2) = num := by omega
    have h2 : num * 2 - num = num := by omega
    simp [unitTriangleSeq, unitTriangleSpec, Gen.unit_triangle_sample_seq, runRet, stmtKnown, guardKnown, guardVal,
      unitAtom, unitStep, unitRet, randTake, h, zipWith_mask, List.take_take, List.drop_take, h1, h2, foldUnit]
  · simp [unitTriangleSeq, unitTriangleSpec, Gen.unit_triangle_sample_seq, runRet, stmtKnown, guardKnown, guardVal,
      unitAtom, unitStep, unitRet, randTake, h]

/-! ### get_polygon_sample_triangles -/

/-- the interpretation, stage by stage, for a non-empty triangle array (`tot` = `cumarea[-1]`) -/
def polygonSampleRaw (tris : List (Tri α)) (n : Nat) (rng : List α) (tot : α) :
    Option ((List α × List α × List Nat) × List α) :=
  let pick := searchsortedLeft ((cumsum (tris.map triArea)).map (fun c => c / tot))
  (randTake rng n).bind fun r1 =>
  (unitTriangleSpec n r1.2).bind fun r2 =>
  ((r1.1.map pick).mapM (fun k => tris[k]?)).map fun verts =>
    (((verts.zip (r2.1.1.zip r2.1.2)).map (fun p => (baryAt p.1 p.2.1 p.2.2).1),
      (verts.zip (r2.1.1.zip r2.1.2)).map (fun p => (baryAt p.1 p.2.1 p.2.2).2),
      r1.1.map pick), r2.2)

local macro "samp_unfold" : tactic => `(tactic|
  simp [polygonSampleTrianglesSeq, polygonSampleRaw, Gen.polygon_sample_triangles_seq, runRet, stmtKnown, guardKnown,
    guardVal, sampAtom, sampStep, sampRet, triangle_areas, unit_triangle_sample, *])

set_option maxRecDepth 100000 in
theorem sample_raw_none (tris : List (Tri α)) (n : Nat) (rng : List α)
    (hlast : (cumsum (tris.map triArea)).getLast? = none) :
    polygonSampleTrianglesSeq tris n rng = some none := by
  samp_unfold

set_option maxRecDepth 100000 in
theorem sample_raw (tris : List (Tri α)) (n : Nat) (rng : List α) (tot : α)
    (hlast : (cumsum (tris.map triArea)).getLast? = some tot) :
    polygonSampleTrianglesSeq tris n rng = some (polygonSampleRaw tris n rng tot) := by
  cases h1 : randTake rng n with
  | none => samp_unfold
  | some r1 =>
    cases h2 : unitTriangleSpec n r1.2 with
    | none => samp_unfold
    | some r2 =>
      cases h3 : r1.1.mapM ((fun k => tris[k]?) ∘
          searchsortedLeft ((cumsum (tris.map triArea)).map (fun c => c / tot))) <;> samp_unfold

/-- arrays by column (the code) = records by particle (the model) -/
theorem cols_eq (tris : List (Tri α)) (pick : α → Nat) (pt : Tri α → α × α → α × α) :
    ∀ (us : List α) (sts : List (α × α)), us.length = sts.length →
    (us.mapM (fun u => tris[pick u]?)).map (fun verts =>
        ((verts.zip sts).map (fun p => (pt p.1 p.2).1), (verts.zip sts).map (fun p => (pt p.1 p.2).2), us.map pick))
      = ((us.zip sts).mapM (fun d => (tris[pick d.1]?).map (fun T => ((pt T d.2).1, (pt T d.2).2, pick d.1)))).map
          (fun ps => (ps.map (fun p => p.1), ps.map (fun p => p.2.1), ps.map (fun p => p.2.2))) := by
  intro us
  induction us with
  | nil => intro sts h; cases sts <;> simp at h ⊢
  | cons u us ih =>
    intro sts h
    cases sts with
    | nil => simp at h
    | cons st sts =>
      have ih' := ih sts (by simpa using h)
      simp only [List.mapM_cons, List.zip_cons_cons]
      cases hT : tris[pick u]? with
      | none => simp
      | some T =>
        cases h1 : us.mapM (fun u => tris[pick u]?) with
        | none =>
          rw [h1] at ih'
          cases h2 : (us.zip sts).mapM (fun d => (tris[pick d.1]?).map (fun T => ((pt T d.2).1, (pt T d.2).2, pick d.1))) with
          | none => simp
          | some ps => rw [h2] at ih'; simp at ih'
        | some verts =>
          rw [h1] at ih'
          cases h2 : (us.zip sts).mapM (fun d => (tris[pick d.1]?).map (fun T => ((pt T d.2).1, (pt T d.2).2, pick d.1))) with
          | none => rw [h2] at ih'; simp at ih'
          | some ps =>
            rw [h2] at ih'
            simp at ih' ⊢
            obtain ⟨e1, e2, e3⟩ := ih'
            simp [e1, e2, e3]

/-- the draws `(u, s, t)` of particle `i` in the stream: `rng[i]`, `rng[n + i]`, `rng[2 n + i]` -/
def rngDraws (n : Nat) (rng : List α) : List (α × α × α) :=
  (rng.take n).zip (((rng.drop n).take n).zip ((rng.drop (n * 2)).take n))

/-- closed form of `get_polygon_sample_triangles(triangles, n)`: `Seq.sampleTriangles` (`Sample.samplePoint` for every
particle; `none` = no triangles, or a triangle number outside the array) on the draws `rngDraws n rng`, with the rest
of the stream; `none` also when the stream holds fewer than the `3·n` numbers the code draws -/
def polygonSampleSpec (tris : List (Tri α)) (n : Nat) (rng : List α) : Option ((List α × List α × List Nat) × List α) :=
  if n * 3 ≤ rng.length then (sampleTriangles tris n (rngDraws n rng)).map (fun r => (r, rng.drop (n * 3))) else none

theorem zip_map_fst_snd {β γ : Type} (l : List (β × γ)) : (l.map (fun p => p.1)).zip (l.map (fun p => p.2)) = l := by
  induction l with
  | nil => rfl
  | cons a l ih => simp [ih]

theorem cumsum_eq_nil (l : List α) (h : cumsum l = []) : l = [] := by
  cases l with
  | nil => rfl
  | cons a l => simp [cumsum] at h

theorem raw_eq_spec (tris : List (Tri α)) (n : Nat) (rng : List α) (tot : α)
    (hlast : (cumsum (tris.map triArea)).getLast? = some tot) :
    polygonSampleRaw tris n rng tot = polygonSampleSpec tris n rng := by
  have hne : tris.isEmpty = false := by
    cases tris with
    | nil => simp [cumsum] at hlast
    | cons T tris => rfl
  have hpick : ∀ u, pickTriangle (tris.map triArea) u =
      searchsortedLeft ((cumsum (tris.map triArea)).map (fun c => c / tot)) u := by
    intro u; unfold pickTriangle; simp only [hlast]
  unfold polygonSampleRaw polygonSampleSpec randTake
  by_cases h1 : n ≤ rng.length
  · by_cases h2 : n * 2 ≤ (rng.drop n).length
    · have h3 : n * 3 ≤ rng.length := by rw [List.length_drop] at h2; omega
      have hd2 : (rng.drop n).drop n = rng.drop (n * 2) := by rw [List.drop_drop]; congr 1; omega
      have hd3 : (rng.drop n).drop (n * 2) = rng.drop (n * 3) := by rw [List.drop_drop]; congr 1; omega
      have hlen : (rngDraws n rng).length = n := by
        simp [rngDraws, List.length_zip, List.length_take, List.length_drop]; omega
      have hus : (rng.take n).length = (((rng.drop n).take n).zip ((rng.drop (n * 2)).take n)).length := by
        simp [List.length_zip, List.length_take, List.length_drop]; omega
      have key := cols_eq tris (searchsortedLeft ((cumsum (tris.map triArea)).map (fun c => c / tot)))
        (fun T st => baryAt T st.1 st.2) (rng.take n)
        ((((rng.drop n).take n).zip ((rng.drop (n * 2)).take n)).map (fun p => foldUnit p.1 p.2))
        (by simpa using hus)
      simp only [if_pos h1, if_pos h3, Option.bind_some, unitTriangleSpec, if_pos h2, zip_map_fst_snd, hd2, hd3,
        sampleTriangles, hne, Bool.false_eq_true, if_false, List.take_of_length_le (Nat.le_of_eq hlen)]
      rw [List.mapM_map]
      have e : ∀ (o : Option (List α × List α × List Nat)) (o' : Option (List α × List α × List Nat)), o = o' →
          o.map (fun r => (r, rng.drop (n * 3))) = o'.map (fun r => (r, rng.drop (n * 3))) := by
        intro o o' h; rw [h]
      rw [Option.map_map]
      refine (Eq.trans ?_ (e _ _ key)).trans ?_
      · rw [Option.map_map]; rfl
      · rw [List.zip_map_right, List.mapM_map]
        have hf : ((fun d : α × α × α => Option.map (fun T => ((baryAt T d.2.1 d.2.2).1, (baryAt T d.2.1 d.2.2).2,
              searchsortedLeft ((cumsum (tris.map triArea)).map (fun c => c / tot)) d.1))
              tris[searchsortedLeft ((cumsum (tris.map triArea)).map (fun c => c / tot)) d.1]?) ∘
            Prod.map id (fun p : α × α => foldUnit p.1 p.2)) = fun d => samplePoint tris d.1 d.2.1 d.2.2 := by
          funext d
          simp only [Function.comp, samplePoint, hpick, Prod.map, id]
          cases tris[searchsortedLeft ((cumsum (tris.map triArea)).map (fun c => c / tot)) d.1]? <;> rfl
        rw [hf, Option.map_map]
        rfl
    · rw [List.length_drop] at h2
      have h3 : ¬ n * 3 ≤ rng.length := by omega
      simp [h1, h2, h3, unitTriangleSpec]
  · have h3 : ¬ n * 3 ≤ rng.length := by omega
    simp [h1, h3]

/-- **`get_polygon_sample_triangles`**: for every triangle array, particle count and stream -/
theorem get_polygon_sample_triangles (tris : List (Tri α)) (n : Nat) (rng : List α) :
    polygonSampleTrianglesSeq tris n rng = some (polygonSampleSpec tris n rng) := by
  cases h : (cumsum (tris.map triArea)).getLast? with
  | none =>
    rw [sample_raw_none tris n rng h]
    have ht : tris = [] := by
      have := cumsum_eq_nil _ (List.getLast?_eq_none_iff.mp h)
      simpa using this
    subst ht
    simp [polygonSampleSpec, sampleTriangles]
  | some tot => rw [sample_raw tris n rng tot h, raw_eq_spec tris n rng tot h]

/-- the layout of the stream: particle `i` uses `rng[i]` for the triangle choice (drawn first, `np.random.rand(num)`),
`rng[n + i]` and `rng[2 n + i]` as `(s, t)` (first and second half of `np.random.rand(num * 2)`) -/
theorem rngDraws_getElem? (n : Nat) (rng : List α) (i : Nat) (h : n * 3 ≤ rng.length) (hi : i < n) :
    (rngDraws n rng)[i]? = some (rng[i]'(by omega), rng[n + i]'(by omega), rng[n * 2 + i]'(by omega)) := by
  have h1 : i < rng.length := by omega
  have h2 : n + i < rng.length := by omega
  have h3 : n * 2 + i < rng.length := by omega
  simp [rngDraws, List.zip_eq_zipWith, List.getElem?_zipWith, List.getElem?_take, List.getElem?_drop, hi, h1, h2, h3]

theorem rngDraws_length (n : Nat) (rng : List α) (h : n * 3 ≤ rng.length) : (rngDraws n rng).length = n := by
  simp [rngDraws, List.length_zip, List.length_take, List.length_drop]; omega

/-- under the only hypothesis needed — the stream holds the `3 · num` numbers the code draws — -/
theorem get_polygon_sample_triangles_of_stream (tris : List (Tri α)) (n : Nat) (rng : List α)
    (h : n * 3 ≤ rng.length) :
    polygonSampleTrianglesSeq tris n rng =
      some ((sampleTriangles tris n (rngDraws n rng)).map (fun r => (r, rng.drop (n * 3)))) := by
  rw [get_polygon_sample_triangles, polygonSampleSpec, if_pos h]

/-- particle by particle: whatever the code returns is `Sample.samplePoint` on the draws of the particle, in order -/
theorem get_polygon_sample_triangles_points (tris : List (Tri α)) (n : Nat) (rng rest : List α)
    (xs ys : List α) (ks : List Nat)
    (h : polygonSampleTrianglesSeq tris n rng = some (some ((xs, ys, ks), rest))) :
    n * 3 ≤ rng.length ∧ rest = rng.drop (n * 3) ∧ tris ≠ [] ∧ ∃ ps : List (α × α × Nat),
      (rngDraws n rng).map (fun d => samplePoint tris d.1 d.2.1 d.2.2) = ps.map some ∧
      xs = ps.map (fun p => p.1) ∧ ys = ps.map (fun p => p.2.1) ∧ ks = ps.map (fun p => p.2.2) := by
  rw [get_polygon_sample_triangles] at h
  simp only [Option.some.injEq] at h
  unfold polygonSampleSpec at h
  split at h
  · rename_i h3
    obtain ⟨r, hr, he⟩ := Option.map_eq_some_iff.mp h
    simp only [Prod.mk.injEq] at he
    obtain ⟨rfl, rfl⟩ := he
    obtain ⟨hne, ps, hps, hr'⟩ := sampleTriangles_points tris n (rngDraws n rng) _ hr
    rw [List.take_of_length_le (Nat.le_of_eq (rngDraws_length n rng h3))] at hps
    simp only [Prod.mk.injEq] at hr'
    exact ⟨h3, rfl, hne, ps, hps, hr'.1, hr'.2.1, hr'.2.2⟩
  · cases h

end

section
variable {α : Type}

theorem mapMM_some {β γ : Type} (g : β → Option γ) (l : List β) :
    mapMM (fun a => some (g a)) l = some (l.mapM g) := by
  induction l with
  | nil => rfl
  | cons a l ih =>
    rw [mapMM, ih, List.mapM_cons]
    cases g a <;> cases l.mapM g <;> rfl

theorem mapMM_of_forall {β γ : Type} (f : β → Option (Option γ)) (g : β → Option γ) (l : List β)
    (h : ∀ a, f a = some (g a)) : mapMM f l = some (l.mapM g) := by
  have : f = fun a => some (g a) := funext h
  rw [this, mapMM_some]


/-- closed form of `get_polygons_from_feature_geometry(geom)`: one ring per polygon, without its closing position;
`none` = the code raises (unknown type, a polygon without rings, a ring without positions) or the coordinates do not
have the nesting the type announces -/
def polygonsSpec (upper : String → String) (g : Geometry α) : Option (List (List (α × α))) :=
  if upper g.gtype = "MULTIPOLYGON" then
    match g.coordinates with
    | .multi polys => (polys.mapM (fun p => List.head? p)).bind (fun rings => rings.mapM removeClosing)
    | _ => none
  else if upper g.gtype = "POLYGON" then
    match g.coordinates with
    | .polygon (r :: _) => (removeClosing r).map (fun c => [c])
    | _ => none
  else none

set_option maxRecDepth 100000 in
theorem ring_body : defBody ringDef Gen.polygons_from_feature_seq = [([], "return", "c[:-1, :]")] := by
  decide

set_option maxRecDepth 100000 in
theorem geom_body : withoutDef ringDef Gen.polygons_from_feature_seq = [
    ([], "def", "remove_closing_coordinate(c)"),
    ([], "assign", "crd = geom['coordinates']"),
    ([(true, "geom['type'].upper() == 'MULTIPOLYGON'")], "assign", "coords = [np.array(p[0]) for p in crd]"),
    ([(false, "geom['type'].upper() == 'MULTIPOLYGON'"), (true, "geom['type'].upper() == 'POLYGON'")], "assign",
      "coords = [np.array(crd[0])]"),
    ([(false, "geom['type'].upper() == 'MULTIPOLYGON'"), (false, "geom['type'].upper() == 'POLYGON'")], "raise",
      "raise ValueError(f\"Unknown geom type: \"{geom['type']}\"\")"),
    ([], "return", "[remove_closing_coordinate(c) for c in coords]")] := by
  decide

set_option maxRecDepth 100000 in
theorem remove_closing_coordinate (c : List (α × α)) :
    runRet ringAtom ringStep ringRet [([], "return", "c[:-1, :]")] (⟨c⟩ : RingSt α) = some (removeClosing c) := by
  simp [runRet, stmtKnown, guardKnown, guardVal, ringAtom, ringStep, ringRet]

local macro "geom_unfold" : tactic => `(tactic|
  simp [runRet, stmtKnown, guardKnown, guardVal, geomAtom, geomStep, geomRet, ringAtom, ringStep, ringRet, mapMM_some,
    polygonsSpec, *])

set_option maxRecDepth 100000 in
/-- **`get_polygons_from_feature_geometry`**: for every geometry object and every `upper` -/
theorem get_polygons_from_feature_geometry (upper : String → String) (g : Geometry α) :
    polygonsFromFeatureSeq upper g = some (polygonsSpec upper g) := by
  unfold polygonsFromFeatureSeq
  rw [ring_body, geom_body]
  obtain ⟨ty, crd⟩ := g
  by_cases hm : upper ty = "MULTIPOLYGON"
  · cases crd with
    | multi polys => cases hh : polys.mapM (fun p => List.head? p) <;> geom_unfold
    | polygon rings => geom_unfold
    | other => geom_unfold
  · by_cases hp : upper ty = "POLYGON"
    · cases crd with
      | polygon rings =>
        cases rings with
        | nil => geom_unfold
        | cons r rs => cases hr : removeClosing r <;> geom_unfold
      | multi polys => geom_unfold
      | other => geom_unfold
    · cases crd <;> geom_unfold

theorem mapM_getElem? {β γ : Type} (f : β → Option γ) : ∀ (l : List β) (r : List γ), l.mapM f = some r →
    ∀ k : Nat, r[k]? = (l[k]?).bind f := by
  intro l r h k
  have hm := mapM_map_some f l r h
  have : (r.map some)[k]? = (l.map f)[k]? := by rw [hm]
  simp only [List.getElem?_map] at this
  cases hl : l[k]? with
  | none => rw [hl] at this; cases hr : r[k]? with
    | none => rfl
    | some b => rw [hr] at this; simp at this
  | some a => rw [hl] at this; cases hr : r[k]? with
    | none => rw [hr] at this; simp at this
    | some b => rw [hr] at this; simp at this; simp [this]

/-- the two re-indexings: row `j` of the per-particle table is the row of the table by feature with the label
`ids[polynum[j]]` (`ids`: the feature number of every polygon); the columns stay those of the table by feature -/
theorem loc_loc_row (att byPoly byParticle : DF α) (ids polynum : List Nat)
    (h1 : att.loc ids = some byPoly) (h2 : byPoly.loc polynum = some byParticle) :
    byParticle.cols = att.cols ∧
    ∀ j : Nat, byParticle.rows[j]? = (polynum[j]?).bind fun (k : Nat) => (ids[k]?).bind fun (i : Nat) => att.rows[i]? := by
  unfold DF.loc at h1 h2
  obtain ⟨r1, hr1, rfl⟩ := Option.map_eq_some_iff.mp h1
  obtain ⟨r2, hr2, rfl⟩ := Option.map_eq_some_iff.mp h2
  refine ⟨rfl, fun j => ?_⟩
  simp only
  rw [mapM_getElem? _ _ _ hr2 j]
  cases polynum[j]? with
  | none => rfl
  | some k => simp only [Option.bind_some]; exact mapM_getElem? _ _ _ hr1 k

/-- entry `k` of the flat polygon list is a polygon of the feature whose number it carries -/
theorem flatWithId_owner {β : Type} (pss : List (List β)) (k i : Nat) (poly : β)
    (h : (flatWithId pss)[k]? = some (i, poly)) : ∃ ps, pss[i]? = some ps ∧ poly ∈ ps := by
  have hm : (i, poly) ∈ flatWithId pss := List.mem_of_getElem? h
  unfold flatWithId at hm
  obtain ⟨p, hp, hq⟩ := List.mem_flatMap.mp hm
  obtain ⟨q, hq1, hq2⟩ := List.mem_map.mp hq
  simp only [Prod.mk.injEq] at hq2
  obtain ⟨rfl, rfl⟩ := hq2
  refine ⟨p.1, ?_, hq1⟩
  have := List.mem_zipIdx_iff_getElem?.mp hp
  simpa using this

/-- row `i` of the table by feature: the properties of feature `i` laid out on the union of all property names -/
theorem dfOfSeries_row (ss : List (List (String × Cell α))) (i : Nat) :
    (dfOfSeries ss).rows[i]? =
      (ss[i]?).map (fun r => (seriesCols ss).map (fun c => (c, (lookup r c).getD Cell.nan))) := by
  simp [dfOfSeries]

end

section
variable {α : Type} [Add α] [Sub α] [Mul α] [Div α] [Neg α] [LT α] [DecidableLT α] [OfScientific α]

/-! ### get_location_file -/

/-- `data[0]` after `if isinstance(data, dict): data = [data]` -/
def firstLayer : GeoData α → Option (Layer α)
  | .layer l => some l
  | .layers (l :: _) => some l
  | .layers [] => none

/-- `get_polygons_from_feature_geometry(f['geometry'])` -/
def featurePolygons (upper : String → String) (ft : Feature α) : Option (List (List (α × α))) :=
  ft.geometry.bind (polygonsSpec upper)

theorem feature_polygons (upper : String → String) (ft : Feature α) :
    featurePolygonsSeq upper ft = some (featurePolygons upper ft) := by
  unfold featurePolygonsSeq featurePolygons
  cases ft.geometry with
  | none => rfl
  | some g => simp [get_polygons_from_feature_geometry]


/-! the statements of `get_location_file` one by one (`rfl`: the exact texts) -/
section steps
variable {φ : Type} (readJson : φ → Option (GeoData α)) (upper : String → String)
  (tri : List (List (α × α)) → Option (List (Tri α) × List Nat)) (draws : List (α × α × α)) (s : FileSt α φ)
set_option maxRecDepth 100000

theorem file_atom_dict : fileAtom s "isinstance(data, dict)" =
    some (match s.data with | some (.layer _) => true | _ => false) := rfl
theorem file_import : fileStep readJson upper tri draws s "import" "import json" = some (some s) := rfl
theorem file_data : fileStep readJson upper tri draws s "assign" "data = json.loads(file.read())" =
    some ((readJson s.file).map (fun d => { s with data := some d })) := rfl
theorem file_wrap : fileStep readJson upper tri draws s "assign" "data = [data]" =
    some (match s.data with
      | some (.layer l) => some { s with data := some (.layers [l]) }
      | _ => none) := rfl
theorem file_layer : fileStep readJson upper tri draws s "assign" "layer = data[0]" =
    some (match s.data with
      | some (.layers (l :: _)) => some { s with layer := some l }
      | _ => none) := rfl
theorem file_feats : fileStep readJson upper tri draws s "assign" "feats = layer['features']" =
    some ((s.layer.bind (fun l => l.features)).map (fun fs => { s with feats := fs })) := rfl
theorem file_att_by_feature : fileStep readJson upper tri draws s "assign"
      "att_by_feature = pd.DataFrame([pd.Series(f.get('properties', {})) for f in feats])" =
    some (some { s with attByFeature := dfOfSeries (s.feats.map (fun f => f.properties.getD [])) }) := rfl
theorem file_polys_flat : fileStep readJson upper tri draws s "assign"
      "polys_flat = [(feature_id, poly) for feature_id, f in enumerate(feats) for poly in get_polygons_from_feature_geometry(f['geometry'])]" =
    (mapMM (featurePolygonsSeq upper) s.feats).map (fun o => o.map (fun pss => { s with polysFlat := flatWithId pss })) :=
  rfl
theorem file_att_by_poly : fileStep readJson upper tri draws s "assign"
      "att_by_poly = att_by_feature.loc[[i for i, _ in polys_flat]].reset_index(drop=True)" =
    some ((s.attByFeature.loc (s.polysFlat.map (fun p => p.1))).map (fun d => { s with attByPoly := d })) := rfl
theorem file_plon : fileStep readJson upper tri draws s "assign" "plon = [p[:, 0] for _, p in polys_flat]" =
    some (some { s with plon := s.polysFlat.map (fun p => p.2.map (fun c => c.1)) }) := rfl
theorem file_plat : fileStep readJson upper tri draws s "assign" "plat = [p[:, 1] for _, p in polys_flat]" =
    some (some { s with plat := s.polysFlat.map (fun p => p.2.map (fun c => c.2)) }) := rfl
theorem file_latlon : fileStep readJson upper tri draws s "assign"
      "slat, slon, polynum = latlon_from_poly(plat, plon, num)" =
    (latlonFromPolySeq tri draws (.multi s.plat) (.multi s.plon) s.num).map
      (fun o => o.map (fun r => { s with slat := r.1, slon := r.2.1, polynum := r.2.2 })) := rfl
theorem file_att_by_particle : fileStep readJson upper tri draws s "assign"
      "att_by_particle = att_by_poly.loc[polynum].reset_index(drop=True)" =
    some ((s.attByPoly.loc s.polynum).map (fun d => { s with attByParticle := d })) := rfl
theorem file_attrs : fileStep readJson upper tri draws s "assign" "attrs = att_by_particle.to_dict(orient='list')" =
    some (some { s with attrs := s.attByParticle.toDict }) := rfl
theorem file_ret : fileRet s "(slon.tolist(), slat.tolist(), attrs)" = some (some (s.slon, s.slat, s.attrs)) := rfl

end steps

theorem feature_polygons_all (upper : String → String) (fs : List (Feature α)) :
    mapMM (featurePolygonsSeq upper) fs = some (fs.mapM (featurePolygons upper)) :=
  mapMM_of_forall _ _ _ (feature_polygons upper)

/-- closed form of `get_location_file(file, num)`: `(lon, lat, property columns)`; `none` = the code raises or leaves
the modelled value space.  `att`: one row per feature; `pss`: the rings of every feature; `flat`: the rings with their
feature number; `byPoly`: one row per ring; `r = (lat, lon, polygon number)` per particle from `latlon_from_poly` with
the latitudes (column 1) first; `byParticle`: one row per particle -/
def locationFileSpec {φ : Type} (readJson : φ → Option (GeoData α)) (upper : String → String)
    (tri : List (List (α × α)) → Option (List (Tri α) × List Nat)) (draws : List (α × α × α))
    (f : φ) (num : Nat) : Option (List α × List α × Frame α) :=
  (readJson f).bind fun data =>
  (firstLayer data).bind fun layer =>
  layer.features.bind fun feats =>
  let att := dfOfSeries (feats.map (fun ft => ft.properties.getD []))
  (feats.mapM (featurePolygons upper)).bind fun pss =>
  let flat := flatWithId pss
  (att.loc (flat.map (fun p => p.1))).bind fun byPoly =>
  (latlonFromPolySpec tri draws (.multi (flat.map (fun p => p.2.map (fun c => c.2))))
      (.multi (flat.map (fun p => p.2.map (fun c => c.1)))) num).bind fun r =>
  (byPoly.loc r.2.2).map fun byParticle => (r.2.1, r.1, byParticle.toDict)

local macro "file_unfold" : tactic => `(tactic|
  simp [getLocationFileSeq, locationFileSpec, Gen.get_location_file_seq, runRet, stmtKnown, guardKnown, guardVal,
    file_atom_dict, file_import, file_data, file_wrap, file_layer, file_feats, file_att_by_feature, file_polys_flat,
    file_att_by_poly, file_plon, file_plat, file_latlon, file_att_by_particle, file_attrs, file_ret,
    FileSt.init, firstLayer, latlon_from_poly, feature_polygons_all, *])

set_option maxRecDepth 100000 in
/-- **`get_location_file`**: for every stream object, reader and particle count -/
theorem get_location_file {φ : Type} (readJson : φ → Option (GeoData α)) (upper : String → String)
    (tri : List (List (α × α)) → Option (List (Tri α) × List Nat)) (draws : List (α × α × α))
    (f : φ) (num : Nat) :
    getLocationFileSeq readJson upper tri draws f num = some (locationFileSpec readJson upper tri draws f num) := by
  cases h1 : readJson f with
  | none => file_unfold
  | some data =>
    rcases data with l | (_ | ⟨l, ls⟩)
    pick_goal 2
    · file_unfold
    all_goals (
      cases hF : l.features with
      | none => file_unfold
      | some feats =>
        cases hP : feats.mapM (featurePolygons upper) with
        | none => file_unfold
        | some pss =>
          cases hA : (dfOfSeries (feats.map (fun ft => ft.properties.getD []))).loc
              ((flatWithId pss).map (fun p => p.1)) with
          | none => file_unfold
          | some byPoly =>
            cases hL : latlonFromPolySpec tri draws (.multi ((flatWithId pss).map (fun p => p.2.map (fun c => c.2))))
                (.multi ((flatWithId pss).map (fun p => p.2.map (fun c => c.1)))) num with
            | none => file_unfold
            | some r => cases hB : byPoly.loc r.2.2 <;> file_unfold)

/-- whatever `get_location_file` returns: the positions are those of `latlon_from_poly` on the rings (latitude =
column 1, longitude = column 0), the columns are the union of the property names of *all* features of the layer, and
the row of particle `j` is the property row of the feature whose number the ring `polynum[j]` carries -/
theorem get_location_file_rows {φ : Type} (readJson : φ → Option (GeoData α)) (upper : String → String)
    (tri : List (List (α × α)) → Option (List (Tri α) × List Nat)) (draws : List (α × α × α))
    (f : φ) (num : Nat) (lon lat : List α) (attrs : Frame α)
    (h : getLocationFileSeq readJson upper tri draws f num = some (some (lon, lat, attrs))) :
    ∃ data layer feats pss r byParticle,
      readJson f = some data ∧ firstLayer data = some layer ∧ layer.features = some feats ∧
      feats.mapM (featurePolygons upper) = some pss ∧
      latlonFromPolySpec tri draws (.multi ((flatWithId pss).map (fun p => p.2.map (fun c => c.2))))
        (.multi ((flatWithId pss).map (fun p => p.2.map (fun c => c.1)))) num = some r ∧
      lon = r.2.1 ∧ lat = r.1 ∧ attrs = DF.toDict byParticle ∧
      byParticle.cols = seriesCols (feats.map (fun ft => ft.properties.getD [])) ∧
      ∀ j : Nat, byParticle.rows[j]? = (r.2.2[j]?).bind fun (k : Nat) => ((flatWithId pss)[k]?).bind fun p =>
        (dfOfSeries (feats.map (fun ft => ft.properties.getD []))).rows[p.1]? := by
  rw [get_location_file] at h
  simp only [Option.some.injEq] at h
  unfold locationFileSpec at h
  obtain ⟨data, h1, h⟩ := Option.bind_eq_some_iff.mp h
  obtain ⟨layer, h2, h⟩ := Option.bind_eq_some_iff.mp h
  obtain ⟨feats, h3, h⟩ := Option.bind_eq_some_iff.mp h
  obtain ⟨pss, h4, h⟩ := Option.bind_eq_some_iff.mp h
  obtain ⟨byPoly, h5, h⟩ := Option.bind_eq_some_iff.mp h
  obtain ⟨r, h6, h⟩ := Option.bind_eq_some_iff.mp h
  obtain ⟨byParticle, h7, h⟩ := Option.map_eq_some_iff.mp h
  simp only [Prod.mk.injEq] at h
  obtain ⟨rfl, rfl, rfl⟩ := h
  obtain ⟨hc, hr⟩ := loc_loc_row _ _ _ _ _ h5 h7
  refine ⟨data, layer, feats, pss, r, byParticle, h1, h2, h3, h4, h6, rfl, rfl, rfl, hc, fun j => ?_⟩
  rw [hr j]
  cases r.2.2[j]? with
  | none => rfl
  | some k =>
    simp only [Option.bind_some, List.getElem?_map]
    cases (flatWithId pss)[k]? <;> rfl

end

/-! non-vacuity: the type is compared after `upper`; the closing position goes; only the first ring is used -/
example (upper : String → String) (h : upper "Polygon" = "POLYGON") :
    polygonsSpec upper (⟨"Polygon", .polygon [[(0, 0), (4, 0), (4, 3), (0, 0)], [(1, 1)]]⟩ : Geometry Nat)
      = some [[(0, 0), (4, 0), (4, 3)]] := by
  simp [polygonsSpec, removeClosing, h]
example (upper : String → String) (h : upper "multipolygon" = "MULTIPOLYGON") :
    polygonsSpec upper
      (⟨"multipolygon", .multi [[[(0, 0), (4, 0), (4, 3), (0, 0)]], [[(7, 7), (8, 7), (8, 8), (7, 7)], []]]⟩ : Geometry Nat)
      = some [[(0, 0), (4, 0), (4, 3)], [(7, 7), (8, 7), (8, 8)]] := by
  simp [polygonsSpec, removeClosing, h]
example (upper : String → String) (h : upper "LineString" = "LINESTRING") :
    polygonsSpec upper (⟨"LineString", .other⟩ : Geometry Nat) = none := by
  simp [polygonsSpec, h]
example : flatWithId [["p0"], [], ["p1", "p2"]] = [(0, "p0"), (2, "p1"), (2, "p2")] := by decide

end Bridge
