import LadimProofs.Basic
import LadimModel.Release.Attr
import LadimModel.Generated.Formulas
/-!
# Bridge (C04) — release attributes: the hand-written model *is* the code

Generated windows of `release/makrel.py`: the clipping of the gaussian / exponential attribute draws.  The gaussian clip is the site of known finding F-C04a
(`np.clip(minimum, maximum, r)`): the bridge is stated for either argument order (`ClipArgs`), so that the code as
it is and its repair both check, and anything else does not.
-/
open Ladim

set_option linter.unusedSectionVars false
set_option linter.unusedVariables false
set_option linter.unusedTactic false
set_option linter.unreachableTactic false
namespace Bridge
variable {α : Type} [Field α] [LinearOrder α] [IsStrictOrderedRing α]

/-- the gaussian clip of the current source is one of the two modelled argument orders -/
theorem rel_gaussian (mean std mn mx z : α) :
    (∀ r0, Gen.rel_gaussian r0 mn mx = fmin (fmax mn mx) r0) ∨ (∀ r0, Gen.rel_gaussian r0 mn mx = fmin (fmax r0 mn) mx) := by
  first
  | (left; intro r0; simp [Gen.rel_gaussian]; done)
  | (right; intro r0; simp [Gen.rel_gaussian]; done)

theorem rel_gaussian_model (mean std mn mx z : α) :
    Gen.rel_gaussian (mean + std * z) mn mx = Attr.gaussianValue .swapped mean std (some mn) (some mx) z ∨
    Gen.rel_gaussian (mean + std * z) mn mx = Attr.gaussianValue .correct mean std (some mn) (some mx) z := by
  first
  | (left; simp [Gen.rel_gaussian, Attr.gaussianValue]; done)
  | (right; simp [Gen.rel_gaussian, Attr.gaussianValue, Attr.capMax, Attr.capMin]; done)

theorem rel_exponential (mean mx e : α) :
    Attr.exponentialValue mean (some mx) e = Gen.rel_exponential (mean * e) mx := by
  simp [Attr.exponentialValue, Attr.capMax, Gen.rel_exponential]

end Bridge
