import LadimProofs.Basic
import LadimModel.IBM.Chemicals
import LadimModel.IBM.Sedimentation
import LadimModel.IBM.Bio
/-!
# Bridge (C07) — the hand-written per-particle model *is* the code

`LadimModel/Generated/Formulas.lean` is regenerated from /repo's current source on every run.  Besides the closed-form
formulas it contains the statement windows of the IBM update rules, translated operation by operation from the
numpy-mask code.  Each theorem below states that a hand-written model function used by the property theorems equals
the generated window (or a composition of generated windows).  They are re-checked by the kernel on every run: a
change of the source inside a window either breaks the translation or one of these equalities, and the property
theorems proved about the hand-written model keep speaking about what the code says now.

Ageing, mortality and death.
-/
open Ladim

set_option linter.unusedSectionVars false
set_option linter.unusedVariables false
set_option linter.unnecessarySeqFocus false
namespace Bridge
variable {α : Type} [Field α] [LinearOrder α] [IsStrictOrderedRing α]

theorem lice_age (age days temp sdt : α) :
    (age + temp * sdt / 86400.0, days + 1.0 * (sdt / 86400.0)) = Gen.lice_age age days temp sdt := by
  simp [Gen.lice_age]

theorem lice_alive (alive : Bool) (age : α) :
    (alive && decide (age < 170.0)) = Gen.lice_alive alive age := by
  simp [Gen.lice_alive]

theorem egg_age (age temp dt : α) : Bio.degreeDayAge age temp dt = Gen.egg_age age temp dt := by
  simp [Bio.degreeDayAge, Gen.egg_age]

section
open Ladim.Chemicals
theorem chem_kill_old (age dt L : α) (alive : Bool) :
    (age + dt, alive && decide (age + dt ≤ L)) = Gen.chem_kill_old age dt alive L := by
  simp [Gen.chem_kill_old]
end

section
open Ladim.Sed
theorem sed_kill_old (age sdt L : α) (alive : Bool) :
    (age + sdt, alive && decide (age + sdt ≤ L)) = Gen.sed_kill_old age sdt alive L := by
  simp [Gen.sed_kill_old]
end

section
open Ladim.Sed
theorem mine_kill_old (age sdt L : α) (alive : Bool) :
    (age + sdt, alive && decide (age + sdt ≤ L)) = Gen.mine_kill_old age sdt alive L := by
  simp [Gen.mine_kill_old]
end

theorem vps_update (maxDepth dt u fu fv : α) (p : Bio.Vps α) :
    Bio.vpsUpdate maxDepth dt u fu fv p =
      let aa := Gen.vps_age_alive p.age p.alive dt 1073741824.0
      ⟨Bio.vpsZ maxDepth u, aa.1, Gen.vps_reached aa.2 fu fv⟩ := by
  simp [Bio.vpsUpdate, Bio.isZeroS, Gen.vps_age_alive, Gen.vps_reached, Gen.feq]

end Bridge
