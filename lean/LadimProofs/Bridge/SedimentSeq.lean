import LadimModel.IBM.SedimentSeq
import LadimProofs.C08
/-!
# Bridge (C05, C07, C08, C20) — the methods of the sedimentation and mine IBMs are the statement sequences of the code

`Gen.sed_*_seq` / `Gen.mine_*_seq` (guard, kind and text of every statement of the methods `initialize`, `resuspend`,
`diffuse`, `sink`, `bury`, `kill_old`, `shear_velocity_btm` of `sedimentation/ibm.py` and `mine/ibm.py`, regenerated
from the current source) are interpreted for one particle by `LadimModel/IBM/SedimentSeq.lean` (strict runner
`Seq.runFn`: every statement, condition and `return` expression must be a known text, also in branches not taken).
The order of the method calls in `update_ibm` is `Bridge.sed_update_seq` / `Bridge.mine_update_seq`
(`LadimProofs/Bridge/Seq.lean`); the `sed_call_*` / `mine_call_*` theorems below say that the `call` steps used there
are the interpretations of the method bodies.

* `sed_shear_velocity_seq`, `mine_shear_velocity_seq`: (cache afterwards, returned value) = `Grain.Cache.get cache t
  (Sed.ustar ub vb)`; no hypothesis.  `*_fresh`, `*_same_step`: `C08.cache_fresh`, `C08.cache_same_step` on it.
* `sed_resuspend_seq_full`, `sed_diffuse_seq_full`, `mine_resuspend_seq_full`: closed forms with the value the cache
  protocol returns; no hypothesis.  With `Coherent cache t (ustar e.ub e.vb)` (the cache is stale at step `t`, or holds
  the particle's bottom shear velocity): `sed_resuspend_seq` = `Sed.resuspend e a`, `sed_diffuse_seq` =
  `Sed.diffuse c e xi a z`, `mine_resuspend_seq` = `Sed.Mine.resusp c e active` (there also: the flag is a value the
  carrier holds, `c.carrier.store active = active`, and the state has the variable `active` or no resuspension is
  configured — `mine_resuspend_seq_raises`: otherwise the code raises, while `Sed.Mine.update` returns a particle).
* `sed_bury_seq` = `Sed.bury H a z` (alive untouched); `mine_bury_seq`: `Sed.bury` on `self.active()`, the flag written
  iff `has_active()`, `alive &= ~at_seabed` on the selected particles iff no resuspension; no hypothesis.
* `sed_sink_seq` = `Sed.sink dt w a z`; `mine_sink_seq` = `Sed.sink dt (if vadv then w + wvel else w) act z`;
  `mine_diffuse_seq` = `if act = 0 then z else Sed.mixMine vdiff dt xi z`; no hypothesis.
* `sed_kill_old_seq`, `mine_kill_old_seq`: `(age + state.dt, alive && age + state.dt ≤ lifespan)` for EVERY particle —
  the left-hand side of `Bridge.sed_kill_old` / `Bridge.mine_kill_old` (`LadimProofs/Bridge/Age.lean`), i.e. the
  generated windows `Gen.sed_kill_old` / `Gen.mine_kill_old`; no hypothesis.
* `sed_initialize_seq`: `if isZero sink_vel then newSink else sink_vel`, whatever the number of other new particles.

Only the operations of the scalar type are used (no field or order laws): the statements hold for every scalar type,
`Float` included.
-/
open Ladim Ladim.Seq Ladim.Sed Ladim.Grain

set_option linter.unusedSimpArgs false
set_option linter.unusedVariables false
set_option linter.unusedSectionVars false
set_option linter.unnecessarySeqFocus false
namespace Bridge
variable {α : Type} [Add α] [Sub α] [Mul α] [Div α] [Neg α] [LT α] [DecidableLT α]
  [LE α] [DecidableLE α] [OfScientific α] [HasSqrt α]

/-! ### `shear_velocity_btm` -/

theorem sed_shear_velocity_seq (cache : Cache α) (t : Int) (H ub vb : α) :
    Seq.runSedShearVelocity Gen.sed_shear_velocity_seq cache t H ub vb
      = some (some (cache.get t (Sed.ustar ub vb))) := by
  by_cases h : cache.tstep < t <;>
  simp [Seq.runSedShearVelocity, Gen.sed_shear_velocity_seq, Seq.runFn, Seq.fnStmtKnown, Seq.fnGuardKnown,
    Seq.guardVal, Seq.usAtom, Seq.sedUsStep, Seq.usCommon, Seq.usVelocity, Seq.usRet, Seq.UsSt.init, Cache.get,
    Sed.ustar, h]

theorem mine_shear_velocity_seq (cache : Cache α) (t : Int) (H ub vb : α) :
    Seq.runMineShearVelocity Gen.mine_shear_velocity_seq cache t H ub vb
      = some (some (cache.get t (Sed.ustar ub vb))) := by
  by_cases h : cache.tstep < t <;>
  simp [Seq.runMineShearVelocity, Gen.mine_shear_velocity_seq, Seq.runFn, Seq.fnStmtKnown, Seq.fnGuardKnown,
    Seq.guardVal, Seq.usAtom, Seq.mineUsStep, Seq.usCommon, Seq.usVelocity, Seq.usRet, Seq.UsSt.init, Cache.get,
    Sed.ustar, h]

/-- `C08.cache_fresh` on the interpretation: the step counter has increased since the cached evaluation — the value is
computed anew from the current bottom velocity and the step is stored -/
theorem sed_shear_velocity_fresh (cache : Cache α) (t : Int) (H ub vb : α) (h : cache.tstep < t) :
    ∃ r, Seq.runSedShearVelocity Gen.sed_shear_velocity_seq cache t H ub vb = some (some r)
      ∧ r.2 = Sed.ustar ub vb ∧ r.1.tstep = t :=
  ⟨_, sed_shear_velocity_seq cache t H ub vb, C08.cache_fresh cache t _ h⟩

/-- `C08.cache_same_step` on the interpretation: within the same step the cached value is returned, whatever the
bottom velocity is now, and the cache is left as it is -/
theorem sed_shear_velocity_same_step (cache : Cache α) (H ub vb : α) :
    Seq.runSedShearVelocity Gen.sed_shear_velocity_seq cache cache.tstep H ub vb = some (some (cache, cache.value)) := by
  rw [sed_shear_velocity_seq]
  have h := C08.cache_same_step cache (Sed.ustar ub vb)
  exact congrArg (fun r => some (some r)) (Prod.ext h.2 h.1)

theorem mine_shear_velocity_fresh (cache : Cache α) (t : Int) (H ub vb : α) (h : cache.tstep < t) :
    ∃ r, Seq.runMineShearVelocity Gen.mine_shear_velocity_seq cache t H ub vb = some (some r)
      ∧ r.2 = Sed.ustar ub vb ∧ r.1.tstep = t :=
  ⟨_, mine_shear_velocity_seq cache t H ub vb, C08.cache_fresh cache t _ h⟩

theorem mine_shear_velocity_same_step (cache : Cache α) (H ub vb : α) :
    Seq.runMineShearVelocity Gen.mine_shear_velocity_seq cache cache.tstep H ub vb
      = some (some (cache, cache.value)) := by
  rw [mine_shear_velocity_seq]
  have h := C08.cache_same_step cache (Sed.ustar ub vb)
  exact congrArg (fun r => some (some r)) (Prod.ext h.2 h.1)

/-- the cache may be used at step `t` by a particle whose bottom shear velocity is `v`: it is stale (and will be
recomputed), or it holds `v` -/
def Coherent (cache : Cache α) (t : Int) (v : α) : Prop := cache.tstep < t ∨ cache.value = v

theorem get_of_coherent {cache : Cache α} {t : Int} {v : α} (h : Coherent cache t v) : (cache.get t v).2 = v := by
  unfold Cache.get
  by_cases hs : cache.tstep < t
  · simp [hs]
  · rcases h with h | h
    · exact absurd h hs
    · simp [hs, h]

theorem coherent_get {cache : Cache α} {t : Int} {v : α} (h : Coherent cache t v) :
    (cache.get t v).1.value = v ∧ ¬ (cache.get t v).1.tstep < t := by
  unfold Cache.get
  by_cases hs : cache.tstep < t
  · simp [hs]
  · rcases h with h | h
    · exact absurd h hs
    · simp [hs, h]

/-! ### `resuspend` -/

theorem sed_resuspend_seq_full (cache : Cache α) (t : Int) (e : Sed.Env α) (a : Nat) :
    Seq.runSedResuspend Gen.sed_resuspend_seq cache t e a = some (some (
      match e.taucrit with
      | none => (a, cache)
      | some tc => (if tc ≤ shearStress (cache.get t (ustar e.ub e.vb)).2 then 1 else a,
          (cache.get t (ustar e.ub e.vb)).1))) := by
  rcases hg : cache.get t (ustar e.ub e.vb) with ⟨k, v⟩
  cases h : e.taucrit <;>
  simp [Seq.runSedResuspend, Gen.sed_resuspend_seq, Seq.runFn, Seq.fnStmtKnown, Seq.fnGuardKnown,
    Seq.guardVal, Seq.resAtom, Seq.resStep, Seq.resRet, Seq.resFin, Seq.ResSt.init, Seq.sedShearVelocitySeq,
    sed_shear_velocity_seq, hg, h]

theorem sed_resuspend_seq (cache : Cache α) (t : Int) (e : Sed.Env α) (a : Nat)
    (hc : Coherent cache t (ustar e.ub e.vb)) :
    Seq.runSedResuspend Gen.sed_resuspend_seq cache t e a = some (some (Sed.resuspend e a,
      if e.taucrit.isSome then (cache.get t (ustar e.ub e.vb)).1 else cache)) := by
  rw [sed_resuspend_seq_full, get_of_coherent hc]
  unfold Sed.resuspend
  cases e.taucrit <;> simp

theorem mine_resuspend_seq_full (c : Mine.Config α) (cache : Cache α) (t : Int) (e : Mine.Env α) (active : Nat) :
    Seq.runMineResuspend Gen.mine_resuspend_seq c cache t e active = some (
      match c.taucrit with
      | none => some (active, cache)
      | some tc =>
        if c.hasActive then
          some (if tc ≤ shearStress (cache.get t (ustar e.ub e.vb)).2 then 1 else active,
            (cache.get t (ustar e.ub e.vb)).1)
        else none) := by
  rcases hg : cache.get t (ustar e.ub e.vb) with ⟨k, v⟩
  cases h : c.taucrit <;> cases hA : c.hasActive <;>
  simp [Seq.runMineResuspend, Gen.mine_resuspend_seq, Seq.runFn, Seq.fnStmtKnown, Seq.fnGuardKnown,
    Seq.guardVal, Seq.resAtom, Seq.resStep, Seq.resRet, Seq.resFin, Seq.ResSt.init, Seq.mineShearVelocitySeq,
    mine_shear_velocity_seq, hg, h, hA]

theorem store_one (k : Carrier) : k.store 1 = 1 := by cases k <;> rfl
theorem store_zero (k : Carrier) : k.store 0 = 0 := by cases k <;> rfl

theorem mine_resuspend_seq (c : Mine.Config α) (cache : Cache α) (t : Int) (e : Mine.Env α) (active : Nat)
    (hA : c.hasActive = true ∨ c.taucrit = none) (hs : c.carrier.store active = active)
    (hc : Coherent cache t (ustar e.ub e.vb)) :
    Seq.runMineResuspend Gen.mine_resuspend_seq c cache t e active = some (some (Mine.resusp c e active,
      if c.taucrit.isSome then (cache.get t (ustar e.ub e.vb)).1 else cache)) := by
  rw [mine_resuspend_seq_full, get_of_coherent hc]
  unfold Mine.resusp
  cases h : c.taucrit with
  | none => simp
  | some tc =>
    have hA' : c.hasActive = true := by
      rcases hA with hA | hA
      · exact hA
      · rw [h] at hA; cases hA
    by_cases hle : tc ≤ shearStress (ustar e.ub e.vb) <;> simp [hA', hle, hs, store_one]

/-- the code raises (`AttributeError`: `self.state.active`) when resuspension is configured and the state has no
variable `active`; `Sed.Mine.update` returns a particle there -/
theorem mine_resuspend_seq_raises (c : Mine.Config α) (cache : Cache α) (t : Int) (e : Mine.Env α) (active : Nat)
    (tc : α) (hA : c.hasActive = false) (h : c.taucrit = some tc) :
    Seq.runMineResuspend Gen.mine_resuspend_seq c cache t e active = some none := by
  rw [mine_resuspend_seq_full, h]; simp [hA]

/-! ### `bury` -/

theorem sed_bury_seq (H z : α) (a : Nat) (alive : Bool) :
    Seq.runSedBury Gen.sed_bury_seq H z a alive = some (some ((Sed.bury H a z).1, (Sed.bury H a z).2, alive)) := by
  by_cases ha : a = 0 <;> by_cases hz : H < z <;>
  simp [Seq.runSedBury, Gen.sed_bury_seq, Seq.runFn, Seq.fnStmtKnown, Seq.fnGuardKnown, Seq.guardVal,
    Seq.sedBuryAtom, Seq.sedBuryStep, Seq.buryCommon, Seq.buryActive, Seq.buryRet, Seq.buryFin, Seq.BurySt.init,
    Sed.bury, ha, hz]

theorem mine_bury_seq (c : Mine.Config α) (H z : α) (active : Nat) (alive : Bool) :
    Seq.runMineBury Gen.mine_bury_seq c H z active alive = some (some (
      (Sed.bury H (if c.hasActive then active else 1) z).1,
      (if c.hasActive then (Sed.bury H (if c.hasActive then active else 1) z).2 else active),
      (if (if c.hasActive then active else 1) ≠ 0 ∧ c.taucrit.isNone then
        alive && decide ((Sed.bury H (if c.hasActive then active else 1) z).2 ≠ 0) else alive))) := by
  cases hA : c.hasActive <;> cases ht : c.taucrit <;> by_cases ha : active = 0 <;> by_cases hz : H < z <;>
  simp [Seq.runMineBury, Gen.mine_bury_seq, Seq.runFn, Seq.fnStmtKnown, Seq.fnGuardKnown, Seq.guardVal,
    Seq.mineBuryAtom, Seq.mineBuryStep, Seq.buryCommon, Seq.buryActive, Seq.buryRet, Seq.buryFin, Seq.BurySt.init,
    Sed.bury, hA, ht, ha, hz]

/-! ### `diffuse` -/

theorem sed_diffuse_seq_full (c : Sed.Config α) (cache : Cache α) (t : Int) (e : Sed.Env α) (xi : α) (a : Nat)
    (z : α) :
    Seq.runSedDiffuse Gen.sed_diffuse_seq c cache t e xi a z = some (some (
      match c.mixing with
      | .none => (z, cache)
      | .const v => (if a = 0 then z else mixConst v e.H c.dt xi z, (cache.get t (ustar e.ub e.vb)).1)
      | .boundedLinear m =>
        (if a = 0 then z else mixBoundedLinear m e.H c.dt (cache.get t (ustar e.ub e.vb)).2 xi z,
          (cache.get t (ustar e.ub e.vb)).1))) := by
  rcases hg : cache.get t (ustar e.ub e.vb) with ⟨k, v⟩
  cases h : c.mixing <;> by_cases ha : a = 0 <;>
  simp [Seq.runSedDiffuse, Gen.sed_diffuse_seq, Seq.runFn, Seq.fnStmtKnown, Seq.fnGuardKnown,
    Seq.guardVal, Seq.sedDiffAtom, Seq.sedDiffStep, Seq.diffRet, Seq.diffFin, Seq.DiffSt.init,
    Seq.sedShearVelocitySeq, sed_shear_velocity_seq, hg, h, ha]

theorem sed_diffuse_seq (c : Sed.Config α) (cache : Cache α) (t : Int) (e : Sed.Env α) (xi : α) (a : Nat) (z : α)
    (hc : Coherent cache t (ustar e.ub e.vb)) :
    Seq.runSedDiffuse Gen.sed_diffuse_seq c cache t e xi a z = some (some (Sed.diffuse c e xi a z,
      match c.mixing with
      | .none => cache
      | _ => (cache.get t (ustar e.ub e.vb)).1)) := by
  rw [sed_diffuse_seq_full, get_of_coherent hc]
  unfold Sed.diffuse
  cases c.mixing <;> by_cases ha : a = 0 <;> simp [ha]

theorem mine_diffuse_seq (vdiff dt xi : α) (act : Nat) (z : α) :
    Seq.runMineDiffuse Gen.mine_diffuse_seq vdiff dt xi act z
      = some (some (if act = 0 then z else mixMine vdiff dt xi z)) := by
  by_cases ha : act = 0 <;>
  simp [Seq.runMineDiffuse, Gen.mine_diffuse_seq, Seq.runFn, Seq.fnStmtKnown, Seq.fnGuardKnown,
    Seq.guardVal, Seq.mineDiffAtom, Seq.mineDiffStep, Seq.mineDiffRet, Seq.MDiffSt.init, mixMine, ha]

/-! ### `sink` -/

theorem sed_sink_seq (dt w : α) (a : Nat) (z : α) :
    Seq.runSedSink Gen.sed_sink_seq dt w a z = some (some (Sed.sink dt w a z)) := by
  by_cases ha : a = 0 <;>
  simp [Seq.runSedSink, Gen.sed_sink_seq, Seq.runFn, Seq.fnStmtKnown, Seq.fnGuardKnown, Seq.guardVal,
    Seq.sedSinkAtom, Seq.sedSinkStep, Seq.sinkCommon, Seq.sinkRet, Seq.SinkSt.init, Sed.sink, ha]

theorem mine_sink_seq (dt w wvel : α) (vadv : Bool) (act : Nat) (z : α) :
    Seq.runMineSink Gen.mine_sink_seq dt w wvel vadv act z
      = some (some (Sed.sink dt (if vadv then w + wvel else w) act z)) := by
  cases vadv <;> by_cases ha : act = 0 <;>
  simp [Seq.runMineSink, Gen.mine_sink_seq, Seq.runFn, Seq.fnStmtKnown, Seq.fnGuardKnown, Seq.guardVal,
    Seq.mineSinkAtom, Seq.mineSinkStep, Seq.sinkCommon, Seq.sinkRet, Seq.SinkSt.init, Sed.sink, ha]

/-! ### `kill_old` -/

theorem sed_kill_old_seq (stateDt lifespan age : α) (alive : Bool) :
    Seq.runSedKillOld Gen.sed_kill_old_seq stateDt lifespan age alive
      = some (some (age + stateDt, alive && decide (age + stateDt ≤ lifespan))) := by
  simp [Seq.runSedKillOld, Gen.sed_kill_old_seq, Seq.runFn, Seq.fnStmtKnown, Seq.fnGuardKnown, Seq.guardVal,
    Seq.killAtom, Seq.sedKillStep, Seq.killCommon, Seq.killRet, Seq.killFin, Seq.KillSt.init]

theorem mine_kill_old_seq (stateDt lifespan age : α) (alive : Bool) :
    Seq.runMineKillOld Gen.mine_kill_old_seq stateDt lifespan age alive
      = some (some (age + stateDt, alive && decide (age + stateDt ≤ lifespan))) := by
  simp [Seq.runMineKillOld, Gen.mine_kill_old_seq, Seq.runFn, Seq.fnStmtKnown, Seq.fnGuardKnown, Seq.guardVal,
    Seq.killAtom, Seq.mineKillStep, Seq.killCommon, Seq.killRet, Seq.killFin, Seq.KillSt.init]

/-! ### `initialize` -/

theorem sed_initialize_seq (numOthers : Nat) (newSink sinkVel : α) :
    Seq.runSedInitialize Gen.sed_initialize_seq numOthers newSink sinkVel
      = some (some (if isZero sinkVel then newSink else sinkVel)) := by
  cases hz : isZero sinkVel <;> cases numOthers <;>
  simp [Seq.runSedInitialize, Gen.sed_initialize_seq, Seq.runFn, Seq.fnStmtKnown, Seq.fnGuardKnown, Seq.guardVal,
    Seq.sedInitAtom, Seq.sedInitStep, Seq.sedInitRet, Seq.SedInitSt.init, hz]

/-! ### the `call` steps of the interpreter of `update_ibm` (`Seq.sedStep`, `Seq.mineStep`; `LadimProofs/Bridge/Seq.lean`) -/

theorem sed_call_initialize (c : Sed.Config α) (e : Sed.Env α) (xi : α) (s : SedSt α) (numOthers : Nat) :
    Seq.sedStep c e xi s "call" "initialize"
      = (Seq.runSedInitialize Gen.sed_initialize_seq numOthers e.newSink s.sinkVel).join.map
          (fun v => { s with sinkVel := v }) := by
  rw [sed_initialize_seq]; simp [Seq.sedStep]

theorem sed_call_resuspend (c : Sed.Config α) (e : Sed.Env α) (xi : α) (s : SedSt α) (cache : Cache α) (t : Int)
    (hc : Coherent cache t (ustar e.ub e.vb)) (hs : c.carrier.store s.active = s.active) :
    Seq.sedStep c e xi s "call" "resuspend"
      = (Seq.runSedResuspend Gen.sed_resuspend_seq cache t e s.active).join.map
          (fun r => { s with active := r.1 }) := by
  have h : c.carrier.store (resuspend e s.active) = resuspend e s.active := by
    unfold resuspend
    cases e.taucrit with
    | none => exact hs
    | some tc => by_cases hle : tc ≤ shearStress (ustar e.ub e.vb) <;> simp [hle, hs, store_one]
  rw [sed_resuspend_seq _ _ _ _ hc]; simp [Seq.sedStep, h]

theorem sed_call_diffuse (c : Sed.Config α) (e : Sed.Env α) (xi : α) (s : SedSt α) (cache : Cache α) (t : Int)
    (hc : Coherent cache t (ustar e.ub e.vb)) :
    Seq.sedStep c e xi s "call" "diffuse"
      = (Seq.runSedDiffuse Gen.sed_diffuse_seq c cache t e xi s.active s.z).join.map
          (fun r => { s with z := r.1 }) := by
  rw [sed_diffuse_seq _ _ _ _ _ _ _ hc]; simp [Seq.sedStep]

theorem sed_call_sink (c : Sed.Config α) (e : Sed.Env α) (xi : α) (s : SedSt α) :
    Seq.sedStep c e xi s "call" "sink"
      = (Seq.runSedSink Gen.sed_sink_seq c.dt s.sinkVel s.active s.z).join.map (fun z => { s with z := z }) := by
  rw [sed_sink_seq]; simp [Seq.sedStep]

theorem sed_call_bury (c : Sed.Config α) (e : Sed.Env α) (xi : α) (s : SedSt α) :
    Seq.sedStep c e xi s "call" "bury"
      = (Seq.runSedBury Gen.sed_bury_seq e.H s.z s.active s.alive).join.map
          (fun r => { s with z := r.1, active := r.2.1, alive := r.2.2 }) := by
  rw [sed_bury_seq]; simp [Seq.sedStep]

theorem sed_call_kill_old (c : Sed.Config α) (e : Sed.Env α) (xi : α) (s : SedSt α) :
    Seq.sedStep c e xi s "call" "kill_old"
      = (Seq.runSedKillOld Gen.sed_kill_old_seq c.stateDt c.lifespan s.age s.alive).join.map
          (fun r => { s with age := r.1, alive := r.2 }) := by
  rw [sed_kill_old_seq]; simp [Seq.sedStep]

theorem mine_call_resuspend (c : Mine.Config α) (e : Mine.Env α) (xi : α) (s : MineSt α) (cache : Cache α) (t : Int)
    (hA : c.hasActive = true ∨ c.taucrit = none) (hs : c.carrier.store s.act = s.act)
    (hc : Coherent cache t (ustar e.ub e.vb)) :
    Seq.mineStep c e xi s "call" "resuspend"
      = (Seq.runMineResuspend Gen.mine_resuspend_seq c cache t e s.act).join.map
          (fun r => { s with act := r.1 }) := by
  rw [mine_resuspend_seq _ _ _ _ _ hA hs hc]; simp [Seq.mineStep]

theorem mine_call_diffuse (c : Mine.Config α) (e : Mine.Env α) (xi : α) (s : MineSt α) :
    Seq.mineStep c e xi s "call" "diffuse"
      = (Seq.runMineDiffuse Gen.mine_diffuse_seq c.vdiff c.dt xi s.act s.z).join.map
          (fun z => { s with z := z }) := by
  rw [mine_diffuse_seq]; simp [Seq.mineStep]

theorem mine_call_sink (c : Mine.Config α) (e : Mine.Env α) (xi : α) (s : MineSt α) :
    Seq.mineStep c e xi s "call" "sink"
      = (Seq.runMineSink Gen.mine_sink_seq c.dt s.sinkVel e.w c.vadv s.act s.z).join.map
          (fun z => { s with z := z }) := by
  rw [mine_sink_seq]; simp [Seq.mineStep]

/-- `s.act` is the value of `self.active()`: 1 when the state has no variable `active` (`MineSt.init`) -/
theorem mine_call_bury (c : Mine.Config α) (e : Mine.Env α) (xi : α) (s : MineSt α)
    (hact : c.hasActive = false → s.act = 1) :
    Seq.mineStep c e xi s "call" "bury"
      = (Seq.runMineBury Gen.mine_bury_seq c e.H s.z s.act s.alive).join.map
          (fun r => { s with z := r.1, act := r.2.1, alive := r.2.2 }) := by
  rw [mine_bury_seq]
  cases hA : c.hasActive with
  | true => simp [Seq.mineStep, hA]
  | false => simp [Seq.mineStep, hA, hact hA]

theorem mine_call_kill_old (c : Mine.Config α) (e : Mine.Env α) (xi : α) (s : MineSt α) :
    Seq.mineStep c e xi s "call" "kill_old"
      = (Seq.runMineKillOld Gen.mine_kill_old_seq c.stateDt c.lifespan s.age s.alive).join.map
          (fun r => { s with age := r.1, alive := r.2 }) := by
  rw [mine_kill_old_seq]; simp [Seq.mineStep]

end Bridge
