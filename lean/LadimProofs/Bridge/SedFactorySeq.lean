import LadimModel.IBM.SedFactorySeq
import LadimProofs.Bridge.Mixing
import LadimProofs.C08
/-!
# Bridge (C08, C20, C05, C07) — factories, constructors and file writers of the sedimentation and mine IBMs

The generated statement sequences `Gen.sed_ctor_seq`, `sed_get_taucrit_fn_seq`, `sed_get_taucrit_fn_grain_size_seq`,
`sed_get_vdiff_fn_seq`, `sed_get_vdiff_constant_fn_seq`, `sed_get_vdiff_bounded_linear_fn_seq`, `sed_sinkvel_seq`,
`sed_ladis_seq`, `mine_ctor_seq`, `mine_has_active_seq`, `mine_active_seq`, `mine_store_seq`,
`mine_get_taucrit_fn_seq`, `mine_get_vdiff_constant_fn_seq`, `mine_create_outfile_seq`, `mine_update_outfile_seq`
(guard, kind and text of every statement, regenerated from the current source) are interpreted by
`LadimModel/IBM/SedFactorySeq.lean` (strict runner `Seq.runFn`: every statement, condition and `return` expression
must be a known text, also in branches not taken; nested functions are interpreted as functions of their own).
Every theorem holds for EVERY input and has NO hypothesis; unless said otherwise only the operations of the scalar
type are used (no field or order law), so the statements hold for every scalar type, `Float` included.
Outcomes: `none` = the code raises (or leaves the modelled value space); the outer `some` of every right-hand side
says that every text of the sequence is a known one.

Equalities with the hand-written model (`LadimModel/IBM/Sedimentation.lean`, `Grain.lean`):
* `sed_get_vdiff_constant_fn`, `mine_get_vdiff_constant_fn` : the returned `fn` is `sfMixFnOf (.const value)` =
  `Sed.mixConst value h dt (draw .stdNormal) z` (the draw comes from `np.random.randn`);
* `sed_get_vdiff_bounded_linear_fn` : `sfMixFnOf (.boundedLinear max_diff)` = `Sed.mixBoundedLinear max_diff h dt ustar
  (draw .stdNormal) z` (`np.random.normal`); `sf_get_turbulence` : the nested `get_turbulence` is `Gen.sed_turbulence`;
* `sed_get_vdiff_fn` : `(sfMixingOf conf).map sfMixFnOf` — which configuration value gives which `Sed.Mixing`
  (`None` → `.none`; a number or `{method: constant, value}` → `.const`; `{method: bounded_linear, max_diff}` →
  `.boundedLinear`; anything else raises); `sf_diffuse_of_mix_fn` : calling that function object on the suspended
  particles is `Sed.diffuse`;
* `sed_get_taucrit_fn_grain_size` : `sfGrainSpec` — `sedvalue` = the raster cell at `Grain.nearestCell` along both
  axes (`j` from the latitude axis, `i` from the longitude axis; NaN cells read as 0), `taucrit_bin` =
  `Grain.taucritBinF32`, `taucrit_poly` = `Grain.taucritPoly` (`sf_taucrit_poly_gen` : = `Gen.sed_taucrit_poly`);
* `sed_get_taucrit_fn` : `sfTaucritSpec` (dispatch on `None` / number / `method`);
* `sed_ladis_fn_seq` : `Sed.ladis (K · t0) (v · t0) (t1 - t0) (draw .stdNormal) x0`; `sf_ladis_gen` : = `Gen.sed_ladis`;
* `sed_ctor_seq` : `sfSedCtorSpec`; `sed_ctor_config` : the attributes are those of the model's `Sed.Config`
  (`sfSedConfigOf`: `dt`, `lifespan`, `mixing`);
* `mine_get_taucrit_fn` : `None` iff `value >= 1000` (`sfMineTaucrit` = the field `Sed.Mine.Config.taucrit`);
* `mine_has_active_seq`, `mine_active_seq` : `hasVar`; the stored flag or 1 (what `Seq.MineSt.init` starts from);
* `mine_ctor_seq` : `sfMineCtorSpec`; `mine_ctor_config` : the attributes are those of `Sed.Mine.Config`.
Closed forms (there is no hand-written model function):
* `sed_sinkvel_seq` : the quadratic spline through the two tables at a uniform draw;
* `mine_create_outfile` : `sfCreateSpec`; `mine_update_outfile` : `sfUpdateSpec`; `mine_store_seq` : `sfStoreSpec`.
Over an ordered field (section `field`): `sf_mix_fn_const_gen`, `sf_mix_fn_bounded_linear_gen` (the function objects
are the generated windows `Gen.sed_mix_const`, `Gen.sed_mix_bounded_linear` ∘ `Gen.sed_turbulence`),
`sf_tau_const_field` (`np.zeros_like(lon) + value` is `value`), `sf_taucrit_bin_f32_table` (`C08.taucrit_bin_table`
under `narrow`).
-/
open Ladim Ladim.Seq Ladim.Sed Ladim.Grain

set_option linter.unusedSimpArgs false
set_option linter.unusedVariables false
set_option linter.unusedSectionVars false
set_option linter.unnecessarySeqFocus false
namespace Bridge

section mixing
variable {α : Type} [Add α] [Sub α] [Mul α] [Div α] [Neg α] [LT α] [DecidableLT α]
  [LE α] [DecidableLE α] [OfScientific α] [HasSqrt α]

/-! ### closed forms: the mixing functions -/

/-- the function object `get_vdiff_fn` builds for a mixing method of the model (`none`: Python's `None`): the model's
`mixConst` / `mixBoundedLinear` for one particle, the draw read from a STANDARD NORMAL call of the generator -/
def sfMixFnOf : Mixing α → Option (SfMixFn α)
  | .none => none
  | .const v => some (fun draw z h dt _ => some (some (mixConst v h dt (draw .stdNormal) z)))
  | .boundedLinear m => some (fun draw z h dt us => some (some (mixBoundedLinear m h dt us (draw .stdNormal) z)))

/-- which configuration value gives which mixing method (`none`: the code raises) -/
def sfMixingOf : SfConf α → Option (Mixing α)
  | .none => some .none
  | .num v => some (.const v)
  | .dict d =>
    if d.method = some "constant" then d.value.map .const
    else if d.method = some "bounded_linear" then d.maxDiff.map .boundedLinear
    else none

/-! ### `get_vdiff_constant_fn` -/

set_option maxRecDepth 100000 in
theorem sf_mc_body : sfDefBody sfFnDef Gen.sed_get_vdiff_constant_fn_seq = [
    ([], "assign", "b0 = np.sqrt(2 * value)"),
    ([], "assign", "dw = np.random.randn(z.size).reshape(z.shape) * np.sqrt(dt)"),
    ([], "assign", "z1 = z + b0 * dw"),
    ([], "assign", "z1[z1 < 0] *= -1"),
    ([], "assign", "below_seabed = z1 > h"),
    ([], "assign", "z1[below_seabed] = 2 * h[below_seabed] - z1[below_seabed]"),
    ([], "return", "z1")] := by decide

set_option maxRecDepth 100000 in
theorem sf_mc_outer : sfWithoutDefs [sfFnDef] Gen.sed_get_vdiff_constant_fn_seq = [
    ([], "def", "fn(z, h, dt, _)"), ([], "return", "fn")] := by decide

/-- the two modules define the same function -/
theorem sf_mine_mc_same : Gen.mine_get_vdiff_constant_fn_seq = Gen.sed_get_vdiff_constant_fn_seq := rfl

set_option maxRecDepth 100000 in
/-- the nested `fn` of `get_vdiff_constant_fn(value)` is `Sed.mixConst value` -/
theorem sf_mc_fn (value : α) (draw : SfDraw → α) (z h dt us : α) :
    sfMcFn (sfDefBody sfFnDef Gen.sed_get_vdiff_constant_fn_seq) value draw z h dt us
      = some (some (mixConst value h dt (draw .stdNormal) z)) := by
  rw [sf_mc_body]
  simp [sfMcFn, runFn, fnStmtKnown, fnGuardKnown, guardVal, sfNoAtom, sfMcStep, sfMcRet, mixConst]

set_option maxRecDepth 100000 in
/-- **`get_vdiff_constant_fn`** (sedimentation) -/
theorem sed_get_vdiff_constant_fn (value : α) :
    sedVdiffConstantFnSeq value = some (sfMixFnOf (.const value)) := by
  unfold sedVdiffConstantFnSeq runVdiffConstantFn
  rw [sf_mc_outer]
  have hk : (sfDefBody sfFnDef Gen.sed_get_vdiff_constant_fn_seq).all (fnStmtKnown sfNoAtom sfMcStep sfMcRet
        (⟨value, value, value, value, value, none, none, none, none⟩ : SfMcSt α)) = true := by
    rw [sf_mc_body]
    simp [fnStmtKnown, fnGuardKnown, sfMcStep, sfMcRet]
  have he : (sfDefBody sfFnDef Gen.sed_get_vdiff_constant_fn_seq).isEmpty = false := by
    rw [sf_mc_body]; rfl
  simp [runFn, fnStmtKnown, fnGuardKnown, guardVal, sfNoAtom, sfMcOuterStep, sfMcOuterRet, hk, he, sfMixFnOf]
  funext draw z h dt us
  exact sf_mc_fn value draw z h dt us

/-- **`get_vdiff_constant_fn`** (mine; the function is defined there but not called) -/
theorem mine_get_vdiff_constant_fn (value : α) :
    mineVdiffConstantFnSeq value = some (sfMixFnOf (.const value)) := by
  unfold mineVdiffConstantFnSeq
  rw [sf_mine_mc_same]
  exact sed_get_vdiff_constant_fn value

/-! ### `get_vdiff_bounded_linear_fn` -/

set_option maxRecDepth 100000 in
theorem sf_tb_body : sfDefBody sfTurbDef Gen.sed_get_vdiff_bounded_linear_fn_seq = [
    ([], "assign", "kappa = 0.41"),
    ([], "assign", "dA_dz = kappa * ustar"),
    ([], "assign", "A = dA_dz * meters_from_seafloor"),
    ([], "assign", "cutoff = A > max_mixing"),
    ([], "assign", "A[cutoff] = max_mixing"),
    ([], "assign", "dA_dz[cutoff] = 0"),
    ([], "return", "(A, dA_dz)")] := by decide

set_option maxRecDepth 100000 in
theorem sf_bl_body : sfDefBody sfFnDef Gen.sed_get_vdiff_bounded_linear_fn_seq = [
    ([], "assign", "A, dA_dZ = get_turbulence(ustar, np.maximum(h - z, 0), max_diff)"),
    ([], "assign", "rand = np.random.normal(size=len(A))"),
    ([], "assign", "diff_upstream = A + 0.5 * dA_dZ ** 2 * dt"),
    ([], "assign", "w = -dA_dZ + rand * np.sqrt(2 * diff_upstream / dt)"),
    ([], "assign", "z_new = z + dt * w"),
    ([], "assign", "benthic = z_new >= h"),
    ([], "assign", "z_new[benthic] = h[benthic]"),
    ([], "assign", "z_new[z_new < 0] *= -1"),
    ([], "return", "z_new")] := by decide

set_option maxRecDepth 100000 in
theorem sf_bl_outer : sfWithoutDefs [sfTurbDef, sfFnDef] Gen.sed_get_vdiff_bounded_linear_fn_seq = [
    ([], "def", "get_turbulence(ustar, meters_from_seafloor, max_mixing)"),
    ([], "def", "fn(z, h, dt, ustar)"),
    ([], "return", "fn")] := by decide

set_option maxRecDepth 100000 in
/-- the nested `get_turbulence` is the generated window `Gen.sed_turbulence` -/
theorem sf_get_turbulence (us mfs maxMixing : α) :
    sfTbFn (sfDefBody sfTurbDef Gen.sed_get_vdiff_bounded_linear_fn_seq) us mfs maxMixing
      = some (some (Gen.sed_turbulence us mfs maxMixing)) := by
  rw [sf_tb_body]
  simp [sfTbFn, runFn, fnStmtKnown, fnGuardKnown, guardVal, sfNoAtom, sfTbStep, sfTbRet, Gen.sed_turbulence]

set_option maxRecDepth 100000 in
/-- the nested `fn` of `get_vdiff_bounded_linear_fn(max_diff)` is `Sed.mixBoundedLinear max_diff` -/
theorem sf_bl_fn (maxDiff : α) (draw : SfDraw → α) (z h dt us : α) :
    sfBlFn (sfDefBody sfFnDef Gen.sed_get_vdiff_bounded_linear_fn_seq) maxDiff
        (some (sfTbFn (sfDefBody sfTurbDef Gen.sed_get_vdiff_bounded_linear_fn_seq))) draw z h dt us
      = some (some (mixBoundedLinear maxDiff h dt us (draw .stdNormal) z)) := by
  rw [sf_bl_body]
  simp [sfBlFn, runFn, fnStmtKnown, fnGuardKnown, guardVal, sfNoAtom, sfBlStep, sfBlRet, sf_get_turbulence,
    Gen.sed_turbulence, mixBoundedLinear]

set_option maxRecDepth 100000 in
/-- **`get_vdiff_bounded_linear_fn`** -/
theorem sed_get_vdiff_bounded_linear_fn (maxDiff : α) :
    sedVdiffBoundedLinearFnSeq maxDiff = some (sfMixFnOf (.boundedLinear maxDiff)) := by
  unfold sedVdiffBoundedLinearFnSeq runVdiffBoundedLinearFn
  rw [sf_bl_outer]
  have hk1 : (sfDefBody sfTurbDef Gen.sed_get_vdiff_bounded_linear_fn_seq).all (fnStmtKnown sfNoAtom sfTbStep sfTbRet
        (⟨maxDiff, maxDiff, maxDiff, none, none, none, none⟩ : SfTbSt α)) = true := by
    rw [sf_tb_body]
    simp [fnStmtKnown, fnGuardKnown, sfTbStep, sfTbRet]
  have he1 : (sfDefBody sfTurbDef Gen.sed_get_vdiff_bounded_linear_fn_seq).isEmpty = false := by
    rw [sf_tb_body]; rfl
  have hk2 : (sfDefBody sfFnDef Gen.sed_get_vdiff_bounded_linear_fn_seq).all (fnStmtKnown sfNoAtom sfBlStep sfBlRet
        (⟨maxDiff, none, maxDiff, maxDiff, maxDiff, maxDiff, maxDiff, none, none, none, none, none, none,
          none⟩ : SfBlSt α)) = true := by
    rw [sf_bl_body]
    simp [fnStmtKnown, fnGuardKnown, sfBlStep, sfBlRet]
  have he2 : (sfDefBody sfFnDef Gen.sed_get_vdiff_bounded_linear_fn_seq).isEmpty = false := by
    rw [sf_bl_body]; rfl
  simp [runFn, fnStmtKnown, fnGuardKnown, guardVal, sfNoAtom, sfBlOuterStep, sfBlOuterRet, hk1, he1, hk2, he2,
    sfMixFnOf]
  funext draw z h dt us
  exact sf_bl_fn maxDiff draw z h dt us

/-! ### `get_vdiff_fn` -/

local macro "sf_vdiff_unfold" : tactic => `(tactic|
  simp [sedVdiffFnSeq, runVdiffFn, Gen.sed_get_vdiff_fn_seq, runFn, fnStmtKnown, fnGuardKnown, guardVal, sfDispAtom,
    sfDispCommon, sfVdiffRet, sfDictGet, sfBind, sed_get_vdiff_constant_fn, sed_get_vdiff_bounded_linear_fn,
    sfMixingOf, sfConstDict, sfMixFnOf, *])

set_option maxRecDepth 100000 in
/-- **`get_vdiff_fn`**: `None` → `None`; a number → constant mixing; a mapping: `method` `'constant'` with `value`,
`'bounded_linear'` with `max_diff`; a missing key or another method raises.  No hypothesis. -/
theorem sed_get_vdiff_fn (conf : SfConf α) : sedVdiffFnSeq conf = some ((sfMixingOf conf).map sfMixFnOf) := by
  cases conf with
  | none => sf_vdiff_unfold
  | num v => sf_vdiff_unfold
  | dict d =>
    obtain ⟨method, value, maxDiff, source, varname⟩ := d
    cases method with
    | none => cases value <;> cases maxDiff <;> sf_vdiff_unfold
    | some m =>
      by_cases hc : m = "constant"
      · subst hc
        cases value <;> cases maxDiff <;> sf_vdiff_unfold
      · by_cases hb : m = "bounded_linear"
        · subst hb
          cases value <;> cases maxDiff <;> sf_vdiff_unfold
        · cases value <;> cases maxDiff <;> sf_vdiff_unfold

/-- what `IBM.diffuse` does with the function object: `Sed.diffuse` of the model is the call of `sfMixFnOf c.mixing`
on the suspended particles (`none`, Python's `None`: the method returns at once) -/
theorem sf_diffuse_of_mix_fn (c : Sed.Config α) (e : Sed.Env α) (xi : α) (a : Nat) (z : α) :
    (match sfMixFnOf c.mixing with
      | none => some (some z)
      | some f => if a = 0 then some (some z) else f (fun _ => xi) z e.H c.dt (ustar e.ub e.vb))
      = some (some (diffuse c e xi a z)) := by
  unfold diffuse
  cases c.mixing <;> by_cases ha : a = 0 <;> simp [sfMixFnOf, ha]

end mixing

section grain
variable {α : Type} [Add α] [Sub α] [Mul α] [Div α] [Neg α] [LT α] [DecidableLT α]
  [LE α] [DecidableLE α] [OfScientific α] [HasTrunc α] [HasNarrow α]

/-! ### `get_taucrit_fn_grain_size` -/

/-- closed form of `sedvalue(lon, lat)`: the cell `[j, i]` of the raster with the model's `Grain.nearestCell` along
both axes (`j` from the latitude, `i` from the longitude; `jmax = shape[0] - 1`, `imax = shape[1] - 1`), a NaN cell
reads as 0; `none`: `IndexError` (an axis of length 0) -/
def sfSedValue (g : SfGrid2 α) (lat0 dlat lon0 dlon lon lat : α) : Option α :=
  (sfCell g (nearestCell lat0 dlat ((g.shape0 : Int) - 1) lat) (nearestCell lon0 dlon ((g.shape1 : Int) - 1) lon)).map
    (fun c => c.getD 0.0)

/-- a coordinate axis: its first value and its spacing `c[1] - c[0]` (`none`: fewer than two points, `IndexError`) -/
def sfAxis : List α → Option (α × α)
  | a0 :: a1 :: _ => some (a0, a1 - a0)
  | _ => none

/-- what the function reads from the file: the raster, `lat0 = clat[0]`, `difflat = clat[1] - clat[0]`, `lon0`,
`difflon` (`none`: the file cannot be opened, no such variable, an axis with fewer than two points) -/
def sfGrainGeom (openDs : String → Option (SfDataset α)) (source varname : String) :
    Option (SfGrid2 α × α × α × α × α) :=
  match openDs source with
  | none => none
  | some d =>
    match d.dataVars varname with
    | none => none
    | some g =>
      match sfAxis d.latitude with
      | none => none
      | some la =>
        match sfAxis d.longitude with
        | none => none
        | some lo => some (g, la.1, la.2, lo.1, lo.2)

/-- closed form of `get_taucrit_fn_grain_size(source, varname, method)`: `'bin'` → the model's threshold table on a
`float32` array (`Grain.taucritBinF32`), `'poly'` → `Grain.taucritPoly`, of the grain size at the nearest cell -/
def sfGrainSpec (openDs : String → Option (SfDataset α)) (source varname method : String) : Option (SfTauFn α) :=
  match sfGrainGeom openDs source varname with
  | none => none
  | some (g, la0, dla, lo0, dlo) =>
    if method = "bin" then some (fun lon lat => some ((sfSedValue g la0 dla lo0 dlo lon lat).map taucritBinF32))
    else if method = "poly" then some (fun lon lat => some ((sfSedValue g la0 dla lo0 dlo lon lat).map taucritPoly))
    else none

set_option maxRecDepth 100000 in
theorem sf_sv_body : sfDefBody sfSedvalueDef Gen.sed_get_taucrit_fn_grain_size_seq = [
    ([], "assign", "i = np.clip(np.int32(0.5 + (lon - lon0) / difflon), 0, imax)"),
    ([], "assign", "j = np.clip(np.int32(0.5 + (lat - lat0) / difflat), 0, jmax)"),
    ([], "assign", "sed = grain_size[j, i]"),
    ([], "assign", "sed[np.isnan(sed)] = 0"),
    ([], "return", "sed")] := by decide

set_option maxRecDepth 100000 in
theorem sf_bin_body : sfDefBody sfBinDef Gen.sed_get_taucrit_fn_grain_size_seq = [
    ([], "assign", "sed = sedvalue(lon, lat)"),
    ([], "assign", "tauc = np.empty(lon.shape, dtype=np.float32)"),
    ([], "assign", "tauc[:] = 0.12"),
    ([], "assign", "tauc[(sed > 0) & (sed < 70)] = 0.06"),
    ([], "assign", "tauc[sed > 180] = 0.32"),
    ([], "return", "tauc")] := by decide

set_option maxRecDepth 100000 in
theorem sf_poly_body : sfDefBody sfPolyDef Gen.sed_get_taucrit_fn_grain_size_seq = [
    ([], "assign", "sed = sedvalue(lon, lat)"),
    ([], "assign", "tauc = 6e-06 * sed ** 2 + 3e-05 * sed + 0.0591"),
    ([], "assign", "tauc[sed == 0] = 0.12"),
    ([], "return", "tauc")] := by decide

set_option maxRecDepth 100000 in
theorem sf_gs_outer : sfWithoutDefs [sfSedvalueDef, sfBinDef, sfPolyDef] Gen.sed_get_taucrit_fn_grain_size_seq = [
    ([], "import", "import xarray as xr"),
    ([(true, "with xr.open_dataset(source) as dset")], "assign", "grain_size_var = dset.data_vars[varname]"),
    ([(true, "with xr.open_dataset(source) as dset")], "assign", "grain_size = grain_size_var.transpose('latitude', 'longitude').values"),
    ([(true, "with xr.open_dataset(source) as dset")], "assign", "clat = dset.latitude.values"),
    ([(true, "with xr.open_dataset(source) as dset")], "assign", "clon = dset.longitude.values"),
    ([], "assign", "difflat = clat[1] - clat[0]"),
    ([], "assign", "difflon = clon[1] - clon[0]"),
    ([], "assign", "lat0 = clat[0]"),
    ([], "assign", "lon0 = clon[0]"),
    ([], "assign", "imax = grain_size.shape[1] - 1"),
    ([], "assign", "jmax = grain_size.shape[0] - 1"),
    ([], "def", "sedvalue(lon, lat)"),
    ([], "def", "taucrit_bin(lon, lat)"),
    ([], "def", "taucrit_poly(lon, lat)"),
    ([], "assign", "taucrit_fn = dict(bin=taucrit_bin, poly=taucrit_poly)"),
    ([], "return", "taucrit_fn[method]")] := by decide

set_option maxRecDepth 100000 in
/-- the nested `sedvalue` is the lookup at the model's nearest cell -/
theorem sf_sedvalue (o : SfGsSt α) (g : SfGrid2 α) (la0 dla lo0 dlo lon lat : α)
    (hg : o.grain = some g) (h1 : o.lat0 = some la0) (h2 : o.difflat = some dla) (h3 : o.lon0 = some lo0)
    (h4 : o.difflon = some dlo) (h5 : o.imax = some ((g.shape1 : Int) - 1)) (h6 : o.jmax = some ((g.shape0 : Int) - 1)) :
    sfSvFn (sfDefBody sfSedvalueDef Gen.sed_get_taucrit_fn_grain_size_seq) o lon lat
      = some (sfSedValue g la0 dla lo0 dlo lon lat) := by
  rw [sf_sv_body]
  unfold sfSedValue nearestCell
  cases hc : sfCell g (clipInt (trunc (0.5 + (lat - la0) / dla)) 0 ((g.shape0 : Int) - 1))
      (clipInt (trunc (0.5 + (lon - lo0) / dlo)) 0 ((g.shape1 : Int) - 1)) <;>
  simp [sfSvFn, runFn, fnStmtKnown, fnGuardKnown, guardVal, sfNoAtom, sfSvStep, sfSvRet, hg, h1, h2, h3, h4, h5, h6, hc]

theorem sf_narrow_ite (c : Prop) [Decidable c] (a b : α) :
    (if c then narrow a else narrow b) = narrow (if c then a else b) := by
  split <;> rfl

set_option maxRecDepth 100000 in
/-- the nested `taucrit_bin` is `Grain.taucritBinF32` of `sedvalue(lon, lat)` -/
theorem sf_taucrit_bin (o : SfGsSt α) (f : α → α → Option (Option α)) (lon lat : α) (hf : o.sedvalue = some f) :
    sfBinFn (sfDefBody sfBinDef Gen.sed_get_taucrit_fn_grain_size_seq) o lon lat
      = sfBind (f lon lat) (fun sed => some (some (taucritBinF32 sed))) := by
  rw [sf_bin_body]
  rcases hv : f lon lat with _ | _ | sed <;>
  simp [sfBinFn, runFn, fnStmtKnown, fnGuardKnown, guardVal, sfNoAtom, sfBinStep, sfBinRet, sfCallSedvalue, sfBind,
    hf, hv, taucritBinF32, taucritBin, sf_narrow_ite]

/-- the two statements of `taucrit_poly` are the generated window `Gen.sed_taucrit_poly`, which is the model's
`Grain.taucritPoly` (`sed == 0` ⇔ neither `sed < 0` nor `0 < sed`); no order law is used -/
theorem sf_taucrit_poly_gen (sed : α) : Gen.sed_taucrit_poly sed = taucritPoly sed := by
  unfold Gen.sed_taucrit_poly taucritPoly Gen.feq
  by_cases h1 : sed < 0.0 <;> by_cases h2 : (0.0 : α) < sed <;> simp [h1, h2]

set_option maxRecDepth 100000 in
/-- the nested `taucrit_poly` is `Grain.taucritPoly` (= `Gen.sed_taucrit_poly`) of `sedvalue(lon, lat)` -/
theorem sf_taucrit_poly (o : SfGsSt α) (f : α → α → Option (Option α)) (lon lat : α) (hf : o.sedvalue = some f) :
    sfPolyFn (sfDefBody sfPolyDef Gen.sed_get_taucrit_fn_grain_size_seq) o lon lat
      = sfBind (f lon lat) (fun sed => some (some (taucritPoly sed))) := by
  rw [sf_poly_body]
  rcases hv : f lon lat with _ | _ | sed <;>
  simp [sfPolyFn, runFn, fnStmtKnown, fnGuardKnown, guardVal, sfNoAtom, sfPolyStep, sfPolyRet, sfCallSedvalue, sfBind,
    hf, hv, ← sf_taucrit_poly_gen, Gen.sed_taucrit_poly]

local macro "sf_gs_unfold" : tactic => `(tactic|
  simp [sedTaucritFnGrainSizeSeq, runTaucritFnGrainSize, sf_gs_outer, SfGsSt.init, runFn, fnStmtKnown, fnGuardKnown,
    guardVal, sfGsAtom, sfGsStep, sfGsRet, sfGrainSpec, sfGrainGeom, sfAxis, List.lookup, *])

set_option maxRecDepth 100000 in
/-- **`get_taucrit_fn_grain_size`**: for every file content, variable name and method.  No hypothesis. -/
theorem sed_get_taucrit_fn_grain_size (openDs : String → Option (SfDataset α)) (source varname method : String) :
    sedTaucritFnGrainSizeSeq openDs source varname method = some (sfGrainSpec openDs source varname method) := by
  have hk1 : ∀ o : SfGsSt α, (sfDefBody sfSedvalueDef Gen.sed_get_taucrit_fn_grain_size_seq).all
      (fnStmtKnown sfNoAtom sfSvStep sfSvRet (⟨o, 0.0, 0.0, none, none, none⟩ : SfSvSt α)) = true := by
    intro o; rw [sf_sv_body]; simp [fnStmtKnown, fnGuardKnown, sfSvStep, sfSvRet]
  have he1 : (sfDefBody sfSedvalueDef Gen.sed_get_taucrit_fn_grain_size_seq).isEmpty = false := by
    rw [sf_sv_body]; rfl
  have hk2 : ∀ o : SfGsSt α, o.sedvalue = none → (sfDefBody sfBinDef Gen.sed_get_taucrit_fn_grain_size_seq).all
      (fnStmtKnown sfNoAtom sfBinStep sfBinRet (⟨o, 0.0, 0.0, none, false, none⟩ : SfBinSt α)) = true := by
    intro o ho; rw [sf_bin_body]; simp [fnStmtKnown, fnGuardKnown, sfBinStep, sfBinRet, sfCallSedvalue, sfBind, ho]
  have he2 : (sfDefBody sfBinDef Gen.sed_get_taucrit_fn_grain_size_seq).isEmpty = false := by
    rw [sf_bin_body]; rfl
  have hk3 : ∀ o : SfGsSt α, o.sedvalue = none → (sfDefBody sfPolyDef Gen.sed_get_taucrit_fn_grain_size_seq).all
      (fnStmtKnown sfNoAtom sfPolyStep sfPolyRet (⟨o, 0.0, 0.0, none, none⟩ : SfPolySt α)) = true := by
    intro o ho; rw [sf_poly_body]; simp [fnStmtKnown, fnGuardKnown, sfPolyStep, sfPolyRet, sfCallSedvalue, sfBind, ho]
  have he3 : (sfDefBody sfPolyDef Gen.sed_get_taucrit_fn_grain_size_seq).isEmpty = false := by
    rw [sf_poly_body]; rfl
  cases hd : openDs source with
  | none => sf_gs_unfold
  | some d =>
    cases hg : d.dataVars varname with
    | none => sf_gs_unfold
    | some g =>
      rcases hla : d.latitude with _ | ⟨la0, _ | ⟨la1, lar⟩⟩
      · sf_gs_unfold
      · sf_gs_unfold
      · rcases hlo : d.longitude with _ | ⟨lo0, _ | ⟨lo1, lor⟩⟩
        · sf_gs_unfold
        · sf_gs_unfold
        · by_cases hb : method = "bin"
          · subst hb
            sf_gs_unfold
            funext lon lat
            rw [sf_taucrit_bin _ _ lon lat rfl, sf_sedvalue _ g la0 (la1 - la0) lo0 (lo1 - lo0) lon lat rfl rfl rfl rfl rfl rfl rfl]
            cases sfSedValue g la0 (la1 - la0) lo0 (lo1 - lo0) lon lat <;> rfl
          · by_cases hp : method = "poly"
            · subst hp
              sf_gs_unfold
              funext lon lat
              rw [sf_taucrit_poly _ _ lon lat rfl, sf_sedvalue _ g la0 (la1 - la0) lo0 (lo1 - lo0) lon lat rfl rfl rfl rfl rfl rfl rfl]
              cases sfSedValue g la0 (la1 - la0) lo0 (lo1 - lo0) lon lat <;> rfl
            · have hb' : (method == "bin") = false := beq_eq_false_iff_ne.mpr hb
              have hp' : (method == "poly") = false := beq_eq_false_iff_ne.mpr hp
              sf_gs_unfold

end grain

section taucrit
variable {α : Type} [Add α] [Sub α] [Mul α] [Div α] [Neg α] [LT α] [DecidableLT α]
  [LE α] [DecidableLE α] [OfScientific α] [HasTrunc α] [HasNarrow α]

/-! ### `get_taucrit_fn` of sedimentation -/

/-- `lambda lon, lat: np.zeros_like(lon) + value` for one particle -/
def sfTauConst (v : α) : SfTauFn α := fun _ _ => some (some (0.0 + v))

/-- closed form of the sedimentation `get_taucrit_fn(subconf)` (outer `none`: the code raises; inner `none`: `None`):
`None` → `None`; a number → that constant; a mapping: `method` `'constant'` with `value`, `'grain_size_bin'` /
`'grain_size_poly'` with `source` and `varname` → the grain-size functions; a missing key or another method raises -/
def sfTaucritSpec (openDs : String → Option (SfDataset α)) : SfConf α → Option (Option (SfTauFn α))
  | .none => some none
  | .num v => some (some (sfTauConst v))
  | .dict d =>
    if d.method = some "constant" then d.value.map (fun v => some (sfTauConst v))
    else if d.method = some "grain_size_bin" then
      match d.source, d.varname with
      | some src, some vn => (sfGrainSpec openDs src vn "bin").map some
      | _, _ => none
    else if d.method = some "grain_size_poly" then
      match d.source, d.varname with
      | some src, some vn => (sfGrainSpec openDs src vn "poly").map some
      | _, _ => none
    else none

theorem sf_call_grain_isSome (openDs : String → Option (SfDataset α)) (s : SfDispSt α) (m : String) :
    (sfCallGrainSize openDs s m).isSome = true := by
  unfold sfCallGrainSize
  cases sfDictGetStr s (·.source) <;> cases sfDictGetStr s (·.varname) <;>
    simp [sed_get_taucrit_fn_grain_size, sfBind]
  cases sfGrainSpec openDs _ _ m <;> rfl

local macro "sf_tau_unfold" : tactic => `(tactic|
  (simp [sedTaucritFnSeq, runSedTaucritFn, Gen.sed_get_taucrit_fn_seq, runFn, fnStmtKnown, fnGuardKnown, guardVal,
    sfTauAtom, sfDispAtom, sfTauStep, sfDispCommon, sfTauRet, sfDictGet, sf_call_grain_isSome,
    sfTaucritSpec, sfConstDict, *] <;> try rfl))

local macro "sf_tau_call" : tactic => `(tactic|
  (simp [sfCallGrainSize, sfDictGetStr, sed_get_taucrit_fn_grain_size, sfBind]))

set_option maxRecDepth 100000 in
/-- **`get_taucrit_fn`** (sedimentation): for every configuration value and every file content.  No hypothesis. -/
theorem sed_get_taucrit_fn (openDs : String → Option (SfDataset α)) (conf : SfConf α) :
    sedTaucritFnSeq openDs conf = some (sfTaucritSpec openDs conf) := by
  cases conf with
  | none => sf_tau_unfold
  | num v => sf_tau_unfold
  | dict d =>
    obtain ⟨method, value, maxDiff, source, varname⟩ := d
    cases method with
    | none => sf_tau_unfold
    | some m =>
      by_cases hc : m = "constant"
      · subst hc
        cases value <;> sf_tau_unfold
      · by_cases hb : m = "grain_size_bin"
        · subst hb
          sf_tau_unfold
          cases source <;> cases varname <;> sf_tau_call
          cases sfGrainSpec openDs _ _ "bin" <;> rfl
        · by_cases hp : m = "grain_size_poly"
          · subst hp
            sf_tau_unfold
            cases source <;> cases varname <;> sf_tau_call
            cases sfGrainSpec openDs _ _ "poly" <;> rfl
          · sf_tau_unfold

end taucrit

section general
theorem sf_bind_some_some {β γ : Type} (b : β) (f : β → Option (Option γ)) : sfBind (some (some b)) f = f b := rfl
theorem sf_bind_some_none {β γ : Type} (f : β → Option (Option γ)) : sfBind (some none) f = some none := rfl
theorem sf_bind_isSome {β γ : Type} (x : Option β) (g : β → Option γ) :
    (sfBind (some x) (fun b => some (g b))).isSome = true := by
  cases x <;> rfl
end general

section ladis
variable {α : Type} [Add α] [Sub α] [Mul α] [Div α] [Neg α] [LT α] [DecidableLT α]
  [LE α] [DecidableLE α] [OfScientific α] [HasSqrt α]

/-! ### `ladis`, `sinkvel` -/

set_option maxRecDepth 100000 in
/-- **`ladis`** is the model's `Sed.ladis` for one coordinate, with `dt = t1 - t0`, `K` and `v` evaluated at the
initial time `t0`, and ONE standard normal draw used in both diffusion steps.  No hypothesis. -/
theorem sed_ladis_fn_seq (draw : SfDraw → α) (x0 t0 t1 : α) (v K : α → α → α) :
    sedLadisSeq draw x0 t0 t1 v K
      = some (some (Sed.ladis (fun x => K x t0) (fun x => v x t0) (t1 - t0) (draw .stdNormal) x0)) := by
  simp [sedLadisSeq, runLadis, Gen.sed_ladis_seq, runFn, fnStmtKnown, fnGuardKnown, guardVal, sfNoAtom, sfLadisStep,
    sfLadisRet, Sed.ladis]

/-- … which is the generated window `Gen.sed_ladis` (definitionally) -/
theorem sf_ladis_gen (xi x0 t0 t1 : α) (v K : α → α) :
    Sed.ladis K v (t1 - t0) xi x0 = Gen.sed_ladis x0 t0 t1 xi K v := rfl

/-- the two tables of `sinkvel` -/
def sfSinkvelTab : List α := [0.1, 0.05, 0.025, 0.015, 0.01, 0.005, 0.0]
def sfCumprobTab : List α := [0.0, 0.662, 0.851, 0.883, 0.909, 0.937, 1.0]

set_option maxRecDepth 100000 in
/-- **`sinkvel`** (closed form; there is no model function: `Sed.Env.newSink` is the value): the quadratic scipy
spline through (cumulative probability, sinking velocity), abscissae first, evaluated at a UNIFORM `[0, 1)` draw -/
theorem sed_sinkvel_seq (spline : List α → List α → Nat → α → α) (draw : SfDraw → α) :
    sedSinkvelSeq spline draw = some (some (spline sfCumprobTab sfSinkvelTab 2 (draw .uniform01))) := by
  simp [sedSinkvelSeq, runSinkvel, Gen.sed_sinkvel_seq, runFn, fnStmtKnown, fnGuardKnown, guardVal, sfNoAtom,
    sfSinkStep, sfSinkRet, sfSinkvelTab, sfCumprobTab]

end ladis

section sedctor
variable {α : Type} [Add α] [Sub α] [Mul α] [Div α] [Neg α] [LT α] [DecidableLT α]
  [LE α] [DecidableLE α] [OfScientific α] [HasSqrt α] [HasTrunc α] [HasNarrow α]

/-! ### `IBM.__init__` of sedimentation -/

/-- closed form of the sedimentation constructor (`none`: it raises): `lifespan` and `dt` are mandatory,
`vertical_mixing` and `taucrit` default to `None` -/
def sfSedCtorSpec (openDs : String → Option (SfDataset α)) (cfg : SfSedCfg α) : Option (SfSedSelf α) :=
  match cfg.ibm with
  | none => none
  | some ibm =>
    match ibm.lifespan, sfMixingOf (ibm.verticalMixing.getD .none), sfTaucritSpec openDs (ibm.taucrit.getD .none),
        cfg.dt with
    | some l, some m, some tf, some dt => some ⟨l, sfMixFnOf m, tf, dt, ["grid", "forcing", "state", "_ustar"], -1⟩
    | _, _, _, _ => none

local macro "sf_sedctor_unfold" : tactic => `(tactic|
  simp [sedCtorSeq, runSedCtor, Gen.sed_ctor_seq, runFn, fnStmtKnown, fnGuardKnown, guardVal, sfNoAtom, sfNoRet,
    sfSedCtorStep, sfSedCtorFin, SfSedCtorSt.init, sfIbmGet, sfSetNone, sf_bind_some_some, sf_bind_some_none,
    sf_bind_isSome, sed_get_vdiff_fn, sed_get_taucrit_fn,
    sfSedCtorSpec, *])

set_option maxRecDepth 100000 in
/-- **`IBM.__init__`** (sedimentation): for every configuration and every file content.  No hypothesis. -/
theorem sed_ctor_seq (openDs : String → Option (SfDataset α)) (cfg : SfSedCfg α) :
    sedCtorSeq openDs cfg = some (sfSedCtorSpec openDs cfg) := by
  obtain ⟨ibm, dt⟩ := cfg
  cases ibm with
  | none => sf_sedctor_unfold
  | some ibm =>
    obtain ⟨lifespan, vm, tc⟩ := ibm
    cases lifespan with
    | none => sf_sedctor_unfold
    | some l =>
      cases hm : sfMixingOf (vm.getD .none) with
      | none => sf_sedctor_unfold
      | some m =>
        cases ht : sfTaucritSpec openDs (tc.getD .none) with
        | none => sf_sedctor_unfold
        | some tf =>
          cases dt <;> sf_sedctor_unfold

/-- the configuration record of the model (`Sed.Config`, used by `Seq.sedStep` and `SedimentSeq.lean`) that the
constructor arguments denote; `stateDt` (`state.dt`) and the flag carrier are not constructor arguments -/
def sfSedConfigOf (cfg : SfSedCfg α) (stateDt : α) (carrier : Carrier) : Option (Sed.Config α) :=
  match cfg.ibm with
  | none => none
  | some ibm =>
    match ibm.lifespan, sfMixingOf (ibm.verticalMixing.getD .none), cfg.dt with
    | some l, some m, some dt => some ⟨dt, stateDt, l, m, carrier⟩
    | _, _, _ => none

/-- whenever the constructor returns, its attributes are those of the model's configuration record:
`self.lifespan`, `self.dt`, `self.vdiff_fn` = the function of `c.mixing`, `self.taucrit_fn` = what `get_taucrit_fn`
gives for `config['ibm'].get('taucrit', None)`, the cache counter starts at -1 -/
theorem sed_ctor_config (openDs : String → Option (SfDataset α)) (cfg : SfSedCfg α) (stateDt : α)
    (carrier : Carrier) (self : SfSedSelf α) (h : sedCtorSeq openDs cfg = some (some self)) :
    ∃ c ibm, sfSedConfigOf cfg stateDt carrier = some c ∧ cfg.ibm = some ibm ∧
      self.lifespan = c.lifespan ∧ self.dt = c.dt ∧ self.vdiffFn = sfMixFnOf c.mixing ∧
      sfTaucritSpec openDs (ibm.taucrit.getD .none) = some self.taucritFn ∧ self.ustarTstep = -1 := by
  rw [sed_ctor_seq] at h
  obtain ⟨ibm, dt⟩ := cfg
  cases ibm with
  | none => simp [sfSedCtorSpec] at h
  | some ibm =>
    obtain ⟨lifespan, vm, tc⟩ := ibm
    cases lifespan with
    | none => simp [sfSedCtorSpec] at h
    | some l =>
      cases hm : sfMixingOf (vm.getD .none) with
      | none => simp [sfSedCtorSpec, hm] at h
      | some m =>
        cases ht : sfTaucritSpec openDs (tc.getD .none) with
        | none => simp [sfSedCtorSpec, hm, ht] at h
        | some tf =>
          cases dt with
          | none => simp [sfSedCtorSpec, hm, ht] at h
          | some dt =>
            simp [sfSedCtorSpec, hm, ht] at h
            subst h
            exact ⟨⟨dt, stateDt, l, m, carrier⟩, ⟨some l, vm, tc⟩, by simp [sfSedConfigOf, hm], rfl, rfl, rfl, rfl, ht, rfl⟩

end sedctor

section mine

/-! ### mine: `get_taucrit_fn`, `has_active`, `active` -/

section
variable {α : Type} [Add α] [LE α] [DecidableLE α] [OfScientific α]

/-- closed form of the mine `get_taucrit_fn(value)`: the critical stress of the model's `Sed.Mine.Config.taucrit`
(`none`: no resuspension, for a configured value of 1000 or more) -/
def sfMineTaucrit (value : α) : Option α := if 1000.0 ≤ value then none else some value

set_option maxRecDepth 100000 in
/-- **`get_taucrit_fn`** (mine): `None` iff `value >= 1000`, else the constant function.  No hypothesis. -/
theorem mine_get_taucrit_fn (value : α) :
    mineTaucritFnSeq value = some (some ((sfMineTaucrit value).map sfTauConst)) := by
  by_cases h : 1000.0 ≤ value <;>
  simp [mineTaucritFnSeq, runMineTaucritFn, Gen.mine_get_taucrit_fn_seq, runFn, fnStmtKnown, fnGuardKnown, guardVal,
    sfMineTauAtom, sfMineTauRet, sfMineTaucrit, h] <;> rfl
end

set_option maxRecDepth 100000 in
/-- **`has_active`**: whether the state has a variable `active` (the `KeyError` of the `try` block selects the
handler).  No hypothesis. -/
theorem mine_has_active_seq (hasVar : Bool) : mineHasActiveSeq hasVar = some (some hasVar) := by
  cases hasVar <;>
  simp [mineHasActiveSeq, runMineHasActive, Gen.mine_has_active_seq, runFn, fnStmtKnown, fnGuardKnown, guardVal,
    sfHaAtom, sfHaStep, sfHaRet]

set_option maxRecDepth 100000 in
/-- **`active`**: the stored flag, or 1 for every particle when the state has no such variable — the value
`Seq.MineSt.init` starts from (`if c.hasActive then p.active else 1`).  No hypothesis. -/
theorem mine_active_seq (stored : Option Nat) : mineActiveSeq stored = some (some (stored.getD 1)) := by
  cases stored <;>
  simp [mineActiveSeq, runMineActive, Gen.mine_active_seq, runFn, fnStmtKnown, fnGuardKnown, guardVal,
    sfActAtom, sfActRet, mine_has_active_seq]

end mine

section outfile

/-! ### mine: `create_outfile` -/

/-- the variable `create_outfile` makes of an entry `(k, v)` of `variables`: format `v['ncformat']` (`none`:
`KeyError`), dimension `particle`, every other item of `v` as an attribute, in the order of the mapping -/
def sfNcVarOf (kv : String × SfNcAttrs) : Option SfNcVar :=
  (kv.2.lookup "ncformat").map (fun fmt => ⟨kv.1, fmt, "particle", kv.2.filter (fun a => a.1 != "ncformat")⟩)

/-- closed form of `create_outfile(fname, variables)`: one unlimited dimension `particle`, one variable per entry -/
def sfCreateSpec (entries : List (String × SfNcAttrs)) : Option SfNcFile :=
  (entries.mapM sfNcVarOf).map (fun vs => ⟨[("particle", none)], vs⟩)

set_option maxRecDepth 100000 in
theorem sf_co_split1 : sfSplit sfCoWith Gen.mine_create_outfile_seq = (
    [([], "import", "import netCDF4 as nc")],
    [([], "expr", "dset.createDimension('particle', None)"),
     ([(true, "for (k, v) in variables.items()")], "assign", "var = dset.createVariable(k, v['ncformat'], 'particle')"),
     ([(true, "for (k, v) in variables.items()"), (true, "for (attr_name, attr_val) in v.items()"),
       (true, "attr_name != 'ncformat'")], "expr", "var.setncattr(attr_name, attr_val)")],
    []) := by rfl

set_option maxRecDepth 100000 in
theorem sf_co_split2 : sfSplit sfCoForKV
    [([], "expr", "dset.createDimension('particle', None)"),
     ([(true, "for (k, v) in variables.items()")], "assign", "var = dset.createVariable(k, v['ncformat'], 'particle')"),
     ([(true, "for (k, v) in variables.items()"), (true, "for (attr_name, attr_val) in v.items()"),
       (true, "attr_name != 'ncformat'")], "expr", "var.setncattr(attr_name, attr_val)")] = (
    [([], "expr", "dset.createDimension('particle', None)")],
    [([], "assign", "var = dset.createVariable(k, v['ncformat'], 'particle')"),
     ([(true, "for (attr_name, attr_val) in v.items()"), (true, "attr_name != 'ncformat'")], "expr",
       "var.setncattr(attr_name, attr_val)")],
    []) := by rfl

set_option maxRecDepth 100000 in
theorem sf_co_split3 : sfSplit sfCoForAttr
    [([], "assign", "var = dset.createVariable(k, v['ncformat'], 'particle')"),
     ([(true, "for (attr_name, attr_val) in v.items()"), (true, "attr_name != 'ncformat'")], "expr",
       "var.setncattr(attr_name, attr_val)")] = (
    [([], "assign", "var = dset.createVariable(k, v['ncformat'], 'particle')")],
    [([(true, "attr_name != 'ncformat'")], "expr", "var.setncattr(attr_name, attr_val)")],
    []) := by rfl

set_option maxRecDepth 100000 in
/-- the loop over the items of `v`: every item but `ncformat` becomes an attribute of the variable `var` -/
theorem sf_co_attr_loop (attrs : List (String × String)) : ∀ (s : SfCoSt) (x : SfNcVar) (r : List SfNcVar),
    s.vars = x :: r →
    ∃ s', sfForEach (fun (a : String × String) s => sfStraight sfCoAtom sfCoStep
        [([(true, "attr_name != 'ncformat'")], "expr", "var.setncattr(attr_name, attr_val)")]
        { s with attrName := some a.1, attrVal := some a.2 }) attrs s = some (some s') ∧
      s'.dims = s.dims ∧
      s'.vars = { x with attrs := x.attrs ++ attrs.filter (fun a => a.1 != "ncformat") } :: r := by
  induction attrs with
  | nil => intro s x r hv; exact ⟨s, rfl, rfl, by simp [hv]⟩
  | cons a rest ih =>
    intro s x r hv
    by_cases ha : a.1 = "ncformat"
    · obtain ⟨s', h1, h2, h3⟩ := ih { s with attrName := some a.1, attrVal := some a.2 } x r hv
      refine ⟨s', ?_, h2, ?_⟩
      · rw [← h1]
        simp [sfForEach, sfStraight, runFn, fnStmtKnown, fnGuardKnown, guardVal, sfCoAtom, sfCoStep, sfNoRet, hv, ha,
          sfBind]
      · rw [h3]; simp [ha]
    · obtain ⟨s', h1, h2, h3⟩ := ih
        ({ s with attrName := some a.1, attrVal := some a.2, vars := { x with attrs := x.attrs ++ [(a.1, a.2)] } :: r })
        { x with attrs := x.attrs ++ [(a.1, a.2)] } r rfl
      refine ⟨s', ?_, h2, ?_⟩
      · rw [← h1]
        simp [sfForEach, sfStraight, runFn, fnStmtKnown, fnGuardKnown, guardVal, sfCoAtom, sfCoStep, sfNoRet, hv, ha,
          sfBind]
      · rw [h3]; simp [ha]


/-- one trip of the loop over `variables.items()` -/
def sfCoBody (it : String × SfNcAttrs) (s : SfCoSt) : Option (Option SfCoSt) :=
  sfBind (sfStraight sfCoAtom sfCoStep [([], "assign", "var = dset.createVariable(k, v['ncformat'], 'particle')")]
      { s with k := some it.1, v := some it.2 }) fun s =>
    sfBind (sfForEach (fun (a : String × String) s => sfStraight sfCoAtom sfCoStep
        [([(true, "attr_name != 'ncformat'")], "expr", "var.setncattr(attr_name, attr_val)")]
        { s with attrName := some a.1, attrVal := some a.2 }) it.2 s) fun s =>
      sfStraight sfCoAtom sfCoStep [] s

set_option maxRecDepth 100000 in
/-- the loop over `variables.items()`: one variable per entry, in order (kept in reverse in the state); the first
entry without `ncformat` raises -/
theorem sf_co_kv_loop (entries : List (String × SfNcAttrs)) : ∀ (s : SfCoSt) (d : List (String × Option Nat)),
    s.dims = some d → d.any (fun p => p.1 == "particle") = true →
    match entries.mapM sfNcVarOf with
    | none => sfForEach sfCoBody entries s = some none
    | some vs => ∃ s', sfForEach sfCoBody entries s = some (some s') ∧ s'.dims = s.dims ∧
        s'.vars = vs.reverse ++ s.vars := by
  induction entries with
  | nil => intro s d hd hp; exact ⟨s, rfl, rfl, by simp⟩
  | cons it rest ih =>
    intro s d hd hp
    cases hf : it.2.lookup "ncformat" with
    | none =>
      have h0 : sfNcVarOf it = none := by simp [sfNcVarOf, hf]
      simp only [List.mapM_cons, h0, Option.bind_eq_bind, Option.bind_none]
      simp [sfForEach, sfCoBody, sfStraight, runFn, fnStmtKnown, fnGuardKnown, guardVal, sfCoAtom, sfCoStep, sfNoRet,
        sfBind, hd, hf]
    | some fmt =>
      have h0 : sfNcVarOf it = some ⟨it.1, fmt, "particle", it.2.filter (fun a => a.1 != "ncformat")⟩ := by
        simp [sfNcVarOf, hf]
      obtain ⟨s1, e1, d1, v1⟩ := sf_co_attr_loop it.2
        ({ s with k := some it.1, v := some it.2, vars := ⟨it.1, fmt, "particle", []⟩ :: s.vars })
        ⟨it.1, fmt, "particle", []⟩ s.vars rfl
      have hstep : sfStraight sfCoAtom sfCoStep
          [([], "assign", "var = dset.createVariable(k, v['ncformat'], 'particle')")]
          { s with k := some it.1, v := some it.2 }
          = some (some { s with k := some it.1, v := some it.2, vars := ⟨it.1, fmt, "particle", []⟩ :: s.vars }) := by
        simp [sfStraight, runFn, fnStmtKnown, fnGuardKnown, guardVal, sfCoAtom, sfCoStep, sfNoRet, hd, hf, hp]
      have hbody : sfCoBody it s = some (some s1) := by
        unfold sfCoBody
        rw [hstep, sf_bind_some_some, e1, sf_bind_some_some]
        rfl
      have hd1 : s1.dims = some d := by rw [d1]; exact hd
      have hrun : sfForEach sfCoBody (it :: rest) s = sfForEach sfCoBody rest s1 := by
        show sfBind (sfCoBody it s) (sfForEach sfCoBody rest) = _
        rw [hbody, sf_bind_some_some]
      have := ih s1 d hd1 hp
      rw [hrun]
      simp only [List.mapM_cons, h0, Option.bind_eq_bind, Option.bind_some]
      cases hm : List.mapM sfNcVarOf rest with
      | none =>
        rw [hm] at this
        simpa using this
      | some vs =>
        rw [hm] at this
        obtain ⟨s', r1, r2, r3⟩ := this
        refine ⟨s', r1, by rw [r2, hd1, hd], ?_⟩
        simp [r3, v1]

set_option maxRecDepth 100000 in
/-- **`create_outfile`**: for every mapping `variables`.  No hypothesis. -/
theorem mine_create_outfile (entries : List (String × SfNcAttrs)) :
    mineCreateOutfileSeq entries = some (sfCreateSpec entries) := by
  unfold mineCreateOutfileSeq runCreateOutfile
  simp only [sf_co_split1, sf_co_split2, sf_co_split3]
  have hpre : sfStraight sfCoAtom sfCoStep [([], "import", "import netCDF4 as nc")]
      ⟨false, none, [], none, none, none, none⟩ = some (some ⟨true, none, [], none, none, none, none⟩) := by
    simp [sfStraight, runFn, fnStmtKnown, fnGuardKnown, guardVal, sfCoAtom, sfCoStep, sfNoRet]
  have hknown : sfAllKnown sfCoAtom sfCoStep
      ([([], "expr", "dset.createDimension('particle', None)")] ++
        [([], "assign", "var = dset.createVariable(k, v['ncformat'], 'particle')")] ++
        [([(true, "attr_name != 'ncformat'")], "expr", "var.setncattr(attr_name, attr_val)")] ++ [] ++ [])
      ⟨true, none, [], none, none, none, none⟩ = true := by
    simp [sfAllKnown, fnStmtKnown, fnGuardKnown, sfCoAtom, sfCoStep, sfNoRet]
  have hdim : sfStraight sfCoAtom sfCoStep [([], "expr", "dset.createDimension('particle', None)")]
      ⟨true, some [], [], none, none, none, none⟩
      = some (some ⟨true, some [("particle", none)], [], none, none, none, none⟩) := by
    simp [sfStraight, runFn, fnStmtKnown, fnGuardKnown, guardVal, sfCoAtom, sfCoStep, sfNoRet]
  rw [hpre, sf_bind_some_some]
  simp only [hknown, Bool.not_true, Bool.false_eq_true, if_false]
  rw [hdim, sf_bind_some_some]
  have key := sf_co_kv_loop entries ⟨true, some [("particle", none)], [], none, none, none, none⟩
    [("particle", none)] rfl rfl
  show sfBind (sfForEach sfCoBody entries ⟨true, some [("particle", none)], [], none, none, none, none⟩) _ = _
  unfold sfCreateSpec
  cases hm : List.mapM sfNcVarOf entries with
  | none =>
    rw [hm] at key
    rw [key]; rfl
  | some vs =>
    rw [hm] at key
    obtain ⟨s', r1, r2, r3⟩ := key
    rw [r1, sf_bind_some_some]
    simp [sfStraight, runFn, sf_bind_some_some, r2, r3]

end outfile

section update
variable {φ α : Type}

/-! ### mine: `update_outfile`, `store` -/

/-- the writes of `update_outfile`: every entry of `new_values`, in order, into the slice `[a:b]` of its variable
(`none`: a write raises) -/
def sfWriteAll (writeSlice : φ → String → Nat → Nat → List α → Option φ) (a b : Nat) :
    List (String × List α) → φ → Option φ
  | [], f => some f
  | kv :: rest, f =>
    match writeSlice f kv.1 a b kv.2 with
    | none => none
    | some f' => sfWriteAll writeSlice a b rest f'

/-- closed form of `update_outfile(fname, new_values)`: the slice starts at the current size of the dimension
`particle` and has the length of the FIRST entry of `new_values` (`none`: no entry, `StopIteration`) -/
def sfUpdateSpec (dimSize : φ → Nat) (writeSlice : φ → String → Nat → Nat → List α → Option φ) (file : φ)
    (newValues : List (String × List α)) : Option φ :=
  match newValues.head? with
  | none => none
  | some p => sfWriteAll writeSlice (dimSize file) (dimSize file + p.2.length) newValues file

set_option maxRecDepth 100000 in
theorem sf_uo_split1 : sfSplit sfUoWith Gen.mine_update_outfile_seq = (
    [([], "import", "import netCDF4 as nc")],
    [([], "assign", "num_old = dset.dimensions['particle'].size"),
     ([], "assign", "num_new = len(next((v for v in new_values.values())))"),
     ([(true, "for (k, v) in new_values.items()")], "assign", "dset.variables[k][num_old:num_old + num_new] = v")],
    []) := by rfl

set_option maxRecDepth 100000 in
theorem sf_uo_split2 : sfSplit sfUoForKV
    [([], "assign", "num_old = dset.dimensions['particle'].size"),
     ([], "assign", "num_new = len(next((v for v in new_values.values())))"),
     ([(true, "for (k, v) in new_values.items()")], "assign", "dset.variables[k][num_old:num_old + num_new] = v")] = (
    [([], "assign", "num_old = dset.dimensions['particle'].size"),
     ([], "assign", "num_new = len(next((v for v in new_values.values())))")],
    [([], "assign", "dset.variables[k][num_old:num_old + num_new] = v")],
    []) := by rfl

/-- one trip of the loop over `new_values.items()` -/
def sfUoBody (dimSize : φ → Nat) (writeSlice : φ → String → Nat → Nat → List α → Option φ)
    (newValues : List (String × List α)) (it : String × List α) (s : SfUoSt φ α) : Option (Option (SfUoSt φ α)) :=
  sfStraight sfNoAtom (sfUoStep dimSize writeSlice newValues)
    [([], "assign", "dset.variables[k][num_old:num_old + num_new] = v")] { s with k := some it.1, v := some it.2 }

set_option maxRecDepth 100000 in
theorem sf_uo_loop (dimSize : φ → Nat) (writeSlice : φ → String → Nat → Nat → List α → Option φ)
    (newValues : List (String × List α)) (a n : Nat) (items : List (String × List α)) : ∀ (s : SfUoSt φ α),
    s.opened = true → s.numOld = some a → s.numNew = some n →
    match sfWriteAll writeSlice a (a + n) items s.file with
    | none => sfForEach (sfUoBody dimSize writeSlice newValues) items s = some none
    | some f => ∃ s', sfForEach (sfUoBody dimSize writeSlice newValues) items s = some (some s') ∧ s'.file = f := by
  induction items with
  | nil => intro s _ _ _; exact ⟨s, rfl, rfl⟩
  | cons it rest ih =>
    intro s ho ha hn
    cases hw : writeSlice s.file it.1 a (a + n) it.2 with
    | none =>
      simp [sfWriteAll, hw, sfForEach, sfUoBody, sfStraight, runFn, fnStmtKnown, fnGuardKnown, guardVal, sfNoAtom,
        sfUoStep, sfNoRet, sfBind, ho, ha, hn]
    | some f' =>
      have hbody : sfUoBody dimSize writeSlice newValues it s
          = some (some { s with k := some it.1, v := some it.2, file := f' }) := by
        simp [sfUoBody, sfStraight, runFn, fnStmtKnown, fnGuardKnown, guardVal, sfNoAtom, sfUoStep, sfNoRet, ho, ha,
          hn, hw]
      have hrun : sfForEach (sfUoBody dimSize writeSlice newValues) (it :: rest) s
          = sfForEach (sfUoBody dimSize writeSlice newValues) rest { s with k := some it.1, v := some it.2, file := f' } := by
        show sfBind (sfUoBody dimSize writeSlice newValues it s) _ = _
        rw [hbody, sf_bind_some_some]
      rw [hrun]
      simp only [sfWriteAll, hw]
      exact ih { s with k := some it.1, v := some it.2, file := f' } ho ha hn

set_option maxRecDepth 100000 in
/-- **`update_outfile`**: for every file, every `new_values` and every behaviour of the two library calls.
No hypothesis. -/
theorem mine_update_outfile (dimSize : φ → Nat) (writeSlice : φ → String → Nat → Nat → List α → Option φ)
    (file : φ) (newValues : List (String × List α)) :
    mineUpdateOutfileSeq dimSize writeSlice file newValues = some (sfUpdateSpec dimSize writeSlice file newValues) := by
  unfold mineUpdateOutfileSeq runUpdateOutfile
  simp only [sf_uo_split1, sf_uo_split2]
  have hpre : sfStraight sfNoAtom (sfUoStep dimSize writeSlice newValues) [([], "import", "import netCDF4 as nc")]
      ⟨false, false, file, none, none, none, none⟩ = some (some ⟨true, false, file, none, none, none, none⟩) := by
    simp [sfStraight, runFn, fnStmtKnown, fnGuardKnown, guardVal, sfNoAtom, sfUoStep, sfNoRet]
  have hknown : sfAllKnown sfNoAtom (sfUoStep dimSize writeSlice newValues)
      ([([], "assign", "num_old = dset.dimensions['particle'].size"),
        ([], "assign", "num_new = len(next((v for v in new_values.values())))")] ++
        [([], "assign", "dset.variables[k][num_old:num_old + num_new] = v")] ++ [])
      ⟨true, false, file, none, none, none, none⟩ = true := by
    simp [sfAllKnown, fnStmtKnown, fnGuardKnown, sfNoAtom, sfUoStep, sfNoRet]
  rw [hpre, sf_bind_some_some]
  simp only [hknown, Bool.not_true, Bool.false_eq_true, if_false]
  unfold sfUpdateSpec
  cases hh : newValues.head? with
  | none =>
    simp [sfStraight, runFn, fnStmtKnown, fnGuardKnown, guardVal, sfNoAtom, sfUoStep, sfNoRet, hh, sfBind]
  | some p =>
    have hhead : sfStraight sfNoAtom (sfUoStep dimSize writeSlice newValues)
        [([], "assign", "num_old = dset.dimensions['particle'].size"),
         ([], "assign", "num_new = len(next((v for v in new_values.values())))")]
        ⟨true, true, file, none, none, none, none⟩
        = some (some ⟨true, true, file, some (dimSize file), some p.2.length, none, none⟩) := by
      simp [sfStraight, runFn, fnStmtKnown, fnGuardKnown, guardVal, sfNoAtom, sfUoStep, sfNoRet, hh]
    rw [hhead, sf_bind_some_some]
    have key := sf_uo_loop dimSize writeSlice newValues (dimSize file) p.2.length newValues
      ⟨true, true, file, some (dimSize file), some p.2.length, none, none⟩ rfl rfl rfl
    show sfBind (sfForEach (sfUoBody dimSize writeSlice newValues) newValues
      ⟨true, true, file, some (dimSize file), some p.2.length, none, none⟩) _ = _
    cases hw : sfWriteAll writeSlice (dimSize file) (dimSize file + p.2.length) newValues file with
    | none =>
      simp only [hw] at key
      rw [key, sf_bind_some_none]
      simp [hw]
    | some f =>
      simp only [hw] at key
      obtain ⟨s', r1, r2⟩ := key
      rw [r1, sf_bind_some_some]
      simp [sfStraight, runFn, sf_bind_some_some, r2, hw]

/-- closed form of `IBM.store()` (outer `none`: it raises; inner `none`: no output file is configured, nothing is
written): the values of the DEAD particles (`~alive`) of every output variable but `lon`, `lat`; when both of these
are output variables, `grid.xy2ll` of the entries `X`, `Y`; all appended to the output file -/
def sfStoreSpec (outputFile : Option String) (keys : List String) (stateVar : String → Option (List α))
    (alive : List Bool) (xy2ll : List α → List α → List α × List α) (dimSize : φ → Nat)
    (writeSlice : φ → String → Nat → Nat → List α → Option φ) (file : φ) : Option (Option φ) :=
  if !sfTruthy outputFile then some none else
  match sfStoreValues keys stateVar (alive.map (fun b => !b)) with
  | none => none
  | some nv =>
    match (if keys.contains "lon" && keys.contains "lat" then sfAddLonLat xy2ll nv else some nv) with
    | none => none
    | some nv' => (sfUpdateSpec dimSize writeSlice file nv').map some

local macro "sf_store_unfold" : tactic => `(tactic|
  simp [mineStoreSeq, runMineStore, Gen.mine_store_seq, runFn, fnStmtKnown, fnGuardKnown, guardVal, sfStoreAtom,
    sfStoreStep, sfStoreRet, sf_bind_isSome, sf_bind_some_some, sf_bind_some_none, mine_update_outfile, sfStoreSpec, *])

set_option maxRecDepth 100000 in
/-- **`store`**: for every state, every configuration of the output and every behaviour of the library calls.
No hypothesis. -/
theorem mine_store_seq (outputFile : Option String) (keys : List String) (stateVar : String → Option (List α))
    (alive : List Bool) (xy2ll : List α → List α → List α × List α) (dimSize : φ → Nat)
    (writeSlice : φ → String → Nat → Nat → List α → Option φ) (file : φ) :
    mineStoreSeq outputFile keys stateVar alive xy2ll dimSize writeSlice file
      = some (sfStoreSpec outputFile keys stateVar alive xy2ll dimSize writeSlice file) := by
  by_cases ho : sfTruthy outputFile = true
  · cases hv : sfStoreValues keys stateVar (alive.map (fun b => !b)) with
    | none => sf_store_unfold
    | some nv =>
      by_cases hl : "lon" ∈ keys ∧ "lat" ∈ keys
      · cases hx : sfAddLonLat xy2ll nv with
        | none => sf_store_unfold
        | some nv' =>
          sf_store_unfold
          cases sfUpdateSpec dimSize writeSlice file nv' <;> rfl
      · sf_store_unfold
        cases sfUpdateSpec dimSize writeSlice file nv <;> rfl
  · sf_store_unfold

end update

section minector
variable {α : Type} [Add α] [LE α] [DecidableLE α] [OfScientific α]

/-! ### mine: `IBM.__init__` -/

/-- closed form of the mine constructor (`none`: it raises): `lifespan`, `dt`, `nc_attributes` of every name in
`output_instance` are mandatory; defaults `vertical_mixing = 0`, `taucrit = 1000` (no resuspension),
`vertical_advection = False`, `output_file = None`, `land_collision = 'reposition'`; the output file is created iff
a non-empty name is configured -/
def sfMineCtorSpec (cfg : SfMineCfg α) : Option (SfMineSelf α) :=
  match cfg.ibm with
  | none => none
  | some ibm =>
    match ibm.lifespan, cfg.dt, sfOutputVars cfg with
    | some l, some dt, some ov =>
      match (if sfTruthy ibm.outputFile then (sfCreateSpec ov).map some else some none) with
      | none => none
      | some created =>
        some ⟨l, ibm.verticalMixing.getD 0.0, (sfMineTaucrit (ibm.taucrit.getD 1000.0)).map sfTauConst,
          ibm.verticalAdvection.getD false, dt, ibm.outputFile, ov, created, ibm.landCollision.getD "reposition",
          [], [], [], ["grid", "forcing", "state", "_ustar"], -1⟩
    | _, _, _ => none

/-! the statements of the constructor, one by one (`rfl`: the string match of `sfMineCtorStep` is evaluated by the
kernel; `simp` with the 18-way match itself is too slow) -/
set_option maxRecDepth 100000 in
section
theorem sf_minector_step_1 (cfg : SfMineCfg α) (s : SfMineCtorSt α) :
    sfMineCtorStep cfg s "assign" "self.lifespan = config['ibm']['lifespan']" =
      (some (match cfg.ibm with
      | some ibm =>
        match ibm.lifespan with
        | some l => some { s with lifespan := some l }
        | none => none
      | none => none)) := rfl

theorem sf_minector_step_2 (cfg : SfMineCfg α) (s : SfMineCtorSt α) :
    sfMineCtorStep cfg s "assign" "self.vdiff = config['ibm'].get('vertical_mixing', 0)" =
      (some (match cfg.ibm with
      | some ibm => some { s with vdiff := some (ibm.verticalMixing.getD 0.0) }
      | none => none)) := rfl

theorem sf_minector_step_3 (cfg : SfMineCfg α) (s : SfMineCtorSt α) :
    sfMineCtorStep cfg s "assign" "self.taucrit_fn = get_taucrit_fn(config['ibm'].get('taucrit', 1000))" =
      (match cfg.ibm with
    | some ibm =>
      sfBind (mineTaucritFnSeq (ibm.taucrit.getD 1000.0)) (fun f => some (some { s with taucritFn := some f }))
    | none => some none) := rfl

theorem sf_minector_step_4 (cfg : SfMineCfg α) (s : SfMineCtorSt α) :
    sfMineCtorStep cfg s "assign" "self.vadv = config['ibm'].get('vertical_advection', False)" =
      (some (match cfg.ibm with
      | some ibm => some { s with vadv := some (ibm.verticalAdvection.getD false) }
      | none => none)) := rfl

theorem sf_minector_step_5 (cfg : SfMineCfg α) (s : SfMineCtorSt α) :
    sfMineCtorStep cfg s "assign" "self.dt = config['dt']" =
      (some (match cfg.dt with
      | some dt => some { s with dt := some dt }
      | none => none)) := rfl

theorem sf_minector_step_6 (cfg : SfMineCfg α) (s : SfMineCtorSt α) :
    sfMineCtorStep cfg s "assign" "self.output_file = config['ibm'].get('output_file', None)" =
      (some (match cfg.ibm with
      | some ibm => some { s with outputFile := some ibm.outputFile }
      | none => none)) := rfl

theorem sf_minector_step_7 (cfg : SfMineCfg α) (s : SfMineCtorSt α) :
    sfMineCtorStep cfg s "assign" "self.output_vars = {varname: config['nc_attributes'][varname] for varname in config['output_instance']}" =
      (some (match sfOutputVars cfg with
      | some ov => some { s with outputVars := some ov }
      | none => none)) := rfl

theorem sf_minector_step_8 (cfg : SfMineCfg α) (s : SfMineCtorSt α) :
    sfMineCtorStep cfg s "expr" "create_outfile(self.output_file, self.output_vars)" =
      (match s.outputFile, s.outputVars with
    | some _, some ov => sfBind (mineCreateOutfileSeq ov) (fun f => some (some { s with created := some f }))
    | _, _ => some none) := rfl

theorem sf_minector_step_9 (cfg : SfMineCfg α) (s : SfMineCtorSt α) :
    sfMineCtorStep cfg s "assign" "self.land_collision = config['ibm'].get('land_collision', 'reposition')" =
      (some (match cfg.ibm with
      | some ibm => some { s with landCollision := some (ibm.landCollision.getD "reposition") }
      | none => none)) := rfl

theorem sf_minector_step_10 (cfg : SfMineCfg α) (s : SfMineCtorSt α) :
    sfMineCtorStep cfg s "assign" "self.x = np.array([])" =
      (some (some { s with x := some [] })) := rfl

theorem sf_minector_step_11 (cfg : SfMineCfg α) (s : SfMineCtorSt α) :
    sfMineCtorStep cfg s "assign" "self.y = np.array([])" =
      (some (some { s with y := some [] })) := rfl

theorem sf_minector_step_12 (cfg : SfMineCfg α) (s : SfMineCtorSt α) :
    sfMineCtorStep cfg s "assign" "self.pid = np.array([])" =
      (some (some { s with pid := some [] })) := rfl

theorem sf_minector_step_13 (cfg : SfMineCfg α) (s : SfMineCtorSt α) :
    sfMineCtorStep cfg s "assign" "self.grid = None" =
      (some (some { s with noneAttrs := s.noneAttrs ++ ["grid"] })) := rfl

theorem sf_minector_step_14 (cfg : SfMineCfg α) (s : SfMineCtorSt α) :
    sfMineCtorStep cfg s "assign" "self.forcing = None" =
      (some (some { s with noneAttrs := s.noneAttrs ++ ["forcing"] })) := rfl

theorem sf_minector_step_15 (cfg : SfMineCfg α) (s : SfMineCtorSt α) :
    sfMineCtorStep cfg s "assign" "self.state = None" =
      (some (some { s with noneAttrs := s.noneAttrs ++ ["state"] })) := rfl

theorem sf_minector_step_16 (cfg : SfMineCfg α) (s : SfMineCtorSt α) :
    sfMineCtorStep cfg s "assign" "self._ustar = None" =
      (some (some { s with noneAttrs := s.noneAttrs ++ ["_ustar"] })) := rfl

theorem sf_minector_step_17 (cfg : SfMineCfg α) (s : SfMineCtorSt α) :
    sfMineCtorStep cfg s "assign" "self._ustar_tstep = -1" =
      (some (some { s with ustarTstep := some (-1) })) := rfl
end

local macro "sf_minector_unfold" : tactic => `(tactic|
  simp [mineCtorSeq, runMineCtor, Gen.mine_ctor_seq, runFn, fnStmtKnown, fnGuardKnown, guardVal, sfMineCtorAtom,
    sfNoRet, sf_minector_step_1, sf_minector_step_2, sf_minector_step_3, sf_minector_step_4, sf_minector_step_5, sf_minector_step_6, sf_minector_step_7, sf_minector_step_8, sf_minector_step_9, sf_minector_step_10, sf_minector_step_11, sf_minector_step_12, sf_minector_step_13, sf_minector_step_14, sf_minector_step_15, sf_minector_step_16, sf_minector_step_17,
    sfMineCtorFin, SfMineCtorSt.init, sf_bind_some_some, sf_bind_some_none, sf_bind_isSome,
    mine_get_taucrit_fn, mine_create_outfile, sfMineCtorSpec, *])

set_option maxRecDepth 100000 in
/-- **`IBM.__init__`** (mine): for every configuration.  No hypothesis. -/
theorem mine_ctor_seq (cfg : SfMineCfg α) : mineCtorSeq cfg = some (sfMineCtorSpec cfg) := by
  obtain ⟨ibm, dt, nca, oi⟩ := cfg
  cases ibm with
  | none => sf_minector_unfold
  | some ibm =>
    obtain ⟨lifespan, vm, tc, va, outf, lc⟩ := ibm
    cases lifespan with
    | none => sf_minector_unfold
    | some l =>
      cases dt with
      | none => sf_minector_unfold
      | some dt =>
        cases hov : sfOutputVars (⟨some ⟨some l, vm, tc, va, outf, lc⟩, some dt, nca, oi⟩ : SfMineCfg α) with
        | none => sf_minector_unfold
        | some ov =>
          by_cases ht : sfTruthy outf = true
          · cases hc : sfCreateSpec ov <;> sf_minector_unfold
          · sf_minector_unfold

/-- the configuration record of the model (`Sed.Mine.Config`, used by `Seq.mineStep` and `SedimentSeq.lean`) that the
constructor arguments denote; `stateDt` (`state.dt`), `hasActive` (`self.has_active()`, a property of the state) and
the flag carrier are not constructor arguments -/
def sfMineConfigOf (cfg : SfMineCfg α) (stateDt : α) (hasActive : Bool) (carrier : Carrier) :
    Option (Sed.Mine.Config α) :=
  match cfg.ibm with
  | none => none
  | some ibm =>
    match ibm.lifespan, cfg.dt with
    | some l, some dt =>
      some ⟨dt, stateDt, l, ibm.verticalMixing.getD 0.0, sfMineTaucrit (ibm.taucrit.getD 1000.0),
        ibm.verticalAdvection.getD false, hasActive, carrier⟩
    | _, _ => none

/-- whenever the mine constructor returns, its attributes are those of the model's configuration record:
`self.lifespan`, `self.dt`, `self.vdiff`, `self.vadv`, and `self.taucrit_fn` is `None` iff `c.taucrit` is `none`
(otherwise the constant function of that value); the cache counter starts at -1, the position memory is empty -/
theorem mine_ctor_config (cfg : SfMineCfg α) (stateDt : α) (hasActive : Bool) (carrier : Carrier)
    (self : SfMineSelf α) (h : mineCtorSeq cfg = some (some self)) :
    ∃ c, sfMineConfigOf cfg stateDt hasActive carrier = some c ∧
      self.lifespan = c.lifespan ∧ self.dt = c.dt ∧ self.vdiff = c.vdiff ∧ self.vadv = c.vadv ∧
      self.taucritFn = c.taucrit.map sfTauConst ∧ self.ustarTstep = -1 ∧
      self.x = [] ∧ self.y = [] ∧ self.pid = [] := by
  rw [mine_ctor_seq] at h
  obtain ⟨ibm, dt, nca, oi⟩ := cfg
  cases ibm with
  | none => simp [sfMineCtorSpec] at h
  | some ibm =>
    obtain ⟨lifespan, vm, tc, va, outf, lc⟩ := ibm
    cases lifespan with
    | none => simp [sfMineCtorSpec] at h
    | some l =>
      cases dt with
      | none => simp [sfMineCtorSpec] at h
      | some dt =>
        cases hov : sfOutputVars (⟨some ⟨some l, vm, tc, va, outf, lc⟩, some dt, nca, oi⟩ : SfMineCfg α) with
        | none => simp [sfMineCtorSpec, hov] at h
        | some ov =>
          cases hc : (if sfTruthy outf then (sfCreateSpec ov).map some else some none) with
          | none => simp [sfMineCtorSpec, hov, hc] at h
          | some created =>
            simp [sfMineCtorSpec, hov, hc] at h
            subst h
            exact ⟨_, rfl, rfl, rfl, rfl, rfl, rfl, rfl, rfl, rfl, rfl⟩

end minector

section field
variable {α : Type} [Field α] [LinearOrder α] [IsStrictOrderedRing α]

/-! ### over an ordered field: the generated arithmetic windows, the threshold table -/

/-- the function object of constant mixing is the generated window `Gen.sed_mix_const` (`Bridge.sed_mix_const`) -/
theorem sf_mix_fn_const_gen [HasSqrt α] [HasFloor α] (v : α) :
    sfMixFnOf (.const v)
      = some (fun draw z h dt _ => some (some (Gen.sed_mix_const z h dt v (draw .stdNormal)))) := by
  show some _ = some _
  congr 1
  funext draw z h dt us
  rw [sed_mix_const]

/-- the function object of bounded-linear mixing is the generated window `Gen.sed_mix_bounded_linear` on
`Gen.sed_turbulence` (`Bridge.sed_mix_bounded_linear`) -/
theorem sf_mix_fn_bounded_linear_gen [HasSqrt α] [HasFloor α] (m : α) :
    sfMixFnOf (.boundedLinear m)
      = some (fun draw z h dt us => some (some (Gen.sed_mix_bounded_linear z h dt
          (Gen.sed_turbulence us (fmax (h - z) 0.0) m).1 (Gen.sed_turbulence us (fmax (h - z) 0.0) m).2
          (draw .stdNormal)))) := by
  show some _ = some _
  congr 1
  funext draw z h dt us
  rw [sed_mix_bounded_linear]

/-- `np.zeros_like(lon) + value` is `value` -/
theorem sf_tau_const_field (v lon lat : α) : sfTauConst v lon lat = some (some v) := by
  unfold sfTauConst; lits; simp

/-- the `float32` threshold table of `taucrit_bin` (`C08.taucrit_bin_table` under `narrow`) -/
theorem sf_taucrit_bin_f32_table [HasSqrt α] [HasTrunc α] [HasNarrow α] (sed : α) :
    (sed = 0 → taucritBinF32 sed = narrow 0.12) ∧ (0 < sed → sed < 70 → taucritBinF32 sed = narrow 0.06) ∧
    (70 ≤ sed → sed ≤ 180 → taucritBinF32 sed = narrow 0.12) ∧ (180 < sed → taucritBinF32 sed = narrow 0.32) := by
  obtain ⟨h1, h2, h3, h4⟩ := C08.taucrit_bin_table sed
  unfold taucritBinF32
  exact ⟨fun h => by rw [h1 h], fun a b => by rw [h2 a b], fun a b => by rw [h3 a b], fun a => by rw [h4 a]⟩

end field
end Bridge
