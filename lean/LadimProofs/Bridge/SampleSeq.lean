import LadimModel.Grid.SampleSeq
/-!
# Bridge (C15) — grid sampling: the hand-written model *is* the statement sequences of the code

The generated sequences of `chemicals/gridforce.py` (`_clamp_index`, `z2s`, `sample3D`, `sample3DUV`,
`Forcing.velocity / field / vertdiff / horzdiff / wvel`, `Grid.ingrid / atsea / sample_depth / sample_metric / xy2ll`)
and of `sedimentation/gridforce.py` (`Grid.sample_depth / xy2ll`), interpreted by `LadimModel/Grid/SampleSeq.lean`
(every statement, condition and `return` text must be a known one, also in the branch not taken; a callee with a
generated sequence of its own is interpreted from that sequence), are the functions of `LadimModel/Grid/Sample.lean`:

* `chem_clamp_index`  : `_clamp_index(I, J, shape) = (clampIdx shape[1] I, clampIdx shape[0] J)`;
* `chem_z2s`          : `z2s = (z2sK col Z, z2sA col Z zero)` on the column of the cell `clampIdx` of the rounded
  coordinates — hypothesis `2 ≤ kmax` (`chem_z2s_spec`: the closed form on the array reads, no hypothesis);
* `chem_sample3D`     : bilinear = `trilinear` at the offsets relative to the *clamped* corner (`chem_sample3D_gen`: the
  generated windows `Gen.sample3D_offsets`, `Gen.sample3D_weights`); nearest = the read at `clampIdx` of the rounded
  coordinates;
* `chem_sample3DUV`   : `U` at `(X + 0.5, round Y)`, `V` at `(round X, Y + 0.5)`;
* `chem_forcing_velocity`, `chem_forcing_field`, `chem_forcing_wvel`, `chem_forcing_vertdiff`, `chem_forcing_horzdiff`
  (`horzdiffValue`): the closed forms `…Spec` on the array reads, no hypothesis; `…_model`: the same with the
  hand-written `z2sK` / `z2sA` for `z2s` (hypothesis: at least two levels), `chem_forcing_vertdiff_model` with
  `cellIndex`, `vertdiffLevel`, `vertdiffValue`;
* `chem_grid_ingrid` (`GridSample.ingrid`), `chem_grid_atsea`, `chem_grid_sample_depth`, `chem_grid_sample_metric`
  (`cellIndex`), `chem_grid_xy2ll`, `sed_grid_sample_depth`, `sed_grid_xy2ll` (self-contained closed forms).

Only the operations of the scalar type are used (no field or order laws): the statements hold for every scalar type,
`Float` included.  All equalities of an interpretation with its closed form hold by unfolding (`rfl`).
-/
open Ladim Ladim.Seq Ladim.SampleSeq Ladim.GridSample

set_option linter.unusedSectionVars false
set_option linter.unusedVariables false
namespace Bridge

/-! ### (a) `_clamp_index` -/

/-- `_clamp_index(I, J, shape)`: each axis clamped to its own length — `shape[1]` for `I`, `shape[0]` for `J` -/
theorem chem_clamp_index (I J : Int) (shape : Nat × Nat) :
    clampIndexSeq I J shape = some (some (clampIdx shape.2 I, clampIdx shape.1 J)) := by
  rfl

section
variable {α : Type} [Add α] [Sub α] [Mul α] [Div α] [Neg α] [LT α] [DecidableLT α]
  [LE α] [DecidableLE α] [OfScientific α] [HasRound α] [HasTrunc α] [HasOfInt α]

/-! ### (b) `z2s` -/

/-- the closed form on the array reads; no hypothesis -/
theorem chem_z2s_spec (zr : Arr3 α) (X Y : Coord α) (Z : α) :
    z2sSeq zr X Y Z = some (some (z2sSpec zr X Y Z)) := by
  rfl

theorem ss_col_length (F : Arr3 α) (j i : Int) : (F.col j i).length = F.kmax := by
  simp [Arr3.col]

theorem ss_col_getD (F : Arr3 α) (j i : Int) (n : Nat) (zero : α) (h : n < F.kmax) :
    (F.col j i).getD n zero = F.get (n : Int) j i := by
  simp [Arr3.col, List.getD_eq_getElem?_getD, h]

theorem ss_level_cast (c n : Nat) (h : 2 ≤ n) :
    (((min (max c 1) (n - 1) : Nat) : Int) = min (max (c : Int) 1) ((n : Int) - 1))
      ∧ min (max c 1) (n - 1) < n ∧ min (max c 1) (n - 1) - 1 < n
      ∧ (((min (max c 1) (n - 1) - 1 : Nat) : Int) = ((min (max c 1) (n - 1) : Nat) : Int) - 1) := by
  omega

/-- the closed form is the hand-written `z2sK` / `z2sA` on the column `z_rho[:, J, I]` (`z2sModel`) when the array has
at least two levels (for `kmax = 1` the code reads `z_rho[-1]`, for `kmax = 0` it raises) -/
theorem chem_z2s_model (zr : Arr3 α) (X Y : Coord α) (Z zero : α) (hk : 2 ≤ zr.kmax) :
    z2sSpec zr X Y Z = z2sModel zero zr X Y Z := by
  obtain ⟨h1, h2, h3, h4⟩ :=
    ss_level_cast (countBelow (zr.col (clampIdx zr.jmax Y.around) (clampIdx zr.imax X.around)) Z) zr.kmax hk
  unfold z2sSpec z2sModel z2sA z2sK
  simp only [ss_col_length]
  rw [ss_col_getD zr _ _ _ zero h2, ss_col_getD zr _ _ _ zero h3, h4, h1]

/-- `z2s(z_rho, X, Y, Z)`: the cell `I = clampIdx shape[2] (around X)`, `J = clampIdx shape[1] (around Y)`;
`K = z2sK` (the count of levels below `-Z`, clipped to `[1, kmax - 1]`) and `A = z2sA` (clipped to `[0, 1]`) of the
column `z_rho[:, J, I]` -/
theorem chem_z2s (zr : Arr3 α) (X Y : Coord α) (Z zero : α) (hk : 2 ≤ zr.kmax) :
    z2sSeq zr X Y Z = some (some
      (((z2sK (zr.col (clampIdx zr.jmax Y.around) (clampIdx zr.imax X.around)) Z : Nat) : Int),
        z2sA (zr.col (clampIdx zr.jmax Y.around) (clampIdx zr.imax X.around)) Z zero)) := by
  rw [chem_z2s_spec, chem_z2s_model zr X Y Z zero hk]
  rfl

/-- the level is inside the array, with a level below it -/
theorem chem_z2s_level_range (zr : Arr3 α) (X Y : Coord α) (Z : α) (hk : 2 ≤ zr.kmax) :
    1 ≤ (z2sSpec zr X Y Z).1 ∧ (z2sSpec zr X Y Z).1 ≤ (zr.kmax : Int) - 1 := by
  unfold z2sSpec
  simp only
  omega

/-! ### (c) `sample3D` -/

set_option maxRecDepth 100000 in
theorem chem_sample3D_bilinear (F : Arr3 α) (X Y : α) (K : Int) (A : α) :
    sample3DSeq F X Y K A true = some (some (sample3DSpec F X Y K A true)) := by
  rfl

set_option maxRecDepth 100000 in
theorem chem_sample3D_nearest (F : Arr3 α) (X Y : α) (K : Int) (A : α) :
    sample3DSeq F X Y K A false = some (some (sample3DSpec F X Y K A false)) := by
  rfl

/-- `sample3D(F, X, Y, K, A, method)`.  `method == 'bilinear'`: the corner `I = clip(int X, 0, shape[2] - 2)`,
`J = clip(int Y, 0, shape[1] - 2)` first, the offsets `P = clip(X - I, 0, 1)`, `Q = clip(Y - J, 0, 1)` relative to that
clamped corner, `trilinear P Q A` of the reads `F[K, J, I] … F[K-1, J+1, I+1]`.  Otherwise: the read
`F[K, clampIdx shape[1] (round Y), clampIdx shape[2] (round X)]`. -/
theorem chem_sample3D (F : Arr3 α) (X Y : α) (K : Int) (A : α) (bilinear : Bool) :
    sample3DSeq F X Y K A bilinear = some (some (sample3DSpec F X Y K A bilinear)) := by
  cases bilinear
  · exact chem_sample3D_nearest F X Y K A
  · exact chem_sample3D_bilinear F X Y K A

/-- the bilinear branch in the generated statement windows `Gen.sample3D_offsets`, `Gen.sample3D_weights` -/
theorem chem_sample3D_gen (F : Arr3 α) (X Y : α) (K : Int) (A : α) :
    sample3DSpec F X Y K A true =
      Gen.sample3D_weights
        (Gen.sample3D_offsets X Y (ofInt (corner F.imax X)) (ofInt (corner F.jmax Y))).1
        (Gen.sample3D_offsets X Y (ofInt (corner F.imax X)) (ofInt (corner F.jmax Y))).2 A
        (F.get K (corner F.jmax Y) (corner F.imax X)) (F.get K (corner F.jmax Y + 1) (corner F.imax X))
        (F.get K (corner F.jmax Y) (corner F.imax X + 1)) (F.get K (corner F.jmax Y + 1) (corner F.imax X + 1))
        (F.get (K - 1) (corner F.jmax Y) (corner F.imax X)) (F.get (K - 1) (corner F.jmax Y + 1) (corner F.imax X))
        (F.get (K - 1) (corner F.jmax Y) (corner F.imax X + 1))
        (F.get (K - 1) (corner F.jmax Y + 1) (corner F.imax X + 1)) := by
  rfl

/-- the corner and its neighbour are inside an axis of length `≥ 2`, whatever the position -/
theorem chem_sample3D_corner_range (n : Nat) (x : α) (h : 2 ≤ n) :
    0 ≤ corner n x ∧ corner n x + 1 ≤ (n : Int) - 1 := by
  unfold corner
  omega

/-- the corner is `clampIdx` on the axis without its last node -/
theorem chem_sample3D_corner_clamp (n : Nat) (x : α) (h : 1 ≤ n) : corner n x = clampIdx (n - 1) (trunc x) := by
  unfold corner clampIdx
  omega

/-! ### (d) `sample3DUV` -/

set_option maxRecDepth 100000 in
/-- `sample3DUV`: `U` sampled at `(X + 0.5, round Y)`, `V` at `(round X, Y + 0.5)`, both with the same `K`, `A` -/
theorem chem_sample3DUV (U V : Arr3 α) (X Y : α) (K : Int) (A : α) (bilinear : Bool) :
    sample3DUVSeq U V X Y K A bilinear = some (some (sample3DUVSpec U V X Y K A bilinear)) := by
  cases bilinear <;> rfl

/-! ### (e) `Forcing` -/

set_option maxRecDepth 100000 in
/-- `Forcing.velocity`: see `velocitySpec` — `z2s(z_w, X - i0, Y - j0, Z)`, `A := 1`, the guard `K ≥ kmax - 1`
(`K := kmax - 2`, `A := 0`), `U + tstep * dU` only for `tstep ≥ 0.001`, `sample3DUV` at `X - i0`, `Y - j0` -/
theorem chem_forcing_velocity (g : GridEnv α) (attr : String → Arr3 α) (X Y Z tstep : α) (bilinear : Bool) :
    velocitySeq g attr X Y Z tstep bilinear = some (some (velocitySpec g attr X Y Z tstep bilinear)) := by
  unfold velocitySeq velocitySpec velocitySpecWith
  by_cases h : tstep < 0.001
  · simp only [if_pos h, decide_eq_true h]
    cases bilinear <;> rfl
  · simp only [if_neg h, decide_eq_false h]
    cases bilinear <;> rfl

/-- the level `velocity` samples at, and the one below it, are inside a field with `kmax - 1` levels -/
theorem chem_forcing_velocity_level_range (g : GridEnv α) (X Y Z : α) (hk : 3 ≤ g.z_w.kmax) :
    let K0 := (z2sSpec g.z_w (.real (X - ofInt g.i0)) (.real (Y - ofInt g.j0)) Z).1
    let K := if decide ((g.z_w.kmax : Int) - 1 ≤ K0) then (g.z_w.kmax : Int) - 2 else K0
    1 ≤ K ∧ K ≤ (g.z_w.kmax : Int) - 2 := by
  have h := chem_z2s_level_range g.z_w (.real (X - ofInt g.i0)) (.real (Y - ofInt g.j0)) Z (by omega)
  simp only [decide_eq_true_eq]
  split <;> omega

set_option maxRecDepth 100000 in
/-- `Forcing.field`: `z2s` on `z_r` at `X - i0`, `Y - j0`; nearest sampling of `self[name]` there -/
theorem chem_forcing_field (g : GridEnv α) (attr : String → Arr3 α) (name : String) (X Y Z : α) :
    fieldSeq g attr name X Y Z = some (some (fieldSpec g attr name X Y Z)) := by
  rfl

set_option maxRecDepth 100000 in
/-- `Forcing.wvel`: `z2s` on `z_w` at `X - i0`, `Y - j0`; `W` sampled at `round(X - i0)`, `round(Y - j0)`; for
`tstep ≥ 0.001` the stored `self['W']` itself is advanced by `tstep * dW` (`F += …` on the array object) -/
theorem chem_forcing_wvel (g : GridEnv α) (attr : String → Arr3 α) (X Y Z tstep : α) (bilinear : Bool) :
    wvelSeq g attr X Y Z tstep bilinear = some (some (wvelSpec g attr X Y Z tstep bilinear)) := by
  unfold wvelSeq wvelSpec wvelSpecWith
  by_cases h : (0.001 : α) ≤ tstep
  · simp only [if_pos h, decide_eq_true h]
    cases bilinear <;> rfl
  · simp only [if_neg h, decide_eq_false h]
    cases bilinear <;> rfl

/-- with `tstep < 0.001` (the default `tstep = 0`) the stored field is not changed -/
theorem chem_forcing_wvel_pure (g : GridEnv α) (attr : String → Arr3 α) (X Y Z tstep : α) (bilinear : Bool)
    (h : ¬ (0.001 : α) ≤ tstep) : (wvelSpec g attr X Y Z tstep bilinear).2 = attr "W" := by
  unfold wvelSpec wvelSpecWith
  simp only [if_neg h]

set_option maxRecDepth 100000 in
/-- `Forcing.vertdiff`: the closed form on the array reads (`vertdiffSpec`), no hypothesis -/
theorem chem_forcing_vertdiff (g : GridEnv α) (attr : String → Arr3 α) (name : String) (X Y Z : α) :
    vertdiffSeq g attr name X Y Z = some (some (vertdiffSpec g attr name X Y Z)) := by
  rfl

theorem ss_clampIdx_idem (n : Nat) (i : Int) : clampIdx n (clampIdx n i) = clampIdx n i := by
  unfold clampIdx
  omega

/-- `Forcing.vertdiff`: `I = cellIndex` (`int32(round X) - i0`: round first, then subtract; clamped with `H.shape`),
`z2s` on the column `z_w[:, J, I]`, `K_nearest = vertdiffLevel (len Cs_w) K A`, the value floored at 0
(`vertdiffValue`).  Hypotheses: `z_w` has at least two levels and the horizontal shape of `H`. -/
theorem chem_forcing_vertdiff_model (g : GridEnv α) (attr : String → Arr3 α) (name : String) (X Y Z zero : α)
    (hk : 2 ≤ g.z_w.kmax) (hj : g.z_w.jmax = g.H.jmax) (hi : g.z_w.imax = g.H.imax) :
    vertdiffSeq g attr name X Y Z = some (some
      (vertdiffValue ((attr name).get
        (vertdiffLevel g.nCsw
          (z2sK (g.z_w.col (cellIndex g.H.jmax g.j0 Y) (cellIndex g.H.imax g.i0 X)) Z)
          (z2sA (g.z_w.col (cellIndex g.H.jmax g.j0 Y) (cellIndex g.H.imax g.i0 X)) Z zero))
        (cellIndex g.H.jmax g.j0 Y) (cellIndex g.H.imax g.i0 X)))) := by
  rw [chem_forcing_vertdiff]
  unfold vertdiffSpec vertdiffSpecWith
  simp only [chem_z2s_model g.z_w _ _ Z zero hk, z2sModel, Coord.around, hj, hi, cellIndex, ss_clampIdx_idem]
  unfold vertdiffValue vertdiffLevel
  rw [Int.max_comm, Int.min_comm]

set_option maxRecDepth 100000 in
/-- `Forcing.horzdiff`: see `horzdiffSpec` — the stencil cell clipped to `[0, imax - 2] × [0, jmax - 2]`, `z2s` on `z_r`
there, `horzdiffValue` (the Smagorinsky value; zero where the particle's own cell is land) -/
theorem chem_forcing_horzdiff (g : GridEnv α) (attr : String → Arr3 α) (X Y Z : α) :
    horzdiffSeq g attr X Y Z = some (some (horzdiffSpec g attr X Y Z)) := by
  rfl

/-- the stencil `I, I + 1` is inside an axis of length `≥ 2`, whatever the position -/
theorem chem_forcing_horzdiff_stencil_range (n : Nat) (i : Int) (h : 2 ≤ n) :
    0 ≤ max 0 (min ((n : Int) - 2) i) ∧ max 0 (min ((n : Int) - 2) i) + 1 ≤ (n : Int) - 1 := by
  omega

/-! ### (e') the `Forcing` methods with the hand-written `z2sK` / `z2sA` (`z2sModel zero`) for `z2s` -/

theorem chem_forcing_velocity_model (g : GridEnv α) (attr : String → Arr3 α) (X Y Z tstep zero : α) (bilinear : Bool)
    (hk : 2 ≤ g.z_w.kmax) :
    velocitySeq g attr X Y Z tstep bilinear
      = some (some (velocitySpecWith (z2sModel zero) g attr X Y Z tstep bilinear)) := by
  rw [chem_forcing_velocity]
  unfold velocitySpec velocitySpecWith
  simp only [chem_z2s_model g.z_w _ _ Z zero hk]

theorem chem_forcing_field_model (g : GridEnv α) (attr : String → Arr3 α) (name : String) (X Y Z zero : α)
    (hk : 2 ≤ g.z_r.kmax) :
    fieldSeq g attr name X Y Z = some (some (fieldSpecWith (z2sModel zero) g attr name X Y Z)) := by
  rw [chem_forcing_field]
  unfold fieldSpec fieldSpecWith
  simp only [chem_z2s_model g.z_r _ _ Z zero hk]

theorem chem_forcing_wvel_model (g : GridEnv α) (attr : String → Arr3 α) (X Y Z tstep zero : α) (bilinear : Bool)
    (hk : 2 ≤ g.z_w.kmax) :
    wvelSeq g attr X Y Z tstep bilinear = some (some (wvelSpecWith (z2sModel zero) g attr X Y Z tstep bilinear)) := by
  rw [chem_forcing_wvel]
  unfold wvelSpec wvelSpecWith
  simp only [chem_z2s_model g.z_w _ _ Z zero hk]

theorem chem_forcing_horzdiff_model (g : GridEnv α) (attr : String → Arr3 α) (X Y Z zero : α)
    (hk : 2 ≤ g.z_r.kmax) :
    horzdiffSeq g attr X Y Z = some (some (horzdiffSpecWith (z2sModel zero) g attr X Y Z)) := by
  rw [chem_forcing_horzdiff]
  unfold horzdiffSpec horzdiffSpecWith
  simp only [chem_z2s_model g.z_r _ _ Z zero hk]

/-! ### (f) `Grid` -/

/-- `Grid.ingrid` is `GridSample.ingrid` -/
theorem chem_grid_ingrid (g : GridEnv α) (X Y : α) :
    ingridSeq g X Y = some (some (GridSample.ingrid g.xmin g.xmax g.ymin g.ymax X Y)) := by
  rfl

/-- `Grid.atsea`: the mask at the particle's own cell, clamped to the nearest edge cell -/
theorem chem_grid_atsea (g : GridEnv α) (X Y : α) :
    atseaSeq g X Y = some (some (decide (0.0 < g.M.atCell g.i0 g.j0 X Y))) := by
  rfl

/-- `Grid.sample_depth`: `H[cellIndex jmax j0 Y, cellIndex imax i0 X]` -/
theorem chem_grid_sample_depth (g : GridEnv α) (X Y : α) :
    sampleDepthSeq g X Y = some (some (g.H.atCell g.i0 g.j0 X Y)) := by
  rfl

/-- `Grid.sample_metric`: `dx` at the clamped cell, for both directions -/
theorem chem_grid_sample_metric (g : GridEnv α) (X Y : α) :
    sampleMetricSeq g X Y = some (some (g.dx.atCell g.i0 g.j0 X Y, g.dx.atCell g.i0 g.j0 X Y)) := by
  rfl

/-- chemicals `Grid.xy2ll`: the local coordinates clipped to `[0, nextafter(n - 1, 0)]` (self-contained closed form;
`sample2D` and `nextafter` are parameters) -/
theorem chem_grid_xy2ll {β : Type} (nextafter0 : α → α) (sample2D : Arr2 α → α → α → β) (g : GridEnv α) (X Y : α) :
    xy2llSeq nextafter0 sample2D g X Y = some (some (xy2llSpec nextafter0 sample2D g X Y)) := by
  rfl

/-- sedimentation `Grid.sample_depth`: `map_coordinates(H, [Y - j0, X - i0], order=1, mode='nearest')` — row
coordinate first (self-contained closed form; `map_coordinates` with these options is a parameter) -/
theorem sed_grid_sample_depth {β : Type} (mapNearest : Arr2 α → α → α → β) (g : GridEnv α) (X Y : α) :
    sedSampleDepthSeq mapNearest g X Y = some (some (mapNearest g.H (Y - ofInt g.j0) (X - ofInt g.i0))) := by
  rfl

/-- with the reference meaning of `map_coordinates(…, order=1, mode='nearest')`: `GridSample.bilinear` in the cell of the
position clamped to the array -/
theorem sed_grid_sample_depth_ref (g : GridEnv α) (X Y : α) :
    sedSampleDepthSeq mapNearestRef g X Y = some (some (mapNearestRef g.H (Y - ofInt g.j0) (X - ofInt g.i0))) := by
  rfl

/-- sedimentation `Grid.xy2ll`: the global coordinates clipped to `[i0, nextafter(i0 + n - 1, 0)]`, then the parent's
`xy2ll` (self-contained closed form) -/
theorem sed_grid_xy2ll {β : Type} (nextafter0 : α → α) (superXy2ll : α → α → β) (g : GridEnv α) (X Y : α) :
    sedXy2llSeq nextafter0 superXy2ll g X Y = some (some (sedXy2llSpec nextafter0 superXy2ll g X Y)) := by
  rfl

end
end Bridge
