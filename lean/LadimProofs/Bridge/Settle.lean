import LadimProofs.Basic
import LadimModel.IBM.Chemicals
import LadimModel.IBM.Sedimentation
import LadimModel.IBM.Bio
/-!
# Bridge (C08) — the hand-written per-particle model *is* the code

`LadimModel/Generated/Formulas.lean` is regenerated from /repo's current source on every run.  Besides the closed-form
formulas it contains the statement windows of the IBM update rules, translated operation by operation from the
numpy-mask code.  Each theorem below states that a hand-written model function used by the property theorems equals
the generated window (or a composition of generated windows).  They are re-checked by the kernel on every run: a
change of the source inside a window either breaks the translation or one of these equalities, and the property
theorems proved about the hand-written model keep speaking about what the code says now.

Bottom shear stress and resuspension.
-/
open Ladim

set_option linter.unusedSectionVars false
set_option linter.unusedVariables false
set_option linter.unnecessarySeqFocus false
namespace Bridge
variable {α : Type} [Field α] [LinearOrder α] [IsStrictOrderedRing α]
  [HasSqrt α]

section
open Ladim.Sed
theorem sed_ustar (u v : α) : ustar u v = Gen.sed_ustar u v := by simp [ustar, Gen.sed_ustar]
end

section
open Ladim.Sed
theorem mine_ustar (u v : α) : ustar u v = Gen.mine_ustar u v := by simp [ustar, Gen.mine_ustar]
end

section
open Ladim.Sed
theorem sed_shear (us : α) : shearStress us = Gen.sed_shear_stress us := by
  simp [shearStress, Gen.sed_shear_stress]
end

section
open Ladim.Sed
theorem mine_shear (us : α) : shearStress us = Gen.mine_shear_stress us := by
  simp [shearStress, Gen.mine_shear_stress]
end

section
open Ladim.Sed
theorem sed_resuspend (e : Env α) (a : Nat) :
    resuspend e a = match e.taucrit with
      | none => a
      | some c => if Gen.sed_resuspend (Gen.sed_ustar e.ub e.vb) c then 1 else a := by
  unfold resuspend
  cases e.taucrit <;> simp [Gen.sed_resuspend, ← sed_ustar, ← sed_shear]
end

end Bridge
