import LadimModel.Release.ReleaseSeq
/-!
# Bridge (C04) — release table: the hand-written table model *is* the statement sequence of the code

`Gen.make_single_release_seq` and `Gen.make_release_seq` (regenerated from `release/makrel.py` on every run),
interpreted statement by statement with the operations of `LadimModel/Release/Table.lean`
(`LadimModel/Release/ReleaseSeq.lean`), are `Table.singleRelease .depthFourth` and `Table.makeTable`.
A change of a statement, of its position or of its guard changes the generated list, and these equalities no longer
check.
-/
open Ladim Ladim.Table Ladim.Seq

namespace Bridge
variable {α : Type}

theorem lookup_filter_ne (f : Frame α) (k k' : String) (h : k' ≠ k) :
    lookup (f.filter (fun p => !(p.1 == k))) k' = lookup f k' := by
  induction f with
  | nil => rfl
  | cons p f ih =>
    simp only [lookup] at ih ⊢
    rw [List.filter_cons]
    cases hp : (p.1 == k) with
    | true =>
      have hk' : (p.1 == k') = false := by
        cases hq : (p.1 == k') with
        | false => rfl
        | true => exact absurd ((eq_of_beq hq).symm.trans (eq_of_beq hp)) h
      simp only [Bool.not_true, Bool.false_eq_true, if_false, List.find?_cons, hk']
      exact ih
    | false =>
      simp only [Bool.not_false, if_true, List.find?_cons]
      cases (p.1 == k')
      · exact ih
      · rfl

/-- the exact outcome of the interpreted `make_single_release`: a `KeyError` (`some none`) when the location has no
`longitude` or no `latitude`, or the attributes have no `depth`; the hand-written frame otherwise -/
theorem make_single_release_seq_full (date : List (Cell α)) (loc depthDefault implicit explicit : Frame α) :
    runSingleRelease date loc depthDefault implicit explicit Gen.make_single_release_seq =
      some (if (lookup loc "longitude").isSome && (lookup loc "latitude").isSome
              && (lookup (dictMerge (dictMerge depthDefault implicit) explicit) "depth").isSome
            then some (singleRelease .depthFourth date loc depthDefault implicit explicit) else none) := by
  have hlat := lookup_filter_ne loc "longitude" "latitude" (by decide)
  have hff : (loc.filter (fun p => !(p.1 == "longitude"))).filter (fun p => !(p.1 == "latitude"))
      = loc.filter (fun p => !(p.1 == "longitude" || p.1 == "latitude")) := by
    rw [List.filter_filter]; congr 1; funext p
    cases (p.1 == "longitude") <;> cases (p.1 == "latitude") <;> rfl
  cases h1 : lookup loc "longitude" with
  | none =>
    simp [runSingleRelease, Gen.make_single_release_seq, runStrictRet, guardVal, relStep, RelSt.init, returned,
      popKeys, popKey, h1]
  | some v1 =>
    cases h2 : lookup loc "latitude" with
    | none =>
      simp [runSingleRelease, Gen.make_single_release_seq, runStrictRet, guardVal, relStep, RelSt.init, returned,
        popKeys, popKey, h1, h2, hlat]
    | some v2 =>
      cases h3 : lookup (dictMerge (dictMerge depthDefault implicit) explicit) "depth" with
      | none =>
        simp [runSingleRelease, Gen.make_single_release_seq, runStrictRet, guardVal, relStep, RelSt.init, returned,
          popKeys, popKey, h1, h2, h3, hlat]
      | some d =>
        have hhead : dictMerge (dictMerge [("date", date)] [("longitude", v1), ("latitude", v2)]) [("depth", d)]
            = [("date", date), ("longitude", v1), ("latitude", v2), ("depth", d)] := by
          simp [dictMerge]
        simp [runSingleRelease, Gen.make_single_release_seq, runStrictRet, guardVal, relStep, RelSt.init, returned,
          popKeys, popKey, h1, h2, h3, hlat, hff, hhead, singleRelease]

/-- `make_single_release`, interpreted from its generated statement sequence, returns the hand-written frame
whenever it does not raise a `KeyError` -/
theorem make_single_release_seq (date : List (Cell α)) (loc depthDefault implicit explicit : Frame α)
    (hlon : (lookup loc "longitude").isSome) (hlat : (lookup loc "latitude").isSome)
    (hdepth : (lookup (dictMerge (dictMerge depthDefault implicit) explicit) "depth").isSome) :
    runSingleRelease date loc depthDefault implicit explicit Gen.make_single_release_seq =
      some (some (singleRelease .depthFourth date loc depthDefault implicit explicit)) := by
  rw [make_single_release_seq_full]; simp [hlon, hlat, hdepth]

/-- the exact outcome of the interpreted `make_release`: `pd.concat([])` raises for an empty list of groups
(`Table.makeTable` returns an empty table there); otherwise it is `Table.makeTable` (`none` = raises) -/
theorem make_release_seq_full (zero : α) (groups : List (Frame α × Nat)) (columns : Option (List String))
    (hasSeed fname : Bool) :
    runMakeRelease zero groups columns hasSeed fname Gen.make_release_seq =
      some (if groups.isEmpty then none else makeTable zero groups columns) := by
  cases columns with
  | none =>
    cases hasSeed <;> cases fname <;>
      cases hok : groups.all (fun g => frameOk g.1 g.2) <;>
      cases hemp : groups.isEmpty <;>
      simp [runMakeRelease, Gen.make_release_seq, runStrictRet, guardVal, mkAtom, mkStep, MkSt.init, returned,
        makeTable, hok, hemp]
  | some want =>
    cases hasSeed <;> cases fname <;>
      cases hok : groups.all (fun g => frameOk g.1 g.2) <;>
      cases hemp : groups.isEmpty <;>
      simp [runMakeRelease, Gen.make_release_seq, runStrictRet, guardVal, mkAtom, mkStep, MkSt.init, returned,
        makeTable, hok, hemp] <;>
      cases List.mapM (selectCols (concatFill zero groups).1 want)
        (sortRows (concatFill zero groups).1 (concatFill zero groups).2) <;> rfl

theorem make_release_seq (zero : α) (groups : List (Frame α × Nat)) (columns : Option (List String))
    (hasSeed fname : Bool) (hne : groups ≠ []) :
    runMakeRelease zero groups columns hasSeed fname Gen.make_release_seq = some (makeTable zero groups columns) := by
  rw [make_release_seq_full]; simp [hne]

end Bridge
