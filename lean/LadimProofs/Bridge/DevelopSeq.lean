import LadimProofs.Basic
import LadimProofs.C09
import LadimModel.IBM.DevelopSeq
/-!
# Bridge (C05, C09, C16) — sand eel and shrimp: the method bodies are the hand-written per-particle rules

`Gen.sandeel_*_seq` / `Gen.shrimp_*_seq` (guard, kind and text of every statement of `sandeel/ibm.py` and
`shrimp/ibm.py`, regenerated from /repo on every run) are interpreted on ONE particle by
`LadimModel/IBM/DevelopSeq.lean` (strict runner `BioSeq.runProc`; locals unbound until assigned; one supply of random
numbers, every request logged).  The theorems say what each interpretation is.

sand eel
* `sandeel_ctor_seq`               : `D ← config['ibm']['vertical_mixing']`, `dt ← config['dt']`,
  `maxdepth ← config['ibm']['max_depth']`; no defaults: a missing key raises.
* `sandeel_hatch_time_func_seq`    : `hatch_time(rate, temp) = spline(rate, min(10, max(2, temp)))`, `spline` =
  `RectBivariateSpline` (parameter `mk`) on the tables of the source; `sandeel_hatch_time_is_model`: if that spline is the
  quadratic-by-linear interpolant `sandeelSplineClosed`, it is `Dev.hatchTime`.
* `sandeel_initialize_hatch_rate_seq` : one uniform number, only where `hatch_rate == 0` (closed form; no model function).
* `sandeel_bottom_temp_seq`        : `temp[0, round(Y - j0), round(X - i0)]` (closed form; no model function).
* `sandeel_egg_development_seq`    = `Dev.eggDevelop (hatch_time(hatch_rate, temp)) dt`.
* `sandeel_larval_development_seq` = `Dev.larvaDevelop temp dt`.
* `sandeel_reflexive_seq`          = `Bio.reflexive`;  `sandeel_vertical_diffuse_seq` = `Bio.sandeelZ` for an active
  particle (one normal number), nothing (and no number) for an inactive one.
* `sandeel_update_seq`             : the whole `update_ibm` = `Dev.sandeelDevelop` (egg rule with the BOTTOM temperature
  at the nearest cell and the hatch rate AFTER its initialisation, then the larval rule with the temperature at the
  particle — an egg that hatches in this step grows as a larva in the same step), then `Bio.sandeelZ` iff the particle is
  active AFTER development; order of the draws: uniform (iff `hatch_rate == 0`), normal (iff active).

shrimp
* `shrimp_ctor_seq`, `shrimp_ctor_raises` : the six stage tables, `dt`; `KeyError` unless `'active'` is listed.
* `shrimp_initialize_seq`          : `depth_quantile` ← a uniform number where it is 0, `stage` ← 1 where it is 0 (closed form).
* `shrimp_update_forcing_seq`      : `temp`, `salt` read at the particle (closed form).
* `shrimp_growth_seq`              = `Bio.shrimpStage` (stage clipped to `[1, 6]`), `Gen.shrimp_delta_age`, `active = stage < 6`,
  `Dev.shrimpLength`; raises when `state['temp']` is unbound.
* `shrimp_mixing_seq`              = `Bio.shrimpMix` with `vertical_mixing[min(5, int(stage)) - 1]`, one normal number.
* `shrimp_sunheight_seq`           = `Gen.shrimp_sunheight`.
* `shrimp_diel_migration_seq`      = `Bio.shrimpMigrate` towards `Bio.shrimpPreferred`, day iff `sunheight > 0`.
* `shrimp_update_seq`              : the whole `update_ibm`: growth uses the temperature read at the OLD position, mixing
  and migration use the stage AFTER growth, migration starts from the depth AFTER mixing and uses the quantile AFTER
  initialisation.

Scalar laws used: `z * (-1) = -z` (shrimp mixing), `7.48 = 7.480` (length table: the source text has `7.48`, the model
`7.480`); everything else is computation — `exp`, `rpow`, `sqrt`, `round`, `trunc` … are arbitrary functions.
-/
open Ladim Ladim.DevSeq Ladim.BioSeq

set_option linter.unusedSectionVars false
set_option linter.unusedVariables false
set_option linter.unusedSimpArgs false
set_option linter.unnecessarySeqFocus false
namespace Bridge
variable {α : Type} [Field α] [LinearOrder α] [IsStrictOrderedRing α]
  [HasSqrt α] [HasExp α] [HasLog α] [HasSin α] [HasCos α] [HasAsin α] [HasRpow α] [HasPi α]

/-! ### tools -/

theorem dev_run_eq {β : Type} {r : Option (Option β)} {m : β} (h : ∃ v, r = some (some v) ∧ v = m) :
    r = some (some m) := by
  obtain ⟨v, h1, h2⟩ := h; rw [h1, h2]

/-- one unguarded statement that succeeds -/
theorem dev_runProc_cons {σ : Type} {atom : σ → String → Option Bool}
    {step : σ → String → String → Option (Option σ)} {k t : String} {rest : List Seq.Stmt} {s s' : σ}
    (hk : k ≠ "return") (h : step s k t = some (some s')) :
    runProc atom step (([], k, t) :: rest) s = runProc atom step rest s' := by
  simp [runProc, stmtKnown, guardKnown, Seq.guardVal, h, hk]

theorem dev_runProc_nil {σ : Type} (atom : σ → String → Option Bool)
    (step : σ → String → String → Option (Option σ)) (s : σ) : runProc atom step [] s = some (some s) := rfl

theorem dev_mul_neg_one (z : α) : z * (-1.0) = -z := by lits; simp

/-! ## sand eel -/

/-! ### `__init__` -/

/-- **sand eel `__init__`**: which configuration key goes to which attribute; there are no defaults — the outcome is a
raise (`none`) as soon as one of `config['ibm']`, its keys `vertical_mixing` / `max_depth`, or `config['dt']` is missing -/
theorem sandeel_ctor_seq (c : SandeelConfig α) :
    sandeelCtorRun c = some (
      c.ibm.bind fun m => (m "vertical_mixing").bind fun D => c.dt.bind fun dt => (m "max_depth").bind fun md =>
        some ⟨some D, some dt, some md, true, true, true⟩) := by
  obtain ⟨dt, ibm⟩ := c
  cases ibm with
  | none =>
    simp [sandeelCtorRun, Gen.sandeel_ctor_seq, runProc, stmtKnown, guardKnown, Seq.guardVal, sandeelCtorAtom,
      sandeelCtorStep]
  | some m =>
    cases h1 : m "vertical_mixing" <;> cases dt <;> cases h2 : m "max_depth" <;>
    simp [sandeelCtorRun, Gen.sandeel_ctor_seq, runProc, stmtKnown, guardKnown, Seq.guardVal, sandeelCtorAtom,
      sandeelCtorStep, h1, h2]

/-! ### `get_hatch_time_func` -/

set_option maxRecDepth 100000 in
/-- **`get_hatch_time_func`**: the returned function clamps the temperature to `[temp_tab[0], temp_tab[-1]] = [2, 10]`
(`min(10, max(2, temp))`, in this nesting) and evaluates the `RectBivariateSpline(kx=2, ky=1)` built from the three
tables of the source at `(rate, clamped temp)`; `mk` = construction + evaluation of the spline (parameter) -/
theorem sandeel_hatch_time_func_seq (mk : List α → List α → List (List α) → Nat → Nat → α → α → α) :
    sandeelHatchFuncRun mk = some (some fun rate temp => some (some
      (mk [0.0, 0.5, 1.0] [2.0, 4.0, 7.0, 10.0]
        [[61.0, 51.0, 39.0, 25.0], [82.0, 67.0, 48.0, 30.0], [135.0, 116.0, 82.0, 55.0]] 2 1 rate
        (fmin 10.0 (fmax 2.0 temp))))) := rfl

/-- the hand-written `Dev.hatchTime` is the closed-form interpolant at the clamped temperature -/
theorem sandeel_hatchTime_closed (rate temp : α) :
    Dev.hatchTime rate temp = sandeelSplineClosed rate (fmin 10.0 (fmax 2.0 temp)) := rfl

/-- HYPOTHESIS `hspl` (spline evaluation is a parameter): the spline through the table is quadratic in the rate and
piecewise linear in the temperature.  Then the function object `get_hatch_time_func()` returns is `Dev.hatchTime`. -/
theorem sandeel_hatch_time_is_model (mk : List α → List α → List (List α) → Nat → Nat → α → α → α)
    (hspl : mk [0.0, 0.5, 1.0] [2.0, 4.0, 7.0, 10.0]
      [[61.0, 51.0, 39.0, 25.0], [82.0, 67.0, 48.0, 30.0], [135.0, 116.0, 82.0, 55.0]] 2 1 = sandeelSplineClosed) :
    sandeelHatchFuncRun mk = some (some fun rate temp => some (some (Dev.hatchTime rate temp))) := by
  rw [sandeel_hatch_time_func_seq, hspl]
  rfl

/-! ### `initialize_hatch_rate` -/

/-- **`initialize_hatch_rate`**: a particle whose `hatch_rate` is 0 gets the next uniform number (the call raises when
the supply is empty); every other particle keeps its value and no number is taken for it — whatever the other particles
are (`anyOther`) -/
theorem sandeel_initialize_hatch_rate_seq (anyOther : Bool) (hr : α) (rng : Rng α) :
    sandeelInitRun anyOther hr rng = some (if Bio.isZeroS hr then rng.pop .uniform else some (hr, rng)) := by
  cases h : Bio.isZeroS hr <;> cases anyOther <;> cases h2 : rng.pop .uniform <;>
  simp [sandeelInitRun, Gen.sandeel_initialize_hatch_rate_seq, runProc, stmtKnown, guardKnown, Seq.guardVal,
    hatchInitAtom, hatchInitStep, h, h2]

/-! ### `bottom_temp` -/

set_option maxRecDepth 100000 in
/-- **`bottom_temp`**: the value of s-level 0 (the bottom layer) of the forcing's current temperature array at the grid
cell nearest to the particle, row `round(Y - j0)`, column `round(X - i0)` — not an interpolation, and independent of the
particle's depth -/
theorem sandeel_bottom_temp_seq [HasRound α] [HasTrunc α] (i0 j0 : α) (bt : Int → Int → α) (x y : α) :
    sandeelBottomRun i0 j0 bt x y = some (some (bt (trunc (round (y - j0))) (trunc (round (x - i0))))) := rfl

/-! ### `egg_development`, `larval_development` -/

set_option maxRecDepth 100000 in
/-- **`egg_development`** = `Dev.eggDevelop` with `development_days = hatch_time(hatch_rate, temp)` (rate first): only
particles with `stage < 1` advance, by `dt / (days·60·60·24)`, and `active` becomes `stage ≥ 1` for exactly these -/
theorem sandeel_egg_development_seq (f : α → α → α) (temp stage hr dt : α) (active : Bool) :
    sandeelEggRun (fun r t => some (some (f r t))) temp stage hr active dt
      = some (some (Dev.eggDevelop (f hr temp) dt ⟨stage, active⟩)) := by
  refine dev_run_eq ⟨_, rfl, ?_⟩
  unfold Dev.eggDevelop
  by_cases h1 : stage < (1.0 : α) <;> simp [h1, Gen.sandeel_egg_increase]
  rfl

set_option maxRecDepth 100000 in
/-- **`larval_development`** = `Dev.larvaDevelop`: only particles with `1 ≤ stage < 2` grow (`Gen.sandeel_larval_stage`),
and `active` becomes `stage < 2` for exactly these -/
theorem sandeel_larval_development_seq (temp stage dt : α) (active : Bool) :
    sandeelLarvaRun temp stage active dt = some (some (Dev.larvaDevelop temp dt ⟨stage, active⟩)) := by
  refine dev_run_eq ⟨_, rfl, ?_⟩
  unfold Dev.larvaDevelop
  by_cases h1 : (1.0 : α) ≤ stage <;> by_cases h2 : stage < (2.0 : α) <;> simp [h1, h2, Gen.sandeel_larval_stage]

/-! ### `reflexive`, `vertical_diffuse` -/

set_option maxRecDepth 100000 in
/-- **`reflexive`** = `Bio.reflexive` -/
theorem sandeel_reflexive_seq (r lo hi : α) :
    sandeelReflexiveRun r lo hi = some (some (Bio.reflexive lo hi r)) := by
  refine dev_run_eq ⟨_, rfl, ?_⟩
  simp [Bio.reflexive, Bio.npClip]

set_option maxRecDepth 100000 in
theorem sandeel_reflexive_known : sandeelReflexiveKnown (α := α) = true := rfl

set_option maxRecDepth 100000 in
/-- **`vertical_diffuse`**: an active particle takes the next normal number and moves to `Bio.sandeelZ` (bounds `0` and
`min(maxdepth, sample_depth(X, Y))`); an inactive particle stays and takes no number -/
theorem sandeel_vertical_diffuse_seq (e : SandeelEnv α) (x y z : α) (a : Bool) (rng : Rng α) :
    sandeelVertRun e x y z a rng = some (
      if a then (rng.pop .normal).map fun rg => (Bio.sandeelZ e.D e.dt e.maxdepth (e.sampleDepth x y) rg.1 z, rg.2)
      else some (z, rng)) := by
  cases a <;> cases h : rng.pop .normal <;>
  simp [sandeelVertRun, Gen.sandeel_vertical_diffuse_seq, runProc, stmtKnown, guardKnown, Seq.guardVal,
    vertAtom, vertStep, h, selMap2, devBind, sandeel_reflexive_seq, Bio.sandeelZ, sandeel_reflexive_known]

/-! ### `update_ibm` -/

set_option maxRecDepth 100000 in
/-- the whole update for a `hatch_time` function that returns `f rate temp` -/
theorem sandeel_update_core [HasRound α] [HasTrunc α] (e : SandeelEnv α) (f : α → α → α)
    (hh : e.hatchTime = fun r t => some (some (f r t))) (x y z stage hr : α) (active : Bool) (u xi : α)
    (rest : List α) :
    (sandeelUpdateRun e x y z stage hr active (u :: xi :: rest)).map
        (Option.map fun s => (s.x, s.y, s.z, (⟨s.stage, s.active⟩ : Dev.Eel α), s.hatchRate, s.rng.log, s.rng.supply))
      = some (some (
          let new := Bio.isZeroS hr
          let hr' := if new then u else hr
          let bt := e.bottomTemp (trunc (round (y - e.j0))) (trunc (round (x - e.i0)))
          let p' := Dev.larvaDevelop (e.fieldTemp x y z) e.dt (Dev.eggDevelop (f hr' bt) e.dt ⟨stage, active⟩)
          (x, y,
            if p'.active then Bio.sandeelZ e.D e.dt e.maxdepth (e.sampleDepth x y) (if new then xi else u) z else z,
            p', hr',
            (if new then [.uniform] else []) ++ (if p'.active then [.normal] else []),
            if new then (if p'.active then rest else xi :: rest)
            else (if p'.active then xi :: rest else u :: xi :: rest)))) := by
  dsimp only
  have s1 : ∀ s, sandeelUpdStep e s "assign" "self.state = state" = some (some s) := fun _ => rfl
  have s2 : ∀ s, sandeelUpdStep e s "assign" "self.grid = grid" = some (some s) := fun _ => rfl
  have s3 : ∀ s, sandeelUpdStep e s "assign" "self.forcing = forcing" = some (some s) := fun _ => rfl
  have s4 : ∀ s, sandeelUpdStep e s "call" "initialize_hatch_rate" =
      devBind (sandeelInitRun e.anyOtherNew s.hatchRate s.rng) fun r =>
        some (some { s with hatchRate := r.1, rng := r.2 }) := fun _ => rfl
  have s5 : ∀ s, sandeelUpdStep e s "expr"
      "egg_development(self.bottom_temp(), state['stage'], state['hatch_rate'], state['active'], self.dt)" =
      devBind (sandeelBottomRun e.i0 e.j0 e.bottomTemp s.x s.y) fun bt =>
        devBind (sandeelEggRun e.hatchTime bt s.stage s.hatchRate s.active e.dt) fun p =>
          some (some { s with stage := p.stage, active := p.active }) := fun _ => rfl
  have s6 : ∀ s, sandeelUpdStep e s "assign" "temp = forcing.field(state['X'], state['Y'], state['Z'], 'temp')" =
      some (some { s with temp := some (e.fieldTemp s.x s.y s.z) }) := fun _ => rfl
  have s7 : ∀ s t, s.temp = some t →
      sandeelUpdStep e s "expr" "larval_development(temp, state['stage'], state['active'], self.dt)" =
      devBind (sandeelLarvaRun t s.stage s.active e.dt) fun p =>
        some (some { s with stage := p.stage, active := p.active }) := by
    intro s t ht
    obtain ⟨x, y, z, st, h, a, tm, rg⟩ := s
    simp only at ht
    subst ht
    rfl
  have s8 : ∀ s, sandeelUpdStep e s "call" "vertical_diffuse" =
      devBind (sandeelVertRun e s.x s.y s.z s.active s.rng) fun r => some (some { s with z := r.1, rng := r.2 }) :=
    fun _ => rfl
  generalize hbt : e.bottomTemp (trunc (round (y - e.j0))) (trunc (round (x - e.i0))) = bt
  -- initialisation of the hatch rate
  have k4 : sandeelUpdStep e ⟨x, y, z, stage, hr, active, none, ⟨u :: xi :: rest, []⟩⟩ "call" "initialize_hatch_rate" =
      some (some ⟨x, y, z, stage, if Bio.isZeroS hr then u else hr, active, none,
        if Bio.isZeroS hr then ⟨xi :: rest, [.uniform]⟩ else ⟨u :: xi :: rest, []⟩⟩) := by
    rw [s4, sandeel_initialize_hatch_rate_seq]
    cases Bio.isZeroS hr <;> simp [devBind, Rng.pop]
  generalize hhr : (if Bio.isZeroS hr then u else hr) = hr' at k4 ⊢
  generalize hrng : (if Bio.isZeroS hr then (⟨xi :: rest, [.uniform]⟩ : Rng α) else ⟨u :: xi :: rest, []⟩) = rng1 at k4
  -- eggs
  have k5 : sandeelUpdStep e ⟨x, y, z, stage, hr', active, none, rng1⟩ "expr"
      "egg_development(self.bottom_temp(), state['stage'], state['hatch_rate'], state['active'], self.dt)" =
      some (some ⟨x, y, z, (Dev.eggDevelop (f hr' bt) e.dt ⟨stage, active⟩).stage, hr',
        (Dev.eggDevelop (f hr' bt) e.dt ⟨stage, active⟩).active, none, rng1⟩) := by
    rw [s5, sandeel_bottom_temp_seq]
    simp only [devBind]
    rw [hh, sandeel_egg_development_seq, hbt]
  generalize hp1 : Dev.eggDevelop (f hr' bt) e.dt ⟨stage, active⟩ = p1 at k5 ⊢
  -- larvae
  have k7 : sandeelUpdStep e ⟨x, y, z, p1.stage, hr', p1.active, some (e.fieldTemp x y z), rng1⟩ "expr"
      "larval_development(temp, state['stage'], state['active'], self.dt)" =
      some (some ⟨x, y, z, (Dev.larvaDevelop (e.fieldTemp x y z) e.dt p1).stage, hr',
        (Dev.larvaDevelop (e.fieldTemp x y z) e.dt p1).active, some (e.fieldTemp x y z), rng1⟩) := by
    rw [s7 _ _ rfl, sandeel_larval_development_seq]
    rfl
  generalize hp2 : Dev.larvaDevelop (e.fieldTemp x y z) e.dt p1 = p2 at k7 ⊢
  -- vertical mixing
  have k8 : sandeelUpdStep e ⟨x, y, z, p2.stage, hr', p2.active, some (e.fieldTemp x y z), rng1⟩ "call"
      "vertical_diffuse" =
      some (some ⟨x, y,
        if p2.active then Bio.sandeelZ e.D e.dt e.maxdepth (e.sampleDepth x y) (if Bio.isZeroS hr then xi else u) z else z,
        p2.stage, hr', p2.active, some (e.fieldTemp x y z),
        if p2.active then
          (if Bio.isZeroS hr then ⟨rest, [.uniform, .normal]⟩ else ⟨xi :: rest, [.normal]⟩)
        else rng1⟩) := by
    rw [s8, sandeel_vertical_diffuse_seq, ← hrng]
    cases p2.active <;> cases Bio.isZeroS hr <;> simp [devBind, Rng.pop]
  unfold sandeelUpdateRun Gen.sandeel_update_seq
  rw [dev_runProc_cons (by decide) (s1 _), dev_runProc_cons (by decide) (s2 _), dev_runProc_cons (by decide) (s3 _),
    dev_runProc_cons (by decide) k4, dev_runProc_cons (by decide) k5, dev_runProc_cons (by decide) (s6 _),
    dev_runProc_cons (by decide) k7, dev_runProc_cons (by decide) k8, dev_runProc_nil]
  obtain ⟨st2, a2⟩ := p2
  subst hrng hhr
  cases a2 <;> cases Bio.isZeroS hr <;> simp

/-- **sand eel `update_ibm`** (all of `Gen.sandeel_update_seq`, every call running the callee's generated sequence), for
the module-level `hatch_time = get_hatch_time_func()` (`hh`) under the spline hypothesis `hspl`:
stage and `active` = `Dev.sandeelDevelop` with the BOTTOM temperature of the nearest cell for the eggs, the temperature
at the particle for the larvae, and the hatch rate as it is AFTER `initialize_hatch_rate`; the depth =
`Bio.sandeelZ` iff the particle is active AFTER development; `X`, `Y` untouched.  Draws: the FIRST number of the supply
is the uniform hatch rate (taken iff `hatch_rate == 0`), the next one the normal mixing number (taken iff active). -/
theorem sandeel_update_seq [HasRound α] [HasTrunc α] (e : SandeelEnv α)
    (mk : List α → List α → List (List α) → Nat → Nat → α → α → α)
    (hspl : mk [0.0, 0.5, 1.0] [2.0, 4.0, 7.0, 10.0]
      [[61.0, 51.0, 39.0, 25.0], [82.0, 67.0, 48.0, 30.0], [135.0, 116.0, 82.0, 55.0]] 2 1 = sandeelSplineClosed)
    (hh : sandeelHatchFuncRun mk = some (some e.hatchTime))
    (x y z stage hr : α) (active : Bool) (u xi : α) (rest : List α) :
    (sandeelUpdateRun e x y z stage hr active (u :: xi :: rest)).map
        (Option.map fun s => (s.x, s.y, s.z, (⟨s.stage, s.active⟩ : Dev.Eel α), s.hatchRate, s.rng.log, s.rng.supply))
      = some (some (
          let new := Bio.isZeroS hr
          let hr' := if new then u else hr
          let bt := e.bottomTemp (trunc (round (y - e.j0))) (trunc (round (x - e.i0)))
          let p' := Dev.sandeelDevelop bt (e.fieldTemp x y z) hr' e.dt ⟨stage, active⟩
          (x, y,
            if p'.active then Bio.sandeelZ e.D e.dt e.maxdepth (e.sampleDepth x y) (if new then xi else u) z else z,
            p', hr',
            (if new then [.uniform] else []) ++ (if p'.active then [.normal] else []),
            if new then (if p'.active then rest else xi :: rest)
            else (if p'.active then xi :: rest else u :: xi :: rest)))) := by
  rw [sandeel_hatch_time_is_model mk hspl] at hh
  have hh' : e.hatchTime = fun r t => some (some (Dev.hatchTime r t)) := by
    injection hh with hh; injection hh with hh; exact hh.symm
  exact sandeel_update_core e Dev.hatchTime hh' x y z stage hr active u xi rest

/-! ## shrimp -/

/-! ### `__init__` -/

/-- **shrimp `__init__`**: with all keys present and `'active'` among `config['ibm']['variables']` — which key goes to
which attribute (`maxdepth_ngh ← 'maxdepth_night'`, `mindepth_ngh ← 'mindepth_night'`); no defaults -/
theorem shrimp_ctor_seq (dt : α) (m : String → Option (List α)) (vars : List String) (vm vs xd xn nd nn : List α)
    (h1 : m "vertical_mixing" = some vm) (h2 : m "vertical_speed" = some vs) (h3 : m "maxdepth_day" = some xd)
    (h4 : m "maxdepth_night" = some xn) (h5 : m "mindepth_day" = some nd) (h6 : m "mindepth_night" = some nn)
    (hv : "active" ∈ vars) :
    shrimpCtorRun ⟨some dt, some m, some vars⟩ =
      some (some ⟨some vm, some vs, some xd, some xn, some nd, some nn, some dt, true, true, true⟩) := by
  simp [shrimpCtorRun, Gen.shrimp_ctor_seq, runProc, stmtKnown, guardKnown, Seq.guardVal, shrimpCtorAtom,
    shrimpCtorStep, h1, h2, h3, h4, h5, h6, hv]

/-- … and `KeyError` when `'active'` is not listed -/
theorem shrimp_ctor_raises (dt : α) (m : String → Option (List α)) (vars : List String) (vm vs xd xn nd nn : List α)
    (h1 : m "vertical_mixing" = some vm) (h2 : m "vertical_speed" = some vs) (h3 : m "maxdepth_day" = some xd)
    (h4 : m "maxdepth_night" = some xn) (h5 : m "mindepth_day" = some nd) (h6 : m "mindepth_night" = some nn)
    (hv : "active" ∉ vars) :
    shrimpCtorRun ⟨some dt, some m, some vars⟩ = some none := by
  simp [shrimpCtorRun, Gen.shrimp_ctor_seq, runProc, stmtKnown, guardKnown, Seq.guardVal, shrimpCtorAtom,
    shrimpCtorStep, h1, h2, h3, h4, h5, h6, hv]

/-! ### `initialize` -/

/-- **`initialize`**: `depth_quantile` gets the next uniform number where it is 0 (raises on an empty supply), `stage`
becomes 1 where it is 0; nothing else changes, and no number is taken for an initialised particle — whatever the other
particles are -/
theorem shrimp_initialize_seq (anyOther : Bool) (p : Shrimp α) (rng : Rng α) :
    shrimpInitRun anyOther p rng = some (
      if Bio.isZeroS p.q then
        (rng.pop .uniform).map fun rg =>
          ({ p with q := rg.1, stage := if Bio.isZeroS p.stage then 1.0 else p.stage }, rg.2)
      else some ({ p with stage := if Bio.isZeroS p.stage then 1.0 else p.stage }, rng)) := by
  obtain ⟨x, y, z, stage, age, q, active, temp, salt, len⟩ := p
  cases hq : Bio.isZeroS q <;> cases hs : Bio.isZeroS stage <;> cases anyOther <;> cases hp : rng.pop .uniform <;>
  simp [shrimpInitRun, Gen.shrimp_initialize_seq, runProc, stmtKnown, guardKnown, Seq.guardVal, shrimpInitAtom,
    shrimpInitStep, hq, hs, hp]

/-! ### `update_ibm_forcing` -/

set_option maxRecDepth 100000 in
/-- **`update_ibm_forcing`**: temperature and salinity at the particle's position -/
theorem shrimp_update_forcing_seq (ft fs : α → α → α → α) (p : Shrimp α) :
    shrimpForcRun ft fs p = some (some { p with temp := some (ft p.x p.y p.z), salt := some (fs p.x p.y p.z) }) := rfl

/-! ### `growth` -/

set_option maxRecDepth 100000 in
/-- **`growth`**: `age += Gen.shrimp_delta_age`, `stage = Bio.shrimpStage` (increment at the temperature clipped to
`[3, 8]`, result clipped to `[1, 6]`), `active = stage < 6`, `length = Dev.shrimpLength stage` (all with the NEW stage) -/
theorem shrimp_growth_seq (dt T : α) (p : Shrimp α) (hT : p.temp = some T) :
    shrimpGrowRun dt p = some (some { p with
      age := p.age + Gen.shrimp_delta_age T dt,
      stage := Bio.shrimpStage T dt p.stage,
      active := decide (Bio.shrimpStage T dt p.stage < 6.0),
      length := Dev.shrimpLength (Bio.shrimpStage T dt p.stage) }) := by
  obtain ⟨x, y, z, stage, age, q, active, temp, salt, len⟩ := p
  simp only at hT
  subst hT
  refine dev_run_eq ⟨_, rfl, ?_⟩
  have h748 : (7.480 : α) = 7.48 := by norm_num
  simp only [Bio.shrimpStage, Bio.npClip, Gen.shrimp_delta_stage, Gen.shrimp_delta_age, Dev.shrimpLength, h748]
  rfl

set_option maxRecDepth 100000 in
/-- … and it raises when `state['temp']` does not exist -/
theorem shrimp_growth_raises (dt : α) (p : Shrimp α) (hT : p.temp = none) : shrimpGrowRun dt p = some none := by
  obtain ⟨x, y, z, stage, age, q, active, temp, salt, len⟩ := p
  simp only at hT
  subst hT
  rfl

/-! ### `mixing` -/

set_option maxRecDepth 100000 in
/-- **`mixing`** = `Bio.shrimpMix` with the mixing coefficient of the particle's stage,
`vertical_mixing[min(5, int(stage)) - 1]` (numpy indexing: `IndexError` = `none`), and the next normal number -/
theorem shrimp_mixing_seq [HasTrunc α] (vm : List α) (dt : α) (p : Shrimp α) (rng : Rng α) :
    shrimpMixRun vm dt p rng = some (
      (npIndex vm (shrimpIntStage p.stage)).bind fun v =>
        (rng.pop .normal).map fun rg => ({ p with z := Bio.shrimpMix v dt rg.1 p.z }, rg.2)) := by
  obtain ⟨x, y, z, stage, age, q, active, temp, salt, len⟩ := p
  cases hv : npIndex vm (shrimpIntStage stage) <;> cases hp : rng.pop .normal <;>
  simp [shrimpMixRun, Gen.shrimp_mixing_seq, runProc, stmtKnown, guardKnown, Seq.guardVal, shrimpMixAtom,
    shrimpMixStep, hv, hp, Bio.shrimpMix, dev_mul_neg_one]
  lits
  split_ifs <;> ring

/-- the table reads of `mixing` / `diel_migration` succeed for tables with (at least) the five pelagic stages whenever
the integer part of the stage is at least 1 — as it is after `growth`, which clips the stage to `[1, 6]`.  (For an
integer part 0 the index is `-1`: numpy then silently reads the LAST entry.) -/
theorem shrimp_table_read [HasTrunc α] (l : List α) (hl : 5 ≤ l.length) (s : α) (h : 1 ≤ trunc s) :
    ∃ v, npIndex l (shrimpIntStage s) = some v := by
  have h0 : 0 ≤ min 5 (trunc s) - 1 := by omega
  have h4 : (min 5 (trunc s) - 1).toNat < l.length := by omega
  refine ⟨l[(min 5 (trunc s) - 1).toNat], ?_⟩
  unfold npIndex shrimpIntStage
  rw [if_pos h0]
  exact List.getElem?_eq_getElem h4

/-! ### `sunheight`, `diel_migration` -/

set_option maxRecDepth 100000 in
/-- **`sunheight`** = `Gen.shrimp_sunheight` of `(tm_yday, tm_hour)` of the time stamp -/
theorem shrimp_sunheight_seq {τ : Type} (tt : τ → α × α) (t : τ) (lon lat : α) :
    shrimpSunheightRun tt t lon lat = some (some (Gen.shrimp_sunheight (tt t).1 (tt t).2 lon lat)) := rfl

set_option maxRecDepth 100000 in
set_option maxHeartbeats 1000000 in
/-- **`diel_migration`** = `Bio.shrimpMigrate` towards `Bio.shrimpPreferred` of the day band (sun above the horizon at
the particle's longitude / latitude: `sunheight > 0`) or the night band of the particle's stage; the time is
`state.timestamp` if the state has that attribute, else `state['time']`.  Hypotheses: the five table reads succeed. -/
theorem shrimp_diel_migration_seq [HasTrunc α] {τ : Type} (e : ShrimpEnv α τ) (p : Shrimp α)
    (speed maxDay maxNgh minDay minNgh : α)
    (h1 : npIndex e.vertSpeed (shrimpIntStage p.stage) = some speed)
    (h2 : npIndex e.maxDay (shrimpIntStage p.stage) = some maxDay)
    (h3 : npIndex e.maxNgh (shrimpIntStage p.stage) = some maxNgh)
    (h4 : npIndex e.minDay (shrimpIntStage p.stage) = some minDay)
    (h5 : npIndex e.minNgh (shrimpIntStage p.stage) = some minNgh) :
    shrimpDielRun e p = some (some (
      let time := if e.hasTimestamp then e.timestamp else e.timeVar
      let isDay := decide (0.0 < Gen.shrimp_sunheight (e.timetuple time).1 (e.timetuple time).2
        (e.lonlat p.x p.y).1 (e.lonlat p.x p.y).2)
      let pref := Bio.shrimpPreferred (if isDay then minDay else minNgh) (if isDay then maxDay else maxNgh) p.q
      { p with z := Bio.shrimpMigrate e.dt speed pref p.z })) := by
  obtain ⟨x, y, z, stage, age, q, active, temp, salt, len⟩ := p
  simp only at h1 h2 h3 h4 h5
  cases ht : e.hasTimestamp <;>
  simp [shrimpDielRun, Gen.shrimp_diel_migration_seq, runProc, stmtKnown, guardKnown, Seq.guardVal, shrimpDielAtom,
    shrimpDielStep, h1, h2, h3, h4, h5, ht, devBind, shrimp_sunheight_seq, Bio.shrimpMigrate, Bio.shrimpPreferred]

/-! ### `update_ibm` -/

/-- the stage after `initialize` and `growth`: the stage the later rules (`mixing`, `diel_migration`) see -/
def shrimpStageAfter {τ : Type} (e : ShrimpEnv α τ) (p : Shrimp α) : α :=
  Bio.shrimpStage (e.fieldTemp p.x p.y p.z) e.dt (if Bio.isZeroS p.stage then 1.0 else p.stage)

set_option maxRecDepth 100000 in
/-- **shrimp `update_ibm`** (all of `Gen.shrimp_update_seq`, every call running the callee's generated sequence).
Hypotheses: the six stage tables have an entry at the index `min(5, int(stage)) - 1` of the stage AFTER growth.
`initialize` (quantile ← FIRST number of the supply iff it is 0; stage 0 ↦ 1), then temperature / salinity at the OLD
position, then `growth` on the initialised stage with that temperature, then `mixing` (next number, normal) with the
coefficient of the NEW stage from the old depth, then `diel_migration` from the MIXED depth with the NEW stage's
speed / bands and the initialised quantile. -/
theorem shrimp_update_seq [HasTrunc α] {τ : Type} (e : ShrimpEnv α τ) (p : Shrimp α) (u xi : α) (rest : List α)
    (vm speed maxDay maxNgh minDay minNgh : α)
    (h0 : npIndex e.vertMix (shrimpIntStage (shrimpStageAfter e p)) = some vm)
    (h1 : npIndex e.vertSpeed (shrimpIntStage (shrimpStageAfter e p)) = some speed)
    (h2 : npIndex e.maxDay (shrimpIntStage (shrimpStageAfter e p)) = some maxDay)
    (h3 : npIndex e.maxNgh (shrimpIntStage (shrimpStageAfter e p)) = some maxNgh)
    (h4 : npIndex e.minDay (shrimpIntStage (shrimpStageAfter e p)) = some minDay)
    (h5 : npIndex e.minNgh (shrimpIntStage (shrimpStageAfter e p)) = some minNgh) :
    (shrimpUpdateRun e p (u :: xi :: rest)).map (Option.map fun s => (s.p, s.rng.log, s.rng.supply))
      = some (some (
          let new := Bio.isZeroS p.q
          let q' := if new then u else p.q
          let T := e.fieldTemp p.x p.y p.z
          let stage1 := shrimpStageAfter e p
          let z1 := Bio.shrimpMix vm e.dt (if new then xi else u) p.z
          let time := if e.hasTimestamp then e.timestamp else e.timeVar
          let isDay := decide (0.0 < Gen.shrimp_sunheight (e.timetuple time).1 (e.timetuple time).2
            (e.lonlat p.x p.y).1 (e.lonlat p.x p.y).2)
          let pref := Bio.shrimpPreferred (if isDay then minDay else minNgh) (if isDay then maxDay else maxNgh) q'
          (⟨p.x, p.y, Bio.shrimpMigrate e.dt speed pref z1, stage1, p.age + Gen.shrimp_delta_age T e.dt, q',
              decide (stage1 < 6.0), some T, some (e.fieldSalt p.x p.y p.z), Dev.shrimpLength stage1⟩,
            if new then [.uniform, .normal] else [.normal],
            if new then rest else xi :: rest))) := by
  obtain ⟨x, y, z, stage, age, q, active, temp, salt, len⟩ := p
  dsimp only [shrimpStageAfter] at h0 h1 h2 h3 h4 h5 ⊢
  have s1 : ∀ s, shrimpUpdStep e s "assign" "self.grid = grid" = some (some s) := fun _ => rfl
  have s2 : ∀ s, shrimpUpdStep e s "assign" "self.state = state" = some (some s) := fun _ => rfl
  have s3 : ∀ s, shrimpUpdStep e s "assign" "self.forcing = forcing" = some (some s) := fun _ => rfl
  have s4 : ∀ s, shrimpUpdStep e s "call" "initialize" =
      devBind (shrimpInitRun e.anyOtherStageNew s.p s.rng) fun r => some (some ⟨r.1, r.2⟩) := fun _ => rfl
  have s5 : ∀ s, shrimpUpdStep e s "call" "update_ibm_forcing" =
      devBind (shrimpForcRun e.fieldTemp e.fieldSalt s.p) fun p => some (some { s with p := p }) := fun _ => rfl
  have s6 : ∀ s, shrimpUpdStep e s "call" "growth" =
      devBind (shrimpGrowRun e.dt s.p) fun p => some (some { s with p := p }) := fun _ => rfl
  have s7 : ∀ s, shrimpUpdStep e s "call" "mixing" =
      devBind (shrimpMixRun e.vertMix e.dt s.p s.rng) fun r => some (some ⟨r.1, r.2⟩) := fun _ => rfl
  have s8 : ∀ s, shrimpUpdStep e s "call" "diel_migration" =
      devBind (shrimpDielRun e s.p) fun p => some (some { s with p := p }) := fun _ => rfl
  generalize hT : e.fieldTemp x y z = T at h0 h1 h2 h3 h4 h5 ⊢
  generalize hS : e.fieldSalt x y z = S
  generalize hs0 : (if Bio.isZeroS stage then (1.0 : α) else stage) = stage0 at h0 h1 h2 h3 h4 h5 ⊢
  have k4 : shrimpUpdStep e ⟨⟨x, y, z, stage, age, q, active, temp, salt, len⟩, ⟨u :: xi :: rest, []⟩⟩ "call" "initialize" =
      some (some ⟨⟨x, y, z, stage0, age, if Bio.isZeroS q then u else q, active, temp, salt, len⟩,
        if Bio.isZeroS q then ⟨xi :: rest, [.uniform]⟩ else ⟨u :: xi :: rest, []⟩⟩) := by
    rw [s4, shrimp_initialize_seq, ← hs0]
    cases Bio.isZeroS q <;> simp [devBind, Rng.pop]
  generalize hq : (if Bio.isZeroS q then u else q) = q' at k4 ⊢
  generalize hrng : (if Bio.isZeroS q then (⟨xi :: rest, [.uniform]⟩ : Rng α) else ⟨u :: xi :: rest, []⟩) = rng1 at k4
  have k5 : shrimpUpdStep e ⟨⟨x, y, z, stage0, age, q', active, temp, salt, len⟩, rng1⟩ "call" "update_ibm_forcing" =
      some (some ⟨⟨x, y, z, stage0, age, q', active, some T, some S, len⟩, rng1⟩) := by
    rw [s5, shrimp_update_forcing_seq, ← hT, ← hS]
    rfl
  have k6 : shrimpUpdStep e ⟨⟨x, y, z, stage0, age, q', active, some T, some S, len⟩, rng1⟩ "call" "growth" =
      some (some ⟨⟨x, y, z, Bio.shrimpStage T e.dt stage0, age + Gen.shrimp_delta_age T e.dt, q',
        decide (Bio.shrimpStage T e.dt stage0 < 6.0), some T, some S,
        Dev.shrimpLength (Bio.shrimpStage T e.dt stage0)⟩, rng1⟩) := by
    rw [s6, shrimp_growth_seq e.dt T _ rfl]
    rfl
  generalize hs1 : Bio.shrimpStage T e.dt stage0 = stage1 at h0 h1 h2 h3 h4 h5 k6 ⊢
  have k7 : shrimpUpdStep e ⟨⟨x, y, z, stage1, age + Gen.shrimp_delta_age T e.dt, q', decide (stage1 < 6.0), some T,
        some S, Dev.shrimpLength stage1⟩, rng1⟩ "call" "mixing" =
      some (some ⟨⟨x, y, Bio.shrimpMix vm e.dt (if Bio.isZeroS q then xi else u) z, stage1,
        age + Gen.shrimp_delta_age T e.dt, q', decide (stage1 < 6.0), some T, some S, Dev.shrimpLength stage1⟩,
        if Bio.isZeroS q then ⟨rest, [.uniform, .normal]⟩ else ⟨xi :: rest, [.normal]⟩⟩) := by
    rw [s7, shrimp_mixing_seq, ← hrng]
    dsimp only
    rw [h0]
    cases Bio.isZeroS q <;> simp [devBind, Rng.pop]
  generalize hz1 : Bio.shrimpMix vm e.dt (if Bio.isZeroS q then xi else u) z = z1 at k7 ⊢
  have k8 := shrimp_diel_migration_seq e ⟨x, y, z1, stage1, age + Gen.shrimp_delta_age T e.dt, q',
    decide (stage1 < 6.0), some T, some S, Dev.shrimpLength stage1⟩ speed maxDay maxNgh minDay minNgh h1 h2 h3 h4 h5
  dsimp only at k8
  have k8' : ∀ rg, shrimpUpdStep e ⟨⟨x, y, z1, stage1, age + Gen.shrimp_delta_age T e.dt, q', decide (stage1 < 6.0),
        some T, some S, Dev.shrimpLength stage1⟩, rg⟩ "call" "diel_migration" =
      some (some ⟨⟨x, y,
        Bio.shrimpMigrate e.dt speed
          (Bio.shrimpPreferred
            (if decide (0.0 < Gen.shrimp_sunheight
                (e.timetuple (if e.hasTimestamp then e.timestamp else e.timeVar)).1
                (e.timetuple (if e.hasTimestamp then e.timestamp else e.timeVar)).2
                (e.lonlat x y).1 (e.lonlat x y).2) then minDay else minNgh)
            (if decide (0.0 < Gen.shrimp_sunheight
                (e.timetuple (if e.hasTimestamp then e.timestamp else e.timeVar)).1
                (e.timetuple (if e.hasTimestamp then e.timestamp else e.timeVar)).2
                (e.lonlat x y).1 (e.lonlat x y).2) then maxDay else maxNgh) q') z1,
        stage1, age + Gen.shrimp_delta_age T e.dt, q', decide (stage1 < 6.0), some T, some S,
        Dev.shrimpLength stage1⟩, rg⟩) := by
    intro rg
    rw [s8]
    dsimp only
    rw [k8]
    rfl
  unfold shrimpUpdateRun Gen.shrimp_update_seq
  rw [dev_runProc_cons (by decide) (s1 _), dev_runProc_cons (by decide) (s2 _), dev_runProc_cons (by decide) (s3 _),
    dev_runProc_cons (by decide) k4, dev_runProc_cons (by decide) k5, dev_runProc_cons (by decide) k6,
    dev_runProc_cons (by decide) k7, dev_runProc_cons (by decide) (k8' _), dev_runProc_nil]
  cases Bio.isZeroS q <;> simp

end Bridge
