import LadimProofs.Basic
import LadimModel.IBM.Chemicals
import LadimModel.IBM.Sedimentation
import LadimModel.IBM.Bio
/-!
# Bridge (C07, C09) — the hand-written per-particle model *is* the code

`LadimModel/Generated/Formulas.lean` is regenerated from /repo's current source on every run.  Besides the closed-form
formulas it contains the statement windows of the IBM update rules, translated operation by operation from the
numpy-mask code.  Each theorem below states that a hand-written model function used by the property theorems equals
the generated window (or a composition of generated windows).  They are re-checked by the kernel on every run: a
change of the source inside a window either breaks the translation or one of these equalities, and the property
theorems proved about the hand-written model keep speaking about what the code says now.

Development clocks: hatch threshold, stage and age increments.
-/
open Ladim

set_option linter.unusedSectionVars false
set_option linter.unusedVariables false
set_option linter.unnecessarySeqFocus false
namespace Bridge
variable {α : Type} [Field α] [LinearOrder α] [IsStrictOrderedRing α]

theorem larvae_age (age temp sdt hatch : α) :
    (decide (age ≤ hatch), Bio.degreeDayAge age temp sdt) = Gen.larvae_age age temp sdt hatch := by
  simp [Bio.degreeDayAge, Gen.larvae_age]

theorem saithe_age (age temp sdt hatch : α) :
    (decide (age ≤ hatch), Bio.degreeDayAge age temp sdt) = Gen.saithe_age age temp sdt hatch := by
  simp [Bio.degreeDayAge, Gen.saithe_age]

theorem shrimp_stage (age stage dAge temp dt : α) :
    (age + dAge, Bio.shrimpStage temp dt stage, decide (Bio.shrimpStage temp dt stage < 6.0)) =
      Gen.shrimp_stage age stage dAge (Gen.shrimp_delta_stage temp dt) := by
  simp [Bio.shrimpStage, Bio.npClip, Gen.shrimp_stage]
  congr

end Bridge
