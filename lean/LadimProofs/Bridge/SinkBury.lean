import LadimProofs.Basic
import LadimModel.IBM.Chemicals
import LadimModel.IBM.Sedimentation
import LadimModel.IBM.Bio
/-!
# Bridge (C05, C08) — the hand-written per-particle model *is* the code

`LadimModel/Generated/Formulas.lean` is regenerated from /repo's current source on every run.  Besides the closed-form
formulas it contains the statement windows of the IBM update rules, translated operation by operation from the
numpy-mask code.  Each theorem below states that a hand-written model function used by the property theorems equals
the generated window (or a composition of generated windows).  They are re-checked by the kernel on every run: a
change of the source inside a window either breaks the translation or one of these equalities, and the property
theorems proved about the hand-written model keep speaking about what the code says now.

Sinking and burial at the sea bed (sedimentation, mine).
-/
open Ladim

set_option linter.unusedSectionVars false
set_option linter.unusedVariables false
set_option linter.unnecessarySeqFocus false
namespace Bridge
variable {α : Type} [Field α] [LinearOrder α] [IsStrictOrderedRing α]

section
open Ladim.Sed
theorem sed_sink (dt w z : α) (a : Nat) : sink dt w a z = if a = 0 then z else Gen.sed_sink z w dt := by
  simp [sink, Gen.sed_sink]
end

section
open Ladim.Sed
theorem mine_sink (dt w z : α) (a : Nat) : sink dt w a z = if a = 0 then z else Gen.mine_sink z w dt := by
  simp [sink, Gen.mine_sink]
end

section
open Ladim.Sed
theorem mine_sink_vadv (dt w wv z : α) (a : Nat) :
    sink dt (w + wv) a z = if a = 0 then z else Gen.mine_sink_vadv z w dt wv := by
  simp [sink, Gen.mine_sink_vadv]
end

section
open Ladim.Sed
theorem sed_bury (H z : α) (a : Nat) :
    bury H a z = if a = 0 then (z, 0) else ((Gen.sed_bury z H).1, if (Gen.sed_bury z H).2 then 0 else 1) := by
  unfold bury Gen.sed_bury
  split_ifs <;> simp_all <;> exact absurd ‹_› (not_lt.mpr ‹_›)
end

section
open Ladim.Sed
theorem mine_bury (H z : α) (a : Nat) :
    bury H a z = if a = 0 then (z, 0) else ((Gen.mine_bury z H).1, if (Gen.mine_bury z H).2 then 0 else 1) := by
  unfold bury Gen.mine_bury
  split_ifs <;> simp_all <;> exact absurd ‹_› (not_lt.mpr ‹_›)
end

end Bridge
