import LadimProofs.Basic
import LadimModel.IBM.Swim
import LadimModel.Generated.Formulas
/-!
# Bridge (C11) — directed swimming next to land and the grid edge: the model *is* the code

`Gen.saithe_spread_step` (saithe `spread`: candidate position, reset outside the grid, reset on land, in this order)
and `Gen.eel_advect_select` (lunar eel: moved only when the candidate is inside the grid and at sea) are the statement
windows of the current source; `Swim.saitheStep` / `Swim.eelStep` are the functions the C11 theorems are about.
-/
open Ladim

set_option linter.unusedSectionVars false
set_option linter.unusedVariables false
namespace Bridge
variable {α : Type} [Field α] [LinearOrder α] [IsStrictOrderedRing α]
  [HasSin α] [HasCos α]

theorem saithe_spread_step (ingrid atsea : α → α → Bool) (x0 y0 d om on' dt hs : α) :
    Swim.saitheStep ingrid atsea x0 y0 (x0 + hs * 0.01 * om * dt * cos d) (y0 + hs * 0.01 * on' * dt * sin d) =
      ((Gen.saithe_spread_step x0 y0 d om on' dt hs ingrid atsea).1,
       (Gen.saithe_spread_step x0 y0 d om on' dt hs ingrid atsea).2.1,
       !(Gen.saithe_spread_step x0 y0 d om on' dt hs ingrid atsea).2.2) := by
  unfold Swim.saitheStep Gen.saithe_spread_step
  cases h1 : ingrid (x0 + hs * 0.01 * om * dt * cos d) (y0 + hs * 0.01 * on' * dt * sin d) <;> simp [h1] <;>
    (split_ifs <;> simp_all)

theorem eel_advect_select (ingrid atsea : α → α → Bool) (X Y x1 y1 : α) :
    Swim.eelStep ingrid atsea X Y x1 y1 = Gen.eel_advect_select X Y x1 y1 ingrid atsea := by
  unfold Swim.eelStep Gen.eel_advect_select
  cases ingrid x1 y1 <;> cases atsea x1 y1 <;> simp

end Bridge
