import LadimProofs.Basic
import LadimModel.IBM.Chemicals
import LadimModel.IBM.Sedimentation
import LadimModel.IBM.Bio
/-!
# Bridge (C05, C16) — the hand-written per-particle model *is* the code

`LadimModel/Generated/Formulas.lean` is regenerated from /repo's current source on every run.  Besides the closed-form
formulas it contains the statement windows of the IBM update rules, translated operation by operation from the
numpy-mask code.  Each theorem below states that a hand-written model function used by the property theorems equals
the generated window (or a composition of generated windows).  They are re-checked by the kernel on every run: a
change of the source inside a window either breaks the translation or one of these equalities, and the property
theorems proved about the hand-written model keep speaking about what the code says now.

Behavioural swimming velocities (salmon lice, shrimp).
-/
open Ladim

set_option linter.unusedSectionVars false
set_option linter.unusedVariables false
set_option linter.unnecessarySeqFocus false
namespace Bridge
variable {α : Type} [Field α] [LinearOrder α] [IsStrictOrderedRing α]

theorem lice_W (sv Eb salt r age : α) :
    Bio.liceW sv Eb salt r (decide (age < 40.0)) = Gen.lice_W sv Eb salt r age := by
  simp [Bio.liceW, Gen.lice_W]

theorem shrimp_migrate (isDay : Bool) (maxDay maxNgh minDay minNgh q z dt speed : α) :
    Bio.shrimpMigrate dt speed
        (Bio.shrimpPreferred (if isDay then minDay else minNgh) (if isDay then maxDay else maxNgh) q) z =
      Gen.shrimp_migrate isDay maxDay maxNgh minDay minNgh q z dt speed := by
  simp [Bio.shrimpMigrate, Bio.shrimpPreferred, Gen.shrimp_migrate]

end Bridge
