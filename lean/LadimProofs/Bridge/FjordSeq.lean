import LadimModel.Grid.FjordSeq
import LadimModel.Grid.Sample
import LadimProofs.C12Fjord
/-!
# Bridge (C12) — `vps/gridforce.py`: `_ocean_dist_cells`, `_compute_fish_velocity`, `fish_velocity` are the statement
sequences of the code

`Gen.vps_ocean_dist_cells_seq`, `Gen.vps_compute_fish_velocity_seq`, `Gen.vps_fish_velocity_seq` (guard, kind and text
of every statement, regenerated from the current source) are interpreted by `LadimModel/Grid/FjordSeq.lean` (strict
runner `Seq.runFn`: every statement and every `return` expression must be a known text).

* `Bridge.vps_ocean_dist_cells`: the result is `trunc (round (ocean_distance / (dx[0,0] / 1000.0)))`, `round` =
  the model's `HasRound.round` (numpy, half to even), `trunc` = `int(·)`.  No hypothesis.
* `Bridge.vps_compute_fish_velocity`: `(self._fish_u, self._fish_v)` is `Fjord.fishField s M d speed` =
  `(ofInt (uOf dir) * speed, ofInt (vDir s dir) * speed)` with `dir = descentDir (fjordIndex (1 - M) d)`, `d` the
  result of `_ocean_dist_cells`, and `s` the sign with which the generated text stores `v` (`Seq.vSignSeen`):
  `self._fish_v = v * …` (the code as it is, known finding F-C12a) gives `.picture`, the repair
  `self._fish_v = -v * …` gives `.grid`; the proofs go through for either text and for no other.  No hypothesis.
  `Bridge.vps_tracker_step`: one tracker step on that field (`row += vDir`, `column += uOf`) is the model's
  `nextCell s`; `Bridge.landOfMask_land01`: a 0/1 mask gives a land matrix to which the theorems of
  `LadimProofs/C12Fjord.lean` apply.
* `Bridge.vps_fish_velocity`: the result is `Fjord.fishVelocity` = `(fishU[j, i], fishV[j, i])`,
  `i = fishIndex imax i0 X`, `j = fishIndex jmax j0 Y`, `(jmax, imax) = np.shape(M)`.  No hypothesis.
  `Bridge.fishIndex_eq_clampIdx`: when the rounded value is the image of an integer `k` (and `trunc ∘ ofInt = id`,
  `ofInt` strictly monotone), `fishIndex n i0 x = GridSample.clampIdx n k`, which lies in `[0, n - 1]` for `n ≥ 1`.

Only the operations of the scalar type are used (no field or order laws): the statements hold for every scalar type,
`Float` included.
-/
open Ladim Ladim.Seq Ladim.Fjord

set_option linter.unusedSimpArgs false
set_option linter.unusedVariables false
set_option linter.unusedTactic false
set_option linter.unreachableTactic false
namespace Bridge

/-! ### `_ocean_dist_cells` -/

/-- the interpretation of `Gen.vps_ocean_dist_cells_seq` returns `int(np.round(ocean_distance / (dx[0, 0] / 1000)))` -/
theorem vps_ocean_dist_cells {α : Type} [Div α] [OfScientific α] [HasRound α] [HasTrunc α] (oceanDistance dx00 : α) :
    Seq.oceanDistCellsSeq oceanDistance dx00 = some (some (oceanDistCells oceanDistance dx00)) := by
  simp [Seq.oceanDistCellsSeq, Gen.vps_ocean_dist_cells_seq, Seq.runFn, Seq.fnStmtKnown, Seq.fnGuardKnown,
    Seq.guardVal, Seq.odAtom, Seq.odStep, Seq.odRet, Seq.OdSt.init, oceanDistCells]

/-! ### `_compute_fish_velocity` -/

/-- the generated text of the assignment of `self._fish_v` is one of the two the model knows -/
theorem vps_vsign_seen : ∃ s, Seq.vSignSeen Gen.vps_compute_fish_velocity_seq = some s := by
  first
  | (refine ⟨.picture, ?_⟩; simp [Seq.vSignSeen, Gen.vps_compute_fish_velocity_seq, Seq.vSignOfText]; done)
  | (refine ⟨.grid, ?_⟩; simp [Seq.vSignSeen, Gen.vps_compute_fish_velocity_seq, Seq.vSignOfText]; done)

/-- for the sign `s` that the generated text shows -/
theorem vps_compute_fish_velocity_of {α : Type} [Mul α] [Div α] [OfScientific α] [HasRound α] [HasTrunc α] [HasOfInt α]
    (s : VSign) (h : Seq.vSignSeen Gen.vps_compute_fish_velocity_seq = some s)
    (M : Mat) (oceanDistance dx00 speed : α) :
    Seq.computeFishVelocitySeq M oceanDistance dx00 speed
      = some (some (fishField s M (oceanDistCells oceanDistance dx00) speed)) := by
  cases s <;>
  first
  | (exfalso; simp [Seq.vSignSeen, Gen.vps_compute_fish_velocity_seq, Seq.vSignOfText] at h; done)
  | (simp [Seq.computeFishVelocitySeq, Seq.runComputeFishVelocity, Gen.vps_compute_fish_velocity_seq, Seq.runFn,
      Seq.fnStmtKnown, Seq.fnGuardKnown, Seq.guardVal, Seq.cfAtom, Seq.cfStep, Seq.cfRet, Seq.cfFin, Seq.CfSt.init,
      Seq.vSignOfText, vps_ocean_dist_cells, fishField, vDir]; done)

/-- the interpretation of `Gen.vps_compute_fish_velocity_seq` (with `Gen.vps_ocean_dist_cells_seq` at the call
`self._ocean_dist_cells()`) is `descent(fjord_index(1 - M, ocean_dist_cells))` times the swimming speed, `v` stored
with the sign that the generated text shows -/
theorem vps_compute_fish_velocity {α : Type} [Mul α] [Div α] [OfScientific α] [HasRound α] [HasTrunc α] [HasOfInt α] :
    ∃ s, Seq.vSignSeen Gen.vps_compute_fish_velocity_seq = some s ∧
      ∀ (M : Mat) (oceanDistance dx00 speed : α),
        Seq.computeFishVelocitySeq M oceanDistance dx00 speed
          = some (some (fishField s M (oceanDistCells oceanDistance dx00) speed)) := by
  obtain ⟨s, h⟩ := vps_vsign_seen
  exact ⟨s, h, vps_compute_fish_velocity_of s h⟩

/-- the same as a disjunction over the two signs -/
theorem vps_compute_fish_velocity_or {α : Type} [Mul α] [Div α] [OfScientific α] [HasRound α] [HasTrunc α]
    [HasOfInt α] :
    (∀ (M : Mat) (oceanDistance dx00 speed : α), Seq.computeFishVelocitySeq M oceanDistance dx00 speed
        = some (some (fishField .picture M (oceanDistCells oceanDistance dx00) speed))) ∨
    (∀ (M : Mat) (oceanDistance dx00 speed : α), Seq.computeFishVelocitySeq M oceanDistance dx00 speed
        = some (some (fishField .grid M (oceanDistCells oceanDistance dx00) speed))) := by
  obtain ⟨s, _, h⟩ := vps_compute_fish_velocity (α := α)
  cases s
  · exact Or.inl h
  · exact Or.inr h

/-- one tracker step on the direction field of `fishField s` (`Y` = row index `+= v`, `X` = column index `+= u`) is
the model's `nextCell s`: the `VSign` that the text shows is the one the theorems of `C12Fjord` speak about
(`follow_fjord_index_reaches_ocean` for `.grid`, `picture_orientation_fails` for `.picture`) -/
theorem vps_tracker_step (s : VSign) (w : Mat) (i j : Int) :
    nextCell s w i j = (i + vDir s (descentDir w i j), j + uOf (descentDir w i j)) := by
  cases s
  · rfl
  · show (i - vOf (descentDir w i j), j + uOf (descentDir w i j)) = (i + -vOf (descentDir w i j), _)
    rw [Int.sub_eq_add_neg]

/-- a 0/1 sea mask gives a 0/1 land matrix: the hypothesis `Land01` of the theorems of `C12Fjord` -/
theorem landOfMask_land01 (M : Mat) (hM : ∀ i j, M.inBox i j = true → (M.val i j = 0 ∨ M.val i j = 1)) :
    C12.Land01 (landOfMask M) := by
  intro i j hb
  have h := hM i j hb
  show 1 - M.val i j = 0 ∨ 1 - M.val i j = 1
  omega

/-! ### `fish_velocity` -/

/-- the interpretation of `Gen.vps_fish_velocity_seq` returns `(fish_u[j, i], fish_v[j, i])` with
`(jmax, imax) = np.shape(M)`, `i = trunc (clip (round (X - i0)) 0 (imax - 1))`, `j = trunc (clip (round (Y - j0)) 0 (jmax - 1))` -/
theorem vps_fish_velocity {α : Type} [Sub α] [LT α] [DecidableLT α] [HasRound α] [HasTrunc α] [HasOfInt α]
    (i0 j0 : Int) (shape : Nat × Nat) (fishU fishV : Int → Int → α) (X Y : α) :
    Seq.fishVelocitySeq i0 j0 shape fishU fishV X Y = some (some (fishVelocity i0 j0 shape fishU fishV X Y)) := by
  simp [Seq.fishVelocitySeq, Gen.vps_fish_velocity_seq, Seq.runFn, Seq.fnStmtKnown, Seq.fnGuardKnown,
    Seq.guardVal, Seq.fvAtom, Seq.fvStep, Seq.fvRet, Seq.FvSt.init, fishVelocity]

/-- the lookup on the field that `_compute_fish_velocity` stores: the direction of the cell `[j, i]` -/
theorem vps_fish_velocity_of_field {α : Type} [Sub α] [Mul α] [LT α] [DecidableLT α] [HasRound α] [HasTrunc α]
    [HasOfInt α] (s : VSign) (M : Mat) (d : Int) (speed : α) (i0 j0 : Int) (shape : Nat × Nat) (X Y : α) :
    fishVelocity i0 j0 shape (fishField s M d speed).u (fishField s M d speed).v X Y
      = (ofInt (uOf (descentDir (fjordIndex (landOfMask M) d) (fishIndex shape.1 j0 Y) (fishIndex shape.2 i0 X))) * speed,
         ofInt (vDir s (descentDir (fjordIndex (landOfMask M) d) (fishIndex shape.1 j0 Y) (fishIndex shape.2 i0 X))) * speed) :=
  rfl

/-- `fishIndex` on the integers: if the rounded difference is (the image of) the integer `k`, the index is `k` clamped
to `[0, n - 1]` — the offset is subtracted before the clip -/
theorem fishIndex_eq_clampIdx {α : Type} [Sub α] [LT α] [DecidableLT α] [HasRound α] [HasTrunc α] [HasOfInt α]
    (hto : ∀ k : Int, trunc (ofInt k : α) = k) (hlt : ∀ a b : Int, (ofInt a : α) < ofInt b ↔ a < b)
    (n : Nat) (i0 : Int) (x : α) (k : Int) (hr : round (x - ofInt i0) = (ofInt k : α)) :
    fishIndex n i0 x = GridSample.clampIdx n k := by
  unfold fishIndex fmin fmax GridSample.clampIdx
  rw [hr]
  by_cases h1 : k < 0
  · rw [if_pos ((hlt k 0).2 h1)]
    by_cases h2 : (n : Int) - 1 < 0
    · rw [if_pos ((hlt _ _).2 h2), hto]; omega
    · rw [if_neg (fun h => h2 ((hlt _ _).1 h)), hto]; omega
  · rw [if_neg (fun h => h1 ((hlt _ _).1 h))]
    by_cases h2 : (n : Int) - 1 < k
    · rw [if_pos ((hlt _ _).2 h2), hto]; omega
    · rw [if_neg (fun h => h2 ((hlt _ _).1 h)), hto]; omega

/-- the clamped index lies inside an array with at least one entry -/
theorem clampIdx_inBox (n : Nat) (k : Int) (hn : 1 ≤ n) :
    0 ≤ GridSample.clampIdx n k ∧ GridSample.clampIdx n k < n := by
  unfold GridSample.clampIdx; omega

end Bridge
