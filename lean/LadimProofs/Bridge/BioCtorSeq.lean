import LadimProofs.Bridge.BioSeq
import LadimProofs.Bridge.Mixing
import LadimModel.IBM.BioCtorSeq
/-!
# Bridge (C05, C07, C09, C16) — constructors and library functions of the biological IBMs

The statement sequences of the constructors (`Gen.egg_ctor_seq`, `larvae_ctor_seq`, `saithe_ctor_seq`, `lice_ctor_seq`,
`eel_ctor_seq`), of `egg_update_ibm_seq`, of the formula functions (`eos_calc_density_seq`, `egg_calc_density_seq`,
`eos_viscosity_seq`, `larvae_growth_seq`, `larvae_weight_to_length_seq`, `larvae_sinkvel_egg_seq`, `light_seq`,
`surface_light_seq`, `lice_infectivity_seq`) and of the lunar-eel helpers (`eel_init_grid_seq`,
`eel_vertical_diffuse_seq`, `eel_reflexive_seq`, `eel_moon_function_seq`, `eel_load_ephemeris_seq`) — guard, kind and
text of every statement, regenerated from /repo on every run — are interpreted by `LadimModel/IBM/BioCtorSeq.lean`
(strict: every statement and condition, taken or not, must be a known text; the expression of every `return` is
pinned).  The theorems say what the interpretations return:

* constructors: the attribute bindings as closed expressions in the configuration (`*_ctor_seq`, by computation), the
  outcome for a well-formed configuration (`*_ctor_result`), and the ties to the records that the `update_ibm` bridges
  (`Bridge/BioSeq.lean`) take as parameters: `saithe_attrs_cfg` (= `saitheCfg`, the hypothesis of
  `saithe_update_seq_hardcoded`; `saithe_ctor_then_update`), `larvae_ctor_explicit_wins` (an explicit key of
  `config['ibm']` wins over the species default, for every species value), `larvae_param_default`,
  `larvae_ctor_cod_result` / `larvae_cod_cfg`, `lice_attrs` (`mortality_factor` = `Bio.liceMortFactor dt`,
  `vertical_diffusion` = `D > 0`, default `D = 0.001`), `egg_attrs`, `eel_attrs`;
* formula functions: the interpretation of the straight-line code IS the generated closed form `Gen.*` (by
  computation: statement order and every text are pinned); `infectivity` has no generated form: `liceInfectivity`
  (self-contained specification) with its thresholds (`lice_infectivity_old`, `_young`, `_inside`, `lice_clip_temp`);
* lunar eel: `eel_reflexive_seq` = `Gen.eel_reflexive` = `Bio.reflexive`; `eel_vertical_diffuse_seq` = `Bio.eelZ`
  (= `Gen.eel_reflexive ∘ Gen.eel_step`); `eel_init_grid_seq`, `eel_moon_function_seq`, `eel_load_ephemeris_seq`:
  self-contained specifications (no hand model exists: the harness replaces the moon function by a boolean).

The only laws of the scalar type that are used: the values of literals (`0.0001 = 1.0e-4`, …), and field arithmetic in
the corollaries about `liceInfectQ` and `init_grid`; the closed forms themselves are by computation (`rfl`).
-/
open Ladim Ladim.BioSeq Ladim.BioCtorSeq

set_option linter.unusedSectionVars false
set_option linter.unusedVariables false
set_option linter.unusedSimpArgs false
namespace Bridge
variable {α : Type} [Field α] [LinearOrder α] [IsStrictOrderedRing α]
  [HasSqrt α] [HasExp α] [HasLog α] [HasSin α] [HasCos α] [HasAsin α] [HasRpow α] [HasPi α] [HasNarrow α] [HasFloor α]

/-! ## constructors -/

/-- what a constructor leaves: the attributes and the local variables, newest first (`none`: the expression raised) -/
def ctorView (s : CtorSt α) : List (String × Option (BcVal α)) × List (String × Option (BcVal α)) := (s.self, s.loc)

/-- from the bindings to the outcome of the constructor (`some (some none)`: it raises) -/
theorem ctor_result_of_view {e : CtorEnv α} {prog : List Seq.Stmt}
    {selfL locL : List (String × Option (BcVal α))}
    (h : (ctorRun e prog).map (Option.map ctorView) = some (some (selfL, locL))) :
    (ctorRun e prog).map (Option.map CtorSt.result)
      = some (some ((bcCollect locL).bind fun _ => bcCollect selfL)) := by
  cases hr : ctorRun e prog with
  | none => rw [hr] at h; simp at h
  | some o =>
    cases o with
    | none => rw [hr] at h; simp at h
    | some s =>
      rw [hr] at h
      simp only [Option.map_some, Option.some.injEq, ctorView, Prod.mk.injEq] at h
      simp only [Option.map_some, CtorSt.result, h.1, h.2]

/-- the final state of a constructor whose bindings are known -/
theorem ctor_state_of_view {e : CtorEnv α} {prog : List Seq.Stmt}
    {selfL locL : List (String × Option (BcVal α))}
    (h : (ctorRun e prog).map (Option.map ctorView) = some (some (selfL, locL))) :
    ∃ s, ctorRun e prog = some (some s) ∧ s.self = selfL ∧ s.loc = locL := by
  cases hr : ctorRun e prog with
  | none => rw [hr] at h; simp at h
  | some o =>
    cases o with
    | none => rw [hr] at h; simp at h
    | some s =>
      rw [hr] at h
      simp only [Option.map_some, Option.some.injEq, ctorView, Prod.mk.injEq] at h
      exact ⟨s, rfl, h.1, h.2⟩

/-! ### egg -/

set_option maxRecDepth 100000 in
/-- **egg `__init__`**: `vertical_mixing` and `egg_diam` are REQUIRED keys of `config['ibm']` (no default),
`vertical_diffusion` is `D > 0`, `dt` is `config['dt']` -/
theorem egg_ctor_seq (e : CtorEnv α) :
    (ctorRun e Gen.egg_ctor_seq).map (Option.map ctorView)
      = some (some ([("model", some (.noneDict ["grid", "state", "forcing"])), ("dt", e.dt),
          ("egg_diam", e.ibm "egg_diam"),
          ("vertical_diffusion", (e.ibm "vertical_mixing").bind fun d => d.gtZero.map .bool),
          ("D", e.ibm "vertical_mixing")], [])) := rfl

/-- the attributes of an egg IBM object -/
def eggAttrs (D diam dt : α) : List (String × BcVal α) :=
  [("model", .noneDict ["grid", "state", "forcing"]), ("dt", .num dt), ("egg_diam", .num diam),
    ("vertical_diffusion", .bool (decide ((0.0 : α) < D))), ("D", .num D)]

theorem egg_ctor_result (e : CtorEnv α) (D diam dt : α) (hD : e.ibm "vertical_mixing" = some (.num D))
    (hd : e.ibm "egg_diam" = some (.num diam)) (hdt : e.dt = some (.num dt)) :
    (ctorRun e Gen.egg_ctor_seq).map (Option.map CtorSt.result) = some (some (some (eggAttrs D diam dt))) := by
  rw [ctor_result_of_view (egg_ctor_seq e), hD, hd, hdt]
  rfl

/-- a missing `vertical_mixing` makes the egg constructor raise (`KeyError`; salmon lice and larvae have defaults) -/
theorem egg_ctor_missing_mixing (e : CtorEnv α) (hD : e.ibm "vertical_mixing" = none) :
    (ctorRun e Gen.egg_ctor_seq).map (Option.map CtorSt.result) = some (some none) := by
  rw [ctor_result_of_view (egg_ctor_seq e), hD]
  cases e.dt <;> cases e.ibm "egg_diam" <;> rfl

/-- the attributes are the parameters `D`, `dt`, `eggDiam`, `vertDiff` of `BioSeq.EggEnv` (`Bridge.egg_update_seq`) -/
theorem egg_attrs (D diam dt : α) :
    attrNum (eggAttrs D diam dt) "D" = some D ∧ attrNum (eggAttrs D diam dt) "dt" = some dt ∧
    attrNum (eggAttrs D diam dt) "egg_diam" = some diam ∧
    attrBool (eggAttrs D diam dt) "vertical_diffusion" = some (decide ((0.0 : α) < D)) :=
  ⟨rfl, rfl, rfl, rfl⟩

/-! ### egg `update_ibm` -/

/-- `update_ibm` binds `self.model['grid' | 'state' | 'forcing']` and then is `self.update()`, whatever that does -/
theorem egg_update_ibm_with {ρ : Type} (upd : Option (Option ρ)) :
    eggUpdateIbmRunWith upd Gen.egg_update_ibm_seq = upd := by
  rcases upd with _ | _ | o <;> rfl

/-- **egg `update_ibm`** is the interpretation of `Gen.egg_update_seq` (hence `Bio.eggZ`, `Bio.degreeDayAge`:
`Bridge.egg_update_seq`) -/
theorem egg_update_ibm_seq (e : EggEnv α) (x y z age buoy : α) (draws : List α) :
    eggUpdateIbmRun e x y z age buoy draws Gen.egg_update_ibm_seq = eggRun e x y z age buoy draws :=
  egg_update_ibm_with _

/-! ### salmon lice -/

set_option maxRecDepth 100000 in
/-- **salmon lice `__init__`**: `k = 0.2`, `swim_vel = 0.0005`, `D` = `vertical_mixing` with default `0.001`,
`vertical_diffusion` = `D > 0`, `mortality_factor = exp(-0.17 * dt / 86400)` -/
theorem lice_ctor_seq (e : CtorEnv α) :
    (ctorRun e Gen.lice_ctor_seq).map (Option.map ctorView)
      = some (some ([("mortality_factor", e.dt.bind fun dt => dt.toNum.bind fun dt =>
            some (.num (exp (-0.17 * dt / 86400.0)))),
          ("dt", e.dt),
          ("vertical_diffusion", ((e.ibm "vertical_mixing").getD (.num 0.001)).gtZero.map .bool),
          ("D", some ((e.ibm "vertical_mixing").getD (.num 0.001))),
          ("swim_vel", some (.num 0.0005)), ("k", some (.num 0.2))], [("mortality", some (.num 0.17))])) := rfl

/-- the attributes of a salmon-lice IBM object -/
def liceAttrs (D dt : α) : List (String × BcVal α) :=
  [("mortality_factor", .num (Bio.liceMortFactor dt)), ("dt", .num dt),
    ("vertical_diffusion", .bool (decide ((0.0 : α) < D))), ("D", .num D), ("swim_vel", .num 0.0005), ("k", .num 0.2)]

/-- `D`: the explicit `vertical_mixing`, or `0.001` -/
theorem lice_ctor_result (e : CtorEnv α) (D dt : α) (hD : (e.ibm "vertical_mixing").getD (.num 0.001) = .num D)
    (hdt : e.dt = some (.num dt)) :
    (ctorRun e Gen.lice_ctor_seq).map (Option.map CtorSt.result) = some (some (some (liceAttrs D dt))) := by
  rw [ctor_result_of_view (lice_ctor_seq e), hD, hdt]
  rfl

/-- without a `vertical_mixing` key: `D = 0.001`, and the mixing is on -/
theorem lice_ctor_default (e : CtorEnv α) (dt : α) (hD : e.ibm "vertical_mixing" = none) (hdt : e.dt = some (.num dt)) :
    (ctorRun e Gen.lice_ctor_seq).map (Option.map CtorSt.result) = some (some (some (liceAttrs 0.001 dt))) ∧
    attrBool (liceAttrs (0.001 : α) dt) "vertical_diffusion" = some true := by
  refine ⟨lice_ctor_result e 0.001 dt (by rw [hD]; rfl) hdt, ?_⟩
  show some (decide ((0.0 : α) < 0.001)) = some true
  have : (0.0 : α) < 0.001 := by norm_num
  simp [this]

/-- the attributes are the parameters of `BioSeq.LiceEnv` (`Bridge.lice_update_seq`): `mortFactor` is
`Bio.liceMortFactor self.dt` (C07: `lice_survival_partition`), `vertDiff` is `D > 0` -/
theorem lice_attrs (D dt : α) :
    attrNum (liceAttrs D dt) "mortality_factor" = some (Bio.liceMortFactor dt) ∧
    attrNum (liceAttrs D dt) "k" = some 0.2 ∧ attrNum (liceAttrs D dt) "swim_vel" = some 0.0005 ∧
    attrNum (liceAttrs D dt) "D" = some D ∧ attrNum (liceAttrs D dt) "dt" = some dt ∧
    attrBool (liceAttrs D dt) "vertical_diffusion" = some (decide ((0.0 : α) < D)) :=
  ⟨rfl, rfl, rfl, rfl, rfl, rfl⟩

/-! ### saithe -/

set_option maxRecDepth 100000 in
/-- **saithe `__init__`**: everything but `dt` and `extra_spreading` is hard-coded: `min_depth = 30`,
`max_depth = 60`, `D = 0.0001`, `k = 0.2`, … -/
theorem saithe_ctor_seq (e : CtorEnv α) :
    (ctorRun e Gen.saithe_ctor_seq).map (Option.map ctorView)
      = some (some ([("forcing", some .none), ("state", some .none), ("grid", some .none),
          ("init_larvae_weight", some (.num 0.093)), ("min_depth", some (.num 30.0)), ("max_depth", some (.num 60.0)),
          ("swim_speed", some (.num 0.2)), ("egg_diam", some (.num 0.0011)), ("hatch_day", some (.num 60.0)),
          ("extra_spreading", some ((e.ibm "extra_spreading").getD (.bool true))), ("dt", e.dt),
          ("D", some (.num 0.0001)), ("vertical_diffusion", some (.bool true)), ("k", some (.num 0.2))], [])) := rfl

/-- the attributes of a saithe IBM object for a numeric `config['dt']` -/
def saitheAttrs (e : CtorEnv α) (dt : α) : List (String × BcVal α) :=
  [("forcing", .none), ("state", .none), ("grid", .none),
    ("init_larvae_weight", .num 0.093), ("min_depth", .num 30.0), ("max_depth", .num 60.0),
    ("swim_speed", .num 0.2), ("egg_diam", .num 0.0011), ("hatch_day", .num 60.0),
    ("extra_spreading", (e.ibm "extra_spreading").getD (.bool true)), ("dt", .num dt),
    ("D", .num 0.0001), ("vertical_diffusion", .bool true), ("k", .num 0.2)]

theorem saithe_ctor_result (e : CtorEnv α) (dt : α) (hdt : e.dt = some (.num dt)) :
    (ctorRun e Gen.saithe_ctor_seq).map (Option.map CtorSt.result) = some (some (some (saitheAttrs e dt))) := by
  rw [ctor_result_of_view (saithe_ctor_seq e), hdt]
  rfl

/-- a configuration without `dt` makes the constructor raise -/
theorem saithe_ctor_missing_dt (e : CtorEnv α) (hdt : e.dt = none) :
    (ctorRun e Gen.saithe_ctor_seq).map (Option.map CtorSt.result) = some (some none) := by
  rw [ctor_result_of_view (saithe_ctor_seq e), hdt]
  rfl

/-- the configuration record of the saithe attributes is `Bridge.saitheCfg`, the record of
`Bridge.saithe_update_seq_hardcoded` (desired light `1` and `clipEggs = false` come from `update_ibm`) -/
theorem saithe_attrs_cfg (e : CtorEnv α) (dt sdt : α) :
    larvaCfgOf (saitheAttrs e dt) 1.0 sdt false = some (saitheCfg dt sdt) := by
  have h2 : (0.0001 : α) = 1.0e-4 := by norm_num
  show some _ = some _
  simp only [saitheCfg, h2]

/-- `extra_spreading` defaults to `True` -/
theorem saithe_attrs_spreading (e : CtorEnv α) (dt : α) :
    (saitheAttrs e dt).lookup "extra_spreading" = some ((e.ibm "extra_spreading").getD (.bool true)) := rfl

/-- **constructor, then `update_ibm`**: an IBM object whose configuration record is the one of the constructed
attributes moves a particle by `Bio.larvaUpdate (saitheCfg dt sdt)`: the band is `[30, 60]` whatever `config['ibm']`
says -/
theorem saithe_ctor_then_update (ce : CtorEnv α) (dt sdt : α) (e : LarvaEnv α)
    (hc : larvaCfgOf (saitheAttrs ce dt) 1.0 sdt false = some e.c)
    (x y buoy : α) (p : Bio.Larva α) (xi : α) (rest : List α) :
    (saitheRun e x y buoy p (xi :: rest)).map
        (Option.map fun s => (s.particle, s.rng.log, s.rng.supply, s.x, s.y, s.eggBuoy))
      = some (some (Bio.larvaUpdate (saitheCfg dt sdt) (e.temp x y p.z) (e.salt x y p.z) buoy
            (if e.extraSpreading then e.light0 (e.spread x y).1 (e.spread x y).2 else e.light0 x y) (some xi) p,
          [.normal], rest,
          if e.extraSpreading then (e.spread x y).1 else x,
          if e.extraSpreading then (e.spread x y).2 else y, buoy)) := by
  rw [saithe_attrs_cfg] at hc
  exact saithe_update_seq_hardcoded e dt sdt (Option.some.inj hc).symm x y buoy p xi rest

/-! ### larvae -/

/-- `self.species` -/
def larvaeSpecies (e : CtorEnv α) : BcVal α := (e.ibm "species").getD (.str (.other "unknown"))

/-- `read_species_param(p)` in the constructor -/
def larvaeParam (e : CtorEnv α) (p : String) : Option (BcVal α) :=
  larvaeReadSpec (e.ibm p)
    (larvaeDefault (some (larvaeSpeciesDefaults Gen.larvae_growth Gen.larvae_weight_to_length)) (some (larvaeSpecies e)) p)

set_option maxRecDepth 100000 in
/-- **larvae `__init__`**: `k` and `D` have defaults `0.2` and `0`; the nine species parameters are
`read_species_param` of their keys (`desired_light` of the key `light`) -/
theorem larvae_ctor_seq (e : CtorEnv α) :
    (ctorRun e Gen.larvae_ctor_seq).map (Option.map ctorView)
      = some (some ([("dt", e.dt), ("length", larvaeParam e "length"), ("growth", larvaeParam e "growth"),
          ("max_depth", larvaeParam e "max_depth"), ("min_depth", larvaeParam e "min_depth"),
          ("desired_light", larvaeParam e "light"), ("swim_speed", larvaeParam e "swim_speed"),
          ("init_larvae_weight", larvaeParam e "init_larvae_weight"), ("hatch_day", larvaeParam e "hatch_day"),
          ("egg_diam", larvaeParam e "egg_diam"), ("species", some (larvaeSpecies e)),
          ("D", some ((e.ibm "vertical_mixing").getD (.num 0.0))),
          ("k", some ((e.ibm "extinction_coeff").getD (.num 0.2)))], [])) := rfl

set_option maxRecDepth 100000 in
/-- the body of the nested `read_species_param` in the constructor's sequence is `Gen.larvae_read_species_param_seq` -/
theorem larvae_ctor_body :
    bcBodyOf "def read_species_param" Gen.larvae_ctor_seq = Gen.larvae_read_species_param_seq := by decide

set_option maxRecDepth 100000 in
/-- **`read_species_param`**: the explicit key wins; otherwise the species default (`none`: `KeyError`) -/
theorem larvae_read_species_param_seq (inCfg dflt : Option (BcVal α)) :
    rspRun inCfg dflt Gen.larvae_read_species_param_seq = some (larvaeReadSpec inCfg dflt) := by
  cases inCfg <;> cases dflt <;> rfl

/-- an explicit key wins over the species default — whatever `species` is -/
theorem larvae_param_explicit (e : CtorEnv α) (p : String) (v : BcVal α) (h : e.ibm p = some v) :
    larvaeParam e p = some v := by
  simp only [larvaeParam, h, larvaeReadSpec]

/-- without the key: the default of the species -/
theorem larvae_param_default (e : CtorEnv α) (p : String) (n : BcName) (hs : e.ibm "species" = some (.str n))
    (h : e.ibm p = none) :
    larvaeParam e p = (larvaeSpeciesDefaults Gen.larvae_growth Gen.larvae_weight_to_length n).bind fun row => row p := by
  simp only [larvaeParam, h, larvaeReadSpec, larvaeSpecies, hs, Option.getD_some, larvaeDefault, Option.bind_some]

/-- without the key and without a (known) species: `KeyError` -/
theorem larvae_param_unknown (e : CtorEnv α) (p : String) (hs : e.ibm "species" = none) (h : e.ibm p = none) :
    larvaeParam e p = none := by
  simp only [larvaeParam, h, larvaeReadSpec, larvaeSpecies, hs, Option.getD_none, larvaeDefault, Option.bind_some,
    larvaeSpeciesDefaults, Option.bind_none]

/-- attribute and configuration key of the nine species parameters -/
def larvaeAttrKeys : List (String × String) :=
  [("egg_diam", "egg_diam"), ("hatch_day", "hatch_day"), ("init_larvae_weight", "init_larvae_weight"),
    ("swim_speed", "swim_speed"), ("desired_light", "light"), ("min_depth", "min_depth"), ("max_depth", "max_depth"),
    ("growth", "growth"), ("length", "length")]

/-- **precedence**: in the object the interpreted constructor leaves, an attribute whose key is present in
`config['ibm']` equals the configured value (for every species, known or not, and whatever the other keys are) -/
theorem larvae_ctor_explicit_wins (e : CtorEnv α) (s : CtorSt α)
    (hrun : ctorRun e Gen.larvae_ctor_seq = some (some s)) (attr key : String) (hk : (attr, key) ∈ larvaeAttrKeys)
    (v : BcVal α) (hv : e.ibm key = some v) :
    s.getSelf attr = some v := by
  obtain ⟨s', hs', hself, _⟩ := ctor_state_of_view (larvae_ctor_seq e)
  rw [hrun] at hs'
  obtain rfl : s = s' := Option.some.inj (Option.some.inj hs')
  simp only [larvaeAttrKeys, List.mem_cons, Prod.mk.injEq, List.mem_nil_iff, or_false] at hk
  rcases hk with ⟨rfl, rfl⟩ | ⟨rfl, rfl⟩ | ⟨rfl, rfl⟩ | ⟨rfl, rfl⟩ | ⟨rfl, rfl⟩ | ⟨rfl, rfl⟩ | ⟨rfl, rfl⟩ | ⟨rfl, rfl⟩ |
    ⟨rfl, rfl⟩ <;>
  · rw [CtorSt.getSelf, hself]
    simp [List.lookup, larvae_param_explicit e _ v hv]

/-- the attributes of a larvae IBM object for `species = 'cod'` with optional explicit `min_depth` / `max_depth`
and nothing else in `config['ibm']` -/
def larvaeCodAttrs (lo hi : Option α) (dt : α) : List (String × BcVal α) :=
  [("dt", .num dt), ("length", .fn1 Gen.larvae_weight_to_length), ("growth", .fn3 Gen.larvae_growth),
    ("max_depth", .num (hi.getD 1000.0)), ("min_depth", .num (lo.getD 0.0)), ("desired_light", .num 1.0),
    ("swim_speed", .num 0.1), ("init_larvae_weight", .num 0.093), ("hatch_day", .num 93.7), ("egg_diam", .num 0.0014),
    ("species", .str .cod), ("D", .num 0.0), ("k", .num 0.2)]

/-- `species = 'cod'`: the defaults of the table, and explicit `min_depth` / `max_depth` in their place -/
theorem larvae_ctor_cod_result (e : CtorEnv α) (lo hi : Option α) (dt : α)
    (hs : e.ibm "species" = some (.str .cod)) (hlo : e.ibm "min_depth" = lo.map .num)
    (hhi : e.ibm "max_depth" = hi.map .num)
    (hnone : ∀ p, p ≠ "species" → p ≠ "min_depth" → p ≠ "max_depth" → e.ibm p = none)
    (hdt : e.dt = some (.num dt)) :
    (ctorRun e Gen.larvae_ctor_seq).map (Option.map CtorSt.result) = some (some (some (larvaeCodAttrs lo hi dt))) := by
  rw [ctor_result_of_view (larvae_ctor_seq e), hdt]
  have h1 : e.ibm "length" = none := hnone _ (by decide) (by decide) (by decide)
  have h2 : e.ibm "growth" = none := hnone _ (by decide) (by decide) (by decide)
  have h3 : e.ibm "light" = none := hnone _ (by decide) (by decide) (by decide)
  have h4 : e.ibm "swim_speed" = none := hnone _ (by decide) (by decide) (by decide)
  have h5 : e.ibm "init_larvae_weight" = none := hnone _ (by decide) (by decide) (by decide)
  have h6 : e.ibm "hatch_day" = none := hnone _ (by decide) (by decide) (by decide)
  have h7 : e.ibm "egg_diam" = none := hnone _ (by decide) (by decide) (by decide)
  have h8 : e.ibm "vertical_mixing" = none := hnone _ (by decide) (by decide) (by decide)
  have h9 : e.ibm "extinction_coeff" = none := hnone _ (by decide) (by decide) (by decide)
  cases lo <;> cases hi <;>
  · simp only [Option.map_none, Option.map_some] at hlo hhi
    simp only [larvaeParam, larvaeSpecies, larvaeReadSpec, larvaeDefault, h1, h2, h3, h4, h5, h6, h7, h8, h9, hs, hlo, hhi,
      Option.getD_some, Option.getD_none, Option.bind_some]
    rfl

/-- the configuration record of these attributes (`clipEggs = true`: the larvae module clips every particle):
the band of `C05.larva_final_band` is `[min_depth, max_depth]` with the explicit values, else `[0, 1000]`; growth and
length are the module's functions, as `Bridge.larvae_update_seq` assumes -/
theorem larvae_cod_cfg (lo hi : Option α) (dt sdt : α) :
    larvaCfgOf (larvaeCodAttrs lo hi dt) 1.0 sdt true
      = some ⟨93.7, 0.093, 0.1, 1.0, lo.getD 0.0, hi.getD 1000.0, 0.2, 0.0, dt, sdt, 0.0014, true⟩ ∧
    attrNum (larvaeCodAttrs lo hi dt) "desired_light" = some 1.0 ∧
    (larvaeCodAttrs lo hi dt).lookup "growth" = some (.fn3 Gen.larvae_growth) ∧
    (larvaeCodAttrs lo hi dt).lookup "length" = some (.fn1 Gen.larvae_weight_to_length) :=
  ⟨rfl, rfl, rfl, rfl⟩

/-- the larvae constructor with `species = 'saithe'` and nothing else gives the numbers that the saithe module
hard-codes, except `D` (`0` instead of `0.0001`) -/
theorem larvae_saithe_defaults (e : CtorEnv α) (hs : e.ibm "species" = some (.str .saithe)) :
    (e.ibm "min_depth" = none → larvaeParam e "min_depth" = some (.num 30.0)) ∧
    (e.ibm "max_depth" = none → larvaeParam e "max_depth" = some (.num 60.0)) ∧
    (e.ibm "hatch_day" = none → larvaeParam e "hatch_day" = some (.num 60.0)) ∧
    (e.ibm "egg_diam" = none → larvaeParam e "egg_diam" = some (.num 0.0011)) ∧
    (e.ibm "swim_speed" = none → larvaeParam e "swim_speed" = some (.num 0.2)) := by
  refine ⟨fun h => ?_, fun h => ?_, fun h => ?_, fun h => ?_, fun h => ?_⟩ <;>
  · rw [larvae_param_default e _ _ hs h]
    rfl

/-! ### lunar eel -/

/-- `get_moon_function(lat=moon_lat, lon=moon_lon)` after `moon_lat, moon_lon = config['ibm']['lunar_latlon']` -/
def eelMoonAttr (e : CtorEnv α) : Option (BcVal α) :=
  ((e.ibm "lunar_latlon").bind BcVal.unpack1).bind fun la => la.toNum.bind fun la =>
    ((e.ibm "lunar_latlon").bind BcVal.unpack2).bind fun lo => lo.toNum.bind fun lo => some (.moon la lo)

set_option maxRecDepth 100000 in
/-- **lunar eel `__init__`**: `direction = 180`; `speed`, `lunar_latlon`, `vertical_mixing`, `vertical_limits` are
REQUIRED keys; `xs_dx` is `None` (so the first `update_ibm` calls `init_grid`: `Bridge.eel_order`) -/
theorem eel_ctor_seq (e : CtorEnv α) :
    (ctorRun e Gen.eel_ctor_seq).map (Option.map ctorView)
      = some (some ([("moonfunc", eelMoonAttr e),
          ("grid", some .none), ("state", some .none), ("ys_dy", some .none), ("xs_dx", some .none), ("dt", e.dt),
          ("vertical_limits", e.ibm "vertical_limits"), ("D", e.ibm "vertical_mixing"), ("speed", e.ibm "speed"),
          ("direction", some (.num 180.0))],
          [("moon_lon", (e.ibm "lunar_latlon").bind BcVal.unpack2),
           ("moon_lat", (e.ibm "lunar_latlon").bind BcVal.unpack1)])) := rfl

/-- the attributes of a lunar-eel IBM object -/
def eelAttrs (speed lat lon D lo hi dt : α) : List (String × BcVal α) :=
  [("moonfunc", .moon lat lon), ("grid", .none), ("state", .none), ("ys_dy", .none), ("xs_dx", .none), ("dt", .num dt),
    ("vertical_limits", .pair lo hi), ("D", .num D), ("speed", .num speed), ("direction", .num 180.0)]

/-- the FIRST component of `lunar_latlon` is the latitude of the moon observer, the second its longitude -/
theorem eel_ctor_result (e : CtorEnv α) (speed lat lon D lo hi dt : α) (h1 : e.ibm "speed" = some (.num speed))
    (h2 : e.ibm "lunar_latlon" = some (.pair lat lon)) (h3 : e.ibm "vertical_mixing" = some (.num D))
    (h4 : e.ibm "vertical_limits" = some (.pair lo hi)) (hdt : e.dt = some (.num dt)) :
    (ctorRun e Gen.eel_ctor_seq).map (Option.map CtorSt.result)
      = some (some (some (eelAttrs speed lat lon D lo hi dt))) := by
  rw [ctor_result_of_view (eel_ctor_seq e)]
  simp only [eelMoonAttr, h1, h2, h3, h4, hdt]
  rfl

/-- the attributes `D`, `dt`, `vertical_limits` are the parameters of `eelVerticalDiffuseRun`, `direction` the one of
`eelInitGridRun`, `xs_dx is None` holds after construction -/
theorem eel_attrs (speed lat lon D lo hi dt : α) :
    attrNum (eelAttrs speed lat lon D lo hi dt) "direction" = some 180.0 ∧
    attrNum (eelAttrs speed lat lon D lo hi dt) "D" = some D ∧ attrNum (eelAttrs speed lat lon D lo hi dt) "dt" = some dt ∧
    attrNum (eelAttrs speed lat lon D lo hi dt) "speed" = some speed ∧
    (eelAttrs speed lat lon D lo hi dt).lookup "vertical_limits" = some (.pair lo hi) ∧
    (eelAttrs speed lat lon D lo hi dt).lookup "xs_dx" = some .none ∧
    (eelAttrs speed lat lon D lo hi dt).lookup "moonfunc" = some (.moon lat lon) :=
  ⟨rfl, rfl, rfl, rfl, rfl, rfl, rfl⟩

set_option maxRecDepth 100000 in
/-- **`reflexive`**: mirror at `rmin`, then at `rmax`, then clip — the generated window, i.e. `Bio.reflexive`
(`Bridge.eel_reflexive`; band: `C05.reflexive_band`) -/
theorem eel_reflexive_seq (r rmin rmax : α) :
    eelReflexiveRun r rmin rmax Gen.eel_reflexive_seq = some (some (Gen.eel_reflexive r rmin rmax)) := rfl

theorem eel_reflexive_seq_model (r rmin rmax : α) :
    eelReflexiveRun r rmin rmax Gen.eel_reflexive_seq = some (some (Bio.reflexive rmin rmax r)) := by
  rw [eel_reflexive_seq, eel_reflexive]

set_option maxRecDepth 100000 in
/-- **`vertical_diffuse`** on one particle is `Bio.eelZ` (= `Gen.eel_reflexive (Gen.eel_step …)`): ONE normal draw,
step `rand * sqrt(2 * D * dt)`, then `reflexive` with `vertical_limits = (lo, hi)` in this order -/
theorem eel_vertical_diffuse_seq (D dt lo hi z xi : α) (rest : List α) :
    (eelVerticalDiffuseRun D dt (lo, hi) z (xi :: rest) Gen.eel_vertical_diffuse_seq).map
        (Option.map fun s => (s.z, s.rng.log, s.rng.supply))
      = some (some (Bio.eelZ D dt lo hi xi z, [.normal], rest)) := by
  rw [eel_vertical]
  rfl

set_option maxRecDepth 100000 in
/-- the same on the generated windows -/
theorem eel_vertical_diffuse_seq_gen (D dt lo hi z xi : α) (rest : List α) :
    (eelVerticalDiffuseRun D dt (lo, hi) z (xi :: rest) Gen.eel_vertical_diffuse_seq).map
        (Option.map fun s => (s.z, s.rng.log, s.rng.supply))
      = some (some (Gen.eel_reflexive (Gen.eel_step z xi D dt) lo hi, [.normal], rest)) := rfl

set_option maxRecDepth 100000 in
/-- without a number to draw the method raises -/
theorem eel_vertical_diffuse_no_draw (D dt : α) (lim : α × α) (z : α) :
    eelVerticalDiffuseRun D dt lim z [] Gen.eel_vertical_diffuse_seq = some none := rfl

set_option maxRecDepth 100000 in
/-- **`init_grid`** at one cell (self-contained specification): the unit vector of the azimuth
`direction * pi / 180` (clockwise from north) rotated by the grid angle, in grid cells per metre -/
theorem eel_init_grid_seq (direction angle dx dy : α) :
    eelInitGridRun direction angle dx dy Gen.eel_init_grid_seq
      = some (some (sin (direction * pi / 180.0 + angle) / dx, cos (direction * pi / 180.0 + angle) / dy)) := rfl

/-- with the constructor's `direction = 180` (south): `(-sin angle / dx, -cos angle / dy)`, given the two trigonometric
identities for a shift by `pi` -/
theorem eel_init_grid_south (angle dx dy : α) (hsin : ∀ a : α, sin (pi + a) = -sin a)
    (hcos : ∀ a : α, cos (pi + a) = -cos a) :
    eelInitGridRun 180.0 angle dx dy Gen.eel_init_grid_seq = some (some (-sin angle / dx, -cos angle / dy)) := by
  rw [eel_init_grid_seq]
  have h : (180.0 : α) * pi / 180.0 = pi := by
    lits
    field_simp
  rw [h, hsin, hcos]

set_option maxRecDepth 100000 in
/-- **`get_moon_function(lat, lon)(npdate)`** (self-contained specification; the ephemeris is a parameter): the
difference of the apparent geocentric ecliptic longitudes MOON minus SUN, modulo 180°, is NOT strictly between 45° and
135°, AND the apparent altitude of the moon at the observer `(lat, lon)` is strictly positive -/
theorem eel_moon_function_seq {τ : Type} (env : MoonEnv τ α) (lat lon : α) (t : τ) :
    eelMoonRun env lat lon t Gen.eel_moon_function_seq = some (some (eelMoonSpec env lat lon t)) := rfl

/-- the closed form as a proposition -/
theorem eel_moon_spec_iff {τ : Type} (env : MoonEnv τ α) (lat lon : α) (t : τ) :
    eelMoonSpec env lat lon t = true ↔
      ¬ (45.0 < pyFloatMod (env.moonLon t - env.sunLon t) 180.0 ∧ pyFloatMod (env.moonLon t - env.sunLon t) 180.0 < 135.0)
        ∧ 0.0 < env.moonAlt lat lon t := by
  simp only [eelMoonSpec, Bool.and_eq_true, Bool.not_eq_true', Bool.and_eq_false_iff, decide_eq_true_eq,
    decide_eq_false_iff_not, not_and_or]

/-- the moon below (or on) the horizon: never -/
theorem eel_moon_below_horizon {τ : Type} (env : MoonEnv τ α) (lat lon : α) (t : τ) (h : env.moonAlt lat lon t ≤ 0.0) :
    eelMoonSpec env lat lon t = false := by
  simp [eelMoonSpec, not_lt.2 h]

set_option maxRecDepth 100000 in
/-- **`_load_ephemeris`** (self-contained specification): `de421.bsp` of the package `ladim_plugins.lunar_eel`, located
through `importlib.resources` when `files` / `as_file` can be imported, else through `pkg_resources`, whose
`cleanup_resources()` is then called (the `finally` clause) -/
theorem eel_load_ephemeris_seq (hasFiles : Bool) :
    eelLoadEphemerisRun hasFiles Gen.eel_load_ephemeris_seq
      = some (some (if hasFiles then (.importlibResources, false) else (.pkgResources, true))) := by
  cases hasFiles <;> rfl

/-! ## formula functions: the straight-line code is the generated closed form -/

set_option maxRecDepth 100000 in
theorem eos_calc_density_seq (temp salt : α) :
    calcDensityRun temp salt Gen.eos_calc_density_seq = some (some (Gen.eos_density temp salt)) := rfl

set_option maxRecDepth 100000 in
/-- the copy in `egg/ibm.py` -/
theorem egg_calc_density_seq (temp salt : α) :
    calcDensityRun temp salt Gen.egg_calc_density_seq = some (some (Gen.egg_density temp salt)) := rfl

/-- the two copies of `calc_density` are the same statement list -/
theorem calc_density_copies : Gen.egg_calc_density_seq = Gen.eos_calc_density_seq := rfl

set_option maxRecDepth 100000 in
theorem eos_viscosity_seq (temp salt : α) :
    viscosityRun temp salt Gen.eos_viscosity_seq = some (some (Gen.eos_viscosity temp salt)) := rfl

set_option maxRecDepth 100000 in
theorem larvae_growth_seq (temp weight dt : α) :
    larvaeGrowthRun temp weight dt Gen.larvae_growth_seq = some (some (Gen.larvae_growth temp weight dt)) := rfl

set_option maxRecDepth 100000 in
theorem larvae_weight_to_length_seq (weight : α) :
    larvaeLengthRun weight Gen.larvae_weight_to_length_seq = some (some (Gen.larvae_weight_to_length weight)) := rfl

set_option maxRecDepth 100000 in
theorem larvae_sinkvel_egg_seq (mu_w dens_w dens_egg diam_egg : α) :
    larvaeSinkvelRun mu_w dens_w dens_egg diam_egg Gen.larvae_sinkvel_egg_seq
      = some (some (Gen.larvae_sinkvel_egg mu_w dens_w dens_egg diam_egg)) := rfl

set_option maxRecDepth 100000 in
/-- `light(time, lon, lat, depth, extinction_coef)`: the surface light at `(lon, lat)` times `exp(-k * depth)` -/
theorem light_seq (surf : α → α → α) (lon lat depth k : α) :
    lightRun surf lon lat depth k Gen.light_seq = some (some (Gen.light_at_depth (surf lon lat) depth k)) := rfl

set_option maxRecDepth 100000 in
/-- `surface_light(dtime, lon, lat)` for the day of the year and the hour of `dtime` -/
theorem surface_light_seq (yday hours lon lat : α) :
    surfaceLightRun yday hours lon lat Gen.surface_light_seq = some (some (Gen.surface_light yday hours lon lat)) := rfl

/-! ### salmon lice `infectivity` -/

set_option maxRecDepth 100000 in
/-- **`infectivity(age, temp, super)`** (self-contained specification; no generated closed form exists) -/
theorem lice_infectivity_seq (age temp super : α) :
    infectivityRun age temp super Gen.lice_infectivity_seq = some (some (liceInfectivity age temp super)) := rfl

/-- the temperature inside `q`: clipped to `[5, 15]` -/
theorem lice_clip_temp (temp : α) :
    fmin (fmax temp 5.0) 15.0 = if temp < 5 then 5 else if 15 < temp then 15 else temp := by
  have h5 : (5.0 : α) = 5 := by norm_num
  unfold fmin fmax
  rw [h5, lit_15]
  split_ifs <;> first | rfl | (exfalso; linarith)

/-- after 200 degree-days: no infectivity -/
theorem lice_infectivity_old (age temp super : α) (h : 200 < age) : liceInfectivity age temp super = 0 := by
  have h' : (200.0 : α) < age := by rw [show (200.0 : α) = 200 by norm_num]; exact h
  simp [liceInfectivity, h', lit_0]

/-- before the copepodid age `temp * (24.79 / (temp - 10 + 24.79 * 0.525))²` (UNCLIPPED temperature): none -/
theorem lice_infectivity_young (age temp super : α) (h : age < liceCopAge temp) :
    liceInfectivity age temp super = 0 := by
  simp [liceInfectivity, h, lit_0]

/-- in between: the scaled logistic of `q`, times `super` -/
theorem lice_infectivity_inside (age temp super : α) (h1 : ¬ age < liceCopAge temp) (h2 : ¬ 200 < age) :
    liceInfectivity age temp super
      = 1.8 / 0.51 / (1.0 + exp (-(liceInfectQ age (fmin (fmax temp 5.0) 15.0)))) * super := by
  have h2' : ¬ (200.0 : α) < age := by rw [show (200.0 : α) = 200 by norm_num]; exact h2
  simp [liceInfectivity, h1, h2']

/-- the copepodid age in plain arithmetic -/
theorem lice_cop_age (temp : α) :
    liceCopAge temp = temp * (24.79 / (temp - 10 + 24.79 * 0.525)) ^ 2 := by
  unfold liceCopAge
  lits
  ring

/-- `q` as a polynomial in the clipped temperature `T` with cubic (`age ** 3` is a call of `pow`) coefficients in the
age -/
theorem lice_infect_q (age T : α) :
    liceInfectQ age T
      = (-34.66 + 0.7156 * age - 0.005354 * age ^ 2 + 1.191e-5 * rpow age 3.0)
        + (2.306 - 0.03577 * age + 0.0002526 * age ^ 2 - 5.541e-7 * rpow age 3.0) * T
        - 0.02585 * T ^ 2 := by
  unfold liceInfectQ liceRow
  lits
  ring

end Bridge
