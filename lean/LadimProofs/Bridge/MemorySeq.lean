import LadimModel.IBM.MemorySeq
/-!
# Bridge (C11 / C10) — land-collision handlers: the hand-written model *is* the statement sequence of the code

`LadimModel/IBM/MemorySeq.lean` interprets the generated statement sequences (guard, kind and text of every statement,
regenerated from the current source) of

* `chemicals/ibm.py :: IBM.reposition / store_position / coastal_diffusion`, `mine/ibm.py :: IBM.reposition`,
* `chemicals/gridforce.py :: is_close_to_land / nearest_unmasked / Grid.is_close_to_land / Grid.nearest_sea`,
* `saithe/ibm.py :: IBM.spread`, `lunar_eel/ibm.py :: IBM.horizontal_advect`;

every statement text (also of `return` expressions, also in branches not taken) must be one the interpreter knows.  The
theorems of the second half of this file (`namespace Bridge`) say that the interpretations are the hand-written model:

* `chem_reposition_seq`, `mine_reposition_seq(_off)`: `np.intersect1d(self.pid, state.pid, return_indices=True)` = the
  model's lookup by pid (`Memory.lookup`), `onland` = `Memory.stuck` (mine: and the current `active` non-zero), re-seeding
  = `Chemicals.reseed` for exactly those; draws in the order of increasing pid, x call first; mine remembers copies.
  Hypothesis: distinct current pids (mine: one `active` entry per particle).
* `chem_store_position_seq`: `Memory.store`, with the `MemKind` that the generated text shows (`alias` = the code as it
  is, F-C11a; `snapshot` = the repair); `decides_effective` links that kind to `Memory.decides`.
* `is_close_to_land_seq` = `Nb.isCloseToLand`, `nearest_unmasked_seq` = `Nb.nearestUnmasked` (centre cell when all nine
  are masked), `chem_grid_close_to_land_seq`, `chem_grid_nearest_sea_seq`: `i0` for `X`, `j0` for `Y`, subtracted
  before rounding.  No hypotheses.
* `chem_coastal_diffusion_seq`: exactly the particles with `Nb.isCloseToLand` are re-seeded (array order of the draws).
* `saithe_spread_seq` (`Swim.saitheStep`), `eel_horizontal_advect_seq` (`Swim.eelStep`): one particle, no hypotheses.

Only the operations of the scalar type are used (no field or order laws, except irreflexivity of `<` in
`decides_effective`): the statements hold for every scalar type, `Float` included.  `namespace Bridge.MemSeq` holds the
lemmas (runner steps, numpy list operations, `maArgmin`, `intersect1d`, scatter / mask-scatter of re-seeded values).
-/
open Ladim Ladim.Seq Ladim.MemSeq Ladim.Memory Ladim.Nb

set_option linter.unusedSectionVars false
set_option linter.unusedVariables false
set_option linter.unusedSimpArgs false
namespace Bridge.MemSeq

section runner
variable {σ : Type} (atom : σ → String → Option Bool) (step : σ → String → String → Option (Option σ))

theorem run_assign (rest : List Stmt) (s s' : σ) (t : String) (h : step s "assign" t = some (some s')) :
    runStrictRet atom step (([], "assign", t) :: rest) s = runStrictRet atom step rest s' := by
  simp [runStrictRet, guardVal, h]

theorem run_raise_assign (rest : List Stmt) (s : σ) (t : String) (h : step s "assign" t = some none) :
    runStrictRet atom step (([], "assign", t) :: rest) s = some none := by
  simp [runStrictRet, guardVal, h]

theorem run_return (rest : List Stmt) (s s' : σ) (t : String) (h : step s "return" t = some (some s')) :
    runStrictRet atom step (([], "return", t) :: rest) s = some (some s') := by
  simp [runStrictRet, guardVal, h]

theorem run_assign_map {ρ : Type} (rest : List Stmt) (s : σ) (t : String) (r : Option ρ) (k : ρ → σ) (v : ρ)
    (h : step s "assign" t = some (r.map k)) (hr : r = some v) :
    runStrictRet atom step (([], "assign", t) :: rest) s = runStrictRet atom step rest (k v) := by
  subst hr
  simp [runStrictRet, guardVal, h]

theorem run_gassign (c : String) (rest : List Stmt) (s s' : σ) (t : String) (hc : atom s c = some true)
    (h : step s "assign" t = some (some s')) :
    runStrictRet atom step (([(true, c)], "assign", t) :: rest) s = runStrictRet atom step rest s' := by
  simp [runStrictRet, guardVal, h, hc]

theorem run_gassign_map {ρ : Type} (c : String) (rest : List Stmt) (s : σ) (t : String) (r : Option ρ) (k : ρ → σ) (v : ρ)
    (hc : atom s c = some true) (h : step s "assign" t = some (r.map k)) (hr : r = some v) :
    runStrictRet atom step (([(true, c)], "assign", t) :: rest) s = runStrictRet atom step rest (k v) := by
  subst hr
  simp [runStrictRet, guardVal, h, hc]

theorem run_gskip (c : String) (rest : List Stmt) (s : σ) (k t : String) (hc : atom s c = some false)
    (h : (step s k t).isSome = true) :
    runStrictRet atom step (([(true, c)], k, t) :: rest) s = runStrictRet atom step rest s := by
  simp [runStrictRet, guardVal, h, hc]

/-! the same steps under a final `Option.map` (used with `Eq.trans`: the statement at the head of the list is unified
directly, so that a changed sequence fails at once) -/
section mapped
variable {τ : Type} (f : Option σ → τ)

theorem run_assign_m (rest : List Stmt) (s s' : σ) (t : String) (h : step s "assign" t = some (some s')) :
    (runStrictRet atom step (([], "assign", t) :: rest) s).map f = (runStrictRet atom step rest s').map f := by
  rw [run_assign atom step rest s s' t h]

theorem run_assign_map_m {ρ : Type} (rest : List Stmt) (s : σ) (t : String) (r : Option ρ) (k : ρ → σ) (v : ρ)
    (h : step s "assign" t = some (r.map k)) (hr : r = some v) :
    (runStrictRet atom step (([], "assign", t) :: rest) s).map f = (runStrictRet atom step rest (k v)).map f := by
  rw [run_assign_map atom step rest s t r k v h hr]

theorem run_gassign_m (c : String) (rest : List Stmt) (s s' : σ) (t : String) (hc : atom s c = some true)
    (h : step s "assign" t = some (some s')) :
    (runStrictRet atom step (([(true, c)], "assign", t) :: rest) s).map f = (runStrictRet atom step rest s').map f := by
  rw [run_gassign atom step c rest s s' t hc h]

theorem run_gassign_map_m {ρ : Type} (c : String) (rest : List Stmt) (s : σ) (t : String) (r : Option ρ) (k : ρ → σ)
    (v : ρ) (hc : atom s c = some true) (h : step s "assign" t = some (r.map k)) (hr : r = some v) :
    (runStrictRet atom step (([(true, c)], "assign", t) :: rest) s).map f =
      (runStrictRet atom step rest (k v)).map f := by
  rw [run_gassign_map atom step c rest s t r k v hc h hr]

theorem run_gskip_m (c : String) (rest : List Stmt) (s : σ) (k t : String) (hc : atom s c = some false)
    (h : (step s k t).isSome = true) :
    (runStrictRet atom step (([(true, c)], k, t) :: rest) s).map f = (runStrictRet atom step rest s).map f := by
  rw [run_gskip atom step c rest s k t hc h]

theorem run_nil_m (s : σ) : (runStrictRet atom step [] s).map f = (some (some s)).map f := rfl
end mapped
end runner

section pick
variable {β γ δ : Type} [LT γ] [DecidableLT γ]

theorem pfm_map (g : δ → β) (key : β → γ) (l : List δ) :
    pickFirstMin key (l.map g) = (pickFirstMin (fun c => key (g c)) l).map g := by
  unfold pickFirstMin
  rw [List.foldl_map]
  suffices h : ∀ acc : Option δ,
      List.foldl (fun best c => match best with
        | none => some (g c)
        | some b => if key (g c) < key b then some (g c) else some b) (acc.map g) l =
      (List.foldl (fun best c => match best with
        | none => some c
        | some b => if key (g c) < key (g b) then some c else some b) acc l).map g from h none
  induction l with
  | nil => intro acc; rfl
  | cons c cs ih =>
    intro acc
    simp only [List.foldl_cons]
    cases acc with
    | none => exact ih (some c)
    | some b =>
      simp only [Option.map_some]
      by_cases hlt : key (g c) < key (g b)
      · simp only [hlt, if_true]; exact ih (some c)
      · simp only [hlt, if_false]; exact ih (some b)

theorem pfm_mem_aux (key : β → γ) (l : List β) (b : β) : ∀ (acc : Option β), List.foldl (fun best c => match best with
        | none => some c
        | some b => if key c < key b then some c else some b) acc l = some b → b ∈ l ∨ acc = some b := by
  induction l with
  | nil => intro acc hb; exact Or.inr hb
  | cons c cs ih =>
    intro acc hb
    simp only [List.foldl_cons] at hb
    cases acc with
    | none =>
      rcases ih _ hb with h1 | h1
      · exact Or.inl (List.mem_cons_of_mem _ h1)
      · simp only [Option.some.injEq] at h1; subst h1; exact Or.inl (by simp)
    | some a =>
      by_cases hlt : key c < key a
      · simp only [hlt, if_true] at hb
        rcases ih _ hb with h1 | h1
        · exact Or.inl (List.mem_cons_of_mem _ h1)
        · simp only [Option.some.injEq] at h1; subst h1; exact Or.inl (by simp)
      · simp only [hlt, if_false] at hb
        rcases ih _ hb with h1 | h1
        · exact Or.inl (List.mem_cons_of_mem _ h1)
        · exact Or.inr h1

theorem pfm_mem (key : β → γ) (l : List β) (b : β) (h : pickFirstMin key l = some b) : b ∈ l := by
  rcases pfm_mem_aux key l b none h with h1 | h1
  · exact h1
  · cases h1

theorem argminFirst_eq {α : Type} [LT α] [DecidableLT α] (l : List ((Int × Int) × α)) :
    argminFirst l = pickFirstMin (fun e => e.2) l := by
  unfold argminFirst pickFirstMin
  congr 1
  funext best c
  cases best <;> rfl

/-- the masked `argmin` picks the cell that "filter the unmasked cells, then take the first minimum" picks; the first
cell when all are masked -/
theorem maArgmin_spec (c0 : β) (C' : List β) (D : β → γ) (Mk : β → Bool) :
    (c0 :: C')[maArgmin ((c0 :: C').map D) ((c0 :: C').map Mk)]? =
      some (((pickFirstMin (fun e : β × γ => e.2) (((c0 :: C').filter (fun c => !Mk c)).map (fun c => (c, D c)))).map
        (fun e => e.1)).getD c0) := by
  generalize hC : c0 :: C' = C
  have hz : ((C.map D).zip (C.map Mk)).zipIdx = C.zipIdx.map (fun e => ((D e.1, Mk e.1), e.2)) := by
    rw [List.zip_map', List.zipIdx_map]; rfl
  have hf : (C.filter (fun c => !Mk c)) = (C.zipIdx.filter (fun e => !Mk e.1)).map (fun e => e.1) := by
    conv => lhs; rw [← List.zipIdx_map_fst 0 C]
    rw [List.filter_map]; rfl
  unfold maArgmin
  rw [hz, List.filter_map, pfm_map, hf, List.map_map, pfm_map, Option.map_map]
  simp only [Function.comp_def]
  cases hr : pickFirstMin (fun c : β × Nat => D c.1) (C.zipIdx.filter (fun e => !Mk e.1)) with
  | none => simp [← hC]
  | some e =>
    have hm := pfm_mem _ _ _ hr
    rw [List.mem_filter] at hm
    have := List.mem_zipIdx_iff_getElem?.mp hm.1
    simpa using this

end pick

section nb
variable {α : Type} [Add α] [Sub α] [Mul α] [LT α] [DecidableLT α] [HasRound α] [HasTrunc α] [HasOfInt α]

theorem clamp_minmax (n : Nat) (a : Int) : min ((n : Int) - 1) (max 0 a) = clampI n a := by
  unfold clampI; omega

set_option maxRecDepth 100000 in
theorem is_close_to_land (M : Mask) (i j : α) :
    isCloseToLandSeq M i j =
      some (some (isCloseToLand ⟨M.rows, M.cols, fun b a => !M.val b a⟩ (trunc (round i)) (trunc (round j)))) := by
  unfold isCloseToLandSeq Gen.is_close_to_land_seq
  rw [run_assign _ _ _ _ _ _ rfl, run_assign _ _ _ _ _ _ rfl, run_assign _ _ _ _ _ _ rfl, run_assign _ _ _ _ _ _ rfl,
    run_assign _ _ _ _ _ _ rfl, run_assign _ _ _ _ _ _ rfl, run_assign _ _ _ _ _ _ rfl, run_assign _ _ _ _ _ _ rfl,
    run_return _ _ _ _ _ _ rfl]
  simp only [returned, Option.map_some, isCloseToLand, stencil8, CloseSt.init, List.map_cons, List.map_nil, List.zipWith,
    clamp_minmax, List.any_cons, List.any_nil, id]

set_option maxRecDepth 100000 in
theorem nearest_tail (s : NearSt α) (c0 : Int × Int) (C' : List (Int × Int)) (D : Int × Int → α) (Mk : Int × Int → Bool)
    (hi : s.iNeigh = (c0 :: C').map (·.1)) (hj : s.jNeigh = (c0 :: C').map (·.2))
    (hd : s.dist2 = (c0 :: C').map D) (hm : s.masked = (c0 :: C').map Mk) :
    returned (fun s => s.ret) (runStrictRet noAtom nearStep (Gen.nearest_unmasked_seq.drop 8) s) =
      some (some (((argminFirst (((c0 :: C').filter (fun c => !Mk c)).map (fun c => (c, D c)))).map (fun e => e.1)).getD c0)) := by
  have key := maArgmin_spec c0 C' D Mk
  rw [← argminFirst_eq] at key
  have h1 : s.iNeigh[maArgmin s.dist2 s.masked]? = some (((argminFirst (((c0 :: C').filter (fun c => !Mk c)).map (fun c => (c, D c)))).map (fun e => e.1)).getD c0).1 := by
    rw [hi, hd, hm, List.getElem?_map, key]; rfl
  have h2 : s.jNeigh[maArgmin s.dist2 s.masked]? = some (((argminFirst (((c0 :: C').filter (fun c => !Mk c)).map (fun c => (c, D c)))).map (fun e => e.1)).getD c0).2 := by
    rw [hj, hd, hm, List.getElem?_map, key]; rfl
  have e : Gen.nearest_unmasked_seq.drop 8 = [
      ([], "assign", "idx = dist2_mask.argmin(axis=0)"),
      ([], "assign", "i_close = i_neigh[idx, np.arange(len(idx))]"),
      ([], "assign", "j_close = j_neigh[idx, np.arange(len(idx))]"),
      ([], "return", "(i_close, j_close)")] := rfl
  rw [e]
  rw [run_assign _ _ _ _ _ _ rfl]
  rw [run_assign noAtom nearStep _ _ _ _ (by show some (Option.map _ _) = _; rw [h1]; rfl)]
  rw [run_assign noAtom nearStep _ _ _ _ (by show some (Option.map _ _) = _; rw [h2]; rfl)]
  rw [run_return _ _ _ _ _ _ rfl]
  rfl

set_option maxRecDepth 100000 in
theorem nearest_unmasked (M : Mask) (i j : α) :
    nearestUnmaskedSeq M i j =
      some (some ((nearestUnmasked M i j (trunc (round i)) (trunc (round j))).getD
        (clampI M.cols (trunc (round i)), clampI M.rows (trunc (round j))))) := by
  unfold nearestUnmaskedSeq
  have hrun : runStrictRet noAtom nearStep Gen.nearest_unmasked_seq (NearSt.init M i j) =
      runStrictRet noAtom nearStep (Gen.nearest_unmasked_seq.drop 8)
        { NearSt.init M i j with
          iCenter := trunc (round i), jCenter := trunc (round j),
          iRaw := ([0, 1, 1, 0, -1, -1, -1, 0, 1] : List Int).map (fun d => trunc (round i) + d),
          jRaw := ([0, 0, 1, 1, 1, 0, -1, -1, -1] : List Int).map (fun d => trunc (round j) + d),
          iNeigh := (stencil9.map (fun d => (clampI M.cols (trunc (round i) + d.1), clampI M.rows (trunc (round j) + d.2)))).map (·.1),
          jNeigh := (stencil9.map (fun d => (clampI M.cols (trunc (round i) + d.1), clampI M.rows (trunc (round j) + d.2)))).map (·.2),
          dist2 := (stencil9.map (fun d => (clampI M.cols (trunc (round i) + d.1), clampI M.rows (trunc (round j) + d.2)))).map (fun c => dist2 i j c.1 c.2),
          masked := (stencil9.map (fun d => (clampI M.cols (trunc (round i) + d.1), clampI M.rows (trunc (round j) + d.2)))).map (fun c => M.val c.2 c.1) } := by
    conv => lhs; unfold Gen.nearest_unmasked_seq
    rw [run_assign _ _ _ _ _ _ rfl, run_assign _ _ _ _ _ _ rfl, run_assign _ _ _ _ _ _ rfl, run_assign _ _ _ _ _ _ rfl,
      run_assign _ _ _ _ _ _ rfl, run_assign _ _ _ _ _ _ rfl, run_assign _ _ _ _ _ _ rfl, run_assign _ _ _ _ _ _ rfl]
    rfl
  rw [hrun]
  rw [nearest_tail _ (clampI M.cols (trunc (round i) + 0), clampI M.rows (trunc (round j) + 0))
    (stencil9.tail.map (fun d => (clampI M.cols (trunc (round i) + d.1), clampI M.rows (trunc (round j) + d.2))))
    (fun c => dist2 i j c.1 c.2) (fun c => M.val c.2 c.1) rfl rfl rfl rfl]
  unfold nearestUnmasked stencil9
  simp only [List.map_cons, List.tail_cons, Int.add_zero]

end nb
section uniq

theorem mem_insertUniq (v x : Nat) (l : List Nat) : x ∈ insertUniq v l ↔ x = v ∨ x ∈ l := by
  induction l with
  | nil => simp [insertUniq]
  | cons w ws ih =>
    unfold insertUniq
    by_cases h1 : v < w
    · simp [h1]
    · by_cases h2 : v = w
      · subst h2; simp
      · simp only [h1, h2, if_false, List.mem_cons, ih]
        constructor
        · rintro (h | h | h)
          · exact Or.inr (Or.inl h)
          · exact Or.inl h
          · exact Or.inr (Or.inr h)
        · rintro (h | h | h)
          · exact Or.inr (Or.inl h)
          · exact Or.inl h
          · exact Or.inr (Or.inr h)

theorem pairwise_insertUniq (v : Nat) (l : List Nat) (h : l.Pairwise (· < ·)) : (insertUniq v l).Pairwise (· < ·) := by
  induction l with
  | nil => simp [insertUniq]
  | cons w ws ih =>
    rw [List.pairwise_cons] at h
    unfold insertUniq
    by_cases h1 : v < w
    · simp only [h1, if_true, List.pairwise_cons]
      refine ⟨?_, h.1, h.2⟩
      intro x hx
      rcases List.mem_cons.mp hx with rfl | hx
      · exact h1
      · exact Nat.lt_trans h1 (h.1 x hx)
    · by_cases h2 : v = w
      · subst h2; simp only [Nat.lt_irrefl, if_false, if_true, List.pairwise_cons]; exact h
      · simp only [h1, h2, if_false, List.pairwise_cons]
        refine ⟨?_, ih h.2⟩
        intro x hx
        rcases (mem_insertUniq v x ws).mp hx with rfl | hx
        · omega
        · exact h.1 x hx

theorem mem_sortUniq (x : Nat) (l : List Nat) : x ∈ sortUniq l ↔ x ∈ l := by
  unfold sortUniq
  induction l with
  | nil => simp
  | cons a as ih => simp only [List.foldr_cons, mem_insertUniq, ih, List.mem_cons]

theorem pairwise_sortUniq (l : List Nat) : (sortUniq l).Pairwise (· < ·) := by
  unfold sortUniq
  induction l with
  | nil => simp
  | cons a as ih => exact pairwise_insertUniq a _ ih

end uniq

section lists
variable {β γ δ : Type}

theorem mapOpt_eq_some (f : β → Option γ) (g : β → γ) (l : List β) (h : ∀ b ∈ l, f b = some (g b)) :
    mapOpt f l = some (l.map g) := by
  induction l with
  | nil => rfl
  | cons b bs ih =>
    have h1 := h b (by simp)
    have h2 := ih (fun c hc => h c (List.mem_cons_of_mem _ hc))
    simp [mapOpt, h1, h2]

theorem idxOf_getElem_nodup (l : List Nat) (hn : l.Nodup) (j : Nat) (hj : j < l.length) : l.idxOf l[j] = j := by
  induction l generalizing j with
  | nil => simp at hj
  | cons a as ih =>
    rw [List.nodup_cons] at hn
    cases j with
    | zero => simp
    | succ j =>
      simp only [List.getElem_cons_succ, List.idxOf_cons]
      have hj' : j < as.length := by simpa using hj
      have hne : (a == as[j]) = false := by
        rw [beq_eq_false_iff_ne]; intro he; apply hn.1; rw [he]; exact List.getElem_mem hj'
      simp [hne, ih hn.2 j hj']

theorem maskSelect_map (f : β → γ) (dec : β → Bool) (V : List β) :
    maskSelect (V.map f) (V.map dec) = some ((V.filter dec).map f) := by
  unfold maskSelect
  simp only [List.length_map, if_true, Option.some.injEq]
  induction V with
  | nil => rfl
  | cons v vs ih =>
    simp only [List.map_cons, List.zip_cons_cons, List.filter_cons]
    cases dec v <;> simp [ih]

theorem count_map_true (dec : β → Bool) (V : List β) : (V.map dec).count true = (V.filter dec).length := by
  induction V with
  | nil => rfl
  | cons v vs ih =>
    simp only [List.map_cons, List.filter_cons, List.count_cons]
    cases dec v <;> simp [ih]

theorem scatter_spec (idx : List Nat) : ∀ (xs vals : List β), idx.Nodup → idx.length = vals.length →
    (∀ i ∈ idx, i < xs.length) →
    ∃ r, scatter xs idx vals = some r ∧ ∀ j, r[j]? = if j ∈ idx then vals[idx.idxOf j]? else xs[j]? := by
  induction idx with
  | nil =>
    intro xs vals _ hl _
    cases vals with
    | nil => exact ⟨xs, rfl, by simp⟩
    | cons => simp at hl
  | cons i is ih =>
    intro xs vals hn hl hb
    cases vals with
    | nil => simp at hl
    | cons v vs =>
      rw [List.nodup_cons] at hn
      have hi : i < xs.length := hb i (by simp)
      obtain ⟨r, hr, hrj⟩ := ih (xs.set i v) vs hn.2 (by simpa using hl)
        (fun k hk => by rw [List.length_set]; exact hb k (List.mem_cons_of_mem _ hk))
      refine ⟨r, by simp [scatter, hi, hr], ?_⟩
      intro j
      rw [hrj j]
      by_cases hji : j = i
      · subst hji
        simp [hn.1, List.getElem?_set, hi]
      · have hij : i ≠ j := fun h => hji h.symm
        have hb' : (i == j) = false := by rw [beq_eq_false_iff_ne]; exact hij
        by_cases hjs : j ∈ is
        · simp [hjs, List.idxOf_cons, hb']
        · simp [hjs, hji, List.getElem?_set, hij]


theorem gather_eq (xs : List β) (d : β) (idx : List Nat) (h : ∀ i ∈ idx, i < xs.length) :
    gather xs idx = some (idx.map (fun i => xs[i]?.getD d)) := by
  unfold gather
  apply mapOpt_eq_some
  intro i hi
  rw [List.getElem?_eq_getElem (h i hi)]; rfl

theorem idxOf_map_inj (f : Nat → Nat) (v : Nat) (L : List Nat) (h : ∀ w ∈ L, f w = f v → w = v) :
    (L.map f).idxOf (f v) = L.idxOf v := by
  induction L with
  | nil => rfl
  | cons w ws ih =>
    simp only [List.map_cons, List.idxOf_cons]
    by_cases hw : w = v
    · subst hw; simp
    · have h1 : (w == v) = false := by rw [beq_eq_false_iff_ne]; exact hw
      have h2 : (f w == f v) = false := by
        rw [beq_eq_false_iff_ne]; intro he; exact hw (h w (by simp) he)
      simp [h1, h2, ih (fun x hx => h x (List.mem_cons_of_mem _ hx))]

end lists

section memory
variable {α : Type} [LT α] [DecidableLT α]

theorem lookup_eq (mem : List (Rec α)) (v : Nat) : lookup mem v = mem[(mem.map (·.pid)).idxOf v]? := by
  unfold lookup
  induction mem with
  | nil => rfl
  | cons o os ih =>
    simp only [List.map_cons, List.idxOf_cons, List.find?_cons]
    by_cases h : o.pid = v
    · simp [h]
    · have : (o.pid == v) = false := by rw [beq_eq_false_iff_ne]; exact h
      simp [this, ih]

theorem lookup_some_of_mem (mem : List (Rec α)) (v : Nat) (h : v ∈ mem.map (·.pid)) :
    ∃ o, lookup mem v = some o ∧ o.pid = v := by
  cases hl : lookup mem v with
  | none =>
    exfalso
    unfold lookup at hl
    rw [List.find?_eq_none] at hl
    obtain ⟨o, ho, hov⟩ := List.mem_map.mp h
    exact hl o ho (by simpa using hov)
  | some o =>
    refine ⟨o, rfl, ?_⟩
    unfold lookup at hl
    simpa using List.find?_some hl

/-- the decision on the pid `v`: the current record with that pid has not moved (and passes the extra test) -/
def decV (mem cur : List (Rec α)) (ex : Nat → Bool) (v : Nat) : Bool :=
  match lookup cur v with
  | some r => stuck mem r && ex v
  | none => false

theorem mem_common (A B : List Nat) (v : Nat) : v ∈ sortUniq (A.filter (fun w => B.contains w)) ↔ v ∈ A ∧ v ∈ B := by
  rw [mem_sortUniq, List.mem_filter]; simp

theorem onland_eq (mem cur : List (Rec α)) (extra : Nat → Option Bool) (ex : Nat → Bool)
    (hex : ∀ v ∈ cur.map (·.pid), extra ((cur.map (·.pid)).idxOf v) = some (ex v)) :
    mapOpt (onlandAt (mem.map (·.x)) (mem.map (·.y)) (cur.map (·.x)) (cur.map (·.y)) extra)
        (intersect1d (mem.map (·.pid)) (cur.map (·.pid))) =
      some ((sortUniq ((mem.map (·.pid)).filter (fun w => (cur.map (·.pid)).contains w))).map (decV mem cur ex)) := by
  unfold intersect1d
  rw [mapOpt_eq_some _ (fun e => decV mem cur ex e.1), List.map_map]
  · rfl
  · intro e he
    obtain ⟨v, hv, rfl⟩ := List.mem_map.mp he
    rw [mem_common] at hv
    obtain ⟨o, ho, hov⟩ := lookup_some_of_mem mem v hv.1
    obtain ⟨r, hr, hrv⟩ := lookup_some_of_mem cur v hv.2
    have ho' := ho; have hr' := hr
    rw [lookup_eq] at ho' hr'
    simp only [onlandAt, List.getElem?_map, ho', hr', hex v hv.2, Option.map_some, decV, hr, stuck, hrv, ho]

end memory

section reseed
variable {α : Type} [Add α] [Sub α] [OfScientific α] [HasRound α]
open Chemicals

theorem reseedAt_eq (xs : List α) (idx : List Nat) (u : Nat → α) (used : Nat) (h : ∀ i ∈ idx, i < xs.length) :
    reseedAt xs idx u used idx.length =
      some (List.zipWith reseed (idx.map (fun i => xs[i]?.getD 0.0)) (randN u used idx.length)) := by
  unfold reseedAt
  rw [gather_eq xs 0.0 idx h]
  simp [zipSame, randN]

theorem idxOf_pid (cur : List (Rec α)) (hn : (cur.map (·.pid)).Nodup) (j : Nat) (hj : j < cur.length) :
    (cur.map (·.pid)).idxOf cur[j].pid = j := by
  have := idxOf_getElem_nodup (cur.map (·.pid)) hn j (by simpa using hj)
  simpa using this

theorem idxOf_pid_lt (cur : List (Rec α)) (v : Nat) (hv : v ∈ cur.map (·.pid)) :
    (cur.map (·.pid)).idxOf v < cur.length := by
  have := (List.idxOf_lt_length_iff (l := cur.map (·.pid)) (a := v)).mpr hv
  simpa using this

theorem pid_idxOf (cur : List (Rec α)) (v : Nat) (hv : v ∈ cur.map (·.pid)) :
    (cur[(cur.map (·.pid)).idxOf v]'(idxOf_pid_lt cur v hv)).pid = v := by
  have h := (List.idxOf_lt_length_iff (l := cur.map (·.pid)) (a := v)).mpr hv
  have := List.getElem_idxOf h
  rw [List.getElem_map] at this
  exact this

theorem reseed_scatter (cur : List (Rec α)) (hn : (cur.map (·.pid)).Nodup) (L : List Nat) (hL : L.Nodup)
    (hLB : ∀ v ∈ L, v ∈ cur.map (·.pid)) (fld : Rec α → α) (u : Nat → α) (used : Nat) :
    scatter (cur.map fld) (L.map (fun v => (cur.map (·.pid)).idxOf v))
        (List.zipWith reseed ((L.map (fun v => (cur.map (·.pid)).idxOf v)).map (fun i => (cur.map fld)[i]?.getD 0.0))
          (randN u used L.length)) =
      some (cur.map (fun r => if r.pid ∈ L then reseed (fld r) (u (used + L.idxOf r.pid)) else fld r)) := by
  have hinj : ∀ v ∈ L, ∀ w ∈ L, (cur.map (·.pid)).idxOf v = (cur.map (·.pid)).idxOf w → v = w := by
    intro v hv w hw he
    have h1 := pid_idxOf cur v (hLB v hv)
    have h2 := pid_idxOf cur w (hLB w hw)
    rw [← h1, ← h2]
    simp only [he]
  obtain ⟨r, hr, hrj⟩ := scatter_spec (L.map (fun v => (cur.map (·.pid)).idxOf v)) (cur.map fld)
    (List.zipWith reseed ((L.map (fun v => (cur.map (·.pid)).idxOf v)).map (fun i => (cur.map fld)[i]?.getD 0.0))
          (randN u used L.length))
    (by
      rw [List.Nodup, List.pairwise_map]
      exact List.Pairwise.imp_of_mem (fun ha hb hab he => hab (hinj _ ha _ hb he)) hL)
    (by simp [randN])
    (by
      intro i hi
      obtain ⟨v, hv, rfl⟩ := List.mem_map.mp hi
      simpa using idxOf_pid_lt cur v (hLB v hv))
  rw [hr]
  congr 1
  apply List.ext_getElem?
  intro j
  have rhs : (cur.map (fun r => if r.pid ∈ L then reseed (fld r) (u (used + L.idxOf r.pid)) else fld r))[j]? =
      cur[j]?.map (fun r => if r.pid ∈ L then reseed (fld r) (u (used + L.idxOf r.pid)) else fld r) := List.getElem?_map
  rw [rhs, hrj j]
  by_cases hj : j < cur.length
  · have hpid := idxOf_pid cur hn j hj
    rw [List.getElem?_eq_getElem hj, Option.map_some]
    have hmem : j ∈ L.map (fun v => (cur.map (·.pid)).idxOf v) ↔ cur[j].pid ∈ L := by
      constructor
      · intro h
        obtain ⟨w, hw, hwj⟩ := List.mem_map.mp h
        have := pid_idxOf cur w (hLB w hw)
        simp only [hwj] at this
        rw [this]; exact hw
      · intro h
        exact List.mem_map.mpr ⟨_, h, hpid⟩
    by_cases hin : cur[j].pid ∈ L
    · rw [if_pos (hmem.mpr hin), if_pos hin]
      have hk : (L.map (fun v => (cur.map (·.pid)).idxOf v)).idxOf j = L.idxOf cur[j].pid := by
        have h := idxOf_map_inj (fun v => (cur.map (·.pid)).idxOf v) cur[j].pid L
          (fun w hw he => hinj w hw _ hin he)
        simp only [hpid] at h
        exact h
      rw [hk]
      have hlt : L.idxOf cur[j].pid < L.length := List.idxOf_lt_length_iff.mpr hin
      have hLk : L[L.idxOf cur[j].pid] = cur[j].pid := List.getElem_idxOf hlt
      simp only [List.getElem?_zipWith, List.getElem?_map, List.getElem?_eq_getElem hlt, Option.map_some, hLk, hpid,
        List.getElem?_eq_getElem hj, Option.getD_some, randN, List.getElem?_range hlt]
    · rw [if_neg (fun h => hin (hmem.mp h)), if_neg hin, List.getElem?_map, List.getElem?_eq_getElem hj, Option.map_some]
  · have hj' : cur.length ≤ j := Nat.le_of_not_lt hj
    rw [List.getElem?_eq_none hj', Option.map_none, if_neg]
    · rw [List.getElem?_eq_none (by simpa using hj')]
    · intro h
      obtain ⟨w, hw, hwj⟩ := List.mem_map.mp h
      have := idxOf_pid_lt cur w (hLB w hw)
      omega

end reseed


section runs
variable {α : Type} [Add α] [Sub α] [LT α] [DecidableLT α] [OfScientific α] [HasRound α]
open Chemicals

theorem reseedAt_L (cur : List (Rec α)) (L : List Nat) (hLB : ∀ v ∈ L, v ∈ cur.map (·.pid)) (fld : Rec α → α)
    (u : Nat → α) (used n : Nat) (hn : n = L.length) :
    reseedAt (cur.map fld) (L.map (fun v => (cur.map (·.pid)).idxOf v)) u used n =
      some (List.zipWith reseed ((L.map (fun v => (cur.map (·.pid)).idxOf v)).map (fun i => (cur.map fld)[i]?.getD 0.0))
          (randN u used L.length)) := by
  subst hn
  have := reseedAt_eq (cur.map fld) (L.map (fun v => (cur.map (·.pid)).idxOf v)) u used (by
    intro i hi
    obtain ⟨v, hv, rfl⟩ := List.mem_map.mp hi
    simpa using idxOf_pid_lt cur v (hLB v hv))
  simpa using this

/-- the pids of the particles that `reposition` moves, in increasing order -/
def onlandPids (mem cur : List (Rec α)) (ex : Nat → Bool) : List Nat :=
  (sortUniq ((mem.map (·.pid)).filter (fun w => (cur.map (·.pid)).contains w))).filter (decV mem cur ex)

theorem onlandPids_sub (mem cur : List (Rec α)) (ex : Nat → Bool) :
    ∀ v ∈ onlandPids mem cur ex, v ∈ cur.map (·.pid) := by
  intro v hv
  unfold onlandPids at hv
  rw [List.mem_filter, mem_common] at hv
  exact hv.1.2

theorem onlandPids_sorted (mem cur : List (Rec α)) (ex : Nat → Bool) : (onlandPids mem cur ex).Pairwise (· < ·) :=
  List.Pairwise.filter _ (pairwise_sortUniq _)

theorem onlandPids_nodup (mem cur : List (Rec α)) (ex : Nat → Bool) : (onlandPids mem cur ex).Nodup :=
  (onlandPids_sorted mem cur ex).imp (fun h => Nat.ne_of_lt h)

set_option maxRecDepth 100000 in
theorem chem_reposition_run (mem cur : List (Rec α)) (u : Nat → α) (hn : (cur.map (·.pid)).Nodup) :
    chemRepositionSeq mem cur u = some (some (
      cur.map (fun r => if r.pid ∈ onlandPids mem cur (fun _ => true)
        then reseed r.x (u (0 + (onlandPids mem cur (fun _ => true)).idxOf r.pid)) else r.x),
      cur.map (fun r => if r.pid ∈ onlandPids mem cur (fun _ => true)
        then reseed r.y (u (0 + (onlandPids mem cur (fun _ => true)).length + (onlandPids mem cur (fun _ => true)).idxOf r.pid)) else r.y))) := by
  have hOn := onland_eq mem cur (fun _ => some true) (fun _ => true) (fun _ _ => rfl)
  have hSel : maskSelect ((intersect1d (mem.map (·.pid)) (cur.map (·.pid))).map (fun e => e.2.2))
      ((sortUniq ((mem.map (·.pid)).filter (fun w => (cur.map (·.pid)).contains w))).map (decV mem cur (fun _ => true))) =
      some ((onlandPids mem cur (fun _ => true)).map (fun v => (cur.map (·.pid)).idxOf v)) := by
    unfold intersect1d
    rw [List.map_map]
    exact maskSelect_map _ _ _
  have hcnt : ((sortUniq ((mem.map (·.pid)).filter (fun w => (cur.map (·.pid)).contains w))).map
      (decV mem cur (fun _ => true))).count true = (onlandPids mem cur (fun _ => true)).length := count_map_true _ _
  have hX := reseedAt_L cur _ (onlandPids_sub mem cur (fun _ => true)) (·.x) u 0 _ hcnt
  have hY := reseedAt_L cur _ (onlandPids_sub mem cur (fun _ => true)) (·.y) u
    (0 + ((sortUniq ((mem.map (·.pid)).filter (fun w => (cur.map (·.pid)).contains w))).map
      (decV mem cur (fun _ => true))).count true) _ hcnt
  have hSX := reseed_scatter cur hn _ (onlandPids_nodup mem cur (fun _ => true)) (onlandPids_sub mem cur (fun _ => true))
    (·.x) u 0
  have hSY := reseed_scatter cur hn _ (onlandPids_nodup mem cur (fun _ => true)) (onlandPids_sub mem cur (fun _ => true))
    (·.y) u (0 + ((sortUniq ((mem.map (·.pid)).filter (fun w => (cur.map (·.pid)).contains w))).map
      (decV mem cur (fun _ => true))).count true)
  unfold chemRepositionSeq Gen.chem_reposition_seq
  refine (run_assign_m _ _ _ _ _ _ _ rfl).trans ?_
  refine (run_assign_map_m _ _ _ _ _ _ _ _ _ rfl hOn).trans ?_
  refine (run_assign_m _ _ _ _ _ _ _ rfl).trans ?_
  refine (run_assign_map_m _ _ _ _ _ _ _ _ _ rfl hSel).trans ?_
  refine (run_assign_map_m _ _ _ _ _ _ _ _ _ rfl hX).trans ?_
  refine (run_assign_map_m _ _ _ _ _ _ _ _ _ rfl hY).trans ?_
  refine (run_assign_map_m _ _ _ _ _ _ _ _ _ rfl hSX).trans ?_
  refine (run_assign_map_m _ _ _ _ _ _ _ _ _ rfl hSY).trans ?_
  refine (run_nil_m _ _ _ _).trans ?_
  simp only [Option.map_some, hcnt]

theorem lookup_of_mem_nodup (cur : List (Rec α)) (hn : (cur.map (·.pid)).Nodup) (r : Rec α) (hr : r ∈ cur) :
    lookup cur r.pid = some r := by
  obtain ⟨j, hj⟩ := List.mem_iff_getElem?.mp hr
  have hlt : j < cur.length := by
    rcases Nat.lt_or_ge j cur.length with h | h
    · exact h
    · rw [List.getElem?_eq_none h] at hj; cases hj
  rw [List.getElem?_eq_getElem hlt] at hj
  have hj' : cur[j] = r := by simpa using hj
  rw [lookup_eq, ← hj', idxOf_pid cur hn j hlt, List.getElem?_eq_getElem hlt]

theorem stuck_pid_mem (mem : List (Rec α)) (r : Rec α) (h : stuck mem r = true) : r.pid ∈ mem.map (·.pid) := by
  unfold stuck at h
  cases hl : lookup mem r.pid with
  | none => rw [hl] at h; cases h
  | some o =>
    unfold lookup at hl
    have h1 := List.mem_of_find?_eq_some hl
    have h2 := List.find?_some hl
    exact List.mem_map.mpr ⟨o, h1, by simpa using h2⟩

theorem mem_onlandPids (mem cur : List (Rec α)) (ex : Nat → Bool) (hn : (cur.map (·.pid)).Nodup) (r : Rec α)
    (hr : r ∈ cur) : r.pid ∈ onlandPids mem cur ex ↔ (stuck mem r && ex r.pid) = true := by
  unfold onlandPids
  rw [List.mem_filter, mem_common]
  have hd : decV mem cur ex r.pid = (stuck mem r && ex r.pid) := by
    unfold decV; rw [lookup_of_mem_nodup cur hn r hr]
  rw [hd]
  constructor
  · exact fun h => h.2
  · intro h
    refine ⟨⟨stuck_pid_mem mem r ?_, List.mem_map.mpr ⟨r, hr, rfl⟩⟩, h⟩
    rw [Bool.and_eq_true] at h; exact h.1

theorem onlandPids_spec (mem cur : List (Rec α)) (ex : Nat → Bool) (hn : (cur.map (·.pid)).Nodup) (p : Nat) :
    p ∈ onlandPids mem cur ex ↔ ∃ r ∈ cur, r.pid = p ∧ (stuck mem r && ex p) = true := by
  constructor
  · intro h
    obtain ⟨r, hr, hrp⟩ := List.mem_map.mp (onlandPids_sub mem cur ex p h)
    subst hrp
    exact ⟨r, hr, rfl, (mem_onlandPids mem cur ex hn r hr).mp h⟩
  · rintro ⟨r, hr, rfl, h⟩
    exact (mem_onlandPids mem cur ex hn r hr).mpr h

/-- the test `np.bool_(a[pidx_new])` of mine, as a function of the pid -/
def actOf (cur : List (Rec α)) (act : List Nat) (v : Nat) : Bool := (act[(cur.map (·.pid)).idxOf v]?.getD 0) != 0

set_option maxRecDepth 100000 in
theorem mine_reposition_run (mem cur : List (Rec α)) (act : List Nat) (u : Nat → α) (hn : (cur.map (·.pid)).Nodup)
    (ha : act.length = cur.length) :
    mineRepositionSeq true mem cur act u = some (some (
      let L := onlandPids mem cur (actOf cur act)
      let X := cur.map (fun r => if r.pid ∈ L then reseed r.x (u (0 + L.idxOf r.pid)) else r.x)
      let Y := cur.map (fun r => if r.pid ∈ L then reseed r.y (u (0 + L.length + L.idxOf r.pid)) else r.y)
      ⟨X, Y, cur.map (·.pid), X, Y, some .snapshot⟩)) := by
  have hOn := onland_eq mem cur (fun j => act[j]?.map (fun v => v != 0)) (actOf cur act) (by
    intro v hv
    have := idxOf_pid_lt cur v hv
    unfold actOf
    rw [List.getElem?_eq_getElem (by omega)]; rfl)
  have hSel : maskSelect ((intersect1d (mem.map (·.pid)) (cur.map (·.pid))).map (fun e => e.2.2))
      ((sortUniq ((mem.map (·.pid)).filter (fun w => (cur.map (·.pid)).contains w))).map (decV mem cur (actOf cur act))) =
      some ((onlandPids mem cur (actOf cur act)).map (fun v => (cur.map (·.pid)).idxOf v)) := by
    unfold intersect1d
    rw [List.map_map]
    exact maskSelect_map _ _ _
  have hcnt : ((sortUniq ((mem.map (·.pid)).filter (fun w => (cur.map (·.pid)).contains w))).map
      (decV mem cur (actOf cur act))).count true = (onlandPids mem cur (actOf cur act)).length := count_map_true _ _
  have hX := reseedAt_L cur _ (onlandPids_sub mem cur (actOf cur act)) (·.x) u 0 _ hcnt
  have hY := reseedAt_L cur _ (onlandPids_sub mem cur (actOf cur act)) (·.y) u
    (0 + ((sortUniq ((mem.map (·.pid)).filter (fun w => (cur.map (·.pid)).contains w))).map
      (decV mem cur (actOf cur act))).count true) _ hcnt
  have hSX := reseed_scatter cur hn _ (onlandPids_nodup mem cur (actOf cur act)) (onlandPids_sub mem cur (actOf cur act))
    (·.x) u 0
  have hSY := reseed_scatter cur hn _ (onlandPids_nodup mem cur (actOf cur act)) (onlandPids_sub mem cur (actOf cur act))
    (·.y) u (0 + ((sortUniq ((mem.map (·.pid)).filter (fun w => (cur.map (·.pid)).contains w))).map
      (decV mem cur (actOf cur act))).count true)
  unfold mineRepositionSeq Gen.mine_reposition_seq
  refine (run_gassign_m _ _ _ _ _ _ _ _ rfl rfl).trans ?_
  refine (run_gassign_m _ _ _ _ _ _ _ _ rfl rfl).trans ?_
  refine (run_gassign_m _ _ _ _ _ _ _ _ rfl rfl).trans ?_
  refine (run_gassign_m _ _ _ _ _ _ _ _ rfl rfl).trans ?_
  refine (run_gassign_map_m _ _ _ _ _ _ _ _ _ _ rfl rfl hOn).trans ?_
  refine (run_gassign_m _ _ _ _ _ _ _ _ rfl rfl).trans ?_
  refine (run_gassign_map_m _ _ _ _ _ _ _ _ _ _ rfl rfl hSel).trans ?_
  refine (run_gassign_map_m _ _ _ _ _ _ _ _ _ _ rfl rfl hX).trans ?_
  refine (run_gassign_map_m _ _ _ _ _ _ _ _ _ _ rfl rfl hY).trans ?_
  refine (run_gassign_map_m _ _ _ _ _ _ _ _ _ _ rfl rfl hSX).trans ?_
  refine (run_gassign_map_m _ _ _ _ _ _ _ _ _ _ rfl rfl hSY).trans ?_
  refine (run_gassign_m _ _ _ _ _ _ _ _ rfl rfl).trans ?_
  refine (run_gassign_m _ _ _ _ _ _ _ _ rfl rfl).trans ?_
  refine (run_gassign_m _ _ _ _ _ _ _ _ rfl rfl).trans ?_
  refine (run_gassign_m _ _ _ _ _ _ _ _ rfl rfl).trans ?_
  refine (run_gassign_m _ _ _ _ _ _ _ _ rfl rfl).trans ?_
  refine (run_nil_m _ _ _ _).trans ?_
  simp only [Option.map_some, hcnt, RepSt.init]

set_option maxRecDepth 100000 in
theorem mine_reposition_off (mem cur : List (Rec α)) (act : List Nat) (u : Nat → α) :
    mineRepositionSeq false mem cur act u = some (some
      ⟨cur.map (·.x), cur.map (·.y), mem.map (·.pid), mem.map (·.x), mem.map (·.y), none⟩) := by
  unfold mineRepositionSeq Gen.mine_reposition_seq
  rw [run_gskip _ _ _ _ _ _ _ rfl rfl, run_gskip _ _ _ _ _ _ _ rfl rfl, run_gskip _ _ _ _ _ _ _ rfl rfl,
    run_gskip _ _ _ _ _ _ _ rfl rfl, run_gskip _ _ _ _ _ _ _ rfl rfl, run_gskip _ _ _ _ _ _ _ rfl rfl,
    run_gskip _ _ _ _ _ _ _ rfl rfl, run_gskip _ _ _ _ _ _ _ rfl rfl, run_gskip _ _ _ _ _ _ _ rfl rfl,
    run_gskip _ _ _ _ _ _ _ rfl rfl, run_gskip _ _ _ _ _ _ _ rfl rfl, run_gskip _ _ _ _ _ _ _ rfl rfl,
    run_gskip _ _ _ _ _ _ _ rfl rfl, run_gskip _ _ _ _ _ _ _ rfl rfl, run_gskip _ _ _ _ _ _ _ rfl rfl,
    run_gskip _ _ _ _ _ _ _ rfl rfl]
  rfl

theorem actOf_zip (cur : List (Rec α)) (act : List Nat) (hn : (cur.map (·.pid)).Nodup) (ra : Rec α × Nat)
    (h : ra ∈ cur.zip act) : actOf cur act ra.1.pid = (ra.2 != 0) := by
  obtain ⟨j, hj⟩ := List.mem_iff_getElem?.mp h
  rw [List.getElem?_zip_eq_some] at hj
  have hlt : j < cur.length := by
    rcases Nat.lt_or_ge j cur.length with h | h
    · exact h
    · rw [List.getElem?_eq_none h] at hj; cases hj.1
  have h1 := hj.1
  rw [List.getElem?_eq_getElem hlt] at h1
  have h1' : cur[j] = ra.1 := by simpa using h1
  unfold actOf
  rw [← h1', idxOf_pid cur hn j hlt, hj.2]; rfl

theorem recsOf_map (cur : List (Rec α)) : recsOf (cur.map (·.pid)) (cur.map (·.x)) (cur.map (·.y)) = cur := by
  unfold recsOf
  induction cur with
  | nil => rfl
  | cons r rs ih =>
    simp only [List.map_cons, List.zip_cons_cons, List.zipWith_cons_cons, ih]

end runs
end Bridge.MemSeq

/-! ## the theorems -/
namespace Bridge
open Bridge.MemSeq Chemicals

section reposition
variable {α : Type} [Add α] [Sub α] [LT α] [DecidableLT α] [OfScientific α] [HasRound α]

/-- **chemicals `IBM.reposition`** (`Gen.chem_reposition_seq`).  `mem` = the remembered records (`self.pid, self.x,
self.y`), `cur` = the current ones (`state.pid, X, Y`), `u` = the stream of `np.random.rand`.  Hypothesis: the current
pids are distinct.  Exactly the particles with `Memory.stuck mem r` (= `Memory.decides .snapshot mem _ r`: matched by
pid with the first remembered record of that pid, remembered x AND y equal to the current ones) are re-seeded with
`Chemicals.reseed` (`round(x) − 0.5 + rand`); the draws are handed out in the order of increasing pid (`L` = the stuck
pids in increasing order), the first `rand(num_onland)` call serves x, the second y. -/
theorem chem_reposition_seq (mem cur : List (Rec α)) (u : Nat → α) (hn : (cur.map (·.pid)).Nodup) :
    ∃ L : List Nat, L.Pairwise (· < ·) ∧ (∀ p, p ∈ L ↔ ∃ r ∈ cur, r.pid = p ∧ stuck mem r = true) ∧
      chemRepositionSeq mem cur u = some (some (
        cur.map (fun r => if stuck mem r then reseed r.x (u (L.idxOf r.pid)) else r.x),
        cur.map (fun r => if stuck mem r then reseed r.y (u (L.length + L.idxOf r.pid)) else r.y))) := by
  refine ⟨onlandPids mem cur (fun _ => true), onlandPids_sorted _ _ _, ?_, ?_⟩
  · intro p
    rw [onlandPids_spec mem cur _ hn p]
    simp only [Bool.and_true]
  · rw [chem_reposition_run mem cur u hn]
    have hm : ∀ r ∈ cur, (r.pid ∈ onlandPids mem cur (fun _ => true)) ↔ stuck mem r = true := by
      intro r hr
      rw [mem_onlandPids mem cur _ hn r hr]; simp only [Bool.and_true]
    congr 3
    · apply List.map_congr_left
      intro r hr
      simp only [hm r hr, Nat.zero_add]
    · apply List.map_congr_left
      intro r hr
      simp only [hm r hr, Nat.zero_add]

/-- **mine `IBM.reposition`** (`Gen.mine_reposition_seq`), `self.land_collision == 'reposition'`.  `act` = the value of
`self.active()`, one entry per current particle.  As for chemicals, and: the particle's CURRENT `active` value must be
non-zero; afterwards the handler remembers COPIES (`np.copy`, `MemKind.snapshot`) of the new `X`, `Y`, and the state's
pid array. -/
theorem mine_reposition_seq (mem cur : List (Rec α)) (act : List Nat) (u : Nat → α) (hn : (cur.map (·.pid)).Nodup)
    (ha : act.length = cur.length) :
    ∃ L : List Nat, L.Pairwise (· < ·) ∧
      (∀ p, p ∈ L ↔ ∃ ra ∈ cur.zip act, ra.1.pid = p ∧ (stuck mem ra.1 && ra.2 != 0) = true) ∧
      mineRepositionSeq true mem cur act u = some (some (
        let X := (cur.zip act).map (fun ra => if stuck mem ra.1 && ra.2 != 0 then reseed ra.1.x (u (L.idxOf ra.1.pid)) else ra.1.x)
        let Y := (cur.zip act).map (fun ra => if stuck mem ra.1 && ra.2 != 0 then reseed ra.1.y (u (L.length + L.idxOf ra.1.pid)) else ra.1.y)
        ⟨X, Y, cur.map (·.pid), X, Y, some .snapshot⟩)) := by
  have hz : (cur.zip act).map Prod.fst = cur := List.map_fst_zip (by omega)
  have hm : ∀ ra ∈ cur.zip act, (ra.1.pid ∈ onlandPids mem cur (actOf cur act)) ↔ (stuck mem ra.1 && ra.2 != 0) = true := by
    intro ra hra
    have hr : ra.1 ∈ cur := by rw [← hz]; exact List.mem_map.mpr ⟨ra, hra, rfl⟩
    rw [mem_onlandPids mem cur _ hn ra.1 hr, actOf_zip cur act hn ra hra]
  refine ⟨onlandPids mem cur (actOf cur act), onlandPids_sorted _ _ _, ?_, ?_⟩
  · intro p
    constructor
    · intro h
      obtain ⟨r, hr, hrp⟩ := List.mem_map.mp (onlandPids_sub mem cur _ p h)
      rw [← hz] at hr
      obtain ⟨ra, hra, rfl⟩ := List.mem_map.mp hr
      subst hrp
      exact ⟨ra, hra, rfl, (hm ra hra).mp h⟩
    · rintro ⟨ra, hra, rfl, h⟩
      exact (hm ra hra).mpr h
  · rw [mine_reposition_run mem cur act u hn ha]
    have key : ∀ (f : Rec α → α), cur.map f = (cur.zip act).map (fun ra => f ra.1) := by
      intro f
      conv => lhs; rw [← hz, List.map_map]
      rfl
    have hX : cur.map (fun r => if r.pid ∈ onlandPids mem cur (actOf cur act)
          then reseed r.x (u (0 + (onlandPids mem cur (actOf cur act)).idxOf r.pid)) else r.x) =
        (cur.zip act).map (fun ra => if stuck mem ra.1 && ra.2 != 0
          then reseed ra.1.x (u ((onlandPids mem cur (actOf cur act)).idxOf ra.1.pid)) else ra.1.x) := by
      rw [key]
      apply List.map_congr_left
      intro ra hra
      simp only [hm ra hra, Nat.zero_add]
    have hY : cur.map (fun r => if r.pid ∈ onlandPids mem cur (actOf cur act)
          then reseed r.y (u (0 + (onlandPids mem cur (actOf cur act)).length + (onlandPids mem cur (actOf cur act)).idxOf r.pid)) else r.y) =
        (cur.zip act).map (fun ra => if stuck mem ra.1 && ra.2 != 0
          then reseed ra.1.y (u ((onlandPids mem cur (actOf cur act)).length + (onlandPids mem cur (actOf cur act)).idxOf ra.1.pid)) else ra.1.y) := by
      rw [key]
      apply List.map_congr_left
      intro ra hra
      simp only [hm ra hra, Nat.zero_add]
    simp only [hX, hY]

/-- … with any other value of `land_collision` nothing happens (but every statement must still be a known one) -/
theorem mine_reposition_seq_off (mem cur : List (Rec α)) (act : List Nat) (u : Nat → α) :
    mineRepositionSeq false mem cur act u = some (some
      ⟨cur.map (·.x), cur.map (·.y), mem.map (·.pid), mem.map (·.x), mem.map (·.y), none⟩) :=
  mine_reposition_off mem cur act u

/-- **chemicals `IBM.store_position`** (`Gen.chem_store_position_seq`): the handler remembers the current records
(`Memory.store`); the kind of memory is the one the generated text shows — `self.x = self.state.X` (the code as it is:
the state's own arrays, `MemKind.alias`, known finding F-C11a) or the repair `self.x = np.copy(self.state.X)`
(`MemKind.snapshot`); the proof goes through for either text and for no other. -/
theorem chem_store_position_seq :
    ∃ k, storeKindSeen Gen.chem_store_position_seq = some k ∧
      ∀ mem cur : List (Rec α), storePositionSeq Gen.chem_store_position_seq mem cur = some (some (k, Memory.store cur)) := by
  first
  | (refine ⟨.alias, ?_, ?_⟩
     · decide
     · intro mem cur
       simp [storePositionSeq, Gen.chem_store_position_seq, runStrictRet, guardVal, storeStep, RepSt.init, joinKind,
         recsOf_map, Memory.store]
     done)
  | (refine ⟨.snapshot, ?_, ?_⟩
     · decide
     · intro mem cur
       simp [storePositionSeq, Gen.chem_store_position_seq, runStrictRet, guardVal, storeStep, RepSt.init, joinKind,
         recsOf_map, Memory.store]
     done)

/-- the same as a disjunction -/
theorem chem_store_position_seq_or :
    (∀ mem cur : List (Rec α), storePositionSeq Gen.chem_store_position_seq mem cur = some (some (.alias, Memory.store cur))) ∨
    (∀ mem cur : List (Rec α), storePositionSeq Gen.chem_store_position_seq mem cur = some (some (.snapshot, Memory.store cur))) := by
  obtain ⟨k, _, h⟩ := chem_store_position_seq (α := α)
  cases k
  · exact Or.inr h
  · exact Or.inl h

/-- what the handler effectively compares with at the next `reposition`: the stored records, or — when it kept the
state's own arrays and these were not reallocated since — the current records themselves -/
def effectiveMem (k : MemKind) (stored cur : List (Rec α)) (realloc : Bool) : List (Rec α) :=
  match k with
  | .snapshot => stored
  | .alias => if realloc then stored else cur

/-- the link between the kind of memory reported by `chem_store_position_seq` and `Memory.decides`: the decision of the
model is `Memory.stuck` (what `chem_reposition_seq` / `mine_reposition_seq` evaluate) on the effective memory.
Hypotheses: `<` irreflexive (no NaN), distinct current pids, and — alias without reallocation — the remembered pid array
is the state's. -/
theorem decides_effective (hirr : ∀ a : α, ¬ a < a) (k : MemKind) (stored cur : List (Rec α)) (realloc : Bool)
    (hn : (cur.map (·.pid)).Nodup) (r : Rec α) (hr : r ∈ cur)
    (hp : k = .alias → realloc = false → stored.map (·.pid) = cur.map (·.pid)) :
    decides k stored realloc r = stuck (effectiveMem k stored cur realloc) r := by
  cases k with
  | snapshot => rfl
  | «alias» =>
    cases realloc with
    | true => rfl
    | false =>
      have h1 : stuck cur r = true := by
        unfold stuck
        rw [lookup_of_mem_nodup cur hn r hr]
        simp [feq, hirr]
      have h2 : stored.any (fun o => o.pid == r.pid) = true := by
        have : r.pid ∈ stored.map (·.pid) := by rw [hp rfl rfl]; exact List.mem_map.mpr ⟨r, hr, rfl⟩
        obtain ⟨o, ho, hor⟩ := List.mem_map.mp this
        exact List.any_eq_true.mpr ⟨o, ho, by simpa using hor⟩
      show stored.any (fun o => o.pid == r.pid) = stuck cur r
      rw [h1, h2]

end reposition

/-! ### `is_close_to_land`, `nearest_unmasked`, `Grid.is_close_to_land`, `Grid.nearest_sea` -/
section nb
variable {α : Type} [Add α] [Sub α] [Mul α] [LT α] [DecidableLT α] [HasRound α] [HasTrunc α] [HasOfInt α]

/-- **`is_close_to_land(mask, i, j)`** (`Gen.is_close_to_land_seq`) is `Nb.isCloseToLand` on the land mask `~mask` at the
cell `(int32(round i), int32(round j))`: the eight offsets in the order of the source, indices clamped, `any`. -/
theorem is_close_to_land_seq (M : Mask) (i j : α) :
    isCloseToLandSeq M i j =
      some (some (isCloseToLand ⟨M.rows, M.cols, fun b a => !M.val b a⟩ (trunc (round i)) (trunc (round j)))) :=
  MemSeq.is_close_to_land M i j

/-- **`nearest_unmasked(mask, i, j)`** (`Gen.nearest_unmasked_seq`) is `Nb.nearestUnmasked` (nine offsets in the order of
the source, centre first; indices clamped; first minimum of the squared distance among the unmasked cells) at the cell
`(int32(round i), int32(round j))`; when all nine cells are masked — where the model says `none` — the code returns the
(clamped) centre cell: index 0 of the `argmin` over an all-masked column. -/
theorem nearest_unmasked_seq (M : Mask) (i j : α) :
    nearestUnmaskedSeq M i j =
      some (some ((nearestUnmasked M i j (trunc (round i)) (trunc (round j))).getD
        (clampI M.cols (trunc (round i)), clampI M.rows (trunc (round j))))) :=
  MemSeq.nearest_unmasked M i j

set_option maxRecDepth 100000 in
theorem gridStep_close (M : Mask) (i0 j0 : Int) (s : GridSt α) :
    gridStep M i0 j0 s "return" "is_close_to_land(self.M, I, J)" =
      some (some { s with retB := some (isCloseToLand ⟨M.rows, M.cols, fun b a => !M.val b a⟩
        (trunc (round s.I)) (trunc (round s.J))) }) := by
  have h : gridStep M i0 j0 s "return" "is_close_to_land(self.M, I, J)" =
      callOut (isCloseToLandSeq M s.I s.J) (fun b => { s with retB := some b }) := rfl
  rw [h, is_close_to_land_seq]; rfl

set_option maxRecDepth 100000 in
theorem gridStep_nearest (M : Mask) (i0 j0 : Int) (s : GridSt α) :
    gridStep M i0 j0 s "assign" "i_new, j_new = nearest_unmasked(np.logical_not(self.M), I, J)" =
      some (some { s with
        iNew := ((nearestUnmasked ⟨M.rows, M.cols, fun b a => !M.val b a⟩ s.I s.J (trunc (round s.I)) (trunc (round s.J))).getD
          (clampI M.cols (trunc (round s.I)), clampI M.rows (trunc (round s.J)))).1,
        jNew := ((nearestUnmasked ⟨M.rows, M.cols, fun b a => !M.val b a⟩ s.I s.J (trunc (round s.I)) (trunc (round s.J))).getD
          (clampI M.cols (trunc (round s.I)), clampI M.rows (trunc (round s.J)))).2 }) := by
  have h : gridStep M i0 j0 s "assign" "i_new, j_new = nearest_unmasked(np.logical_not(self.M), I, J)" =
      callOut (nearestUnmaskedSeq ⟨M.rows, M.cols, fun j i => !M.val j i⟩ s.I s.J)
        (fun c => { s with iNew := c.1, jNew := c.2 }) := rfl
  rw [h, nearest_unmasked_seq]; rfl

/-- **`Grid.is_close_to_land(X, Y)`** (`Gen.chem_grid_close_to_land_seq`): `i0` is subtracted from `X`, `j0` from `Y`,
BEFORE the rounding inside `is_close_to_land`: the cell is `int32(round(X − i0))`, `int32(round(Y − j0))`. -/
theorem chem_grid_close_to_land_seq (M : Mask) (i0 j0 : Int) (X Y : α) :
    gridCloseToLandSeq M i0 j0 X Y =
      some (some (isCloseToLand ⟨M.rows, M.cols, fun b a => !M.val b a⟩
        (trunc (round (X - ofInt i0))) (trunc (round (Y - ofInt j0))))) := by
  unfold gridCloseToLandSeq Gen.chem_grid_close_to_land_seq
  rw [run_assign _ _ _ _ _ _ rfl, run_assign _ _ _ _ _ _ rfl]
  rw [run_return _ _ _ _ _ _ (gridStep_close M i0 j0 _)]
  rfl

/-- **`Grid.nearest_sea(X, Y)`** (`Gen.chem_grid_nearest_sea_seq`): `nearest_unmasked` on `np.logical_not(self.M)` at
`(X − i0, Y − j0)`; the result is in mask coordinates (no offset is added back). -/
theorem chem_grid_nearest_sea_seq (M : Mask) (i0 j0 : Int) (X Y : α) :
    gridNearestSeaSeq M i0 j0 X Y =
      some (some ((nearestUnmasked ⟨M.rows, M.cols, fun b a => !M.val b a⟩ (X - ofInt i0) (Y - ofInt j0)
          (trunc (round (X - ofInt i0))) (trunc (round (Y - ofInt j0)))).getD
        (clampI M.cols (trunc (round (X - ofInt i0))), clampI M.rows (trunc (round (Y - ofInt j0)))))) := by
  unfold gridNearestSeaSeq Gen.chem_grid_nearest_sea_seq
  rw [run_assign _ _ _ _ _ _ rfl, run_assign _ _ _ _ _ _ rfl]
  rw [run_assign _ _ _ _ _ _ (gridStep_nearest M i0 j0 _)]
  rw [run_return _ _ _ _ _ _ rfl]
  rfl

end nb
end Bridge

namespace Bridge.MemSeq
section coast
variable {α : Type} [Add α] [Sub α] [Mul α] [LT α] [DecidableLT α] [OfScientific α] [HasRound α] [HasTrunc α] [HasOfInt α]
open Chemicals

theorem callVec_eq {β γ : Type} (f : β → Option (Option γ)) (g : β → γ) (l : List β) (h : ∀ b, f b = some (some (g b))) :
    callVec f l = some (some (l.map g)) := by
  induction l with
  | nil => rfl
  | cons b bs ih => simp [callVec, h b, ih]

theorem zipSame_fst_snd {β γ : Type} (xy : List (β × γ)) :
    zipSame (fun a b => (a, b)) (xy.map (·.1)) (xy.map (·.2)) = some xy := by
  unfold zipSame
  simp only [List.length_map, if_true, Option.some.injEq]
  induction xy with
  | nil => rfl
  | cons p ps ih => simp [ih]

theorem randN_succ {β : Type} (u : Nat → β) (used n : Nat) : randN u used (n + 1) = u used :: randN u (used + 1) n := by
  unfold randN
  rw [List.range_succ_eq_map, List.map_cons, List.map_map]
  congr 1
  apply List.map_congr_left
  intro k _
  simp only [Function.comp, Nat.succ_eq_add_one]
  congr 1; omega

/-- boolean-mask re-seeding: the k-th selected element takes the draw `u (used + k)` -/
theorem maskScatter_reseed {β : Type} (c : β → Bool) (f : β → α) (u : Nat → α) (l : List β) : ∀ used : Nat,
    maskScatter (l.map f) (l.map c) (List.zipWith reseed ((l.filter c).map f) (randN u used (l.filter c).length)) =
      some (l.mapIdx (fun j b => if c b then reseed (f b) (u (used + (l.take j).countP c)) else f b)) := by
  induction l with
  | nil => intro used; rfl
  | cons b bs ih =>
    intro used
    cases hc : c b with
    | true =>
      simp only [List.map_cons, hc, List.filter_cons, if_true, List.length_cons, randN_succ, List.zipWith_cons_cons,
        maskScatter, ih (used + 1), Option.map_some, List.mapIdx_cons, List.take_zero, List.countP_nil, Nat.add_zero,
        List.take_succ_cons, List.countP_cons]
      congr 2
      apply List.mapIdx_eq_mapIdx_iff.mpr ?_
      intro i hi
      by_cases h : c bs[i] = true
      · simp only [h, if_true]; congr 2; omega
      · simp [h]
    | false =>
      simp only [List.map_cons, hc, List.filter_cons, Bool.false_eq_true, if_false, maskScatter, ih used,
        Option.map_some, List.mapIdx_cons, List.take_succ_cons, List.countP_cons, Nat.add_zero]


theorem reseedMask_eq {β : Type} (c : β → Bool) (f : β → α) (u : Nat → α) (l : List β) (used n : Nat)
    (hn : n = (l.filter c).length) :
    reseedMask (l.map f) (l.map c) u used n =
      some (List.zipWith reseed ((l.filter c).map f) (randN u used (l.filter c).length)) := by
  subst hn
  unfold reseedMask
  rw [maskSelect_map]
  simp [zipSame, randN]

/-- the coastal test of one particle -/
def coastal (M : Mask) (i0 j0 : Int) (p : α × α) : Bool :=
  isCloseToLand ⟨M.rows, M.cols, fun b a => !M.val b a⟩ (trunc (round (p.1 - ofInt i0))) (trunc (round (p.2 - ofInt j0)))

set_option maxRecDepth 100000 in
theorem coast_step2 (M : Mask) (i0 j0 : Int) (s : CoastSt α) (xy : List (α × α)) (hx : s.x = xy.map (·.1))
    (hy : s.y = xy.map (·.2)) :
    coastStep M i0 j0 s "assign" "is_coastal = self.grid.grid.is_close_to_land(x, y)" =
      some (some { s with isCoastal := xy.map (coastal M i0 j0) }) := by
  have h : coastStep M i0 j0 s "assign" "is_coastal = self.grid.grid.is_close_to_land(x, y)" =
      (match zipSame (fun a b => (a, b)) s.x s.y with
      | none => some none
      | some xy => callOut (callVec (fun p => gridCloseToLandSeq M i0 j0 p.1 p.2) xy) (fun c => { s with isCoastal := c })) := rfl
  rw [h, hx, hy, zipSame_fst_snd]
  simp only []
  rw [callVec_eq _ (coastal M i0 j0) xy (fun p => Bridge.chem_grid_close_to_land_seq M i0 j0 p.1 p.2)]
  rfl

set_option maxRecDepth 100000 in
theorem coastal_run (M : Mask) (i0 j0 : Int) (xy : List (α × α)) (u : Nat → α) :
    coastalDiffusionSeq M i0 j0 xy u = some (some (
      xy.mapIdx (fun j p => if coastal M i0 j0 p then reseed p.1 (u (0 + (xy.take j).countP (coastal M i0 j0))) else p.1),
      xy.mapIdx (fun j p => if coastal M i0 j0 p
        then reseed p.2 (u (0 + (xy.map (coastal M i0 j0)).count true + (xy.take j).countP (coastal M i0 j0))) else p.2))) := by
  have hcnt : (xy.map (coastal M i0 j0)).count true = (xy.filter (coastal M i0 j0)).length := count_map_true _ _
  have hX := reseedMask_eq (coastal M i0 j0) (·.1) u xy 0 _ hcnt
  have hY := reseedMask_eq (coastal M i0 j0) (·.2) u xy (0 + (xy.map (coastal M i0 j0)).count true) _ hcnt
  have hSX := maskScatter_reseed (coastal M i0 j0) (·.1) u xy 0
  have hSY := maskScatter_reseed (coastal M i0 j0) (·.2) u xy (0 + (xy.map (coastal M i0 j0)).count true)
  unfold coastalDiffusionSeq Gen.chem_coastal_diffusion_seq
  rw [run_assign _ _ _ _ _ _ rfl]
  rw [run_assign _ _ _ _ _ _ (coast_step2 M i0 j0 _ xy rfl rfl)]
  rw [run_assign _ _ _ _ _ _ rfl]
  rw [run_assign_map _ _ _ _ _ _ _ _ rfl hX]
  rw [run_assign_map _ _ _ _ _ _ _ _ rfl hY]
  rw [run_assign_map _ _ _ _ _ _ _ _ rfl hSX]
  rw [run_assign_map _ _ _ _ _ _ _ _ rfl hSY]
  simp only [runStrictRet, Option.map_some]

end coast
end Bridge.MemSeq

/-! ### `coastal_diffusion` -/
namespace Bridge
open Bridge.MemSeq Chemicals
section coast
variable {α : Type} [Add α] [Sub α] [Mul α] [LT α] [DecidableLT α] [OfScientific α] [HasRound α] [HasTrunc α] [HasOfInt α]

/-- **chemicals `IBM.coastal_diffusion`** (`Gen.chem_coastal_diffusion_seq`, with `Gen.chem_grid_close_to_land_seq` and
`Gen.is_close_to_land_seq` interpreted at `is_coastal = self.grid.grid.is_close_to_land(x, y)`).  `xy` = the current
positions.  Exactly the particles with `Nb.isCloseToLand` (on the land mask `~M`, at the cell
`int32(round(x − i0)), int32(round(y − j0))`) are re-seeded inside their cell with `Chemicals.reseed`; the k-th coastal
particle in ARRAY order takes the k-th draw of the first `rand(num_coastal)` call for x and the k-th of the second for y.
No hypothesis. -/
theorem chem_coastal_diffusion_seq (M : Mask) (i0 j0 : Int) (xy : List (α × α)) (u : Nat → α) :
    coastalDiffusionSeq M i0 j0 xy u = some (some (
      xy.mapIdx (fun j p => if coastal M i0 j0 p then reseed p.1 (u ((xy.take j).countP (coastal M i0 j0))) else p.1),
      xy.mapIdx (fun j p => if coastal M i0 j0 p
        then reseed p.2 (u (xy.countP (coastal M i0 j0) + (xy.take j).countP (coastal M i0 j0))) else p.2))) := by
  rw [coastal_run]
  have hc : (xy.map (coastal M i0 j0)).count true = xy.countP (coastal M i0 j0) := by
    rw [count_map_true, List.countP_eq_length_filter]
  simp only [Nat.zero_add, hc]

/-- the coastal test used above is `Nb.isCloseToLand` -/
theorem coastal_def (M : Mask) (i0 j0 : Int) (p : α × α) :
    coastal M i0 j0 p = isCloseToLand ⟨M.rows, M.cols, fun b a => !M.val b a⟩
      (trunc (round (p.1 - ofInt i0))) (trunc (round (p.2 - ofInt j0))) := rfl

end coast

/-! ### saithe `spread`, lunar eel `horizontal_advect` -/
section swim
variable {α : Type} [Add α] [Sub α] [Mul α] [Div α] [LT α] [DecidableLT α] [OfScientific α] [HasRound α] [HasTrunc α]
  [HasSin α] [HasCos α] [HasPi α]

/-- the direction of a saithe particle after the first block of `spread`: a particle with `direction == 0` draws
`2π·u / 0.93`, which is NaN (`none`: not directed) when it exceeds `2π` -/
def newDirection (u : α) (direction : Option α) : Option α :=
  if (match direction with | some d => feq d 0.0 | none => false) = true then
    (if 2.0 * pi < 2.0 * pi * u / 0.93 then none else some (2.0 * pi * u / 0.93))
  else direction

theorem saithe_pure {β : Type} (ingrid atsea : β → β → Bool) (X Y xc yc : β) (alive : Bool) :
    ((if (!atsea (if (!ingrid xc yc) = true then X else xc) (if (!ingrid xc yc) = true then Y else yc)) = true then X
        else if (!ingrid xc yc) = true then X else xc),
      (if (!atsea (if (!ingrid xc yc) = true then X else xc) (if (!ingrid xc yc) = true then Y else yc)) = true then Y
        else if (!ingrid xc yc) = true then Y else yc),
      (if (!ingrid xc yc) = true then false else alive)) =
    ((Swim.saitheStep ingrid atsea X Y xc yc).1, (Swim.saitheStep ingrid atsea X Y xc yc).2.1,
      alive && (Swim.saitheStep ingrid atsea X Y xc yc).2.2) := by
  unfold Swim.saitheStep
  rcases Bool.eq_false_or_eq_true (ingrid xc yc) with hi | hi
  · simp only [hi, Bool.not_true, Bool.false_eq_true, if_false, if_true, Bool.and_true]
    rcases Bool.eq_false_or_eq_true (atsea xc yc) with hs | hs <;> simp [hs]
  · simp only [hi, Bool.not_false, Bool.false_eq_true, if_false, if_true, Bool.and_false]
    rcases Bool.eq_false_or_eq_true (atsea X Y) with hs | hs <;> simp [hs]

set_option maxRecDepth 100000 in
theorem saithe_tail (hatchDay dt : α) (metric : α → α → α × α) (ingrid atsea : α → α → Bool) (u : α) (s : SaitheSt α)
    (h : s.isDirected = (s.direction.isSome && decide (hatchDay < s.age))) :
    (runStrictRet noAtom (saitheStep hatchDay dt metric ingrid atsea u) (Gen.saithe_spread_seq.drop 11) s).map
        (fun r => r.map (fun s => (s.direction, s.X, s.Y, s.alive))) = some (some (
      match s.direction with
      | none => (none, s.X, s.Y, s.alive)
      | some d =>
        if hatchDay < s.age then
          let p := Swim.saitheStep ingrid atsea s.X s.Y
            (s.X + s.hs * 0.01 * (1.0 / (metric s.X s.Y).1) * dt * cos d) (s.Y + s.hs * 0.01 * (1.0 / (metric s.X s.Y).2) * dt * sin d)
          (some d, p.1, p.2.1, s.alive && p.2.2)
        else (some d, s.X, s.Y, s.alive))) := by
  have e : Gen.saithe_spread_seq.drop 11 = [
      ([], "assign", "d = self.state['direction'][is_directed]"),
      ([], "assign", "x0 = self.state.X[is_directed]"),
      ([], "assign", "y0 = self.state.Y[is_directed]"),
      ([], "assign", "dt = self.dt"),
      ([], "assign", "om, on = 1 / np.array(self.grid.sample_metric(x0, y0))"),
      ([], "assign", "x = x0 + horizontal_speed * 0.01 * om * dt * np.cos(d)"),
      ([], "assign", "y = y0 + horizontal_speed * 0.01 * on * dt * np.sin(d)"),
      ([], "assign", "outside_grid = ~self.grid.ingrid(x, y)"),
      ([], "assign", "x[outside_grid] = x0[outside_grid]"),
      ([], "assign", "y[outside_grid] = y0[outside_grid]"),
      ([], "assign", "not_alive = np.copy(is_directed)"),
      ([], "assign", "not_alive[is_directed] = outside_grid"),
      ([], "assign", "self.state['alive'][not_alive] = False"),
      ([], "assign", "on_land = ~self.grid.atsea(x, y)"),
      ([], "assign", "x[on_land] = x0[on_land]"),
      ([], "assign", "y[on_land] = y0[on_land]"),
      ([], "assign", "self.state['X'][is_directed] = x"),
      ([], "assign", "self.state['Y'][is_directed] = y")] := rfl
  rw [e]
  rw [run_assign _ _ _ _ _ _ rfl, run_assign _ _ _ _ _ _ rfl, run_assign _ _ _ _ _ _ rfl, run_assign _ _ _ _ _ _ rfl,
    run_assign _ _ _ _ _ _ rfl, run_assign _ _ _ _ _ _ rfl, run_assign _ _ _ _ _ _ rfl, run_assign _ _ _ _ _ _ rfl,
    run_assign _ _ _ _ _ _ rfl, run_assign _ _ _ _ _ _ rfl, run_assign _ _ _ _ _ _ rfl, run_assign _ _ _ _ _ _ rfl,
    run_assign _ _ _ _ _ _ rfl, run_assign _ _ _ _ _ _ rfl, run_assign _ _ _ _ _ _ rfl, run_assign _ _ _ _ _ _ rfl,
    run_assign _ _ _ _ _ _ rfl, run_assign _ _ _ _ _ _ rfl]
  simp only [runStrictRet, Option.map_some, h]
  clear e h
  obtain ⟨direction, age, X, Y, alive, hs, frac, isNew, newDir, isDirected, d0, x0, y0, dt0, om, on, x, y, outside,
    notAlive, onLand⟩ := s
  simp only []
  cases direction with
  | none => simp only [Option.isSome_none, Bool.false_and, Bool.false_eq_true, if_false]
  | some d =>
    by_cases ha : hatchDay < age
    · simp only [ha, Option.isSome_some, decide_true, Bool.and_self, if_true]
      have hp := saithe_pure ingrid atsea X Y (X + hs * 0.01 * (1.0 / (metric X Y).1) * dt * cos d)
          (Y + hs * 0.01 * (1.0 / (metric X Y).2) * dt * sin d) alive
      have hq := congrArg (fun t => some (some (some d, t))) hp
      exact hq
    · simp only [ha, Option.isSome_some, decide_false, Bool.and_false, Bool.false_eq_true, if_false]

set_option maxRecDepth 100000 in
/-- **saithe `IBM.spread`** (`Gen.saithe_spread_seq`) for one particle; `u` = its own draw of
`np.random.rand(num_new_particles)`, `direction = none` = NaN.  New direction (`newDirection`) for `direction == 0`, NaN
for the non-directed; only a directed particle older than `hatch_day` is displaced: `Swim.saitheStep` (reset outside the
grid — and killed —, then reset on land, evaluated AFTER the first reset) with the candidate
`x0 + 1·0.01·(1/dx)·dt·cos d`, `y0 + 1·0.01·(1/dy)·dt·sin d`; written back only to `is_directed` particles. -/
theorem saithe_spread_seq (hatchDay dt : α) (metric : α → α → α × α) (ingrid atsea : α → α → Bool) (u : α)
    (direction : Option α) (age X Y : α) (alive : Bool) :
    saitheSpreadSeq hatchDay dt metric ingrid atsea u direction age X Y alive = some (some (
      match newDirection u direction with
      | none => (none, X, Y, alive)
      | some d =>
        if hatchDay < age then
          let p := Swim.saitheStep ingrid atsea X Y
            (X + 1.0 * 0.01 * (1.0 / (metric X Y).1) * dt * cos d) (Y + 1.0 * 0.01 * (1.0 / (metric X Y).2) * dt * sin d)
          (some d, p.1, p.2.1, alive && p.2.2)
        else (some d, X, Y, alive))) := by
  unfold saitheSpreadSeq
  have hrun : runStrictRet noAtom (saitheStep hatchDay dt metric ingrid atsea u) Gen.saithe_spread_seq
        (SaitheSt.init direction age X Y alive) =
      runStrictRet noAtom (saitheStep hatchDay dt metric ingrid atsea u) (Gen.saithe_spread_seq.drop 11)
        { SaitheSt.init direction age X Y alive with
          hs := 1.0, frac := 0.93,
          isNew := (match direction with | some d => feq d 0.0 | none => false),
          newDir := if 2.0 * pi < 2.0 * pi * u / 0.93 then none else some (2.0 * pi * u / 0.93),
          direction := newDirection u direction,
          isDirected := (newDirection u direction).isSome && decide (hatchDay < age) } := by
    conv => lhs; unfold Gen.saithe_spread_seq
    rw [run_assign _ _ _ _ _ _ rfl, run_assign _ _ _ _ _ _ rfl, run_assign _ _ _ _ _ _ rfl, run_assign _ _ _ _ _ _ rfl,
      run_assign _ _ _ _ _ _ rfl, run_assign _ _ _ _ _ _ rfl, run_assign _ _ _ _ _ _ rfl, run_assign _ _ _ _ _ _ rfl,
      run_assign _ _ _ _ _ _ rfl, run_assign _ _ _ _ _ _ rfl, run_assign _ _ _ _ _ _ rfl]
    rfl
  rw [hrun, saithe_tail hatchDay dt metric ingrid atsea u _ rfl]
  rfl

/-- **lunar eel `IBM.horizontal_advect`** (`Gen.eel_horizontal_advect_seq`) for one eel: nothing happens unless
`self.moonfunc(state.timestamp)`; then the candidate `X + speed·dt·xs_dx[j, i]`, `Y + speed·dt·ys_dy[j, i]` with
`i = int(round X)`, `j = int(round Y)` (row index `j` first) is taken exactly when `ingrid & atsea` of the candidate:
`Swim.eelStep`. -/
theorem eel_horizontal_advect_seq (moon : Bool) (speed dt : α) (xsdx ysdy : Int → Int → α) (ingrid atsea : α → α → Bool)
    (X Y : α) :
    eelAdvectSeq moon speed dt xsdx ysdy ingrid atsea X Y = some (some (
      if moon then
        Swim.eelStep ingrid atsea X Y (X + speed * dt * xsdx (trunc (round Y)) (trunc (round X)))
          (Y + speed * dt * ysdy (trunc (round Y)) (trunc (round X)))
      else (X, Y))) := by
  unfold eelAdvectSeq Gen.eel_horizontal_advect_seq
  rw [run_assign _ _ _ _ _ _ rfl]
  cases moon with
  | false =>
    rw [run_gskip _ _ _ _ _ _ _ rfl rfl, run_gskip _ _ _ _ _ _ _ rfl rfl, run_gskip _ _ _ _ _ _ _ rfl rfl,
      run_gskip _ _ _ _ _ _ _ rfl rfl, run_gskip _ _ _ _ _ _ _ rfl rfl, run_gskip _ _ _ _ _ _ _ rfl rfl,
      run_gskip _ _ _ _ _ _ _ rfl rfl]
    rfl
  | true =>
    rw [run_gassign _ _ _ _ _ _ _ rfl rfl, run_gassign _ _ _ _ _ _ _ rfl rfl, run_gassign _ _ _ _ _ _ _ rfl rfl,
      run_gassign _ _ _ _ _ _ _ rfl rfl, run_gassign _ _ _ _ _ _ _ rfl rfl, run_gassign _ _ _ _ _ _ _ rfl rfl,
      run_gassign _ _ _ _ _ _ _ rfl rfl]
    simp only [runStrictRet, Option.map_some, Swim.eelStep, if_true]
    cases (ingrid (X + speed * dt * xsdx (trunc (round Y)) (trunc (round X)))
        (Y + speed * dt * ysdy (trunc (round Y)) (trunc (round X))) &&
      atsea (X + speed * dt * xsdx (trunc (round Y)) (trunc (round X)))
        (Y + speed * dt * ysdy (trunc (round Y)) (trunc (round X)))) <;> rfl

end swim
end Bridge
