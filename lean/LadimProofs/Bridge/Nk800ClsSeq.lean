import LadimModel.Forcing.Nk800ClsSeq
import LadimProofs.C13Buffer
import LadimProofs.Bridge.NkSeq
/-!
# Bridge (C13) — the classes of `nk800met/gridforce.py`: `Buffer`, `OnlineDatabase`, `Grid`, `Forcing`

The generated statement sequences, interpreted by `LadimModel/Forcing/Nk800ClsSeq.lean` (strict runner `nkcRun`: every
statement, condition and `return` text must be a known one; an `if` condition is evaluated once per block), are the
functions of the hand-written model `LadimModel/Forcing/Nk800.lean`:

* `nk_buffer_ctor` = `Buffer.empty`; `nk_buffer_prune`, `nk_buffer_push` = `Buffer.prune`, `Buffer.push` **on keyed
  buffers** (`nkcKeyed`: every key of `buf` has a frame tag in `fidx`); on a buffer that is not keyed the code raises
  `KeyError` (`self.fidx[k]`) where the model drops the entry (`nk_prune_unkeyed_example`).  `nkcKeyed_empty`,
  `nkcKeyed_push`, `nkcKeyed_prune`: every buffer made by `Buffer()` and `push` is keyed.  `nk_buffer_getitem` =
  `Buffer.get?`, `nk_buffer_contains` = `Buffer.contains` (no hypotheses).
* `C13Buffer` on the interpreted class: `nk_buffer_push_served` (after `push(k, v, frame)`: `k in buffer`,
  `buffer[k] = v`), `nk_buffer_history` (`Buffer()` + any history of `push`es = the model's history, never raises, two
  live frames), `nk_buffer_prune_live` (after `prune` every entry carries a live frame tag).
* `nk_get_dset` = `Nk800.getVar` (key = formatted file name, value = `nc.Dataset(name)`, frame = day string) on keyed
  buffers; `nk_get_dset_gen` all outcomes; `nk_get_dset_valid` (`C13.getVar_transparent` on the interpreted method).
* `nk_request_dset`: sequential effect of the worker thread (the interleaving is not modelled).
* `nk_db_ctor`, `nk_db_close`, `nk_db_close_twice`, `nk_db_del`, `nk_forcing_close`.
* `Grid`: `nk_init_gridlimits`, `nk_ingrid` (+ `nk_ingrid_iff` over an ordered field), `nk_grid_z2k` / `nk_forcing_z2k`
  = `Ladim.interp depth (0 … n-1)` (+ `nk_z2k_clamps_left`, `nk_z2k_first`), `nk_ll2xy` (+ `nk_ll2xy_grid`),
  `nk_atsea` (+ `nk_atsea_grid`), `nk_init_proj` — self-contained closed forms (the model has no such functions; `z2k`
  is the model's `interp`).
* constructors: `nk_grid_ctor`, `nk_grid_ctor_no_gridforce`, `nk_grid_ctor_no_start`, `nk_forcing_ctor`,
  `nk_forcing_ctor_no_time` (closed forms), `nk_grid_ctor_full` (every callee interpreted).
-/
open Ladim Ladim.Seq Ladim.Nk800

set_option linter.unusedSimpArgs false
set_option linter.unusedVariables false
set_option linter.unusedSectionVars false
namespace Bridge

theorem nkcCall_some {σ R : Type} (r : Option R) (k : R → σ) : nkcCall (some r) k = some (r.map k) := by
  cases r <;> rfl

/-! ### class `Buffer` -/

section
variable {κ ν φ : Type} [DecidableEq κ] [DecidableEq φ]

/-- `Buffer()`: two empty frame slots, two empty dicts -/
theorem nk_buffer_ctor : (nkcBufferCtorSeq : Option (Option (Buffer κ ν φ))) = some (some Buffer.empty) := by
  simp [nkcBufferCtorSeq, Gen.nk_buffer_ctor_seq, nkcRun, nkcGo, nkcKnown, nkcGuard, nkcNoAtom, nkcBufCtorStep,
    nkcNeed, returned, NkcBufCtorSt.obj, Buffer.empty, List.replicate]

theorem nkcFilterRaise_eq {β γ : Type} (q : β → Option γ) (g : γ → Bool) (l : List β) :
    nkcFilterRaise (fun x => (q x).map g) l
      = if l.all (fun x => (q x).isSome) then
          some (l.filter (fun x => match q x with | some f => g f | none => false))
        else none := by
  induction l with
  | nil => rfl
  | cons x xs ih =>
    unfold nkcFilterRaise
    rw [ih]
    cases hx : q x with
    | none => simp [hx]
    | some f =>
      by_cases hall : xs.all (fun x => (q x).isSome) = true
      · cases hg : g f <;> simp [hx, hall, hg, List.filter_cons]
      · simp [hx, hall]

theorem nk_buffer_prune (b : Buffer κ ν φ) :
    nkcPruneSeq b = some (if nkcKeyed b then some b.prune else none) := by
  have h := nkcFilterRaise_eq (fun kv : κ × ν => lookup b.fidx kv.1) (fun f => b.fidxList.contains (some f)) b.buf
  simp only [List.contains_eq_mem] at h
  by_cases hk : nkcKeyed b = true
  · have hk' := hk
    unfold nkcKeyed at hk'
    rw [if_pos hk'] at h
    simp [nkcPruneSeq, Gen.nk_buffer_prune_seq, nkcRun, nkcGo, nkcKnown, nkcGuard, nkcNoAtom, nkcPruneStep, h, hk,
      Buffer.prune]
    rfl
  · have hk' := hk
    unfold nkcKeyed at hk'
    rw [if_neg hk'] at h
    simp [nkcPruneSeq, Gen.nk_buffer_prune_seq, nkcRun, nkcGo, nkcKnown, nkcGuard, nkcNoAtom, nkcPruneStep, h, hk]


/-- a buffer that is not keyed (it cannot arise from `Buffer()` and `push`): the code raises, the model's `prune` drops
the entry silently -/
theorem nk_prune_unkeyed_example :
    nkcPruneSeq (⟨[none, none], [("a", 1)], []⟩ : Buffer String Nat String) = some none ∧
    (⟨[none, none], [("a", 1)], []⟩ : Buffer String Nat String).prune = ⟨[none, none], [], []⟩ := by
  constructor
  · rw [nk_buffer_prune]; rfl
  · rfl

theorem nkcKeyed_fidxList (b : Buffer κ ν φ) (l : List (Option φ)) :
    nkcKeyed ({ b with fidxList := l } : Buffer κ ν φ) = nkcKeyed b := rfl

theorem nk_buffer_push (b : Buffer κ ν φ) (k : κ) (v : ν) (f : φ) :
    nkcPushSeq b k v f
      = some (if b.fidxList.contains (some f) || nkcKeyed b then some (b.push k v f) else none) := by
  have hcallee : (nkcPruneSeq : Buffer κ ν φ → _) = fun b => some (if nkcKeyed b then some b.prune else none) := by
    funext b; exact nk_buffer_prune b
  unfold nkcPushSeq
  rw [hcallee]
  cases hc : b.fidxList.contains (some f)
  · have hc' : ¬ some f ∈ b.fidxList := by simpa using hc
    cases hk : nkcKeyed b
    · simp [nkcPushWith, Gen.nk_buffer_push_seq, nkcRun, nkcGo, nkcKnown, nkcGuard, nkcPushAtom, nkcPushStep, hc, hc',
        hk, nkcKeyed_fidxList]
    · simp [nkcPushWith, Gen.nk_buffer_push_seq, nkcRun, nkcGo, nkcKnown, nkcGuard, nkcPushAtom, nkcPushStep, hc, hc',
        hk, nkcKeyed_fidxList, Buffer.push]
  · have hc' : some f ∈ b.fidxList := by simpa using hc
    simp [nkcPushWith, Gen.nk_buffer_push_seq, nkcRun, nkcGo, nkcKnown, nkcGuard, nkcPushAtom, nkcPushStep, hc, hc',
      Buffer.push]


theorem nk_buffer_getitem (b : Buffer κ ν φ) (item : κ) : nkcGetitemSeq b item = some (b.get? item) := by
  cases h : lookup b.buf item <;>
  simp [nkcGetitemSeq, Gen.nk_buffer_getitem_seq, nkcRun, nkcGo, nkcKnown, nkcGuard, nkcNoAtom, nkcGetitemStep,
    returned, Buffer.get?, h]

theorem nk_buffer_contains (b : Buffer κ ν φ) (item : κ) :
    nkcContainsSeq b item = some (some (b.contains item)) := by
  simp [nkcContainsSeq, Gen.nk_buffer_contains_seq, nkcRun, nkcGo, nkcKnown, nkcGuard, nkcNoAtom, nkcContainsStep,
    returned, Buffer.contains]

/-! #### the invariant under which `prune` does not raise -/

theorem nkcKeyed_iff (b : Buffer κ ν φ) :
    nkcKeyed b = true ↔ ∀ kv ∈ b.buf, ∃ f, lookup b.fidx kv.1 = some f := by
  unfold nkcKeyed
  rw [List.all_eq_true]
  constructor
  · intro h kv hkv; exact Option.isSome_iff_exists.mp (h kv hkv)
  · intro h kv hkv; exact Option.isSome_iff_exists.mpr (h kv hkv)

theorem nkcKeyed_empty : nkcKeyed (Buffer.empty : Buffer κ ν φ) = true := rfl

theorem nkc_lookup_filter_of {β : Type} (l : List (κ × β)) (p : κ × β → Bool) (k : κ) (f : β)
    (h : lookup l k = some f) (hp : p (k, f) = true) : lookup (l.filter p) k = some f := by
  induction l with
  | nil => simp [C13.lookup_nil] at h
  | cons q l ih =>
    rw [C13.lookup_cons] at h
    by_cases hq : q.1 = k
    · rw [if_pos hq] at h
      have hqe : q = (k, f) := by
        cases q; simp only [Option.some.injEq] at h hq; subst h; subst hq; rfl
      rw [hqe, List.filter_cons, if_pos hp, C13.lookup_cons, if_pos rfl]
    · rw [if_neg hq] at h
      rw [List.filter_cons]
      split
      · rw [C13.lookup_cons, if_neg hq]; exact ih h
      · exact ih h

/-- after `prune` every entry has a frame tag, and the tag is one of the live ones -/
theorem nkc_prune_entries_live (b : Buffer κ ν φ) :
    ∀ kv ∈ b.prune.buf, ∃ f, lookup b.prune.fidx kv.1 = some f ∧ some f ∈ b.prune.fidxList := by
  intro kv hkv
  have hm := List.mem_filter.mp hkv
  cases hl : lookup b.fidx kv.1 with
  | none => have := hm.2; simp [hl] at this
  | some f =>
    have hc : b.fidxList.contains (some f) = true := by have := hm.2; simpa [hl] using this
    refine ⟨f, ?_, ?_⟩
    · exact nkc_lookup_filter_of b.fidx _ kv.1 f hl hc
    · show some f ∈ b.fidxList
      simpa using hc

theorem nkcKeyed_prune (b : Buffer κ ν φ) : nkcKeyed b.prune = true := by
  rw [nkcKeyed_iff]
  intro kv hkv
  obtain ⟨f, hf, _⟩ := nkc_prune_entries_live b kv hkv
  exact ⟨f, hf⟩

theorem nkc_mem_assign_key {β : Type} (l : List (κ × β)) (k : κ) (v : β) (q : κ × β) (hq : q ∈ assign l k v) :
    q.1 = k ∨ ∃ q' ∈ l, q'.1 = q.1 := by
  unfold assign at hq
  split at hq
  · obtain ⟨q', hq', e⟩ := List.mem_map.mp hq
    by_cases hk : q'.1 = k
    · left; simp [hk] at e; rw [← e]
    · right; simp [hk] at e; exact ⟨q', hq', by rw [e]⟩
  · rcases List.mem_append.mp hq with h | h
    · right; exact ⟨q, h, rfl⟩
    · left; simp at h; rw [h]

theorem nkcKeyed_prePush (b : Buffer κ ν φ) (f : φ) (h : nkcKeyed b = true) : nkcKeyed (C13.prePush b f) = true := by
  unfold C13.prePush
  split
  · exact h
  · exact nkcKeyed_prune _

theorem nkcKeyed_push (b : Buffer κ ν φ) (k : κ) (v : ν) (f : φ) (h : nkcKeyed b = true) :
    nkcKeyed (b.push k v f) = true := by
  have hp := (nkcKeyed_iff _).mp (nkcKeyed_prePush b f h)
  rw [C13.push_eq, nkcKeyed_iff]
  intro kv hkv
  show ∃ g, lookup (assign (C13.prePush b f).fidx k f) kv.1 = some g
  by_cases hk : kv.1 = k
  · exact ⟨f, by rw [hk]; exact C13.lookup_assign_self _ k f⟩
  · rw [C13.lookup_assign_other _ k kv.1 f hk]
    rcases nkc_mem_assign_key _ k v kv hkv with h1 | ⟨q', hq', e⟩
    · exact absurd h1 hk
    · rw [← e]; exact hp q' hq'


/-! #### `C13Buffer` on the interpreted class -/

/-- on a keyed buffer (every buffer built by `Buffer()` and `push` is one) the interpreted `push` does not raise and is
the `push` of the model; afterwards the key is in the buffer and is served with the value pushed; keyed again -/
theorem nk_buffer_push_served (b : Buffer κ ν φ) (k : κ) (v : ν) (f : φ) (h : nkcKeyed b = true) :
    nkcPushSeq b k v f = some (some (b.push k v f)) ∧
    nkcContainsSeq (b.push k v f) k = some (some true) ∧
    nkcGetitemSeq (b.push k v f) k = some (some v) ∧
    nkcKeyed (b.push k v f) = true := by
  refine ⟨?_, ?_, ?_, nkcKeyed_push b k v f h⟩
  · rw [nk_buffer_push, h]; simp
  · rw [nk_buffer_contains, (C13.contains_iff _ k).mpr ⟨v, C13.get_push_self b k v f⟩]
  · rw [nk_buffer_getitem, C13.get_push_self]

/-- a history of `push`es on the interpreted class -/
def nkcPushAll : Buffer κ ν φ → List (κ × ν × φ) → Option (Option (Buffer κ ν φ))
  | b, [] => some (some b)
  | b, r :: rest =>
    match nkcPushSeq b r.1 r.2.1 r.2.2 with
    | some (some b') => nkcPushAll b' rest
    | o => o

theorem nkcPushAll_keyed (reqs : List (κ × ν × φ)) (b : Buffer κ ν φ) (h : nkcKeyed b = true) :
    nkcPushAll b reqs = some (some (reqs.foldl (fun b r => b.push r.1 r.2.1 r.2.2) b)) ∧
    nkcKeyed (reqs.foldl (fun b r => b.push r.1 r.2.1 r.2.2) b) = true := by
  induction reqs generalizing b with
  | nil => exact ⟨rfl, h⟩
  | cons r rest ih =>
    obtain ⟨h1, _, _, h4⟩ := nk_buffer_push_served b r.1 r.2.1 r.2.2 h
    rw [nkcPushAll, h1, List.foldl_cons]
    exact ih _ h4

theorem nkc_foldl_push_two_frames (reqs : List (κ × ν × φ)) (b : Buffer κ ν φ) (h : b.fidxList.length = 2) :
    (reqs.foldl (fun b r => b.push r.1 r.2.1 r.2.2) b).fidxList.length = 2 := by
  induction reqs generalizing b with
  | nil => exact h
  | cons r rest ih => rw [List.foldl_cons]; exact ih _ (C13.push_two_live_frames b r.1 r.2.1 r.2.2 h)

/-- FULL STATEMENT (capacity, on the code's statement sequences): `Buffer()` followed by any history of `push`es, all
interpreted from the generated sequences, never raises, is the history of the model's `push` from `Buffer.empty`, and
has exactly two live frame tags -/
theorem nk_buffer_history (reqs : List (κ × ν × φ)) :
    ∃ b0 : Buffer κ ν φ, nkcBufferCtorSeq = some (some b0) ∧
      nkcPushAll b0 reqs = some (some (reqs.foldl (fun b r => b.push r.1 r.2.1 r.2.2) Buffer.empty)) ∧
      (reqs.foldl (fun b r => b.push r.1 r.2.1 r.2.2) (Buffer.empty : Buffer κ ν φ)).fidxList.length = 2 :=
  ⟨Buffer.empty, nk_buffer_ctor, (nkcPushAll_keyed reqs _ nkcKeyed_empty).1,
    nkc_foldl_push_two_frames reqs _ C13.empty_live_frames⟩

/-- eviction: the interpreted `prune` (on a keyed buffer) keeps only entries whose frame tag is one of the live ones -/
theorem nk_buffer_prune_live (b : Buffer κ ν φ) (h : nkcKeyed b = true) :
    ∃ b', nkcPruneSeq b = some (some b') ∧
      ∀ kv ∈ b'.buf, ∃ f, lookup b'.fidx kv.1 = some f ∧ some f ∈ b'.fidxList := by
  refine ⟨b.prune, ?_, nkc_prune_entries_live b⟩
  rw [nk_buffer_prune, h]; rfl

end

/-! ### `OnlineDatabase.get_dset` -/

section
variable {κ D φ : Type} [DecidableEq κ] [DecidableEq φ]

/-- closed form of the run of `get_dset` for callees that are known functions (`pushF … = none`: `push` raises) -/
theorem nkcGetDsetWith_eq (contF : Buffer κ D φ → κ → Bool)
    (pushF : Buffer κ D φ → κ → D → φ → Option (Buffer κ D φ)) (getF : Buffer κ D φ → κ → Option D)
    (fmt : Int → κ) (dayStr : Int → φ) (openDs : κ → D) (b : Buffer κ D φ) (day : Int) :
    nkcGetDsetWith (fun b k => some (some (contF b k))) (fun b k v f => some (pushF b k v f))
        (fun b k => some (getF b k)) fmt dayStr openDs b day
      = some (if contF b (fmt day) then some (b, getF b (fmt day), false)
              else (pushF b (fmt day) (openDs (fmt day)) (dayStr day)).map
                (fun b' => (b', getF b' (fmt day), true))) := by
  cases hc : contF b (fmt day)
  · cases hp : pushF b (fmt day) (openDs (fmt day)) (dayStr day)
    · simp [nkcGetDsetWith, Gen.nk_get_dset_seq, nkcRun, nkcGo, nkcKnown, nkcGuard, nkcDsAtom, nkcDsStep, nkcNeed,
        nkcCall_some, returned, hc, hp]
    · simp [nkcGetDsetWith, Gen.nk_get_dset_seq, nkcRun, nkcGo, nkcKnown, nkcGuard, nkcDsAtom, nkcDsStep, nkcNeed,
        nkcCall_some, returned, hc, hp]
  · simp [nkcGetDsetWith, Gen.nk_get_dset_seq, nkcRun, nkcGo, nkcKnown, nkcGuard, nkcDsAtom, nkcDsStep, nkcNeed,
        nkcCall_some, returned, hc]

/-- `get_dset` with the three interpreted `Buffer` methods, all outcomes: it raises exactly when the file is not in
the buffer, its day is a new frame and the buffer is not keyed (the `KeyError` of `prune`) -/
theorem nk_get_dset_gen (fmt : Int → κ) (dayStr : Int → φ) (openDs : κ → D) (b : Buffer κ D φ) (day : Int) :
    nkcGetDsetSeq fmt dayStr openDs b day
      = some (if b.contains (fmt day) || (b.fidxList.contains (some (dayStr day)) || nkcKeyed b) then
                some (getVar openDs (fun _ => dayStr day) b (fmt day))
              else none) := by
  have h1 : (nkcContainsSeq : Buffer κ D φ → κ → _) = fun b k => some (some (b.contains k)) := by
    funext b k; exact nk_buffer_contains b k
  have h2 : (nkcPushSeq : Buffer κ D φ → κ → D → φ → _)
      = fun b k v f => some (if b.fidxList.contains (some f) || nkcKeyed b then some (b.push k v f) else none) := by
    funext b k v f; exact nk_buffer_push b k v f
  have h3 : (nkcGetitemSeq : Buffer κ D φ → κ → _) = fun b k => some (b.get? k) := by
    funext b k; exact nk_buffer_getitem b k
  unfold nkcGetDsetSeq
  rw [h1, h2, h3, nkcGetDsetWith_eq]
  unfold getVar
  cases hc : b.contains (fmt day)
  · cases hp : (b.fidxList.contains (some (dayStr day)) || nkcKeyed b) <;> simp [hc, hp]
  · simp [hc]

/-- **`get_dset`** is `Nk800.getVar` on the buffer of open data sets: key = the formatted file name, value =
`nc.Dataset(name)`, frame tag = the day string.  Hypothesis: the buffer is keyed (true from `Buffer()` on). -/
theorem nk_get_dset (fmt : Int → κ) (dayStr : Int → φ) (openDs : κ → D) (b : Buffer κ D φ) (day : Int)
    (h : nkcKeyed b = true) :
    nkcGetDsetSeq fmt dayStr openDs b day = some (some (getVar openDs (fun _ => dayStr day) b (fmt day))) ∧
    nkcKeyed (getVar openDs (fun _ => dayStr day) b (fmt day)).1 = true := by
  constructor
  · rw [nk_get_dset_gen, h]; simp
  · unfold getVar
    split
    · exact h
    · exact nkcKeyed_push _ _ _ _ h

/-- on a valid keyed buffer `get_dset` returns the data set of the file of that day, opened at most once while it stays
in the buffer (`C13.getVar_transparent`) -/
theorem nk_get_dset_valid (fmt : Int → κ) (dayStr : Int → φ) (openDs : κ → D) (b : Buffer κ D φ) (day : Int)
    (h : nkcKeyed b = true) (hv : C13.Valid openDs b) :
    ∃ b' opened, nkcGetDsetSeq fmt dayStr openDs b day = some (some (b', some (openDs (fmt day)), opened)) ∧
      opened = !b.contains (fmt day) ∧ nkcKeyed b' = true ∧ C13.Valid openDs b' := by
  obtain ⟨h1, h2⟩ := nk_get_dset fmt dayStr openDs b day h
  obtain ⟨h3, h4⟩ := C13.getVar_transparent openDs (fun _ => dayStr day) b (fmt day) hv
  have h5 := C13.getVar_reads_iff_miss openDs (fun _ => dayStr day) b (fmt day)
  refine ⟨(getVar openDs (fun _ => dayStr day) b (fmt day)).1, (getVar openDs (fun _ => dayStr day) b (fmt day)).2.2,
    ?_, h5, h2, h4⟩
  rw [h1, ← h3]

end

/-! ### `OnlineDatabase.request_dset` -/

section
variable {B D : Type}

theorem nk_request_body :
    nkcDefBody "request" Gen.nk_request_dset_seq = [([], "return", "when_finished(self.get_dset(time))")] := by
  decide

/-- **`request_dset`**, the worker thread run to completion at `th.start()` (the interleaving is not modelled): the
sequential effect is one `get_dset(time)` on the database and one call of `when_finished` with the data set; the started
thread is returned.  If `get_dset` raises (`g db = none`) the thread dies, the callback is not called, and the caller
does not notice. -/
theorem nk_request_dset (g : B → Option (B × D)) (db : B) :
    nkcRequestDsetSeq (fun b => some (g b)) db
      = some (some (match g db with
                    | some r => ⟨r.1, true, true, true, false, [r.2], true⟩
                    | none => ⟨db, true, true, true, true, [], true⟩)) := by
  unfold nkcRequestDsetSeq
  rw [nk_request_body]
  cases h : g db <;>
  simp [Gen.nk_request_dset_seq, nkcRun, nkcGo, nkcKnown, nkcGuard, nkcNoAtom, nkcReqAtom, nkcReqStep, nkcReqBodyStep,
    nkcCall_some, h]

end

/-! ### `OnlineDatabase.__init__`, `close`, `__del__` -/

section
variable {κ D φ κ' ν' φ' : Type} [DecidableEq κ] [DecidableEq φ] [DecidableEq κ'] [DecidableEq φ']

/-- `pattern or self.default_database` -/
def nkcPatternOr (pattern : Option String) (dflt : String) : String :=
  match pattern with
  | none => dflt
  | some p => if p = "" then dflt else p

/-- **`OnlineDatabase(pattern)`**: two empty buffers; the pattern is the default one for `None` and for `''` -/
theorem nk_db_ctor (pattern : Option String) (dflt : String) :
    (nkcDbCtorSeq pattern dflt : Option (Option (NkcDb κ D φ (Buffer κ' ν' φ'))))
      = some (some ⟨some Buffer.empty, Buffer.empty, nkcPatternOr pattern dflt⟩) := by
  unfold nkcDbCtorSeq
  rw [nk_buffer_ctor, nk_buffer_ctor]
  simp [nkcDbCtorWith, Gen.nk_db_ctor_seq, nkcRun, nkcGo, nkcKnown, nkcGuard, nkcNoAtom, nkcDbCtorStep, nkcCall,
    returned, NkcDbCtorSt.obj, nkcPatternOr]
  rfl

end

section
variable {κ D φ V : Type}
open Loops

def nkcCloseHdr : String := "for dset in self._dset_buf.buf.values()"
def nkcCloseBody : List Stmt := [([(true, nkcCloseHdr)], "expr", "dset.close()")]

theorem nkcClose_loop (b : Buffer κ D φ) :
    ∀ (m i : Nat) (s : NkcCloseSt κ D φ V), s.db.dsetBuf = some b → i + m = b.buf.length →
      ∃ d, iterate (fun s i => runBody nkcCloseI nkcCloseBody (nkcCloseI.bind s nkcCloseHdr i)) m i s
        = some (some ⟨s.db, d, s.closed ++ (b.buf.drop i).map (·.2)⟩) := by
  intro m
  induction m with
  | zero =>
    intro i s hs him
    refine ⟨s.dset, ?_⟩
    have : b.buf.drop i = [] := List.drop_eq_nil_of_le (by omega)
    rw [this]; simp [iterate]
  | succ m ih =>
    intro i s hs him
    have hi : i < b.buf.length := by omega
    have h1 : runBody nkcCloseI nkcCloseBody (nkcCloseI.bind s nkcCloseHdr i)
        = some (some ⟨s.db, some b.buf[i].2, s.closed ++ [b.buf[i].2]⟩) := by
      simp [runBody, nkcCloseBody, nkcCloseHdr, guardEnter, nkcCloseI, hs, hi]
    obtain ⟨d, h2⟩ := ih (i + 1) ⟨s.db, some b.buf[i].2, s.closed ++ [b.buf[i].2]⟩ hs (by omega)
    refine ⟨d, ?_⟩
    simp only [iterate, h1]
    rw [h2, List.drop_eq_getElem_cons hi]
    simp only [List.map_cons, List.append_assoc, List.singleton_append]

/-- **`close()`** on an open database: every data set of the buffer is closed, in the order of the dict, and
`_dset_buf` is `None` afterwards (`_vars_buf` and `pattern` stay) -/
theorem nk_db_close (db : NkcDb κ D φ V) (b : Buffer κ D φ) (h : db.dsetBuf = some b) :
    nkcDbCloseSeq db = some (some ({ db with dsetBuf := none }, b.buf.map (·.2))) := by
  have hrun : Loops.run nkcCloseI Gen.nk_db_close_seq (⟨db, none, []⟩ : NkcCloseSt κ D φ V)
      = runBlocks nkcCloseI [.loop nkcCloseHdr nkcCloseBody, .plain ([], "assign", "self._dset_buf = None")]
          ⟨db, none, []⟩ := rfl
  have hg : outerGuard (nkcCloseI (κ := κ) (D := D) (φ := φ) (V := V)).isLoop nkcCloseBody = [] := rfl
  have ht : (nkcCloseI.trips (⟨db, none, []⟩ : NkcCloseSt κ D φ V) nkcCloseHdr) = b.buf.length := by
    simp [nkcCloseI, h]
  obtain ⟨d, hl⟩ := nkcClose_loop (V := V) b b.buf.length 0 ⟨db, none, []⟩ h (by omega)
  unfold nkcDbCloseSeq
  rw [hrun]
  simp only [runBlocks, hg, guardEnter, ht, hl]
  simp [nkcCloseI]

/-- a second `close()` (what `__del__` does after an explicit `close()`) raises: `None.buf` -/
theorem nk_db_close_twice (db : NkcDb κ D φ V) (h : db.dsetBuf = none) : nkcDbCloseSeq db = some none := by
  have hrun : Loops.run nkcCloseI Gen.nk_db_close_seq (⟨db, none, []⟩ : NkcCloseSt κ D φ V)
      = runBlocks nkcCloseI [.loop nkcCloseHdr nkcCloseBody, .plain ([], "assign", "self._dset_buf = None")]
          ⟨db, none, []⟩ := rfl
  have hg : outerGuard (nkcCloseI (κ := κ) (D := D) (φ := φ) (V := V)).isLoop nkcCloseBody = [] := rfl
  have ht : (nkcCloseI.trips (⟨db, none, []⟩ : NkcCloseSt κ D φ V) nkcCloseHdr) = 1 := by
    simp [nkcCloseI, h]
  have h1 : runBody nkcCloseI nkcCloseBody (nkcCloseI.bind (⟨db, none, []⟩ : NkcCloseSt κ D φ V) nkcCloseHdr 0)
      = some none := by
    simp [runBody, nkcCloseBody, nkcCloseHdr, guardEnter, nkcCloseI, h]
  unfold nkcDbCloseSeq
  rw [hrun]
  simp only [runBlocks, hg, guardEnter, ht, iterate, h1]
  rfl

/-- **`__del__`** is `close` -/
theorem nk_db_del {S : Type} (close : S → Option (Option S)) (s : S) : nkcDbDelSeq close s = close s := by
  rcases h : close s with _ | _ | s' <;>
  simp [nkcDbDelSeq, Gen.nk_db_del_seq, nkcRun, nkcGo, nkcKnown, nkcGuard, nkcNoAtom, nkcDelStep, h]

/-- **`Forcing.close`** does nothing (the two databases are only closed by `__del__`) -/
theorem nk_forcing_close {S : Type} (s : S) : nkcForcingCloseSeq s = some (some s) := rfl

end

/-! ### `Grid._init_gridlimits`, `ingrid`, `z2k`, `ll2xy`, `atsea`, `_init_proj` -/

/-- **`_init_gridlimits`**: `xmin = ymin = 0`, `xmax`, `ymax` = the sizes of the dimensions `X`, `Y` -/
theorem nk_init_gridlimits (dimX dimY : Int) :
    nkcInitGridlimitsSeq dimX dimY = some (some ⟨0, dimX, 0, dimY⟩) := by
  simp [nkcInitGridlimitsSeq, Gen.nk_init_gridlimits_seq, nkcRun, nkcGo, nkcKnown, nkcGuard, nkcNoAtom, nkcLimStep,
    returned, NkcLimSt.obj]

section
variable {α : Type}

/-- **`ingrid`** (closed form): the four strict comparisons, half a cell inside the limits -/
theorem nk_ingrid [Add α] [Sub α] [LT α] [DecidableLT α] [OfScientific α] [HasOfInt α] (l : NkcLimits) (x y : α) :
    nkcIngridSeq l x y
      = some (some (((decide (ofInt l.xmin + 0.5 < x) && decide (x < ofInt l.xmax - 0.5))
          && decide (ofInt l.ymin + 0.5 < y)) && decide (y < ofInt l.ymax - 0.5))) := by
  simp [nkcIngridSeq, Gen.nk_ingrid_seq, nkcRun, nkcGo, nkcKnown, nkcGuard, nkcNoAtom, nkcIngridStep, returned]

/-- **`z2k`** of `Grid` and of `Forcing` (the same two statements): `np.interp` of the depth in the table of the level
depths against the level numbers `0 … n-1` — a fractional level index, not rounded, constant outside the table
(`Ladim.interp`; `C13.z2k_monotone`, `z2k_exact_first`, `z2k_tail`, `z2k_clamps_left` are theorems about it); an empty
table raises -/
theorem nk_grid_z2k [Add α] [Sub α] [Mul α] [Div α] [LT α] [DecidableLT α] [HasOfInt α] (depth : List α) (k : α) :
    nkcZ2kSeq Gen.nk_grid_z2k_seq depth k = some (interp depth (nkcArange depth.length) k) := by
  cases h : interp depth (nkcArange depth.length) k <;>
  simp [nkcZ2kSeq, Gen.nk_grid_z2k_seq, nkcRun, nkcGo, nkcKnown, nkcGuard, nkcNoAtom, nkcZ2kStep, nkcNeed, returned, h]

theorem nk_forcing_z2k [Add α] [Sub α] [Mul α] [Div α] [LT α] [DecidableLT α] [HasOfInt α] (depth : List α) (k : α) :
    nkcZ2kSeq Gen.nk_forcing_z2k_seq depth k = some (interp depth (nkcArange depth.length) k) := by
  cases h : interp depth (nkcArange depth.length) k <;>
  simp [nkcZ2kSeq, Gen.nk_forcing_z2k_seq, nkcRun, nkcGo, nkcKnown, nkcGuard, nkcNoAtom, nkcZ2kStep, nkcNeed, returned,
    h]

/-- **`ll2xy`**: the projected coordinates divided by the metric of cell `(0, 0)` -/
theorem nk_ll2xy [Div α] (transform : α → α → α × α) (m : Option (α × α)) (lon lat : α) :
    nkcLl2xySeq transform (some m) lon lat
      = some (m.map (fun d => ((transform lon lat).1 / d.1, (transform lon lat).2 / d.2))) := by
  cases m <;>
  simp [nkcLl2xySeq, Gen.nk_ll2xy_seq, nkcRun, nkcGo, nkcKnown, nkcGuard, nkcLlAtom, nkcLlStep, nkcCall, returned]

/-- with the interpreted `sample_metric` and the limits of `_init_gridlimits` on a grid of at least 2 × 2 cells -/
theorem nk_ll2xy_grid [Div α] (transform : α → α → α × α) (dimX dimY : Int) (dxArr dyArr : Int → α) (lon lat : α)
    (hx : 2 ≤ dimX) (hy : 2 ≤ dimY) :
    nkcLl2xySeq transform (nkcMetric00 ⟨0, dimX, 0, dimY⟩ dxArr dyArr) lon lat
      = some (some ((transform lon lat).1 / dxArr 0, (transform lon lat).2 / dyArr 0)) := by
  have hm : nkcMetric00 ⟨0, dimX, 0, dimY⟩ dxArr dyArr = some (some (dxArr 0, dyArr 0)) := by
    unfold nkcMetric00
    rw [@nk_sample_metric Int α ⟨id⟩ ⟨id⟩ 0 dimX 0 dimY dxArr dyArr 0 0 rfl rfl]
    have h1 : metricIndex (dimX - 2) 0 = 0 := by unfold metricIndex; omega
    have h2 : metricIndex (dimY - 2) 0 = 0 := by unfold metricIndex; omega
    simp [roundInt, HasRound.round, HasTrunc.trunc, h1, h2]
  rw [hm, nk_ll2xy]; rfl

/-- **`atsea`**: strictly deeper than 5 -/
theorem nk_atsea [LT α] [DecidableLT α] [HasOfInt α] (h : Option α) :
    nkcAtseaSeq (some h) = some (h.map (fun h => decide (ofInt 5 < h))) := by
  cases h <;>
  simp [nkcAtseaSeq, Gen.nk_atsea_seq, nkcRun, nkcGo, nkcKnown, nkcGuard, nkcNoAtom, nkcAtseaStep, nkcCall, returned]

/-- with the interpreted `sample_depth`: the depth of the cell `(round y, round x)` -/
theorem nk_atsea_grid {β : Type} [HasRound α] [HasTrunc α] [LT β] [DecidableLT β] [HasOfInt β]
    (hArr : Int → Int → β) (x y : α) :
    nkcAtseaSeq (sampleDepthSeq hArr x y) = some (some (decide (ofInt 5 < hArr (roundInt y) (roundInt x)))) := by
  rw [nk_sample_depth, nk_atsea]; rfl

end

section
variable {D P C T : Type}

/-- **`_init_proj`**: the grid's CRS from the `proj4` attribute of `projection_stere`, WGS84 = EPSG 4326, both
transformers with `always_xy=True`; `to_wgs84` goes grid → WGS84, `from_wgs84` the other way -/
theorem nk_init_proj (proj4Of : D → P) (fromProj4 : P → C) (fromEpsg : Int → C) (mkTransformer : C → C → T) (dset : D) :
    nkcInitProjSeq proj4Of fromProj4 fromEpsg mkTransformer dset
      = some (some (mkTransformer (fromProj4 (proj4Of dset)) (fromEpsg 4326),
                    mkTransformer (fromEpsg 4326) (fromProj4 (proj4Of dset)))) := by
  simp [nkcInitProjSeq, Gen.nk_init_proj_seq, nkcRun, nkcGo, nkcKnown, nkcGuard, nkcNoAtom, nkcProjStep, nkcNeed,
    returned, NkcProjSt.obj]

end

/-! ### the constructors of `Grid` and `Forcing` -/

section
variable {τ Db D Pr H α G : Type} [Sub α]

set_option maxRecDepth 100000 in
/-- the statements of `Grid.__init__`, one by one -/
theorem nkcGridCtorStep_eqs (cfg : NkcConfig τ) (dbCtor : Option String → Option (Option Db))
    (getDset : Db → τ → Option (Option (Db × D))) (initProj : D → Option (Option Pr))
    (initLimits : D → Option (Option NkcLimits)) (readH : D → H) (readDepth readX readY : D → List α)
    (s : NkcGridCtorSt Db D Pr H α) :
    let step := nkcGridCtorStep cfg dbCtor getDset initProj initLimits readH readDepth readX readY
    step s "assign" "server = config['gridforce'].get('input_file', None)"
        = some (cfg.gridforce.map (fun f => { s with server := some f })) ∧
    step s "assign" "self.dbase = OnlineDatabase(server)"
        = (match s.server with
           | none => some none
           | some f => nkcCall (dbCtor f) (fun db => { s with dbase := some db })) ∧
    step s "assign" "dset = self.dbase.get_dset(config['start_time'])"
        = (match s.dbase, cfg.startTime with
           | some db, some t0 => nkcCall (getDset db t0) (fun r => { s with dbase := some r.1, dset := some r.2 })
           | _, _ => some none) ∧
    step s "expr" "self._init_proj(dset)"
        = (match s.dset with
           | none => some none
           | some d => nkcCall (initProj d) (fun p => { s with proj := some p })) ∧
    step s "expr" "self._init_gridlimits(dset)"
        = (match s.dset with
           | none => some none
           | some d => nkcCall (initLimits d) (fun l => { s with limits := some l })) ∧
    step s "assign" "self.dvars = dict(h=dset.variables['h'][:].filled(0), depth=dset.variables['depth'][:].filled(0), dx=np.diff(dset.variables['X'][:].filled(0)), dy=np.diff(dset.variables['Y'][:].filled(0)))"
        = nkcNeed s.dset (fun d => some (some { s with dvars := some (nkcDvarsOf readH readDepth readX readY d) })) :=
  ⟨rfl, rfl, rfl, rfl, rfl, rfl⟩

set_option maxRecDepth 100000 in
/-- **`Grid(config)`** when every callee succeeds.  Configuration keys: `config['gridforce']` must exist, its
`input_file` is optional (default `None`, i.e. the default database of `OnlineDatabase`); `config['start_time']` must
exist.  The grid owns a database of its own; `get_dset` is called once, for the start time; projection, limits and the
four arrays of `dvars` come from that data set. -/
theorem nk_grid_ctor (cfg : NkcConfig τ) (dbCtor : Option String → Option (Option Db))
    (getDset : Db → τ → Option (Option (Db × D))) (initProj : D → Option (Option Pr))
    (initLimits : D → Option (Option NkcLimits)) (readH : D → H) (readDepth readX readY : D → List α)
    (server : Option String) (t0 : τ) (db db' : Db) (d : D) (pr : Pr) (l : NkcLimits)
    (hg : cfg.gridforce = some server) (ht : cfg.startTime = some t0)
    (hdb : dbCtor server = some (some db)) (hds : getDset db t0 = some (some (db', d)))
    (hpr : initProj d = some (some pr)) (hl : initLimits d = some (some l)) :
    nkcGridCtorSeq cfg dbCtor getDset initProj initLimits readH readDepth readX readY
      = some (some ⟨db', pr, l, ⟨readH d, readDepth d, nkcDiff (readX d), nkcDiff (readY d)⟩⟩) := by
  have e := nkcGridCtorStep_eqs cfg dbCtor getDset initProj initLimits readH readDepth readX readY
  simp only at e
  simp [nkcGridCtorSeq, Gen.nk_grid_ctor_seq, nkcRun, nkcGo, nkcKnown, nkcGuard, nkcNoAtom, e, nkcNeed,
    nkcCall, returned, NkcGridCtorSt.obj, nkcDvarsOf, hg, ht, hdb, hds, hpr, hl]

set_option maxRecDepth 100000 in
/-- no `gridforce` in the configuration: `KeyError` at the first statement -/
theorem nk_grid_ctor_no_gridforce (cfg : NkcConfig τ) (dbCtor : Option String → Option (Option Db))
    (getDset : Db → τ → Option (Option (Db × D))) (initProj : D → Option (Option Pr))
    (initLimits : D → Option (Option NkcLimits)) (readH : D → H) (readDepth readX readY : D → List α)
    (hg : cfg.gridforce = none) :
    nkcGridCtorSeq cfg dbCtor getDset initProj initLimits readH readDepth readX readY = some none := by
  have e := nkcGridCtorStep_eqs cfg dbCtor getDset initProj initLimits readH readDepth readX readY
  simp only at e
  simp [nkcGridCtorSeq, Gen.nk_grid_ctor_seq, nkcRun, nkcGo, nkcKnown, nkcGuard, nkcNoAtom, e, nkcNeed,
    returned, hg]

set_option maxRecDepth 100000 in
/-- no `start_time` in the configuration: `KeyError` at the third statement (after the database object is made) -/
theorem nk_grid_ctor_no_start (cfg : NkcConfig τ) (dbCtor : Option String → Option (Option Db))
    (getDset : Db → τ → Option (Option (Db × D))) (initProj : D → Option (Option Pr))
    (initLimits : D → Option (Option NkcLimits)) (readH : D → H) (readDepth readX readY : D → List α)
    (server : Option String) (db : Db)
    (hg : cfg.gridforce = some server) (ht : cfg.startTime = none) (hdb : dbCtor server = some (some db)) :
    nkcGridCtorSeq cfg dbCtor getDset initProj initLimits readH readDepth readX readY = some none := by
  have e := nkcGridCtorStep_eqs cfg dbCtor getDset initProj initLimits readH readDepth readX readY
  simp only at e
  simp [nkcGridCtorSeq, Gen.nk_grid_ctor_seq, nkcRun, nkcGo, nkcKnown, nkcGuard, nkcNoAtom, e, nkcNeed, nkcCall,
    returned, hg, ht, hdb]

set_option maxRecDepth 100000 in
/-- the statements of `Forcing.__init__`, one by one -/
theorem nkcForcingCtorStep_eqs (cfg : NkcConfig τ) (grid : G) (dbCtor : Option String → Option (Option Db))
    (getDset : Db → τ → Option (Option (Db × D))) (readH : D → H) (readDepth readX readY : D → List α)
    (s : NkcForcingCtorSt τ Db D G H α) :
    let step := nkcForcingCtorStep cfg grid dbCtor getDset readH readDepth readX readY
    step s "assign" "self.timeconfig = dict(start=config['start_time'], step=config['dt'])"
        = (match cfg.startTime, cfg.dt with
           | some t0, some dt => some (some { s with timeconfig := some (t0, dt) })
           | _, _ => some none) ∧
    step s "assign" "self.current_time = None" = some (some { s with currentTime := some none }) ∧
    step s "assign" "self._grid = grid" = some (some { s with grid := some grid }) ∧
    step s "assign" "server = config['gridforce'].get('input_file', None)"
        = some (cfg.gridforce.map (fun f => { s with server := some f })) ∧
    step s "assign" "self.dbase = OnlineDatabase(server)"
        = (match s.server with
           | none => some none
           | some f => nkcCall (dbCtor f) (fun db => { s with dbase := some db })) ∧
    step s "assign" "dset = self.dbase.get_dset(config['start_time'])"
        = (match s.dbase, cfg.startTime with
           | some db, some t0 => nkcCall (getDset db t0) (fun r => { s with dbase := some r.1, dset := some r.2 })
           | _, _ => some none) ∧
    step s "assign" "self.dvars = dict(h=dset.variables['h'][:].filled(0), depth=dset.variables['depth'][:].filled(0), dx=np.diff(dset.variables['X'][:].filled(0)), dy=np.diff(dset.variables['Y'][:].filled(0)))"
        = nkcNeed s.dset (fun d => some (some { s with dvars := some (nkcDvarsOf readH readDepth readX readY d) })) :=
  ⟨rfl, rfl, rfl, rfl, rfl, rfl, rfl⟩

set_option maxRecDepth 100000 in
/-- **`Forcing(config, grid)`** when every callee succeeds.  Keys: `start_time`, `dt`, `gridforce` (its `input_file`
optional).  `current_time` is `None` (until `update`); the forcing opens a database of its own (a second one, next to
the grid's) and reads the same four arrays. -/
theorem nk_forcing_ctor (cfg : NkcConfig τ) (grid : G) (dbCtor : Option String → Option (Option Db))
    (getDset : Db → τ → Option (Option (Db × D))) (readH : D → H) (readDepth readX readY : D → List α)
    (server : Option String) (t0 : τ) (dt : Int) (db db' : Db) (d : D)
    (hg : cfg.gridforce = some server) (ht : cfg.startTime = some t0) (hdt : cfg.dt = some dt)
    (hdb : dbCtor server = some (some db)) (hds : getDset db t0 = some (some (db', d))) :
    nkcForcingCtorSeq cfg grid dbCtor getDset readH readDepth readX readY
      = some (some ⟨t0, dt, none, grid, db', ⟨readH d, readDepth d, nkcDiff (readX d), nkcDiff (readY d)⟩⟩) := by
  have e := nkcForcingCtorStep_eqs cfg grid dbCtor getDset readH readDepth readX readY
  simp only at e
  simp [nkcForcingCtorSeq, Gen.nk_forcing_ctor_seq, nkcRun, nkcGo, nkcKnown, nkcGuard, nkcNoAtom, e,
    nkcNeed, nkcCall, returned, NkcForcingCtorSt.obj, nkcDvarsOf, hg, ht, hdt, hdb, hds]

set_option maxRecDepth 100000 in
/-- no `start_time` or no `dt`: `KeyError` at the first statement -/
theorem nk_forcing_ctor_no_time (cfg : NkcConfig τ) (grid : G) (dbCtor : Option String → Option (Option Db))
    (getDset : Db → τ → Option (Option (Db × D))) (readH : D → H) (readDepth readX readY : D → List α)
    (h : cfg.startTime = none ∨ cfg.dt = none) :
    nkcForcingCtorSeq cfg grid dbCtor getDset readH readDepth readX readY = some none := by
  have e := nkcForcingCtorStep_eqs cfg grid dbCtor getDset readH readDepth readX readY
  simp only at e
  rcases h with h | h
  · simp [nkcForcingCtorSeq, Gen.nk_forcing_ctor_seq, nkcRun, nkcGo, nkcKnown, nkcGuard, nkcNoAtom, e, nkcNeed,
      returned, h]
  · cases ht : cfg.startTime <;>
    simp [nkcForcingCtorSeq, Gen.nk_forcing_ctor_seq, nkcRun, nkcGo, nkcKnown, nkcGuard, nkcNoAtom, e, nkcNeed,
      returned, h, ht]

end

/-! ### `Grid(config)` from scratch: every callee interpreted from its generated sequence -/

section
variable {κ D φ κ' ν' φ' : Type} [DecidableEq κ] [DecidableEq φ] [DecidableEq κ'] [DecidableEq φ']

/-- `db.get_dset(time)` on an open database with a keyed, valid buffer of data sets: the data set of the file of the
day; the buffer stays keyed and valid -/
theorem nk_db_get_dset {V : Type} (fmt : String → Int → κ) (dayStr : Int → φ) (openDs : κ → D)
    (db : NkcDb κ D φ V) (b : Buffer κ D φ) (day : Int) (h : db.dsetBuf = some b) (hk : nkcKeyed b = true)
    (hv : C13.Valid openDs b) :
    ∃ b', nkcDbGetDset fmt dayStr openDs db day
        = some (some ({ db with dsetBuf := some b' }, openDs (fmt db.pattern day))) ∧
      b' = (getVar openDs (fun _ => dayStr day) b (fmt db.pattern day)).1 ∧ nkcKeyed b' = true ∧
      C13.Valid openDs b' := by
  obtain ⟨h1, h2⟩ := nk_get_dset (fmt db.pattern) dayStr openDs b day hk
  obtain ⟨h3, h4⟩ := C13.getVar_transparent openDs (fun _ => dayStr day) b (fmt db.pattern day) hv
  refine ⟨_, ?_, rfl, h2, h4⟩
  unfold nkcDbGetDset
  rw [h]
  simp only [h1]
  generalize getVar openDs (fun _ => dayStr day) b (fmt db.pattern day) = r at h3
  obtain ⟨r1, r2, r3⟩ := r
  simp only at h3
  subst h3
  rfl

variable {τ P C T H α : Type} [Sub α]

/-- **`Grid(config)`**, all callees interpreted (`OnlineDatabase(…)` with `Buffer()`, `get_dset` with the `Buffer`
methods, `_init_proj`, `_init_gridlimits`).  Hypotheses: the two configuration keys exist.  The database pattern is
`input_file`, or the default database when `input_file` is missing, `None` or empty; exactly one file — that of the
start day — is opened and is the only entry of the data-set buffer (frame tag = the day); limits `0 … dim`. -/
theorem nk_grid_ctor_full (cfg : NkcConfig τ) (dflt : String) (fmt : String → Int → κ) (dayStr : Int → φ)
    (openDs : κ → D) (dayOf : τ → Int) (proj4Of : D → P) (fromProj4 : P → C) (fromEpsg : Int → C)
    (mkTransformer : C → C → T) (dimX dimY : D → Int) (readH : D → H) (readDepth readX readY : D → List α)
    (server : Option String) (t0 : τ) (hg : cfg.gridforce = some server) (ht : cfg.startTime = some t0) :
    let pattern := nkcPatternOr server dflt
    let pat := fmt pattern (dayOf t0)
    let d := openDs pat
    nkcGridCtorSeq cfg (fun p => (nkcDbCtorSeq p dflt : Option (Option (NkcDb κ D φ (Buffer κ' ν' φ')))))
        (fun db t => nkcDbGetDset fmt dayStr openDs db (dayOf t))
        (nkcInitProjSeq proj4Of fromProj4 fromEpsg mkTransformer)
        (fun d => nkcInitGridlimitsSeq (dimX d) (dimY d)) readH readDepth readX readY
      = some (some ⟨⟨some ((Buffer.empty : Buffer κ D φ).push pat d (dayStr (dayOf t0))), Buffer.empty, pattern⟩,
          (mkTransformer (fromProj4 (proj4Of d)) (fromEpsg 4326), mkTransformer (fromEpsg 4326) (fromProj4 (proj4Of d))),
          ⟨0, dimX d, 0, dimY d⟩, ⟨readH d, readDepth d, nkcDiff (readX d), nkcDiff (readY d)⟩⟩) := by
  intro pattern pat d
  obtain ⟨b', h1, h2, _, _⟩ := nk_db_get_dset (V := Buffer κ' ν' φ') fmt dayStr openDs
    ⟨some Buffer.empty, Buffer.empty, pattern⟩ Buffer.empty (dayOf t0) rfl nkcKeyed_empty (C13.valid_empty openDs)
  have hb : b' = (Buffer.empty : Buffer κ D φ).push pat d (dayStr (dayOf t0)) := by rw [h2]; rfl
  rw [hb] at h1
  exact nk_grid_ctor cfg _ _ _ _ readH readDepth readX readY server t0 _ _ d _ _ hg ht (nk_db_ctor server dflt) h1
    (nk_init_proj proj4Of fromProj4 fromEpsg mkTransformer d) (nk_init_gridlimits (dimX d) (dimY d))

end

/-! ### `ingrid`, `z2k` over an ordered field -/

section
variable {α : Type} [Field α] [LinearOrder α] [IsStrictOrderedRing α] [HasOfInt α]

/-- with the limits of `_init_gridlimits`: inside = at least half a cell away from the outermost grid points -/
theorem nk_ingrid_iff (hof : ∀ i : Int, (ofInt i : α) = (i : α)) (dimX dimY : Int) (x y : α) :
    nkcIngridSeq ⟨0, dimX, 0, dimY⟩ x y = some (some true) ↔
      (1 / 2 < x ∧ x < (dimX : α) - 1 / 2) ∧ (1 / 2 < y ∧ y < (dimY : α) - 1 / 2) := by
  have h05 : (0.5 : α) = 1 / 2 := by norm_num
  rw [nk_ingrid]
  simp only [Option.some.injEq, Bool.and_eq_true, decide_eq_true_eq, hof, h05, Int.cast_zero, zero_add]
  tauto

theorem nkcArange_succ (n : Nat) : (nkcArange (n + 1) : List α) = ofInt 0 :: (List.range n).map (fun i => ofInt (Int.ofNat (i + 1))) := by
  unfold nkcArange
  rw [List.range_succ_eq_map, List.map_cons, List.map_map]
  rfl

/-- clipping of `z2k` above the first level: a depth shallower than the first tabulated depth gets level `0` -/
theorem nk_z2k_clamps_left (d0 : α) (ds : List α) (k : α) (h : k < d0) :
    nkcZ2kSeq Gen.nk_grid_z2k_seq (d0 :: ds) k = some (some (ofInt 0)) := by
  rw [nk_grid_z2k, List.length_cons, nkcArange_succ, C13.z2k_clamps_left d0 _ ds _ k h]

/-- exact at the first level -/
theorem nk_z2k_first (d0 d1 : α) (ds : List α) (h : d0 < d1) :
    nkcZ2kSeq Gen.nk_grid_z2k_seq (d0 :: d1 :: ds) d0 = some (some (ofInt 0)) := by
  rw [nk_grid_z2k, List.length_cons, List.length_cons, nkcArange_succ, List.range_succ_eq_map, List.map_cons,
    C13.z2k_exact_first d0 d1 _ _ ds _ h]

end

end Bridge
