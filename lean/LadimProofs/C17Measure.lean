import Mathlib.MeasureTheory.Measure.Lebesgue.Basic
import Mathlib.MeasureTheory.Measure.Lebesgue.EqHaar
import Mathlib.MeasureTheory.Measure.Haar.OfBasis
import Mathlib.MeasureTheory.Measure.Prod
import Mathlib.MeasureTheory.Group.Measure
import Mathlib.MeasureTheory.Measure.Haar.Unique
import Mathlib.LinearAlgebra.Determinant
import Mathlib.LinearAlgebra.Matrix.Determinant.Basic
import LadimModel.Release.Sample
import LadimProofs.C17

open MeasureTheory Set

namespace C17M

/-- unit square -/
def Q : Set (ℝ × ℝ) := Set.Ico 0 1 ×ˢ Set.Ico 0 1

/-- closed unit triangle -/
def Tunit : Set (ℝ × ℝ) := {p | 0 ≤ p.1 ∧ 0 ≤ p.2 ∧ p.1 + p.2 ≤ 1}

/-- the fold of the unit square onto the unit triangle -/
noncomputable def fold : ℝ × ℝ → ℝ × ℝ :=
  fun p => if 1 < p.1 + p.2 then (1 - p.1, 1 - p.2) else p

theorem fold_eq_foldUnit (p : ℝ × ℝ) : fold p = Ladim.Sample.foldUnit p.1 p.2 := by
  unfold fold Ladim.Sample.foldUnit
  norm_num

/-- the point reflection `p ↦ (1,1) - p` -/
def refl : ℝ × ℝ → ℝ × ℝ := Prod.map (fun x => 1 - x) (fun x => 1 - x)

theorem measurePreserving_refl : MeasurePreserving refl volume volume := by
  rw [Measure.volume_eq_prod]
  exact (Measure.measurePreserving_sub_left volume (1 : ℝ)).prod (Measure.measurePreserving_sub_left volume (1 : ℝ))

theorem measurable_fold : Measurable fold := by
  unfold fold
  refine Measurable.ite ?_ ?_ measurable_id
  · exact measurableSet_lt measurable_const (measurable_fst.add measurable_snd)
  · exact (measurable_const.sub measurable_fst).prodMk (measurable_const.sub measurable_snd)

theorem measurableSet_Q : MeasurableSet Q := measurableSet_Ico.prod measurableSet_Ico

theorem measurableSet_Tunit : MeasurableSet Tunit := by
  unfold Tunit
  refine (measurableSet_le measurable_const measurable_fst).inter
    ((measurableSet_le measurable_const measurable_snd).inter
      (measurableSet_le (measurable_fst.add measurable_snd) measurable_const))

/-- 1. -/
theorem fold_maps_square_into_triangle : ∀ p ∈ Q, fold p ∈ Tunit := by
  rintro ⟨s, t⟩ ⟨⟨hs0, hs1⟩, ⟨ht0, ht1⟩⟩
  simp only at hs0 hs1 ht0 ht1
  unfold fold Tunit
  simp only
  split_ifs with h
  · simp only [mem_ofPred_eq]; refine ⟨by linarith, by linarith, by linarith⟩
  · simp only [mem_ofPred_eq]; exact ⟨hs0, ht0, by linarith⟩

/-- the exceptional null set: the anti-diagonal and the two far edges -/
def N : Set (ℝ × ℝ) := {p | p.1 + p.2 = 1} ∪ {p | p.1 = 1} ∪ {p | p.2 = 1}

theorem measurableSet_N : MeasurableSet N := by
  unfold N
  refine ((measurableSet_eq_fun (measurable_fst.add measurable_snd) measurable_const).union
    (measurableSet_eq_fun measurable_fst measurable_const)).union
    (measurableSet_eq_fun measurable_snd measurable_const)

theorem volume_diag : volume {p : ℝ × ℝ | p.1 + p.2 = 1} = 0 := by
  rw [Measure.volume_eq_prod]
  refine Measure.measure_prod_null_of_ae_null
    (measurableSet_eq_fun (measurable_fst.add measurable_snd) measurable_const) ?_
  refine Filter.Eventually.of_forall (fun x => ?_)
  have : (Prod.mk x ⁻¹' {p : ℝ × ℝ | p.1 + p.2 = 1}) = {1 - x} := by
    ext y; simp only [mem_preimage, mem_ofPred_eq, mem_singleton_iff]
    constructor <;> intro h <;> linarith
  simp [this]

theorem volume_edge1 : volume {p : ℝ × ℝ | p.1 = 1} = 0 := by
  have : {p : ℝ × ℝ | p.1 = 1} = ({1} : Set ℝ) ×ˢ (univ : Set ℝ) := by
    ext p; simp
  rw [this, Measure.volume_eq_prod, Measure.prod_prod]; simp

theorem volume_edge2 : volume {p : ℝ × ℝ | p.2 = 1} = 0 := by
  have : {p : ℝ × ℝ | p.2 = 1} = (univ : Set ℝ) ×ˢ ({1} : Set ℝ) := by
    ext p; simp
  rw [this, Measure.volume_eq_prod, Measure.prod_prod]; simp

theorem volume_N : volume N = 0 := by
  unfold N
  refine measure_union_null (measure_union_null volume_diag volume_edge1) volume_edge2

/-- 2. the fold pushes the uniform law of the square to density 2 on the unit triangle -/
theorem volume_fold_preimage (A : Set (ℝ × ℝ)) (hA : MeasurableSet A) (hsub : A ⊆ Tunit) :
    volume (fold ⁻¹' A ∩ Q) = 2 * volume A := by
  have hRA : MeasurableSet (refl ⁻¹' A) := measurePreserving_refl.measurable hA
  have hU : MeasurableSet {p : ℝ × ℝ | 1 < p.1 + p.2} :=
    measurableSet_lt measurable_const (measurable_fst.add measurable_snd)
  -- decomposition
  have hdec : fold ⁻¹' A ∩ Q =
      (A ∩ Q ∩ {p | 1 < p.1 + p.2}ᶜ) ∪ (refl ⁻¹' A ∩ Q ∩ {p | 1 < p.1 + p.2}) := by
    ext p
    simp only [mem_inter_iff, mem_preimage, mem_union, mem_compl_iff, mem_ofPred_eq, fold, refl,
      Prod.map]
    by_cases h : 1 < p.1 + p.2
    · simp [h]
    · simp [h]
  have hdisj : Disjoint (A ∩ Q ∩ {p | 1 < p.1 + p.2}ᶜ) (refl ⁻¹' A ∩ Q ∩ {p | 1 < p.1 + p.2}) := by
    rw [Set.disjoint_left]
    rintro p ⟨_, h1⟩ ⟨_, h2⟩
    exact h1 h2
  -- the lower half
  have h1 : volume (A ∩ Q ∩ {p | 1 < p.1 + p.2}ᶜ) = volume A := by
    apply le_antisymm
    · exact measure_mono (fun p hp => hp.1.1)
    · rw [← measure_sdiff_null (s := A) volume_N]
      apply measure_mono
      rintro ⟨s, t⟩ ⟨hpA, hpN⟩
      obtain ⟨h0s, h0t, hst⟩ := hsub hpA
      simp only [N, mem_union, mem_ofPred_eq, not_or] at hpN h0s h0t hst
      obtain ⟨⟨hd, he1⟩, he2⟩ := hpN
      have hlt : s + t < 1 := lt_of_le_of_ne hst hd
      refine ⟨⟨hpA, ⟨⟨h0s, by linarith⟩, ⟨h0t, by linarith⟩⟩⟩, ?_⟩
      simp only [mem_compl_iff, mem_ofPred_eq, not_lt]
      exact hst
  -- the upper half
  have h2 : volume (refl ⁻¹' A ∩ Q ∩ {p | 1 < p.1 + p.2}) = volume A := by
    rw [← measurePreserving_refl.measure_preimage hA.nullMeasurableSet]
    apply le_antisymm
    · exact measure_mono (fun p hp => hp.1.1)
    · rw [← measure_sdiff_null (s := refl ⁻¹' A) volume_N]
      apply measure_mono
      rintro ⟨s, t⟩ ⟨hpA, hpN⟩
      have hT := hsub hpA
      simp only [refl, Prod.map, Tunit, mem_ofPred_eq] at hT
      obtain ⟨h0s, h0t, hst⟩ := hT
      simp only [N, mem_union, mem_ofPred_eq, not_or] at hpN
      obtain ⟨⟨hd, he1⟩, he2⟩ := hpN
      have hlt : 1 < s + t := lt_of_le_of_ne (by linarith) (Ne.symm hd)
      have hs1 : s < 1 := lt_of_le_of_ne (by linarith) he1
      have ht1 : t < 1 := lt_of_le_of_ne (by linarith) he2
      exact ⟨⟨hpA, ⟨⟨by linarith, hs1⟩, ⟨by linarith, ht1⟩⟩⟩, hlt⟩
  rw [hdec, measure_union hdisj ((hRA.inter measurableSet_Q).inter hU), h1, h2, two_mul]

/-! ### Volumes of the square and the unit triangle -/

theorem volume_Q : volume Q = 1 := by
  unfold Q
  rw [Measure.volume_eq_prod, Measure.prod_prod, Real.volume_Ico]
  simp

theorem fold_preimage_Tunit_inter_Q : fold ⁻¹' Tunit ∩ Q = Q := by
  ext p
  simp only [mem_inter_iff, mem_preimage, and_iff_right_iff_imp]
  exact fold_maps_square_into_triangle p

theorem volume_Tunit : volume Tunit = 1 / 2 := by
  have h := volume_fold_preimage Tunit measurableSet_Tunit subset_rfl
  rw [fold_preimage_Tunit_inter_Q, volume_Q, mul_comm] at h
  rw [one_div]
  exact ENNReal.eq_inv_of_mul_eq_one_left h.symm

/-! ### The affine map onto a triangle `P1 P2 P3` -/

section affine
variable (P1 P2 P3 : ℝ × ℝ)

/-- `(x, y) = (bary x1 x2 x3 s t, bary y1 y2 y3 s t)` -/
def aff : ℝ × ℝ → ℝ × ℝ :=
  fun st => (Ladim.Sample.bary P1.1 P2.1 P3.1 st.1 st.2, Ladim.Sample.bary P1.2 P2.2 P3.2 st.1 st.2)

/-- Jacobian determinant of `aff` (twice the signed area of the triangle) -/
def det : ℝ := (P2.1 - P1.1) * (P3.2 - P1.2) - (P2.2 - P1.2) * (P3.1 - P1.1)

/-- the Jacobian matrix -/
def affMat : Matrix (Fin 2) (Fin 2) ℝ :=
  !![P2.1 - P1.1, P3.1 - P1.1; P2.2 - P1.2, P3.2 - P1.2]

/-- linear part of `aff`, as a linear endomorphism of `ℝ × ℝ` -/
noncomputable def affLin : (ℝ × ℝ) →ₗ[ℝ] (ℝ × ℝ) :=
  ((LinearEquiv.finTwoArrow ℝ ℝ : (Fin 2 → ℝ) →ₗ[ℝ] ℝ × ℝ)) ∘ₗ
    (Matrix.toLin' (affMat P1 P2 P3)) ∘ₗ
      ((LinearEquiv.finTwoArrow ℝ ℝ).symm : (ℝ × ℝ) →ₗ[ℝ] (Fin 2 → ℝ))

theorem det_affLin : LinearMap.det (affLin P1 P2 P3) = det P1 P2 P3 := by
  unfold affLin
  rw [LinearMap.det_conj, LinearMap.det_toLin', affMat, Matrix.det_fin_two_of, det]
  ring

theorem aff_eq (p : ℝ × ℝ) : aff P1 P2 P3 p = affLin P1 P2 P3 p + P1 := by
  obtain ⟨s, t⟩ := p
  unfold aff affLin affMat Ladim.Sample.bary
  ext
  · simp [Matrix.toLin'_apply, Matrix.mulVec, dotProduct, Fin.sum_univ_two]
  · simp [Matrix.toLin'_apply, Matrix.mulVec, dotProduct, Fin.sum_univ_two]

local instance : Measure.IsAddHaarMeasure (volume : Measure (ℝ × ℝ)) :=
  Measure.prod.instIsAddHaarMeasure volume volume

/-- 3. an affine map scales volumes by `|det|` -/
theorem volume_aff_image (A : Set (ℝ × ℝ)) :
    volume (aff P1 P2 P3 '' A) = ENNReal.ofReal |det P1 P2 P3| * volume A := by
  have h : aff P1 P2 P3 '' A = (fun q => q + P1) '' (affLin P1 P2 P3 '' A) := by
    rw [Set.image_image]
    exact Set.image_congr (fun p _ => aff_eq P1 P2 P3 p)
  rw [h, Set.image_add_right, measure_preimage_add_right, Measure.addHaar_image_linearMap,
    det_affLin]

theorem volume_triangle :
    volume (aff P1 P2 P3 '' Tunit) = ENNReal.ofReal (|det P1 P2 P3| / 2) := by
  rw [volume_aff_image, volume_Tunit, ENNReal.ofReal_div_of_pos (by norm_num : (0:ℝ) < 2)]
  simp [div_eq_mul_inv]

/-- the Lebesgue area of the image triangle is the model's `triArea` -/
theorem volume_triangle_eq_triArea (T : Ladim.Sample.Tri ℝ) :
    volume (aff (T.x1, T.y1) (T.x2, T.y2) (T.x3, T.y3) '' Tunit)
      = ENNReal.ofReal (Ladim.Sample.triArea T) := by
  rw [volume_triangle, C17.triangle_areas_abs]
  rfl

theorem measurable_aff : Measurable (aff P1 P2 P3) := by
  unfold aff Ladim.Sample.bary
  fun_prop

/-- 4. the sampled point is uniformly distributed on the triangle: for every measurable subset `B`
of the triangle, the probability (= volume in the unit square `Q`, `volume Q = 1`) that
`aff (fold (s, t))` lands in `B` is `area B / area triangle`. -/
theorem sample_uniform_on_triangle (hdet : det P1 P2 P3 ≠ 0) (B : Set (ℝ × ℝ))
    (hB : MeasurableSet B) (hsub : B ⊆ aff P1 P2 P3 '' Tunit) :
    volume ((aff P1 P2 P3 ∘ fold) ⁻¹' B ∩ Q) = volume B / volume (aff P1 P2 P3 '' Tunit) := by
  set A : Set (ℝ × ℝ) := aff P1 P2 P3 ⁻¹' B ∩ Tunit with hAdef
  have hA : MeasurableSet A := (measurable_aff P1 P2 P3 hB).inter measurableSet_Tunit
  have hAT : A ⊆ Tunit := inter_subset_right
  have hpre : (aff P1 P2 P3 ∘ fold) ⁻¹' B ∩ Q = fold ⁻¹' A ∩ Q := by
    ext p
    simp only [mem_inter_iff, mem_preimage, Function.comp_apply, hAdef]
    constructor
    · rintro ⟨h1, h2⟩; exact ⟨⟨h1, fold_maps_square_into_triangle p h2⟩, h2⟩
    · rintro ⟨⟨h1, _⟩, h2⟩; exact ⟨h1, h2⟩
  have himg : aff P1 P2 P3 '' A = B := by
    ext q
    constructor
    · rintro ⟨p, ⟨hp, _⟩, rfl⟩; exact hp
    · intro hq
      obtain ⟨p, hpT, rfl⟩ := hsub hq
      exact ⟨p, ⟨hq, hpT⟩, rfl⟩
  have hc0 : ENNReal.ofReal |det P1 P2 P3| ≠ 0 := by
    simpa [ENNReal.ofReal_eq_zero, not_le] using hdet
  rw [hpre, volume_fold_preimage A hA hAT, ← himg, volume_aff_image, volume_aff_image,
    volume_Tunit, ENNReal.mul_div_mul_left _ _ hc0 ENNReal.ofReal_ne_top, ENNReal.div_eq_inv_mul,
    one_div, inv_inv]

end affine

/-! ### Non-vacuity -/

/-- theorem 2 at `A = Tunit`: the whole square folds onto the triangle, `1 = 2 * (1/2)` -/
example : volume (fold ⁻¹' Tunit ∩ Q) = 2 * volume Tunit ∧ volume Q = 1 ∧ volume Tunit = 1 / 2 :=
  ⟨volume_fold_preimage Tunit measurableSet_Tunit subset_rfl, volume_Q, volume_Tunit⟩

/-- the right triangle with legs 3 and 4 has area 6, and the sampler is uniform on it -/
example : volume (aff (0, 0) (3, 0) (0, 4) '' Tunit) = 6 := by
  rw [volume_triangle]; norm_num [det]

example (B : Set (ℝ × ℝ)) (hB : MeasurableSet B) (hsub : B ⊆ aff (0, 0) (3, 0) (0, 4) '' Tunit) :
    volume ((aff (0, 0) (3, 0) (0, 4) ∘ fold) ⁻¹' B ∩ Q) = volume B / 6 := by
  rw [sample_uniform_on_triangle _ _ _ (by norm_num [det]) B hB hsub, volume_triangle]
  norm_num [det]

end C17M

