import LadimProofs.Laws
import LadimModel.IBM.Chemicals
import LadimModel.IBM.Sedimentation
import LadimModel.IBM.Bio
/-!
# C20 — vertical random walks keep a well-mixed tracer well-mixed (variance 2 K dt)

Exact part (constant diffusivity, two reflecting boundaries): for a step `d` with `0 < d < H` the two
maps `T₊ z = reflect H (z + d)` and `T₋ z = reflect H (z − d)` are piecewise isometries of `[0,H]`,
and every interior target depth has exactly two preimages under the pair (`preimages_count`).  Hence
any step distribution symmetric in `±d` with `d < H` leaves the uniform density invariant.  (The last
step, "piecewise isometry with constant preimage count ⇒ Lebesgue measure invariant", is textbook
measure theory and is *not* formalised; it is named in the trusted base.)

The depth-varying (LaBolle) case holds only "within the scheme's accuracy": it is decided
statistically on the implementation by `harness/c20.py`; the theorems here pin the scheme
(`labolle_const_reduces`, `substeps_cover`, `sampleK_capped`).
-/
open Ladim
set_option linter.unusedSectionVars false
set_option linter.unusedVariables false

namespace C20
variable {α : Type} [Field α] [LinearOrder α] [IsStrictOrderedRing α]

section reflect
open Ladim.Chemicals
variable [HasSqrt α] [HasFloor α] [HasRound α]

/-- explicit form of `reflect H (z + d)` for `z ≥ 0`, `d ≥ 0` -/
theorem Tplus_eq (H d z : α) (hd0 : 0 ≤ d) (hz0 : 0 ≤ z) :
    reflect H (z + d) = if H < z + d then 2 * H - (z + d) else z + d := by
  unfold reflect
  have h : ¬ (z + d < 0) := by linarith
  norm_num
  rw [if_neg h]

/-- explicit form of `reflect H (z − d)` for `z ≤ H`, `d ≥ 0` -/
theorem Tminus_eq (H d z : α) (hd0 : 0 ≤ d) (hz1 : z ≤ H) :
    reflect H (z - d) = if z - d < 0 then d - z else z - d := by
  unfold reflect
  have h : ¬ (H < z - d) := by linarith
  norm_num
  intro h'
  exact absurd h' h

/-- preimages of `z'` under `T₊ z = reflect H (z + d)` inside `[0,H]` -/
def preimagesPlus (H d z' : α) : List α :=
  (if d ≤ z' then [z' - d] else []) ++ (if H - d ≤ z' then [2 * H - d - z'] else [])
/-- preimages of `z'` under `T₋ z = reflect H (z − d)` inside `[0,H]` -/
def preimagesMinus (H d z' : α) : List α :=
  (if z' ≤ d then [d - z'] else []) ++ (if z' ≤ H - d then [z' + d] else [])

/-- `preimagesPlus` is exactly the preimage set of `T₊` in `[0,H]` -/
theorem mem_preimagesPlus (H d z z' : α) (hd0 : 0 < d) (hd1 : d < H) (h0 : 0 < z') (h1 : z' < H) :
    (0 ≤ z ∧ z ≤ H ∧ reflect H (z + d) = z') ↔ z ∈ preimagesPlus H d z' := by
  unfold preimagesPlus
  rw [List.mem_append]
  constructor
  · rintro ⟨hz0, hz1, he⟩
    rw [Tplus_eq H d z hd0.le hz0] at he
    split_ifs at he with hb
    · right
      have h2 : H - d ≤ z' := by linarith
      rw [if_pos h2, List.mem_singleton]; linarith
    · left
      have h2 : d ≤ z' := by linarith
      rw [if_pos h2, List.mem_singleton]; linarith
  · rintro (hm | hm)
    · split_ifs at hm with hc
      · rw [List.mem_singleton] at hm
        subst hm
        refine ⟨by linarith, by linarith, ?_⟩
        rw [Tplus_eq H d _ hd0.le (by linarith), if_neg (by linarith)]; ring
      · simp at hm
    · split_ifs at hm with hc
      · rw [List.mem_singleton] at hm
        subst hm
        refine ⟨by linarith, by linarith, ?_⟩
        rw [Tplus_eq H d _ hd0.le (by linarith), if_pos (by linarith)]; ring
      · simp at hm

/-- `preimagesMinus` is exactly the preimage set of `T₋` in `[0,H]` -/
theorem mem_preimagesMinus (H d z z' : α) (hd0 : 0 < d) (hd1 : d < H) (h0 : 0 < z') (h1 : z' < H) :
    (0 ≤ z ∧ z ≤ H ∧ reflect H (z - d) = z') ↔ z ∈ preimagesMinus H d z' := by
  unfold preimagesMinus
  rw [List.mem_append]
  constructor
  · rintro ⟨hz0, hz1, he⟩
    rw [Tminus_eq H d z hd0.le hz1] at he
    split_ifs at he with hb
    · left
      have h2 : z' ≤ d := by linarith
      rw [if_pos h2, List.mem_singleton]; linarith
    · right
      have h2 : z' ≤ H - d := by linarith
      rw [if_pos h2, List.mem_singleton]; linarith
  · rintro (hm | hm)
    · split_ifs at hm with hc
      · rw [List.mem_singleton] at hm
        subst hm
        refine ⟨by linarith, by linarith, ?_⟩
        rw [Tminus_eq H d _ hd0.le (by linarith), if_pos (by linarith)]; ring
      · simp at hm
    · split_ifs at hm with hc
      · rw [List.mem_singleton] at hm
        subst hm
        refine ⟨by linarith, by linarith, ?_⟩
        rw [Tminus_eq H d _ hd0.le (by linarith), if_neg (by linarith)]; ring
      · simp at hm

/-- every interior target depth off the two kink images (`d`, `H − d`) has exactly two preimages under the
symmetric pair `T₊, T₋`: no accumulation anywhere, in particular not at the surface or the bed. -/
theorem preimages_count (H d z' : α) (hd0 : 0 < d) (hd1 : d < H) (h0 : 0 < z') (h1 : z' < H)
    (hk1 : z' ≠ d) (hk2 : z' ≠ H - d) :
    (preimagesPlus H d z').length + (preimagesMinus H d z').length = 2 := by
  unfold preimagesPlus preimagesMinus
  rcases lt_or_gt_of_ne hk1 with ha | ha <;> rcases lt_or_gt_of_ne hk2 with hb | hb
  · rw [if_neg (not_le.mpr ha), if_neg (not_le.mpr hb), if_pos ha.le, if_pos hb.le]; rfl
  · rw [if_neg (not_le.mpr ha), if_pos hb.le, if_pos ha.le, if_neg (not_le.mpr hb)]; rfl
  · rw [if_pos ha.le, if_neg (not_le.mpr hb), if_neg (not_le.mpr ha), if_pos hb.le]; rfl
  · rw [if_pos ha.le, if_pos hb.le, if_neg (not_le.mpr ha), if_neg (not_le.mpr hb)]; rfl

theorem preimagesPlus_nodup (H d z' : α) (hd0 : 0 < d) (h1 : z' < H) : (preimagesPlus H d z').Nodup := by
  unfold preimagesPlus
  split_ifs <;> simp
  intro h; linarith

theorem preimagesMinus_nodup (H d z' : α) (hd0 : 0 < d) (h0 : 0 < z') : (preimagesMinus H d z').Nodup := by
  unfold preimagesMinus
  split_ifs <;> simp
  intro h; linarith

/-- each branch is an isometry (slope ±1): distances are preserved within a branch -/
theorem Tplus_isometry (H d z₁ z₂ : α) (hd0 : 0 ≤ d) (h₁ : 0 ≤ z₁) (h₂ : 0 ≤ z₂)
    (hb : (H < z₁ + d) ↔ (H < z₂ + d)) :
    |reflect H (z₁ + d) - reflect H (z₂ + d)| = |z₁ - z₂| := by
  rw [Tplus_eq H d z₁ hd0 h₁, Tplus_eq H d z₂ hd0 h₂]
  by_cases h : H < z₁ + d
  · simp only [h, hb.mp h, if_true]
    rw [show 2 * H - (z₁ + d) - (2 * H - (z₂ + d)) = -(z₁ - z₂) by ring, abs_neg]
  · simp only [h, mt hb.mpr h, if_false]
    congr 1; ring

/-- a *clamp* instead of a reflection piles particles up on the boundary: the whole interval
`[H − d, H]` is mapped to the single depth `H` -/
theorem clamp_piles_up (H d z : α) (hd0 : 0 ≤ d) (hz : H - d ≤ z) : min (z + d) H = H := by
  apply min_eq_right; linarith

end reflect

/-! ## variance of one step -/
section variance
variable [HasSqrt α]

/-- chemicals: displacement `√(2K) · ((2u−1) · √(3dt))` has square `2·K·dt · 3(2u−1)²`;
`E[3(2u−1)²] = 1` for uniform `u` (`uniform_second_moment`) -/
theorem uniform_step_sq (hS : SqrtLaws α) (K dt u : α) (hK : 0 ≤ K) (hdt : 0 ≤ dt) :
    (sqrt (2.0 * K) * Chemicals.uniformDW u dt) ^ 2 = 2 * K * dt * (3 * (2 * u - 1) ^ 2) := by
  unfold Chemicals.uniformDW
  have h1 := hS.sqrt_sq (2.0 * K) (by norm_num; exact hK)
  have h2 := hS.sqrt_sq (3.0 * dt) (by norm_num; exact hdt)
  norm_num at h1 h2 ⊢
  calc (sqrt (2 * K) * ((u * 2 - 1) * sqrt (3 * dt))) ^ 2
      = (sqrt (2 * K) * sqrt (2 * K)) * (sqrt (3 * dt) * sqrt (3 * dt)) * (u * 2 - 1) ^ 2 := by ring
    _ = 2 * K * dt * (3 * (2 * u - 1) ^ 2) := by rw [h1, h2]; ring

/-- `P(u) = (2u−1)³/6` is an antiderivative of `(2u−1)²` (exact difference identity) and
`P(1) − P(0) = 1/3`: the second moment of `2u−1`, `u` uniform on `[0,1)`, is `1/3`. -/
theorem uniform_second_moment :
    (∀ u h : α, (2 * (u + h) - 1) ^ 3 / 6 - (2 * u - 1) ^ 3 / 6
        = h * (2 * u - 1) ^ 2 + 2 * h ^ 2 * (2 * u - 1) + 4 / 3 * h ^ 3) ∧
    ((2 * (1 : α) - 1) ^ 3 / 6 - (2 * (0 : α) - 1) ^ 3 / 6 = 1 / 3) := by
  constructor
  · intro u h; ring
  · norm_num

/-- normal-draw schemes (sedimentation, mine, sand eel, eel, shrimp): `(√(2K)·(ξ·√dt))² = 2·K·dt·ξ²` -/
theorem normal_step_sq (hS : SqrtLaws α) (K dt xi : α) (hK : 0 ≤ K) (hdt : 0 ≤ dt) :
    (sqrt (2.0 * K) * (xi * sqrt dt)) ^ 2 = 2 * K * dt * xi ^ 2 := by
  have h1 := hS.sqrt_sq (2.0 * K) (by norm_num; exact hK)
  have h2 := hS.sqrt_sq dt hdt
  norm_num at h1 ⊢
  calc (sqrt (2 * K) * (xi * sqrt dt)) ^ 2
      = (sqrt (2 * K) * sqrt (2 * K)) * (sqrt dt * sqrt dt) * xi ^ 2 := by ring
    _ = 2 * K * dt * xi ^ 2 := by rw [h1, h2]

/-- single-root form `ξ·√(2·K·dt)` (sand eel, eel, shrimp) -/
theorem normal_step_sq_single (hS : SqrtLaws α) (K dt xi : α) (h : 0 ≤ 2.0 * K * dt) :
    (xi * sqrt (2.0 * K * dt)) ^ 2 = 2 * K * dt * xi ^ 2 := by
  have h1 := hS.sqrt_sq _ h
  norm_num at h1 ⊢
  calc (xi * sqrt (2 * K * dt)) ^ 2 = (sqrt (2 * K * dt) * sqrt (2 * K * dt)) * xi ^ 2 := by ring
    _ = 2 * K * dt * xi ^ 2 := by rw [h1]

/-- velocity form (egg, lice, larvae): `(ξ·√(2D/dt)·dt)² = 2·D·dt·ξ²` -/
theorem velocity_step_sq (hS : SqrtLaws α) (D dt xi : α) (hD : 0 ≤ D) (hdt : 0 < dt) :
    (xi * sqrt (2.0 * D / dt) * dt) ^ 2 = 2 * D * dt * xi ^ 2 := by
  have h1 := hS.sqrt_sq (2.0 * D / dt) (by norm_num; exact div_nonneg (by linarith) hdt.le)
  norm_num at h1 ⊢
  calc (xi * sqrt (2 * D / dt) * dt) ^ 2
      = (sqrt (2 * D / dt) * sqrt (2 * D / dt)) * dt ^ 2 * xi ^ 2 := by ring
    _ = 2 * D * dt * xi ^ 2 := by rw [h1]; field_simp

end variance

/-! ## the LaBolle scheme -/
section labolle
open Ladim.Chemicals
variable [HasSqrt α] [HasFloor α] [HasRound α]

/-- for a constant diffusivity the LaBolle sub-step *is* the constant-diffusivity step (so the exact
invariance result applies to it) -/
theorem labolle_const_reduces (k vmax dz H ddt u z : α) :
    labolleSub (fun _ => k) vmax dz H ddt u z
      = reflect H (z + sqrt (2.0 * fmin k vmax) * uniformDW u ddt) := by
  unfold labolleSub; rfl

/-- the diffusivity actually used never exceeds the configured cap -/
theorem sampleK_capped (k vmax : α) : fmin k vmax ≤ vmax := by
  unfold fmin; split_ifs with h
  · exact le_refl _
  · exact not_lt.mp h

/-- the sub-steps cover the time step exactly and none is longer than `vertdiff_dt` -/
theorem substeps_cover (dt vdt : α) (hv : 0 < vdt) :
    ∀ (fuel : Nat) (cur : α), cur ≤ dt → dt - cur ≤ fuel * vdt →
      (substeps dt vdt fuel cur).sum = dt - cur ∧
      ∀ d ∈ substeps dt vdt fuel cur, 0 < d ∧ d ≤ vdt := by
  intro fuel
  induction fuel with
  | zero =>
    intro cur h1 h2
    simp at h2
    have : cur = dt := le_antisymm h1 (by linarith)
    simp [substeps, this]
  | succ n ih =>
    intro cur h1 h2
    unfold substeps
    by_cases hc : cur < dt
    · simp only [hc, if_true]
      have hmin : fmin dt (cur + vdt) ≤ dt := by unfold fmin; split_ifs <;> linarith
      have hgt : cur < fmin dt (cur + vdt) := by unfold fmin; split_ifs <;> linarith
      have hle : fmin dt (cur + vdt) - cur ≤ vdt := by unfold fmin; split_ifs <;> linarith
      have hrest : dt - fmin dt (cur + vdt) ≤ n * vdt := by
        unfold fmin
        push_cast at h2
        split_ifs with hh
        · linarith
        · have : (0 : α) ≤ n * vdt := mul_nonneg (Nat.cast_nonneg n) hv.le
          linarith
      obtain ⟨hs, hall⟩ := ih (fmin dt (cur + vdt)) hmin hrest
      constructor
      · simp only [List.sum_cons, hs]; ring
      · intro d hd
        simp only [List.mem_cons] at hd
        rcases hd with rfl | hd
        · exact ⟨by linarith, hle⟩
        · exact hall d hd
    · have : cur = dt := le_antisymm h1 (not_lt.mp hc)
      simp [hc, this]

/-- coarse sampling depth: at least a quarter cell below the surface -/
theorem zCoarse_ge (dz zz : α) (hdz : 0 < dz) : 0.25 * dz ≤ zCoarse dz zz := by
  unfold zCoarse fmax
  have : dz < 0.0 ∨ 0.0 < dz := Or.inr (by norm_num; exact hdz)
  simp only [this, if_true]
  split_ifs with h
  · exact h.le
  · exact le_refl _

/-- … and, with the floor law, within half a sampling distance of the true depth -/
theorem zCoarse_near (hF : ∀ x : α, floor x ≤ x ∧ x < floor x + 1) (dz zz : α) (hdz : 0 < dz)
    (hq : 0.25 * dz ≤ floor ((zz - 0.5 * dz) / dz) * dz + dz) :
    zz - 0.5 * dz < zCoarse dz zz ∧ zCoarse dz zz ≤ zz + 0.5 * dz := by
  unfold zCoarse fmax
  have : dz < 0.0 ∨ 0.0 < dz := Or.inr (by norm_num; exact hdz)
  simp only [this, if_true]
  obtain ⟨h1, h2⟩ := hF ((zz - 0.5 * dz) / dz)
  have e : (zz - 0.5 * dz) / dz * dz = zz - 0.5 * dz := by field_simp
  have a1 := mul_lt_mul_of_pos_right h2 hdz
  have a2 := mul_le_mul_of_nonneg_right h1 hdz.le
  rw [e] at a1 a2
  split_ifs with hh
  · constructor <;> linarith
  · have : floor ((zz - 0.5 * dz) / dz) * dz + dz = 0.25 * dz := le_antisymm (not_lt.mp hh) hq
    constructor <;> linarith

end labolle

/-- non-vacuity: a concrete interior target with its two preimages (H = 10, d = 3, z' = 5):
`T₊ 2 = 5` and `T₋ 8 = 5` -/
example : preimagesPlus (10 : ℚ) 3 5 = [2] ∧ preimagesMinus (10 : ℚ) 3 5 = [8] := by
  unfold preimagesPlus preimagesMinus; norm_num

end C20
