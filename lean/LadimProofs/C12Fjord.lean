import LadimProofs.C12BFS
/-!
# C12 (continued): the fjord index of the vps module is the BFS distance to the open ocean, and the
orientation in which the fish velocity is used.
-/
open Ladim.Fjord C12 C12BFS
set_option linter.unusedVariables false

namespace C12

/-- a land mask: 1 on land, 0 at sea -/
def Land01 (land : Mat) : Prop := ∀ i j, land.inBox i j = true → (land.val i j = 0 ∨ land.val i j = 1)

theorem bdilateAt_01 (m : Mat) (i j : Int) : bdilateAt m i j = 0 ∨ bdilateAt m i j = 1 := by
  unfold bdilateAt; split_ifs <;> simp

theorem bdilateIter_rows (m : Mat) (k : Nat) : (bdilateIter m k).rows = m.rows ∧ (bdilateIter m k).cols = m.cols := by
  induction k with
  | zero => exact ⟨rfl, rfl⟩
  | succ k ih => exact ih

/-- land stays "not ocean" under every number of binary dilations, and the result is a 0/1 mask -/
theorem bdilateIter_spec (land : Mat) (hl : Land01 land) (k : Nat) (i j : Int) (hb : land.inBox i j = true) :
    ((bdilateIter land k).val i j = 0 ∨ (bdilateIter land k).val i j = 1) ∧
    (land.val i j = 1 → (bdilateIter land k).val i j = 1) := by
  induction k with
  | zero => exact ⟨hl i j hb, fun h => h⟩
  | succ k ih =>
    refine ⟨bdilateAt_01 _ i j, ?_⟩
    intro h1
    have := ih.2 h1
    show bdilateAt (bdilateIter land k) i j = 1
    unfold bdilateAt
    have hbox : (bdilateIter land k).inBox i j = true := by
      unfold Mat.inBox at hb ⊢
      rw [(bdilateIter_rows land k).1, (bdilateIter_rows land k).2]; exact hb
    have hg : (bdilateIter land k).get 0 i j = 1 := by
      unfold Mat.get
      unfold Mat.inBox at hbox
      simp only [decide_eq_true_eq] at hbox
      rw [if_pos hbox]; exact this
    rw [if_pos (Or.inl (by rw [hg]; decide))]

theorem binaryDilation_spec (land : Mat) (hl : Land01 land) (it : Int) (i j : Int) (hb : land.inBox i j = true) :
    ((binaryDilation land it).get 0 i j = 0 ∨ (binaryDilation land it).get 0 i j = 1) ∧
    (land.val i j = 1 → (binaryDilation land it).get 0 i j = 1) := by
  unfold binaryDilation
  have aux : ∀ k, ((bdilateIter land k).get 0 i j = (bdilateIter land k).val i j) := by
    intro k
    unfold Mat.get
    unfold Mat.inBox at hb
    simp only [decide_eq_true_eq] at hb
    rw [(bdilateIter_rows land k).1, (bdilateIter_rows land k).2, if_pos hb]
  split_ifs
  · rw [aux]; exact bdilateIter_spec land hl _ i j hb
  · rw [aux]; exact bdilateIter_spec land hl _ i j hb

theorem notOcean_spec (land : Mat) (hl : Land01 land) (d : Int) (i j : Int) (hb : land.inBox i j = true) :
    ((notOcean land d).get 0 i j = 0 ∨ (notOcean land d).get 0 i j = 1) ∧
    (land.val i j = 1 → (notOcean land d).get 0 i j = 1) := by
  unfold notOcean
  split_ifs
  · exact binaryDilation_spec land hl (d - 1) i j hb
  · have hg : land.get 0 i j = land.val i j := by
      unfold Mat.get; unfold Mat.inBox at hb; simp only [decide_eq_true_eq] at hb; rw [if_pos hb]
    rw [hg]
    exact ⟨hl i j hb, fun h => h⟩

theorem fjordInput_val (land : Mat) (d : Int) (i j : Int) :
    (fjordInput land d).val i j = -(notOcean land d).get 0 i j - land.get 0 i j := rfl

/-- with an ocean distance of at most one cell every sea cell is open ocean (index 0 before any dilation);
the code before the `fix:` commit made none of them ocean (`old_ocean_distance_one_fails`) -/
theorem ocean_distance_le_one_all_sea_is_ocean (land : Mat) (hl : Land01 land) (d : Int) (hd : d ≤ 1) (i j : Int)
    (hb : land.inBox i j = true) (h0 : land.val i j = 0) : (fjordInput land d).val i j = 0 := by
  rw [fjordInput_val]
  unfold notOcean
  rw [if_neg (by omega)]
  have hg : land.get 0 i j = land.val i j := by
    unfold Mat.get; unfold Mat.inBox at hb; simp only [decide_eq_true_eq] at hb; rw [if_pos hb]
  rw [hg, h0]; rfl

/-- counter-witness for the old code: a 1 × 3 mask `land sea sea` with ocean distance 1 — the far sea cell
(two cells from land) is not ocean (-1 instead of 0) -/
theorem old_ocean_distance_one_fails :
    (fjordInputOld ⟨1, 3, fun _ j => if j = 0 then 1 else 0⟩ 1).val 0 2 = -1 ∧
    (fjordInput ⟨1, 3, fun _ j => if j = 0 then 1 else 0⟩ 1).val 0 2 = 0 := by decide

/-- the initial matrix of `fjord_index` is well formed: 0 on the open ocean, -2 on land, -1 elsewhere -/
theorem fjordInput_init (land : Mat) (hl : Land01 land) (d : Int) : Init (fjordInput land d) := by
  intro i j hb
  have hb' : land.inBox i j = true := hb
  obtain ⟨h01, hland⟩ := notOcean_spec land hl d i j hb'
  simp only [fjordInput_val]
  have hg : land.get 0 i j = land.val i j := by
    unfold Mat.get; unfold Mat.inBox at hb'; simp only [decide_eq_true_eq] at hb'; rw [if_pos hb']
  rw [hg]
  rcases hl i j hb' with h0 | h1
  · rcases h01 with a | a <;> rw [a, h0] <;> simp
  · rw [hland h1, h1]; simp

/-- land cells are obstacles of the distance computation -/
theorem land_is_obstacle (land : Mat) (hl : Land01 land) (d : Int) (i j : Int) (hb : land.inBox i j = true)
    (h : land.val i j = 1) : (fjordInput land d).val i j = -2 := by
  obtain ⟨_, hland⟩ := notOcean_spec land hl d i j hb
  show -(notOcean land d).get 0 i j - land.get 0 i j = -2
  have hg : land.get 0 i j = land.val i j := by
    unfold Mat.get; unfold Mat.inBox at hb; simp only [decide_eq_true_eq] at hb; rw [if_pos hb]
  rw [hg, hland h, h]; rfl

/-- THE FJORD INDEX IS THE SHORTEST-PATH DISTANCE: for every land/sea mask, every ocean distance, every
cell: land stays an obstacle (-2); a sea cell holds `n ≥ 0` iff `n` is the length of its shortest
four-connected sea path to the open-ocean region (paths longer than the number of cells are
impossible to be shortest), and `-1` iff no such path of length ≤ size exists (closed basin). -/
theorem fjord_index_is_shortest_path (land : Mat) (hl : Land01 land) (d : Int) (i j : Int)
    (hb : land.inBox i j = true) :
    let m := fjordInput land d
    let k := land.rows * land.cols
    (land.val i j = 1 → (fjordIndex land d).val i j = -2) ∧
    (land.val i j = 0 →
      (∀ n : Nat, (fjordIndex land d).val i j = (n : Int) ↔ (n ≤ k ∧ IsDist m n i j)) ∧
      ((fjordIndex land d).val i j = -1 ↔ ∀ n ≤ k, ¬ Reach m n i j)) := by
  intro m k
  have hinit := fjordInput_init land hl d
  have hbm : m.inBox i j = true := hb
  have spec := dilate_iter_spec m hinit k i j hbm
  constructor
  · intro h1
    exact spec.1 (land_is_obstacle land hl d i j hb h1)
  · intro h0
    have hne : m.val i j ≠ -2 := by
      obtain ⟨h01, _⟩ := notOcean_spec land hl d i j hb
      show -(notOcean land d).get 0 i j - land.get 0 i j ≠ -2
      have hg : land.get 0 i j = land.val i j := by
        unfold Mat.get; unfold Mat.inBox at hb; simp only [decide_eq_true_eq] at hb; rw [if_pos hb]
      rw [hg, h0]
      rcases h01 with a | a <;> rw [a] <;> decide
    exact ⟨(spec.2 hne).1, (spec.2 hne).2.1⟩

/-- following the fish velocity *in the grid coordinates the tracker uses, with `v` taken in grid
orientation*, lowers the fjord index by one per step from every cell of index `n`, never enters land
or leaves the grid, and ends after exactly `n` steps on the open ocean (index 0, velocity zero) -/
theorem follow_fjord_index_reaches_ocean (land : Mat) (hl : Land01 land) (d : Int) (n : Nat) (i j : Int)
    (hb : land.inBox i j = true) (hv : (fjordIndex land d).val i j = (n : Int)) :
    (follow .grid (fjordIndex land d) n (i, j)).length = n + 1 ∧
    (∀ c ∈ follow .grid (fjordIndex land d) n (i, j),
        (fjordIndex land d).inBox c.1 c.2 = true ∧ (fjordIndex land d).val c.1 c.2 ≠ -2) ∧
    (∀ t : Nat, t ≤ n → ∃ c, (follow .grid (fjordIndex land d) n (i, j))[t]? = some c ∧
        (fjordIndex land d).val c.1 c.2 = (n : Int) - (t : Int)) := by
  have hdesc : Descending (fjordIndex land d) := dilateIter_descending _ (fjordInput_init land hl d) _
  have hbw : (fjordIndex land d).inBox i j = true := by
    unfold fjordIndex distance
    unfold Mat.inBox at hb ⊢
    rw [dilateIter_rows, dilateIter_cols]; exact hb
  obtain ⟨h1, h2, h3⟩ := follow_reaches_ocean (fjordIndex land d) hdesc n i j hbw hv
  refine ⟨h1, h2, ?_⟩
  intro t ht
  obtain ⟨c, hc, _, hval⟩ := h3 t ht
  exact ⟨c, hc, hval⟩

/-- on the open ocean (index 0) the velocity is zero -/
theorem ocean_velocity_zero (w : Mat) (i j : Int) (h : w.get (-1) i j ≤ 0) : descentDir w i j = 0 := by
  unfold descentDir; simp [h]

/-! ## the orientation defect of the code as it is (known finding) -/

/-- a fjord-index field: ocean on top, a one-cell channel below it, land elsewhere -/
def witness : Mat :=
  { rows := 3, cols := 2,
    val := fun i j => if i = 0 ∧ j = 0 then 0 else if i = 1 ∧ j = 0 then 1 else -2 }

/-- `descent` returns `v = +1` ("up" in the picture, i.e. row − 1) for the channel cell; the tracker adds
`v` to `Y` (= row index): the fish steps onto land (row 2) instead of the ocean (row 0). -/
theorem picture_orientation_fails :
    descentDir witness 1 0 = 4 ∧ vOf 4 = 1 ∧
    witness.val (nextCell .picture witness 1 0).1 (nextCell .picture witness 1 0).2 = -2 ∧
    witness.val (nextCell .grid witness 1 0).1 (nextCell .grid witness 1 0).2 = 0 := by
  decide

end C12
