import LadimProofs.C05
import Mathlib.Data.Real.Basic
import Mathlib.Algebra.Order.Archimedean.Real.Basic
/-!
# C05R — the boundary statements of C05 under *rounded* arithmetic

`LadimProofs/C05.lean` proves "the new depth stays inside the band" over an arbitrary linear ordered
field, i.e. for exact arithmetic.  Here the same model terms (`Ladim.Chemicals.reflect`, `advect`,
`diffuseConst`, `Ladim.Sed.bury`, `Ladim.Bio.mirrorCap`, …) are instantiated at a scalar type `Rd R`
whose `+ - * /` and literals *round the exact real result* with an arbitrary monotone, idempotent,
odd rounding function `R.rnd` fixing `0`.  IEEE-754 round-to-nearest-even, round-toward-zero and
every fixed-point grid rounding are such functions on the range where nothing overflows
(round-up / round-down are monotone and idempotent but not odd; oddness is used only by
`rep_neg`/`rnd_abs_le`, i.e. to know that `-H` is representable when `H` is).
-/
open Ladim

set_option linter.unusedSectionVars false
set_option linter.unusedVariables false

namespace C05R

/-- an abstract rounding function on the reals -/
structure Rounding where
  rnd : ℝ → ℝ
  mono : Monotone rnd
  idem : ∀ x, rnd (rnd x) = rnd x
  zero : rnd 0 = 0
  /-- symmetric (true for round-to-nearest and toward zero) -/
  neg : ∀ x, rnd (-x) = - rnd x

/-- "x is representable" -/
def Rounding.rep (R : Rounding) (x : ℝ) : Prop := R.rnd x = x

/-- a rounded number: the scalar type at which the model is instantiated -/
structure Rd (R : Rounding) where
  val : ℝ

namespace Rounding
variable (R : Rounding)

theorem rep_rnd (x : ℝ) : R.rep (R.rnd x) := R.idem x
theorem rep_zero : R.rep 0 := R.zero
theorem rep_neg {x : ℝ} (h : R.rep x) : R.rep (-x) := by
  unfold rep at *; rw [R.neg, h]

theorem rnd_le {x b : ℝ} (hb : R.rep b) (h : x ≤ b) : R.rnd x ≤ b := by
  have := R.mono h; rwa [hb] at this
theorem le_rnd {a x : ℝ} (ha : R.rep a) (h : a ≤ x) : a ≤ R.rnd x := by
  have := R.mono h; rwa [ha] at this

/-- **Transfer lemma.**  A value known (by an exact-arithmetic argument) to lie between two
representable bounds still lies between them after rounding.

Meta-principle: *any exact-arithmetic range theorem `a ≤ f x ≤ b` whose bounds `a`, `b` are
representable survives one final rounding of `f x`* — for every monotone rounding mode.  The
theorems below apply it to each boundary treatment of the particle models: all of them end in at
most one arithmetic operation (`2H - z`, or none at all), whose exact value is in `[0, H]`. -/
theorem rnd_mem_Icc {a b x : ℝ} (ha : R.rep a) (hb : R.rep b) (h1 : a ≤ x) (h2 : x ≤ b) :
    a ≤ R.rnd x ∧ R.rnd x ≤ b := ⟨R.le_rnd ha h1, R.rnd_le hb h2⟩

theorem rnd_nonneg {x : ℝ} (h : 0 ≤ x) : 0 ≤ R.rnd x := R.le_rnd R.rep_zero h
theorem rnd_nonpos {x : ℝ} (h : x ≤ 0) : R.rnd x ≤ 0 := R.rnd_le R.rep_zero h

/-- rounding does not enlarge a displacement beyond a representable bound -/
theorem rnd_abs_le {x b : ℝ} (hb : R.rep b) (h : |x| ≤ b) : |R.rnd x| ≤ b := by
  have := abs_le.mp h
  exact abs_le.mpr (R.rnd_mem_Icc (R.rep_neg hb) hb this.1 this.2)

end Rounding

/-! ## the operation instances on `Rd R` -/
section instances
variable {R : Rounding}

noncomputable instance : Add (Rd R) := ⟨fun a b => ⟨R.rnd (a.val + b.val)⟩⟩
noncomputable instance : Sub (Rd R) := ⟨fun a b => ⟨R.rnd (a.val - b.val)⟩⟩
noncomputable instance : Mul (Rd R) := ⟨fun a b => ⟨R.rnd (a.val * b.val)⟩⟩
noncomputable instance : Div (Rd R) := ⟨fun a b => ⟨R.rnd (a.val / b.val)⟩⟩
instance : Neg (Rd R) := ⟨fun a => ⟨-a.val⟩⟩
instance : LT (Rd R) := ⟨fun a b => a.val < b.val⟩
instance : LE (Rd R) := ⟨fun a b => a.val ≤ b.val⟩
noncomputable instance : DecidableLT (Rd R) := fun _ _ => Classical.propDecidable _
noncomputable instance : DecidableLE (Rd R) := fun _ _ => Classical.propDecidable _
noncomputable instance : OfScientific (Rd R) :=
  ⟨fun m s e => ⟨R.rnd (OfScientific.ofScientific m s e : ℝ)⟩⟩

@[simp] theorem add_val (a b : Rd R) : (a + b).val = R.rnd (a.val + b.val) := rfl
@[simp] theorem sub_val (a b : Rd R) : (a - b).val = R.rnd (a.val - b.val) := rfl
@[simp] theorem mul_val (a b : Rd R) : (a * b).val = R.rnd (a.val * b.val) := rfl
@[simp] theorem div_val (a b : Rd R) : (a / b).val = R.rnd (a.val / b.val) := rfl
@[simp] theorem neg_val (a : Rd R) : (-a).val = -a.val := rfl
@[simp] theorem lt_iff (a b : Rd R) : a < b ↔ a.val < b.val := Iff.rfl
@[simp] theorem le_iff (a b : Rd R) : a ≤ b ↔ a.val ≤ b.val := Iff.rfl
theorem ofScientific_val (m : ℕ) (s : Bool) (e : ℕ) :
    (OfScientific.ofScientific m s e : Rd R).val = R.rnd (OfScientific.ofScientific m s e : ℝ) := rfl

/-- the literal `0.0` is exact in every rounding -/
@[simp] theorem lit0_val : ((0.0 : Rd R)).val = 0 := by
  show R.rnd (0.0 : ℝ) = 0
  rw [show (0.0 : ℝ) = 0 by norm_num]; exact R.zero

/-- the literal `2.0` is exact as soon as `2` is representable -/
theorem lit2_val (h2 : R.rep 2) : ((2.0 : Rd R)).val = 2 := by
  show R.rnd (2.0 : ℝ) = 2
  rw [show (2.0 : ℝ) = 2 by norm_num]; exact h2

/-- every arithmetic result is representable -/
theorem rep_add (a b : Rd R) : R.rep (a + b).val := R.rep_rnd _
theorem rep_sub (a b : Rd R) : R.rep (a - b).val := R.rep_rnd _
theorem rep_mul (a b : Rd R) : R.rep (a * b).val := R.rep_rnd _
theorem rep_div (a b : Rd R) : R.rep (a / b).val := R.rep_rnd _

end instances

/-! ## 2a. `reflect` -/
section chemicals
open Ladim.Chemicals
variable {R : Rounding}

/-- definitional unfolding of `reflect` at `Rd R`: the only rounded operations are `2.0 * H`
(exact by hypothesis) and the final subtraction. -/
theorem reflect_val (h2 : R.rep 2) (H z : Rd R) (hH2 : R.rep (2 * H.val)) :
    (reflect H z).val =
      if H.val < z.val then R.rnd (2 * H.val - (if z.val < 0 then -z.val else z.val))
      else (if z.val < 0 then -z.val else z.val) := by
  unfold reflect
  simp only [lt_iff, lit0_val]
  split_ifs <;> simp only [sub_val, mul_val, neg_val, lit2_val h2] <;> rw [hH2]

/-- **reflect under rounding**: with representable `H`, `2H` (no overflow, exact doubling) and the
literal `2`, a pre-reflection depth within one water depth of the band is mapped into `[0, H]`.
`z` itself need not be representable. -/
theorem reflect_in_range_rd (h2 : R.rep 2) (H z : Rd R) (hH : R.rep H.val)
    (hH2 : R.rep (2 * H.val)) (h1 : -H.val ≤ z.val) (hzU : z.val ≤ 2 * H.val) :
    0 ≤ (reflect H z).val ∧ (reflect H z).val ≤ H.val := by
  rw [reflect_val h2 H z hH2]
  split_ifs with hb hn hn
  · exact R.rnd_mem_Icc R.rep_zero hH (by linarith) (by linarith)
  · exact R.rnd_mem_Icc R.rep_zero hH (by linarith) (by linarith)
  · constructor <;> linarith
  · constructor <;> linarith

/-- the same in the `InBand` vocabulary of C05 -/
theorem reflect_band_rd (h2 : R.rep 2) (H z : Rd R) (hH : R.rep H.val)
    (hH2 : R.rep (2 * H.val)) (h1 : -H.val ≤ z.val) (hzU : z.val ≤ 2 * H.val) :
    C05.InBand H.val (reflect H z).val := reflect_in_range_rd h2 H z hH hH2 h1 hzU

/-- the result of `reflect` is representable when its input is -/
theorem reflect_rep (h2 : R.rep 2) (H z : Rd R) (hH2 : R.rep (2 * H.val)) (hz : R.rep z.val) :
    R.rep (reflect H z).val := by
  rw [reflect_val h2 H z hH2]
  split_ifs
  · exact R.rep_rnd _
  · exact R.rep_rnd _
  · exact R.rep_neg hz
  · exact hz

/-- the predictor's variant (flip first, then test) -/
theorem reflectPred_val (h2 : R.rep 2) (H z : Rd R) (hH2 : R.rep (2 * H.val)) :
    (reflectPred H z).val =
      if H.val < (if z.val < 0 then -z.val else z.val)
      then R.rnd (2 * H.val - (if z.val < 0 then -z.val else z.val))
      else (if z.val < 0 then -z.val else z.val) := by
  have e : R.rnd (2 * H.val) = 2 * H.val := hH2
  unfold reflectPred
  simp only [lt_iff, lit0_val, apply_ite Rd.val, neg_val, sub_val, mul_val, lit2_val h2, e]

theorem reflectPred_in_range_rd (h2 : R.rep 2) (H z : Rd R) (hH : R.rep H.val)
    (hH2 : R.rep (2 * H.val)) (h1 : -H.val ≤ z.val) (hzU : z.val ≤ 2 * H.val) :
    0 ≤ (reflectPred H z).val ∧ (reflectPred H z).val ≤ H.val := by
  rw [reflectPred_val h2 H z hH2]
  split_ifs with hn hb hb
  · exact R.rnd_mem_Icc R.rep_zero hH (by linarith) (by linarith)
  · constructor <;> linarith
  · exact R.rnd_mem_Icc R.rep_zero hH (by linarith) (by linarith)
  · constructor <;> linarith

/-! ## 2b. `advect`, `diffuseConst`: displacement followed by `reflect` -/

/-- the rounded pre-reflection depth `rnd (z + d)` stays within `[-H, 2H]` whenever the exact sum
does (monotonicity; `-H` and `2H` representable) -/
theorem prereflect_in_range (H z d : Rd R) (hH : R.rep H.val) (hH2 : R.rep (2 * H.val))
    (h1 : -H.val ≤ z.val + d.val) (h2 : z.val + d.val ≤ 2 * H.val) :
    -H.val ≤ (z + d).val ∧ (z + d).val ≤ 2 * H.val :=
  R.rnd_mem_Icc (R.rep_neg hH) hH2 h1 h2

/-- a particle in the band displaced by a (rounded) step not larger than the water depth is
reflected back into the band, in rounded arithmetic -/
theorem reflect_disp_band_rd (h2 : R.rep 2) (H z d : Rd R) (hH : R.rep H.val)
    (hH2 : R.rep (2 * H.val)) (hz0 : 0 ≤ z.val) (hz1 : z.val ≤ H.val) (hd : |d.val| ≤ H.val) :
    0 ≤ (reflect H (z + d)).val ∧ (reflect H (z + d)).val ≤ H.val := by
  have := abs_le.mp hd
  obtain ⟨a, b⟩ := prereflect_in_range H z d hH hH2 (by linarith) (by linarith)
  exact reflect_in_range_rd h2 H (z + d) hH hH2 a b

/-- `advect`, hypothesis on the *rounded* pre-reflection value `rnd (z + rnd (dt * w))` -/
theorem advect_in_range_rd (h2 : R.rep 2) (dt H w z : Rd R) (hH : R.rep H.val)
    (hH2 : R.rep (2 * H.val)) (h1 : -H.val ≤ (z + dt * w).val) (hzU : (z + dt * w).val ≤ 2 * H.val) :
    0 ≤ (advect dt H w z).val ∧ (advect dt H w z).val ≤ H.val :=
  reflect_in_range_rd h2 H (z + dt * w) hH hH2 h1 hzU

/-- the rounded pre-reflection value of `advect` lies in `[-H, 2H]` whenever `z + rnd (dt * w)`
(exact sum with the rounded product) does -/
theorem advect_prereflect_in_range (dt H w z : Rd R) (hH : R.rep H.val) (hH2 : R.rep (2 * H.val))
    (h1 : -H.val ≤ z.val + R.rnd (dt.val * w.val)) (h2 : z.val + R.rnd (dt.val * w.val) ≤ 2 * H.val) :
    -H.val ≤ (z + dt * w).val ∧ (z + dt * w).val ≤ 2 * H.val :=
  prereflect_in_range H z (dt * w) hH hH2 h1 h2

/-- **advect under rounding**, with the hypotheses of the exact theorem `C05.advect_band` stated on
the *exact* real product: particle in the band, `|dt * w| ≤ H` in exact arithmetic.  Both roundings
(product, sum) and the reflection's subtraction are covered. -/
theorem advect_band_rd (h2 : R.rep 2) (dt H w z : Rd R) (hH : R.rep H.val)
    (hH2 : R.rep (2 * H.val)) (hz0 : 0 ≤ z.val) (hz1 : z.val ≤ H.val)
    (hd : |dt.val * w.val| ≤ H.val) :
    0 ≤ (advect dt H w z).val ∧ (advect dt H w z).val ≤ H.val :=
  reflect_disp_band_rd h2 H z (dt * w) hH hH2 hz0 hz1 (R.rnd_abs_le hH hd)

/-- `diffuse_const` under rounding, for *any* implementation of `sqrt` on rounded numbers
(correctly rounded or not): the hypothesis is on the computed step. -/
theorem diffuseConst_band_rd [HasSqrt (Rd R)] (h2 : R.rep 2) (dt D H u z : Rd R) (hH : R.rep H.val)
    (hH2 : R.rep (2 * H.val)) (hz0 : 0 ≤ z.val) (hz1 : z.val ≤ H.val)
    (hd : |(sqrt (2.0 * D) * uniformDW u dt).val| ≤ H.val) :
    0 ≤ (diffuseConst dt D H u z).val ∧ (diffuseConst dt D H u z).val ≤ H.val :=
  reflect_disp_band_rd h2 H z _ hH hH2 hz0 hz1 hd

/-- one LaBolle sub-step under rounding (the corrector's reflection is the last operation) -/
theorem labolleSub_band_rd [HasSqrt (Rd R)] [HasFloor (Rd R)] (h2 : R.rep 2)
    (K : Rd R → Rd R) (vmax dz H ddt u z : Rd R) (hH : R.rep H.val)
    (hH2 : R.rep (2 * H.val)) (hz0 : 0 ≤ z.val) (hz1 : z.val ≤ H.val)
    (hd : ∀ zz, |(sqrt (2.0 * fmin (K (zCoarse dz zz)) vmax) * uniformDW u ddt).val| ≤ H.val) :
    0 ≤ (labolleSub K vmax dz H ddt u z).val ∧ (labolleSub K vmax dz H ddt u z).val ≤ H.val := by
  unfold labolleSub
  exact reflect_disp_band_rd h2 H z _ hH hH2 hz0 hz1 (hd _)

/-- `clamp_to_seabed` (`Z = minimum(Z, H)`, no arithmetic): in the band of the new depth `H` -/
theorem clamp_in_range_rd (H z : Rd R) (hH : 0 ≤ H.val) (hz : 0 ≤ z.val) :
    0 ≤ (fmin z H).val ∧ (fmin z H).val ≤ H.val := by
  unfold fmin
  simp only [lt_iff]
  split_ifs with h
  · exact ⟨hH, le_refl _⟩
  · exact ⟨hz, not_lt.mp h⟩

end chemicals

/-! ## 2c. sedimentation / mine -/
section sediment
open Ladim.Sed
variable {R : Rounding}

/-- `bury` never leaves an active particle below the bed (no arithmetic) -/
theorem bury_le_H_rd (H z : Rd R) (a : Nat) (ha : a ≠ 0) : (bury H a z).1.val ≤ H.val := by
  unfold bury
  simp only [ha, if_false, lt_iff]
  split_ifs with h
  · exact le_refl _
  · exact not_lt.mp h

theorem bury_nonneg_rd (H z : Rd R) (a : Nat) (hH : 0 ≤ H.val) (hz : 0 ≤ z.val) :
    0 ≤ (bury H a z).1.val := by
  unfold bury
  simp only [lt_iff]
  split_ifs <;> assumption

/-- `sink` (`z + dt * w`, two roundings) keeps a non-negative depth non-negative when the exact
product is non-negative -/
theorem sink_nonneg_rd (dt w z : Rd R) (a : Nat) (hz : 0 ≤ z.val) (hw : 0 ≤ dt.val * w.val) :
    0 ≤ (sink dt w a z).val := by
  unfold sink
  split_ifs
  · exact hz
  · simp only [add_val, mul_val]
    exact R.rnd_nonneg (add_nonneg hz (R.rnd_nonneg hw))

/-- sink then bury: in `[0, H]` under rounding -/
theorem sink_bury_in_range_rd (H dt w z : Rd R) (a : Nat) (ha : a ≠ 0) (hH : 0 ≤ H.val)
    (hz : 0 ≤ z.val) (hw : 0 ≤ dt.val * w.val) :
    0 ≤ (bury H a (sink dt w a z)).1.val ∧ (bury H a (sink dt w a z)).1.val ≤ H.val :=
  ⟨bury_nonneg_rd _ _ _ hH (sink_nonneg_rd dt w z a hz hw), bury_le_H_rd _ _ _ ha⟩

/-- constant mixing with both mirrors, any `sqrt`: hypothesis on the computed displaced depth -/
theorem mixConst_in_range_rd [HasSqrt (Rd R)] (h2 : R.rep 2) (v h dt xi z : Rd R) (hH : R.rep h.val)
    (hH2 : R.rep (2 * h.val))
    (h1 : -h.val ≤ (z + sqrt (2.0 * v) * (xi * sqrt dt)).val)
    (hzU : (z + sqrt (2.0 * v) * (xi * sqrt dt)).val ≤ 2 * h.val) :
    0 ≤ (mixConst v h dt xi z).val ∧ (mixConst v h dt xi z).val ≤ h.val := by
  have key := reflectPred_in_range_rd h2 h (z + sqrt (2.0 * v) * (xi * sqrt dt)) hH hH2 h1 hzU
  exact key

/-- mine `diffuse` (surface mirror only): never above the surface, for every draw and rounding -/
theorem mixMine_nonneg_rd [HasSqrt (Rd R)] (v dt xi z : Rd R) : 0 ≤ (mixMine v dt xi z).val := by
  unfold mixMine
  simp only [lt_iff, lit0_val]
  split_ifs with h
  · simp only [neg_val]; linarith
  · exact not_lt.mp h

/-- bounded-linear mixing: never above the surface under rounding -/
theorem mixBoundedLinear_nonneg_rd [HasSqrt (Rd R)] (m h dt us xi z : Rd R) (hh : 0 ≤ h.val) :
    0 ≤ (mixBoundedLinear m h dt us xi z).val := by
  unfold mixBoundedLinear
  simp only [lt_iff, le_iff, lit0_val]
  split_ifs <;> (try simp only [neg_val] at *) <;> linarith

end sediment

/-! ## 2c. egg / lice surface mirror and cap, shrimp surface mirror -/
section bio
open Ladim.Bio
variable {R : Rounding}

/-- egg `[0, 200)` and lice `[0, 20)`: no arithmetic besides negation -/
theorem mirrorCap_in_range_rd (cap capm1 z : Rd R) (h0 : 0 ≤ capm1.val) (h1 : capm1.val < cap.val) :
    0 ≤ (mirrorCap cap capm1 z).val ∧ (mirrorCap cap capm1 z).val < cap.val := by
  unfold mirrorCap
  simp only [lt_iff, le_iff, lit0_val]
  split_ifs <;> (try simp only [neg_val] at *) <;> constructor <;> linarith

/-- the egg instance with its literals `200.0`, `199.0` (representable: both are small integers) -/
theorem mirrorCap_egg_rd (h200 : R.rep 200) (h199 : R.rep 199) (z : Rd R) :
    0 ≤ (mirrorCap 200.0 199.0 z).val ∧ (mirrorCap 200.0 199.0 z).val < 200 := by
  have e200 : ((200.0 : Rd R)).val = 200 := by
    show R.rnd (200.0 : ℝ) = 200
    rw [show (200.0 : ℝ) = 200 by norm_num]; exact h200
  have e199 : ((199.0 : Rd R)).val = 199 := by
    show R.rnd (199.0 : ℝ) = 199
    rw [show (199.0 : ℝ) = 199 by norm_num]; exact h199
  have := mirrorCap_in_range_rd (200.0 : Rd R) 199.0 z (by rw [e199]; norm_num) (by rw [e199, e200]; norm_num)
  rwa [e200] at this

/-- the lice instance `20.0`, `19.0` -/
theorem mirrorCap_lice_rd (h20 : R.rep 20) (h19 : R.rep 19) (z : Rd R) :
    0 ≤ (mirrorCap 20.0 19.0 z).val ∧ (mirrorCap 20.0 19.0 z).val < 20 := by
  have e20 : ((20.0 : Rd R)).val = 20 := by
    show R.rnd (20.0 : ℝ) = 20
    rw [show (20.0 : ℝ) = 20 by norm_num]; exact h20
  have e19 : ((19.0 : Rd R)).val = 19 := by
    show R.rnd (19.0 : ℝ) = 19
    rw [show (19.0 : ℝ) = 19 by norm_num]; exact h19
  have := mirrorCap_in_range_rd (20.0 : Rd R) 19.0 z (by rw [e19]; norm_num) (by rw [e19, e20]; norm_num)
  rwa [e20] at this

/-- shrimp `mixing`: never above the surface -/
theorem shrimpMix_nonneg_rd [HasSqrt (Rd R)] (vm dt xi z : Rd R) : 0 ≤ (shrimpMix vm dt xi z).val := by
  unfold shrimpMix
  simp only [lt_iff, lit0_val]
  split_ifs with h
  · simp only [neg_val]; linarith
  · exact not_lt.mp h

/-- larvae `max(min(Z, hi), lo)` and `np.clip`: no arithmetic -/
theorem clipDepth_in_range_rd (lo hi z : Rd R) (h : lo.val ≤ hi.val) :
    lo.val ≤ (clipDepth lo hi z).val ∧ (clipDepth lo hi z).val ≤ hi.val := by
  unfold clipDepth fmax fmin
  simp only [lt_iff]
  split_ifs <;> constructor <;> linarith

theorem npClip_in_range_rd (lo hi z : Rd R) (h : lo.val ≤ hi.val) :
    lo.val ≤ (npClip lo hi z).val ∧ (npClip lo hi z).val ≤ hi.val := by
  unfold npClip fmax fmin
  simp only [lt_iff]
  split_ifs <;> constructor <;> linarith

/-- sand eel / eel `reflexive` ends in `np.clip`: unconditional also under rounding -/
theorem reflexive_in_range_rd (rmin rmax r : Rd R) (h : rmin.val ≤ rmax.val) :
    rmin.val ≤ (reflexive rmin rmax r).val ∧ (reflexive rmin rmax r).val ≤ rmax.val := by
  unfold reflexive
  exact npClip_in_range_rd _ _ _ h

section biofull
variable [HasSqrt (Rd R)] [HasExp (Rd R)] [HasLog (Rd R)] [HasSin (Rd R)] [HasCos (Rd R)]
  [HasAsin (Rd R)] [HasRpow (Rd R)] [HasPi (Rd R)]

/-- egg `update`: new depth in `[0, 200)` under rounding, for every velocity, every draw and every
implementation of the elementary functions -/
theorem eggZ_in_range_rd (h200 : R.rep 200) (h199 : R.rep 199) (D dt diam temp salt buoy : Rd R)
    (xi : Option (Rd R)) (z : Rd R) :
    0 ≤ (eggZ D dt diam temp salt buoy xi z).val ∧ (eggZ D dt diam temp salt buoy xi z).val < 200 := by
  unfold eggZ
  exact mirrorCap_egg_rd h200 h199 _

/-- salmon lice `update_ibm`: new depth in `[0, 20)` under rounding -/
theorem lice_in_range_rd (h20 : R.rep 20) (h19 : R.rep 19)
    (D dt sdt mf k sv temp salt l0 r : Rd R) (xi : Option (Rd R)) (p : Lice (Rd R)) :
    0 ≤ (liceUpdate D dt sdt mf k sv temp salt l0 r xi p).z.val ∧
      (liceUpdate D dt sdt mf k sv temp salt l0 r xi p).z.val < 20 := by
  unfold liceUpdate
  exact mirrorCap_lice_rd h20 h19 _

end biofull
end bio

/-! ## instances of `Rounding` (non-vacuity) -/

/-- exact arithmetic -/
def exact : Rounding where
  rnd := id
  mono := monotone_id
  idem := fun _ => rfl
  zero := rfl
  neg := fun _ => rfl

/-- truncation toward zero to an integer -/
noncomputable def truncR (x : ℝ) : ℝ := if 0 ≤ x then (⌊x⌋ : ℝ) else (⌈x⌉ : ℝ)

theorem truncR_int (n : ℤ) : truncR (n : ℝ) = n := by
  unfold truncR
  split_ifs <;> simp

theorem truncR_isInt (x : ℝ) : ∃ n : ℤ, truncR x = n := by
  unfold truncR
  split_ifs
  · exact ⟨_, rfl⟩
  · exact ⟨_, rfl⟩

theorem truncR_mono : Monotone truncR := by
  intro x y hxy
  unfold truncR
  split_ifs with hx hy hy
  · exact_mod_cast Int.floor_mono hxy
  · exact absurd (le_trans hx hxy) hy
  · have h1 : ⌈x⌉ ≤ 0 := Int.ceil_le.mpr (by push_cast; linarith [not_le.mp hx])
    have h2 : 0 ≤ ⌊y⌋ := Int.floor_nonneg.mpr hy
    exact_mod_cast le_trans h1 h2
  · exact_mod_cast Int.ceil_mono hxy

theorem truncR_neg (x : ℝ) : truncR (-x) = - truncR x := by
  unfold truncR
  rcases lt_trichotomy x 0 with h | h | h
  · have h1 : 0 ≤ -x := by linarith
    have h2 : ¬ 0 ≤ x := not_le.mpr h
    simp only [h1, h2, if_true, if_false, Int.floor_neg]; push_cast; ring
  · subst h; simp
  · have h1 : ¬ 0 ≤ -x := by linarith
    have h2 : 0 ≤ x := h.le
    simp only [h1, h2, if_true, if_false, Int.ceil_neg]; push_cast; ring

/-- round toward zero to the nearest integer: a non-identity rounding -/
noncomputable def toZero : Rounding where
  rnd := truncR
  mono := truncR_mono
  idem := fun x => by obtain ⟨n, hn⟩ := truncR_isInt x; rw [hn, truncR_int]
  zero := by simpa using truncR_int 0
  neg := truncR_neg

/-- any rounding rescaled to the grid `1/s` (`s > 0`): `x ↦ rnd (x * s) / s`.
With `s = 2^k` and `toZero` this is fixed-point truncation with `k` fractional bits. -/
noncomputable def Rounding.scale (R : Rounding) (s : ℝ) (hs : 0 < s) : Rounding where
  rnd := fun x => R.rnd (x * s) / s
  mono := by
    intro x y hxy
    have : x * s ≤ y * s := mul_le_mul_of_nonneg_right hxy hs.le
    exact div_le_div_of_nonneg_right (R.mono this) hs.le
  idem := fun x => by
    show R.rnd (R.rnd (x * s) / s * s) / s = R.rnd (x * s) / s
    rw [div_mul_cancel₀ _ hs.ne', R.idem]
  zero := by
    show R.rnd (0 * s) / s = 0
    rw [zero_mul, R.zero, zero_div]
  neg := fun x => by
    show R.rnd (-x * s) / s = -(R.rnd (x * s) / s)
    rw [neg_mul, R.neg, neg_div]

/-- fixed-point truncation with `k` fractional bits -/
noncomputable def fixedPoint (k : ℕ) : Rounding := toZero.scale (2 ^ k) (by positivity)

theorem toZero_rep_int (n : ℤ) : toZero.rep (n : ℝ) := truncR_int n

/-- `toZero` is not the identity: `1/2` is not representable, `3` is -/
example : ¬ toZero.rep (1 / 2) := by
  unfold Rounding.rep toZero truncR
  norm_num
example : toZero.rep 3 := by simpa using toZero_rep_int 3
/-- `2.5` is representable with one fractional bit, `2.25` is rounded to `2` (toward zero) -/
example : (fixedPoint 1).rnd 2.25 = 2 := by
  show truncR ((2.25 : ℝ) * 2 ^ 1) / 2 ^ 1 = 2
  have : ((2.25 : ℝ) * 2 ^ 1) = 4.5 := by norm_num
  rw [this]
  unfold truncR
  have h : ⌊(4.5 : ℝ)⌋ = 4 := by rw [Int.floor_eq_iff]; norm_num
  rw [if_pos (by norm_num), h]; norm_num

/-! ## 3. non-vacuity of 2a -/

/-- identity rounding, `H = 10`, `z = 13` ↦ `7` -/
example : 0 ≤ (Chemicals.reflect (⟨10⟩ : Rd exact) ⟨13⟩).val ∧
    (Chemicals.reflect (⟨10⟩ : Rd exact) ⟨13⟩).val ≤ 10 :=
  reflect_in_range_rd (R := exact) rfl ⟨10⟩ ⟨13⟩ rfl rfl (by norm_num) (by norm_num)

example : (Chemicals.reflect (⟨10⟩ : Rd exact) ⟨13⟩).val = 7 := by
  rw [reflect_val (R := exact) rfl ⟨10⟩ ⟨13⟩ rfl]
  show (if (10:ℝ) < 13 then (2 * 10 - (if (13:ℝ) < 0 then -13 else 13) : ℝ) else _) = 7
  norm_num

/-- the non-identity rounding `toZero` (integers): `H = 10`, `z = 25/2` (not representable; allowed)
is reflected to `rnd (15/2) = 7 ∈ [0, 10]` -/
example : 0 ≤ (Chemicals.reflect (⟨10⟩ : Rd toZero) ⟨25 / 2⟩).val ∧
    (Chemicals.reflect (⟨10⟩ : Rd toZero) ⟨25 / 2⟩).val ≤ 10 :=
  reflect_in_range_rd (R := toZero) (by simpa using toZero_rep_int 2) ⟨10⟩ ⟨25 / 2⟩
    (by simpa using toZero_rep_int 10)
    (by show toZero.rep (2 * 10)
        rw [show (2 * 10 : ℝ) = ((20 : ℤ) : ℝ) by norm_num]; exact toZero_rep_int 20)
    (by norm_num) (by norm_num)

end C05R

