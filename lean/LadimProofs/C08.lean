import LadimProofs.Laws
import LadimModel.IBM.Sedimentation
import LadimModel.IBM.Grain
/-!
# C08 — sediment particles settle, rest and resuspend according to bed shear stress
-/
open Ladim Ladim.Sed
set_option linter.unusedSectionVars false
set_option linter.unusedVariables false

namespace C08
variable {α : Type} [Field α] [LinearOrder α] [IsStrictOrderedRing α] [HasSqrt α]

/-- bed shear stress: `tau = 1000 · 0.003 · (u² + v²)` -/
theorem tau_formula (hS : SqrtLaws α) (u v : α) :
    shearStress (ustar u v) = 1000 * (0.003 * (u * u + v * v)) := by
  unfold shearStress ustar
  have h : (0 : α) ≤ 0.003 * (u * u + v * v) := by
    have := mul_self_nonneg u; have := mul_self_nonneg v
    have h3 : (0 : α) ≤ 0.003 := by norm_num
    exact mul_nonneg h3 (by linarith)
  rw [hS.sqrt_sq _ h]
  norm_num; ring

/-- the active flag after `resuspend` (before mixing, sinking and burial) -/
def a1 (c : Config α) (e : Env α) (p : Particle α) : Nat := c.carrier.store (resuspend e p.active)
/-- sinking velocity used in the step -/
def sv (e : Env α) (p : Particle α) : α := if isZero p.sinkVel then e.newSink else p.sinkVel
/-- depth after mixing and sinking, before burial -/
def zSunk (c : Config α) (e : Env α) (xi : α) (p : Particle α) : α :=
  sink c.dt (sv e p) (a1 c e p) (diffuse c e xi (a1 c e p) p.z)

theorem update_z (c : Config α) (e : Env α) (xi : α) (p : Particle α) :
    (update c e xi p).z = (bury e.H (a1 c e p) (zSunk c e xi p)).1 := by
  unfold update a1 zSunk sv; rfl

theorem update_active (c : Config α) (e : Env α) (xi : α) (p : Particle α) :
    (update c e xi p).active =
      (if (bury e.H (a1 c e p) (zSunk c e xi p)).2 ≠ 0 ∧ p.active ≠ 1 then c.carrier.store 2
       else (bury e.H (a1 c e p) (zSunk c e xi p)).2) := by
  unfold update a1 zSunk sv; rfl

/-- a suspended particle sinks by exactly `sinking velocity × dt` (no mixing configured) -/
theorem sink_exact (c : Config α) (e : Env α) (xi : α) (p : Particle α)
    (ha : a1 c e p ≠ 0) (hm : c.mixing = .none) :
    zSunk c e xi p = p.z + c.dt * sv e p := by
  unfold zSunk sink diffuse
  simp [ha, hm]

/-- … plus the configured mixing -/
theorem sink_exact_mixing (c : Config α) (e : Env α) (xi : α) (p : Particle α) (ha : a1 c e p ≠ 0) :
    zSunk c e xi p = diffuse c e xi (a1 c e p) p.z + c.dt * sv e p := by
  unfold zSunk sink
  simp [ha]

/-- it stays suspended, at that depth, as long as it has not passed the bed -/
theorem stays_suspended (c : Config α) (e : Env α) (xi : α) (p : Particle α)
    (ha : a1 c e p ≠ 0) (hz : zSunk c e xi p ≤ e.H) :
    (update c e xi p).z = zSunk c e xi p ∧ (update c e xi p).active ≠ 0 := by
  have hb : bury e.H (a1 c e p) (zSunk c e xi p) = (zSunk c e xi p, 1) := by
    unfold bury; simp [ha, not_lt.mpr hz]
  constructor
  · rw [update_z, hb]
  · rw [update_active, hb]
    split_ifs <;> simp [Carrier.store] <;> cases c.carrier <;> simp

/-- when it reaches the sea bed it is placed exactly on the bed and marked settled -/
theorem settle_on_bed (c : Config α) (e : Env α) (xi : α) (p : Particle α)
    (ha : a1 c e p ≠ 0) (hz : e.H < zSunk c e xi p) :
    (update c e xi p).z = e.H ∧ (update c e xi p).active = 0 := by
  have hb : bury e.H (a1 c e p) (zSunk c e xi p) = (e.H, 0) := by
    unfold bury; simp [ha, hz]
  constructor
  · rw [update_z, hb]
  · rw [update_active, hb]
    simp

/-- a settled particle keeps its depth and stays settled unless the stress reaches the threshold -/
theorem settled_rests (c : Config α) (e : Env α) (xi : α) (p : Particle α) (h0 : p.active = 0)
    (hq : e.taucrit = none ∨ ∃ t, e.taucrit = some t ∧ shearStress (ustar e.ub e.vb) < t) :
    (update c e xi p).z = p.z ∧ (update c e xi p).active = 0 := by
  have hr : resuspend e p.active = 0 := by
    unfold resuspend
    rcases hq with h | ⟨t, ht, hlt⟩
    · simp [h, h0]
    · simp [ht, not_le.mpr hlt, h0]
  have ha : c.carrier.store (resuspend e p.active) = 0 := by
    rw [hr]; cases c.carrier <;> simp [Carrier.store]
  unfold update
  simp only [ha, diffuse, sink, bury, if_true]
  simp

/-- … over every history: a settled particle whose bed stress stays below the critical stress in every step (or that
has no critical stress at all) rests at its depth, settled, for the whole history — whatever the other forcing and
the random draws are -/
theorem settled_rests_history (c : Config α) (steps : List (Env α × α)) (p : Particle α) (h0 : p.active = 0)
    (hq : ∀ s ∈ steps, s.1.taucrit = none ∨ ∃ t, s.1.taucrit = some t ∧ shearStress (ustar s.1.ub s.1.vb) < t) :
    (steps.foldl (fun q s => update c s.1 s.2 q) p).z = p.z ∧
    (steps.foldl (fun q s => update c s.1 s.2 q) p).active = 0 := by
  induction steps generalizing p with
  | nil => exact ⟨rfl, h0⟩
  | cons s ss ih =>
    simp only [List.foldl]
    have h1 := settled_rests c s.1 s.2 p h0 (hq s (List.mem_cons_self))
    have h2 := ih (update c s.1 s.2 p) h1.2 (fun s' hs' => hq s' (List.mem_cons_of_mem _ hs'))
    exact ⟨h2.1.trans h1.1, h2.2⟩

theorem never_resuspends_without_taucrit (c : Config α) (e : Env α) (xi : α) (p : Particle α)
    (h0 : p.active = 0) (ht : e.taucrit = none) : (update c e xi p).active = 0 :=
  (settled_rests c e xi p h0 (Or.inl ht)).2

/-- exact resuspension rule for a settled particle: it is active after the update iff the bed shear
stress reaches the critical stress and it is not re-buried in the same step -/
theorem resuspends_iff (c : Config α) (e : Env α) (xi : α) (p : Particle α) (t : α)
    (h0 : p.active = 0) (ht : e.taucrit = some t) :
    (update c e xi p).active ≠ 0 ↔ (t ≤ shearStress (ustar e.ub e.vb) ∧ ¬ e.H < zSunk c e xi p) := by
  by_cases hs : t ≤ shearStress (ustar e.ub e.vb)
  · have hr : resuspend e p.active = 1 := by unfold resuspend; simp [ht, hs]
    have ha : a1 c e p = 1 := by unfold a1; rw [hr]; cases c.carrier <;> simp [Carrier.store]
    by_cases hz : e.H < zSunk c e xi p
    · have := (settle_on_bed c e xi p (by rw [ha]; simp) hz).2
      simp [this, hz]
    · have := (stays_suspended c e xi p (by rw [ha]; simp) (not_lt.mp hz)).2
      simp [this, hs, hz]
  · have := (settled_rests c e xi p h0 (Or.inr ⟨t, ht, not_le.mp hs⟩)).2
    simp [this, hs]

/-- numeric flag carrier: after an update the flag is 0, 1 or 2 -/
theorem flag_range (c : Config α) (e : Env α) (xi : α) (p : Particle α) (hc : c.carrier = .numeric) :
    (update c e xi p).active ≤ 2 := by
  unfold update
  simp only [hc, Carrier.store]
  unfold bury
  split_ifs <;> simp_all

/-- numeric flag carrier: previously-settled particles are flagged distinctly:
`active' = 2 ↔ active' ≠ 0 ∧ active ≠ 1` -/
theorem flag_distinct (c : Config α) (e : Env α) (xi : α) (p : Particle α) (hc : c.carrier = .numeric) :
    (update c e xi p).active = 2 ↔ ((update c e xi p).active ≠ 0 ∧ p.active ≠ 1) := by
  unfold update
  simp only [hc, Carrier.store]
  unfold bury
  split_ifs <;> simp_all

/-- a particle that has ever rested on the bed (flag ≠ 1) is never flagged "never settled" again -/
theorem flag_never_back_to_one (c : Config α) (e : Env α) (xi : α) (p : Particle α)
    (hc : c.carrier = .numeric) (h : p.active ≠ 1) : (update c e xi p).active ≠ 1 := by
  unfold update
  simp only [hc, Carrier.store]
  unfold bury
  split_ifs <;> simp_all

theorem flag_history (c : Config α) (hc : c.carrier = .numeric) (steps : List (Env α × α))
    (p : Particle α) (h : p.active ≠ 1) :
    (steps.foldl (fun q s => update c s.1 s.2 q) p).active ≠ 1 := by
  induction steps generalizing p with
  | nil => simpa
  | cons s ss ih => exact ih _ (flag_never_back_to_one c s.1 s.2 p hc h)

/-- mining variant without resuspension: a particle that settles leaves the simulation -/
theorem mine_settled_leaves (c : Mine.Config α) (e : Mine.Env α) (xi : α) (p : Particle α)
    (ht : c.taucrit = none) (hA : c.hasActive = true) (ha : p.active ≠ 0)
    (hz : e.H < sink c.dt (if c.vadv then p.sinkVel + e.w else p.sinkVel) p.active
      (mixMine c.vdiff c.dt xi p.z)) :
    (Mine.update c e xi p).alive = false ∧ (Mine.update c e xi p).z = e.H := by
  unfold Mine.update Mine.resusp
  simp only [ht, hA, if_true]
  unfold bury
  simp [ha, hz]

/-! ## grain-size raster: nearest cell, critical stress -/
section grain
open Ladim.Grain
variable [HasTrunc α]

/-- law of `np.int32(x)` for non-negative `x` (truncation = floor) -/
def TruncLaw (α : Type) [Field α] [LinearOrder α] [HasTrunc α] : Prop :=
  ∀ x : α, 0 ≤ x → ((trunc x : Int) : α) ≤ x ∧ x < ((trunc x : Int) : α) + 1

/-- inside the raster the selected cell is the nearest one: with `t = (lon − lon0)/dlon ∈ [0, imax]`
(any sign of `dlon`: ascending or descending axes), `|t − i| ≤ 1/2`. -/
theorem nearest_cell_is_nearest (hT : TruncLaw α) (lon0 dlon lon : α) (imax : Int)
    (h0 : 0 ≤ (lon - lon0) / dlon) (h1 : (lon - lon0) / dlon ≤ (imax : α)) (him : 0 ≤ imax) :
    |(lon - lon0) / dlon - ((nearestCell lon0 dlon imax lon : Int) : α)| ≤ 1 / 2 := by
  unfold nearestCell clipInt
  set t := (lon - lon0) / dlon with ht
  have hx : (0 : α) ≤ 0.5 + t := by norm_num; linarith
  obtain ⟨hl, hu⟩ := hT (0.5 + t) hx
  set k := trunc (0.5 + t) with hk
  norm_num at hl hu
  have hk0 : 0 ≤ k := by
    by_contra hneg
    have : (k : α) + 1 ≤ 0 := by
      have : k + 1 ≤ 0 := by omega
      exact_mod_cast this
    linarith
  rw [if_neg (by omega)]
  split_ifs with h2
  · -- clipped to imax: t is in [imax - 1/2, imax]
    have : (imax : α) + 1 ≤ (k : α) := by
      have : imax + 1 ≤ k := by omega
      exact_mod_cast this
    rw [abs_le]; constructor <;> linarith
  · rw [abs_le]; constructor <;> linarith

/-- outside the raster the index is clamped to the edge cell -/
theorem nearest_cell_clamped (lon0 dlon lon : α) (imax : Int) (him : 0 ≤ imax) :
    0 ≤ nearestCell lon0 dlon imax lon ∧ nearestCell lon0 dlon imax lon ≤ imax := by
  unfold nearestCell clipInt
  split_ifs <;> omega

theorem taucrit_bin_table (sed : α) :
    (sed = 0 → taucritBin sed = 0.12) ∧ (0 < sed → sed < 70 → taucritBin sed = 0.06) ∧
    (70 ≤ sed → sed ≤ 180 → taucritBin sed = 0.12) ∧ (180 < sed → taucritBin sed = 0.32) := by
  unfold taucritBin
  norm_num
  refine ⟨?_, ?_, ?_, ?_⟩
  · rintro rfl; norm_num
  · intro h1 h2; simp [h1, h2, not_lt.mpr (by linarith : sed ≤ 180)]
  · intro h1 h2; simp [not_lt.mpr h1, not_lt.mpr h2]
  · intro h; simp [h]

theorem taucrit_poly_default : taucritPoly (0 : α) = 0.12 := by
  unfold taucritPoly; norm_num

theorem taucrit_poly_pos (sed : α) (h : 0 ≤ sed) : 0 < taucritPoly sed := by
  unfold taucritPoly
  split_ifs
  · have := mul_self_nonneg sed
    norm_num; nlinarith
  · norm_num

/-- the lazily cached bottom stress equals a fresh computation whenever the step counter has
increased since the cached evaluation; within the same step it returns the cached value. -/
theorem cache_fresh {β : Type} (c : Cache β) (t : Int) (v : β) (h : c.tstep < t) :
    (c.get t v).2 = v ∧ (c.get t v).1.tstep = t := by
  unfold Cache.get; simp [h]

theorem cache_same_step {β : Type} (c : Cache β) (v : β) :
    (c.get c.tstep v).2 = c.value ∧ (c.get c.tstep v).1 = c := by
  unfold Cache.get; simp

/-- transparency over a whole run: if the step counter strictly increases from update to update
(as LADiM's does), every lookup returns the value computed for that step -/
theorem cache_transparent {β : Type} (c : Cache β) (steps : List (Int × β))
    (hinc : List.Pairwise (fun a b => a.1 < b.1) steps) (h0 : ∀ s ∈ steps, c.tstep < s.1) :
    ∀ (pre : List (Int × β)) (s : Int × β) (post : List (Int × β)), steps = pre ++ s :: post →
      ((pre.foldl (fun cc x => (cc.get x.1 x.2).1) c).get s.1 s.2).2 = s.2 := by
  intro pre s post hsplit
  have aux : ∀ (l : List (Int × β)) (cc : Cache β) (bound : Int),
      List.Pairwise (fun a b => a.1 < b.1) l → (∀ x ∈ l, cc.tstep < x.1) → (∀ x ∈ l, x.1 < bound) →
      cc.tstep < bound → (l.foldl (fun cc x => (cc.get x.1 x.2).1) cc).tstep < bound := by
    intro l
    induction l with
    | nil => intro cc bound _ _ _ h; simpa using h
    | cons x xs ih =>
      intro cc bound hp hlt hb hcb
      simp only [List.foldl]
      have hx : cc.tstep < x.1 := hlt x (by simp)
      have hget : (cc.get x.1 x.2).1.tstep = x.1 := (cache_fresh cc x.1 x.2 hx).2
      rw [List.pairwise_cons] at hp
      apply ih _ bound hp.2
      · intro y hy; rw [hget]; exact hp.1 y hy
      · intro y hy; exact hb y (by simp [hy])
      · rw [hget]; exact hb x (by simp)
  subst hsplit
  rw [List.pairwise_append] at hinc
  have hts := aux pre c s.1 hinc.1 (fun x hx => h0 x (by simp [hx]))
    (fun x hx => hinc.2.2 x hx s (by simp)) (h0 s (by simp))
  exact (cache_fresh _ _ _ hts).1

end grain

/-- non-vacuity of the `SqrtLaws` / resuspension hypotheses -/
example : SqrtLaws ℝ := RealInst.sqrtLaws

end C08
