import LadimProofs.Bridge.RomsCtorSeq
import LadimProofs.Bridge.ComputeWSeq
/-!
# C06 and C14 — the property's clauses, stated and proved about the INTERPRETATION OF THE CURRENT SOURCE

**Property C06 — Forcing fields follow the forcing files in time for every run schedule.**
STATEMENT: At every model step the horizontal current field served by the chemicals/mine forcing equals the
linear-in-time interpolation of the two forcing frames that enclose that step, and each auxiliary scalar field lies
between those two frames and equals the frame itself at steps that coincide with a frame. This holds for every offset
of the simulation start relative to the forcing frames, every time-step length, and every increasing sequence of update
steps, including runs where leading or intermediate steps are skipped because no particles exist yet.
QUANTIFIER: all start times inside the forcing period (on a frame, between frames, any fraction), all dt dividing or
not dividing the frame interval, all increasing sequences of step numbers t0 < t1 < ... that LADiM can issue
(consecutive, starting late, with gaps), one or several forcing files

**Property C14 — Diagnosed vertical velocity satisfies continuity.**
STATEMENT: The vertical velocity derived from the horizontal currents is linear in the currents, vanishes for any flow
whose layer transports are horizontally non-divergent over a flat bottom, is zero at the bed and the surface over a
flat bottom and on the lateral boundary, and is positive (downward) under surface convergence. On a flat-bottom grid
it equals the column-integrated divergence of the layer transports with the depth-uniform (free-surface) part removed,
for any layer thicknesses and any horizontally varying cell sizes.
QUANTIFIER: all grid sizes >= 4x4x3, all monotone vertical stretchings, all positive metric coefficients (uniform or
varying), all velocity fields; flat bottoms for the exact identities, arbitrary bathymetry for linearity and boundary
values

## What is stated about what

All theorems `OnCode.c06_*` / `OnCode.c14_*` below talk about runs of the *generated* statement sequences
(`LadimModel/Generated/Formulas.lean`, regenerated from /repo on every run) through the interpreters:

* C14: `cwRunArgs x Gen.compute_w_seq` (module-level `compute_w`, whole-array numpy program) and
  `cwFwRunArgs y (… cwRun … Gen.compute_w_seq) Gen.forcing_compute_w_seq` (`Forcing.compute_w`, callee interpreted too).
  The layer transports, their divergence and its column sum (`c14_transU`, `c14_transV`, `c14_div`, `c14_colDiv`) are
  *specification* terms, written here from the input arrays of the call (they do not mention the hand-written model).
* C06: `ctorSeq glob fs cfg` (`Forcing.__init__`: `Gen.forcing_ctor_seq`, which calls the interpretations of
  `Gen.forcing_find_files_seq`, `Gen.forcing_scan_file_times_seq`, `Gen.forcing_steps_seq`), `findFilesSeq`,
  `updateSeqRun` (`Forcing.update` for every step of a schedule: `Gen.forcing_update_seq`, which calls the interpretations
  of `Gen.forcing_init_seq` = `_remaining_initialization` and `Gen.forcing_step_seq` = `_update_one_step`), and the
  readers `readVelocitySeq` / `openFileSeq` / `readFieldSeq` (`Gen.forcing_read_velocity_seq`, `Gen.forcing_open_file_seq`,
  `Gen.forcing_read_field_seq`).

## Hypotheses (C06)

`c06_Valid` = the valid configuration: `files` is what the interpreted `find_files` returns; the frame times of all files
increase strictly (`SystemExit(4)` otherwise); the first frame is not after `start_time`, the last not before `stop_time`
(`SystemExit(3)` otherwise); `dt > 0`; **aligned**: the offset of every frame time from `start_time` is a multiple of `dt`
— this is the property's quantifier *minus the known findings F-C06e* (`Bridge.forcing_steps_unaligned`: with
`int(dtime/dt)` truncating, two frames can share a step).  `c06_Step` = the schedule (strictly increasing, non-negative,
last step `T`) and the two consecutive frames `k`, `k+1` of the files (times `τ`, `τ'`) that enclose
`start + T·dt` (`τ ≤ start + T·dt < τ'`; they exist for every step before the last frame: `c06_step_enclosed`).
Forced by the bridges (all discharged here from `c06_Valid` / `c06_Step`, none is left to the user):
`C06.Sorted steps` and `(Roms.init …).isSome` of `Bridge.forcing_update_any_schedule` (from alignment + increasing times;
from a frame at or before the start + the enclosing pair), `hlen` of `Bridge.forcing_steps` (inside `forcing_ctor`),
the good-case hypotheses of `Bridge.forcing_ctor_ok`.

## The readers: what is and what is not connected

The interpreters of `_remaining_initialization` / `_update_one_step` take the two readers as *functions of the step
number* (`Roms.Frames.vel`, `.sc`).  Here these functions are the interpreted readers run on the object `o` that the
interpreted constructor returns: `c06_readVel … o n` = a component (`pick`) of `_read_velocity(n)` on `o` (no dataset
open: it opens `file_idx[n]`), `c06_readField … o n` = `_read_field(name, n)` right after `open_forcing_file(n)` on `o`.
`c06_readers_serve_file_frames` / `c06_frames_are_file_frames` show that for the step `n = steps[k]` of frame `k` these
are frame `i` of file `f`, where `(f, i)` is the `k`-th (file, index) pair in file order and `(fs f).times[i]` is the
`k`-th frame time.  NOT connected (no interpreter threads it): the *open-dataset state* of the object through the
sequence of reads of a run.  `Bridge.forcing_read_velocity_same_file` / `forcing_read_field_open` show that a later read
uses the dataset that happens to be open, and `Bridge.RomsReadFieldExample` is a run in which `_read_field(name, 0)`
of the initialisation therefore reads the next file.  So the theorems say "interpolation of the frames *as a fresh read
of that step returns them*".

## Known finding F-C06a (exactly which case)

`c06_scalar_known_finding_F_C06a`: when the enclosing earlier frame is the very first frame of the files and it lies
exactly on `start_time` (`k = 0`, `τ = start`; no frame before the start), the scalar served at every step up to the
second frame — in particular at the frame step `T = 0` — is the SECOND frame.  It still lies between the two enclosing
frames (`c06_scalar_between` holds in every case); "equals the frame itself" (`c06_scalar_on_frame`) holds at every
other frame step (`k ≥ 1`).
-/
open Ladim Ladim.Seq Ladim.ComputeW

set_option linter.unusedSectionVars false
set_option linter.unusedVariables false
set_option linter.unusedSimpArgs false
namespace OnCode

/-! # C14 — on the interpreted `compute_w`

`x : CwArgs α` is the call `compute_w(pn, pm, u, v, z_w, z_r)` (shapes: `pn`, `pm` `(J, I)`; `u` `(T, K, J, I-1)`; `v`
`(T, K, J-1, I)`; `z_w` `(T, K+1, J, I)`; `z_r` `(T, K, J, I)`), `W` the array the interpreted run returns
(`cwRunArgs x Gen.compute_w_seq = some (some W)`; it exists, with shape `(T, K+1, J, I)`: `c14_runs`).
Hypotheses: `hK : 3 ≤ x.K` — forced by the bridge `Bridge.compute_w_seq` and by the code (with fewer layers the run raises,
`Bridge.compute_w_seq_few_layers`; the property quantifies over ≥ 3 layers); `k ≤ x.K` — a w level of the returned array;
`hin` — an interior rho cell (the `[1:-1, 1:-1]` slices); `hflat` — `z_r` does not vary horizontally (flat bottom) for the
exact identities.  No hypothesis on `J`, `I`, the stretching or the metric is needed except where stated
(`c14_surface_zero`: the column has non-zero depth; `c14_positive_surface_convergence`: `pm, pn > 0`).
Satisfiability of all hypotheses: `C14Example` at the end of the file. -/
section c14
variable {α : Type} [Field α] [LinearOrder α] [IsStrictOrderedRing α]

/-- thickness of layer `k` -/
def c14_Hz (x : CwArgs α) (t k : Nat) (j i : Int) : α := x.zw t (k + 1) j i - x.zw t k j i

/-- transport of layer `k` through the face east of rho cell `(j, i)`: thickness at the face × `u` × face length
(`1/pn` at the face) -/
def c14_transU (x : CwArgs α) (t k : Nat) (j i : Int) : α :=
  (c14_Hz x t k j i + c14_Hz x t k j (i + 1)) / 2 * x.u t k j i * (2 / (x.pn j i + x.pn j (i + 1)))

/-- transport of layer `k` through the face north of rho cell `(j, i)` -/
def c14_transV (x : CwArgs α) (t k : Nat) (j i : Int) : α :=
  (c14_Hz x t k j i + c14_Hz x t k (j + 1) i) / 2 * x.v t k j i * (2 / (x.pm j i + x.pm (j + 1) i))

/-- horizontal divergence (net outflow) of the layer-`k` transports of rho cell `(j, i)` -/
def c14_div (x : CwArgs α) (t k : Nat) (j i : Int) : α :=
  (c14_transU x t k j i - c14_transU x t k j (i - 1)) + (c14_transV x t k j i - c14_transV x t k (j - 1) i)

/-- column-integrated divergence of the layers below w level `k` -/
def c14_colDiv (x : CwArgs α) (t k : Nat) (j i : Int) : α :=
  ((List.range k).map (fun l => c14_div x t l j i)).sum

theorem c14_dW_eq (x : CwArgs α) (t k : Nat) (j i : Int) :
    dW (x.grid t) (x.u t) (x.v t) k j i = -c14_div x t k j i := by
  unfold dW huon hvom hzr c14_div c14_transU c14_transV c14_Hz CwArgs.grid
  simp only []
  lits
  norm_num
  ring

theorem c14_wcum_eq (x : CwArgs α) (t k : Nat) (j i : Int) :
    wcum (x.grid t) (x.u t) (x.v t) k j i = -c14_colDiv x t k j i := by
  rw [C14.wcum_eq_sum]
  unfold c14_colDiv
  simp only [c14_dW_eq]
  induction (List.range k) with
  | nil => simp
  | cons a l ih => simp only [List.map_cons, List.sum_cons, ih]; ring

/-- the interpreted `compute_w` runs (K ≥ 3) and what it returns is unique -/
theorem c14_run_model (x : CwArgs α) (hK : 3 ≤ x.K) (W : CwA4 α)
    (hW : cwRunArgs x Gen.compute_w_seq = some (some W)) :
    ∀ (t k : Nat) (j i : Int), k ≤ x.K → W.f t k j i = computeW (x.grid t) (x.u t) (x.v t) k j i := by
  obtain ⟨W', hW', -, -, -, -, -, hf⟩ := Bridge.compute_w_seq x hK
  rw [hW] at hW'
  cases hW'
  exact hf

/-- the interpreted `compute_w` succeeds for `K ≥ 3` and returns an array of shape `(T, K+1, J, I)` -/
theorem c14_runs (x : CwArgs α) (hK : 3 ≤ x.K) :
    ∃ W, cwRunArgs x Gen.compute_w_seq = some (some W) ∧ W.ok = true ∧
      W.nt = x.T ∧ W.nk = x.K + 1 ∧ W.nj = x.J - 2 + 2 ∧ W.ni = x.I - 2 + 2 := by
  obtain ⟨W, hW, h1, h2, h3, h4, h5, -⟩ := Bridge.compute_w_seq x hK
  exact ⟨W, hW, h1, h2, h3, h4, h5⟩

/-- **C14, flat-bottom identity**: `w` = `pm·pn` × (column-integrated divergence of the layer transports below the level
− the depth-uniform (free-surface) share of the total), for any layer thicknesses and any horizontally varying `pm`,
`pn` -/
theorem c14_flat_identity (x : CwArgs α) (hK : 3 ≤ x.K) (W : CwA4 α)
    (hW : cwRunArgs x Gen.compute_w_seq = some (some W)) (t : Nat)
    (hflat : ∀ k j i j' i', x.zr t k j i = x.zr t k j' i')
    (k : Nat) (hk : k ≤ x.K) (j i : Int)
    (hin : 1 ≤ j ∧ j + 2 ≤ (x.J : Int) ∧ 1 ≤ i ∧ i + 2 ≤ (x.I : Int)) :
    W.f t k j i = x.pm j i * x.pn j i *
      (c14_colDiv x t k j i -
        (x.zw t k j i - x.zw t 0 j i) / (x.zw t x.K j i - x.zw t 0 j i) * c14_colDiv x t x.K j i) := by
  rw [c14_run_model x hK W hW t k j i hk,
    C14.w_flat_identity (x.grid t) (fun k j i j' i' => hflat k j i j' i') (x.u t) (x.v t) k j i hin]
  show -(x.pm j i * x.pn j i) * (wcum (x.grid t) (x.u t) (x.v t) k j i -
        (x.zw t k j i - x.zw t 0 j i) / (x.zw t x.K j i - x.zw t 0 j i) * wcum (x.grid t) (x.u t) (x.v t) x.K j i) = _
  rw [c14_wcum_eq, c14_wcum_eq]
  ring

/-- **C14, zero at the bed (flat bottom)** -/
theorem c14_bed_zero (x : CwArgs α) (hK : 3 ≤ x.K) (W : CwA4 α)
    (hW : cwRunArgs x Gen.compute_w_seq = some (some W)) (t : Nat)
    (hflat : ∀ k j i j' i', x.zr t k j i = x.zr t k j' i') (j i : Int)
    (hin : 1 ≤ j ∧ j + 2 ≤ (x.J : Int) ∧ 1 ≤ i ∧ i + 2 ≤ (x.I : Int)) : W.f t 0 j i = 0 := by
  rw [c14_flat_identity x hK W hW t hflat 0 (Nat.zero_le _) j i hin]
  simp [c14_colDiv]

/-- **C14, zero at the surface (flat bottom)** -/
theorem c14_surface_zero (x : CwArgs α) (hK : 3 ≤ x.K) (W : CwA4 α)
    (hW : cwRunArgs x Gen.compute_w_seq = some (some W)) (t : Nat)
    (hflat : ∀ k j i j' i', x.zr t k j i = x.zr t k j' i') (j i : Int)
    (hin : 1 ≤ j ∧ j + 2 ≤ (x.J : Int) ∧ 1 ≤ i ∧ i + 2 ≤ (x.I : Int))
    (hD : x.zw t x.K j i ≠ x.zw t 0 j i) : W.f t x.K j i = 0 := by
  rw [c14_flat_identity x hK W hW t hflat x.K (le_refl _) j i hin, div_self (sub_ne_zero.mpr hD)]
  ring

/-- **C14, zero on the lateral boundary (any bathymetry)** -/
theorem c14_lateral_zero (x : CwArgs α) (hK : 3 ≤ x.K) (W : CwA4 α)
    (hW : cwRunArgs x Gen.compute_w_seq = some (some W)) (t k : Nat) (hk : k ≤ x.K) (j i : Int)
    (hout : ¬ (1 ≤ j ∧ j + 2 ≤ (x.J : Int) ∧ 1 ≤ i ∧ i + 2 ≤ (x.I : Int))) : W.f t k j i = 0 := by
  rw [c14_run_model x hK W hW t k j i hk]
  exact C14.w_lateral_zero (x.grid t) _ _ k j i hout

/-- **C14, non-divergent layer transports over a flat bottom: no vertical velocity** -/
theorem c14_zero_nondivergent (x : CwArgs α) (hK : 3 ≤ x.K) (W : CwA4 α)
    (hW : cwRunArgs x Gen.compute_w_seq = some (some W)) (t : Nat)
    (hflat : ∀ k j i j' i', x.zr t k j i = x.zr t k j' i') (j i : Int)
    (hin : 1 ≤ j ∧ j + 2 ≤ (x.J : Int) ∧ 1 ≤ i ∧ i + 2 ≤ (x.I : Int))
    (hnd : ∀ l, l < x.K → c14_div x t l j i = 0) (k : Nat) (hk : k ≤ x.K) : W.f t k j i = 0 := by
  have h0 : ∀ m, m ≤ x.K → c14_colDiv x t m j i = 0 := by
    intro m hm
    unfold c14_colDiv
    apply List.sum_eq_zero
    intro y hy
    obtain ⟨l, hl, rfl⟩ := List.mem_map.mp hy
    exact hnd l (by have := List.mem_range.mp hl; omega)
  rw [c14_flat_identity x hK W hW t hflat k hk j i hin, h0 k hk, h0 x.K (le_refl _)]
  ring

/-- **C14, positive (downward) under surface convergence**: no net column divergence, net divergence below level `k`
(hence convergence above it), positive metric -/
theorem c14_positive_surface_convergence (x : CwArgs α) (hK : 3 ≤ x.K) (W : CwA4 α)
    (hW : cwRunArgs x Gen.compute_w_seq = some (some W)) (t : Nat)
    (hflat : ∀ k j i j' i', x.zr t k j i = x.zr t k j' i') (j i : Int)
    (hin : 1 ≤ j ∧ j + 2 ≤ (x.J : Int) ∧ 1 ≤ i ∧ i + 2 ≤ (x.I : Int))
    (hpm : 0 < x.pm j i) (hpn : 0 < x.pn j i) (k : Nat) (hk : k ≤ x.K)
    (htot : c14_colDiv x t x.K j i = 0) (hbelow : 0 < c14_colDiv x t k j i) : 0 < W.f t k j i := by
  rw [c14_flat_identity x hK W hW t hflat k hk j i hin, htot]
  have := mul_pos hpm hpn
  nlinarith

/-- **C14, continuity**: over a flat bottom the vertical difference of `w` across layer `k` balances the horizontal
divergence of the layer's transports (scaled by the cell area `1/(pm·pn)`), up to the depth-uniform free-surface share;
with no net column divergence (`c14_colDiv x t K = 0`) it is exactly `pm·pn·div_k` -/
theorem c14_continuity (x : CwArgs α) (hK : 3 ≤ x.K) (W : CwA4 α)
    (hW : cwRunArgs x Gen.compute_w_seq = some (some W)) (t : Nat)
    (hflat : ∀ k j i j' i', x.zr t k j i = x.zr t k j' i') (j i : Int)
    (hin : 1 ≤ j ∧ j + 2 ≤ (x.J : Int) ∧ 1 ≤ i ∧ i + 2 ≤ (x.I : Int)) (k : Nat) (hk : k < x.K) :
    W.f t (k + 1) j i - W.f t k j i = x.pm j i * x.pn j i *
      (c14_div x t k j i - c14_Hz x t k j i / (x.zw t x.K j i - x.zw t 0 j i) * c14_colDiv x t x.K j i) := by
  rw [c14_flat_identity x hK W hW t hflat (k + 1) hk j i hin,
    c14_flat_identity x hK W hW t hflat k (le_of_lt hk) j i hin]
  have e : c14_colDiv x t (k + 1) j i = c14_colDiv x t k j i + c14_div x t k j i := by
    unfold c14_colDiv
    rw [List.range_succ, List.map_append, List.sum_append]
    simp
  rw [e]
  unfold c14_Hz
  ring

/-- **C14, linear in the currents (any bathymetry, stretching, metric)**: the run on `a·(u₁,v₁) + b·(u₂,v₂)` returns
`a·W₁ + b·W₂` -/
theorem c14_linear (x : CwArgs α) (hK : 3 ≤ x.K) (a b : α) (u₁ u₂ v₁ v₂ : Nat → Nat → Int → Int → α)
    (W W₁ W₂ : CwA4 α)
    (hW : cwRunArgs { x with u := fun t k j i => a * u₁ t k j i + b * u₂ t k j i,
                             v := fun t k j i => a * v₁ t k j i + b * v₂ t k j i } Gen.compute_w_seq = some (some W))
    (hW₁ : cwRunArgs { x with u := u₁, v := v₁ } Gen.compute_w_seq = some (some W₁))
    (hW₂ : cwRunArgs { x with u := u₂, v := v₂ } Gen.compute_w_seq = some (some W₂))
    (t k : Nat) (hk : k ≤ x.K) (j i : Int) : W.f t k j i = a * W₁.f t k j i + b * W₂.f t k j i := by
  have h := c14_run_model { x with u := fun t k j i => a * u₁ t k j i + b * u₂ t k j i,
                                   v := fun t k j i => a * v₁ t k j i + b * v₂ t k j i } hK W hW t k j i hk
  have h₁ := c14_run_model { x with u := u₁, v := v₁ } hK W₁ hW₁ t k j i hk
  have h₂ := c14_run_model { x with u := u₂, v := v₂ } hK W₂ hW₂ t k j i hk
  rw [h, h₁, h₂]
  exact C14.w_linear (x.grid t) a b (u₁ t) (u₂ t) (v₁ t) (v₂ t) k j i

/-- **`Forcing.compute_w` passes the subgrid arrays in the right order**: the interpreted method (callee interpreted
from `Gen.compute_w_seq`) returns time 0 of what the interpreted `compute_w` returns for `pn = 1/dy`, `pm = 1/dx`,
`u[k, j, i] = u_in[k, j, i+1]`, `v[k, j, i] = v_in[k, j+1, i]`, `z_w`, `z_r` of the grid — so every `c14_*` clause above
holds of it (with `x` := that call, `t = 0`) -/
theorem c14_forcing_compute_w (y : CwFwArgs α) (hK : 3 ≤ y.K) :
    ∃ (W3 : CwA3 α) (W4 : CwA4 α),
      cwFwRunArgs y (fun pn pm u v zw zr => cwRun pn pm u v zw zr Gen.compute_w_seq) Gen.forcing_compute_w_seq
        = some (some W3) ∧
      cwRunArgs { T := 1, K := y.K, J := y.J, I := y.I,
                  pn := fun j i => 1.0 / y.dy j i, pm := fun j i => 1.0 / y.dx j i,
                  u := fun _ k j i => y.uin k j (i + 1), v := fun _ k j i => y.vin k (j + 1) i,
                  zw := fun _ => y.zw, zr := fun _ => y.zr } Gen.compute_w_seq = some (some W4) ∧
      W3.ok = true ∧ W3.n0 = y.K + 1 ∧ W3.nj = y.J - 2 + 2 ∧ W3.ni = y.I - 2 + 2 ∧
      ∀ (k : Nat) (j i : Int), k ≤ y.K → W3.f k j i = W4.f 0 k j i := by
  obtain ⟨W3, h3, hok, s1, s2, s3, hf3⟩ := Bridge.forcing_compute_w_seq y hK
  obtain ⟨W4, h4, -, -, -, -, -, hf4⟩ := Bridge.compute_w_seq y.toCw hK
  refine ⟨W3, W4, h3, h4, hok, s1, s2, s3, fun k j i hk => ?_⟩
  rw [hf3 k j i hk, hf4 0 k j i hk]
  rfl

end c14

/-! # C06 — from the files to the served fields, on the interpreted code -/
section c06
open Ladim.Seq.RomsCtor Ladim.Roms
variable {α : Type} [Field α] [LinearOrder α] [IsStrictOrderedRing α]

/-! ### list facts -/

theorem c06_foldl_none (l : List Int) : ∀ acc : Option Int,
    l.foldl (fun acc s => if s < 0 then (match acc with | none => some s | some a => some (max a s)) else acc) acc
      = none ↔ acc = none ∧ ∀ x ∈ l, 0 ≤ x := by
  induction l with
  | nil => intro acc; simp
  | cons s l ih =>
    intro acc
    rw [List.foldl_cons, ih]
    by_cases hs : s < 0
    · simp only [if_pos hs]
      cases acc with
      | none => simp; intro h; omega
      | some a => simp
    · simp only [if_neg hs, List.mem_cons, forall_eq_or_imp]
      constructor
      · rintro ⟨h1, h2⟩; exact ⟨h1, by omega, h2⟩
      · rintro ⟨h1, _, h2⟩; exact ⟨h1, h2⟩

theorem c06_prestep_none_iff (l : List Int) : prestepOf l = none ↔ ∀ x ∈ l, 0 ≤ x := by
  refine Iff.trans (c06_foldl_none l none) ?_
  simp

theorem c06_nextStep_getElem : ∀ (l : List Int) (k : Nat) (n n' : Int), C06.Sorted l →
    l[k]? = some n → l[k + 1]? = some n' → nextStep l n = some n'
  | [], k, n, n', _, h, _ => by simp at h
  | [a], k, n, n', _, _, h' => by simp at h'
  | a :: b :: rest, 0, n, n', _, h, h' => by
    simp at h h'
    subst h; subst h'
    simp [nextStep]
  | a :: b :: rest, k + 1, n, n', hs, h, h' => by
    have hs' : C06.Sorted (b :: rest) := (List.pairwise_cons.mp hs).2
    have hab : ∀ x ∈ b :: rest, a < x := (List.pairwise_cons.mp hs).1
    have h1 : (b :: rest)[k]? = some n := by simpa using h
    have h2 : (b :: rest)[k + 1]? = some n' := by simpa using h'
    have := hab n (List.mem_of_getElem? h1)
    unfold nextStep
    rw [if_neg (by omega)]
    exact c06_nextStep_getElem (b :: rest) k n n' hs' h1 h2

/-! ### the state machine on an arbitrary step table -/

/-- `_remaining_initialization` succeeds when a frame lies at or before the start and the step `T ≥ 0` is enclosed -/
theorem c06_init_isSome (fr : Frames α) (hs : C06.Sorted fr.steps) (hle : ∃ x ∈ fr.steps, x ≤ 0)
    (T n n' : Int) (hT : 0 ≤ T) (hb : C06.Bracket fr.steps T n n') :
    (init .stepdiff .next fr).isSome = true := by
  obtain ⟨hb1, hb2, hb3⟩ := hb
  obtain ⟨q1, q2, q3, q4⟩ := C06.nextStep_spec _ hs n n' hb1
  unfold init
  cases hp : prestepOf fr.steps with
  | some p =>
    obtain ⟨p1, p2, p3⟩ := C06.prestepOf_spec _ _ hp
    obtain ⟨m, hm⟩ := C06.nextStep_of_mem fr.steps hs p p1 ⟨n', q2, by omega⟩
    simp only [hm]
    rfl
  | none =>
    have hnn := (c06_prestep_none_iff _).mp hp
    obtain ⟨x, hx, hx0⟩ := hle
    have hx' : x = 0 := by have := hnn x hx; omega
    subst hx'
    rcases hst : fr.steps with _ | ⟨a, _ | ⟨b, rest⟩⟩
    · rw [hst] at hx; simp at hx
    · rw [hst] at hx q2 hnn
      simp at hx q2
      omega
    · rw [hst] at hs hx
      have hab : ∀ y ∈ b :: rest, a < y := (List.pairwise_cons.mp hs).1
      have ha : a = 0 := by
        rcases List.mem_cons.mp hx with h | h
        · exact h.symm
        · have := hab 0 h
          have := hnn a (by rw [hst]; simp)
          omega
      subst ha
      rfl

/-- the whole run of the interpreted `update` on a step table `fr`: it succeeds, and its state is the invariant of
`C06Main` at the last step of the schedule -/
theorem c06_run_inv (fr : Frames α) (cw : α → α) (z : α) (hs : C06.Sorted fr.steps)
    (hle : ∃ x ∈ fr.steps, x ≤ 0) (sched : List Int) (hp : List.Pairwise (· < ·) sched)
    (h0 : ∀ x ∈ sched, 0 ≤ x) (T : Int) (hT : sched.getLast? = some T) (n n' : Int)
    (hb : C06.Bracket fr.steps T n n') :
    ∃ c st0, updateSeqRun fr cw z sched ⟨FSt.blank z, -1⟩ = some (some c) ∧ c.last = T ∧
      init .stepdiff .next fr = some st0 ∧
      c.st.roms T = updateRange fr st0 0 (T.toNat + 1) ∧
      C06.Inv fr (C06.Good0 .next fr.steps) st0.S T n n' (c.st.roms T) ∧
      (Bridge.LinearW cw → c.st.W = cw c.st.U) := by
  have hT0 := h0 T (List.mem_of_getLast? hT)
  have hinit := c06_init_isSome fr hs hle T n n' hT0 hb
  obtain ⟨c, hrun, hcode, hlast, -, hW⟩ :=
    Bridge.forcing_update_any_schedule fr cw z hs hinit sched hp h0 T hT n n' hb
  obtain ⟨st0, hst0⟩ := Option.isSome_iff_exists.mp hinit
  have hi := Bridge.forcing_init fr cw z
  rw [hst0] at hi
  obtain ⟨s0, hrun0, hroms⟩ := Option.map_eq_some_iff.mp hi
  obtain ⟨hb1, hb2, hb3⟩ := hb
  have hn'mem := (C06.nextStep_spec fr.steps hs n n' hb1).2.1
  have hnext : ∀ x, x ≤ T → fr.steps.contains (x - 1) = true →
      (nextStep fr.steps (x - 1)).isSome = true := by
    intro x hx hc
    obtain ⟨m, hm⟩ := C06.nextStep_of_mem fr.steps hs (x - 1) ((C06.contains_iff _ _).mp hc)
      ⟨n', hn'mem, by omega⟩
    rw [hm]; rfl
  have hfold := Bridge.codeFold_eq fr cw T hnext sched s0 (-1) hp (fun x hx => by have := h0 x hx; omega) hT
  rw [show (-1 : Int) + 1 = 0 from rfl, show (T - -1).toNat = T.toNat + 1 by omega] at hfold
  have hc : c = ⟨stepsExplicit fr cw s0 0 (T.toNat + 1), T⟩ := by
    have : codeRun fr cw z sched = some ⟨stepsExplicit fr cw s0 0 (T.toNat + 1), T⟩ := by
      show (Seq.run (initAtom fr) (initStep fr cw) Gen.forcing_init_seq (FSt.blank z)).bind _ = _
      rw [hrun0]
      exact hfold
    rw [hcode] at this
    exact Option.some.inj this
  obtain ⟨l', hl'⟩ := Bridge.stepsExplicit_roms fr cw (T.toNat + 1) 0 (-1) s0
  rw [hroms] at hl'
  have e : ((T.toNat : Nat) : Int) = T := Int.toNat_of_nonneg hT0
  have hinv := C06.inv_main .stepdiff .next fr st0 hs hst0 T.toNat n n' (by rw [e]; exact ⟨hb1, hb2, hb3⟩)
  rw [e] at hinv
  have hl'T : l' = T := by
    have h1 := hinv.last
    rw [← hl'] at h1
    exact h1
  subst hl'T
  have hroms' : c.st.roms l' = updateRange fr st0 0 (l'.toNat + 1) := by rw [hc]; exact hl'
  refine ⟨c, st0, hrun, hlast, hst0, hroms', ?_, hW⟩
  rw [hroms']
  exact hinv

theorem c06_updateOne_S (fr : Frames α) (st : St α) (t : Int) (h : t ∉ fr.steps) :
    (updateOne fr st t).S = st.S := by
  unfold updateOne
  rw [if_neg (mt (C06.contains_iff fr.steps t).mp h)]
  dsimp only
  split
  · split <;> rfl
  · rfl

/-- known finding F-C06a in the model: the run starts on the first frame (no frame before the start) — up to the
second frame the scalar field holds the SECOND frame -/
theorem c06_S_start_on_frame (fr : Frames α) (st0 : St α) (s1 : Int) (rest : List Int)
    (hs : C06.Sorted fr.steps) (heq : fr.steps = 0 :: s1 :: rest) (h : init .stepdiff .next fr = some st0) :
    ∀ T : Nat, (T : Int) < s1 → (updateRange fr st0 0 (T + 1)).S = fr.sc s1 := by
  have hs' := hs
  rw [heq] at hs'
  have h01 : ∀ x ∈ s1 :: rest, 0 < x := (List.pairwise_cons.mp hs').1
  have h1r : ∀ x ∈ rest, s1 < x := (List.pairwise_cons.mp (List.pairwise_cons.mp hs').2).1
  have hp : prestepOf fr.steps = none := by
    rw [c06_prestep_none_iff, heq]
    intro x hx
    rcases List.mem_cons.mp hx with rfl | hx
    · exact le_refl _
    · exact le_of_lt (h01 x hx)
  obtain ⟨s1', rest', heq', hst0⟩ := C06.init_on_frame .stepdiff .next fr st0 hp h
  have e1 : s1' = s1 := by rw [heq] at heq'; injection heq' with _ h2; injection h2 with h3 _; exact h3.symm
  subst e1
  intro T
  induction T with
  | zero =>
    intro _
    have hmem : (0 : Int) ∈ fr.steps := by rw [heq]; simp
    have hnm : (0 : Int) - 1 ∉ fr.steps := by
      rw [heq]; intro hx
      rcases List.mem_cons.mp hx with hx | hx
      · omega
      · have := h01 _ hx; omega
    show (updateOne fr st0 0).S = _
    rw [C06.updateOne_mem fr st0 0 hmem hnm, hst0]
    rfl
  | succ T ih =>
    intro hT
    rw [C06.updateRange_snoc, c06_updateOne_S, ih (by push_cast at hT; omega)]
    rw [heq]
    intro hx
    push_cast at hT
    rcases List.mem_cons.mp hx with hx | hx
    · omega
    · rcases List.mem_cons.mp hx with hx | hx
      · omega
      · have := h1r _ hx; omega

/-- the run of the interpreted `update` over a schedule, as long as every frame step met has a successor (the tail of
`Bridge.forcing_update_any_schedule`, for use without an enclosing pair) -/
theorem c06_run_of_next (fr : Frames α) (cw : α → α) (z : α) (sched : List Int)
    (hp : List.Pairwise (· < ·) sched) (h0 : ∀ x ∈ sched, 0 ≤ x) (T : Int) (hT : sched.getLast? = some T)
    (hnext : ∀ x, x ≤ T → fr.steps.contains (x - 1) = true → (nextStep fr.steps (x - 1)).isSome = true)
    (s0 : FSt α) (hr : Seq.run (initAtom fr) (initStep fr cw) Gen.forcing_init_seq (FSt.blank z) = some s0) :
    updateSeqRun fr cw z sched ⟨FSt.blank z, -1⟩ = some (some ⟨stepsExplicit fr cw s0 0 (T.toNat + 1), T⟩) := by
  have hT0 := h0 T (List.mem_of_getLast? hT)
  have hle : ∀ x ∈ sched, x ≤ T := by
    intro x hx
    rcases List.mem_iff_getElem.mp hx with ⟨i, hi, rfl⟩
    have hlast : sched[sched.length - 1]'(by omega) = T := by
      rw [List.getLast?_eq_getElem?] at hT
      rw [List.getElem?_eq_getElem (by omega)] at hT
      exact Option.some.inj hT
    by_cases hil : i = sched.length - 1
    · subst hil; omega
    · have := (List.pairwise_iff_getElem.mp hp) i (sched.length - 1) hi (by omega) (by omega)
      omega
  have hfold := Bridge.codeFold_eq fr cw T hnext sched s0 (-1) hp (fun x hx => by have := h0 x hx; omega) hT
  rw [show (-1 : Int) + 1 = 0 from rfl, show (T - -1).toNat = T.toNat + 1 by omega] at hfold
  have hd0 := Bridge.rc_init_sets_done fr cw z s0 hr
  cases sched with
  | nil => simp at hT
  | cons t ts =>
    have ht0 := h0 t (by simp)
    rw [List.foldlM_cons, Bridge.codeUpdate_eq fr cw s0 (-1) t (by omega) (fun x hx' => hnext x (by
      have := hle t (by simp); omega))] at hfold
    have hfirst : updateSeq fr cw ⟨FSt.blank z, -1⟩ t =
        some (some ⟨stepsExplicit fr cw s0 (-1 + 1) (t - -1).toNat, t⟩) := by
      rw [Bridge.forcing_update, hr]
      show (match codeUpdate fr cw ⟨s0, -1⟩ t with | none => some none | some c' => some (some c')) = _
      rw [Bridge.codeUpdate_eq fr cw s0 (-1) t (by omega) (fun x hx' => hnext x (by
        have := hle t (by simp); omega))]
    simp only [updateSeqRun, hfirst]
    exact Bridge.rc_updateSeqRun_eq fr cw z T hnext ts _ _ (by rw [Bridge.rc_stepsExplicit_initDone]; exact hd0)
      (List.pairwise_cons.mp hp).2 (fun x hx' => (List.pairwise_cons.mp hp).1 x hx')
      (fun x hx' => hle x (by simp [hx'])) hfold

/-- a frame step `T > 0` (the last frame included): both fields are the frame -/
theorem c06_run_on_frame (fr : Frames α) (cw : α → α) (z : α) (hs : C06.Sorted fr.steps)
    (hle : ∃ x ∈ fr.steps, x ≤ 0) (sched : List Int) (hp : List.Pairwise (· < ·) sched)
    (h0 : ∀ x ∈ sched, 0 ≤ x) (T : Int) (hT : sched.getLast? = some T) (hmem : T ∈ fr.steps) (hpos : 0 < T) :
    ∃ c, updateSeqRun fr cw z sched ⟨FSt.blank z, -1⟩ = some (some c) ∧ c.last = T ∧
      c.st.U = fr.vel T ∧ c.st.S = fr.sc T := by
  obtain ⟨x, hx, hx0⟩ := hle
  obtain ⟨q, hq⟩ := C06.prev_exists _ hs T hmem ⟨x, hx, by omega⟩
  obtain ⟨q1, q2, q3, q4⟩ := C06.nextStep_spec _ hs q T hq
  have hq0 : q ≤ T - 1 := by omega
  have hinit := c06_init_isSome fr hs ⟨x, hx, hx0⟩ (T - 1) q T (by omega) ⟨hq, hq0, by omega⟩
  obtain ⟨st0, hst0⟩ := Option.isSome_iff_exists.mp hinit
  have hi := Bridge.forcing_init fr cw z
  rw [hst0] at hi
  obtain ⟨s0, hrun0, hroms⟩ := Option.map_eq_some_iff.mp hi
  have hnext : ∀ y, y ≤ T → fr.steps.contains (y - 1) = true →
      (nextStep fr.steps (y - 1)).isSome = true := by
    intro y hy hc
    obtain ⟨m, hm⟩ := C06.nextStep_of_mem fr.steps hs (y - 1) ((C06.contains_iff _ _).mp hc)
      ⟨T, hmem, by omega⟩
    rw [hm]; rfl
  refine ⟨_, c06_run_of_next fr cw z sched hp h0 T hT hnext s0 hrun0, rfl, ?_⟩
  obtain ⟨l', hl'⟩ := Bridge.stepsExplicit_roms fr cw (T.toNat + 1) 0 (-1) s0
  rw [hroms] at hl'
  have e : ((T.toNat : Nat) : Int) = T := Int.toNat_of_nonneg (by omega)
  obtain ⟨hU, hS⟩ := C06.on_frame .stepdiff .next fr st0 hs hst0 T.toNat (by rw [e]; exact hmem) (by omega)
  rw [e] at hU hS
  rw [← hl'] at hU hS
  exact ⟨hU, hS⟩

/-! ### from the files to the step table -/
section files
variable [HasNarrow α]

/-- all frame times of the files, in file order (seconds) -/
def c06_times (fs : String → NcFile α) (files : List String) : List Int := files.flatMap (fun f => (fs f).times)

/-- one velocity component as the interpreted `_read_velocity(n)` returns it on the object `o` -/
def c06_readVel (fs : String → NcFile α) (Mu Mv z : α) (pick : α × α → α) (o : FObj α) (n : Int) : α :=
  match readVelocitySeq fs Mu Mv z o n with
  | some (some (uv, _)) => pick uv
  | _ => z

/-- the field `name` as the interpreted `_read_field(name, n)` returns it right after the interpreted
`open_forcing_file(n)` on the object `o` -/
def c06_readField (fs : String → NcFile α) (z : α) (name : String) (o : FObj α) (n : Int) : α :=
  match openFileSeq fs z o n with
  | some (some o') => (match readFieldSeq fs z o' name n with | some (some v) => v | _ => z)
  | _ => z

/-- step table of the constructed object + the interpreted readers -/
def c06_frames (fs : String → NcFile α) (Mu Mv z : α) (pick : α × α → α) (name : String) (o : FObj α) : Frames α :=
  ⟨o.steps, c06_readVel fs Mu Mv z pick o, c06_readField fs z name o⟩

/-- the valid configuration (see the header): files found, frame times strictly increasing and covering
`[start, stop]`, `dt > 0`, frame offsets from the start multiples of `dt` -/
structure c06_Valid (glob : String → List String) (fs : String → NcFile α) (cfg : Config) (files : List String) :
    Prop where
  files_eq : findFilesSeq glob cfg.force = some (some files)
  increasing : (c06_times fs files).Pairwise (· < ·)
  covers_start : ∃ t0, (c06_times fs files).head? = some t0 ∧ t0 ≤ cfg.start
  covers_stop : ∃ t1, (c06_times fs files).getLast? = some t1 ∧ cfg.stop ≤ t1
  dt_pos : 0 < cfg.dt
  aligned : ∀ t ∈ c06_times fs files, cfg.dt ∣ t - cfg.start

/-- the schedule of `update` calls (strictly increasing, non-negative, last step `T`) and the two consecutive frames
`k`, `k+1` (times `τ`, `τ'`) that enclose model step `T` -/
structure c06_Step (fs : String → NcFile α) (files : List String) (cfg : Config) (sched : List Int) (T : Int)
    (k : Nat) (τ τ' : Int) : Prop where
  increasing : sched.Pairwise (· < ·)
  nonneg : ∀ x ∈ sched, 0 ≤ x
  last : sched.getLast? = some T
  frame_lo : (c06_times fs files)[k]? = some τ
  frame_hi : (c06_times fs files)[k + 1]? = some τ'
  lo : τ ≤ cfg.start + T * cfg.dt
  hi : cfg.start + T * cfg.dt < τ'

variable {glob : String → List String} {fs : String → NcFile α} {cfg : Config} {files : List String}

theorem c06_obj_eq (V : c06_Valid glob fs cfg files) :
    ctorSeq glob fs cfg =
      some (some (Bridge.rc_ctorObj cfg files (Bridge.rc_stepsTable (Bridge.rc_ctorArgs fs cfg files)))) := by
  obtain ⟨hf, hinc, ⟨t0, hh, h0⟩, ⟨t1, hl, h1⟩, hdt, -⟩ := V
  rw [Bridge.forcing_find_files] at hf
  have hf' : Bridge.rc_findFilesSpec glob cfg.force = files := by injection hf with h; injection h
  subst hf'
  refine Bridge.forcing_ctor_ok glob fs cfg t0 t1 ?_ hinc hh hl h0 h1 (by omega)
  intro hnil
  rw [c06_times, hnil] at hh
  simp at hh

theorem c06_steps_at (V : c06_Valid glob fs cfg files) (k : Nat) (τ : Int)
    (hτ : (c06_times fs files)[k]? = some τ) :
    ∃ n, (Bridge.rc_tableSteps (Bridge.rc_ctorArgs fs cfg files))[k]? = some n ∧ n * cfg.dt = τ - cfg.start := by
  refine ⟨forcingStep (τ - cfg.start) cfg.dt, ?_, C06.steps_aligned _ _ (V.aligned τ (List.mem_of_getElem? hτ))⟩
  show ((c06_times fs files).map (fun t => forcingStep (t - cfg.start) cfg.dt))[k]? = _
  rw [List.getElem?_map, hτ]
  rfl

theorem c06_steps_sorted (V : c06_Valid glob fs cfg files) :
    C06.Sorted (Bridge.rc_tableSteps (Bridge.rc_ctorArgs fs cfg files)) :=
  Bridge.rc_tableSteps_sorted _ V.dt_pos V.increasing V.aligned

/-- the interpreted constructor succeeds; the object it returns -/
theorem c06_ctor (V : c06_Valid glob fs cfg files) :
    ∃ o : FObj α, ctorSeq glob fs cfg = some (some o) ∧ o.nc = none ∧ o.initDone = false ∧ o.lastUpdate = -1 ∧
      List.Pairwise (· < ·) o.steps ∧ o.steps.length = (c06_times fs files).length ∧
      ∀ (k : Nat) (τ : Int), (c06_times fs files)[k]? = some τ → ∃ n, o.steps[k]? = some n ∧ n * cfg.dt = τ - cfg.start := by
  refine ⟨_, c06_obj_eq V, rfl, rfl, rfl, c06_steps_sorted V, ?_, fun k τ h => c06_steps_at V k τ h⟩
  show ((c06_times fs files).map _).length = _
  rw [List.length_map]

omit [HasNarrow α] in
/-- interpolation weight in steps = interpolation weight in seconds -/
theorem c06_weight (dt start τ τ' n n' t : Int) (hdt : 0 < dt) (hn : n * dt = τ - start) (hn' : n' * dt = τ' - start) :
    ((t - n : Int) : α) / ((n' - n : Int) : α) = ((start + t * dt - τ : Int) : α) / ((τ' - τ : Int) : α) := by
  have e1 : start + t * dt - τ = (t - n) * dt := by rw [Int.sub_mul, hn]; ring
  have e2 : τ' - τ = (n' - n) * dt := by rw [Int.sub_mul, hn, hn']; ring
  have hd : ((dt : Int) : α) ≠ 0 := by exact_mod_cast (by omega : dt ≠ 0)
  rw [e1, e2, Int.cast_mul, Int.cast_mul, mul_div_mul_right _ _ hd]

/-- everything the C06 theorems of the model need, derived from the side conditions on files and schedule -/
theorem c06_wiring (V : c06_Valid glob fs cfg files) {sched : List Int} {T : Int} {k : Nat} {τ τ' : Int}
    (R : c06_Step fs files cfg sched T k τ τ') {o : FObj α} (ho : ctorSeq glob fs cfg = some (some o))
    {n n' : Int} (hn : o.steps[k]? = some n) (hn' : o.steps[k + 1]? = some n') :
    n * cfg.dt = τ - cfg.start ∧ n' * cfg.dt = τ' - cfg.start ∧ C06.Sorted o.steps ∧
      C06.Bracket o.steps T n n' ∧ (∃ x ∈ o.steps, x ≤ 0) ∧ 0 ≤ T ∧ (k = 0 → n ≤ 0) := by
  rw [c06_obj_eq V] at ho
  have ho' : o = Bridge.rc_ctorObj cfg files (Bridge.rc_stepsTable (Bridge.rc_ctorArgs fs cfg files)) := by
    injection ho with h; injection h with h; exact h.symm
  subst ho'
  have hs := c06_steps_sorted V
  obtain ⟨m, hm, hme⟩ := c06_steps_at V k τ R.frame_lo
  obtain ⟨m', hm', hme'⟩ := c06_steps_at V (k + 1) τ' R.frame_hi
  have e1 : m = n := by
    have : some m = some n := hm.symm.trans hn
    injection this
  have e2 : m' = n' := by
    have : some m' = some n' := hm'.symm.trans hn'
    injection this
  subst e1; subst e2
  have hdt := V.dt_pos
  have hT0 : 0 ≤ T := R.nonneg T (List.mem_of_getLast? R.last)
  obtain ⟨t0, hh, h0⟩ := V.covers_start
  have hh' : (c06_times fs files)[0]? = some t0 := by rw [← List.head?_eq_getElem?]; exact hh
  obtain ⟨m0, hm0, hm0e⟩ := c06_steps_at V 0 t0 hh'
  have hm0le : m0 ≤ 0 := by
    have : m0 * cfg.dt ≤ 0 * cfg.dt := by rw [hm0e]; omega
    exact Int.le_of_mul_le_mul_right this hdt
  refine ⟨hme, hme', hs, ⟨c06_nextStep_getElem _ k m m' hs hm hm', ?_, ?_⟩,
    ⟨m0, List.mem_of_getElem? hm0, hm0le⟩, hT0, ?_⟩
  · have : m * cfg.dt ≤ T * cfg.dt := by rw [hme]; have := R.lo; omega
    exact Int.le_of_mul_le_mul_right this hdt
  · have : T * cfg.dt < m' * cfg.dt := by rw [hme']; have := R.hi; omega
    exact Int.lt_of_mul_lt_mul_right this (le_of_lt hdt)
  · intro hk0
    subst hk0
    have : some m = some m0 := hm.symm.trans hm0
    injection this with h
    omega

variable {sched : List Int} {T : Int} {k : Nat} {τ τ' : Int} {o : FObj α} {n n' : Int}
  (Mu Mv z : α) (pick : α × α → α) (name : String) (cw : α → α)

/-- the interpreted constructor's step table exists and the run of the interpreted `update` over the schedule
succeeds -/
theorem c06_run_succeeds (V : c06_Valid glob fs cfg files) (R : c06_Step fs files cfg sched T k τ τ')
    (ho : ctorSeq glob fs cfg = some (some o)) :
    ∃ c, updateSeqRun (c06_frames fs Mu Mv z pick name o) cw z sched ⟨FSt.blank z, -1⟩ = some (some c) ∧
      c.last = T := by
  obtain ⟨o', ho', -, -, -, -, -, hst⟩ := c06_ctor V
  have : o' = o := by rw [ho] at ho'; injection ho' with h; injection h with h; exact h.symm
  subst this
  obtain ⟨n, hn, -⟩ := hst k τ R.frame_lo
  obtain ⟨n', hn', -⟩ := hst (k + 1) τ' R.frame_hi
  obtain ⟨-, -, hs, hb, hle, -, -⟩ := c06_wiring V R ho hn hn'
  obtain ⟨c, st0, hrun, hlast, -, -, -, -⟩ := c06_run_inv (c06_frames fs Mu Mv z pick name o') cw z hs hle sched
    R.increasing R.nonneg T R.last n n' hb
  exact ⟨c, hrun, hlast⟩

/-- common part of the proofs below -/
theorem c06_inv_of_run (V : c06_Valid glob fs cfg files) (R : c06_Step fs files cfg sched T k τ τ')
    (ho : ctorSeq glob fs cfg = some (some o)) (hn : o.steps[k]? = some n) (hn' : o.steps[k + 1]? = some n')
    {c : CodeSt α}
    (hc : updateSeqRun (c06_frames fs Mu Mv z pick name o) cw z sched ⟨FSt.blank z, -1⟩ = some (some c)) :
    ∃ st0, init .stepdiff .next (c06_frames fs Mu Mv z pick name o) = some st0 ∧
      c.st.roms T = updateRange (c06_frames fs Mu Mv z pick name o) st0 0 (T.toNat + 1) ∧
      C06.Inv (c06_frames fs Mu Mv z pick name o) (C06.Good0 .next o.steps) st0.S T n n' (c.st.roms T) ∧
      (Bridge.LinearW cw → c.st.W = cw c.st.U) := by
  obtain ⟨-, -, hs, hb, hle, -, -⟩ := c06_wiring V R ho hn hn'
  obtain ⟨c', st0, hrun, -, h1, h2, h3, h4⟩ := c06_run_inv (c06_frames fs Mu Mv z pick name o) cw z hs hle sched
    R.increasing R.nonneg T R.last n n' hb
  have : c' = c := by rw [hc] at hrun; injection hrun with h; injection h with h; exact h.symm
  subst this
  exact ⟨st0, h1, h2, h3, h4⟩

/-- **C06, velocity, every schedule, from the files.**  `o` = the object the interpreted `__init__` returns, `n`, `n'`
= its step-table entries of frames `k`, `k+1`, `c` = the state after the interpreted `update(t)` for every `t` of the
schedule: the served velocity component is the linear-in-TIME interpolation, at `start + T·dt`, of frames `k` and `k+1`
as the interpreted `_read_velocity` returns them; the diagnosed `W` is `compute_w` of it when `compute_w` is linear
(`c14_linear`).  Example of the hypotheses and of the conclusion: `C06Example`. -/
theorem c06_velocity_from_files (V : c06_Valid glob fs cfg files) (R : c06_Step fs files cfg sched T k τ τ')
    (ho : ctorSeq glob fs cfg = some (some o)) (hn : o.steps[k]? = some n) (hn' : o.steps[k + 1]? = some n')
    {c : CodeSt α}
    (hc : updateSeqRun (c06_frames fs Mu Mv z pick name o) cw z sched ⟨FSt.blank z, -1⟩ = some (some c)) :
    c.st.U = c06_readVel fs Mu Mv z pick o n +
        ((cfg.start + T * cfg.dt - τ : Int) : α) / ((τ' - τ : Int) : α) *
          (c06_readVel fs Mu Mv z pick o n' - c06_readVel fs Mu Mv z pick o n) ∧
      (Bridge.LinearW cw → c.st.W = cw c.st.U) := by
  obtain ⟨e1, e2, -, -, -, -, -⟩ := c06_wiring V R ho hn hn'
  obtain ⟨st0, -, -, hinv, hW⟩ := c06_inv_of_run Mu Mv z pick name cw V R ho hn hn' hc
  refine ⟨?_, hW⟩
  have hU := hinv.U
  rw [← c06_weight cfg.dt cfg.start τ τ' n n' T V.dt_pos e1 e2]
  exact hU

/-- on a frame step the velocity is the frame -/
theorem c06_velocity_on_frame (V : c06_Valid glob fs cfg files) (R : c06_Step fs files cfg sched T k τ τ')
    (ho : ctorSeq glob fs cfg = some (some o)) (hn : o.steps[k]? = some n) (hn' : o.steps[k + 1]? = some n')
    {c : CodeSt α}
    (hc : updateSeqRun (c06_frames fs Mu Mv z pick name o) cw z sched ⟨FSt.blank z, -1⟩ = some (some c))
    (hon : cfg.start + T * cfg.dt = τ) : c.st.U = c06_readVel fs Mu Mv z pick o n := by
  rw [(c06_velocity_from_files Mu Mv z pick name cw V R ho hn hn' hc).1, hon]
  simp

/-- **C06, scalar, held**: the enclosing earlier frame is at or after the start and is not the very first frame -/
theorem c06_scalar_held (V : c06_Valid glob fs cfg files) (R : c06_Step fs files cfg sched T k τ τ')
    (ho : ctorSeq glob fs cfg = some (some o)) (hn : o.steps[k]? = some n) (hn' : o.steps[k + 1]? = some n')
    {c : CodeSt α}
    (hc : updateSeqRun (c06_frames fs Mu Mv z pick name o) cw z sched ⟨FSt.blank z, -1⟩ = some (some c))
    (hk : 1 ≤ k) (hτ : cfg.start ≤ τ) : c.st.S = c06_readField fs z name o n := by
  obtain ⟨e1, e2, hs, -, -, -, -⟩ := c06_wiring V R ho hn hn'
  obtain ⟨st0, -, -, hinv, -⟩ := c06_inv_of_run Mu Mv z pick name cw V R ho hn hn' hc
  have hn0 : 0 ≤ n := by
    have : 0 * cfg.dt ≤ n * cfg.dt := by rw [e1]; omega
    exact Int.le_of_mul_le_mul_right this V.dt_pos
  refine hinv.S_pos hn0 ?_
  by_cases h : 0 < n
  · exact Or.inl h
  · refine Or.inr (Or.inr ?_)
    intro hnone
    obtain ⟨k', rfl⟩ : ∃ k', k = k' + 1 := ⟨k - 1, by omega⟩
    have hlt : k' < o.steps.length := by
      have := (List.getElem?_eq_some_iff.mp hn).1; omega
    have hm : o.steps[k']? = some o.steps[k'] := List.getElem?_eq_getElem hlt
    have := (C06.nextStep_spec _ hs _ _ (c06_nextStep_getElem _ k' _ n hs hm hn)).2.2.1
    have := (c06_prestep_none_iff _).mp hnone _ (List.mem_of_getElem? hm)
    omega

/-- **C06, scalar, on a frame** (every frame step except step 0 of a run that starts on the very first frame) -/
theorem c06_scalar_on_frame (V : c06_Valid glob fs cfg files) (R : c06_Step fs files cfg sched T k τ τ')
    (ho : ctorSeq glob fs cfg = some (some o)) (hn : o.steps[k]? = some n) (hn' : o.steps[k + 1]? = some n')
    {c : CodeSt α}
    (hc : updateSeqRun (c06_frames fs Mu Mv z pick name o) cw z sched ⟨FSt.blank z, -1⟩ = some (some c))
    (hon : cfg.start + T * cfg.dt = τ) (hk : 1 ≤ k) : c.st.S = c06_readField fs z name o n := by
  have hT0 : 0 ≤ T := R.nonneg T (List.mem_of_getLast? R.last)
  have : 0 ≤ T * cfg.dt := Int.mul_nonneg hT0 (le_of_lt V.dt_pos)
  exact c06_scalar_held Mu Mv z pick name cw V R ho hn hn' hc hk (by omega)

/-- **C06, scalar, the enclosing earlier frame lies before the start**: up to the first frame of the run the field
holds the linear-in-time interpolation at one step before the start (`start − dt`); it lies between the two frames -/
theorem c06_scalar_before_start (V : c06_Valid glob fs cfg files) (R : c06_Step fs files cfg sched T k τ τ')
    (ho : ctorSeq glob fs cfg = some (some o)) (hn : o.steps[k]? = some n) (hn' : o.steps[k + 1]? = some n')
    {c : CodeSt α}
    (hc : updateSeqRun (c06_frames fs Mu Mv z pick name o) cw z sched ⟨FSt.blank z, -1⟩ = some (some c))
    (hτ : τ < cfg.start) :
    c.st.S = c06_readField fs z name o n +
        ((cfg.start - cfg.dt - τ : Int) : α) / ((τ' - τ : Int) : α) *
          (c06_readField fs z name o n' - c06_readField fs z name o n) ∧
      min (c06_readField fs z name o n) (c06_readField fs z name o n') ≤ c.st.S ∧
      c.st.S ≤ max (c06_readField fs z name o n) (c06_readField fs z name o n') := by
  obtain ⟨e1, e2, hs, hb, -, hT0, -⟩ := c06_wiring V R ho hn hn'
  obtain ⟨st0, hst0, hroms, hinv, -⟩ := c06_inv_of_run Mu Mv z pick name cw V R ho hn hn' hc
  have hn0 : n < 0 := by
    have : n * cfg.dt < 0 * cfg.dt := by rw [e1]; omega
    exact Int.lt_of_mul_lt_mul_right this (le_of_lt V.dt_pos)
  obtain ⟨q1, q2, q3, q4⟩ := C06.nextStep_spec _ hs n n' hb.1
  have hpne : prestepOf o.steps ≠ none := by
    intro hnone
    have := (c06_prestep_none_iff _).mp hnone n q1
    omega
  obtain ⟨p, hp⟩ := Option.ne_none_iff_exists'.mp hpne
  obtain ⟨p1, p2, p3⟩ := C06.prestepOf_spec _ _ hp
  have hpn : p = n := by
    have := p3 n q1 hn0
    have := q4 p p1
    have := hb.2.2
    omega
  subst hpn
  have e : ((T.toNat : Nat) : Int) = T := Int.toNat_of_nonneg hT0
  have hS : c.st.S = (updateRange (c06_frames fs Mu Mv z pick name o) st0 0 (T.toNat + 1)).S := by
    rw [← hroms]; rfl
  have hb' : C06.Bracket (c06_frames fs Mu Mv z pick name o).steps ((T.toNat : Nat) : Int) p n' := by
    rw [e]; exact hb
  refine ⟨?_, ?_⟩
  · rw [hS, C06.scalar_before_first_frame .next _ st0 p hs hp hst0 T.toNat n' hb']
    unfold C06.lerpS
    rw [c06_weight cfg.dt cfg.start τ τ' p n' (-1) V.dt_pos e1 e2]
    rw [show cfg.start + -1 * cfg.dt - τ = cfg.start - cfg.dt - τ by ring]
    rfl
  · rw [hS]
    exact C06.scalar_between .next _ st0 p hs hp hst0 T.toNat n' hb'

/-- **known finding F-C06a on the interpreted code**: the very first frame lies exactly on the start (`k = 0`,
`τ = start`): from step 0 up to the second frame the scalar holds the SECOND frame (at `T = 0`, a frame step, it should
be the first) -/
theorem c06_scalar_known_finding_F_C06a (V : c06_Valid glob fs cfg files) (R : c06_Step fs files cfg sched T k τ τ')
    (ho : ctorSeq glob fs cfg = some (some o)) (hn : o.steps[k]? = some n) (hn' : o.steps[k + 1]? = some n')
    {c : CodeSt α}
    (hc : updateSeqRun (c06_frames fs Mu Mv z pick name o) cw z sched ⟨FSt.blank z, -1⟩ = some (some c))
    (hk : k = 0) (hτ : τ = cfg.start) : c.st.S = c06_readField fs z name o n' := by
  obtain ⟨e1, e2, hs, hb, -, hT0, -⟩ := c06_wiring V R ho hn hn'
  obtain ⟨st0, hst0, hroms, -, -⟩ := c06_inv_of_run Mu Mv z pick name cw V R ho hn hn' hc
  subst hk
  have hn0 : n = 0 := by
    have : n * cfg.dt = 0 := by rw [e1]; omega
    rcases Int.mul_eq_zero.mp this with h | h
    · exact h
    · have := V.dt_pos; omega
  subst hn0
  obtain ⟨rest, heq⟩ : ∃ rest, o.steps = 0 :: n' :: rest := by
    rcases hst : o.steps with _ | ⟨a, _ | ⟨b, rest⟩⟩
    · rw [hst] at hn; simp at hn
    · rw [hst] at hn'; simp at hn'
    · rw [hst] at hn hn'
      simp at hn hn'
      exact ⟨rest, by rw [hn, hn']⟩
  have e : ((T.toNat : Nat) : Int) = T := Int.toNat_of_nonneg hT0
  have hS : c.st.S = (updateRange (c06_frames fs Mu Mv z pick name o) st0 0 (T.toNat + 1)).S := by
    rw [← hroms]; rfl
  rw [hS]
  exact c06_S_start_on_frame (c06_frames fs Mu Mv z pick name o) st0 n' rest hs heq hst0 T.toNat
    (by rw [e]; exact hb.2.2)

/-- **C06, scalar, between the enclosing frames — every case** -/
theorem c06_scalar_between (V : c06_Valid glob fs cfg files) (R : c06_Step fs files cfg sched T k τ τ')
    (ho : ctorSeq glob fs cfg = some (some o)) (hn : o.steps[k]? = some n) (hn' : o.steps[k + 1]? = some n')
    {c : CodeSt α}
    (hc : updateSeqRun (c06_frames fs Mu Mv z pick name o) cw z sched ⟨FSt.blank z, -1⟩ = some (some c)) :
    min (c06_readField fs z name o n) (c06_readField fs z name o n') ≤ c.st.S ∧
      c.st.S ≤ max (c06_readField fs z name o n) (c06_readField fs z name o n') := by
  by_cases hτ : τ < cfg.start
  · exact (c06_scalar_before_start Mu Mv z pick name cw V R ho hn hn' hc hτ).2
  · by_cases hk : 1 ≤ k
    · rw [c06_scalar_held Mu Mv z pick name cw V R ho hn hn' hc hk (by omega)]
      exact ⟨min_le_left _ _, le_max_left _ _⟩
    · have hk0 : k = 0 := by omega
      obtain ⟨e1, -, -, -, -, -, h0⟩ := c06_wiring V R ho hn hn'
      have hn0 : n * cfg.dt ≤ 0 := Int.mul_nonpos_of_nonpos_of_nonneg (h0 hk0) (le_of_lt V.dt_pos)
      rw [c06_scalar_known_finding_F_C06a Mu Mv z pick name cw V R ho hn hn' hc hk0 (by omega)]
      exact ⟨min_le_right _ _, le_max_right _ _⟩

/-- **C06, frame steps after the start, the last frame included** (no later frame is needed) -/
theorem c06_on_frame_from_files (V : c06_Valid glob fs cfg files) (hp : sched.Pairwise (· < ·))
    (h0 : ∀ x ∈ sched, 0 ≤ x) (hT : sched.getLast? = some T) (hτ : (c06_times fs files)[k]? = some τ)
    (hon : cfg.start + T * cfg.dt = τ) (hpos : 0 < T)
    (ho : ctorSeq glob fs cfg = some (some o)) (hn : o.steps[k]? = some n) {c : CodeSt α}
    (hc : updateSeqRun (c06_frames fs Mu Mv z pick name o) cw z sched ⟨FSt.blank z, -1⟩ = some (some c)) :
    c.last = T ∧ c.st.U = c06_readVel fs Mu Mv z pick o n ∧ c.st.S = c06_readField fs z name o n := by
  obtain ⟨o', ho', -, -, -, hs, -, hst⟩ := c06_ctor V
  have : o' = o := by rw [ho] at ho'; injection ho' with h; injection h with h; exact h.symm
  subst this
  obtain ⟨m, hm, hme⟩ := hst k τ hτ
  have e1 : m = n := by
    have : some m = some n := hm.symm.trans hn
    injection this
  subst e1
  have hmT : m = T := by
    have : m * cfg.dt = T * cfg.dt := by rw [hme]; omega
    exact Int.eq_of_mul_eq_mul_right (by have := V.dt_pos; omega) this
  subst hmT
  obtain ⟨t0, hh, h00⟩ := V.covers_start
  have hh' : (c06_times fs files)[0]? = some t0 := by rw [← List.head?_eq_getElem?]; exact hh
  obtain ⟨m0, hm0, hm0e⟩ := hst 0 t0 hh'
  have hm0le : m0 ≤ 0 := by
    have : m0 * cfg.dt ≤ 0 * cfg.dt := by rw [hm0e]; omega
    exact Int.le_of_mul_le_mul_right this V.dt_pos
  obtain ⟨c', hrun, h1, h2, h3⟩ := c06_run_on_frame (c06_frames fs Mu Mv z pick name o') cw z hs
    ⟨m0, List.mem_of_getElem? hm0, hm0le⟩ sched hp h0 m hT (List.mem_of_getElem? hm) hpos
  have : c' = c := by rw [hc] at hrun; injection hrun with h; injection h with h; exact h.symm
  subst this
  exact ⟨h1, h2, h3⟩

/-! ### what the interpreted readers return: the frames of the files -/

omit [Field α] [LinearOrder α] [IsStrictOrderedRing α] [HasNarrow α] in
/-- frame number `k` (all files, in order) is frame `i` of file `f`: same time stamp -/
theorem c06_label_time (fs : String → NcFile α) : ∀ (files : List String) (k : Nat) (f : String) (i : Nat),
    (Bridge.rc_frameLabels files (fun f => (fs f).times.length))[k]? = some (f, i) →
    f ∈ files ∧ i < (fs f).times.length ∧ (fs f).times[i]? = (c06_times fs files)[k]?
  | [], k, f, i, h => by simp [Bridge.rc_frameLabels] at h
  | g :: rest, k, f, i, h => by
    have hl : Bridge.rc_frameLabels (g :: rest) (fun f => (fs f).times.length) =
        (List.range (fs g).times.length).map (fun i => (g, i)) ++
          Bridge.rc_frameLabels rest (fun f => (fs f).times.length) := by
      simp [Bridge.rc_frameLabels, List.flatMap_cons]
    have ht : c06_times fs (g :: rest) = (fs g).times ++ c06_times fs rest := by
      simp [c06_times, List.flatMap_cons]
    rw [hl] at h
    rw [ht]
    by_cases hk : k < (fs g).times.length
    · rw [List.getElem?_append_left (by simpa using hk)] at h
      rw [List.getElem?_map, List.getElem?_range hk] at h
      simp only [Option.map_some, Option.some.injEq, Prod.mk.injEq] at h
      obtain ⟨rfl, rfl⟩ := h
      exact ⟨by simp, hk, by rw [List.getElem?_append_left hk]⟩
    · rw [List.getElem?_append_right (by simpa using hk)] at h
      simp only [List.length_map, List.length_range] at h
      obtain ⟨h1, h2, h3⟩ := c06_label_time fs rest _ f i h
      refine ⟨List.mem_cons_of_mem _ h1, h2, ?_⟩
      rw [List.getElem?_append_right (by omega), h3]

/-- **the interpreted readers on the constructed object return the frames of the files** -/
theorem c06_readers_serve_file_frames (V : c06_Valid glob fs cfg files) (ho : ctorSeq glob fs cfg = some (some o))
    (k : Nat) (n : Int) (hn : o.steps[k]? = some n) (f : String) (i : Nat)
    (hlab : (Bridge.rc_frameLabels files (fun f => (fs f).times.length))[k]? = some (f, i)) :
    readVelocitySeq fs Mu Mv z o n =
        some ((Bridge.rc_frameVel fs Mu Mv f i).map (fun uv => (uv, Bridge.rc_openFileObj fs o f))) ∧
      openFileSeq fs z o n = some (some (Bridge.rc_openFileObj fs o f)) ∧
      (name ∈ "u" :: "v" :: cfg.ibm →
        readFieldSeq fs z (Bridge.rc_openFileObj fs o f) name n = some (some (Bridge.rc_frameField fs f name i))) := by
  rw [c06_obj_eq V] at ho
  have ho' : o = Bridge.rc_ctorObj cfg files (Bridge.rc_stepsTable (Bridge.rc_ctorArgs fs cfg files)) := by
    injection ho with h; injection h with h; exact h.symm
  subst ho'
  have hs := c06_steps_sorted V
  obtain ⟨hk', hnk⟩ := List.getElem?_eq_some_iff.mp hn
  obtain ⟨hk, hlk⟩ := List.getElem?_eq_some_iff.mp hlab
  obtain ⟨l1, l2⟩ := Bridge.rc_stepsTable_lookup_sorted (Bridge.rc_ctorArgs fs cfg files) hs k hk hk'
  have a1 : (Bridge.rc_tableSteps (Bridge.rc_ctorArgs fs cfg files))[k] = n := hnk
  have a2 : (Bridge.rc_frameLabels (Bridge.rc_ctorArgs fs cfg files).files
      (Bridge.rc_ctorArgs fs cfg files).numFrames)[k] = (f, i) := hlk
  rw [a1, a2] at l1 l2
  refine ⟨?_, ?_, ?_⟩
  · exact Bridge.forcing_read_velocity_opens fs Mu Mv z _ n f i l1 l2 (Or.inl rfl)
  · rw [Bridge.forcing_open_file]
    show some (Option.map _ ((Bridge.rc_stepsTable (Bridge.rc_ctorArgs fs cfg files)).2.1.lookup n)) = _
    rw [l1]; rfl
  · intro hname
    exact Bridge.forcing_read_field_open fs z _ f name n i l2 hname

/-- … so the frame values that enter the theorems above are the file contents -/
theorem c06_frames_are_file_frames (V : c06_Valid glob fs cfg files) (ho : ctorSeq glob fs cfg = some (some o))
    (k : Nat) (n : Int) (hn : o.steps[k]? = some n) (f : String) (i : Nat)
    (hlab : (Bridge.rc_frameLabels files (fun f => (fs f).times.length))[k]? = some (f, i)) :
    f ∈ files ∧ (fs f).times[i]? = (c06_times fs files)[k]? ∧
      c06_readVel fs Mu Mv z pick o n = ((Bridge.rc_frameVel fs Mu Mv f i).map pick).getD z ∧
      (name ∈ "u" :: "v" :: cfg.ibm → c06_readField fs z name o n = Bridge.rc_frameField fs f name i) := by
  obtain ⟨h1, h2, h3⟩ := c06_readers_serve_file_frames Mu Mv z name V ho k n hn f i hlab
  obtain ⟨t1, -, t3⟩ := c06_label_time fs files k f i hlab
  refine ⟨t1, t3, ?_, ?_⟩
  · unfold c06_readVel
    rw [h1]
    cases Bridge.rc_frameVel fs Mu Mv f i <;> rfl
  · intro hname
    unfold c06_readField
    rw [h2]
    simp only [h3 hname]

omit [Field α] [LinearOrder α] [IsStrictOrderedRing α] [HasNarrow α] in
theorem c06_enclosing_exists : ∀ (l : List Int) (t0 t1 x : Int), l.head? = some t0 → l.getLast? = some t1 →
    t0 ≤ x → x < t1 → ∃ (k : Nat) (τ τ' : Int), l[k]? = some τ ∧ l[k + 1]? = some τ' ∧ τ ≤ x ∧ x < τ'
  | [], t0, t1, x, hh, _, _, _ => by simp at hh
  | [a], t0, t1, x, hh, hl, h0, h1 => by
    simp at hh hl; omega
  | a :: b :: rest, t0, t1, x, hh, hl, h0, h1 => by
    simp only [List.head?_cons, Option.some.injEq] at hh
    subst hh
    by_cases hx : x < b
    · exact ⟨0, a, b, rfl, rfl, h0, hx⟩
    · rw [List.getLast?_cons_cons] at hl
      obtain ⟨k, τ, τ', h1', h2', h3', h4'⟩ := c06_enclosing_exists (b :: rest) b t1 x rfl hl (by omega) h1
      exact ⟨k + 1, τ, τ', by simpa using h1', by simpa using h2', h3', h4'⟩

/-- every step of the run that lies strictly before the last frame is enclosed by two consecutive frames: the
hypothesis `c06_Step` of the theorems above can always be met -/
theorem c06_step_enclosed (V : c06_Valid glob fs cfg files) (hp : sched.Pairwise (· < ·)) (h0 : ∀ x ∈ sched, 0 ≤ x)
    (hT : sched.getLast? = some T) (t1 : Int) (hl : (c06_times fs files).getLast? = some t1)
    (hlt : cfg.start + T * cfg.dt < t1) : ∃ (k : Nat) (τ τ' : Int), c06_Step fs files cfg sched T k τ τ' := by
  obtain ⟨t0, hh, h00⟩ := V.covers_start
  have hT0 : 0 ≤ T := h0 T (List.mem_of_getLast? hT)
  have : 0 ≤ T * cfg.dt := Int.mul_nonneg hT0 (le_of_lt V.dt_pos)
  obtain ⟨k, τ, τ', a1, a2, a3, a4⟩ := c06_enclosing_exists _ t0 t1 (cfg.start + T * cfg.dt) hh hl (by omega) hlt
  exact ⟨k, τ, τ', hp, h0, hT, a1, a2, a3, a4⟩

end files
end c06

/-! ## the hypotheses can be met -/
namespace C06Example
open Ladim.Seq.RomsCtor

local instance e2eC06C14_HasNarrowRat : HasNarrow ℚ := ⟨id⟩

/-- two files: `a.nc` with frames at 0 s and 600 s, `b.nc` with one frame at 1200 s -/
def fs : String → NcFile ℚ := fun f =>
  if f = "a.nc" then ⟨[0, 600], fun _ k => 10 + k, fun _ => none⟩ else ⟨[1200], fun _ k => 30 + k, fun _ => none⟩

/-- the run starts at 300 s (between the first two frames), `dt` = 300 s, stops at 1200 s -/
def cfg : Config := ⟨["temp"], ⟨.list ["a.nc", "b.nc"], none, none⟩, 300, 1200, 300⟩

/-- a frame step on the last frame: step 3 = 1200 s -/
example : cfg.start + 3 * cfg.dt = 1200 ∧ (c06_times fs ["a.nc", "b.nc"])[2]? = some 1200 := ⟨by decide, rfl⟩

/-- the configuration is valid -/
theorem c06_ex_valid : c06_Valid (fun _ => []) fs cfg ["a.nc", "b.nc"] :=
  ⟨by rw [Bridge.forcing_find_files]; rfl, by decide, ⟨0, rfl, by decide⟩, ⟨1200, rfl, by decide⟩, by decide,
    by decide⟩

/-- the schedule `0, 2` (step 1 is skipped); step 2 (900 s) lies between frames 1 (600 s) and 2 (1200 s, next file) -/
theorem c06_ex_step : c06_Step fs ["a.nc", "b.nc"] cfg [0, 2] 2 1 600 1200 :=
  ⟨by decide, by decide, rfl, rfl, rfl, by decide, by decide⟩

/-- the theorems compose on the instance: constructor, run `update(0)`, `update(2)`, and the served `u` at step 2
(900 s) is half-way between frame 1 (`u = 11`, file `a.nc`) and frame 2 (`u = 30`, file `b.nc`): 20.5 -/
example : ∃ (o : FObj ℚ) (c : CodeSt ℚ), ctorSeq (fun _ => []) fs cfg = some (some o) ∧
    updateSeqRun (c06_frames fs 1 1 0 Prod.fst "temp" o) id 0 [0, 2] ⟨FSt.blank 0, -1⟩ = some (some c) ∧
    c.st.U = 41 / 2 := by
  obtain ⟨o, ho, -, -, -, -, -, hst⟩ := c06_ctor c06_ex_valid
  obtain ⟨n, hn, -⟩ := hst 1 600 rfl
  obtain ⟨n', hn', -⟩ := hst 2 1200 rfl
  obtain ⟨c, hc, -⟩ := c06_run_succeeds 1 1 0 Prod.fst "temp" id c06_ex_valid c06_ex_step ho
  refine ⟨o, c, ho, hc, ?_⟩
  obtain ⟨hU, -⟩ := c06_velocity_from_files 1 1 0 Prod.fst "temp" id c06_ex_valid c06_ex_step ho hn hn' hc
  obtain ⟨-, -, h1, -⟩ := c06_frames_are_file_frames 1 1 0 Prod.fst "temp" c06_ex_valid ho 1 n hn "a.nc" 1 rfl
  obtain ⟨-, -, h2, -⟩ := c06_frames_are_file_frames 1 1 0 Prod.fst "temp" c06_ex_valid ho 2 n' hn' "b.nc" 0 rfl
  rw [hU, h1, h2]
  simp [Bridge.rc_frameVel, fs, cfg]
  norm_num

end C06Example

namespace C14Example

/-- 4 × 4 × 3 grid, unit metric, flat bottom at −3 with unit layers; eastward flow that diverges in the bottom layer
and converges in the top layer -/
def x : CwArgs ℚ :=
  { T := 1, K := 3, J := 4, I := 4, pn := fun _ _ => 1, pm := fun _ _ => 1,
    u := fun _ k _ i => if k = 0 then (i : ℚ) else if k = 2 then -(i : ℚ) else 0, v := fun _ _ _ _ => 0,
    zw := fun _ k _ _ => (k : ℚ) - 3, zr := fun _ k _ _ => (k : ℚ) - 5 / 2 }

example : 3 ≤ x.K ∧ (∀ k j i j' i', x.zr 0 k j i = x.zr 0 k j' i') ∧
    (1 ≤ (1 : Int) ∧ (1 : Int) + 2 ≤ (x.J : Int) ∧ 1 ≤ (1 : Int) ∧ (1 : Int) + 2 ≤ (x.I : Int)) ∧
    x.zw 0 x.K 1 1 ≠ x.zw 0 0 1 1 ∧ 0 < x.pm 1 1 ∧ 0 < x.pn 1 1 ∧
    c14_colDiv x 0 x.K 1 1 = 0 ∧ 0 < c14_colDiv x 0 1 1 1 := by
  refine ⟨by decide, fun _ _ _ _ _ => rfl, by decide, ?_, ?_, ?_, ?_, ?_⟩
  · simp [x]
  · simp [x]
  · simp [x]
  · simp [c14_colDiv, c14_div, c14_transU, c14_transV, c14_Hz, x, List.range_succ]
  · simp [c14_colDiv, c14_div, c14_transU, c14_transV, c14_Hz, x, List.range_succ]

/-- a laterally uniform flow over the same grid is non-divergent -/
example : ∀ l, l < x.K → c14_div { x with u := fun _ _ _ _ => 1, v := fun _ _ _ _ => 2 } 0 l 1 1 = 0 := by
  intro l _
  simp [c14_div, c14_transU, c14_transV, c14_Hz, x]

end C14Example
end OnCode
