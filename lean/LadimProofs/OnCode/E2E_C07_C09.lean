import LadimProofs.C07
import LadimProofs.C09
import LadimProofs.Bridge.Seq
import LadimProofs.Bridge.BioSeq
import LadimProofs.Bridge.SedimentSeq
import LadimProofs.Bridge.ChemSeq
import LadimProofs.Bridge.DevelopSeq
import LadimProofs.Bridge.BioCtorSeq

/-!
# C07, C09 — end to end: the clauses of the properties, stated about the interpretation of the current source

Property C07 — Ageing, mortality and death are monotone, exact and step-size independent
STATEMENT: Each update advances a particle's age by exactly one time step in the unit the module documents (seconds, days, or degree-days = temperature x days); a particle once marked dead is never alive again, and particles are marked dead exactly when they pass the configured lifespan or biological age limit (or, for vps, reach the ocean). Salmon-lice abundance decays by exp(-0.17 per day) so that survival after a given time is the same however that time is divided into steps.
QUANTIFIER: all particle ages and temperatures, all time-step lengths, all lifespans, all update sequences and all ways of partitioning a time span into steps

Property C09 — Development never runs backwards and switches behaviour at its thresholds
STATEMENT: Sand-eel and shrimp stage values and fish-larva age are non-decreasing from step to step and advance by the published temperature-dependent rate times the time step. Sand-eel eggs start drifting exactly when their stage reaches 1 and stop exactly when it reaches 2; shrimp stay within stages 1-6, drift only below stage 6 and have the tabulated length for their stage; cod and saithe eggs change from buoyancy-driven to swimming behaviour, and start growing from the initial larval weight, when their degree-day age passes the hatch threshold.
QUANTIFIER: all stages, hatch rates in [0,1], temperatures in and outside the tabulated range (non-negative for the degree-day clocks), time steps from seconds to days, and all update sequences up to completion of development

Every theorem below speaks about `run… Gen.…_seq …`: the interpretation (`LadimModel/**/*Seq.lean`) of the statement
sequences that are generated from /repo's source on every run.  The bridges (`LadimProofs/Bridge/*.lean`) and the model
theorems (`LadimProofs/C07.lean`, `C09.lean`) are used as lemmas only.  An interpreted run has three outcomes: `none`
(a statement text the interpreter does not know — the tie with the source is broken), `some none` (the code raises),
`some (some s)` (the code finishes in state `s`); every theorem asserts the third outcome.  (The older runner `Seq.run`
of the whole `update_ibm` of chemicals / sedimentation / mine knows only `none` and `some s`.)  In the "history"
theorems the updates are chained with `List.foldlM` in `Option`: a step that does not finish makes the whole history
`none`, so "`= some q`" says that every update of the history finishes.

C07
* age advances by exactly one step — seconds: `c07_chem_kill_old`, `c07_sed_kill_old`, `c07_mine_kill_old` (method
  bodies), `c07_chem_update`, `c07_sed_update`, `c07_mine_update`, `c07_vps_update` (whole `update_ibm`),
  `c07_sed_history` (`age₀ + n · dt`); days: `c09_shrimp_growth`, `c09_shrimp_update`, `days` of `c07_lice_update`;
  degree-days: `c07_lice_update`, `c07_egg_update`, `c09_larvae_update`, `c09_saithe_update`;
* dead exactly when past the lifespan / age limit (/ ocean reached): the same theorems (chemicals with horizontal
  diffusion and mine without resuspension have a second cause of death: there only "alive ⇒ was alive and within the
  lifespan", which is all the property can claim);
* once dead, never alive again, over any history: `c07_dead_forever_history` (principle), `c07_sed_history`,
  `c07_mine_dead_forever`, `c07_chem_dead_forever`, `c07_lice_history`, `c07_vps_dead_forever`;
* `exp(-0.17 per day)`, step-size independence: `c07_lice_mortality_factor` (constructor), `c07_lice_update`
  (`super *= mortality_factor`), `c07_lice_history` (`super · exp(-0.17 · Σ dt / 86400)` for every partition).
C09
* sand eel: `c09_sandeel_egg_development`, `c09_sandeel_larval_development` (method bodies: rate, thresholds),
  `c09_sandeel_update` (whole `update_ibm`: monotone, active ⇔ 1 ≤ stage < 2), `c09_sandeel_history`;
* shrimp: `c09_shrimp_growth` (method body), `c09_shrimp_update`, `c09_shrimp_update_tables` (whole `update_ibm`),
  `c09_shrimp_history`; `c09_monotone_history` (principle);
* cod / saithe: `c09_larvae_update`, `c09_saithe_update` (age, hatch threshold: weight and vertical behaviour),
  `c09_larvae_weight_floor`.
-/

open Ladim Ladim.Seq Ladim.BioSeq Ladim.DevSeq Ladim.BioCtorSeq

set_option linter.unusedSectionVars false
set_option linter.unusedVariables false
set_option linter.unusedSimpArgs false
set_option linter.unnecessarySeqFocus false

namespace OnCode

/-! ## scalar types for the examples

The examples instantiate the theorems at `ℚ` (and at `ℝ` where the laws of `exp` / `log` / `x ** y` are assumed:
`RealInst`).  The non-field operations that `ℚ` / `ℝ` lack here are given place-holder instances, local to this file: in
the theorems they are arbitrary functions, and no hypothesis of an example depends on them (`trunc`, `floor` are the
floor function). -/

local instance e2eC07C09_HasSqrtRat : HasSqrt ℚ := ⟨fun x => x⟩
local instance e2eC07C09_HasExpRat : HasExp ℚ := ⟨fun x => x⟩
local instance e2eC07C09_HasLogRat : HasLog ℚ := ⟨fun x => x⟩
local instance e2eC07C09_HasSinRat : HasSin ℚ := ⟨fun x => x⟩
local instance e2eC07C09_HasCosRat : HasCos ℚ := ⟨fun x => x⟩
local instance e2eC07C09_HasAsinRat : HasAsin ℚ := ⟨fun x => x⟩
local instance e2eC07C09_HasRpowRat : HasRpow ℚ := ⟨fun x _ => x⟩
local instance e2eC07C09_HasPiRat : HasPi ℚ := ⟨3⟩
local instance e2eC07C09_HasNarrowRat : HasNarrow ℚ := ⟨fun x => x⟩
local instance e2eC07C09_HasFloorRat : HasFloor ℚ := ⟨fun x => (⌊x⌋ : ℤ)⟩
local instance e2eC07C09_HasRoundRat : HasRound ℚ := ⟨fun x => (round x : ℤ)⟩
local instance e2eC07C09_HasTruncRat : HasTrunc ℚ := ⟨fun x => ⌊x⌋⟩
noncomputable local instance e2eC07C09_HasAsinReal : HasAsin ℝ := ⟨fun x => x⟩
noncomputable local instance e2eC07C09_HasPiReal : HasPi ℝ := ⟨3⟩
noncomputable local instance e2eC07C09_HasNarrowReal : HasNarrow ℝ := ⟨fun x => x⟩
noncomputable local instance e2eC07C09_HasFloorReal : HasFloor ℝ := ⟨fun x => (⌊x⌋ : ℤ)⟩
noncomputable local instance e2eC07C09_HasRoundReal : HasRound ℝ := ⟨fun x => (round x : ℤ)⟩
noncomputable local instance e2eC07C09_HasTruncReal : HasTrunc ℝ := ⟨fun x => ⌊x⌋⟩

/-! ## tools -/

/-- read a bridge equation `r.map (Option.map f) = some (some v)` as "the run finishes in a state `s` with `f s = v`" -/
private theorem of_map_map {β γ : Type} {f : β → γ} {r : Option (Option β)} {v : γ}
    (h : r.map (Option.map f) = some (some v)) : ∃ s, r = some (some s) ∧ f s = v := by
  rcases r with _ | (_ | s)
  · simp at h
  · simp at h
  · exact ⟨s, rfl, by simpa using h⟩

/-- **a dead particle stays dead over any history**, for a partial update (`none` = the code raises / the text is not
understood): if every single update of the history finishes and cannot revive, the whole history finishes and the
particle is still dead -/
theorem c07_dead_forever_history {σ ι : Type} (alive : σ → Bool) (step : σ → ι → Option σ) (is : List ι)
    (h : ∀ s, ∀ i ∈ is, ∃ s', step s i = some s' ∧ (alive s' = true → alive s = true)) (s₀ : σ)
    (hd : alive s₀ = false) : ∃ s, is.foldlM step s₀ = some s ∧ alive s = false := by
  induction is generalizing s₀ with
  | nil => exact ⟨s₀, rfl, hd⟩
  | cons i is ih =>
    obtain ⟨s', hs, hm⟩ := h s₀ i (by simp)
    have hd' : alive s' = false := by
      cases h' : alive s' with
      | false => rfl
      | true => rw [hm h'] at hd; cases hd
    obtain ⟨s, h1, h2⟩ := ih (fun s j hj => h s j (by simp [hj])) s' hd'
    exact ⟨s, by simp [List.foldlM, hs, h1], h2⟩

/-- **development never runs backwards over any history**, for a partial update: if every single update of the
history, started in a state satisfying the invariant `inv`, finishes in such a state with a measure `m` (stage, age)
that is not smaller, the whole history finishes and the measure at the end is not smaller than at the start -/
theorem c09_monotone_history {σ ι β : Type} [Preorder β] (m : σ → β) (inv : σ → Prop) (step : σ → ι → Option σ)
    (is : List ι) (h : ∀ s, inv s → ∀ i ∈ is, ∃ s', step s i = some s' ∧ inv s' ∧ m s ≤ m s') (s₀ : σ)
    (h0 : inv s₀) : ∃ s, is.foldlM step s₀ = some s ∧ inv s ∧ m s₀ ≤ m s := by
  induction is generalizing s₀ with
  | nil => exact ⟨s₀, rfl, h0, le_refl _⟩
  | cons i is ih =>
    obtain ⟨s', hs, hi, hm⟩ := h s₀ h0 i (by simp)
    obtain ⟨s, h1, h2, h3⟩ := ih (fun s hs' j hj => h s hs' j (by simp [hj])) s' hi
    exact ⟨s, by simp [List.foldlM, hs, h1], h2, le_trans hm h3⟩

/-! ## C07 — chemicals, sedimentation, mine -/
section killOld
variable {α : Type} [Field α] [LinearOrder α] [IsStrictOrderedRing α] [HasSqrt α] [HasFloor α] [HasRound α]

/-- **chemicals `kill_old`** (interpretation of `Gen.chem_kill_old_seq`, lifespan configured): the method finishes, the
age has advanced by exactly `dt` seconds, and the particle is alive afterwards iff it was alive and its new age does not
exceed the lifespan.  No hypothesis. -/
theorem c07_chem_kill_old (dt L age : α) (alive : Bool) :
    ∃ r, Seq.runChemKillOld Gen.chem_kill_old_seq dt (some L) age alive = some (some r) ∧
      r.1 = age + dt ∧ (r.2 = true ↔ alive = true ∧ age + dt ≤ L) := by
  refine ⟨_, Bridge.chem_kill_old_seq dt (some L) age alive, rfl, ?_⟩
  simp

example : ∃ r, Seq.runChemKillOld Gen.chem_kill_old_seq (600 : ℚ) (some 3600) 3300 true = some (some r) ∧
    r.1 = 3900 ∧ r.2 = false := by
  obtain ⟨r, h, h1, h2⟩ := c07_chem_kill_old (600 : ℚ) 3600 3300 true
  refine ⟨r, h, by rw [h1]; norm_num, ?_⟩
  cases hr : r.2 with
  | false => rfl
  | true => exact absurd (h2.mp hr).2 (by norm_num)

/-- **sedimentation `kill_old`** (interpretation of `Gen.sed_kill_old_seq`).  No hypothesis. -/
theorem c07_sed_kill_old (stateDt L age : α) (alive : Bool) :
    ∃ r, Seq.runSedKillOld Gen.sed_kill_old_seq stateDt L age alive = some (some r) ∧
      r.1 = age + stateDt ∧ (r.2 = true ↔ alive = true ∧ age + stateDt ≤ L) := by
  refine ⟨_, Bridge.sed_kill_old_seq stateDt L age alive, rfl, ?_⟩
  simp

/-- **mine `kill_old`** (interpretation of `Gen.mine_kill_old_seq`).  No hypothesis. -/
theorem c07_mine_kill_old (stateDt L age : α) (alive : Bool) :
    ∃ r, Seq.runMineKillOld Gen.mine_kill_old_seq stateDt L age alive = some (some r) ∧
      r.1 = age + stateDt ∧ (r.2 = true ↔ alive = true ∧ age + stateDt ≤ L) := by
  refine ⟨_, Bridge.mine_kill_old_seq stateDt L age alive, rfl, ?_⟩
  simp

end killOld

section updates
variable {α : Type} [Field α] [LinearOrder α] [IsStrictOrderedRing α]
  [HasSqrt α] [HasExp α] [HasLog α] [HasSin α] [HasCos α] [HasAsin α] [HasRpow α] [HasPi α] [HasRound α] [HasFloor α]

/-- **sedimentation `update_ibm`** (interpretation of `Gen.sed_update_seq`; its step `"call" "kill_old"` is the
interpretation of `Gen.sed_kill_old_seq`: `Bridge.sed_call_kill_old`): the update finishes, the age has advanced by
exactly `state.dt`, and the particle is alive afterwards iff it was alive and its new age is within the lifespan.
No hypothesis. -/
theorem c07_sed_update (c : Sed.Config α) (e : Sed.Env α) (xi : α) (p : Sed.Particle α) :
    ∃ q, (Seq.run Seq.sedAtom (Seq.sedStep c e xi) Gen.sed_update_seq (Seq.SedSt.init p)).map Seq.SedSt.particle
        = some q ∧
      q.age = p.age + c.stateDt ∧ (q.alive = true ↔ p.alive = true ∧ p.age + c.stateDt ≤ c.lifespan) :=
  ⟨_, Bridge.sed_update_seq c e xi p, C07.sed_age_advance c e xi p, C07.sed_alive_iff c e xi p⟩

/-- **sedimentation, any history** of interpreted updates (each with its own environment and normal draw): the history
finishes, the age is `age₀ + n · state.dt`, and a particle that was dead at the start is dead at the end -/
theorem c07_sed_history (c : Sed.Config α) (steps : List (Sed.Env α × α)) (p : Sed.Particle α) :
    ∃ q, steps.foldlM (fun q s =>
        (Seq.run Seq.sedAtom (Seq.sedStep c s.1 s.2) Gen.sed_update_seq (Seq.SedSt.init q)).map Seq.SedSt.particle) p
        = some q ∧
      q.age = p.age + steps.length * c.stateDt ∧ (p.alive = false → q.alive = false) := by
  induction steps generalizing p with
  | nil => exact ⟨p, rfl, by simp, id⟩
  | cons s ss ih =>
    obtain ⟨q, h1, h2, h3⟩ := ih (Sed.update c s.1 s.2 p)
    refine ⟨q, ?_, ?_, ?_⟩
    · rw [List.foldlM_cons]
      rw [Bridge.sed_update_seq c s.1 s.2 p]
      exact h1
    · rw [h2, C07.sed_age_advance]; simp only [List.length_cons]; push_cast; ring
    · intro hp
      apply h3
      cases h : (Sed.update c s.1 s.2 p).alive with
      | false => rfl
      | true => rw [((C07.sed_alive_iff c s.1 s.2 p).mp h).1] at hp; cases hp

private def exSedCfg : Sed.Config ℚ := ⟨600, 600, 1000, .const 0.001, .numeric⟩
private def exSedSteps : List (Sed.Env ℚ × ℚ) := [(⟨50, 0.1, 0, some 0.06, 0.002⟩, 0.3), (⟨50, 0.2, 0.1, some 0.06, 0.002⟩, -1.2)]

/-- sedimentation: two steps of 600 s -/
example : ∃ q, exSedSteps.foldlM (fun q s =>
      (Seq.run Seq.sedAtom (Seq.sedStep exSedCfg s.1 s.2) Gen.sed_update_seq (Seq.SedSt.init q)).map Seq.SedSt.particle)
      (⟨10, 1, true, 0, 0.001⟩ : Sed.Particle ℚ) = some q ∧ q.age = 1200 := by
  obtain ⟨q, h, ha, _⟩ := c07_sed_history exSedCfg exSedSteps ⟨10, 1, true, 0, 0.001⟩
  exact ⟨q, h, by rw [ha]; norm_num [exSedSteps, exSedCfg]⟩

/-- **mine `update_ibm`** (interpretation of `Gen.mine_update_seq`): the update finishes, the age has advanced by exactly
`state.dt`, a particle that is alive afterwards was alive and is within the lifespan; and when resuspension is
configured (`taucrit = some t`: otherwise `bury` retires the particles that reach the sea bed, which is a second cause
of death) it is alive afterwards iff it was alive and its new age is within the lifespan.  No hypothesis. -/
theorem c07_mine_update (c : Sed.Mine.Config α) (e : Sed.Mine.Env α) (xi : α) (p : Sed.Particle α) :
    ∃ q, (Seq.run (Seq.mineAtom c) (Seq.mineStep c e xi) Gen.mine_update_seq (Seq.MineSt.init c p)).map
          (Seq.MineSt.particle c p) = some q ∧
      q.age = p.age + c.stateDt ∧
      (q.alive = true → p.alive = true ∧ p.age + c.stateDt ≤ c.lifespan) ∧
      (c.taucrit.isSome → (q.alive = true ↔ p.alive = true ∧ p.age + c.stateDt ≤ c.lifespan)) := by
  refine ⟨_, Bridge.mine_update_seq c e xi p, C07.mine_age_advance c e xi p, ?_, ?_⟩
  · intro h
    refine ⟨C07.mine_alive_monotone c e xi p h, ?_⟩
    unfold Sed.Mine.update at h
    simp only [Bool.and_eq_true, decide_eq_true_eq] at h
    exact h.2
  · intro ht
    obtain ⟨t, ht⟩ := Option.isSome_iff_exists.mp ht
    exact C07.mine_alive_iff_resusp c e xi p t ht

private def exMineCfg : Sed.Mine.Config ℚ := ⟨600, 600, 1000, 0.001, some 0.06, true, true, .numeric⟩
private def exMineEnv : Sed.Mine.Env ℚ := ⟨50, 0.1, 0, 0.0001⟩
private def exSedP : Sed.Particle ℚ := ⟨10, 1, true, 500, 0.001⟩

/-- mine with resuspension: the `iff` applies; age 500 s + 600 s exceeds the lifespan 1000 s -/
example : ∃ q, (Seq.run (Seq.mineAtom exMineCfg) (Seq.mineStep exMineCfg exMineEnv 0.3) Gen.mine_update_seq
      (Seq.MineSt.init exMineCfg exSedP)).map (Seq.MineSt.particle exMineCfg exSedP) = some q ∧ q.alive = false := by
  obtain ⟨q, h, _, _, hiff⟩ := c07_mine_update exMineCfg exMineEnv 0.3 exSedP
  refine ⟨q, h, ?_⟩
  cases hq : q.alive with
  | false => rfl
  | true => exact absurd ((hiff rfl).mp hq).2 (by norm_num [exSedP, exMineCfg])

/-- **mine, any history** of interpreted updates: a dead particle stays dead -/
theorem c07_mine_dead_forever (c : Sed.Mine.Config α) (steps : List (Sed.Mine.Env α × α)) (p : Sed.Particle α)
    (hp : p.alive = false) :
    ∃ q, steps.foldlM (fun q s =>
        (Seq.run (Seq.mineAtom c) (Seq.mineStep c s.1 s.2) Gen.mine_update_seq (Seq.MineSt.init c q)).map
          (Seq.MineSt.particle c q)) p = some q ∧ q.alive = false :=
  c07_dead_forever_history (fun q => q.alive) _ steps
    (fun q s _ => ⟨_, Bridge.mine_update_seq c s.1 s.2 q, C07.mine_alive_monotone c s.1 s.2 q⟩) p hp

/-- **chemicals `update_ibm`** (interpretation of `Gen.chem_update_seq`; its step `"call" "kill_old"` is the
interpretation of `Gen.chem_kill_old_seq`: `Bridge.chem_call_kill_old`), lifespan configured: the update finishes, the
age has advanced by exactly `dt` seconds, a particle alive afterwards was alive and is within the lifespan; without
horizontal diffusion (which retires the particles that would leave the grid — a second cause of death) it is alive
afterwards iff it was alive and its new age is within the lifespan.
Hypotheses forced by `Bridge.chem_update_seq` (they tie the model's configuration record to the value `lc` of
`self.land_collision` that the interpretation of the guards reads): `hclamp` — the record's switch `collisionClamp` is
"`land_collision` is `reposition` or `coastal_diffusion`"; `hstuck` — for any other value no collision handler runs, so
the particle's draw record says "not stuck". -/
theorem c07_chem_update (c : Chemicals.Config α) (e : Chemicals.Env α) (d : Chemicals.Draws α)
    (p : Chemicals.Particle α) (lc : Seq.LandCollision) (L : α) (hL : c.lifespan = some L)
    (hclamp : c.collisionClamp = decide (lc ≠ .other)) (hstuck : lc = .other → d.stuck = false) :
    ∃ q, Seq.run (Seq.chemAtom c lc) (Seq.chemStep c e d) Gen.chem_update_seq p = some q ∧
      q.age = p.age + c.dt ∧
      (q.alive = true → p.alive = true ∧ p.age + c.dt ≤ L) ∧
      (c.horz = none → (q.alive = true ↔ p.alive = true ∧ p.age + c.dt ≤ L)) := by
  refine ⟨_, Bridge.chem_update_seq c e d p lc hclamp hstuck, C07.chem_age_advance c e d p L hL, ?_, ?_⟩
  · intro h
    have := C07.chem_death_iff_horz c e d p L hL h
    rwa [C07.chem_age_advance c e d p L hL] at this
  · intro hh
    exact C07.chem_death_iff c e d p L hL hh

private def exChemCfg : Chemicals.Config ℚ :=
  { dt := 600, vertadv := true, mix := .const 0.01, horz := none, lifespan := some 3600, collisionClamp := true }
private def exChemEnv : Chemicals.Env ℚ :=
  ⟨fun _ _ => 100, fun _ _ _ => 0.001, fun _ _ _ => 0.01, fun _ _ _ => 1, fun _ _ => 800, fun _ _ => 800, fun _ _ => true⟩

/-- chemicals: `land_collision = 'reposition'`, a stuck particle, constant mixing, lifespan one hour -/
example : ∃ q, Seq.run (Seq.chemAtom exChemCfg .reposition)
      (Seq.chemStep exChemCfg exChemEnv ⟨true, 0.3, 0.7, [0.5], 0.1, 0.2⟩) Gen.chem_update_seq
      (⟨10, 20, 5, 3300, true⟩ : Chemicals.Particle ℚ) = some q ∧ q.age = 3300 + 600 := by
  obtain ⟨q, h, ha, _⟩ := c07_chem_update exChemCfg exChemEnv ⟨true, 0.3, 0.7, [0.5], 0.1, 0.2⟩
    ⟨10, 20, 5, 3300, true⟩ .reposition 3600 rfl (by decide) (by intro h; cases h)
  exact ⟨q, h, ha⟩

/-- **chemicals without a lifespan**: `kill_old` is not called and the age is not touched (same bridge hypotheses) -/
theorem c07_chem_update_no_lifespan (c : Chemicals.Config α) (e : Chemicals.Env α) (d : Chemicals.Draws α)
    (p : Chemicals.Particle α) (lc : Seq.LandCollision) (hL : c.lifespan = none)
    (hclamp : c.collisionClamp = decide (lc ≠ .other)) (hstuck : lc = .other → d.stuck = false) :
    ∃ q, Seq.run (Seq.chemAtom c lc) (Seq.chemStep c e d) Gen.chem_update_seq p = some q ∧ q.age = p.age :=
  ⟨_, Bridge.chem_update_seq c e d p lc hclamp hstuck, C07.chem_age_untouched c e d p hL⟩

/-- **chemicals, any history** of interpreted updates (each with its own environment and draws; lifespan configured or
not): a dead particle stays dead.  `hclamp`, `hstuck` (for every step): as in `c07_chem_update`. -/
theorem c07_chem_dead_forever (c : Chemicals.Config α) (lc : Seq.LandCollision)
    (steps : List (Chemicals.Env α × Chemicals.Draws α)) (p : Chemicals.Particle α)
    (hclamp : c.collisionClamp = decide (lc ≠ .other)) (hstuck : ∀ s ∈ steps, lc = .other → s.2.stuck = false)
    (hp : p.alive = false) :
    ∃ q, steps.foldlM (fun q s => Seq.run (Seq.chemAtom c lc) (Seq.chemStep c s.1 s.2) Gen.chem_update_seq q) p = some q ∧
      q.alive = false :=
  c07_dead_forever_history (fun q => q.alive) _ steps
    (fun q s hs => ⟨_, Bridge.chem_update_seq c s.1 s.2 q lc hclamp (hstuck s hs), C07.chem_alive_monotone c s.1 s.2 q⟩)
    p hp

example : ∃ q, [(exChemEnv, (⟨true, 0.3, 0.7, [0.5], 0.1, 0.2⟩ : Chemicals.Draws ℚ)),
      (exChemEnv, ⟨false, 0, 0, [-0.5], 0.3, -0.2⟩)].foldlM
      (fun q s => Seq.run (Seq.chemAtom exChemCfg .coastal) (Seq.chemStep exChemCfg s.1 s.2) Gen.chem_update_seq q)
      (⟨10, 20, 5, 3300, false⟩ : Chemicals.Particle ℚ) = some q ∧ q.alive = false :=
  c07_chem_dead_forever exChemCfg .coastal _ _ (by decide) (by intro s _ h; cases h) rfl

end updates

/-! ## C07 (and the age / weight clauses of C09) — salmon lice, egg, larvae, saithe, vps -/
section bio
variable {α : Type} [Field α] [LinearOrder α] [IsStrictOrderedRing α]
  [HasSqrt α] [HasExp α] [HasLog α] [HasSin α] [HasCos α] [HasAsin α] [HasRpow α] [HasPi α] [HasNarrow α] [HasFloor α]

/-- **salmon lice `update_ibm`** (interpretation of `Gen.lice_update_seq` on one particle): the update finishes; the age
has advanced by the degree-days of the step, `temp · state.dt / 86400` with the temperature read at the old position, and
`days` by `state.dt / 86400`; the particle is alive afterwards iff it was alive and its NEW age is below 170 degree-days;
`super` has been multiplied by `self.mortality_factor`.
Forced by the bridge: the supply of random numbers holds (at least) two numbers (`r :: xi :: rest`; the second one is
asked for only when `self.vertical_diffusion` — with too few numbers the interpretation raises,
`Bridge.lice_one_draw_raises`). -/
theorem c07_lice_update (e : LiceEnv α) (x y : α) (p : Bio.Lice α) (r xi : α) (rest : List α) :
    ∃ s, liceRun e x y p (r :: xi :: rest) = some (some s) ∧
      s.particle.age = p.age + e.temp x y p.z * (e.stateDt / 86400) ∧
      s.particle.days = p.days + e.stateDt / 86400 ∧
      (s.particle.alive = true ↔ p.alive = true ∧ s.particle.age < 170) ∧
      s.particle.super = p.super * e.mortFactor := by
  obtain ⟨s, hs, hp⟩ := of_map_map (Bridge.lice_update_seq e x y p r xi rest)
  have hp := (Prod.mk.inj hp).1
  refine ⟨s, hs, ?_, ?_, ?_, ?_⟩ <;> rw [hp]
  · exact (C07.lice_age_advance ..).1
  · exact (C07.lice_age_advance ..).2
  · exact C07.lice_alive_iff ..
  · exact C07.lice_super ..

private def exLiceEnv (dt : ℚ) : LiceEnv ℚ :=
  ⟨exp (-0.17 * dt / 86400.0), 0.2, 0.0005, 0.001, dt, dt, true, fun _ _ _ => 8, fun _ _ _ => 33, fun _ _ => 1⟩

example : ∃ s, liceRun (exLiceEnv 600) 10 20 (⟨5, 169.99, 20, 100, true⟩ : Bio.Lice ℚ) [0.4, -0.3] = some (some s) ∧
    s.particle.alive = false := by
  obtain ⟨s, h, ha, _, hiff, _⟩ := c07_lice_update (exLiceEnv 600) 10 20 ⟨5, 169.99, 20, 100, true⟩ 0.4 (-0.3) []
  refine ⟨s, h, ?_⟩
  cases hq : s.particle.alive with
  | false => rfl
  | true =>
    have := (hiff.mp hq).2
    rw [ha] at this
    norm_num [exLiceEnv] at this

/-- **salmon lice `__init__`** (interpretation of `Gen.lice_ctor_seq`) for a configuration with a numeric `dt` (and a
numeric or absent `vertical_mixing`): the constructor finishes and `self.mortality_factor = exp(-0.17 · dt / 86400)`;
for `dt` = one day this is `exp(-0.17)` -/
theorem c07_lice_mortality_factor (e : CtorEnv α) (D dt : α)
    (hD : (e.ibm "vertical_mixing").getD (.num 0.001) = .num D) (hdt : e.dt = some (.num dt)) :
    ∃ attrs, (ctorRun e Gen.lice_ctor_seq).map (Option.map CtorSt.result) = some (some (some attrs)) ∧
      attrNum attrs "mortality_factor" = some (exp (-0.17 * dt / 86400.0)) ∧
      (dt = 86400 → attrNum attrs "mortality_factor" = some (exp (-0.17 : α))) := by
  refine ⟨_, Bridge.lice_ctor_result e D dt hD hdt, (Bridge.lice_attrs D dt).1, ?_⟩
  intro h
  rw [(Bridge.lice_attrs D dt).1, h, C07.lice_one_day]

example : ∃ attrs, (ctorRun (⟨BcDict.ofList [("vertical_mixing", .num 0.002)], some (.num 600)⟩ : CtorEnv ℚ)
      Gen.lice_ctor_seq).map (Option.map CtorSt.result) = some (some (some attrs)) ∧
    attrNum attrs "mortality_factor" = some (exp (-0.17 * 600 / 86400.0 : ℚ)) := by
  obtain ⟨a, h, hm, _⟩ := c07_lice_mortality_factor (⟨BcDict.ofList [("vertical_mixing", .num 0.002)], some (.num 600)⟩ : CtorEnv ℚ)
    0.002 600 rfl rfl
  exact ⟨a, h, hm⟩

/-- **salmon lice, any history** of interpreted updates — every step with its own attributes (`dt`, `state.dt`, …),
forcing, position and pair of random numbers.  `hmf` (valid configuration): in every step `self.mortality_factor` is
the value the constructor computes from that step's `dt` (`c07_lice_mortality_factor`).  Then the history finishes and
* **step-size independence**: `super` has been multiplied by `exp(-0.17 · Σ dt / 86400)` — the survival depends only on
  the total time, not on how it is divided into steps (needs the laws `exp (a + b) = exp a · exp b`, `exp 0 = 1`); the
  time that counts is the sum of the configured `dt`s (`config['dt']`), which is the elapsed time `Σ state.dt` when the
  two clocks agree, as LADiM sets them;
* `days` has advanced by `Σ state.dt / 86400`;
* a particle dead at the start is dead at the end. -/
theorem c07_lice_history (hE : ExpLaws α) (steps : List (LiceEnv α × α × α × α × α))
    (hmf : ∀ i ∈ steps, i.1.mortFactor = exp (-0.17 * i.1.dt / 86400.0)) (p : Bio.Lice α) :
    ∃ q, steps.foldlM (fun p i =>
          (liceRun i.1 i.2.1 i.2.2.1 p [i.2.2.2.1, i.2.2.2.2]).join.map LiceSt.particle) p = some q ∧
      q.super = p.super * exp (-0.17 * (steps.map fun i => i.1.dt).sum / 86400.0) ∧
      q.days = p.days + (steps.map fun i => i.1.stateDt).sum / 86400 ∧
      (p.alive = false → q.alive = false) := by
  induction steps generalizing p with
  | nil =>
    refine ⟨p, rfl, ?_, by simp, id⟩
    simp only [List.map_nil, List.sum_nil]
    rw [mul_zero, zero_div, hE.exp_zero, mul_one]
  | cons i is ih =>
    obtain ⟨e, x, y, r, xi⟩ := i
    obtain ⟨s, hs, _, hdays, halive, hsuper⟩ := c07_lice_update e x y p r xi []
    obtain ⟨q, h1, h2, h3, h4⟩ := ih (fun j hj => hmf j (by simp [hj])) s.particle
    refine ⟨q, ?_, ?_, ?_, ?_⟩
    · rw [List.foldlM_cons]
      simp only [hs, Option.join, Option.map]
      exact h1
    · have hm : e.mortFactor = exp (-0.17 * e.dt / 86400.0) := hmf (e, x, y, r, xi) (by simp)
      rw [h2, hsuper, hm, mul_assoc]
      simp only [List.map_cons, List.sum_cons]
      rw [C07.exp_rate_add hE]
    · rw [h3, hdays]
      simp only [List.map_cons, List.sum_cons]
      ring
    · intro hp
      apply h4
      cases h : s.particle.alive with
      | false => rfl
      | true => rw [(halive.mp h).1] at hp; cases hp

private noncomputable def exLiceEnvR (dt : ℝ) : LiceEnv ℝ :=
  ⟨exp (-0.17 * dt / 86400.0), 0.2, 0.0005, 0.001, dt, dt, true, fun _ _ _ => 8, fun _ _ _ => 33, fun _ _ => 1⟩

/-- one hour as 600 s + 1200 s + 1800 s: survival `exp(-0.17 · 3600 / 86400)` -/
example : ∃ q, [(exLiceEnvR 600, (10 : ℝ), (20 : ℝ), (0.4 : ℝ), (-0.3 : ℝ)), (exLiceEnvR 1200, 10, 20, 0.9, 1.3),
      (exLiceEnvR 1800, 11, 20, 0.1, 0.2)].foldlM (fun p i =>
        (liceRun i.1 i.2.1 i.2.2.1 p [i.2.2.2.1, i.2.2.2.2]).join.map LiceSt.particle)
      (⟨5, 30, 4, 100, true⟩ : Bio.Lice ℝ) = some q ∧
    q.super = 100 * exp (-0.17 * 3600 / 86400.0 : ℝ) := by
  obtain ⟨q, h, hs, _⟩ := c07_lice_history RealInst.expLaws
    [(exLiceEnvR 600, (10 : ℝ), (20 : ℝ), (0.4 : ℝ), (-0.3 : ℝ)), (exLiceEnvR 1200, 10, 20, 0.9, 1.3),
      (exLiceEnvR 1800, 11, 20, 0.1, 0.2)]
    (by intro i hi; simp only [List.mem_cons, List.not_mem_nil, or_false] at hi; rcases hi with rfl | rfl | rfl <;> rfl)
    ⟨5, 30, 4, 100, true⟩
  refine ⟨q, h, ?_⟩
  rw [hs]
  norm_num [exLiceEnvR]

/-- **egg `update`** (interpretation of `Gen.egg_update_seq`): the update finishes and the age has advanced by the
degree-days of the step, `temp · dt / 86400` (temperature at the old position); for a non-negative temperature and step
it does not decrease.  Forced by the bridge: one random number in the supply (asked for only with vertical mixing). -/
theorem c07_egg_update (e : EggEnv α) (x y z age buoy xi : α) (rest : List α) :
    ∃ s, eggRun e x y z age buoy (xi :: rest) = some (some s) ∧
      s.age = age + e.temp x y z * (e.dt / 86400) ∧
      (0 ≤ e.temp x y z → 0 ≤ e.dt → age ≤ s.age) := by
  obtain ⟨s, hs, hp⟩ := of_map_map (Bridge.egg_update_seq e x y z age buoy xi rest)
  have hp := (Prod.mk.inj (Prod.mk.inj hp).2).1
  refine ⟨s, hs, ?_, ?_⟩ <;> rw [hp]
  · exact C07.degree_day_age age (e.temp x y z) e.dt
  · exact C07.degree_day_monotone age (e.temp x y z) e.dt

example : ∃ s, eggRun (⟨0.001, 600, 0.0014, true, fun _ _ _ => 6, fun _ _ _ => 34⟩ : EggEnv ℚ) 10 20 30 12 31 (0.7 :: [])
    = some (some s) ∧ s.age = 12 + 6 * (600 / 86400) := by
  obtain ⟨s, h, ha, _⟩ := c07_egg_update (⟨0.001, 600, 0.0014, true, fun _ _ _ => 6, fun _ _ _ => 34⟩ : EggEnv ℚ)
    10 20 30 12 31 0.7 []
  exact ⟨s, h, ha⟩

/-- **vps `update_ibm`** (interpretation of `Gen.vps_update_seq`), for ANY value of `self.max_age`: the update finishes,
the age has advanced by exactly `self.dt` seconds, and the particle is alive afterwards iff it was alive, its new age is
below the age limit and the fish velocity at its position is not zero (it has not reached the ocean).
Forced by the bridge: one random number in the supply (the new depth). -/
theorem c07_vps_update (e : VpsEnv α) (x y : α) (p : Bio.Vps α) (u : α) (rest : List α) :
    ∃ s, vpsRun e x y p (u :: rest) = some (some s) ∧
      s.particle.age = p.age + e.dt ∧
      (s.particle.alive = true ↔
        p.alive = true ∧ p.age + e.dt < e.maxAge ∧ ((e.fishVel x y).1 ≠ 0 ∨ (e.fishVel x y).2 ≠ 0)) := by
  obtain ⟨md, dt, ma, fv⟩ := e
  obtain ⟨s, hs, hp, _⟩ := Bridge.vps_run_core md dt ma fv x y p u rest
  refine ⟨s, hs, by rw [hp], ?_⟩
  rw [hp]
  have h0 : (0.0 : α) = 0 := by norm_num
  simp only [Gen.feq, h0, Bool.and_eq_true, decide_eq_true_eq, Bool.or_eq_true, Bool.not_eq_true',
    Bool.and_eq_false_iff, Bool.not_eq_false', and_assoc]
  refine and_congr_right fun _ => and_congr_right fun _ => ?_
  constructor
  · rintro (h | h)
    · exact Or.inl (by rcases h with h | h <;> [exact ne_of_lt h; exact ne_of_gt h])
    · exact Or.inr (by rcases h with h | h <;> [exact ne_of_lt h; exact ne_of_gt h])
  · rintro (h | h)
    · exact Or.inl (lt_or_gt_of_ne h)
    · exact Or.inr (lt_or_gt_of_ne h)

/-- vps: age limit one day, a particle in open water (fish velocity zero) is retired -/
example : ∃ s, vpsRun (⟨10, 600, 86400, fun _ _ => (0, 0)⟩ : VpsEnv ℚ) 3 4 (⟨2, 1200, true⟩ : Bio.Vps ℚ) [0.25]
      = some (some s) ∧
    s.particle.age = 1800 ∧ s.particle.alive = false := by
  obtain ⟨s, h, ha, hiff⟩ := c07_vps_update (⟨10, 600, 86400, fun _ _ => (0, 0)⟩ : VpsEnv ℚ) 3 4 ⟨2, 1200, true⟩ 0.25 []
  refine ⟨s, h, by rw [ha]; norm_num, ?_⟩
  cases hq : s.particle.alive with
  | false => rfl
  | true => simpa using (hiff.mp hq).2.2

/-- **vps, any history** of interpreted updates (each with its own attributes, position and random number): a dead
particle stays dead -/
theorem c07_vps_dead_forever (steps : List (VpsEnv α × α × α × α)) (p : Bio.Vps α) (hp : p.alive = false) :
    ∃ q, steps.foldlM (fun p i => (vpsRun i.1 i.2.1 i.2.2.1 p [i.2.2.2]).join.map VpsSt.particle) p = some q ∧
      q.alive = false := by
  refine c07_dead_forever_history (fun q => q.alive) _ steps (fun q i _ => ?_) p hp
  obtain ⟨s, hs, _, h⟩ := c07_vps_update i.1 i.2.1 i.2.2.1 q i.2.2.2 []
  exact ⟨s.particle, by simp [hs, Option.join], fun ha => (h.mp ha).1⟩

/-! ### cod larvae / saithe -/

/-- the vertical velocity of an egg / larva before mixing, as the code computes it (a `float32` value): an egg
(`age ≤ hatch_day`, age BEFORE this step's ageing) has the terminal sinking velocity `sinkvel_egg` of its buoyancy, a
larva swims with `swim_speed · 0.001 · length(weight)` towards the desired light level -/
def larvaW0 (c : Bio.LarvaCfg α) (temp salt buoy l0 : α) (p : Bio.Larva α) (newWeight : α) : α :=
  if p.age ≤ c.hatchDay then
    narrow (Gen.larvae_sinkvel_egg (Gen.eos_viscosity temp salt) (Gen.eos_density temp salt)
      (Gen.eos_density temp buoy) c.eggDiam)
  else
    narrow (c.swimSpeed * (0.001 * Gen.larvae_weight_to_length newWeight)
      * fsign (Gen.light_at_depth l0 p.z c.k - c.desired))

private theorem larvaUpdate_facts (c : Bio.LarvaCfg α) (temp salt buoy l0 : α) (xi : Option α) (p : Bio.Larva α) :
    let q := Bio.larvaUpdate c temp salt buoy l0 xi p
    q.age = p.age + temp * (c.stateDt / 86400) ∧
    (0 ≤ temp → 0 ≤ c.stateDt → p.age ≤ q.age) ∧
    (p.age ≤ c.hatchDay → q.weight = p.weight) ∧
    (c.hatchDay < p.age → q.weight = fmax p.weight c.initWeight +
      Gen.larvae_growth temp (fmax p.weight c.initWeight) c.dt) ∧
    q.z = Bio.larvaFinalZ c (decide (p.age ≤ c.hatchDay)) (p.z + narrow ((match xi with
      | none => larvaW0 c temp salt buoy l0 p q.weight
      | some r => narrow (larvaW0 c temp salt buoy l0 p q.weight + r * sqrt (2.0 * c.D / c.dt))) * narrow c.dt)) := by
  have hage := C07.larva_age_advance c temp salt buoy l0 xi p
  refine ⟨hage, ?_, C09.egg_keeps_weight c temp salt buoy l0 xi p, ?_, ?_⟩
  · intro ht hdt
    rw [hage]
    have : 0 ≤ temp * (c.stateDt / 86400) := mul_nonneg ht (div_nonneg hdt (by norm_num))
    linarith
  · intro h
    rw [C09.larva_weight_eq c temp salt buoy l0 xi p h]
    rfl
  · by_cases h : p.age ≤ c.hatchDay <;> cases xi <;> simp [Bio.larvaUpdate, Bio.larvaSwim, larvaW0, h]

/-- **larvae `update_ibm`** (interpretation of `Gen.larvae_update_seq`; C07 age clause and C09 clauses for cod larvae).
The update finishes and
* the age has advanced by the degree-days of the step, `temp · state.dt / 86400`, and does not decrease for a
  non-negative temperature and step;
* a particle whose age BEFORE the step is at most `hatch_day` (an egg) keeps its weight; a particle past the threshold
  grows FROM `max(weight, init_larvae_weight)` by the generated growth formula `Gen.larvae_growth` (= the interpretation
  of `Gen.larvae_growth_seq`, `Bridge.larvae_growth_seq`);
* the vertical velocity is buoyancy-driven (`sinkvel_egg`) up to the threshold and swimming towards the desired light
  after it (`larvaW0`); the new depth is the old one plus `W · dt` (in `float32`), clipped to `[min_depth, max_depth]`.
Forced by the bridge: `hg`, `hl` — the configured callables `self.growth` / `self.length` are the species defaults
`growth_cod_larvae` / `weight_to_length` (they are configuration values: anything could be passed); one random number
in the supply (asked for only when `self.D` is non-zero). -/
theorem c09_larvae_update (e : LarvaEnv α) (hg : e.growth = Gen.larvae_growth)
    (hl : e.length = Gen.larvae_weight_to_length) (x y buoy : α) (p : Bio.Larva α) (xi : α) (rest : List α) :
    ∃ s, larvaeRun e x y buoy p (xi :: rest) = some (some s) ∧
      s.particle.age = p.age + e.temp x y p.z * (e.c.stateDt / 86400) ∧
      (0 ≤ e.temp x y p.z → 0 ≤ e.c.stateDt → p.age ≤ s.particle.age) ∧
      (p.age ≤ e.c.hatchDay → s.particle.weight = p.weight) ∧
      (e.c.hatchDay < p.age → s.particle.weight = fmax p.weight e.c.initWeight +
        Gen.larvae_growth (e.temp x y p.z) (fmax p.weight e.c.initWeight) e.c.dt) ∧
      s.particle.z = fmax (fmin (p.z + narrow ((
          let W0 := larvaW0 e.c (e.temp x y p.z) (e.salt x y p.z) buoy (e.light0 x y) p s.particle.weight
          if Bio.isZeroS e.c.D then W0 else narrow (W0 + xi * sqrt (2.0 * e.c.D / e.c.dt))) * narrow e.c.dt))
        e.c.maxDepth) e.c.minDepth := by
  obtain ⟨s, hs, hp⟩ := of_map_map (Bridge.larvae_update_seq e hg hl x y buoy p xi rest)
  have hp := (Prod.mk.inj hp).1
  obtain ⟨h1, h2, h3, h4, h5⟩ := larvaUpdate_facts { e.c with clipEggs := true } (e.temp x y p.z) (e.salt x y p.z) buoy
    (e.light0 x y) (if Bio.isZeroS e.c.D then none else some xi) p
  rw [← hp] at h1 h2 h3 h4 h5
  refine ⟨s, hs, h1, h2, h3, h4, ?_⟩
  rw [h5]
  cases Bio.isZeroS e.c.D <;> simp [Bio.larvaFinalZ, Bio.clipDepth, larvaW0]

/-- cod: hatch at 93.7 degree-days -/
private def exLarvaCfg : Bio.LarvaCfg ℚ := ⟨93.7, 0.093, 0.1, 1.0, 0, 1000, 0.2, 0.001, 600, 600, 0.0014, true⟩
private def exLarvaEnv : LarvaEnv ℚ :=
  ⟨exLarvaCfg, fun _ _ _ => 6, fun _ _ _ => 34, fun _ _ => 1, Gen.larvae_growth, Gen.larvae_weight_to_length, false,
    fun x y => (x, y)⟩

example : ∃ s, larvaeRun exLarvaEnv 10 20 31 (⟨30, 93.7, 0.05⟩ : Bio.Larva ℚ) [0.7] = some (some s) ∧
    s.particle.weight = 0.05 ∧ s.particle.age = 93.7 + 6 * (600 / 86400) := by
  obtain ⟨s, h, ha, _, hw, _⟩ := c09_larvae_update exLarvaEnv rfl rfl 10 20 31 ⟨30, 93.7, 0.05⟩ 0.7 []
  exact ⟨s, h, hw (le_refl _), ha⟩

/-- **saithe `update_ibm`** (interpretation of `Gen.saithe_update_seq`): as `c09_larvae_update`, with the desired light
level `1` (a statement of the method), the surface light read at the position after `spread()` (when
`self.extra_spreading`), and the final depth: eggs only stop at the surface (`max(Z, 0)`), larvae are clipped to
`[min_depth, max_depth]`.
Forced by the bridge: `hband : min_depth ≤ max_depth` (the code clips with `np.clip` = min∘max, the model with max∘min;
they differ for an inverted band, `Bridge.clip_forms_differ`; `__init__` hard-codes `30 ≤ 60`); one random number in the
supply. -/
theorem c09_saithe_update (e : LarvaEnv α) (hband : e.c.minDepth ≤ e.c.maxDepth)
    (x y buoy : α) (p : Bio.Larva α) (xi : α) (rest : List α) :
    ∃ s, saitheRun e x y buoy p (xi :: rest) = some (some s) ∧
      s.particle.age = p.age + e.temp x y p.z * (e.c.stateDt / 86400) ∧
      (0 ≤ e.temp x y p.z → 0 ≤ e.c.stateDt → p.age ≤ s.particle.age) ∧
      (p.age ≤ e.c.hatchDay → s.particle.weight = p.weight) ∧
      (e.c.hatchDay < p.age → s.particle.weight = fmax p.weight e.c.initWeight +
        Gen.larvae_growth (e.temp x y p.z) (fmax p.weight e.c.initWeight) e.c.dt) ∧
      s.particle.z = (
        let l0 := if e.extraSpreading then e.light0 (e.spread x y).1 (e.spread x y).2 else e.light0 x y
        let W0 := larvaW0 { e.c with desired := 1.0 } (e.temp x y p.z) (e.salt x y p.z) buoy l0 p s.particle.weight
        let W := if Bio.isZeroS e.c.D then W0 else narrow (W0 + xi * sqrt (2.0 * e.c.D / e.c.dt))
        let z := p.z + narrow (W * narrow e.c.dt)
        if p.age ≤ e.c.hatchDay then fmax z 0.0 else fmax (fmin z e.c.maxDepth) e.c.minDepth) := by
  obtain ⟨s, hs, hp⟩ := of_map_map (Bridge.saithe_update_seq e hband x y buoy p xi rest)
  have hp := (Prod.mk.inj hp).1
  obtain ⟨h1, h2, h3, h4, h5⟩ := larvaUpdate_facts { e.c with clipEggs := false, desired := 1.0 } (e.temp x y p.z)
    (e.salt x y p.z) buoy (if e.extraSpreading then e.light0 (e.spread x y).1 (e.spread x y).2 else e.light0 x y)
    (if Bio.isZeroS e.c.D then none else some xi) p
  rw [← hp] at h1 h2 h3 h4 h5
  refine ⟨s, hs, h1, h2, h3, h4, ?_⟩
  rw [h5]
  by_cases h : p.age ≤ e.c.hatchDay <;> cases Bio.isZeroS e.c.D <;>
    simp [Bio.larvaFinalZ, Bio.clipDepth, larvaW0, h]

private def exSaitheEnv : LarvaEnv ℚ :=
  ⟨Bridge.saitheCfg 600 600, fun _ _ _ => 6, fun _ _ _ => 34, fun _ _ => 1, Gen.larvae_growth,
    Gen.larvae_weight_to_length, true, fun x y => (x + 1, y - 1)⟩

/-- saithe with the hard-coded attributes (`min_depth = 30 ≤ max_depth = 60`), a hatched larva -/
example : ∃ s, saitheRun exSaitheEnv 10 20 31 (⟨40, 61, 0.05⟩ : Bio.Larva ℚ) [0.7] = some (some s) ∧
    s.particle.weight = fmax 0.05 0.093 + Gen.larvae_growth 6 (fmax 0.05 0.093) 600 := by
  obtain ⟨s, h, _, _, _, hw, _⟩ := c09_saithe_update exSaitheEnv (by norm_num [exSaitheEnv, Bridge.saitheCfg])
    10 20 31 ⟨40, 61, 0.05⟩ 0.7 []
  refine ⟨s, h, ?_⟩
  have := hw (by norm_num [exSaitheEnv, Bridge.saitheCfg])
  simpa [exSaitheEnv, Bridge.saitheCfg] using this

/-- Folkvord's growth increment (generated formula) is non-negative for a non-negative temperature and step on the
size range of the model (`log weight ∈ [-2.4, 8.5]`) -/
private theorem growth_nonneg (hE : ExpLaws α) (hL : LogLaws α) (temp w dt : α) (ht : 0 ≤ temp) (hw : 0 < w)
    (hdt : 0 ≤ dt) (hw0 : -2.4 ≤ log w) (hw1 : log w ≤ 8.5) : 0 ≤ Gen.larvae_growth temp w dt := by
  rcases hdt.eq_or_lt with h | h
  · subst h
    simp only [Gen.larvae_growth, mul_zero, hE.exp_zero]
    norm_num
  · exact (C09.growth_pos hE hL temp w dt ht hw h hw0 hw1).le

/-- **growth starts from the initial larval weight and never runs backwards** (cod larvae and saithe; laws of `exp` and
`log` as in `C09.growth_pos`): for a non-negative temperature and step and a starting weight `max(weight, init)` inside
the size range of the growth model (0.09 mg … 4900 mg), the weight after the interpreted update is at least the weight
before, and a hatched larva has at least `init_larvae_weight` -/
theorem c09_larvae_weight_floor (hE : ExpLaws α) (hL : LogLaws α) (e : LarvaEnv α) (x y buoy : α) (p : Bio.Larva α)
    (xi : α) (rest : List α) (ht : 0 ≤ e.temp x y p.z) (hdt : 0 ≤ e.c.dt)
    (hw : 0 < fmax p.weight e.c.initWeight) (hw0 : -2.4 ≤ log (fmax p.weight e.c.initWeight))
    (hw1 : log (fmax p.weight e.c.initWeight) ≤ 8.5) :
    (e.growth = Gen.larvae_growth → e.length = Gen.larvae_weight_to_length →
      ∃ s, larvaeRun e x y buoy p (xi :: rest) = some (some s) ∧ p.weight ≤ s.particle.weight ∧
        (e.c.hatchDay < p.age → e.c.initWeight ≤ s.particle.weight)) ∧
    (e.c.minDepth ≤ e.c.maxDepth →
      ∃ s, saitheRun e x y buoy p (xi :: rest) = some (some s) ∧ p.weight ≤ s.particle.weight ∧
        (e.c.hatchDay < p.age → e.c.initWeight ≤ s.particle.weight)) := by
  have hg := growth_nonneg hE hL _ _ _ ht hw hdt hw0 hw1
  have hmax : p.weight ≤ fmax p.weight e.c.initWeight ∧ e.c.initWeight ≤ fmax p.weight e.c.initWeight := by
    unfold fmax; split_ifs with h
    · exact ⟨h.le, le_refl _⟩
    · exact ⟨le_refl _, not_lt.mp h⟩
  have key : ∀ w' : α, (p.age ≤ e.c.hatchDay → w' = p.weight) →
      (e.c.hatchDay < p.age → w' = fmax p.weight e.c.initWeight +
        Gen.larvae_growth (e.temp x y p.z) (fmax p.weight e.c.initWeight) e.c.dt) →
      p.weight ≤ w' ∧ (e.c.hatchDay < p.age → e.c.initWeight ≤ w') := by
    intro w' h3 h4
    constructor
    · rcases le_or_gt p.age e.c.hatchDay with h | h
      · rw [h3 h]
      · rw [h4 h]; linarith [hmax.1]
    · intro h; rw [h4 h]; linarith [hmax.2]
  constructor
  · intro hgr hl
    obtain ⟨s, hs, _, _, h3, h4, _⟩ := c09_larvae_update e hgr hl x y buoy p xi rest
    exact ⟨s, hs, key _ h3 h4⟩
  · intro hband
    obtain ⟨s, hs, _, _, h3, h4, _⟩ := c09_saithe_update e hband x y buoy p xi rest
    exact ⟨s, hs, key _ h3 h4⟩

private noncomputable def exLarvaEnvR : LarvaEnv ℝ :=
  ⟨⟨93.7, 0.093, 0.1, 1.0, 0, 1000, 0.2, 0.001, 600, 600, 0.0014, true⟩, fun _ _ _ => 6, fun _ _ _ => 34, fun _ _ => 1,
    Gen.larvae_growth, Gen.larvae_weight_to_length, false, fun x y => (x, y)⟩

/-- a larva of 1 mg (`log 1 = 0` is inside the size range) at 6 °C -/
example : ∃ s, larvaeRun exLarvaEnvR 10 20 31 (⟨30, 100, 1⟩ : Bio.Larva ℝ) [0.7] = some (some s) ∧
    1 ≤ s.particle.weight := by
  have hm : fmax (1 : ℝ) exLarvaEnvR.c.initWeight = 1 := by
    unfold fmax; norm_num [exLarvaEnvR]
  have hl : log (1 : ℝ) = 0 := Real.log_one
  obtain ⟨s, h, hw, _⟩ := (c09_larvae_weight_floor RealInst.expLaws RealInst.logLaws exLarvaEnvR 10 20 31 ⟨30, 100, 1⟩
    0.7 [] (by norm_num [exLarvaEnvR]) (by norm_num [exLarvaEnvR]) (by rw [hm]; norm_num)
    (by rw [hm, hl]; norm_num) (by rw [hm, hl]; norm_num)).1 rfl rfl
  exact ⟨s, h, hw⟩

end bio

/-! ## C09 — sand eel, shrimp -/
section dev
variable {α : Type} [Field α] [LinearOrder α] [IsStrictOrderedRing α]
  [HasSqrt α] [HasExp α] [HasLog α] [HasSin α] [HasCos α] [HasAsin α] [HasRpow α] [HasPi α]

/-! ### sand eel -/

/-- **sand eel `egg_development`** (interpretation of `Gen.sandeel_egg_development_seq`; `f` = the function object
`hatch_time`, called as `hatch_time(hatch_rate, temp)`): the function finishes; a particle with `stage < 1` advances by
exactly `dt / (hatch_time · 86400)` and is active afterwards iff its new stage has reached 1; any other particle is
left as it is.  No hypothesis. -/
theorem c09_sandeel_egg_development (f : α → α → α) (temp stage hr dt : α) (active : Bool) :
    ∃ q, sandeelEggRun (fun r t => some (some (f r t))) temp stage hr active dt = some (some q) ∧
      (stage < 1 → q.stage = stage + dt / (f hr temp * 86400) ∧ (q.active = true ↔ 1 ≤ q.stage)) ∧
      (1 ≤ stage → q = ⟨stage, active⟩) := by
  refine ⟨_, Bridge.sandeel_egg_development_seq f temp stage hr dt active, ?_, ?_⟩
  · intro h
    exact ⟨C09.egg_rate (f hr temp) dt ⟨stage, active⟩ h, C09.egg_activates_iff (f hr temp) dt ⟨stage, active⟩ h⟩
  · intro h
    exact C09.egg_noop_on_others (f hr temp) dt ⟨stage, active⟩ h

/-- an egg at stage 0.99 with a hatch time of 50 days: one day later it has reached stage 1 and is active -/
example : ∃ q, sandeelEggRun (fun _ _ => some (some (50 : ℚ))) 7 0.99 0.5 false 86400 = some (some q) ∧
    q.active = true := by
  obtain ⟨q, h, hq, _⟩ := c09_sandeel_egg_development (fun _ _ => (50 : ℚ)) 7 0.99 0.5 86400 false
  obtain ⟨hs, ha⟩ := hq (by norm_num)
  exact ⟨q, h, ha.mpr (by rw [hs]; norm_num)⟩

private theorem larval_stage_le (hE : ExpLaws α) (hR : RpowLaws α) (temp stage dt : α) (h1 : 1 ≤ stage)
    (h2 : stage < 2) (hdt : 0 ≤ dt) : stage ≤ Gen.sandeel_larval_stage temp stage dt := by
  rcases hdt.eq_or_lt with h | h
  · subst h
    rw [C09.larval_stage_eq]
    simp
  · exact (C09.larva_stage_increases hE hR temp stage dt h1 h2 h).le

/-- **sand eel `larval_development`** (interpretation of `Gen.sandeel_larval_development_seq`): the function finishes; a
particle with `1 ≤ stage < 2` gets the stage of the generated length-growth rule `Gen.sandeel_larval_stage`, which is
not below the old one for every temperature and every `dt ≥ 0` (laws: `exp > 0`, `x ** y > 0` for `x > 0`), and is
active afterwards iff its new stage is still below 2; any other particle is left as it is. -/
theorem c09_sandeel_larval_development (hE : ExpLaws α) (hR : RpowLaws α) (temp stage dt : α) (active : Bool) :
    ∃ q, sandeelLarvaRun temp stage active dt = some (some q) ∧
      (1 ≤ stage → stage < 2 → q.stage = Gen.sandeel_larval_stage temp stage dt ∧ (q.active = true ↔ q.stage < 2) ∧
        (0 ≤ dt → stage ≤ q.stage)) ∧
      (stage < 1 ∨ 2 ≤ stage → q = ⟨stage, active⟩) := by
  refine ⟨_, Bridge.sandeel_larval_development_seq temp stage dt active, ?_, ?_⟩
  · intro h1 h2
    have hs : (Dev.larvaDevelop temp dt ⟨stage, active⟩).stage = Gen.sandeel_larval_stage temp stage dt := by
      unfold Dev.larvaDevelop
      have : (1.0 : α) ≤ stage ∧ stage < 2.0 := by norm_num; exact ⟨h1, h2⟩
      simp only [this, and_self, if_true]
    refine ⟨hs, C09.larva_deactivates_iff temp dt ⟨stage, active⟩ h1 h2, fun hdt => ?_⟩
    rw [hs]
    exact larval_stage_le hE hR temp stage dt h1 h2 hdt
  · intro h
    exact C09.larva_noop_on_others temp dt ⟨stage, active⟩ h

/-- the tabulated hatch time is more than one day for every hatch rate in `[0, 1]` and every temperature -/
private theorem one_lt_hatchTime (rate temp : α) (h0 : 0 ≤ rate) (h1 : rate ≤ 1) : 1 < Dev.hatchTime rate temp := by
  have hr2 : 0 ≤ rate * rate := mul_self_nonneg rate
  have q2 : 0 < Dev.quad3 (61.0 : α) 82.0 135.0 rate - 1 := by unfold Dev.quad3; norm_num; nlinarith
  have q4 : 0 < Dev.quad3 (51.0 : α) 67.0 116.0 rate - 1 := by unfold Dev.quad3; norm_num; nlinarith
  have q7 : 0 < Dev.quad3 (39.0 : α) 48.0 82.0 rate - 1 := by unfold Dev.quad3; norm_num; nlinarith
  have q10 : 0 < Dev.quad3 (25.0 : α) 30.0 55.0 rate - 1 := by
    unfold Dev.quad3; norm_num; nlinarith [mul_self_nonneg (rate - 1 / 8)]
  have lerp : ∀ a b w : α, 0 < a - 1 → 0 < b - 1 → 0 ≤ w → w ≤ 1 → 1 < a + (b - a) * w := by
    intro a b w ha hb hw0 hw1
    have := C09.lerp_pos (a - 1) (b - 1) w ha hb hw0 hw1
    have e : a - 1 + (b - 1 - (a - 1)) * w = a + (b - a) * w - 1 := by ring
    linarith
  unfold Dev.hatchTime
  simp only []
  set t := fmin (10.0 : α) (fmax 2.0 temp) with ht
  have ht2 : 2 ≤ t := by
    rw [ht]; unfold fmin fmax; norm_num; split_ifs <;> linarith
  have ht10 : t ≤ 10 := by
    rw [ht]; unfold fmin fmax; norm_num; split_ifs <;> linarith
  split_ifs with ha hb
  · norm_num at ha
    exact lerp _ _ _ q2 q4 (by norm_num; linarith) (by norm_num; rw [div_le_one (by norm_num)]; linarith)
  · norm_num at ha hb
    exact lerp _ _ _ q4 q7 (by norm_num; linarith) (by norm_num; rw [div_le_one (by norm_num)]; linarith)
  · norm_num at ha hb
    exact lerp _ _ _ q7 q10 (by norm_num; linarith) (by norm_num; rw [div_le_one (by norm_num)]; linarith)

private theorem sandeelDevelop_facts (hE : ExpLaws α) (hR : RpowLaws α) (bt temp hr dt : α) (p : Dev.Eel α)
    (hr0 : 0 ≤ hr) (hr1 : hr ≤ 1) (hdt : 0 ≤ dt) :
    p.stage ≤ (Dev.sandeelDevelop bt temp hr dt p).stage ∧
    (dt ≤ 86400 → p.stage < 2 → ((Dev.sandeelDevelop bt temp hr dt p).active = true ↔
      1 ≤ (Dev.sandeelDevelop bt temp hr dt p).stage ∧ (Dev.sandeelDevelop bt temp hr dt p).stage < 2)) ∧
    (2 ≤ p.stage → Dev.sandeelDevelop bt temp hr dt p = p) := by
  have hd := C09.hatch_time_pos hr bt hr0 hr1
  have hd1 := one_lt_hatchTime hr bt hr0 hr1
  unfold Dev.sandeelDevelop
  set days := Dev.hatchTime hr bt
  -- the egg rule
  have e1 : p.stage ≤ (Dev.eggDevelop days dt p).stage := by
    by_cases h : p.stage < 1
    · rw [C09.egg_rate days dt p h]
      have : 0 ≤ dt / (days * 86400) := div_nonneg hdt (by positivity)
      linarith
    · rw [C09.egg_noop_on_others _ _ p (not_lt.mp h)]
  -- the larval rule
  have e2 : ∀ q : Dev.Eel α, q.stage ≤ (Dev.larvaDevelop temp dt q).stage := by
    intro q
    by_cases h : 1 ≤ q.stage ∧ q.stage < 2
    · have : (Dev.larvaDevelop temp dt q).stage = Gen.sandeel_larval_stage temp q.stage dt := by
        unfold Dev.larvaDevelop
        have : (1.0 : α) ≤ q.stage ∧ q.stage < 2.0 := by norm_num; exact h
        simp only [this, and_self, if_true]
      rw [this]
      exact larval_stage_le hE hR temp q.stage dt h.1 h.2 hdt
    · rw [C09.larva_noop_on_others temp dt q (by
        rcases not_and_or.mp h with h' | h'
        · exact Or.inl (not_le.mp h')
        · exact Or.inr (not_lt.mp h'))]
  refine ⟨le_trans e1 (e2 _), ?_, ?_⟩
  · intro hday h2
    -- after the egg rule: the flag says "stage ≥ 1" and the stage is still below 2
    have hq : (Dev.eggDevelop days dt p).stage < 2 ∧
        ((Dev.eggDevelop days dt p).stage < 1 → (Dev.eggDevelop days dt p).active = false) := by
      by_cases h : p.stage < 1
      · have hinc : dt / (days * 86400) ≤ 1 := by
          rw [div_le_one (by positivity)]
          nlinarith
        refine ⟨by rw [C09.egg_rate days dt p h]; linarith, fun hlt => ?_⟩
        cases ha : (Dev.eggDevelop days dt p).active with
        | false => rfl
        | true => exact absurd ((C09.egg_activates_iff days dt p h).mp ha) (not_le.mpr hlt)
      · rw [C09.egg_noop_on_others _ _ p (not_lt.mp h)]
        exact ⟨h2, fun hlt => absurd hlt h⟩
    set q := Dev.eggDevelop days dt p
    by_cases h1 : 1 ≤ q.stage
    · rw [C09.larva_deactivates_iff temp dt q h1 hq.1]
      exact ⟨fun h => ⟨le_trans h1 (e2 q), h⟩, fun h => h.2⟩
    · rw [C09.larva_noop_on_others temp dt q (Or.inl (not_le.mp h1)), hq.2 (not_le.mp h1)]
      simp [h1]
  · intro h2
    rw [C09.egg_noop_on_others _ _ p (le_trans (by norm_num) h2), C09.larva_noop_on_others temp dt p (Or.inr h2)]

/-- **sand eel `update_ibm`** (interpretation of `Gen.sandeel_update_seq`, every call running the callee's generated
sequence), for hatch rates in `[0, 1]`, every temperature (bottom and in situ) and every `dt ≥ 0`: the update finishes and
* the stage does not decrease;
* for steps of at most one day, a particle that has not completed development (`stage < 2`) is active afterwards iff
  `1 ≤ stage < 2` — eggs start drifting exactly when their stage reaches 1 and larvae stop exactly when it reaches 2
  (with a step so long that an egg passes both thresholds at once the flag would stay set: the larval rule is not applied
  to a stage ≥ 2);
* a particle that has completed development (`stage ≥ 2`) keeps stage and flag; `X`, `Y` are untouched; the hatch
  rate afterwards is in `[0, 1]` again.
Laws: `exp > 0`, `x ** y > 0` for `x > 0`.
Forced by the bridge: `hspl` — evaluation of `RectBivariateSpline` is a parameter `mk` of the interpretation, assumed
to be the quadratic-by-linear interpolant of the published table; `hh` — the module-level `hatch_time` is what
`get_hatch_time_func()` (interpretation of `Gen.sandeel_hatch_time_func_seq`) returns; two random numbers in the supply
(`u` is used as the hatch rate iff `hatch_rate == 0`: hence `hu0`, `hu1` — `np.random.rand` is in `[0, 1)`). -/
theorem c09_sandeel_update [HasRound α] [HasTrunc α] (hE : ExpLaws α) (hR : RpowLaws α) (e : SandeelEnv α)
    (mk : List α → List α → List (List α) → Nat → Nat → α → α → α)
    (hspl : mk [0.0, 0.5, 1.0] [2.0, 4.0, 7.0, 10.0]
      [[61.0, 51.0, 39.0, 25.0], [82.0, 67.0, 48.0, 30.0], [135.0, 116.0, 82.0, 55.0]] 2 1 = sandeelSplineClosed)
    (hh : sandeelHatchFuncRun mk = some (some e.hatchTime))
    (x y z stage hr : α) (active : Bool) (u xi : α) (rest : List α)
    (hr0 : 0 ≤ hr) (hr1 : hr ≤ 1) (hu0 : 0 ≤ u) (hu1 : u ≤ 1) (hdt : 0 ≤ e.dt) :
    ∃ s, sandeelUpdateRun e x y z stage hr active (u :: xi :: rest) = some (some s) ∧
      stage ≤ s.stage ∧
      (e.dt ≤ 86400 → stage < 2 → (s.active = true ↔ 1 ≤ s.stage ∧ s.stage < 2)) ∧
      (2 ≤ stage → s.stage = stage ∧ s.active = active) ∧
      s.x = x ∧ s.y = y ∧ 0 ≤ s.hatchRate ∧ s.hatchRate ≤ 1 := by
  obtain ⟨s, hs, hp⟩ := of_map_map (Bridge.sandeel_update_seq e mk hspl hh x y z stage hr active u xi rest)
  dsimp only at hp
  obtain ⟨hx, hp⟩ := Prod.mk.inj hp
  obtain ⟨hy, hp⟩ := Prod.mk.inj hp
  obtain ⟨_, hp⟩ := Prod.mk.inj hp
  obtain ⟨hp, hp5⟩ := Prod.mk.inj hp
  have hrate := (Prod.mk.inj hp5).1
  have hr' : 0 ≤ (if Bio.isZeroS hr then u else hr) ∧ (if Bio.isZeroS hr then u else hr) ≤ 1 := by
    split_ifs <;> exact ⟨by assumption, by assumption⟩
  obtain ⟨f1, f2, f3⟩ := sandeelDevelop_facts hE hR
    (e.bottomTemp (trunc (round (y - e.j0))) (trunc (round (x - e.i0)))) (e.fieldTemp x y z)
    (if Bio.isZeroS hr then u else hr) e.dt ⟨stage, active⟩ hr'.1 hr'.2 hdt
  rw [← hp] at f1 f2 f3
  refine ⟨s, hs, f1, f2, fun h => ?_, hx, hy, by rw [hrate]; exact hr'.1, by rw [hrate]; exact hr'.2⟩
  have := f3 h
  exact ⟨congrArg Dev.Eel.stage this, congrArg Dev.Eel.active this⟩

/-- sand eel: the spline evaluator is the closed form, `hatch_time` is what the interpreted `get_hatch_time_func` returns -/
private noncomputable def exEelEnv : SandeelEnv ℝ :=
  ⟨0.001, 3600, 50, 1, 1, fun _ _ => 7, fun _ _ _ => 9, fun _ _ => 40, fun r t => some (some (Dev.hatchTime r t)), false⟩

example : ∃ s, sandeelUpdateRun exEelEnv 10 20 5 0.5 0 false ((0.3 : ℝ) :: 0.7 :: []) = some (some s) ∧
    0.5 ≤ s.stage ∧ (s.active = true ↔ 1 ≤ s.stage ∧ s.stage < 2) := by
  obtain ⟨s, h, hm, ha, _⟩ := c09_sandeel_update RealInst.expLaws RealInst.rpowLaws exEelEnv
    (fun _ _ _ _ _ => sandeelSplineClosed) rfl (Bridge.sandeel_hatch_time_is_model _ rfl)
    10 20 5 0.5 0 false 0.3 0.7 [] (le_refl _) (by norm_num) (by norm_num) (by norm_num) (by norm_num [exEelEnv])
  exact ⟨s, h, hm, ha (by norm_num [exEelEnv]) (by norm_num)⟩

/-- **sand eel, any history** of interpreted updates — every step with its own attributes and forcing (`dt ≥ 0`, the
module-level `hatch_time` as in `c09_sandeel_update`), its own position `(X, Y, Z)` (the particle is moved between the
calls), and its own pair of random numbers (the first one in `[0, 1]`): the history finishes and the stage at the end
is not below the stage at the start.  Hypotheses as in `c09_sandeel_update`. -/
theorem c09_sandeel_history [HasRound α] [HasTrunc α] (hE : ExpLaws α) (hR : RpowLaws α)
    (mk : List α → List α → List (List α) → Nat → Nat → α → α → α)
    (hspl : mk [0.0, 0.5, 1.0] [2.0, 4.0, 7.0, 10.0]
      [[61.0, 51.0, 39.0, 25.0], [82.0, 67.0, 48.0, 30.0], [135.0, 116.0, 82.0, 55.0]] 2 1 = sandeelSplineClosed)
    (steps : List (SandeelEnv α × α × α × α × α × α))
    (hsteps : ∀ i ∈ steps, sandeelHatchFuncRun mk = some (some i.1.hatchTime) ∧ 0 ≤ i.1.dt ∧
      0 ≤ i.2.2.2.2.1 ∧ i.2.2.2.2.1 ≤ 1)
    (s₀ : SandeelSt α) (hr0 : 0 ≤ s₀.hatchRate) (hr1 : s₀.hatchRate ≤ 1) :
    ∃ s, steps.foldlM (fun s i =>
          (sandeelUpdateRun i.1 i.2.1 i.2.2.1 i.2.2.2.1 s.stage s.hatchRate s.active [i.2.2.2.2.1, i.2.2.2.2.2]).join) s₀
        = some s ∧ s₀.stage ≤ s.stage := by
  obtain ⟨s, h, _, hm⟩ := c09_monotone_history (fun s : SandeelSt α => s.stage)
    (fun s => 0 ≤ s.hatchRate ∧ s.hatchRate ≤ 1) (fun s i =>
      (sandeelUpdateRun i.1 i.2.1 i.2.2.1 i.2.2.2.1 s.stage s.hatchRate s.active [i.2.2.2.2.1, i.2.2.2.2.2]).join)
    steps (fun s hs i hi => by
      obtain ⟨hh, hdt, hu0, hu1⟩ := hsteps i hi
      obtain ⟨s', h, hm, _, _, _, _, h0, h1⟩ := c09_sandeel_update hE hR i.1 mk hspl hh i.2.1 i.2.2.1 i.2.2.2.1 s.stage
        s.hatchRate s.active i.2.2.2.2.1 i.2.2.2.2.2 [] hs.1 hs.2 hu0 hu1 hdt
      exact ⟨s', by show Option.join _ = _; rw [h]; rfl, ⟨h0, h1⟩, hm⟩) s₀ ⟨hr0, hr1⟩
  exact ⟨s, h, hm⟩

/-- two updates of an egg, moved in between -/
example : ∃ s, [(exEelEnv, (10 : ℝ), (20 : ℝ), (5 : ℝ), (0.3 : ℝ), (0.7 : ℝ)), (exEelEnv, 11, 20, 6, 0.9, -0.2)].foldlM
      (fun s i => (sandeelUpdateRun i.1 i.2.1 i.2.2.1 i.2.2.2.1 s.stage s.hatchRate s.active
        [i.2.2.2.2.1, i.2.2.2.2.2]).join) (⟨10, 20, 5, 0.5, 0, false, none, ⟨[], []⟩⟩ : SandeelSt ℝ) = some s ∧
    0.5 ≤ s.stage :=
  c09_sandeel_history RealInst.expLaws RealInst.rpowLaws (fun _ _ _ _ _ => sandeelSplineClosed) rfl _
    (by
      intro i hi
      simp only [List.mem_cons, List.not_mem_nil, or_false] at hi
      rcases hi with rfl | rfl <;>
        exact ⟨Bridge.sandeel_hatch_time_is_model _ rfl, by norm_num [exEelEnv], by norm_num, by norm_num⟩)
    _ (le_refl _) (by norm_num)

/-! ### shrimp -/

private theorem shrimp_facts (T dt stage : α) :
    let s1 := Bio.shrimpStage T dt stage
    1 ≤ s1 ∧ s1 ≤ 6 ∧ (decide (s1 < 6.0) = true ↔ s1 < 6) ∧
    (0 ≤ dt → stage ≤ 6 → stage ≤ s1) ∧
    (0 ≤ dt → 1 ≤ stage → stage + Gen.shrimp_delta_stage T dt ≤ 6 → s1 = stage + Gen.shrimp_delta_stage T dt) ∧
    Dev.shrimpLength s1 = interp [1.0, 2.0, 3.0, 4.0, 5.0, 6.0] [6.371, 7.48, 9.144, 11.433, 12.088, 13.175] s1 ∧
    (s1 = 1 → Dev.shrimpLength s1 = some 6.371) ∧ (s1 = 2 → Dev.shrimpLength s1 = some 7.48) ∧
    (s1 = 3 → Dev.shrimpLength s1 = some 9.144) ∧ (s1 = 4 → Dev.shrimpLength s1 = some 11.433) ∧
    (s1 = 5 → Dev.shrimpLength s1 = some 12.088) ∧ (s1 = 6 → Dev.shrimpLength s1 = some 13.175) := by
  intro s1
  have h6 : (6.0 : α) = 6 := by norm_num
  have h748 : (7.480 : α) = 7.48 := by norm_num
  have tab := C09.shrimp_length_table (α := α)
  refine ⟨(C09.shrimp_stage_range T dt stage).1, (C09.shrimp_stage_range T dt stage).2, by rw [h6]; simp,
    fun hdt h => C09.shrimp_stage_monotone T dt stage hdt h,
    fun hdt h1 h => C09.shrimp_stage_rate T dt stage h1 h hdt, by unfold Dev.shrimpLength; rw [h748],
    fun h => by rw [h]; exact tab.1, fun h => by rw [h, tab.2.1, h748], fun h => by rw [h]; exact tab.2.2.1,
    fun h => by rw [h]; exact tab.2.2.2.1, fun h => by rw [h]; exact tab.2.2.2.2.1,
    fun h => by rw [h]; exact tab.2.2.2.2.2⟩

/-- **shrimp `growth`** (interpretation of `Gen.shrimp_growth_seq`).  The method finishes and, with `T = state['temp']`,
* the age has advanced by exactly `dt / 86400` days (C07);
* the new stage is within `[1, 6]`; it is not below the old one for every temperature and `dt ≥ 0` (for a stage that is
  not already above 6); below the cap it is the old stage plus the published rate times the step,
  `Gen.shrimp_delta_stage T dt = dt/86400 · T' / (α + β·T')` with `T'` = `T` clipped to `[3, 8]`;
* `active` afterwards iff the new stage is below 6;
* `length` is `np.interp` of the NEW stage in the published table — the tabulated value at the stages 1 … 6.
Forced by the bridge: `hT` — the state has the variable `temp` (`update_ibm` calls `update_ibm_forcing` first; without
it the method raises, `Bridge.shrimp_growth_raises`). -/
theorem c09_shrimp_growth (dt T : α) (p : Shrimp α) (hT : p.temp = some T) :
    ∃ q, shrimpGrowRun dt p = some (some q) ∧
      q.age = p.age + dt / 86400 ∧
      1 ≤ q.stage ∧ q.stage ≤ 6 ∧
      (q.active = true ↔ q.stage < 6) ∧
      (0 ≤ dt → p.stage ≤ 6 → p.stage ≤ q.stage) ∧
      (0 ≤ dt → 1 ≤ p.stage → p.stage + Gen.shrimp_delta_stage T dt ≤ 6 →
        q.stage = p.stage + Gen.shrimp_delta_stage T dt) ∧
      q.length = interp [1.0, 2.0, 3.0, 4.0, 5.0, 6.0] [6.371, 7.48, 9.144, 11.433, 12.088, 13.175] q.stage ∧
      (q.stage = 1 → q.length = some 6.371) ∧ (q.stage = 2 → q.length = some 7.48) ∧
      (q.stage = 3 → q.length = some 9.144) ∧ (q.stage = 4 → q.length = some 11.433) ∧
      (q.stage = 5 → q.length = some 12.088) ∧ (q.stage = 6 → q.length = some 13.175) := by
  refine ⟨_, Bridge.shrimp_growth_seq dt T p hT, ?_, ?_⟩
  · show p.age + Gen.shrimp_delta_age T dt = _
    rw [C07.shrimp_age_advance]
  · exact shrimp_facts T dt p.stage

private def exShrimp : Shrimp ℚ := ⟨10, 20, 30, 2, 12, 0.4, true, some 5, none, none⟩

example : ∃ q, shrimpGrowRun (600 : ℚ) exShrimp = some (some q) ∧ q.age = 12 + 600 / 86400 ∧ 2 ≤ q.stage ∧
    q.stage ≤ 6 := by
  obtain ⟨q, h, ha, _, h6, _, hm, _⟩ := c09_shrimp_growth (600 : ℚ) 5 exShrimp rfl
  exact ⟨q, h, ha, hm (by norm_num) (by norm_num [exShrimp]), h6⟩

/-- **shrimp `update_ibm`** (interpretation of `Gen.shrimp_update_seq`, every call running the callee's generated
sequence): the update finishes and, with `T` = the temperature at the old position, the particle afterwards has
* age advanced by exactly `dt / 86400` days;
* stage within `[1, 6]`, not below the old one (for every temperature, `dt ≥ 0`, old stage ≤ 6; an uninitialised stage
  `0` is first set to `1`), and equal to the old stage plus `Gen.shrimp_delta_stage T dt` below the cap (for an
  initialised particle, `1 ≤ stage`);
* `active` iff the new stage is below 6;
* `length` = `np.interp` of the new stage in the published table.
Forced by the bridge: `h0 … h5` — the six stage tables of the configuration have an entry at the index
`min(5, int(stage)) - 1` of the stage AFTER growth (`Bridge.shrimpStageAfter`; true for tables with five entries,
`Bridge.shrimp_table_read`; otherwise `IndexError`); two random numbers in the supply. -/
theorem c09_shrimp_update [HasTrunc α] {τ : Type} (e : ShrimpEnv α τ) (p : Shrimp α) (u xi : α) (rest : List α)
    (vm speed maxDay maxNgh minDay minNgh : α)
    (h0 : npIndex e.vertMix (shrimpIntStage (Bridge.shrimpStageAfter e p)) = some vm)
    (h1 : npIndex e.vertSpeed (shrimpIntStage (Bridge.shrimpStageAfter e p)) = some speed)
    (h2 : npIndex e.maxDay (shrimpIntStage (Bridge.shrimpStageAfter e p)) = some maxDay)
    (h3 : npIndex e.maxNgh (shrimpIntStage (Bridge.shrimpStageAfter e p)) = some maxNgh)
    (h4 : npIndex e.minDay (shrimpIntStage (Bridge.shrimpStageAfter e p)) = some minDay)
    (h5 : npIndex e.minNgh (shrimpIntStage (Bridge.shrimpStageAfter e p)) = some minNgh) :
    ∃ s, shrimpUpdateRun e p (u :: xi :: rest) = some (some s) ∧
      s.p.age = p.age + e.dt / 86400 ∧
      1 ≤ s.p.stage ∧ s.p.stage ≤ 6 ∧
      (s.p.active = true ↔ s.p.stage < 6) ∧
      (0 ≤ e.dt → p.stage ≤ 6 → p.stage ≤ s.p.stage) ∧
      (0 ≤ e.dt → 1 ≤ p.stage → p.stage + Gen.shrimp_delta_stage (e.fieldTemp p.x p.y p.z) e.dt ≤ 6 →
        s.p.stage = p.stage + Gen.shrimp_delta_stage (e.fieldTemp p.x p.y p.z) e.dt) ∧
      s.p.length = interp [1.0, 2.0, 3.0, 4.0, 5.0, 6.0] [6.371, 7.48, 9.144, 11.433, 12.088, 13.175] s.p.stage := by
  obtain ⟨s, hs, hp⟩ := of_map_map (Bridge.shrimp_update_seq e p u xi rest vm speed maxDay maxNgh minDay minNgh
    h0 h1 h2 h3 h4 h5)
  have hp := (Prod.mk.inj hp).1
  have h10 : (1.0 : α) = 1 := by norm_num
  have h00 : (0.0 : α) = 0 := by norm_num
  obtain ⟨g1, g2, g3, g4, g5, g6, _⟩ := shrimp_facts (e.fieldTemp p.x p.y p.z) e.dt
    (if Bio.isZeroS p.stage then 1.0 else p.stage)
  refine ⟨s, hs, ?_, ?_, ?_, ?_, ?_, ?_, ?_⟩ <;> rw [hp] <;> try dsimp only [Bridge.shrimpStageAfter]
  · rw [C07.shrimp_age_advance]
  · exact g1
  · exact g2
  · exact g3
  · intro hdt h6
    by_cases hz : Bio.isZeroS p.stage = true
    · have : p.stage = 0 := by
        simp only [Bio.isZeroS, h00, Bool.not_eq_true', Bool.or_eq_false_iff, decide_eq_false_iff_not, not_lt] at hz
        exact le_antisymm hz.2 hz.1
      have h01 : p.stage ≤ 1 := by rw [this]; norm_num
      exact le_trans h01 g1
    · simp only [hz] at g4 ⊢
      exact g4 hdt h6
  · intro hdt h1' h6
    have hz : Bio.isZeroS p.stage = false := by
      simp only [Bio.isZeroS, h00, Bool.not_eq_false', Bool.or_eq_true, decide_eq_true_eq]
      exact Or.inr (lt_of_lt_of_le (by norm_num) h1')
    simp only [hz] at g5 ⊢
    exact g5 hdt h1' h6
  · exact g6

private def exShrimpEnv : ShrimpEnv ℚ Unit :=
  ⟨[0.01, 0.02, 0.03, 0.04, 0.05], [0.001, 0.002, 0.003, 0.004, 0.005], [100, 110, 120, 130, 140],
    [50, 55, 60, 65, 70], [40, 45, 50, 55, 60], [10, 15, 20, 25, 30], 600, fun _ _ _ => 5, fun _ _ _ => 34,
    fun x y => (x, y), true, (), (), fun _ => (100, 12), false⟩

private theorem exStage : shrimpIntStage (Bridge.shrimpStageAfter exShrimpEnv exShrimp) = 1 := by
  have h : (⌊Bridge.shrimpStageAfter exShrimpEnv exShrimp⌋ : ℤ) = 2 := by
    rw [Int.floor_eq_iff]
    norm_num [Bridge.shrimpStageAfter, Bio.shrimpStage, Bio.npClip, Bio.isZeroS, Gen.shrimp_delta_stage, fmin, fmax,
      exShrimpEnv, exShrimp]
  show min 5 (⌊Bridge.shrimpStageAfter exShrimpEnv exShrimp⌋ : ℤ) - 1 = 1
  rw [h]; rfl

/-- shrimp: five-entry tables, stage 2 (after growth `⌊stage⌋ = 2`: every table is read at index 1) -/
example : ∃ s, shrimpUpdateRun exShrimpEnv exShrimp ((0.3 : ℚ) :: 0.7 :: []) = some (some s) ∧
    s.p.age = 12 + 600 / 86400 ∧ 2 ≤ s.p.stage ∧ (s.p.active = true ↔ s.p.stage < 6) := by
  obtain ⟨s, h, ha, _, _, hact, hm, _⟩ := c09_shrimp_update exShrimpEnv exShrimp 0.3 0.7 [] 0.02 0.002 110 55 45 15
    (by rw [exStage]; rfl) (by rw [exStage]; rfl) (by rw [exStage]; rfl) (by rw [exStage]; rfl) (by rw [exStage]; rfl)
    (by rw [exStage]; rfl)
  exact ⟨s, h, ha, hm (by norm_num [exShrimpEnv]) (by norm_num [exShrimp]), hact⟩

/-- **shrimp `update_ibm` for a valid configuration**: the table hypotheses of `c09_shrimp_update` hold when each of
the six stage tables has (at least) the five entries of the pelagic stages, given the law `1 ≤ s → 1 ≤ int(s)` of
truncation (`htr`): the stage after growth is at least 1.  Conclusions as in `c09_shrimp_update`. -/
theorem c09_shrimp_update_tables [HasTrunc α] {τ : Type} (htr : ∀ s : α, 1 ≤ s → 1 ≤ trunc s) (e : ShrimpEnv α τ)
    (hl : 5 ≤ e.vertMix.length ∧ 5 ≤ e.vertSpeed.length ∧ 5 ≤ e.maxDay.length ∧ 5 ≤ e.maxNgh.length ∧
      5 ≤ e.minDay.length ∧ 5 ≤ e.minNgh.length) (p : Shrimp α) (u xi : α) (rest : List α) :
    ∃ s, shrimpUpdateRun e p (u :: xi :: rest) = some (some s) ∧
      s.p.age = p.age + e.dt / 86400 ∧
      1 ≤ s.p.stage ∧ s.p.stage ≤ 6 ∧
      (s.p.active = true ↔ s.p.stage < 6) ∧
      (0 ≤ e.dt → p.stage ≤ 6 → p.stage ≤ s.p.stage) ∧
      (0 ≤ e.dt → 1 ≤ p.stage → p.stage + Gen.shrimp_delta_stage (e.fieldTemp p.x p.y p.z) e.dt ≤ 6 →
        s.p.stage = p.stage + Gen.shrimp_delta_stage (e.fieldTemp p.x p.y p.z) e.dt) ∧
      s.p.length = interp [1.0, 2.0, 3.0, 4.0, 5.0, 6.0] [6.371, 7.48, 9.144, 11.433, 12.088, 13.175] s.p.stage := by
  have h1 : 1 ≤ trunc (Bridge.shrimpStageAfter e p) := htr _ (C09.shrimp_stage_range _ _ _).1
  obtain ⟨vm, h0⟩ := Bridge.shrimp_table_read e.vertMix hl.1 _ h1
  obtain ⟨sp, h1'⟩ := Bridge.shrimp_table_read e.vertSpeed hl.2.1 _ h1
  obtain ⟨a, h2⟩ := Bridge.shrimp_table_read e.maxDay hl.2.2.1 _ h1
  obtain ⟨b, h3⟩ := Bridge.shrimp_table_read e.maxNgh hl.2.2.2.1 _ h1
  obtain ⟨c, h4⟩ := Bridge.shrimp_table_read e.minDay hl.2.2.2.2.1 _ h1
  obtain ⟨d, h5⟩ := Bridge.shrimp_table_read e.minNgh hl.2.2.2.2.2 _ h1
  exact c09_shrimp_update e p u xi rest vm sp a b c d h0 h1' h2 h3 h4 h5

/-- **shrimp, any history** of interpreted updates — every step with its own attributes and forcing (`dt ≥ 0`, tables
with five entries), its own position `(X, Y, Z)` and its own pair of random numbers: for a particle with stage at most 6
the history finishes (no table read fails), the stage at the end is at most 6 and not below the stage at the start. -/
theorem c09_shrimp_history [HasTrunc α] {τ : Type} (htr : ∀ s : α, 1 ≤ s → 1 ≤ trunc s)
    (steps : List (ShrimpEnv α τ × α × α × α × α × α))
    (hsteps : ∀ i ∈ steps, 0 ≤ i.1.dt ∧ 5 ≤ i.1.vertMix.length ∧ 5 ≤ i.1.vertSpeed.length ∧ 5 ≤ i.1.maxDay.length ∧
      5 ≤ i.1.maxNgh.length ∧ 5 ≤ i.1.minDay.length ∧ 5 ≤ i.1.minNgh.length)
    (p : Shrimp α) (h6 : p.stage ≤ 6) :
    ∃ q, steps.foldlM (fun p i =>
          ((shrimpUpdateRun i.1 { p with x := i.2.1, y := i.2.2.1, z := i.2.2.2.1 } [i.2.2.2.2.1, i.2.2.2.2.2]).join).map
            fun s => s.p) p = some q ∧ q.stage ≤ 6 ∧ p.stage ≤ q.stage :=
  c09_monotone_history (fun p : Shrimp α => p.stage) (fun p => p.stage ≤ 6) _ steps (fun p hp i hi => by
    obtain ⟨hdt, hl⟩ := hsteps i hi
    obtain ⟨s, h, _, _, h6', _, hm, _⟩ := c09_shrimp_update_tables htr i.1 hl
      { p with x := i.2.1, y := i.2.2.1, z := i.2.2.2.1 } i.2.2.2.2.1 i.2.2.2.2.2 []
    exact ⟨s.p, by show Option.map _ (Option.join _) = _; rw [h]; rfl, h6', hm hdt hp⟩) p h6

private theorem exTruncLaw : ∀ s : ℚ, 1 ≤ s → 1 ≤ trunc s := fun s h => Int.le_floor.mpr (by simpa using h)

/-- two updates with the five-entry tables of `exShrimpEnv` -/
example : ∃ q, [(exShrimpEnv, (10 : ℚ), (20 : ℚ), (30 : ℚ), (0.3 : ℚ), (0.7 : ℚ)), (exShrimpEnv, 11, 20, 35, 0.9, -0.2)].foldlM
      (fun p i => ((shrimpUpdateRun i.1 { p with x := i.2.1, y := i.2.2.1, z := i.2.2.2.1 }
        [i.2.2.2.2.1, i.2.2.2.2.2]).join).map fun s => s.p) exShrimp = some q ∧ q.stage ≤ 6 ∧ 2 ≤ q.stage :=
  c09_shrimp_history exTruncLaw _
    (by
      intro i hi
      simp only [List.mem_cons, List.not_mem_nil, or_false] at hi
      rcases hi with rfl | rfl <;> simp [exShrimpEnv])
    exShrimp (by norm_num [exShrimp])

end dev
end OnCode
