import LadimProofs.C04
import LadimProofs.Bridge.Attr
/-!
# C04 — property theorems stated for the generated code

`Gen.rel_exponential` / `Gen.rel_gaussian` are the clipping statements of `get_distribution`, translated from /repo's
current source on every run.
-/
open Ladim

set_option linter.unusedSectionVars false
set_option linter.unusedVariables false
namespace OnCode
variable {α : Type} [Field α] [LinearOrder α] [IsStrictOrderedRing α]

/-- exponential attribute values lie in `[0, max]` for every draw -/
theorem exponential_bounds (mean e mx : α) (hm : 0 ≤ mean) (he : 0 ≤ e) (hmx : 0 ≤ mx) :
    0 ≤ Gen.rel_exponential (mean * e) mx ∧ Gen.rel_exponential (mean * e) mx ≤ mx := by
  rw [← Bridge.rel_exponential]
  have h := C04.exponential_bounds mean e (some mx) hm he (by intro b hb; cases hb; exact hmx)
  exact ⟨h.1, h.2 mx rfl⟩

/-- gaussian attribute values never exceed `max`, for every draw and either argument order of the clip (the lower
bound is known finding F-C04a for the order the code uses) -/
theorem gaussian_upper (r mn mx : α) (h : mn ≤ mx) : Gen.rel_gaussian r mn mx ≤ mx := by
  rcases Bridge.rel_gaussian (α := α) 0 0 mn mx 0 with hg | hg <;> rw [hg] <;>
    simp only [fmin, fmax] <;> split_ifs <;> linarith

end OnCode
