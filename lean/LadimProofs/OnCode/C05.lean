import LadimProofs.C05
import LadimProofs.Bridge.Mixing
import LadimProofs.Bridge.Band
import LadimProofs.Bridge.SinkBury
/-!
# C05 — property theorems stated for the generated code

Each statement below is a property theorem of C05 / C07 / C08 / C16 with the hand-written model function replaced by
the window translated from /repo's current source (`Ladim.Gen.*`), obtained by rewriting with the bridge equalities.
Nothing hand-written stands between these statements and the source except the translator.
-/
open Ladim

set_option linter.unusedSectionVars false
set_option linter.unusedVariables false
namespace OnCode
variable {α : Type} [Field α] [LinearOrder α] [IsStrictOrderedRing α]
  [HasSqrt α] [HasExp α] [HasLog α] [HasSin α] [HasCos α] [HasAsin α] [HasRpow α] [HasPi α] [HasRound α] [HasFloor α]

/-! ## C05 — depth bands, for every displacement (every draw, every forcing value) -/

/-- salmon lice: `Z += W*dt ; Z[Z<0] *= -1 ; Z[Z>=20] = 19` ends in `[0, 20)` -/
theorem lice_band (z W dt : α) : 0 ≤ Gen.lice_Z z W dt ∧ Gen.lice_Z z W dt < 20 := by
  rw [← Bridge.lice_Z]
  have := C05.mirrorCap_band (20.0 : α) 19.0 (z + W * dt) (by norm_num) (by norm_num)
  norm_num at this ⊢
  exact this

/-- egg: ends in `[0, 200)` -/
theorem egg_band (z W dt : α) : 0 ≤ Gen.egg_Z z W dt ∧ Gen.egg_Z z W dt < 200 := by
  rw [← Bridge.egg_Z]
  have := C05.mirrorCap_band (200.0 : α) 199.0 (z + W * dt) (by norm_num) (by norm_num)
  norm_num at this ⊢
  exact this

/-- larvae: ends in `[min_depth, max_depth]` -/
theorem larvae_band (z W dt lo hi : α) (h : lo ≤ hi) :
    lo ≤ Gen.larvae_Z z W dt lo hi ∧ Gen.larvae_Z z W dt lo hi ≤ hi := by
  rw [← Bridge.larvae_Z]
  exact C05.clipDepth_band lo hi _ h

/-- saithe: larvae end in `[min_depth, max_depth]`, eggs at or below the surface -/
theorem saithe_band (z W dt lo hi : α) (h : lo ≤ hi) :
    (lo ≤ Gen.saithe_Z z W dt lo hi false ∧ Gen.saithe_Z z W dt lo hi false ≤ hi) ∧ 0 ≤ Gen.saithe_Z z W dt lo hi true := by
  rw [← Bridge.saithe_Z, ← Bridge.saithe_Z]
  refine ⟨C05.npClip_band lo hi _ h, ?_⟩
  simp only [if_true, fmax]
  lits
  split_ifs <;> linarith

/-- chemicals `reflect`: one reflection brings every depth within one water depth of the band into the band -/
theorem chem_reflect_band (H z : α) (h1 : -H ≤ z) (h2 : z ≤ 2 * H) :
    0 ≤ Gen.chem_reflect z H ∧ Gen.chem_reflect z H ≤ H := by
  rw [← Bridge.chem_reflect]
  exact C05.reflect_band H z h1 h2

/-- chemicals `clamp_to_seabed`: never below the bed, never moved upwards past the surface -/
theorem chem_clamp_band (H z : α) (hH : 0 ≤ H) (hz : 0 ≤ z) : 0 ≤ Gen.chem_clamp z H ∧ Gen.chem_clamp z H ≤ H := by
  simp only [Gen.chem_clamp, fmin]
  split_ifs <;> constructor <;> linarith

/-- sedimentation / mine `bury`: an active particle ends at or above the bed -/
theorem sed_bury_le (H z : α) : (Gen.sed_bury z H).1 ≤ H ∧ (Gen.mine_bury z H).1 ≤ H := by
  have h1 := C05.bury_le_H H z 1 (by norm_num)
  have h2 := h1
  rw [Bridge.sed_bury] at h1
  rw [Bridge.mine_bury] at h2
  simpa using And.intro h1 h2

/-- mine and shrimp mixing, sedimentation bounded-linear mixing: never above the surface -/
theorem mix_nonneg (vdiff vertmix maxDiff h us dt xi z : α) (hh : 0 ≤ h) :
    0 ≤ Gen.mine_mix z vdiff dt xi ∧ 0 ≤ Gen.shrimp_mix z vertmix dt xi ∧
    0 ≤ Gen.sed_mix_bounded_linear z h dt (Gen.sed_turbulence us (fmax (h - z) 0.0) maxDiff).1
          (Gen.sed_turbulence us (fmax (h - z) 0.0) maxDiff).2 xi := by
  refine ⟨?_, ?_, ?_⟩
  · rw [← Bridge.mine_mix]; exact C05.mixMine_nonneg _ _ _ _
  · rw [← Bridge.shrimp_mix]; exact C05.shrimpMix_nonneg _ _ _ _
  · rw [← Bridge.sed_mix_bounded_linear]; exact C05.mixBoundedLinear_nonneg _ _ _ _ _ _ hh

/-- sand eel / eel `reflexive`: inside `[rmin, rmax]` whatever the displacement -/
theorem reflexive_band (lo hi r : α) (h : lo ≤ hi) :
    (lo ≤ Gen.sandeel_reflexive r lo hi ∧ Gen.sandeel_reflexive r lo hi ≤ hi) ∧
    (lo ≤ Gen.eel_reflexive r lo hi ∧ Gen.eel_reflexive r lo hi ≤ hi) := by
  rw [← Bridge.sandeel_reflexive, ← Bridge.eel_reflexive]
  exact ⟨C05.reflexive_band lo hi r h, C05.reflexive_band lo hi r h⟩

end OnCode
