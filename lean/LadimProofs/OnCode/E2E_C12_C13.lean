import LadimProofs.Bridge.FjordIbmSeq
import LadimProofs.Bridge.Nk800ClsSeq
import LadimProofs.Bridge.BioSeq
import Mathlib.Data.Fintype.Card
import Mathlib.Data.Fintype.Prod
import Mathlib.Data.Rat.Floor
/-!
# C12, C13 — the property's clauses stated and proved about the INTERPRETATION OF THE CURRENT SOURCE

**Property C12 — The fish velocity field leads every reachable sea cell to the open ocean.**
STATEMENT: The fjord index of every sea cell equals the length of its shortest four-connected sea path to the open-ocean region (cells farther than the configured distance from land); land cells are obstacles and basins without such a path stay unknown. Following the fish velocity field from any reachable sea cell, in the grid coordinates the tracker uses, lowers the index by one per cell, never enters land or leaves the grid, and ends in the ocean, where the velocity is zero and the fish is retired.
QUANTIFIER: all land/sea masks (exhaustively for small grids, randomly for larger ones), all ocean distances, all start cells

**Property C13 — NorKyst-800 forcing: right time weights, transparent cache, valid grid metrics.**
STATEMENT: Currents returned for time t are the linear interpolation between the hourly fields that bracket t and equal the stored field at whole hours, and fields come from the file of the requested day and hour regardless of which times were requested before. Every position the grid reports as inside yields finite cell sizes and a depth, lon/lat to grid conversion matches the file's own coordinate arrays, and depth to level conversion is monotone and exact at the tabulated depths.
QUANTIFIER: all times within the available files (whole hours, any fraction, crossing hours and days), all sub-step fractions used by the integrators, all request histories (forward, repeated, back-and-forth), all in-grid positions including the outermost cells

Every `c12_…` / `c13_…` theorem below has the interpretation of the generated statement sequences (`Gen.vps_*_seq`,
`Gen.nk_*_seq`, run by the interpreters of `LadimModel/Grid/{FjordSeq,FjordIbmSeq}.lean`,
`LadimModel/Forcing/{Nk800Seq,Nk800ClsSeq}.lean`, `LadimModel/IBM/BioSeq.lean`) or the generated formula
`Gen.nk_interp` as its subject; the bridges (`LadimProofs/Bridge/*.lean`) and the model theorems (`LadimProofs/C12*.lean`,
`C13*.lean`) are used as lemmas only.  The specification side is written with notions defined here from the inputs
alone (`OceanCell`, `SeaPath`, `ShortestSeaPath`, `fishTrajectory`, `LiveEntries`, `nkRunHistory`), not with the
functions of the hand-written model.

C12 (`vps/ibm.py`, `vps/gridforce.py`; scipy's `generic_filter` / `binary_dilation` are the reference instances
`fiGenericFilterRef` / `fiBinaryDilationRef` of the interpreter):
* `c12_fjord_index_is_shortest_sea_path` — clause 1, full strength (new here: the open-ocean region characterised by
  the taxicab distance to land, and "no path of any length" for closed basins — a shortest path is shorter than the
  number of cells);
* `c12_descent_lowers_index` — index decrease / u-direction / zero velocity in the ocean, for the text as it is;
* `c12_follow_reaches_ocean` — following the field, for the orientation the text SHOULD have (known finding F-C12a);
  `c12_current_orientation_enters_land` — the finding on the interpreted functions;
* `c12_served_field`, `c12_velocity_serves_grid_cell` — what the gridforce stores and serves; `c12_fish_retired`.

C13 (`nk800met/gridforce.py`):
* `c13_time_blend` — linear interpolation for the repaired text, the mirrored interpolant for the text as it is
  (known finding F-C13a);
* `c13_velocity_served`, `c13_velocity_history` — `update` + `velocity` with every callee interpreted;
* `c13_get_var_history`, `c13_get_dset_history`, `c13_buffer_two_frames` — the cache is transparent, two frames live;
* `c13_ingrid_metric_depth`, `c13_ll2xy_matches_coordinates_partial`, `c13_z2k_monotone_exact` — the grid.
-/
open Ladim Ladim.Seq Ladim.Fjord Ladim.Nk800

set_option linter.unusedSectionVars false
set_option linter.unusedVariables false
namespace OnCode

/-! ## Concrete instances for the `example`s (each main theorem is followed by an `example` that instantiates its
hypotheses) -/

/-- a 4 × 1 grid `sea, sea, sea, land` -/
def c12ExLand : Mat := ⟨4, 1, fun i _ => if i = 3 then 1 else 0⟩
/-- its sea mask -/
def c12ExMask : Mat := ⟨4, 1, fun i _ => if i = 3 then 0 else 1⟩

theorem c12ExLand_land01 : C12.Land01 c12ExLand := by
  intro i j _
  show (if i = 3 then (1 : Int) else 0) = 0 ∨ (if i = 3 then (1 : Int) else 0) = 1
  split_ifs <;> simp

theorem c12ExMask_01 : ∀ i j, c12ExMask.inBox i j = true → (c12ExMask.val i j = 0 ∨ c12ExMask.val i j = 1) := by
  intro i j _
  show (if i = 3 then (0 : Int) else 1) = 0 ∨ (if i = 3 then (0 : Int) else 1) = 1
  split_ifs <;> simp

namespace C1213ExQ
/-- the rationals with `round` = nearest integer (ties up), `astype(int)` = floor, `ofInt` = the cast; the other
function classes (not used by the functions instantiated below) get placeholders -/
scoped instance e2eC12C13_HasRoundRat : HasRound ℚ := ⟨fun q => ((⌊q + 1 / 2⌋ : Int) : ℚ)⟩
scoped instance e2eC12C13_HasTruncRat : HasTrunc ℚ := ⟨fun q => ⌊q⌋⟩
scoped instance e2eC12C13_HasOfIntRat : HasOfInt ℚ := ⟨fun i => (i : ℚ)⟩
scoped instance e2eC12C13_HasSqrtRat : HasSqrt ℚ := ⟨id⟩
scoped instance e2eC12C13_HasExpRat : HasExp ℚ := ⟨id⟩
scoped instance e2eC12C13_HasLogRat : HasLog ℚ := ⟨id⟩
scoped instance e2eC12C13_HasSinRat : HasSin ℚ := ⟨id⟩
scoped instance e2eC12C13_HasCosRat : HasCos ℚ := ⟨id⟩
scoped instance e2eC12C13_HasAsinRat : HasAsin ℚ := ⟨id⟩
scoped instance e2eC12C13_HasRpowRat : HasRpow ℚ := ⟨fun a _ => a⟩
scoped instance e2eC12C13_HasPiRat : HasPi ℚ := ⟨3⟩
scoped instance e2eC12C13_HasNarrowRat : HasNarrow ℚ := ⟨id⟩

theorem exQ_trunc (k : Int) : trunc (ofInt k : ℚ) = k := Int.floor_intCast k
theorem exQ_lt (a b : Int) : (ofInt a : ℚ) < ofInt b ↔ a < b := Int.cast_lt
theorem exQ_ofInt (i : Int) : (ofInt i : ℚ) = (i : ℚ) := rfl
theorem exQ_round (x : ℚ) : ((roundInt x : Int) : ℚ) - 1 / 2 ≤ x ∧ x ≤ ((roundInt x : Int) : ℚ) + 1 / 2 := by
  have e : roundInt x = ⌊x + 1 / 2⌋ := by
    show ⌊((⌊x + 1 / 2⌋ : Int) : ℚ)⌋ = _
    exact Int.floor_intCast _
  rw [e]
  have h1 := Int.floor_le (x + 1 / 2)
  have h2 := Int.lt_floor_add_one (x + 1 / 2)
  constructor <;> linarith
end C1213ExQ

/-! ## C12 -/

/-- `ibm.fjord_index(land, d)` as the generated sequences say -/
abbrev fjordIndexOnCode (land : Mat) (d : Int) : Option (Option Mat) :=
  fiFjordIndexSeq fiGenericFilterRef fiBinaryDilationRef fiTaxicab land d

/-- `ibm.descent(w)` as the generated sequences say -/
abbrev descentOnCode (w : Mat) : Option (Option ((Int → Int → Int) × (Int → Int → Int))) :=
  fiDescentSeq fiGenericFilterRef fiTaxicab w

/-- taxicab distance between two cells -/
def c12Taxi (i j a b : Int) : Nat := (i - a).natAbs + (j - b).natAbs

/-- open-ocean cell: a sea cell at least `d` cells (taxicab) from every land cell of the grid -/
def OceanCell (land : Mat) (d : Int) (i j : Int) : Prop :=
  land.val i j = 0 ∧ ∀ a b, land.inBox a b = true → land.val a b = 1 → d ≤ (c12Taxi i j a b : Int)

theorem c12_bdilateIter_inBox (land : Mat) (k : Nat) (i j : Int) :
    (bdilateIter land k).inBox i j = land.inBox i j := by
  unfold Mat.inBox
  rw [(C12.bdilateIter_rows land k).1, (C12.bdilateIter_rows land k).2]

theorem c12_bdilateIter_get (land : Mat) (k : Nat) (i j : Int) :
    (bdilateIter land k).get 0 i j ≠ 0 ↔
      (land.inBox i j = true ∧ ∃ a b, land.inBox a b = true ∧ land.val a b ≠ 0 ∧ c12Taxi i j a b ≤ k) := by
  induction k generalizing i j with
  | zero =>
    show land.get 0 i j ≠ 0 ↔ _
    by_cases hb : land.inBox i j = true
    · rw [C12BFS.get_of_inBox land 0 i j hb]
      constructor
      · intro h; exact ⟨hb, i, j, hb, h, by unfold c12Taxi; omega⟩
      · rintro ⟨_, a, b, _, hv, ht⟩
        have : a = i ∧ b = j := by unfold c12Taxi at ht; omega
        rw [← this.1, ← this.2]; exact hv
    · rw [C12BFS.get_of_not_inBox land 0 i j hb]
      constructor
      · intro h; exact absurd rfl h
      · rintro ⟨h, _⟩; exact absurd h hb
  | succ k ih =>
    have hbx : ∀ a b, (bdilate (bdilateIter land k)).inBox a b = land.inBox a b := fun a b =>
      c12_bdilateIter_inBox land (k + 1) a b
    show (bdilate (bdilateIter land k)).get 0 i j ≠ 0 ↔ _
    by_cases hb : land.inBox i j = true
    · rw [C12BFS.get_of_inBox _ 0 i j (by rw [hbx]; exact hb)]
      show bdilateAt (bdilateIter land k) i j ≠ 0 ↔ _
      constructor
      · intro h
        refine ⟨hb, ?_⟩
        unfold bdilateAt at h
        split_ifs at h with hc
        · rcases hc with hc | hc | hc | hc | hc <;>
          · obtain ⟨_, a, b, hab, hv, ht⟩ := (ih _ _).1 hc
            exact ⟨a, b, hab, hv, by unfold c12Taxi at ht ⊢; omega⟩
        · exact absurd rfl h
      · rintro ⟨_, a, b, hab, hv, ht⟩
        have hbi : 0 ≤ i ∧ i < land.rows ∧ 0 ≤ j ∧ j < land.cols := by
          simpa [Mat.inBox] using hb
        have hba : 0 ≤ a ∧ a < land.rows ∧ 0 ≤ b ∧ b < land.cols := by
          simpa [Mat.inBox] using hab
        have key : ∃ i' j', ((i' = i ∧ j' = j) ∨ (i' = i - 1 ∧ j' = j) ∨ (i' = i ∧ j' = j - 1) ∨
            (i' = i ∧ j' = j + 1) ∨ (i' = i + 1 ∧ j' = j)) ∧ land.inBox i' j' = true ∧ c12Taxi i' j' a b ≤ k := by
          by_cases h0 : c12Taxi i j a b ≤ k
          · exact ⟨i, j, Or.inl ⟨rfl, rfl⟩, hb, h0⟩
          · have h0' : ¬ (i - a).natAbs + (j - b).natAbs ≤ k := h0
            by_cases h1 : i < a
            · exact ⟨i + 1, j, by omega, by simp [Mat.inBox]; omega, by unfold c12Taxi at *; omega⟩
            · by_cases h2 : a < i
              · exact ⟨i - 1, j, by omega, by simp [Mat.inBox]; omega, by unfold c12Taxi at *; omega⟩
              · by_cases h3 : j < b
                · exact ⟨i, j + 1, by omega, by simp [Mat.inBox]; omega, by unfold c12Taxi at *; omega⟩
                · exact ⟨i, j - 1, by omega, by simp [Mat.inBox]; omega, by unfold c12Taxi at *; omega⟩
        obtain ⟨i', j', hn, hb', ht'⟩ := key
        have hne := (ih i' j').2 ⟨hb', a, b, hab, hv, ht'⟩
        unfold bdilateAt
        rw [if_pos]
        · decide
        · rcases hn with ⟨rfl, rfl⟩ | ⟨rfl, rfl⟩ | ⟨rfl, rfl⟩ | ⟨rfl, rfl⟩ | ⟨rfl, rfl⟩
          · exact Or.inl hne
          · exact Or.inr (Or.inl hne)
          · exact Or.inr (Or.inr (Or.inl hne))
          · exact Or.inr (Or.inr (Or.inr (Or.inl hne)))
          · exact Or.inr (Or.inr (Or.inr (Or.inr hne)))
    · rw [C12BFS.get_of_not_inBox _ 0 i j (by rw [hbx]; exact hb)]
      constructor
      · intro h; exact absurd rfl h
      · rintro ⟨h, _⟩; exact absurd h hb

theorem c12_get_val (m : Mat) (c i j : Int) (hb : m.inBox i j = true) : m.get c i j = m.val i j :=
  C12BFS.get_of_inBox m c i j hb

/-- the sources of the distance computation are exactly the open-ocean cells -/
theorem c12_fjordInput_zero_iff (land : Mat) (hl : C12.Land01 land) (d : Int) (i j : Int) (hb : land.inBox i j = true) :
    (fjordInput land d).val i j = 0 ↔ OceanCell land d i j := by
  rw [C12.fjordInput_val, c12_get_val land 0 i j hb]
  obtain ⟨h01, hland⟩ := C12.notOcean_spec land hl d i j hb
  have hno : (notOcean land d).get 0 i j ≠ 0 ↔
      (1 < d ∧ ∃ a b, land.inBox a b = true ∧ land.val a b ≠ 0 ∧ c12Taxi i j a b ≤ (d - 1).toNat) ∨
      (¬ 1 < d ∧ land.val i j ≠ 0) := by
    unfold notOcean
    by_cases hd : 1 < d
    · rw [if_pos hd]
      unfold binaryDilation
      rw [if_neg (by omega), c12_bdilateIter_get]
      constructor
      · rintro ⟨_, h⟩; exact Or.inl ⟨hd, h⟩
      · rintro (⟨_, h⟩ | ⟨h, _⟩)
        · exact ⟨hb, h⟩
        · exact absurd hd h
    · rw [if_neg hd, c12_get_val land 0 i j hb]
      constructor
      · intro h; exact Or.inr ⟨hd, h⟩
      · rintro (⟨h, _⟩ | ⟨_, h⟩)
        · exact absurd h hd
        · exact h
  unfold OceanCell
  constructor
  · intro h
    have hv0 : land.val i j = 0 := by rcases hl i j hb with h' | h' <;> rcases h01 with a | a <;> omega
    have hn0 : ¬ (notOcean land d).get 0 i j ≠ 0 := by intro hne; rcases h01 with a | a <;> omega
    refine ⟨hv0, ?_⟩
    intro a b hab hv
    by_contra hlt
    apply hn0
    rw [hno]
    by_cases hd : 1 < d
    · exact Or.inl ⟨hd, a, b, hab, by omega, by omega⟩
    · exfalso
      have : a = i ∧ b = j := by unfold c12Taxi at hlt; omega
      rw [this.1, this.2] at hv; omega
  · rintro ⟨hv0, hall⟩
    have hn0 : ¬ (notOcean land d).get 0 i j ≠ 0 := by
      rw [hno]
      rintro (⟨hd, a, b, hab, hv, ht⟩ | ⟨_, h⟩)
      · have h1 : land.val a b = 1 := by rcases hl a b hab with h' | h' <;> [exact absurd h' hv; exact h']
        have := hall a b hab h1
        omega
      · exact h hv0
    have : (notOcean land d).get 0 i j = 0 := by by_contra h; exact hn0 h
    rw [this, hv0]; rfl

/-- the obstacles of the distance computation are exactly the land cells -/
theorem c12_fjordInput_obstacle_iff (land : Mat) (hl : C12.Land01 land) (d : Int) (i j : Int)
    (hb : land.inBox i j = true) : (fjordInput land d).val i j ≠ -2 ↔ land.val i j = 0 := by
  constructor
  · intro h
    rcases hl i j hb with h0 | h1
    · exact h0
    · exact absurd (C12.land_is_obstacle land hl d i j hb h1) h
  · intro h0
    obtain ⟨h01, _⟩ := C12.notOcean_spec land hl d i j hb
    rw [C12.fjordInput_val, c12_get_val land 0 i j hb, h0]
    rcases h01 with a | a <;> rw [a] <;> decide

/-- a four-connected walk of exactly `n` steps from an open-ocean cell to `(i, j)` through sea cells of the grid -/
inductive SeaPath (land : Mat) (d : Int) : Nat → Int → Int → Prop
  | src (i j : Int) : land.inBox i j = true → OceanCell land d i j → SeaPath land d 0 i j
  | step (n : Nat) (i j i' j' : Int) : SeaPath land d n i j → C12.Adj i j i' j' → land.inBox i' j' = true →
      land.val i' j' = 0 → SeaPath land d (n + 1) i' j'

/-- `n` is the length of the shortest such walk -/
def ShortestSeaPath (land : Mat) (d : Int) (n : Nat) (i j : Int) : Prop :=
  SeaPath land d n i j ∧ ∀ n' < n, ¬ SeaPath land d n' i j

theorem c12_seaPath_iff_reach (land : Mat) (hl : C12.Land01 land) (d : Int) (n : Nat) (i j : Int) :
    SeaPath land d n i j ↔ C12.Reach (fjordInput land d) n i j := by
  constructor
  · intro h
    induction h with
    | src i j hb ho => exact C12.Reach.src i j hb ((c12_fjordInput_zero_iff land hl d i j hb).2 ho)
    | step n i j i' j' _ ha hb hv ih =>
      exact C12.Reach.step n i j i' j' ih ha hb ((c12_fjordInput_obstacle_iff land hl d i' j' hb).2 hv)
  · intro h
    induction h with
    | src i j hb hv => exact SeaPath.src i j hb ((c12_fjordInput_zero_iff land hl d i j hb).1 hv)
    | step n i j i' j' _ ha hb hv ih =>
      exact SeaPath.step n i j i' j' ih ha hb ((c12_fjordInput_obstacle_iff land hl d i' j' hb).1 hv)

theorem c12_shortest_iff_isDist (land : Mat) (hl : C12.Land01 land) (d : Int) (n : Nat) (i j : Int) :
    ShortestSeaPath land d n i j ↔ C12.IsDist (fjordInput land d) n i j := by
  unfold ShortestSeaPath C12.IsDist
  rw [c12_seaPath_iff_reach land hl]
  constructor
  · rintro ⟨h1, h2⟩; exact ⟨h1, fun n' hn' hr => h2 n' hn' ((c12_seaPath_iff_reach land hl d n' i j).2 hr)⟩
  · rintro ⟨h1, h2⟩; exact ⟨h1, fun n' hn' hr => h2 n' hn' ((c12_seaPath_iff_reach land hl d n' i j).1 hr)⟩

/-! #### a shortest path visits every cell at most once: its length is below the number of cells -/

theorem c12_isDist_pred (m : Mat) (n : Nat) (i j : Int) (h : C12.IsDist m (n + 1) i j) :
    ∃ a b, C12.IsDist m n a b := by
  obtain ⟨_, _, a, b, hadj, hr⟩ := (C12BFS.reach_succ_iff m n i j).1 h.1
  refine ⟨a, b, hr, ?_⟩
  intro n' hn' hr'
  have hib := C12BFS.reach_inBox m _ i j h.1
  exact h.2 (n' + 1) (by omega) (C12.Reach.step n' a b i j hr' (C12BFS.adj_symm hadj) hib.1 hib.2)

theorem c12_isDist_levels (m : Mat) (n : Nat) (i j : Int) (h : C12.IsDist m n i j) :
    ∀ t ≤ n, ∃ a b, C12.IsDist m t a b := by
  induction n generalizing i j with
  | zero => intro t ht; exact ⟨i, j, by rwa [Nat.le_zero.1 ht]⟩
  | succ n ih =>
    intro t ht
    rcases Nat.lt_or_ge t (n + 1) with hlt | hge
    · obtain ⟨a, b, hab⟩ := c12_isDist_pred m n i j h
      exact ih a b hab t (by omega)
    · exact ⟨i, j, by rwa [Nat.le_antisymm ht hge]⟩

theorem c12_isDist_lt_size (m : Mat) (n : Nat) (i j : Int) (h : C12.IsDist m n i j) : n < m.rows * m.cols := by
  classical
  have hlev := c12_isDist_levels m n i j h
  choose! fa fb hf using hlev
  have hbox : ∀ t : Fin (n + 1), 0 ≤ fa t ∧ fa t < m.rows ∧ 0 ≤ fb t ∧ fb t < m.cols := by
    intro t
    have := (C12BFS.reach_inBox m _ _ _ (hf t (by omega)).1).1
    simpa [Mat.inBox] using this
  let g : Fin (n + 1) → Fin m.rows × Fin m.cols := fun t =>
    (⟨(fa t).toNat, by have := hbox t; omega⟩, ⟨(fb t).toNat, by have := hbox t; omega⟩)
  have hg : Function.Injective g := by
    intro s t hst
    have h1 : (fa s).toNat = (fa t).toNat := congrArg (fun p => p.1.val) hst
    have h2 : (fb s).toNat = (fb t).toNat := congrArg (fun p => p.2.val) hst
    have hs := hbox s
    have ht := hbox t
    have ea : fa s = fa t := by omega
    have eb : fb s = fb t := by omega
    have := C12BFS.isDist_unique m (fa s) (fb s) s t (hf s (by omega)) (by rw [ea, eb]; exact hf t (by omega))
    exact Fin.ext this
  have := Fintype.card_le_of_injective g hg
  simp only [Fintype.card_fin, Fintype.card_prod] at this
  omega

/-- **C12, clause 1 (the fjord index is the shortest-path distance), on the interpretation of
`Gen.vps_fjord_index_seq` / `vps_distance_seq` / `vps_dilate_seq` / `vps_dilate_filter_seq`.**
For every 0/1 land matrix and every ocean distance `d` the code returns a matrix `w` of the shape of `land` with, for
every cell of the grid: `-2` on land (obstacle); on a sea cell, `w[i, j] = n ≥ 0` iff `n` is the length of the
shortest four-connected sea path from the open-ocean region (sea cells at least `d` cells from all land) to `(i, j)`;
and `-1` ("unknown") iff there is no such path at all (closed basin).

Hypothesis forced by the bridge (`Bridge.vps_fjord_index_land01`): `Land01 land` — the matrix holds only 0 and 1; it
is also the property's side condition "land/sea mask" (the code normalises with `astype(bool)`, the model does not). -/
theorem c12_fjord_index_is_shortest_sea_path (land : Mat) (hl : C12.Land01 land) (d : Int) :
    ∃ w : Mat, fjordIndexOnCode land d = some (some w) ∧ w.rows = land.rows ∧ w.cols = land.cols ∧
      ∀ i j, land.inBox i j = true →
        (land.val i j = 1 → w.val i j = -2) ∧
        (land.val i j = 0 →
          (∀ n : Nat, w.val i j = (n : Int) ↔ ShortestSeaPath land d n i j) ∧
          (w.val i j = -1 ↔ ∀ n, ¬ SeaPath land d n i j) ∧
          (OceanCell land d i j ↔ w.val i j = 0)) := by
  refine ⟨fjordIndex land d, Bridge.vps_fjord_index_land01 land hl d, ?_, ?_, ?_⟩
  · exact C12BFS.dilateIter_rows _ _
  · exact C12BFS.dilateIter_cols _ _
  intro i j hb
  obtain ⟨h1, h2⟩ := C12.fjord_index_is_shortest_path land hl d i j hb
  refine ⟨h1, fun h0 => ?_⟩
  obtain ⟨ha, hb'⟩ := h2 h0
  have hbound : ∀ n, C12.IsDist (fjordInput land d) n i j → n ≤ land.rows * land.cols := fun n hn =>
    Nat.le_of_lt (c12_isDist_lt_size (fjordInput land d) n i j hn)
  have hshort : ∀ n : Nat, (fjordIndex land d).val i j = (n : Int) ↔ ShortestSeaPath land d n i j := by
    intro n
    rw [ha n, c12_shortest_iff_isDist land hl]
    exact ⟨fun h => h.2, fun h => ⟨hbound n h, h⟩⟩
  refine ⟨hshort, ?_, ?_⟩
  · rw [hb']
    constructor
    · intro h n hp
      obtain ⟨n', _, hd⟩ := C12BFS.reach_exists_dist _ i j n ((c12_seaPath_iff_reach land hl d n i j).1 hp)
      exact h n' (hbound n' hd) hd.1
    · intro h n _ hr
      exact h n ((c12_seaPath_iff_reach land hl d n i j).2 hr)
  · have := hshort 0
    rw [Nat.cast_zero] at this
    rw [this]
    constructor
    · intro ho; exact ⟨SeaPath.src i j hb ho, fun n' hn' => absurd hn' (Nat.not_lt_zero n')⟩
    · rintro ⟨hp, _⟩
      cases hp with
      | src _ _ _ ho => exact ho

/-- example: `c12ExLand`, ocean distance 2 — the hypothesis `Land01` holds; the theorem gives: cell `(2, 0)` (index 1) has
a shortest sea path of length 1, cell `(1, 0)` is an open-ocean cell -/
example : ShortestSeaPath c12ExLand 2 1 2 0 ∧ OceanCell c12ExLand 2 1 0 := by
  obtain ⟨w, hw, _, _, h⟩ := c12_fjord_index_is_shortest_sea_path c12ExLand c12ExLand_land01 2
  have hw' : w = fjordIndex c12ExLand 2 := by
    rw [show fjordIndexOnCode c12ExLand 2 = some (some (fjordIndex c12ExLand 2)) from
      Bridge.vps_fjord_index_land01 c12ExLand c12ExLand_land01 2] at hw
    exact (Option.some.inj (Option.some.inj hw)).symm
  subst hw'
  exact ⟨((h 2 0 (by decide)).2 (by decide)).1 1 |>.1 (by decide),
    ((h 1 0 (by decide)).2 (by decide)).2.2.2 (by decide)⟩

/-! #### the direction field of `descent` on the fjord index -/

theorem c12_fjordIndex_inBox (land : Mat) (d : Int) (i j : Int) :
    (fjordIndex land d).inBox i j = land.inBox i j := by
  unfold Mat.inBox
  have h1 : (fjordIndex land d).rows = land.rows := C12BFS.dilateIter_rows _ _
  have h2 : (fjordIndex land d).cols = land.cols := C12BFS.dilateIter_cols _ _
  rw [h1, h2]

theorem c12_uv_unit (k : Nat) (h0 : k ≠ 0) (h5 : k < 5) :
    (uOf k, vOf k) = (-1, 0) ∨ (uOf k, vOf k) = (1, 0) ∨ (uOf k, vOf k) = (0, -1) ∨ (uOf k, vOf k) = (0, 1) := by
  match k, h0, h5 with
  | 1, _, _ => exact Or.inl rfl
  | 2, _, _ => exact Or.inr (Or.inl rfl)
  | 3, _, _ => exact Or.inr (Or.inr (Or.inl rfl))
  | 4, _, _ => exact Or.inr (Or.inr (Or.inr rfl))

/-- **C12, clause 2a (index decrease, u-direction; the text as it is), on the interpretation of
`Gen.vps_fjord_index_seq` and `Gen.vps_descent_seq` / `vps_descent_filter_type_seq`.**
`descent(fjord_index(land, d))` returns `(u, v)` with, for every cell of the grid:
* fjord index `n + 1 > 0` (a fish cell inside the fjord): `(u, v)` is one of the four unit steps, and the neighbour in
  column direction `+u` and row direction `−v` (`v = +1` means "up" = row − 1: picture orientation, the orientation in
  which `ibm.descent` is written and documented) lies inside the grid, is a sea cell, and has fjord index exactly `n`;
* fjord index `0` (open ocean), `-1` (closed basin) or `-2` (land): `u = v = 0`.
In particular the `u` (column / `X`) component is served by the gridforce with the right sign: when the step is
horizontal (`v = 0`) the cell `(i, j + u)` has the smaller index.

Hypothesis forced by the bridge: `Land01 land` (see `c12_fjord_index_is_shortest_sea_path`). -/
theorem c12_descent_lowers_index (land : Mat) (hl : C12.Land01 land) (d : Int) :
    ∃ (w : Mat) (u v : Int → Int → Int), fjordIndexOnCode land d = some (some w) ∧
      descentOnCode w = some (some (u, v)) ∧
      ∀ i j, land.inBox i j = true →
        (∀ n : Nat, w.val i j = (n : Int) + 1 →
          ((u i j, v i j) = (-1, 0) ∨ (u i j, v i j) = (1, 0) ∨ (u i j, v i j) = (0, -1) ∨ (u i j, v i j) = (0, 1)) ∧
          land.inBox (i - v i j) (j + u i j) = true ∧ land.val (i - v i j) (j + u i j) = 0 ∧
          w.val (i - v i j) (j + u i j) = (n : Int)) ∧
        (w.val i j ≤ 0 → u i j = 0 ∧ v i j = 0) := by
  refine ⟨fjordIndex land d, _, _, Bridge.vps_fjord_index_land01 land hl d, Bridge.vps_descent _, ?_⟩
  intro i j hb
  have hbw : (fjordIndex land d).inBox i j = true := by rw [c12_fjordIndex_inBox]; exact hb
  have hdesc : C12BFS.Descending (fjordIndex land d) :=
    C12BFS.dilateIter_descending _ (C12.fjordInput_init land hl d) _
  constructor
  · intro n hv
    obtain ⟨hlow, hex⟩ := hdesc i j n hbw hv
    obtain ⟨hne, _, hb2, hv2⟩ := C12BFS.descent_lowers _ i j n hbw hv hlow hex
    have hb2' : land.inBox (i - vOf (descentDir (fjordIndex land d) i j))
        (j + uOf (descentDir (fjordIndex land d) i j)) = true := by rw [← c12_fjordIndex_inBox land d]; exact hb2
    refine ⟨c12_uv_unit _ hne (Bridge.vps_descent_dir_lt _ i j), hb2', ?_, hv2⟩
    rcases hl _ _ hb2' with h0 | h1
    · exact h0
    · have := (C12.fjord_index_is_shortest_path land hl d _ _ hb2').1 h1
      rw [hv2] at this; omega
  · intro hle
    have : descentDir (fjordIndex land d) i j = 0 :=
      C12.ocean_velocity_zero _ i j (by rw [c12_get_val _ (-1) i j hbw]; exact hle)
    simp only [this]; exact ⟨rfl, rfl⟩

/-- example: the theorem applies to `c12ExLand` (its only hypothesis is `Land01`) -/
example := c12_descent_lowers_index c12ExLand c12ExLand_land01 2

/-! #### following the field -/

/-- one step of the particle tracker on a direction field `(u, v)` indexed `[row, column]`: the column index (`X`)
grows by `u`, the row index (`Y`) by `sv * v`; `sv = 1`: `v` used as it comes from `ibm.descent` (the text
`self._fish_v = v * …`), `sv = -1`: the text `self._fish_v = -v * …` -/
def fishTrackerStep (sv : Int) (u v : Int → Int → Int) (c : Int × Int) : Int × Int :=
  (c.1 + sv * v c.1 c.2, c.2 + u c.1 c.2)

/-- the cells visited in `k` tracker steps, the start cell first -/
def fishTrajectory (f : Int × Int → Int × Int) : Nat → Int × Int → List (Int × Int)
  | 0, c => [c]
  | k + 1, c => c :: fishTrajectory f k (f c)

/-- the sign with which the text of `_compute_fish_velocity` stores `v` -/
def vSignFactor : VSign → Int
  | .picture => 1
  | .grid => -1

theorem c12_trajectory_eq_follow (w : Mat) (k : Nat) (c : Int × Int) :
    fishTrajectory (fishTrackerStep (-1) (fun i j => uOf (descentDir w i j)) (fun i j => vOf (descentDir w i j))) k c
      = follow .grid w k c := by
  induction k generalizing c with
  | zero => rfl
  | succ k ih =>
    show c :: _ = c :: _
    rw [ih]
    congr 2
    show (c.1 + -1 * vOf (descentDir w c.1 c.2), _) = (c.1 - vOf (descentDir w c.1 c.2), _)
    congr 1; omega

/-- **C12, clause 2b (following the field reaches the ocean), on the interpretation of `Gen.vps_fjord_index_seq` and
`Gen.vps_descent_seq`, for the orientation the gridforce text SHOULD have** (`sv = -1`, i.e. `self._fish_v = -v * …`;
known finding F-C12a: the current text has `sv = +1`, see `c12_served_field` and `c12_current_orientation_enters_land`).
From any cell of the grid with fjord index `n ≥ 0` (a reachable sea cell) the tracker visits `n + 1` cells; every one of
them is inside the grid and a sea cell; the `t`-th has fjord index `n − t` (one lower per step); the last one has index
0, is an open-ocean cell, and there `u = v = 0` (the fish stays, and `update_ibm` retires it: `c12_fish_retired`).

Hypothesis forced by the bridge: `Land01 land`. -/
theorem c12_follow_reaches_ocean (land : Mat) (hl : C12.Land01 land) (d : Int) :
    ∃ (w : Mat) (u v : Int → Int → Int), fjordIndexOnCode land d = some (some w) ∧
      descentOnCode w = some (some (u, v)) ∧
      ∀ (n : Nat) (i j : Int), land.inBox i j = true → w.val i j = (n : Int) →
        (fishTrajectory (fishTrackerStep (-1) u v) n (i, j)).length = n + 1 ∧
        (∀ c ∈ fishTrajectory (fishTrackerStep (-1) u v) n (i, j), land.inBox c.1 c.2 = true ∧ land.val c.1 c.2 = 0) ∧
        (∀ t : Nat, t ≤ n → ∃ c, (fishTrajectory (fishTrackerStep (-1) u v) n (i, j))[t]? = some c ∧
            w.val c.1 c.2 = (n : Int) - (t : Int)) ∧
        (∃ c, (fishTrajectory (fishTrackerStep (-1) u v) n (i, j))[n]? = some c ∧ OceanCell land d c.1 c.2 ∧
            u c.1 c.2 = 0 ∧ v c.1 c.2 = 0 ∧ fishTrackerStep (-1) u v c = c) := by
  refine ⟨fjordIndex land d, _, _, Bridge.vps_fjord_index_land01 land hl d, Bridge.vps_descent _, ?_⟩
  intro n i j hb hv
  rw [c12_trajectory_eq_follow]
  obtain ⟨h1, h2, h3⟩ := C12.follow_fjord_index_reaches_ocean land hl d n i j hb hv
  have hsea : ∀ c ∈ follow .grid (fjordIndex land d) n (i, j), land.inBox c.1 c.2 = true ∧ land.val c.1 c.2 = 0 := by
    intro c hc
    obtain ⟨hcb, hcv⟩ := h2 c hc
    rw [c12_fjordIndex_inBox] at hcb
    refine ⟨hcb, ?_⟩
    rcases hl _ _ hcb with h0 | h1'
    · exact h0
    · exact absurd ((C12.fjord_index_is_shortest_path land hl d _ _ hcb).1 h1') hcv
  refine ⟨h1, hsea, h3, ?_⟩
  obtain ⟨c, hc, hcv⟩ := h3 n (Nat.le_refl n)
  have hcv0 : (fjordIndex land d).val c.1 c.2 = 0 := by rw [hcv]; omega
  have hmem : c ∈ follow .grid (fjordIndex land d) n (i, j) := List.mem_of_getElem? hc
  obtain ⟨hcb, hcs⟩ := hsea c hmem
  have hd0 : descentDir (fjordIndex land d) c.1 c.2 = 0 :=
    C12.ocean_velocity_zero _ _ _ (by rw [c12_get_val _ (-1) _ _ (by rw [c12_fjordIndex_inBox]; exact hcb), hcv0])
  refine ⟨c, hc, ?_, ?_, ?_, ?_⟩
  · obtain ⟨w', hw', _, _, hspec⟩ := c12_fjord_index_is_shortest_sea_path land hl d
    have : w' = fjordIndex land d := by
      rw [show fjordIndexOnCode land d = some (some (fjordIndex land d)) from
        Bridge.vps_fjord_index_land01 land hl d] at hw'
      exact (Option.some.inj (Option.some.inj hw')).symm
    subst this
    exact ((hspec c.1 c.2 hcb).2 hcs).2.2.2 hcv0
  · simp only [hd0]; rfl
  · simp only [hd0]; rfl
  · unfold fishTrackerStep; simp only [hd0]; show (c.1 + -1 * 0, c.2 + 0) = c; simp

/-- example: the theorem applies to `c12ExLand`; there cell `(2, 0)` has index 1 (`c12_current_orientation_enters_land`) -/
example := c12_follow_reaches_ocean c12ExLand c12ExLand_land01 2

/-! #### `vps/gridforce.py`: the field that is stored and served -/

/-- **C12, the gridforce side (`_ocean_dist_cells`, `_compute_fish_velocity`, `fish_u`, `fish_v`), on the
interpretation of `Gen.vps_ocean_dist_cells_seq`, `Gen.vps_compute_fish_velocity_seq`, `Gen.vps_fish_u_seq`,
`Gen.vps_fish_v_seq`, tied to the interpretation of the `ibm` functions.**
For a 0/1 sea mask `M`: the field stored is the swimming speed times the direction field `(u, v)` that the
interpreted `ibm.descent(ibm.fjord_index(1 - M, d))` returns, `d` the interpreted `_ocean_dist_cells()`; the `u`
component as it is, the `v` component with the sign `vSignFactor s`, `s` the sign the generated text shows
(`self._fish_v = v * …`: `+1`, the text as it is, known finding F-C12a; `self._fish_v = -v * …`: `-1`, the orientation
for which `c12_follow_reaches_ocean` holds).  From the empty cache of the constructor `fish_u` computes both arrays,
`fish_v` then serves the cached one.

Hypothesis forced by the bridges: `M` holds only 0 and 1 (then `1 - M` is a `Land01` matrix). -/
theorem c12_served_field {α : Type} [Add α] [Sub α] [Mul α] [Div α] [LT α] [DecidableLT α] [OfScientific α]
    [HasRound α] [HasTrunc α] [HasOfInt α]
    (M : Mat) (hM : ∀ i j, M.inBox i j = true → (M.val i j = 0 ∨ M.val i j = 1)) (oceanDistance dx00 speed : α) :
    ∃ (s : VSign) (d : Int) (w : Mat) (u v : Int → Int → Int) (f : Fjord.Field α),
      vSignSeen Gen.vps_compute_fish_velocity_seq = some s ∧
      oceanDistCellsSeq oceanDistance dx00 = some (some d) ∧
      fjordIndexOnCode ⟨M.rows, M.cols, fun i j => 1 - M.val i j⟩ d = some (some w) ∧
      descentOnCode w = some (some (u, v)) ∧
      computeFishVelocitySeq M oceanDistance dx00 speed = some (some f) ∧
      (∀ i j, f.u i j = ofInt (u i j) * speed ∧ f.v i j = ofInt (vSignFactor s * v i j) * speed) ∧
      fiFishUSeq M oceanDistance dx00 speed ⟨none, none⟩ = some (some (some f.u, ⟨some f.u, some f.v⟩)) ∧
      fiFishVSeq M oceanDistance dx00 speed ⟨some f.u, some f.v⟩ = some (some (some f.v, ⟨some f.u, some f.v⟩)) := by
  obtain ⟨s, hs⟩ := Bridge.vps_vsign_seen
  have hl : C12.Land01 (landOfMask M) := Bridge.landOfMask_land01 M hM
  refine ⟨s, oceanDistCells oceanDistance dx00, fjordIndex (landOfMask M) (oceanDistCells oceanDistance dx00), _, _,
    fishField s M (oceanDistCells oceanDistance dx00) speed, hs, Bridge.vps_ocean_dist_cells _ _,
    Bridge.vps_fjord_index_land01 (landOfMask M) hl _, Bridge.vps_descent _,
    Bridge.vps_compute_fish_velocity_of s hs M _ _ _, ?_, ?_, ?_⟩
  · intro i j
    refine ⟨rfl, ?_⟩
    show ofInt (vDir s _) * speed = _
    cases s
    · show ofInt (vOf _) * speed = ofInt (1 * vOf _) * speed
      rw [Int.one_mul]
    · show ofInt (-(vOf _)) * speed = ofInt (-1 * vOf _) * speed
      rw [Int.neg_mul, Int.one_mul]
  · rw [Bridge.vps_fish_u_of s hs]; rfl
  · rw [Bridge.vps_fish_v_of s hs]; rfl

open C1213ExQ in
/-- example over ℚ: ocean distance 1.6 km, `dx = 800` m, speed 0.14 m/s, on the mask of `c12ExLand` -/
example := c12_served_field (α := ℚ) c12ExMask c12ExMask_01 (16 / 10) 800 (14 / 100)

/-- **C12, `velocity` / `fish_velocity` "in the grid coordinates the tracker uses", on the interpretation of
`Gen.vps_velocity_seq` and `Gen.vps_fish_velocity_seq`.**  With `use_currents = False` (the constructor's value) the
velocity of a particle at `(X, Y)` is the pair of entries `[r, c]` of the two stored arrays, where `(r, c)` always is a
cell of the grid (never outside it), and is the cell `(round(Y − j0), round(X − i0))` whenever that is one.

Hypotheses forced by the bridge (`Bridge.fishIndex_eq_clampIdx`; facts about the scalar type, true of floats below
2^53): `trunc (ofInt k) = k`, `ofInt` strictly monotone, and the two rounded offsets are (images of) integers. -/
theorem c12_velocity_serves_grid_cell {α : Type} [Add α] [Sub α] [Mul α] [Div α] [LT α] [DecidableLT α]
    [OfScientific α] [HasRound α] [HasTrunc α] [HasOfInt α]
    (hto : ∀ k : Int, trunc (ofInt k : α) = k) (hlt : ∀ a b : Int, (ofInt a : α) < ofInt b ↔ a < b)
    (i0 j0 : Int) (shape : Nat × Nat) (h1 : 1 ≤ shape.1) (h2 : 1 ≤ shape.2) (fishU fishV : Int → Int → α) (X Y : α)
    (kx ky : Int) (hX : round (X - ofInt i0) = (ofInt kx : α)) (hY : round (Y - ofInt j0) = (ofInt ky : α))
    (cur : α × α) :
    ∃ r c : Int, (0 ≤ r ∧ r < shape.1) ∧ (0 ≤ c ∧ c < shape.2) ∧
      fiVelocitySeq i0 j0 shape fishU fishV X Y false cur = some (some (fishU r c, fishV r c)) ∧
      fishVelocitySeq i0 j0 shape fishU fishV X Y = some (some (fishU r c, fishV r c)) ∧
      (0 ≤ ky ∧ ky < shape.1 → r = ky) ∧ (0 ≤ kx ∧ kx < shape.2 → c = kx) := by
  refine ⟨fishIndex shape.1 j0 Y, fishIndex shape.2 i0 X, ?_, ?_, Bridge.vps_velocity_no_currents _ _ _ _ _ _ _ _,
    Bridge.vps_fish_velocity _ _ _ _ _ _ _, ?_, ?_⟩
  · rw [Bridge.fishIndex_eq_clampIdx hto hlt _ _ _ ky hY]; exact Bridge.clampIdx_inBox _ _ h1
  · rw [Bridge.fishIndex_eq_clampIdx hto hlt _ _ _ kx hX]; exact Bridge.clampIdx_inBox _ _ h2
  · intro h; rw [Bridge.fishIndex_eq_clampIdx hto hlt _ _ _ ky hY]; unfold GridSample.clampIdx; omega
  · intro h; rw [Bridge.fishIndex_eq_clampIdx hto hlt _ _ _ kx hX]; unfold GridSample.clampIdx; omega

open C1213ExQ in
/-- example over ℚ: a particle at `X = 1.2`, `Y = 2.7` with offsets `i0 = 1`, `j0 = 0` on a 4 × 1 grid:
`round(X − i0) = 0`, `round(Y − j0) = 3` -/
example (fishU fishV : Int → Int → ℚ) (cur : ℚ × ℚ) :=
  c12_velocity_serves_grid_cell (α := ℚ) exQ_trunc exQ_lt 1 0 (4, 1) (by decide) (by decide) fishU fishV (12 / 10)
    (27 / 10) 0 3
    (by show ((⌊(12 / 10 : ℚ) - ((1 : Int) : ℚ) + 1 / 2⌋ : Int) : ℚ) = ((0 : Int) : ℚ)
        congr 1; rw [Int.floor_eq_iff]; norm_num)
    (by show ((⌊(27 / 10 : ℚ) - ((0 : Int) : ℚ) + 1 / 2⌋ : Int) : ℚ) = ((3 : Int) : ℚ)
        congr 1; rw [Int.floor_eq_iff]; norm_num)
    cur

/-- **C12, last clause ("in the ocean the velocity is zero and the fish is retired"), on the interpretation of
`Gen.vps_update_seq` (`IBM.update_ibm`, one particle).**  Where the fish velocity is `(0, 0)` — by
`c12_descent_lowers_index` exactly the cells of index ≤ 0, the open ocean among them — the particle is not alive after
the update; where one component is non-zero the particle stays alive unless it is too old.  No hypothesis (the
uniform draw for the depth must be available: the list of draws is non-empty).  The instance arguments `HasSqrt … HasNarrow`
are section variables of `LadimProofs/Bridge/BioSeq.lean` (forced by the bridge `Bridge.vps_run_core`; not used). -/
theorem c12_fish_retired {α : Type} [_root_.Field α] [LinearOrder α] [IsStrictOrderedRing α]
    [HasSqrt α] [HasExp α] [HasLog α] [HasSin α] [HasCos α] [HasAsin α] [HasRpow α] [HasPi α] [HasNarrow α]
    (e : BioSeq.VpsEnv α) (x y : α) (p : Bio.Vps α) (u : α) (rest : List α) :
    ∃ s, BioSeq.vpsRun e x y p (u :: rest) = some (some s) ∧
      (e.fishVel x y = (0, 0) → s.alive = false) ∧
      ((e.fishVel x y).1 ≠ 0 ∨ (e.fishVel x y).2 ≠ 0 → s.alive = (p.alive && decide (p.age + e.dt < e.maxAge))) := by
  obtain ⟨md, dt, ma, fv⟩ := e
  obtain ⟨s, hs, hp, _⟩ := Bridge.vps_run_core md dt ma fv x y p u rest
  have ha : s.alive = ((p.alive && decide (p.age + dt < ma)) &&
      (!(Gen.feq (fv x y).1 0.0) || !(Gen.feq (fv x y).2 0.0))) := congrArg Bio.Vps.alive hp
  have hz : ∀ a : α, Gen.feq a 0.0 = decide (a = 0) := by
    intro a
    unfold Gen.feq
    lits
    by_cases h : a = 0
    · subst h; simp
    · rcases lt_or_gt_of_ne h with h' | h' <;> simp [h, h', not_lt.2 h'.le]
  refine ⟨s, hs, ?_, ?_⟩
  · intro h0
    show s.alive = false
    rw [ha, hz, hz]
    simp only at h0
    rw [h0]; simp
  · intro hne
    show s.alive = _
    rw [ha, hz, hz]
    simp only at hne
    rcases hne with h | h <;> simp [h]

open C1213ExQ in
/-- example over ℚ: `max_depth = 2`, `dt = 600`, `max_age = 2**30`, zero fish velocity -/
example (p : Bio.Vps ℚ) :=
  c12_fish_retired (α := ℚ) ⟨2, 600, 1073741824, fun _ _ => (0, 0)⟩ 1 1 p (1 / 2) []

/-- **Known finding F-C12a on the interpreted `ibm` functions**: a 4 × 1 grid `sea, sea, sea, land` with an ocean
distance of 2 cells.  Cell `(2, 0)` has fjord index 1; `descent` gives `v = +1` there ("up": row − 1).  A tracker that
adds `v` to the row index (`sv = +1`, the text `self._fish_v = v * …`) steps onto the land cell `(3, 0)`; with
`sv = -1` it steps onto the ocean cell `(1, 0)`. -/
theorem c12_current_orientation_enters_land :
    ∃ (w : Mat) (u v : Int → Int → Int),
      fjordIndexOnCode ⟨4, 1, fun i _ => if i = 3 then 1 else 0⟩ 2 = some (some w) ∧
      descentOnCode w = some (some (u, v)) ∧
      w.val 2 0 = 1 ∧ u 2 0 = 0 ∧ v 2 0 = 1 ∧
      fishTrackerStep 1 u v (2, 0) = (3, 0) ∧ fishTrackerStep (-1) u v (2, 0) = (1, 0) ∧ w.val 1 0 = 0 ∧ w.val 3 0 = -2 := by
  have hl : C12.Land01 ⟨4, 1, fun i _ => if i = 3 then 1 else 0⟩ := by
    intro i j _
    show (if i = 3 then (1 : Int) else 0) = 0 ∨ (if i = 3 then (1 : Int) else 0) = 1
    split_ifs <;> simp
  refine ⟨_, _, _, Bridge.vps_fjord_index_land01 _ hl 2, Bridge.vps_descent _, ?_⟩
  decide

/-! ## C13 -/

/-! #### class `Buffer`: two frame slots, every entry belongs to a live frame -/

section
variable {κ ν φ : Type} [DecidableEq κ] [DecidableEq φ]

/-- every cached entry carries a frame tag that is one of the (two) live ones -/
def LiveEntries (b : Buffer κ ν φ) : Prop :=
  ∀ kv ∈ b.buf, ∃ f, lookup b.fidx kv.1 = some f ∧ some f ∈ b.fidxList

/-- two frame slots, and every entry belongs to one of them -/
def TwoLiveFrames (b : Buffer κ ν φ) : Prop := b.fidxList.length = 2 ∧ LiveEntries b

theorem c13_live_keyed (b : Buffer κ ν φ) (h : LiveEntries b) : nkcKeyed b = true := by
  rw [Bridge.nkcKeyed_iff]
  intro kv hkv
  obtain ⟨f, hf, _⟩ := h kv hkv
  exact ⟨f, hf⟩

theorem c13_twoFrames_empty : TwoLiveFrames (Buffer.empty : Buffer κ ν φ) :=
  ⟨rfl, fun kv hkv => absurd hkv List.not_mem_nil⟩

theorem c13_live_prePush (b : Buffer κ ν φ) (f : φ) (h : LiveEntries b) :
    LiveEntries (C13.prePush b f) ∧ some f ∈ (C13.prePush b f).fidxList := by
  unfold C13.prePush
  split
  · rename_i hc
    exact ⟨h, by simpa using hc⟩
  · refine ⟨Bridge.nkc_prune_entries_live _, ?_⟩
    rw [C13.prune_fidxList]
    show some f ∈ b.fidxList.tail ++ [some f]
    simp

theorem c13_twoFrames_push (b : Buffer κ ν φ) (k : κ) (v : ν) (f : φ) (h : TwoLiveFrames b) :
    TwoLiveFrames (b.push k v f) := by
  refine ⟨C13.push_two_live_frames b k v f h.1, ?_⟩
  obtain ⟨hl, hf⟩ := c13_live_prePush b f h.2
  rw [C13.push_eq]
  intro kv hkv
  show ∃ g, lookup (assign (C13.prePush b f).fidx k f) kv.1 = some g ∧ some g ∈ (C13.prePush b f).fidxList
  by_cases hk : kv.1 = k
  · exact ⟨f, by rw [hk]; exact C13.lookup_assign_self _ k f, hf⟩
  · rw [C13.lookup_assign_other _ k kv.1 f hk]
    rcases Bridge.nkc_mem_assign_key _ k v kv hkv with h1 | ⟨q', hq', e⟩
    · exact absurd h1 hk
    · rw [← e]; exact hl q' hq'

theorem c13_twoFrames_getVar (load : κ → ν) (frameOf : κ → φ) (b : Buffer κ ν φ) (k : κ) (h : TwoLiveFrames b) :
    TwoLiveFrames (getVar load frameOf b k).1 := by
  unfold getVar
  split
  · exact h
  · exact c13_twoFrames_push _ _ _ _ h

/-- **C13, "at most two frames live", on the interpretation of the class `Buffer`** (`Gen.nk_buffer_ctor_seq`,
`nk_buffer_push_seq`, `nk_buffer_prune_seq`, `nk_buffer_contains_seq`, `nk_buffer_getitem_seq`).  `Buffer()` followed
by any history of `push(k, v, frame)` calls never raises; the resulting buffer has exactly two frame slots, and every
entry it holds carries the tag of one of these two frames (everything older has been pruned); pushing one more
`(k, v, frame)` makes `k in buffer` true and `buffer[k]` equal to `v`.  No hypothesis. -/
theorem c13_buffer_two_frames (reqs : List (κ × ν × φ)) :
    ∃ b0 b : Buffer κ ν φ, nkcBufferCtorSeq = some (some b0) ∧ Bridge.nkcPushAll b0 reqs = some (some b) ∧
      b.fidxList.length = 2 ∧
      (∀ kv ∈ b.buf, ∃ f, lookup b.fidx kv.1 = some f ∧ some f ∈ b.fidxList) ∧
      ∀ (k : κ) (v : ν) (f : φ), ∃ b', nkcPushSeq b k v f = some (some b') ∧
        nkcContainsSeq b' k = some (some true) ∧ nkcGetitemSeq b' k = some (some v) ∧
        b'.fidxList.length = 2 := by
  have hgood : ∀ (rs : List (κ × ν × φ)) (b : Buffer κ ν φ), TwoLiveFrames b →
      TwoLiveFrames (rs.foldl (fun b r => b.push r.1 r.2.1 r.2.2) b) := by
    intro rs
    induction rs with
    | nil => intro b h; exact h
    | cons r rest ih => intro b h; exact ih _ (c13_twoFrames_push b _ _ _ h)
  have hfin := hgood reqs _ (c13_twoFrames_empty (κ := κ) (ν := ν) (φ := φ))
  refine ⟨Buffer.empty, _, Bridge.nk_buffer_ctor, (Bridge.nkcPushAll_keyed reqs _ Bridge.nkcKeyed_empty).1,
    hfin.1, hfin.2, ?_⟩
  intro k v f
  obtain ⟨h1, h2, h3, _⟩ := Bridge.nk_buffer_push_served _ k v f (c13_live_keyed _ hfin.2)
  exact ⟨_, h1, h2, h3, (c13_twoFrames_push _ k v f hfin).1⟩

end

/-- example: three pushes over three frames (no hypothesis to discharge) -/
example := c13_buffer_two_frames (κ := String) (ν := Nat) (φ := String) [("a", 1, "h0"), ("b", 2, "h1"), ("a", 3, "h2")]

/-! #### request histories -/

/-- a history of calls of a method that threads the state `B`: `none` = unknown text, `some none` = a call raises -/
def nkRunHistory {B Q R : Type} (call : B → Q → Option (Option (B × R))) : B → List Q → Option (Option (B × List R))
  | b, [] => some (some (b, []))
  | b, q :: qs =>
    match call b q with
    | some (some (b', r)) => (nkRunHistory call b' qs).map (Option.map fun p => (p.1, r :: p.2))
    | some none => some none
    | none => none

theorem nkRunHistory_spec {B Q R : Type} (call : B → Q → Option (Option (B × R))) (Inv : B → Prop) (spec : Q → R)
    (h : ∀ b q, Inv b → ∃ b', call b q = some (some (b', spec q)) ∧ Inv b') (qs : List Q) (b : B) (hb : Inv b) :
    ∃ b', nkRunHistory call b qs = some (some (b', qs.map spec)) ∧ Inv b' := by
  induction qs generalizing b with
  | nil => exact ⟨b, rfl, hb⟩
  | cons q qs ih =>
    obtain ⟨b1, h1, hb1⟩ := h b q hb
    obtain ⟨b2, h2, hb2⟩ := ih b1 hb1
    refine ⟨b2, ?_, hb2⟩
    simp only [nkRunHistory, h1, h2, Option.map_some, List.map_cons]

/-! #### `OnlineDatabase.get_dset`: the file of the requested day -/

section
variable {κ D φ : Type} [DecidableEq κ] [DecidableEq φ]

/-- **C13, "fields come from the file of the requested day … regardless of which times were requested before" (file
level), on the interpretation of `Gen.nk_get_dset_seq` with the interpreted `Buffer` methods as callees.**  From
`Buffer()` and for every history of requested days (forward, repeated, back and forth) `get_dset` never raises and
returns, for each request, the data set `nc.Dataset(pattern.format(day))` of that very day; the buffer of open data sets
keeps two frame slots.  No hypothesis. -/
theorem c13_get_dset_history (fmt : Int → κ) (dayStr : Int → φ) (openDs : κ → D) (days : List Int) :
    ∃ b0 b : Buffer κ D φ, nkcBufferCtorSeq = some (some b0) ∧
      nkRunHistory (fun b day => (nkcGetDsetSeq fmt dayStr openDs b day).map (Option.map fun r => (r.1, r.2.1))) b0 days
        = some (some (b, days.map fun day => some (openDs (fmt day)))) ∧
      b.fidxList.length = 2 := by
  obtain ⟨b, hb, hinv⟩ := nkRunHistory_spec
    (fun b day => (nkcGetDsetSeq fmt dayStr openDs b day).map (Option.map fun r => (r.1, r.2.1)))
    (fun b : Buffer κ D φ => C13.Valid openDs b ∧ TwoLiveFrames b) (fun day => some (openDs (fmt day)))
    (by
      intro b day ⟨hv, ht⟩
      obtain ⟨h1, _⟩ := Bridge.nk_get_dset fmt dayStr openDs b day (c13_live_keyed b ht.2)
      obtain ⟨h3, h4⟩ := C13.getVar_transparent openDs (fun _ => dayStr day) b (fmt day) hv
      refine ⟨(getVar openDs (fun _ => dayStr day) b (fmt day)).1, ?_, h4, c13_twoFrames_getVar _ _ _ _ ht⟩
      rw [h1, ← h3]; rfl)
    days Buffer.empty ⟨C13.valid_empty openDs, c13_twoFrames_empty⟩
  exact ⟨Buffer.empty, b, Bridge.nk_buffer_ctor, hb, hinv.2.1⟩

end

/-- example: today, tomorrow, today again (no hypothesis to discharge) -/
example := c13_get_dset_history (κ := Int) (D := Int) (φ := Int) id id id [19000, 19001, 19000]

/-! #### `OnlineDatabase._get_var`: the record of the requested day and hour -/

section
variable {ν φ D : Type} [DecidableEq φ]

/-- two times in the same hour lie in the same day: `get_dset`, which opens the file of the day of `time`
(`c13_get_dset_history`), satisfies the hypothesis `hday` below -/
theorem c13_sameHour_sameDay (t t' : Int) (h : hourOfUs t = hourOfUs t') : nkcDayOfUs t = nkcDayOfUs t' := by
  unfold hourOfUs at h
  unfold nkcDayOfUs
  rw [Int.fdiv_eq_ediv_of_nonneg _ (by decide)] at h
  rw [Int.fdiv_eq_ediv_of_nonneg _ (by decide)] at h
  rw [Int.fdiv_eq_ediv_of_nonneg _ (by decide), Int.fdiv_eq_ediv_of_nonneg _ (by decide)]
  omega

/-- the backing-file read is a function of the key `(name, hour string)`: the `load` of the bridges exists -/
theorem c13_load_exists (getDset : Int → D) (readVar : D → String → Int → ν) (hourStr : Int → φ)
    (hinj : Function.Injective hourStr) (hday : ∀ t t', hourOfUs t = hourOfUs t' → getDset t = getDset t') :
    ∃ load : String × φ → ν, ∀ n t, load (n, hourStr (hourOfUs t)) = readVar (getDset t) n (hourOfDayUs t) := by
  classical
  refine ⟨fun k => if h : ∃ t, hourStr (hourOfUs t) = k.2 then
      readVar (getDset h.choose) k.1 (hourOfDayUs h.choose) else readVar (getDset 0) k.1 0, ?_⟩
  intro n t
  have hex : ∃ t', hourStr (hourOfUs t') = hourStr (hourOfUs t) := ⟨t, rfl⟩
  simp only [dif_pos hex]
  have he := hinj hex.choose_spec
  rw [hday _ _ he]
  unfold hourOfDayUs
  rw [he]

/-- **C13, "fields come from the file of the requested day and hour regardless of which times were requested before",
on the interpretation of `Gen.nk_get_var1_seq` (`OnlineDatabase._get_var`; `self._vars_buf` starts as the interpreted
`Buffer()`).**  For every history of requests `(name, time)` — forward, repeated, back and forth, across hours and
days — no call raises and the `i`-th call returns `dset[name][hour of day of time]` of the data set of its own `time`
(never a stale array); the buffer keeps two frame slots and only entries of these two hours.

Hypotheses forced by the bridge `Bridge.nk_get_var1` (its `hload`: the array read is a function of the buffer key
`(name, str(hour))`): `hinj` — `str` of distinct hours are distinct; `hday` — `get_dset` returns the same data set
for two times within the same hour (it returns the file of the day: `c13_get_dset_history`, `c13_sameHour_sameDay`). -/
theorem c13_get_var_history (getDset : Int → D) (readVar : D → String → Int → ν) (hourStr : Int → φ)
    (hinj : Function.Injective hourStr) (hday : ∀ t t', hourOfUs t = hourOfUs t' → getDset t = getDset t')
    (reqs : List (String × Int)) :
    ∃ b0 b : Buffer (String × φ) ν φ, nkcBufferCtorSeq = some (some b0) ∧
      nkRunHistory (fun b q => (getVar1Seq getDset readVar hourStr b q.1 q.2).map (Option.map fun r => (r.1, r.2.1)))
          b0 reqs
        = some (some (b, reqs.map fun q => some (readVar (getDset q.2) q.1 (hourOfDayUs q.2)))) ∧
      b.fidxList.length = 2 ∧
      (∀ kv ∈ b.buf, ∃ f, lookup b.fidx kv.1 = some f ∧ some f ∈ b.fidxList) := by
  obtain ⟨load, hload⟩ := c13_load_exists getDset readVar hourStr hinj hday
  obtain ⟨b, hb, hinv⟩ := nkRunHistory_spec
    (fun b (q : String × Int) =>
      (getVar1Seq getDset readVar hourStr b q.1 q.2).map (Option.map fun r => (r.1, r.2.1)))
    (fun b : Buffer (String × φ) ν φ => C13.Valid load b ∧ TwoLiveFrames b)
    (fun q => some (readVar (getDset q.2) q.1 (hourOfDayUs q.2)))
    (by
      intro b q ⟨hv, ht⟩
      obtain ⟨h3, h4⟩ := C13.getVar_transparent load Prod.snd b (q.1, hourStr (hourOfUs q.2)) hv
      refine ⟨(getVar load Prod.snd b (q.1, hourStr (hourOfUs q.2))).1, ?_, h4, c13_twoFrames_getVar _ _ _ _ ht⟩
      rw [Bridge.nk_get_var1 getDset readVar hourStr load b q.1 q.2 (hload q.1 q.2), ← hload, ← h3]; rfl)
    reqs Buffer.empty ⟨C13.valid_empty load, c13_twoFrames_empty⟩
  exact ⟨Buffer.empty, b, Bridge.nk_buffer_ctor, hb, hinv.2.1, hinv.2.2⟩

end

/-- example: hour strings = hour numbers, the data set of a time = its day number (`hday` by `c13_sameHour_sameDay`); a
request at 00:00, one 25 h later, and the first one again -/
example := c13_get_var_history (ν := Int × String × Int) (φ := Int) (D := Int) nkcDayOfUs (fun d n i => (d, n, i)) id
  (fun _ _ h => h) (fun t t' h => c13_sameHour_sameDay t t' h) [("u", 0), ("v", 90000000000), ("u", 0)]

/-! #### `Forcing.update` + `Forcing.velocity` → `OnlineDatabase.get_var` → `_get_var` → `interp` -/

section
variable {α : Type} [_root_.Field α] [LinearOrder α] [IsStrictOrderedRing α] [HasOfInt α]

/-- **C13, the time blend of `interp` (the generated formula `Gen.nk_interp`).**  The generated text is one of two:
the repaired one (`Weights.forward`), for which the blend is the linear interpolation `v1 + q (v2 − v1)` between the
field of the hour (`v1`) and of the next hour (`v2`), equals the stored field `v1` at whole hours (`q = 0`) and lies
between the two fields for `0 ≤ q ≤ 1` — the property's clause; or the text as it is (`Weights.backward`, KNOWN finding
F-C13a), for which the blend is the mirror image in time `v1 + (1 − q)(v2 − v1)` of that interpolant and returns the field
of the NEXT hour at whole hours. -/
theorem c13_time_blend (v1 v2 q : α) :
    ∃ w : Weights, (∀ a b c : α, Gen.nk_interp a b c = interpW w a b c) ∧
      (w = .forward → Gen.nk_interp v1 v2 q = v1 + q * (v2 - v1) ∧ Gen.nk_interp v1 v2 0 = v1 ∧
        (0 ≤ q → q ≤ 1 → min v1 v2 ≤ Gen.nk_interp v1 v2 q ∧ Gen.nk_interp v1 v2 q ≤ max v1 v2)) ∧
      (w = .backward → Gen.nk_interp v1 v2 q = v1 + (1 - q) * (v2 - v1) ∧ Gen.nk_interp v1 v2 0 = v2) := by
  obtain ⟨w, hw⟩ := Bridge.nk_interp_weights (α := α)
  refine ⟨w, hw, ?_, ?_⟩
  · rintro rfl
    rw [hw, hw]
    exact ⟨C13.interp_is_lerp v1 v2 q, C13.interp_whole_hour v1 v2, fun h0 h1 => C13.interp_between v1 v2 q h0 h1⟩
  · rintro rfl
    rw [hw, hw]
    refine ⟨?_, C13.backward_whole_hour_fails v1 v2⟩
    rw [C13.backward_is_mirrored, C13.interp_is_lerp]

variable {ν φ D K Z : Type} [DecidableEq φ]

/-- **C13, "currents returned for time t are the … interpolation between the hourly fields that bracket t", on the
interpretation of `Gen.nk_update_seq`, `Gen.nk_velocity_seq`, `Gen.nk_get_var_seq`, `Gen.nk_get_var1_seq` and the
generated formula `Gen.nk_interp`, every callee interpreted.**  After `update(t)`, `velocity(x, y, z, num/den)` on a
data base whose buffer `b` was reached by any history of such calls from `Buffer()` (invariant `Valid ∧ TwoLiveFrames`,
true of `Buffer()` and re-established by every call — `c13_velocity_history` unrolls it) does not raise and returns,
for `'u'` and for `'v'`,
`Gen.nk_interp (field of the hour of time) (field of the next hour) q`, both fields read from the data set of their own
time (`dset[name][hour of day]`, the next hour possibly in the next day's file), sampled by `map_coordinates` at
`(z2k(z), y, x)`; `time` is `current_time + step·num/den` to the microsecond (exactly so for the sub-steps 0, 1/2, 1
that LADiM's integrators use); the weight `q ∈ [0, 1)` is the fraction of the hour elapsed and is 0 exactly at whole
hours.  With `c13_time_blend`: linear interpolation for the repaired text, its mirror image for the text as it is.

Hypotheses: `hload` (forced by `Bridge.nk_get_var1`: the array read is a function `load` of the buffer key
`(name, str(hour))`; `c13_load_exists` constructs it from `hinj`, `hday` of `c13_get_var_history`); `hof` — `ofInt` is the
integer cast of the field (the bridge leaves `HasOfInt` abstract); the loop invariant on `b` (stated with that `load`). -/
theorem c13_velocity_served (hof : ∀ i : Int, (ofInt i : α) = (i : α))
    (start step t num den : Int) (z2k : Z → K) (getDset : Int → D) (readVar : D → String → Int → ν)
    (hourStr : Int → φ)
    (sample : ν → K → α → α → α) (x y : α) (z : Z) (cur0 : Option Int) (b : Buffer (String × φ) ν φ)
    (load : String × φ → ν)
    (hload : ∀ n t, load (n, hourStr (hourOfUs t)) = readVar (getDset t) n (hourOfDayUs t))
    (hb : C13.Valid load b ∧ TwoLiveFrames b) :
    ∃ (cur time : Int) (q : α) (b' : Buffer (String × φ) ν φ),
      updateSeq start step t cur0 = some (some (some cur)) ∧ cur = start + step * t ∧
      time = subTimeUs start step t num den ∧
      (den = 2 → (num = 0 ∨ num = 1 ∨ num = 2) → time = (start + step * t) * 1000000 + step * num * 500000) ∧
      q = ((time % 3600000000 : Int) : α) / 3600000000 ∧ 0 ≤ q ∧ q < 1 ∧ (q = 0 ↔ (3600000000 : Int) ∣ time) ∧
      velocityFull step num den z2k getDset readVar hourStr sample x y z (some cur) b
        = some (some (b',
            Gen.nk_interp (sample (readVar (getDset time) "u" (hourOfDayUs time)) (z2k z) y x)
              (sample (readVar (getDset (time + hourUs)) "u" (hourOfDayUs (time + hourUs))) (z2k z) y x) q,
            Gen.nk_interp (sample (readVar (getDset time) "v" (hourOfDayUs time)) (z2k z) y x)
              (sample (readVar (getDset (time + hourUs)) "v" (hourOfDayUs (time + hourUs))) (z2k z) y x) q)) ∧
      (C13.Valid load b' ∧ TwoLiveFrames b') := by
  obtain ⟨w, hw⟩ := Bridge.nk_interp_weights (α := α)
  obtain ⟨b', hv', he⟩ := Bridge.velocityModel_valid w z2k load hourStr sample x y z
    (subTimeUs start step t num den) b hb.1
  have hfr := C13.hour_fraction_us_range (subTimeUs start step t num den)
  have hpos : (0 : α) < 3600000000 := by norm_num
  refine ⟨timeOfStep start step t, subTimeUs start step t num den, _, b', Bridge.nk_update start step t cur0, rfl, rfl,
    ?_, rfl, ?_, ?_, ?_, ?_, hv', ?_⟩
  · rintro rfl hn; exact C13.substep_time_exact start step t num hn
  · apply div_nonneg _ hpos.le
    exact_mod_cast hfr.1
  · rw [div_lt_one hpos]
    have := hfr.2.1
    simp only [hourFractionUs] at this
    exact_mod_cast this
  · rw [div_eq_zero_iff]
    constructor
    · rintro (h | h)
      · exact hfr.2.2.1 (by simp only [hourFractionUs]; exact_mod_cast h)
      · exact absurd h hpos.ne'
    · intro h
      left
      have := hfr.2.2.2 h
      simp only [hourFractionUs] at this
      exact_mod_cast this
  · rw [Bridge.nk_velocity_full_of w hw start step t num den z2k getDset readVar hourStr load hload sample x y z b, he]
    have hn : ∀ n τ, load (n, hourStr (hourOfUs τ + 1)) = readVar (getDset (τ + hourUs)) n (hourOfDayUs (τ + hourUs)) := by
      intro n τ
      rw [← Bridge.hour_of_next, hload]
    simp only [interpArr, hourFractionUs, hload, hn, hw, hof]
    norm_num
    exact ⟨rfl, rfl⟩
  · -- the frame invariant: `velocityModel` is four cached fetches
    have hfetch : ∀ (b : Buffer (String × φ) ν φ) n τ r, TwoLiveFrames b → fetch load hourStr b n τ = some r →
        TwoLiveFrames r.1 := by
      intro b n τ r ht hr
      unfold fetch served at hr
      have := c13_twoFrames_getVar load Prod.snd b (n, hourStr (hourOfUs τ)) ht
      cases hg : (getVar load Prod.snd b (n, hourStr (hourOfUs τ))).2.1 with
      | none => rw [hg] at hr; simp at hr
      | some v => rw [hg] at hr; simp at hr; rw [← hr]; exact this
    have hspec : ∀ (b : Buffer (String × φ) ν φ) n τ r, TwoLiveFrames b →
        getVarSpec (fetch load hourStr) b n τ = some r → TwoLiveFrames r.1 := by
      intro b n τ r ht hr
      unfold getVarSpec at hr
      cases h1 : fetch load hourStr b n τ with
      | none => rw [h1] at hr; simp at hr
      | some r1 =>
        rw [h1] at hr
        simp only [Option.bind_some] at hr
        cases h2 : fetch load hourStr r1.1 n (τ + hourUs) with
        | none => rw [h2] at hr; simp at hr
        | some r2 =>
          rw [h2] at hr
          simp at hr
          rw [← hr]
          exact hfetch _ _ _ _ (hfetch _ _ _ _ ht h1) h2
    unfold velocityModel velocitySpec at he
    cases h1 : getVarSpec (fetch load hourStr) b "u" (subTimeUs start step t num den) with
    | none => rw [h1] at he; simp at he
    | some r1 =>
      rw [h1] at he
      simp only [Option.bind_some] at he
      cases h2 : getVarSpec (fetch load hourStr) r1.1 "v" (subTimeUs start step t num den) with
      | none => rw [h2] at he; simp at he
      | some r2 =>
        rw [h2] at he
        simp at he
        rw [← he.1]
        exact hspec _ _ _ _ (hspec _ _ _ _ hb.2 h1) h2

end

open C1213ExQ in
/-- example over ℚ: `Buffer()` satisfies the invariant; `load` from `c13_load_exists`; start 2020-01-01, `dt = 600 s`,
step 5, half step -/
example (sample : (Int × String × Int) → ℚ → ℚ → ℚ → ℚ) : True := by
  obtain ⟨load, hload⟩ := c13_load_exists (ν := Int × String × Int) (φ := Int) nkcDayOfUs (fun d n i => (d, n, i)) id
    (fun _ _ h => h) (fun t t' h => c13_sameHour_sameDay t t' h)
  have := c13_velocity_served (α := ℚ) (K := ℚ) (Z := ℚ) exQ_ofInt 1577836800 600 5 1 2 id nkcDayOfUs
    (fun d n i => (d, n, i)) id sample (3 / 2) (5 / 2) 10 none Buffer.empty load hload
    ⟨C13.valid_empty load, c13_twoFrames_empty⟩
  trivial

section
variable {α : Type} [_root_.Field α] [LinearOrder α] [IsStrictOrderedRing α] [HasOfInt α]
variable {ν φ D K Z : Type} [DecidableEq φ]

/-- one request of the particle tracker: `update(t)` then `velocity(x, y, z, num/den)` -/
structure NkVelReq (α Z : Type) where
  t : Int
  num : Int
  den : Int
  x : α
  y : α
  z : Z

/-- **C13, the same for every request history (forward, repeated, back and forth, crossing hours and days, all
sub-step fractions), from the interpreted `Buffer()`.**  The `i`-th call returns the blend (`Gen.nk_interp`) of the two
hourly fields that bracket ITS time, each read from the data set of its own day and hour — whatever was requested
before; no call raises; the buffer ends with two frame slots.  Hypotheses: `hinj`, `hday`, `hof` as above. -/
theorem c13_velocity_history (hof : ∀ i : Int, (ofInt i : α) = (i : α))
    (start step : Int) (z2k : Z → K) (getDset : Int → D) (readVar : D → String → Int → ν)
    (hourStr : Int → φ) (hinj : Function.Injective hourStr)
    (hday : ∀ t t', hourOfUs t = hourOfUs t' → getDset t = getDset t')
    (sample : ν → K → α → α → α) (reqs : List (NkVelReq α Z)) :
    ∃ b0 b : Buffer (String × φ) ν φ, nkcBufferCtorSeq = some (some b0) ∧
      nkRunHistory (fun b (r : NkVelReq α Z) =>
          match updateSeq start step r.t none with
          | some (some cur) => velocityFull step r.num r.den z2k getDset readVar hourStr sample r.x r.y r.z cur b
          | some none => some none
          | none => none) b0 reqs
        = some (some (b, reqs.map fun r =>
            let time := subTimeUs start step r.t r.num r.den
            let q : α := ((time % 3600000000 : Int) : α) / 3600000000
            (Gen.nk_interp (sample (readVar (getDset time) "u" (hourOfDayUs time)) (z2k r.z) r.y r.x)
               (sample (readVar (getDset (time + hourUs)) "u" (hourOfDayUs (time + hourUs))) (z2k r.z) r.y r.x) q,
             Gen.nk_interp (sample (readVar (getDset time) "v" (hourOfDayUs time)) (z2k r.z) r.y r.x)
               (sample (readVar (getDset (time + hourUs)) "v" (hourOfDayUs (time + hourUs))) (z2k r.z) r.y r.x) q))) ∧
      b.fidxList.length = 2 := by
  obtain ⟨load, hload⟩ := c13_load_exists getDset readVar hourStr hinj hday
  obtain ⟨b, hb, hinv⟩ := nkRunHistory_spec
    (fun b (r : NkVelReq α Z) =>
          match updateSeq start step r.t none with
          | some (some cur) => velocityFull step r.num r.den z2k getDset readVar hourStr sample r.x r.y r.z cur b
          | some none => some none
          | none => none)
    (fun b : Buffer (String × φ) ν φ => C13.Valid load b ∧ TwoLiveFrames b)
    (fun r =>
            let time := subTimeUs start step r.t r.num r.den
            let q : α := ((time % 3600000000 : Int) : α) / 3600000000
            (Gen.nk_interp (sample (readVar (getDset time) "u" (hourOfDayUs time)) (z2k r.z) r.y r.x)
               (sample (readVar (getDset (time + hourUs)) "u" (hourOfDayUs (time + hourUs))) (z2k r.z) r.y r.x) q,
             Gen.nk_interp (sample (readVar (getDset time) "v" (hourOfDayUs time)) (z2k r.z) r.y r.x)
               (sample (readVar (getDset (time + hourUs)) "v" (hourOfDayUs (time + hourUs))) (z2k r.z) r.y r.x) q))
    (by
      intro b r hb
      obtain ⟨cur, time, q, b', h1, _, h3, _, h5, _, _, _, h9, h10⟩ :=
        c13_velocity_served hof start step r.t r.num r.den z2k getDset readVar hourStr sample r.x r.y r.z none b
          load hload hb
      refine ⟨b', ?_, h10⟩
      subst h3 h5
      simp only [h1, h9])
    reqs Buffer.empty ⟨C13.valid_empty load, c13_twoFrames_empty⟩
  exact ⟨Buffer.empty, b, Bridge.nk_buffer_ctor, hb, hinv.2.1⟩

end

open C1213ExQ in
/-- example over ℚ: forward, further forward with a half step, back with a full step -/
example (sample : (Int × String × Int) → ℚ → ℚ → ℚ → ℚ) :=
  c13_velocity_history (α := ℚ) (K := ℚ) (Z := ℚ) (ν := Int × String × Int) (φ := Int) (D := Int) exQ_ofInt
    1577836800 600 id nkcDayOfUs (fun d n i => (d, n, i)) id (fun _ _ h => h)
    (fun t t' h => c13_sameHour_sameDay t t' h) sample
    [⟨0, 0, 2, 3 / 2, 5 / 2, 10⟩, ⟨7, 1, 2, 3 / 2, 5 / 2, 10⟩, ⟨3, 2, 2, 1, 1, 0⟩]

/-! #### class `Grid`: `ingrid`, `sample_metric`, `sample_depth`, `ll2xy`, `z2k` -/

section
variable {α : Type} [_root_.Field α] [LinearOrder α] [IsStrictOrderedRing α] [HasOfInt α] [HasRound α] [HasTrunc α]

/-- **C13, "every position the grid reports as inside yields finite cell sizes and a depth", on the interpretation of
`Gen.nk_init_gridlimits_seq`, `Gen.nk_ingrid_seq`, `Gen.nk_sample_metric_seq`, `Gen.nk_sample_depth_seq`.**  With the
limits that `_init_gridlimits` sets for a file with `dimX × dimY` grid points: if `ingrid(x, y)` is true, then
`sample_metric` returns `(dx[i], dy[j])` with `i = min(round x, dimX − 2) ∈ [0, dimX − 2]`,
`j = min(round y, dimY − 2) ∈ [0, dimY − 2]` — valid indices of `dx = diff(X)`, `dy = diff(Y)` (lengths `dimX − 1`,
`dimY − 1`), the outermost in-grid cells included — and `sample_depth` returns `h[round y, round x]` with
`1 ≤ round x ≤ dimX − 1`, `1 ≤ round y ≤ dimY − 1`, a valid index of `h` (shape `dimY × dimX`): the nearest cell.

Hypotheses forced by the bridges, which leave the scalar operations abstract: `hof` (`ofInt` is the integer cast) and
`hround` (`x.round().astype(int)` is a nearest integer, whatever the tie rule). -/
theorem c13_ingrid_metric_depth {β : Type} (hof : ∀ i : Int, (ofInt i : α) = (i : α))
    (hround : ∀ x : α, ((roundInt x : Int) : α) - 1 / 2 ≤ x ∧ x ≤ ((roundInt x : Int) : α) + 1 / 2)
    (dimX dimY : Int) (dxArr dyArr : Int → β) (hArr : Int → Int → β) (x y : α) :
    ∃ l : NkcLimits, nkcInitGridlimitsSeq dimX dimY = some (some l) ∧
      (nkcIngridSeq l x y = some (some true) →
        ∃ i j : Int, (0 ≤ i ∧ i ≤ dimX - 2) ∧ (0 ≤ j ∧ j ≤ dimY - 2) ∧
          i = min (roundInt x) (dimX - 2) ∧ j = min (roundInt y) (dimY - 2) ∧
          (1 ≤ roundInt x ∧ roundInt x ≤ dimX - 1) ∧ (1 ≤ roundInt y ∧ roundInt y ≤ dimY - 1) ∧
          sampleMetricSeq l.xmin l.xmax l.ymin l.ymax dxArr dyArr x y = some (some (dxArr i, dyArr j)) ∧
          sampleDepthSeq hArr x y = some (some (hArr (roundInt y) (roundInt x)))) := by
  refine ⟨⟨0, dimX, 0, dimY⟩, Bridge.nk_init_gridlimits dimX dimY, ?_⟩
  intro hin
  obtain ⟨⟨hx1, hx2⟩, ⟨hy1, hy2⟩⟩ := (Bridge.nk_ingrid_iff hof dimX dimY x y).1 hin
  have hrx : 1 ≤ roundInt x ∧ roundInt x ≤ dimX - 1 := by
    obtain ⟨ha, hb⟩ := hround x
    constructor
    · have : (0 : α) < ((roundInt x : Int) : α) := by linarith
      have : (0 : Int) < roundInt x := by exact_mod_cast this
      omega
    · have : ((roundInt x : Int) : α) < (dimX : α) := by linarith
      have : roundInt x < dimX := by exact_mod_cast this
      omega
  have hry : 1 ≤ roundInt y ∧ roundInt y ≤ dimY - 1 := by
    obtain ⟨ha, hb⟩ := hround y
    constructor
    · have : (0 : α) < ((roundInt y : Int) : α) := by linarith
      have : (0 : Int) < roundInt y := by exact_mod_cast this
      omega
    · have : ((roundInt y : Int) : α) < (dimY : α) := by linarith
      have : roundInt y < dimY := by exact_mod_cast this
      omega
  refine ⟨metricIndex (dimX - 2) (roundInt x), metricIndex (dimY - 2) (roundInt y), ?_, ?_, ?_, ?_, hrx, hry,
    Bridge.nk_sample_metric 0 dimX 0 dimY dxArr dyArr x y rfl rfl, Bridge.nk_sample_depth hArr x y⟩
  · have := C13.metric_index_in_range dimX (roundInt x) hrx.1 hrx.2 (by omega); exact ⟨this.1, this.2.1⟩
  · have := C13.metric_index_in_range dimY (roundInt y) hry.1 hry.2 (by omega); exact ⟨this.1, this.2.1⟩
  · unfold metricIndex; omega
  · unfold metricIndex; omega

open C1213ExQ in
/-- example over ℚ, a 5 × 4 file: the position `(4.4, 1)` is inside, in the outermost column: `round x = 4 = dimX − 1`,
metric index `3 = dimX − 2` -/
example : nkcIngridSeq ⟨0, 5, 0, 4⟩ (44 / 10 : ℚ) (1 : ℚ) = some (some true) := by
  rw [Bridge.nk_ingrid_iff exQ_ofInt]; norm_num
open C1213ExQ in
example (dxArr dyArr : Int → ℚ) (hArr : Int → Int → ℚ) :=
  c13_ingrid_metric_depth (α := ℚ) exQ_ofInt exQ_round 5 4 dxArr dyArr hArr (44 / 10) 1

/-- **C13, "lon/lat to grid conversion matches the file's own coordinate arrays" (PARTIAL), on the interpretation of
`Gen.nk_ll2xy_seq` with the interpreted `sample_metric` / `_init_gridlimits`.**  `ll2xy` divides the projected
coordinates by the metric of cell `(0, 0)`, `dx[0] = X[1] − X[0]`.  Hence a point whose projection is the file's grid
point `(X[i], Y[j])` is mapped to the grid coordinates `(i, j)` — PROVIDED the file's coordinate arrays are uniformly
spaced and start at 0 (`X[i] = i · dx[0]`, `Y[j] = j · dy[0]`: true of the polar-stereographic NorKyst-800 files, not
implied by the property's side conditions; what is missing is a statement for non-uniform or offset arrays, for which
the code is not exact) and the grid has at least 2 × 2 points (forced by `Bridge.nk_ll2xy_grid`).  The projection
(`pyproj`) is a parameter. -/
theorem c13_ll2xy_matches_coordinates_partial (transform : α → α → α × α) (dimX dimY : Int) (dxArr dyArr : Int → α)
    (Xc Yc : Int → α) (hx : 2 ≤ dimX) (hy : 2 ≤ dimY) (hdx : dxArr 0 ≠ 0) (hdy : dyArr 0 ≠ 0)
    (hX : ∀ i : Int, Xc i = (i : α) * dxArr 0) (hY : ∀ j : Int, Yc j = (j : α) * dyArr 0)
    (lon lat : α) (i j : Int) (hpt : transform lon lat = (Xc i, Yc j)) :
    ∃ l : NkcLimits, nkcInitGridlimitsSeq dimX dimY = some (some l) ∧
      nkcLl2xySeq transform (nkcMetric00 l dxArr dyArr) lon lat = some (some ((i : α), (j : α))) := by
  refine ⟨⟨0, dimX, 0, dimY⟩, Bridge.nk_init_gridlimits dimX dimY, ?_⟩
  rw [Bridge.nk_ll2xy_grid transform dimX dimY dxArr dyArr lon lat hx hy, hpt, hX, hY]
  simp only [mul_div_assoc, div_self hdx, div_self hdy, mul_one]

open C1213ExQ in
/-- example over ℚ: 800 m spacing, identity projection; the point `(1600, 800)` is grid point `(2, 1)` -/
example := c13_ll2xy_matches_coordinates_partial (α := ℚ) (fun a b => (a, b)) 5 4 (fun _ => 800) (fun _ => 800)
  (fun i => (i : ℚ) * 800) (fun j => (j : ℚ) * 800) (by decide) (by decide) (by norm_num) (by norm_num)
  (fun _ => rfl) (fun _ => rfl) 1600 800 2 1 (by norm_num)

/-! #### `z2k` -/

theorem c13_arange_pairwise (hof : ∀ i : Int, (ofInt i : α) = (i : α)) (n : Nat) :
    List.Pairwise (· ≤ ·) (nkcArange n : List α) := by
  unfold nkcArange
  rw [List.pairwise_map]
  refine List.Pairwise.imp ?_ List.pairwise_lt_range
  intro a b hab
  rw [hof, hof]
  have : (Int.ofNat a) ≤ (Int.ofNat b) := by simp; omega
  exact_mod_cast this

theorem c13_interp_knot (xs ys : List α) (hlen : xs.length = ys.length) (hx : List.Pairwise (· < ·) xs)
    (i : Nat) (hi : i < xs.length) : interp xs ys xs[i] = some (ys[i]'(hlen ▸ hi)) := by
  induction xs generalizing ys i with
  | nil => simp at hi
  | cons x0 xs ih =>
    cases ys with
    | nil => simp at hlen
    | cons y0 ys =>
      cases xs with
      | nil =>
        cases ys with
        | nil =>
          have : i = 0 := by simpa using hi
          subst this
          simp [interp, interpGo]
        | cons _ _ => simp at hlen
      | cons x1 xs =>
        cases ys with
        | nil => simp at hlen
        | cons y1 ys =>
          have h01 : x0 < x1 := (List.pairwise_cons.1 hx).1 x1 (by simp)
          cases i with
          | zero => exact C13.z2k_exact_first x0 x1 y0 y1 xs ys h01
          | succ i =>
            have hi' : i < (x1 :: xs).length := by simpa using hi
            have hx' := (List.pairwise_cons.1 hx).2
            have hge : x1 ≤ (x1 :: xs)[i] := by
              cases i with
              | zero => exact le_refl _
              | succ i => exact le_of_lt ((List.pairwise_cons.1 hx').1 _ (List.getElem_mem _))
            show interp (x0 :: x1 :: xs) (y0 :: y1 :: ys) (x1 :: xs)[i] = some ((y1 :: ys)[i]'_)
            rw [C13.z2k_tail x0 x1 y0 y1 xs ys _ h01 hge]
            exact ih (y1 :: ys) (by simpa using hlen) hx' i hi'

/-- **C13, "depth to level conversion is monotone and exact at the tabulated depths", on the interpretation of
`Gen.nk_grid_z2k_seq` (`Grid.z2k`) and `Gen.nk_forcing_z2k_seq` (`Forcing.z2k`, the one `velocity` calls).**  For a
non-empty table of strictly increasing level depths: `z2k` never raises; it is non-decreasing in the depth; and at the
`i`-th tabulated depth it returns exactly the level number `i` (every `i`).

Hypotheses: the depth table is non-empty and strictly increasing (well-formed file); `hof` (`ofInt` is the integer cast;
the bridge leaves it abstract). -/
theorem c13_z2k_monotone_exact (hof : ∀ i : Int, (ofInt i : α) = (i : α)) (prog : List Stmt)
    (hprog : prog = Gen.nk_grid_z2k_seq ∨ prog = Gen.nk_forcing_z2k_seq) (depth : List α) (hne : depth ≠ [])
    (hd : List.Pairwise (· < ·) depth) :
    (∀ z, ∃ k, nkcZ2kSeq prog depth z = some (some k)) ∧
    (∀ z₁ z₂ k₁ k₂, z₁ ≤ z₂ → nkcZ2kSeq prog depth z₁ = some (some k₁) → nkcZ2kSeq prog depth z₂ = some (some k₂) →
      k₁ ≤ k₂) ∧
    (∀ (i : Nat) (hi : i < depth.length), nkcZ2kSeq prog depth depth[i] = some (some ((i : Nat) : α))) := by
  have hrun : ∀ z, nkcZ2kSeq prog depth z = some (interp depth (nkcArange depth.length) z) := by
    intro z
    rcases hprog with rfl | rfl
    · exact Bridge.nk_grid_z2k depth z
    · exact Bridge.nk_forcing_z2k depth z
  have hlen : depth.length = (nkcArange depth.length : List α).length := by simp [nkcArange]
  refine ⟨?_, ?_, ?_⟩
  · intro z
    rw [hrun]
    cases depth with
    | nil => exact absurd rfl hne
    | cons d0 ds => rw [List.length_cons, Bridge.nkcArange_succ]; exact ⟨_, rfl⟩
  · intro z₁ z₂ k₁ k₂ hz h1 h2
    rw [hrun] at h1 h2
    exact C13.z2k_monotone depth _ z₁ z₂ k₁ k₂ hd (c13_arange_pairwise hof _) hz (Option.some.inj h1) (Option.some.inj h2)
  · intro i hi
    rw [hrun, c13_interp_knot depth _ hlen hd i hi]
    simp [nkcArange, hof]

end

open C1213ExQ in
/-- example over ℚ: level depths 0, 3, 10, 25 -/
example := c13_z2k_monotone_exact (α := ℚ) exQ_ofInt Gen.nk_forcing_z2k_seq (Or.inr rfl) [0, 3, 10, 25]
  (by simp) (by simp; norm_num)

end OnCode
