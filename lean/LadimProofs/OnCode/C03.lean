import LadimProofs.C03
import LadimProofs.Bridge.Release
/-!
# C03 / C17 — property theorems stated for the generated code

`Gen.rel_bary` is the barycentric sampling map of `get_polygon_sample_triangles`, `Gen.rel_triangle_area` the area
formula of `triangle_areas`, both translated from /repo's current source on every run.
-/
open Ladim

set_option linter.unusedSectionVars false
set_option linter.unusedVariables false
namespace OnCode
variable {α : Type} [Field α] [LinearOrder α] [IsStrictOrderedRing α]

/-- every sampled position lies on the inner side of every line that has the three vertices on its inner side:
inside the (closed) triangle, whatever its orientation, for all folded draws `s, t ≥ 0`, `s + t ≤ 1` -/
theorem sample_in_halfplanes (x1 x2 x3 y1 y2 y3 s t a b c : α) (hs : 0 ≤ s) (ht : 0 ≤ t) (hst : s + t ≤ 1)
    (h1 : a * x1 + b * y1 ≤ c) (h2 : a * x2 + b * y2 ≤ c) (h3 : a * x3 + b * y3 ≤ c) :
    a * (Gen.rel_bary x1 x2 x3 y1 y2 y3 s t).1 + b * (Gen.rel_bary x1 x2 x3 y1 y2 y3 s t).2 ≤ c := by
  rw [← Bridge.rel_bary]
  exact C03.sample_in_halfplanes ⟨x1, y1, x2, y2, x3, y3⟩ s t a b c hs ht hst h1 h2 h3

/-- the triangle weights are non-negative and do not depend on the order of the second and third vertex -/
theorem triangle_area (T : Sample.Tri α) :
    0 ≤ Gen.rel_triangle_area (T.x2 - T.x1) (T.y2 - T.y1) (T.x3 - T.x1) (T.y3 - T.y1) ∧
    Gen.rel_triangle_area (T.x3 - T.x1) (T.y3 - T.y1) (T.x2 - T.x1) (T.y2 - T.y1) =
      Gen.rel_triangle_area (T.x2 - T.x1) (T.y2 - T.y1) (T.x3 - T.x1) (T.y3 - T.y1) := by
  have h := C03.triArea_swap T
  rw [Bridge.rel_triangle_area, Bridge.rel_triangle_area] at h
  refine ⟨?_, h⟩
  rw [← Bridge.rel_triangle_area]
  exact C03.triArea_nonneg T

end OnCode
