import LadimProofs.C07
import LadimProofs.Bridge.Age
/-!
# C07 — property theorems stated for the generated code

Each statement below is a property theorem of C05 / C07 / C08 / C16 with the hand-written model function replaced by
the window translated from /repo's current source (`Ladim.Gen.*`), obtained by rewriting with the bridge equalities.
Nothing hand-written stands between these statements and the source except the translator.
-/
open Ladim

set_option linter.unusedSectionVars false
set_option linter.unusedVariables false
namespace OnCode
variable {α : Type} [Field α] [LinearOrder α] [IsStrictOrderedRing α]

/-! ## C07 — death rules -/

/-- salmon lice: alive after the update iff alive before and younger than 170 degree-days -/
theorem lice_alive_iff (alive : Bool) (age : α) : Gen.lice_alive alive age = true ↔ (alive = true ∧ age < 170) := by
  simp only [Gen.lice_alive, Bool.and_eq_true, decide_eq_true_eq]
  have : (170.0 : α) = 170 := by norm_num
  rw [this]

/-- chemicals / sedimentation / mine `kill_old`: the age advances by exactly one step and the particle survives iff it
was alive and its new age does not exceed the lifespan -/
theorem kill_old (age dt L : α) (alive : Bool) :
    ((Gen.chem_kill_old age dt alive L).1 = age + dt ∧ ((Gen.chem_kill_old age dt alive L).2 = true ↔ alive = true ∧ age + dt ≤ L)) ∧
    ((Gen.sed_kill_old age dt alive L).1 = age + dt ∧ ((Gen.sed_kill_old age dt alive L).2 = true ↔ alive = true ∧ age + dt ≤ L)) ∧
    ((Gen.mine_kill_old age dt alive L).1 = age + dt ∧ ((Gen.mine_kill_old age dt alive L).2 = true ↔ alive = true ∧ age + dt ≤ L)) := by
  simp [Gen.chem_kill_old, Gen.sed_kill_old, Gen.mine_kill_old]

end OnCode
