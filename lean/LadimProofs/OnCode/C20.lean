import LadimProofs.C20Measure
import LadimProofs.Laws
import LadimProofs.Bridge.Mixing
/-!
# C20 — the well-mixed theorem, stated for the generated code

`Gen.chem_diffuse_const` and `Gen.chem_reflect` are the statement windows of `chemicals/ibm.py :: diffuse_const` and
`reflect`, translated from /repo's current source on every run.  With the depth uniform on `[0,H]` and the draw `u`
uniform on `[0,1]`, independent, the depth after the constant-diffusivity random walk of the *code* is again uniform
on `[0,H]`, provided the largest possible step `sqrt(2D)·sqrt(3dt)` does not exceed the water depth.
-/
open MeasureTheory Set
open Ladim

set_option linter.unusedSectionVars false
set_option linter.unusedVariables false
namespace OnCode

/-- the largest possible step of the constant-diffusivity walk -/
noncomputable def stepC (D dt : ℝ) : ℝ := Real.sqrt (2 * D) * Real.sqrt (3 * dt)

/-- the displacement as a function of the uniform draw `u` -/
noncomputable def disp (D dt u : ℝ) : ℝ := stepC D dt * (2 * u - 1)

theorem stepC_nonneg (D dt : ℝ) : 0 ≤ stepC D dt :=
  mul_nonneg (Real.sqrt_nonneg _) (Real.sqrt_nonneg _)

/-- the generated statement window of `diffuse_const` is `Z + disp u` -/
theorem chem_diffuse_const_eq (z D dt u : ℝ) :
    Gen.chem_diffuse_const z D dt u = z + disp D dt u := by
  unfold Gen.chem_diffuse_const disp stepC
  simp only [HasSqrt.sqrt]
  lits
  ring

/-- the generated update (walk, then reflection) is one step `T` of the measure-theoretic model -/
theorem chem_update_eq_T (H D dt u z : ℝ) :
    Gen.chem_reflect (Gen.chem_diffuse_const z D dt u) H = C20M.T H (disp D dt u) z := by
  rw [chem_diffuse_const_eq,
    ← Bridge.chem_reflect]
  rfl

theorem measurable_disp (D dt : ℝ) : Measurable (disp D dt) := by
  unfold disp
  fun_prop

theorem disp_neg (D dt u : ℝ) : -disp D dt u = disp D dt (1 - u) := by
  unfold disp
  ring

theorem abs_disp_le (D dt u : ℝ) (hu : u ∈ Icc (0 : ℝ) 1) : |disp D dt u| ≤ stepC D dt := by
  obtain ⟨h0, h1⟩ := hu
  unfold disp
  rw [abs_mul, abs_of_nonneg (stepC_nonneg D dt)]
  have : |2 * u - 1| ≤ 1 := abs_le.mpr ⟨by linarith, by linarith⟩
  calc stepC D dt * |2 * u - 1| ≤ stepC D dt * 1 :=
        mul_le_mul_of_nonneg_left this (stepC_nonneg D dt)
    _ = stepC D dt := mul_one _

/-- `u ↦ 1 - u` preserves the uniform law on `[0,1]` -/
theorem map_one_sub_unit :
    (volume.restrict (Icc (0 : ℝ) 1)).map (fun u => 1 - u) = volume.restrict (Icc (0 : ℝ) 1) := by
  have hm : Measurable (fun u : ℝ => 1 - u) := by fun_prop
  ext A hA
  rw [Measure.map_apply hm hA, Measure.restrict_apply (hm hA), Measure.restrict_apply hA]
  have e : (fun u : ℝ => 1 - u) ⁻¹' A ∩ Icc (0 : ℝ) 1
      = (fun u : ℝ => 1 - u) ⁻¹' (A ∩ Icc (0 : ℝ) 1) := by
    ext x
    simp only [mem_inter_iff, mem_preimage, mem_Icc]
    constructor <;> rintro ⟨h, a, b⟩ <;> exact ⟨h, by linarith, by linarith⟩
  rw [e, C20M.volume_preimage_sub_left]

/-- the law of the displacement: the image of the uniform law on `[0,1]` under `disp` -/
noncomputable def dispLaw (D dt : ℝ) : Measure ℝ :=
  (volume.restrict (Icc (0 : ℝ) 1)).map (disp D dt)

instance (D dt : ℝ) : IsProbabilityMeasure (dispLaw D dt) := by
  have : IsProbabilityMeasure (volume.restrict (Icc (0 : ℝ) 1)) :=
    ⟨by rw [Measure.restrict_apply_univ, Real.volume_Icc]; norm_num⟩
  exact Measure.isProbabilityMeasure_map (measurable_disp D dt).aemeasurable

theorem dispLaw_symm (D dt : ℝ) : (dispLaw D dt).map (fun d => -d) = dispLaw D dt := by
  unfold dispLaw
  rw [Measure.map_map measurable_neg (measurable_disp D dt)]
  have : (fun d : ℝ => -d) ∘ disp D dt = disp D dt ∘ fun u => 1 - u :=
    funext fun u => disp_neg D dt u
  rw [this, ← Measure.map_map (measurable_disp D dt) (by fun_prop), map_one_sub_unit]

theorem dispLaw_supp (D dt H : ℝ) (hstep : stepC D dt ≤ H) : ∀ᵐ d ∂(dispLaw D dt), |d| ≤ H := by
  unfold dispLaw
  have hm : MeasurableSet {d : ℝ | |d| ≤ H} := measurableSet_le (by fun_prop) measurable_const
  rw [ae_map_iff (measurable_disp D dt).aemeasurable hm]
  exact ae_restrict_of_forall_mem measurableSet_Icc
    fun u hu => (abs_disp_le D dt u hu).trans hstep

/-- C20 for the chemicals constant-diffusivity scheme, on the generated code: the uniform law on the column is
invariant under one update, for every diffusivity, time step and depth with `sqrt(2D)·sqrt(3dt) ≤ H` -/
theorem chem_const_walk_wellmixed (H D dt : ℝ) (hH : 0 ≤ H)
    (hstep : Real.sqrt (2 * D) * Real.sqrt (3 * dt) ≤ H) :
    ((volume.restrict (Icc (0 : ℝ) 1)).prod (volume.restrict (Icc 0 H))).map
        (fun p => Gen.chem_reflect (Gen.chem_diffuse_const p.2 D dt p.1) H)
      = volume.restrict (Icc 0 H) := by
  have hfun : (fun p : ℝ × ℝ => Gen.chem_reflect (Gen.chem_diffuse_const p.2 D dt p.1) H)
      = (fun p : ℝ × ℝ => C20M.T H p.1 p.2) ∘ Prod.map (disp D dt) id :=
    funext fun p => chem_update_eq_T H D dt p.1 p.2
  have hinv := C20M.wellmixed_invariant H hH (dispLaw D dt) (dispLaw_symm D dt)
    (dispLaw_supp D dt H hstep)
  have hprod : (dispLaw D dt).prod (volume.restrict (Icc 0 H))
      = ((volume.restrict (Icc (0 : ℝ) 1)).prod (volume.restrict (Icc 0 H))).map
          (Prod.map (disp D dt) id) := by
    have := Measure.map_prod_map (volume.restrict (Icc (0 : ℝ) 1)) (volume.restrict (Icc 0 H))
      (measurable_disp D dt) measurable_id
    rw [Measure.map_id] at this
    exact this
  rw [hfun, ← Measure.map_map (C20M.measurable_T_uncurry H hH)
    ((measurable_disp D dt).prodMap measurable_id), ← hprod]
  exact hinv

end OnCode
